(* C09: the Good invariant is kept by add and discard, and the tree refines the abstract
   set (a strictly ascending list).  Uses the rotation specification of BbtRot.v. *)
From Coq Require Import ZArith List Bool Arith Lia Sorted.
From EpyV Require Import Model.Bbt Proofs.BbtRot.
Import ListNotations. Close Scope Z_scope. Open Scope nat_scope.

(* ------------------------------------------------------------------ ascending lists *)
Fixpoint sorted (l : list Z) : Prop :=
  match l with [] => True | x :: l' => Forall (fun y => (x < y)%Z) l' /\ sorted l' end.

Lemma sorted_app l1 d l2 :
  sorted (l1 ++ d :: l2) <->
  sorted l1 /\ sorted l2 /\ Forall (fun x => (x < d)%Z) l1 /\ Forall (fun x => (d < x)%Z) l2.
Proof.
  induction l1 as [|x l1 IH]; cbn [app sorted].
  - split; [intros [H1 H2]; auto | intros (_ & H2 & _ & H4); auto].
  - rewrite IH. rewrite Forall_app. split.
    + intros ([Ha Hb] & H1 & H2 & H3 & H4). inversion Hb; subst. repeat split; auto.
    + intros ((Ha & H1) & H2 & H3 & H4). inversion H3; subst. repeat split; auto.
      constructor; [assumption|]. eapply Forall_impl; [|exact H4]. cbn. intros; lia.
Qed.

Lemma sorted_app2 l1 l2 :
  sorted l1 -> sorted l2 -> (forall x y, In x l1 -> In y l2 -> (x < y)%Z) -> sorted (l1 ++ l2).
Proof.
  induction l1 as [|x l1 IH]; cbn [app sorted]; [auto|].
  intros [Ha H1] H2 H. split.
  - apply Forall_app. split; [assumption|]. apply Forall_forall. intros y Hy. apply H; [left; reflexivity|assumption].
  - apply IH; auto. intros; apply H; [right|]; assumption.
Qed.

Lemma sorted_StronglySorted l : sorted l <-> StronglySorted Z.lt l.
Proof.
  induction l as [|x l IH]; cbn [sorted].
  - split; [constructor|auto].
  - split.
    + intros [H1 H2]. constructor; [apply IH; assumption|assumption].
    + intros H. inversion H; subst. split; [assumption|apply IH; assumption].
Qed.

Lemma sorted_NoDup l : sorted l -> NoDup l.
Proof.
  induction l as [|x l IH]; cbn [sorted]; [constructor|].
  intros [H1 H2]. constructor; [|auto].
  intro Hin. rewrite Forall_forall in H1. specialize (H1 _ Hin). lia.
Qed.

Lemma ins_lt e d l1 l2 : Forall (fun x => (x < d)%Z) l1 -> (e < d)%Z -> ins e (l1 ++ d :: l2) = ins e l1 ++ d :: l2.
Proof.
  intros H He. induction l1 as [|x l1 IH]; cbn [app ins].
  - destruct (Z.eqb_spec e d); [lia|]. destruct (Z.ltb_spec e d); [reflexivity|lia].
  - inversion H; subst. destruct (Z.eqb_spec e x); [reflexivity|].
    destruct (Z.ltb_spec e x); [reflexivity|]. cbn [app]. rewrite IH by assumption. reflexivity.
Qed.
Lemma ins_gt e d l1 l2 : Forall (fun x => (x < d)%Z) l1 -> (d < e)%Z -> ins e (l1 ++ d :: l2) = l1 ++ d :: ins e l2.
Proof.
  intros H He. induction l1 as [|x l1 IH]; cbn [app ins].
  - destruct (Z.eqb_spec e d); [lia|]. destruct (Z.ltb_spec e d); [lia|reflexivity].
  - inversion H; subst. destruct (Z.eqb_spec e x); [lia|].
    destruct (Z.ltb_spec e x); [lia|]. rewrite IH by assumption. reflexivity.
Qed.
Lemma ins_eq d l1 l2 : Forall (fun x => (x < d)%Z) l1 -> ins d (l1 ++ d :: l2) = l1 ++ d :: l2.
Proof.
  intros H. induction l1 as [|x l1 IH]; cbn [app ins].
  - rewrite Z.eqb_refl. reflexivity.
  - inversion H; subst. destruct (Z.eqb_spec d x); [reflexivity|].
    destruct (Z.ltb_spec d x); [lia|]. rewrite IH by assumption. reflexivity.
Qed.
Lemma del_lt e d l1 l2 : Forall (fun x => (x < d)%Z) l1 -> (e < d)%Z -> del e (l1 ++ d :: l2) = del e l1 ++ d :: l2.
Proof.
  intros H He. induction l1 as [|x l1 IH]; cbn [app del].
  - destruct (Z.eqb_spec e d); [lia|]. destruct (Z.ltb_spec e d); [reflexivity|lia].
  - inversion H; subst. destruct (Z.eqb_spec e x); [reflexivity|].
    destruct (Z.ltb_spec e x); [reflexivity|]. cbn [app]. rewrite IH by assumption. reflexivity.
Qed.
Lemma del_gt e d l1 l2 : Forall (fun x => (x < d)%Z) l1 -> (d < e)%Z -> del e (l1 ++ d :: l2) = l1 ++ d :: del e l2.
Proof.
  intros H He. induction l1 as [|x l1 IH]; cbn [app del].
  - destruct (Z.eqb_spec e d); [lia|]. destruct (Z.ltb_spec e d); [lia|reflexivity].
  - inversion H; subst. destruct (Z.eqb_spec e x); [lia|].
    destruct (Z.ltb_spec e x); [lia|]. rewrite IH by assumption. reflexivity.
Qed.
Lemma del_eq d l1 l2 : Forall (fun x => (x < d)%Z) l1 -> del d (l1 ++ d :: l2) = l1 ++ l2.
Proof.
  intros H. induction l1 as [|x l1 IH]; cbn [app del].
  - rewrite Z.eqb_refl. reflexivity.
  - inversion H; subst. destruct (Z.eqb_spec d x); [lia|].
    destruct (Z.ltb_spec d x); [lia|]. rewrite IH by assumption. reflexivity.
Qed.
Lemma del_absent_small e l : Forall (fun x => (e < x)%Z) l -> del e l = l.
Proof.
  destruct l as [|x l]; [reflexivity|]. intros H. inversion H; subst. cbn [del].
  destruct (Z.eqb_spec e x); [lia|]. destruct (Z.ltb_spec e x); [reflexivity|lia].
Qed.

(* ins / del are the mathematical set operations on ascending lists *)
Lemma ins_In e l x : In x (ins e l) <-> x = e \/ In x l.
Proof.
  induction l as [|y l IH]; cbn [ins].
  - cbn. intuition.
  - destruct (Z.eqb_spec e y).
    + subst. cbn. intuition.
    + destruct (Z.ltb_spec e y); cbn [In]; [intuition|]. rewrite IH. intuition.
Qed.
Lemma del_In e l x : sorted l -> (In x (del e l) <-> In x l /\ x <> e).
Proof.
  induction l as [|y l IH]; cbn [del sorted]; [cbn; intuition|].
  intros [H1 H2]. rewrite Forall_forall in H1.
  destruct (Z.eqb_spec e y).
  - subst. cbn [In]. split.
    + intros Hx. split; [right; assumption|]. specialize (H1 _ Hx). lia.
    + intros [[Hx|Hx] Hne]; [congruence|assumption].
  - destruct (Z.ltb_spec e y); cbn [In].
    + split; [|intuition]. intros [Hx|Hx]; (split; [auto|]); [lia|]. specialize (H1 _ Hx). lia.
    + rewrite IH by assumption. split; [intuition; lia|]. intros [[Hx|Hx] Hne]; [left; assumption|right; auto].
Qed.
Lemma ins_Forall (P : Z -> Prop) e l : P e -> Forall P l -> Forall P (ins e l).
Proof. intros He H. apply Forall_forall. intros x Hx. apply ins_In in Hx. destruct Hx as [->|Hx]; [assumption|]. rewrite Forall_forall in H. auto. Qed.
Lemma del_subset e l x : In x (del e l) -> In x l.
Proof.
  induction l as [|y l IH]; cbn [del]; [auto|].
  destruct (Z.eqb_spec e y); [right; assumption|].
  destruct (Z.ltb_spec e y); [auto|]. cbn [In]. intros [Hx|Hx]; [left; assumption|right; auto].
Qed.
Lemma del_Forall (P : Z -> Prop) e l : Forall P l -> Forall P (del e l).
Proof. intros H. apply Forall_forall. intros x Hx. apply del_subset in Hx. rewrite Forall_forall in H. auto. Qed.
Lemma ins_sorted e l : sorted l -> sorted (ins e l).
Proof.
  induction l as [|y l IH]; cbn [ins sorted]; [auto|].
  intros [H1 H2]. destruct (Z.eqb_spec e y); [cbn [sorted]; auto|].
  destruct (Z.ltb_spec e y); cbn [sorted].
  - split; [|auto]. constructor; [assumption|]. eapply Forall_impl; [|exact H1]. cbn; intros; lia.
  - split; [|auto]. apply ins_Forall; [lia|assumption].
Qed.
Lemma del_sorted e l : sorted l -> sorted (del e l).
Proof.
  induction l as [|y l IH]; cbn [del sorted]; [auto|].
  intros [H1 H2]. destruct (Z.eqb_spec e y); [assumption|].
  destruct (Z.ltb_spec e y); cbn [sorted]; [auto|]. split; [apply del_Forall; assumption|auto].
Qed.

(* ------------------------------------------------------------------ the invariant *)
Definition BST (t : tree) : Prop := sorted (inorder t).
Definition Good (t : tree) : Prop := BST t /\ Inv t.

Lemma size_inorder t : size t = length (inorder t).
Proof. induction t as [|l IHl d h ls rs r IHr]; cbn [size inorder]; [reflexivity|]. rewrite app_length. cbn [length]. lia. Qed.
Lemma size_0 t : size t = 0 -> t = Leaf.
Proof. destruct t; [reflexivity|cbn [size]; lia]. Qed.
Lemma ht_0 t : ht t = 0 -> t = Leaf.
Proof. destruct t; [reflexivity|cbn [ht]; lia]. Qed.
Lemma inv_node l d h ls rs r : Inv (Node l d h ls rs r) ->
  Inv l /\ Inv r /\ Node l d h ls rs r = mk l d r /\ ht l <= S (ht r) /\ ht r <= S (ht l).
Proof.
  intros [(Hol & Hor & -> & -> & ->) (Hbl & Hbr & H1 & H2)].
  repeat split; try assumption. unfold mk. rewrite !ok_sh, !ok_slen by assumption. reflexivity.
Qed.
Lemma inv_mk l d r : Inv l -> Inv r -> ht l <= S (ht r) -> ht r <= S (ht l) -> Inv (mk l d r).
Proof. intros [? ?] [? ?] ? ?. split; [apply mk_ok|apply bal_mk]; assumption. Qed.
Lemma inv_leaf : Inv Leaf. Proof. split; exact I. Qed.
Lemma inv_single e : Inv (Node Leaf e 0 0 0 Leaf).
Proof. split; cbn; auto 10. Qed.

(* ------------------------------------------------------------------ rebalance at one node *)
Lemma unbal_mk_false l d r : Inv l -> Inv r -> ht l <= S (ht r) -> ht r <= S (ht l) -> unbal (mk l d r) = false.
Proof.
  intros [Hl _] [Hr _] H1 H2. rewrite unbal_mk by assumption.
  destruct (Nat.leb_spec (ht l) (S (ht r))), (Nat.leb_spec (ht r) (S (ht l))); cbn; try reflexivity; lia.
Qed.
Lemma unbal_mk_true l d r : Inv l -> Inv r -> (S (ht r) < ht l \/ S (ht l) < ht r) -> unbal (mk l d r) = true.
Proof.
  intros [Hl _] [Hr _] H. rewrite unbal_mk by assumption.
  destruct (Nat.leb_spec (ht l) (S (ht r))), (Nat.leb_spec (ht r) (S (ht l))); cbn; try reflexivity; lia.
Qed.

Definition RebalPost (l : tree) (d : Z) (r t : tree) : Prop :=
  Inv t /\ inorder t = inorder l ++ d :: inorder r /\ size t = size l + 1 + size r /\
  (ht t = S (Nat.max (ht l) (ht r)) \/
   (S (ht t) = S (Nat.max (ht l) (ht r)) /\ (ht l = S (S (ht r)) \/ ht r = S (S (ht l))))).

Lemma rot_at l d r : Inv l -> Inv r -> (ht l = S (S (ht r)) \/ ht r = S (S (ht l))) ->
  let t := rot (S (sh (mk l d r))) (mk l d r) in
  RebalPost l d r t /\
  ((ht l = S (S (ht r)) -> ~ level l -> ht t = S (ht r) + 1) /\ (ht r = S (S (ht l)) -> ~ level r -> ht t = S (ht l) + 1)).
Proof.
  intros Hl Hr Hd.
  assert (Hsh : sh (mk l d r) = ht (mk l d r)) by (apply ok_sh, mk_ok; [apply Hl|apply Hr]).
  rewrite Hsh.
  destruct (rot_spec (S (ht (mk l d r))) l d r Hl Hr (Nat.le_succ_diag_r _) Hd) as (Hi & Hin & Hsz & Hht & Hlv1 & Hlv2).
  set (t := rot _ _) in *. clearbody t. rewrite ht_mk in *. rewrite inorder_mk in Hin. rewrite size_mk in Hsz.
  split; [split; [assumption|split; [assumption|split; [assumption|]]]|].
  - destruct Hht as [Hht|Hht]; [left; assumption|right; split; assumption].
  - split; intros H1 H2; [specialize (Hlv1 H1 H2)|specialize (Hlv2 H1 H2)]; lia.
Qed.

Lemma rebal_spec l d r : Inv l -> Inv r -> ht l <= S (S (ht r)) -> ht r <= S (S (ht l)) ->
  RebalPost l d r (rebal (mk l d r)).
Proof.
  intros Hl Hr H1 H2. unfold rebal. change (upd (mk l d r)) with (mk l d r).
  destruct (Nat.le_gt_cases (ht l) (S (ht r))) as [Ha|Ha]; [destruct (Nat.le_gt_cases (ht r) (S (ht l))) as [Hb|Hb]|].
  - rewrite unbal_mk_false by assumption.
    split; [apply inv_mk; assumption|]. rewrite inorder_mk, size_mk, ht_mk. auto.
  - rewrite unbal_mk_true by (assumption || lia). apply rot_at; [assumption|assumption|lia].
  - rewrite unbal_mk_true by (assumption || lia). apply rot_at; [assumption|assumption|lia].
Qed.

(* ------------------------------------------------------------------ add *)
Definition AddPost (t t' : tree) (st : ast) : Prop :=
  Inv t' /\
  match st with
  | Dup => t' = t
  | Added => size t' = S (size t) /\ (ht t' = ht t \/ (ht t' = S (ht t) /\ (t = Leaf \/ ~ level t')))
  | Rotated => size t' = S (size t) /\ ht t' = ht t
  end.

(* one level of [add] on the way back up, left and right *)
Lemma add_up_l l l' d r st : Inv l -> Inv r -> ht l <= S (ht r) -> ht r <= S (ht l) ->
  AddPost l l' st -> st <> Dup ->
  let res := match st with
             | Dup => (mk l d r, Dup)
             | Added => let t' := mk l' d r in if unbal t' then (rot (S (sh t')) t', Rotated) else (t', Added)
             | Rotated => (mk l' d r, Rotated)
             end in
  AddPost (mk l d r) (fst res) (snd res) /\ inorder (fst res) = inorder l' ++ d :: inorder r.
Proof.
  intros Hl Hr H1 H2 [Hl' Hp] Hne. destruct st; [congruence| |]; cbv zeta.
  - destruct Hp as [Hsz Hht].
    destruct (Nat.le_gt_cases (ht l') (S (ht r))) as [Ha|Ha].
    + rewrite unbal_mk_false by (assumption || lia). cbn [fst snd]. split; [|apply inorder_mk].
      split; [apply inv_mk; (assumption || lia)|]. rewrite !size_mk, !ht_mk. split; [lia|].
      destruct Hht as [Hht|[Hht Hlv]]; [left; lia|].
      destruct (Nat.le_gt_cases (ht l') (ht r)); [left; lia|right]. split; [lia|]. right. cbn [level mk]. lia.
    + rewrite unbal_mk_true by (assumption || lia). cbn [fst snd].
      destruct Hht as [Hht|[Hht Hlv]]; [lia|].
      destruct Hlv as [->|Hlv]; [cbn [ht] in *; lia|].
      destruct (rot_at l' d r Hl' Hr) as ((Hi & Hin & Hs & _) & Hh & _); [lia|].
      specialize (Hh ltac:(lia) Hlv).
      split; [|exact Hin]. split; [assumption|]. rewrite Hs, size_mk, ht_mk. split; lia.
  - destruct Hp as [Hsz Hht]. cbn [fst snd]. split; [|apply inorder_mk].
    split; [apply inv_mk; (assumption || lia)|]. rewrite !size_mk, !ht_mk. split; lia.
Qed.
Lemma add_up_r l d r r' st : Inv l -> Inv r -> ht l <= S (ht r) -> ht r <= S (ht l) ->
  AddPost r r' st -> st <> Dup ->
  let res := match st with
             | Dup => (mk l d r, Dup)
             | Added => let t' := mk l d r' in if unbal t' then (rot (S (sh t')) t', Rotated) else (t', Added)
             | Rotated => (mk l d r', Rotated)
             end in
  AddPost (mk l d r) (fst res) (snd res) /\ inorder (fst res) = inorder l ++ d :: inorder r'.
Proof.
  intros Hl Hr H1 H2 [Hr' Hp] Hne. destruct st; [congruence| |]; cbv zeta.
  - destruct Hp as [Hsz Hht].
    destruct (Nat.le_gt_cases (ht r') (S (ht l))) as [Ha|Ha].
    + rewrite unbal_mk_false by (assumption || lia). cbn [fst snd]. split; [|apply inorder_mk].
      split; [apply inv_mk; (assumption || lia)|]. rewrite !size_mk, !ht_mk. split; [lia|].
      destruct Hht as [Hht|[Hht Hlv]]; [left; lia|].
      destruct (Nat.le_gt_cases (ht r') (ht l)); [left; lia|right]. split; [lia|]. right. cbn [level mk]. lia.
    + rewrite unbal_mk_true by (assumption || lia). cbn [fst snd].
      destruct Hht as [Hht|[Hht Hlv]]; [lia|].
      destruct Hlv as [->|Hlv]; [cbn [ht] in *; lia|].
      destruct (rot_at l d r' Hl Hr') as ((Hi & Hin & Hs & _) & _ & Hh); [lia|].
      specialize (Hh ltac:(lia) Hlv).
      split; [|exact Hin]. split; [assumption|]. rewrite Hs, size_mk, ht_mk. split; lia.
  - destruct Hp as [Hsz Hht]. cbn [fst snd]. split; [|apply inorder_mk].
    split; [apply inv_mk; (assumption || lia)|]. rewrite !size_mk, !ht_mk. split; lia.
Qed.

Lemma add_spec e t : Inv t -> BST t ->
  AddPost t (fst (add e t)) (snd (add e t)) /\ inorder (fst (add e t)) = ins e (inorder t).
Proof.
  induction t as [|l IHl d h ls rs r IHr]; intros Hi Hb.
  - cbn. split; [|reflexivity]. split; [apply inv_single|]. cbn. auto.
  - destruct (inv_node _ _ _ _ _ _ Hi) as (Hl & Hr & Heq & H1 & H2).
    unfold BST in Hb. cbn [inorder] in Hb. apply sorted_app in Hb. destruct Hb as (Hsl & Hsr & Hfl & Hfr).
    cbn [add inorder].
    destruct (Z.eqb_spec e d) as [->|Hne].
    + cbn [fst snd]. split; [split; [assumption|reflexivity]|]. symmetry. apply ins_eq. assumption.
    + destruct (Z.ltb_spec e d) as [Hlt|Hge].
      * specialize (IHl Hl Hsl). destruct IHl as [IH1 IH2].
        destruct (add e l) as [l' st]. cbn [fst snd] in IH1, IH2.
        rewrite ins_lt by assumption. rewrite <- IH2.
        destruct st.
        -- cbn [fst snd]. destruct IH1 as [_ ->]. split; [split; [assumption|reflexivity]|reflexivity].
        -- rewrite Heq at 1. apply (add_up_l l l' d r Added); try assumption. discriminate.
        -- rewrite Heq at 1. apply (add_up_l l l' d r Rotated); try assumption. discriminate.
      * specialize (IHr Hr Hsr). destruct IHr as [IH1 IH2].
        destruct (add e r) as [r' st]. cbn [fst snd] in IH1, IH2.
        rewrite ins_gt by (assumption || lia). rewrite <- IH2.
        destruct st.
        -- cbn [fst snd]. destruct IH1 as [_ ->]. split; [split; [assumption|reflexivity]|reflexivity].
        -- rewrite Heq at 1. apply (add_up_r l d r r' Added); try assumption. discriminate.
        -- rewrite Heq at 1. apply (add_up_r l d r r' Rotated); try assumption. discriminate.
Qed.

Theorem add_good e t : Good t -> Good (fst (add e t)).
Proof.
  intros [Hb Hi]. destruct (add_spec e t Hi Hb) as [[Hi' _] Hin].
  split; [|assumption]. unfold BST. rewrite Hin. apply ins_sorted. exact Hb.
Qed.
Theorem add_inorder e t : Good t -> inorder (fst (add e t)) = ins e (inorder t).
Proof. intros [Hb Hi]. apply add_spec; assumption. Qed.

(* ------------------------------------------------------------------ discard *)
(* what removing one element does to the shape: height the same or one less *)
Definition Shrunk (t t' : tree) : Prop :=
  Inv t' /\ S (size t') = size t /\ (ht t' = ht t \/ S (ht t') = ht t).

Lemma rebal_after_l l l' d r : Inv r -> ht l <= S (ht r) -> ht r <= S (ht l) -> Shrunk l l' ->
  let t' := rebal (mk l' d r) in
  Shrunk (mk l d r) t' /\ inorder t' = inorder l' ++ d :: inorder r.
Proof.
  intros Hr H1 H2 (Hl' & Hs & Hh). cbv zeta.
  destruct (rebal_spec l' d r Hl' Hr) as (Hi & Hin & Hsz & Hht); [lia|lia|].
  split; [|exact Hin]. split; [assumption|]. rewrite size_mk, ht_mk, Hsz. split; lia.
Qed.
Lemma rebal_after_r l d r r' : Inv l -> ht l <= S (ht r) -> ht r <= S (ht l) -> Shrunk r r' ->
  let t' := rebal (mk l d r') in
  Shrunk (mk l d r) t' /\ inorder t' = inorder l ++ d :: inorder r'.
Proof.
  intros Hl H1 H2 (Hr' & Hs & Hh). cbv zeta.
  destruct (rebal_spec l d r' Hl Hr') as (Hi & Hin & Hsz & Hht); [lia|lia|].
  split; [|exact Hin]. split; [assumption|]. rewrite size_mk, ht_mk, Hsz. split; lia.
Qed.

Lemma remove_max_spec t : Inv t -> t <> Leaf ->
  exists m t', remove_max t = Some (m, t') /\ Shrunk t t' /\ inorder t = inorder t' ++ [m].
Proof.
  induction t as [|l IHl d h ls rs r IHr]; intros Hi Hne; [congruence|].
  destruct (inv_node _ _ _ _ _ _ Hi) as (Hl & Hr & Heq & H1 & H2).
  cbn [remove_max]. destruct r as [|rl rd rh rls rrs rr] eqn:Er.
  - exists d, l. split; [reflexivity|]. unfold Shrunk. cbn [inorder size ht] in *. split; [|reflexivity].
    split; [assumption|]. split; lia.
  - rewrite <- Er in *. destruct (IHr Hr) as (m & r' & Hrm & Hsh & Hin); [subst; discriminate|].
    rewrite Hrm. exists m, (rebal (mk l d r')). split; [reflexivity|].
    destruct (rebal_after_r l d r r' Hl H1 H2 Hsh) as [Hs Hi']. rewrite Heq. split; [exact Hs|].
    rewrite Hi', inorder_mk, Hin, <- app_assoc. reflexivity.
Qed.
Lemma remove_min_spec t : Inv t -> t <> Leaf ->
  exists m t', remove_min t = Some (m, t') /\ Shrunk t t' /\ inorder t = m :: inorder t'.
Proof.
  induction t as [|l IHl d h ls rs r IHr]; intros Hi Hne; [congruence|].
  destruct (inv_node _ _ _ _ _ _ Hi) as (Hl & Hr & Heq & H1 & H2).
  cbn [remove_min]. destruct l as [|ll ld lh lls lrs lr] eqn:El.
  - exists d, r. split; [reflexivity|]. unfold Shrunk. cbn [inorder size ht app] in *. split; [|reflexivity].
    split; [assumption|]. split; lia.
  - rewrite <- El in *. destruct (IHl Hl) as (m & l' & Hrm & Hsh & Hin); [subst; discriminate|].
    rewrite Hrm. exists m, (rebal (mk l' d r)). split; [reflexivity|].
    destruct (rebal_after_l l l' d r Hr H1 H2 Hsh) as [Hs Hi']. rewrite Heq. split; [exact Hs|].
    rewrite Hi', inorder_mk, Hin. reflexivity.
Qed.

Definition DiscardPost (t t' : tree) (p : bool) : Prop :=
  if p then Shrunk t t' else t' = t.

Lemma discard_spec e t : Inv t -> BST t ->
  DiscardPost t (fst (discard e t)) (snd (discard e t)) /\
  inorder (fst (discard e t)) = del e (inorder t) /\
  (snd (discard e t) = true <-> In e (inorder t)).
Proof.
  induction t as [|l IHl d h ls rs r IHr]; intros Hi Hb.
  - cbn. split; [reflexivity|]. split; [reflexivity|]. split; [discriminate|tauto].
  - destruct (inv_node _ _ _ _ _ _ Hi) as (Hl & Hr & Heq & H1 & H2).
    unfold BST in Hb. cbn [inorder] in Hb. apply sorted_app in Hb. destruct Hb as (Hsl & Hsr & Hfl & Hfr).
    assert (Hnl : ~ In d (inorder l)) by (intro H; rewrite Forall_forall in Hfl; specialize (Hfl _ H); lia).
    assert (Hnr : ~ In d (inorder r)) by (intro H; rewrite Forall_forall in Hfr; specialize (Hfr _ H); lia).
    cbn [discard inorder].
    destruct (Z.eqb_spec e d) as [->|Hne].
    + (* found *)
      rewrite del_eq by assumption.
      assert (Hind : In d (inorder l ++ d :: inorder r)) by (apply in_or_app; right; left; reflexivity).
      destruct l as [|ll ld lh lls lrs lr] eqn:El; [destruct r as [|rl rd rh rls rrs rr] eqn:Er|destruct r as [|rl rd rh rls rrs rr] eqn:Er].
      * cbn. split; [|split; [reflexivity|tauto]]. split; [apply inv_leaf|]. cbn. split; lia.
      * rewrite <- Er in *. cbn [fst snd]. split; [|split; [reflexivity|tauto]].
        unfold DiscardPost, Shrunk. cbn [ht size] in *. split; [assumption|]. split; lia.
      * rewrite <- El in *. cbn [fst snd]. cbn [inorder]. rewrite app_nil_r.
        split; [|split; [reflexivity|tauto]]. unfold DiscardPost, Shrunk. cbn [ht size] in *. split; [assumption|]. split; lia.
      * rewrite <- El, <- Er in *.
        destruct (stored_h r <? stored_h l).
        -- destruct (remove_max_spec l Hl) as (m & l' & Hrm & Hsh & Hin); [subst; discriminate|].
           rewrite Hrm. cbn [fst snd].
           destruct (rebal_after_l l l' m r Hr H1 H2 Hsh) as [(Hi' & Hs' & Hh') Hin'].
           split; [|split; [|tauto]].
           ++ unfold DiscardPost, Shrunk. split; [assumption|]. rewrite size_mk, ht_mk in *. cbn [size ht]. split; lia.
           ++ rewrite Hin', Hin, <- app_assoc. reflexivity.
        -- destruct (remove_min_spec r Hr) as (m & r' & Hrm & Hsh & Hin); [subst; discriminate|].
           rewrite Hrm. cbn [fst snd].
           destruct (rebal_after_r l m r r' Hl H1 H2 Hsh) as [(Hi' & Hs' & Hh') Hin'].
           split; [|split; [|tauto]].
           ++ unfold DiscardPost, Shrunk. split; [assumption|]. rewrite size_mk, ht_mk in *. cbn [size ht]. split; lia.
           ++ rewrite Hin', Hin. reflexivity.
    + destruct (Z.ltb_spec e d) as [Hlt|Hge].
      * specialize (IHl Hl Hsl). destruct IHl as (IH1 & IH2 & IH3).
        rewrite del_lt by assumption. rewrite <- IH2.
        assert (Hmem : In e (inorder l ++ d :: inorder r) <-> In e (inorder l)).
        { rewrite in_app_iff. cbn [In]. split; [|auto]. intros [H|[H|H]]; [assumption|congruence|].
          rewrite Forall_forall in Hfr. specialize (Hfr _ H). lia. }
        rewrite Hmem, <- IH3.
        destruct (discard e l) as [l' p]. cbn [fst snd] in *. destruct p; cbn [fst snd].
        -- destruct (rebal_after_l l l' d r Hr H1 H2 IH1) as [Hs Hin']. rewrite Heq.
           split; [exact Hs|]. split; [exact Hin'|tauto].
        -- cbn in IH1. subst l'. split; [reflexivity|]. split; [reflexivity|tauto].
      * specialize (IHr Hr Hsr). destruct IHr as (IH1 & IH2 & IH3).
        rewrite del_gt by (assumption || lia). rewrite <- IH2.
        assert (Hmem : In e (inorder l ++ d :: inorder r) <-> In e (inorder r)).
        { rewrite in_app_iff. cbn [In]. split; [|auto]. intros [H|[H|H]]; [|congruence|assumption].
          rewrite Forall_forall in Hfl. specialize (Hfl _ H). lia. }
        rewrite Hmem, <- IH3.
        destruct (discard e r) as [r' p]. cbn [fst snd] in *. destruct p; cbn [fst snd].
        -- destruct (rebal_after_r l d r r' Hl H1 H2 IH1) as [Hs Hin']. rewrite Heq.
           split; [exact Hs|]. split; [exact Hin'|tauto].
        -- cbn in IH1. subst r'. split; [reflexivity|]. split; [reflexivity|tauto].
Qed.

Theorem discard_good e t : Good t -> Good (fst (discard e t)).
Proof.
  intros [Hb Hi]. destruct (discard_spec e t Hi Hb) as (Hp & Hin & _).
  split.
  - unfold BST. rewrite Hin. apply del_sorted. exact Hb.
  - unfold DiscardPost in Hp. destruct (snd (discard e t)); [apply Hp|rewrite Hp; assumption].
Qed.
Theorem discard_inorder e t : Good t -> inorder (fst (discard e t)) = del e (inorder t).
Proof. intros [Hb Hi]. apply discard_spec; assumption. Qed.
Theorem discard_present e t : Good t -> (snd (discard e t) = true <-> In e (inorder t)).
Proof. intros [Hb Hi]. apply discard_spec; assumption. Qed.

(* ------------------------------------------------------------------ histories *)
Lemma good_leaf : Good Leaf.
Proof. split; [exact I|apply inv_leaf]. Qed.

Lemma discard_false_id e t : snd (discard e t) = false -> fst (discard e t) = t.
Proof.
  induction t as [|l IHl d h ls rs r IHr]; [reflexivity|]. cbn [discard].
  destruct (e =? d)%Z.
  - destruct l, r; cbn [fst snd]; try discriminate.
    match goal with |- context [if ?c then _ else _] => destruct c end;
    match goal with |- context [match ?c with Some _ => _ | None => _ end] => destruct c as [[? ?]|] end; cbn [fst snd]; discriminate.
  - destruct (e <? d)%Z; [destruct (discard e l) as [l' p]|destruct (discard e r) as [r' p]]; destruct p; cbn; (discriminate || reflexivity).
Qed.

Lemma apply_cases t o :
  apply t o = match o with A e => fst (add e t) | D e => fst (discard e t)
                      | R e => fst (discard e t) | _ => t end.
Proof.
  unfold apply, step. destruct o as [e|e|e|ints|e|]; try reflexivity.
  - pose proof (discard_false_id e t) as H. destruct (discard e t) as [t' p]. cbn [fst snd] in *.
    destruct p; cbn [fst]; [reflexivity|]. symmetry; apply H; reflexivity.
  - destruct t; [reflexivity|]. destruct (run_ct _ ints). reflexivity.
Qed.

Theorem apply_good t o : Good t -> Good (apply t o).
Proof.
  intros H. rewrite apply_cases. destruct o; try assumption; [apply add_good|apply discard_good|apply discard_good]; assumption.
Qed.
Theorem apply_inorder t o : Good t -> inorder (apply t o) = aapply (inorder t) o.
Proof.
  intros H. rewrite apply_cases. destruct o; cbn [aapply]; try reflexivity;
    [apply add_inorder|apply discard_inorder|apply discard_inorder]; assumption.
Qed.

Lemma fold_good ops : forall t, Good t ->
  Good (fold_left apply ops t) /\ inorder (fold_left apply ops t) = fold_left aapply ops (inorder t).
Proof.
  induction ops as [|o ops IH]; intros t H; cbn [fold_left]; [auto|].
  destruct (IH (apply t o) (apply_good t o H)) as [H1 H2]. split; [assumption|].
  rewrite H2, apply_inorder by assumption. reflexivity.
Qed.
Theorem history_good ops : Good (run ops).
Proof. apply (fold_good ops Leaf good_leaf). Qed.
Theorem history_inorder ops : inorder (run ops) = aset ops.
Proof. apply (fold_good ops Leaf good_leaf). Qed.

(* the abstract side really is a mathematical set *)
Lemma aset_snoc ops o : aset (ops ++ [o]) = aapply (aset ops) o.
Proof. unfold aset. rewrite fold_left_app. reflexivity. Qed.
Lemma aset_sorted ops : sorted (aset ops).
Proof. rewrite <- history_inorder. apply history_good. Qed.

(* ------------------------------------------------------------------ queries *)
Lemma find_In e t : BST t -> (find e t = true <-> In e (inorder t)).
Proof.
  unfold BST. induction t as [|l IHl d h ls rs r IHr]; cbn [find inorder]; intros Hb.
  - cbn. split; [discriminate|tauto].
  - apply sorted_app in Hb. destruct Hb as (Hsl & Hsr & Hfl & Hfr).
    rewrite Forall_forall in Hfl, Hfr. rewrite in_app_iff. cbn [In].
    destruct (Z.eqb_spec e d) as [->|Hne]; [split; auto|].
    destruct (Z.ltb_spec e d) as [Hlt|Hge].
    + rewrite IHl by assumption. split; [auto|]. intros [H|[H|H]]; [assumption|congruence|].
      specialize (Hfr _ H). lia.
    + rewrite IHr by assumption. split; [auto|]. intros [H|[H|H]]; [|congruence|assumption].
      specialize (Hfl _ H). lia.
Qed.
Lemma len_good t : Good t -> len t = length (inorder t).
Proof. intros [_ [Ho _]]. unfold len. rewrite ok_slen by assumption. apply size_inorder. Qed.
Lemma is_empty_iff t : is_empty t = true <-> inorder t = [].
Proof.
  destruct t as [|l d h ls rs r]; cbn [is_empty inorder]; [tauto|].
  split; [discriminate|]. intros H. destruct (inorder l); discriminate.
Qed.

(* remove: KeyError exactly when absent, and then nothing changes *)
Lemma remove_spec e t : Good t ->
  (In e (inorder t) -> step t (R e) = (fst (discard e t), RUnit, [])) /\
  (~ In e (inorder t) -> step t (R e) = (t, RKeyError, [])).
Proof.
  intros H. pose proof (discard_present e t H) as Hp. cbn [step].
  destruct (discard e t) as [t' p]. cbn [fst snd] in *. destruct p.
  - split; [reflexivity|]. intros Hn. exfalso. apply Hn, Hp. reflexivity.
  - split; [|reflexivity]. intros Hin. apply Hp in Hin. discriminate.
Qed.

(* ------------------------------------------------------------------ int pairs *)
(* (a, b) |-> a * K + b is an order isomorphism from lexicographic pairs with 0 <= b < K *)
Lemma pair_code_lt K a b c d : (0 <= b < K)%Z -> (0 <= d < K)%Z ->
  ((a * K + b < c * K + d)%Z <-> (a < c)%Z \/ (a = c /\ b < d)%Z).
Proof. intros Hb Hd. split; [intros H|intros [H|[-> H]]]; nia. Qed.
Lemma pair_code_eq K a b c d : (0 <= b < K)%Z -> (0 <= d < K)%Z ->
  ((a * K + b = c * K + d)%Z <-> a = c /\ b = d).
Proof. intros Hb Hd. split; [intros H|intros [-> ->]; reflexivity]. assert (a = c) by nia. subst. split; [reflexivity|lia]. Qed.
