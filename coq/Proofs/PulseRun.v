(* The invariant of Proofs/PulseInv.v along whole runs: set-up, every event, both scheduler loops
   (every state a run passes through between events is [reach]able), and the statements of C20 read
   off it. *)
From Coq Require Import List ZArith QArith Qabs Bool Arith Lia Lqa.
From EpyV Require Import Lib.Prelude Model.Kernel Model.Pulse Proofs.KernelBase Proofs.PulseBase Proofs.PulseInv.
Import ListNotations.
Open Scope Q_scope.

Section Run.
Variable cfg : pcfg.
Variable ub : Q -> Q.
Hypothesis ub_mono : forall x y, x <= y -> ub x <= ub y.
Hypothesis period_nonneg : 0 <= pc_period cfg.
Variable oracle : list (rkind * Q).
Variable orders : list (list Z).
Notation tb := (pulse_table cfg oracle orders).
Notation period := (pc_period cfg).

(* the states of a run between events *)
Inductive reach : kst -> Prop :=
| rc_setup rs ls ds : reach (setup_state tb rs ls ds)
| rc_discard s : reach s -> reach (discard s)
| rc_clock t s : reach s -> reach (set_clock t s)
| rc_stuck s : reach s -> reach (set_stuck s)
| rc_event s h : reach s -> head (queue s) = Some h -> e_live h = true -> reach (pend_step tb h s).

Definition Inv (s : kst) : Prop := good ub (pw_reqs (world s)) -> PInv cfg ub s.

(* ------------------------------------------------------------------ set-up *)
Definition state0 (rs ls : list Q) (ds : list nat) : kst :=
  {| clock := 0; nextid := 0; queue := []; loci := []; world := fst (init_phases cfg oracle orders);
     ids := []; out := []; rands := rs; lns := ls; draws := ds; stuck := false |}.

Lemma setup_eq rs ls ds :
  setup_state tb rs ls ds
  = run_actions 0 0 (EN 0) (snd (init_phases cfg oracle orders) ++ probe cfg (fst (init_phases cfg oracle orders))) (state0 rs ls ds).
Proof. reflexivity. Qed.

Lemma link_empty s : queue s = [] -> ids s = [] -> link [] [] 0 s.
Proof.
  intros Eq Ei. split; rewrite ?Eq, ?Ei.
  - reflexivity.
  - constructor.
  - intros x [].
  - intros i [].
  - intros n k T Hn. discriminate.
  - intros n k T [].
  - intros x [].
Qed.

Lemma setup_Inv rs ls ds : Inv (setup_state tb rs ls ds).
Proof.
  intros Hg. rewrite setup_eq in *. rewrite run_actions_app in *.
  pose proof (init_phases_steps cfg oracle orders) as HS.
  set (st := init_phases cfg oracle orders) in *.
  assert (HW : world (run_actions 0 0 (EN 0) (probe cfg (fst st)) (run_actions 0 0 (EN 0) (snd st) (state0 rs ls ds))) = fst st)
    by (rewrite !run_actions_world; reflexivity).
  rewrite HW in Hg.
  destruct (sim_qsteps cfg 0 (EN 0) _ _ _ HS (state0 rs ls ds) []) as [L [C [O _]]].
  { cbn [fst snd run_actions fold_left init_world pw_ev pw_nposted]. apply link_empty; reflexivity. }
  { cbn. lra. }
  { apply (good_good_lo ub), Hg. }
  rewrite holes_after_nil in L. cbn [fst snd] in L, C, O.
  destruct (run_queries 0 0 (EN 0) (probe cfg (fst st)) (run_actions 0 0 (EN 0) (snd st) (state0 rs ls ds)) (probe_queries cfg (fst st)))
    as [Q1 [Q2 [Q3 [Q4 [Q5 Q6]]]]].
  destruct (qsteps_keeps _ _ _ _ _ HS) as [F [N _]]. cbn [fst init_world pw_ftimes pw_fnodes] in F, N.
  split; rewrite ?HW.
  - eapply link_ext; [| | |exact L]; assumption.
  - intros n Hn. rewrite <- ev_of_look. apply (qsteps_sets_dom _ _ _ _ _ HS n Hn).
  - unfold lastT. rewrite F.
    pose proof (tm_qsteps cfg ub ub_mono period_nonneg 0 _ _ _ HS Hg []) as T1.
    rewrite holes_after_nil in T1. apply T1. intros n k T Hn. discriminate.
  - rewrite F. exact I.
  - rewrite F, N. reflexivity.
  - rewrite Q5, O, F, N. reflexivity.
Qed.

(* ------------------------------------------------------------------ every reachable state *)
Lemma reach_Inv s : reach s -> Inv s.
Proof.
  induction 1 as [rs ls ds|s R IH|t s R IH|s R IH|s h R IH Hh Hl].
  - apply setup_Inv.
  - intros Hg. apply PInv_discard, IH, Hg.
  - intros Hg. eapply PInv_ext; [| | | | |apply IH, Hg]; reflexivity.
  - intros Hg. eapply PInv_ext; [| | | | |apply IH, Hg]; reflexivity.
  - intros Hg. destruct (pend_step_reqs cfg oracle orders h s) as [lr Hlr].
    assert (Hg0 : good ub (pw_reqs (world s))) by (rewrite Hlr in Hg; eapply good_app; exact Hg).
    apply (pend_step_PInv cfg ub ub_mono period_nonneg oracle orders s h (IH Hg0) Hh Hl Hg).
Qed.

(* ------------------------------------------------------------------ the loops only pass through reachable states *)
Lemma run_pending_reach pf : forall t n s, reach s -> reach (snd (run_pending tb pf t n s)).
Proof.
  induction pf as [|pf IH]; intros t n s R; cbn [run_pending].
  - apply rc_stuck, R.
  - pose proof (rc_discard s R) as R0.
    destruct (head (queue (discard s))) as [h|] eqn:Eh; [|exact R0].
    destruct (Qle_bool (e_time h) t); [|exact R0].
    apply IH. apply (rc_event (discard s) h R0 Eh). eapply discard_head_live; exact Eh.
Qed.

Lemma pulse_transitions : transitions tb = [].
Proof. reflexivity. Qed.
Lemma pulse_per_element : per_element tb = [].
Proof. reflexivity. Qed.
Lemma pulse_fixed_rate : fixed_rate tb = [].
Proof. reflexivity. Qed.

Lemma stoch_loop_reach pf fuel : forall t ev s, reach s -> reach (snd (stoch_loop tb pf fuel t ev s)).
Proof.
  induction fuel as [|f IH]; intros t ev s R; cbn [stoch_loop].
  - apply rc_stuck, R.
  - destruct (Qle_bool (t_maxtime tb) t || t_equil tb (loci s) (world s)); [exact R|].
    rewrite pulse_transitions. cbn [sum_rates fold_left].
    change (Qeq_bool 0 0) with true. cbn iota.
    unfold next_pending_time.
    destruct (head (queue (discard s))) as [h|] eqn:Eh; cbn [option_map]; [|apply rc_discard, R].
    pose proof (run_pending_reach pf (e_time h) 0 (discard s) (rc_discard s R)) as R1.
    destruct (run_pending tb pf (e_time h) 0 (discard s)) as [n s'']. apply IH. exact R1.
Qed.

Lemma sync_loop_reach pf fuel : forall t ev k s, reach s -> reach (snd (sync_loop tb pf fuel t ev k s)).
Proof.
  induction fuel as [|f IH]; intros t ev k s R; cbn [sync_loop].
  - apply rc_stuck, R.
  - destruct (Qle_bool (t_maxtime tb) t || t_equil tb (loci s) (world s)); [exact R|].
    pose proof (run_pending_reach pf t 0 (set_clock t s) (rc_clock t s R)) as R1.
    destruct (run_pending tb pf t 0 (set_clock t s)) as [n s1]. cbn [snd] in R1.
    unfold tranche. rewrite pulse_per_element, pulse_fixed_rate. cbn [tranche_elem tranche_fixed app fire_tranche].
    apply IH. apply rc_clock, R1.
Qed.

Lemma stoch_run_reach pf fuel rs ls ds : reach (r_final (stoch_run tb pf fuel rs ls ds)).
Proof.
  unfold stoch_run.
  pose proof (stoch_loop_reach pf fuel 0 0%nat _ (rc_setup rs ls ds)) as R.
  destruct (stoch_loop tb pf fuel 0 0 (setup_state tb rs ls ds)) as [[t ev] s]. exact R.
Qed.

Lemma sync_run_reach pf fuel rs ds : reach (r_final (sync_run tb pf fuel rs ds)).
Proof.
  unfold sync_run.
  pose proof (sync_loop_reach pf fuel 1 0%nat 0%nat _ (rc_setup rs [] ds)) as R.
  destruct (sync_loop tb pf fuel 1 0 0 (setup_state tb rs [] ds)) as [[[t ev] k] s]. exact R.
Qed.

(* ------------------------------------------------------------------ exactly one live entry per node *)
Definition live_of (n : Z) (x : entry) : bool := e_live x && elem_eqb (e_elem x) (EN n).

Lemma all_same_nodup {A} (x : A) l : NoDup l -> In x l -> (forall y, In y l -> y = x) -> l = [x].
Proof.
  intros Hnd Hin Hall. destruct l as [|a l]; [destruct Hin|].
  assert (a = x) by (apply Hall; left; reflexivity). subst a.
  destruct l as [|b l]; [reflexivity|].
  assert (b = x) by (apply Hall; right; left; reflexivity). subst b.
  inversion Hnd as [|? ? Hn _]; subst. exfalso. apply Hn. left. reflexivity.
Qed.

Lemma NoDup_of_map {A B} (f : A -> B) l : NoDup (map f l) -> NoDup l.
Proof.
  induction l as [|a l IH]; cbn; intros H; [constructor|]. inversion H as [|? ? Hn Hd]; subst.
  constructor; [|apply IH, Hd]. intros Hin. apply Hn, in_map, Hin.
Qed.

Lemma link_one_live m np (s : kst) n k T : link [] m np s -> ev_look m n = Some (k, T) ->
  filter (live_of n) (queue s) = [fentry T (nth k (ids s) 0%nat) n].
Proof.
  intros L Hn. destruct (lk_fwd _ _ _ _ L n k T Hn (fun x => x)) as [_ Hin].
  apply all_same_nodup.
  - apply NoDup_filter. eapply NoDup_of_map. exact (lk_nodup _ _ _ _ L).
  - apply filter_In. split; [exact Hin|]. unfold live_of. cbn. apply Z.eqb_refl.
  - intros y Hy. apply filter_In in Hy. destruct Hy as [Hy Hp]. unfold live_of in Hp.
    apply andb_true_iff in Hp. destruct Hp as [Hl He].
    destruct (lk_bwd _ _ _ _ L y Hy Hl) as [n' [k' [T' [A [_ C]]]]]. subst y. cbn in He.
    apply Z.eqb_eq in He. subst n'. rewrite Hn in A. assert (k' = k /\ T' = T) as [-> ->] by (split; congruence). reflexivity.
Qed.

End Run.

(* ------------------------------------------------------------------ with only the lower hypothesis on the oracle *)
Definition qmax (a b : Q) : Q := if Qle_bool a b then b else a.
Definition maxans (l : list req) : Q := fold_right (fun r a => qmax (rq_ans r) a) 0 l.

Lemma qmax_l a b : a <= qmax a b.
Proof. unfold qmax. destruct (Qle_bool a b) eqn:E; [apply Qle_bool_iff in E; exact E|lra]. Qed.
Lemma qmax_r a b : b <= qmax a b.
Proof. unfold qmax. destruct (Qle_bool a b) eqn:E; [lra|apply Qle_bool_false in E; lra]. Qed.

Lemma maxans_ge l r : In r l -> rq_ans r <= maxans l.
Proof.
  induction l as [|x l IH]; [intros []|]. cbn [maxans fold_right]. intros [<-|H].
  - apply qmax_l.
  - eapply Qle_trans; [apply IH, H|apply qmax_r].
Qed.

Lemma good_lo_good l : good_lo l -> good (fun _ => maxans l) l.
Proof. intros H r Hr. split; [apply H, Hr|]. intros _. apply maxans_ge, Hr. Qed.

(* C20_one_pending *)
Theorem one_pending cfg oracle orders (s : kst) :
  0 <= pc_period cfg -> reach cfg oracle orders s -> good_lo (pw_reqs (world s)) ->
  (forall n, In n (pc_nodes cfg) ->
     exists k T, ev_of (world s) n = Some (k, T) /\ (k < length (ids s))%nat
                 /\ filter (live_of n) (queue s) = [fentry T (nth k (ids s) 0%nat) n])
  /\ (forall x, In x (queue s) -> e_live x = true ->
        exists n k T, ev_of (world s) n = Some (k, T) /\ x = fentry T (nth k (ids s) 0%nat) n)
  /\ NoDup (map e_id (queue s)).
Proof.
  intros Hp R Hg.
  assert (P : PInv cfg (fun _ => maxans (pw_reqs (world s))) s).
  { apply (reach_Inv cfg (fun _ => maxans (pw_reqs (world s))) (fun x y _ => Qle_refl _) Hp oracle orders s R). apply good_lo_good, Hg. }
  pose proof (pi_link _ _ _ P) as L. split; [|split].
  - intros n Hn. pose proof (pi_dom _ _ _ P n Hn) as Hd.
    destruct (ev_look (pw_ev (world s)) n) as [[k T]|] eqn:E; [|contradiction].
    exists k, T. split; [exact E|]. split.
    + rewrite (lk_len _ _ _ _ L). exact (proj1 (lk_fwd _ _ _ _ L n k T E (fun x => x))).
    + eapply link_one_live; eassumption.
  - intros x Hx Hl. destruct (lk_bwd _ _ _ _ L x Hx Hl) as [n [k [T [A [_ C]]]]]. exists n, k, T. split; assumption.
  - exact (lk_nodup _ _ _ _ L).
Qed.

(* a boolean form of the hypothesis on the oracle, for concrete runs *)
Definition good_b (eps : Q) (l : list req) : bool :=
  forallb (fun r => match rq_kind r with
                    | RT => Qle_bool (rq_t r) (rq_ans r) && Qle_bool (rq_ans r) (rq_arg r + eps)
                    | _ => true end) l.
Lemma good_b_good eps l : good_b eps l = true -> good (fun x => x + eps) l.
Proof.
  unfold good_b. rewrite forallb_forall. intros H r Hr. specialize (H r Hr).
  split; intros E; rewrite E in H; apply andb_true_iff in H; destruct H as [H1 H2]; apply Qle_bool_iff; assumption.
Qed.

(* results(): the reported final phases lie in [0, 1] *)
Lemma final_phases_range cfg t w : Forall (fun x => 0 <= x /\ x <= 1) (fst (final_phases cfg t w)).
Proof.
  unfold final_phases.
  assert (G : forall nodes acc, Forall (fun x => 0 <= x /\ x <= 1) (fst acc) ->
    Forall (fun x => 0 <= x /\ x <= 1)
      (fst (fold_left (fun (acc : list Q * pworld) n => let '(phi, w1) := get_phase cfg t n (snd acc) in (fst acc ++ [phi], w1)) nodes acc))).
  { induction nodes as [|n nodes IH]; intros acc Ha; cbn [fold_left]; [exact Ha|].
    apply IH. destruct (get_phase cfg t n (snd acc)) as [phi w1] eqn:E. cbn [fst].
    apply get_phase_spec in E. apply Forall_app. split; [exact Ha|]. constructor; [tauto|constructor]. }
  apply G. constructor.
Qed.
