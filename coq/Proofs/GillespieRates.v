(* C02: the rate table of the Gillespie loop of Model/Kernel.v, the order of [transitions],
   one iteration of [stoch_loop] as a function of the oracle values it consumes, and the
   passivity of processes that have no stochastic events (observers).  Self-contained. *)
From Coq Require Import List ZArith QArith Bool Arith Lia Lqa.
From EpyV Require Import Lib.Dist Model.Kernel Proofs.GillespieSelect.
Import ListNotations.
Open Scope Q_scope.

Section Rates.
Variable W : Type.
Variable tb : table W.
Notation st := (st W).
Notation tr := (nat * nat * event)%type.

(* ------------------------------------------------------------------ rates *)
Lemma rate_elem : forall (s : st) (x : tr), ev_elem (snd x) = true ->
  rate s x == ev_p (snd x) * qlen (locus s (ev_locus (snd x))).
Proof. intros s x H. unfold rate. rewrite H. apply Qred_correct. Qed.

Lemma rate_fixed : forall (s : st) (x : tr), ev_elem (snd x) = false -> rate s x = ev_p (snd x).
Proof. intros s x H. unfold rate. rewrite H. reflexivity. Qed.

Lemma qlen_nonneg : forall l, 0 <= qlen l.
Proof. intros l. unfold qlen. change 0 with (inject_Z 0). rewrite <- Zle_Qle. apply Nat2Z.is_nonneg. Qed.

Lemma qlen_pos : forall l, l <> [] -> 0 < qlen l.
Proof.
  intros l H. unfold qlen. change 0 with (inject_Z 0). rewrite <- Zlt_Qlt. destruct l; [congruence|]. cbn [length]. lia.
Qed.

Lemma rate_nonneg : forall (s : st) (x : tr), 0 <= ev_p (snd x) -> 0 <= rate s x.
Proof.
  intros s x H. destruct (ev_elem (snd x)) eqn:E.
  - rewrite (rate_elem s x E). apply Qmult_le_0_compat; [exact H | apply qlen_nonneg].
  - rewrite (rate_fixed s x E). exact H.
Qed.

(* a per-element event on an empty locus has rate zero *)
Lemma rate_elem_empty : forall (s : st) (x : tr), ev_elem (snd x) = true -> locus s (ev_locus (snd x)) = [] -> rate s x == 0.
Proof. intros s x E H. rewrite (rate_elem s x E), H. unfold qlen. cbn. ring. Qed.

Lemma fold_sumf : forall A (f : A -> Q) l a, fold_left (fun a x => Qred (a + f x)) l a == a + sumf f l.
Proof.
  intros A f. induction l as [|x l IH]; intros a; cbn [fold_left sumf]; [ring|].
  rewrite IH, Qred_correct. ring.
Qed.

(* the total rate is the left-to-right sum of the rates *)
Lemma sum_rates_sumf : forall (s : st) trs, sum_rates s trs == sumf (rate s) trs.
Proof. intros s trs. unfold sum_rates. rewrite fold_sumf. ring. Qed.

(* ------------------------------------------------------------------ the order of the transitions *)
Lemma index_events_spec : forall pi evs j,
  index_events pi j evs = map (fun ke => (pi, fst ke, snd ke)) (combine (seq j (length evs)) evs).
Proof.
  intros pi. induction evs as [|e evs IH]; intros j; [reflexivity|].
  cbn [index_events length seq combine map fst snd]. rewrite IH. reflexivity.
Qed.

Lemma all_events_from_spec : forall ps pi,
  all_events_from pi ps = flat_map (fun ip => index_events (fst ip) 0 (p_events (snd ip))) (combine (seq pi (length ps)) ps).
Proof.
  induction ps as [|p ps IH]; intros pi; [reflexivity|].
  cbn [all_events_from length seq combine flat_map fst snd]. rewrite IH. reflexivity.
Qed.

(* eventRateDistribution: the per-element events of every process, in allProcesses() order and
   within a process in registration order, then the fixed-rate events in the same order *)
Theorem transitions_order :
  all_events tb = flat_map (fun ip => index_events (fst ip) 0 (p_events (snd ip))) (combine (seq 0 (length (t_procs tb))) (t_procs tb))
  /\ transitions tb = filter (fun x : tr => ev_elem (snd x)) (all_events tb) ++ filter (fun x : tr => negb (ev_elem (snd x))) (all_events tb).
Proof. split; [apply all_events_from_spec | reflexivity]. Qed.

Theorem rate_table : forall s : st,
  (forall x : tr, ev_elem (snd x) = true -> rate s x == ev_p (snd x) * inject_Z (Z.of_nat (length (locus s (ev_locus (snd x))))))
  /\ (forall x : tr, ev_elem (snd x) = false -> rate s x = ev_p (snd x))
  /\ sum_rates s (transitions tb) ==
       sumf (fun x : tr => ev_p (snd x) * inject_Z (Z.of_nat (length (locus s (ev_locus (snd x)))))) (per_element tb)
       + sumf (fun x : tr => ev_p (snd x)) (fixed_rate tb).
Proof.
  intros s. split; [exact (rate_elem s)|]. split; [exact (rate_fixed s)|].
  rewrite sum_rates_sumf. unfold transitions. rewrite sumf_app.
  rewrite (sumf_ext _ (rate s) (fun x : tr => ev_p (snd x) * inject_Z (Z.of_nat (length (locus s (ev_locus (snd x)))))) (per_element tb)).
  - rewrite (sumf_ext _ (rate s) (fun x : tr => ev_p (snd x)) (fixed_rate tb)); [reflexivity|].
    intros x Hx. apply filter_In in Hx. rewrite (rate_fixed s x); [reflexivity|]. apply negb_true_iff. exact (proj2 Hx).
  - intros x Hx. apply filter_In in Hx. exact (rate_elem s x (proj2 Hx)).
Qed.

(* entries of [transitions] are pairwise distinct: (process, index) identifies the event *)
Lemma index_events_ge : forall pi evs j x, In x (index_events pi j evs) -> fst (fst x) = pi /\ (j <= snd (fst x))%nat.
Proof.
  intros pi. induction evs as [|e evs IH]; intros j x H; [destruct H|].
  cbn [index_events] in H. destruct H as [<-|H]; [cbn; split; [reflexivity | lia]|].
  destruct (IH (S j) x H) as [H1 H2]. split; [exact H1 | lia].
Qed.

Lemma index_events_NoDup : forall pi evs j, NoDup (index_events pi j evs).
Proof.
  intros pi. induction evs as [|e evs IH]; intros j; [constructor|].
  cbn [index_events]. constructor; [|apply IH].
  intros H. apply index_events_ge in H. cbn in H. lia.
Qed.

Lemma all_events_from_ge : forall ps pi x, In x (all_events_from pi ps) -> (pi <= fst (fst x))%nat.
Proof.
  induction ps as [|p ps IH]; intros pi x H; [destruct H|].
  cbn [all_events_from] in H. apply in_app_or in H. destruct H as [H|H].
  - apply index_events_ge in H. lia.
  - apply IH in H. lia.
Qed.

Lemma NoDup_app' : forall A (l1 l2 : list A), NoDup l1 -> NoDup l2 -> (forall x, In x l1 -> ~ In x l2) -> NoDup (l1 ++ l2).
Proof.
  intros A. induction l1 as [|x l1 IH]; intros l2 H1 H2 H; [exact H2|].
  inversion H1 as [|? ? Hx H1']; subst. cbn [app]. constructor.
  - intros Hin. apply in_app_or in Hin. destruct Hin as [Hin|Hin]; [contradiction|]. exact (H x (or_introl eq_refl) Hin).
  - apply IH; [exact H1' | exact H2 |]. intros y Hy. apply H. right. exact Hy.
Qed.

Lemma all_events_from_NoDup : forall ps pi, NoDup (all_events_from pi ps).
Proof.
  induction ps as [|p ps IH]; intros pi; [constructor|].
  cbn [all_events_from]. apply NoDup_app'; [apply index_events_NoDup | apply IH|].
  intros x H1 H2. apply index_events_ge in H1. apply all_events_from_ge in H2. lia.
Qed.

Lemma NoDup_filter' : forall A (p : A -> bool) l, NoDup l -> NoDup (filter p l).
Proof.
  intros A p. induction l as [|x l IH]; intros H; [constructor|].
  inversion H as [|? ? Hx H']; subst. cbn [filter]. destruct (p x); [|apply IH; exact H'].
  constructor; [|apply IH; exact H']. intros Hin. apply filter_In in Hin. exact (Hx (proj1 Hin)).
Qed.

Theorem transitions_NoDup : NoDup (transitions tb).
Proof.
  unfold transitions, per_element, fixed_rate. apply NoDup_app'.
  - apply NoDup_filter'. apply all_events_from_NoDup.
  - apply NoDup_filter'. apply all_events_from_NoDup.
  - intros x H1 H2. apply filter_In in H1. apply filter_In in H2.
    destruct H1 as [_ H1]. destruct H2 as [_ H2]. rewrite H1 in H2. discriminate.
Qed.

Definition nonneg_table : Prop := forall x : tr, In x (all_events tb) -> 0 <= ev_p (snd x).

Lemma In_transitions : forall x, In x (transitions tb) -> In x (all_events tb).
Proof.
  intros x H. unfold transitions in H. apply in_app_or in H. destruct H as [H|H]; apply filter_In in H; exact (proj1 H).
Qed.

Lemma transitions_rates_nonneg : forall s : st, nonneg_table -> forall x, In x (transitions tb) -> 0 <= rate s x.
Proof. intros s H x Hx. apply rate_nonneg, H, In_transitions, Hx. Qed.

(* ------------------------------------------------------------------ rates depend on the state through the loci only *)
Lemma rate_loci : forall (s s' : st) x, loci s' = loci s -> rate s' x = rate s x.
Proof. intros s s' x H. unfold rate, locus. rewrite H. reflexivity. Qed.

Lemma sum_rates_loci : forall (s s' : st) trs, loci s' = loci s -> sum_rates s' trs = sum_rates s trs.
Proof.
  intros s s' trs H. unfold sum_rates. generalize 0. induction trs as [|x trs IH]; intros a; [reflexivity|].
  cbn [fold_left]. rewrite (rate_loci s s' x H). apply IH.
Qed.

Lemma select_ext : forall A (f g : A -> Q) xc l xs cur, (forall x, f x = g x) -> select f xc xs cur l = select g xc xs cur l.
Proof.
  intros A f g xc. induction l as [|x l IH]; intros xs cur H; [reflexivity|].
  cbn [select]. rewrite (H x). destruct (Qltb xc (xs + g x)); [reflexivity|]. apply IH. exact H.
Qed.

Lemma select_loci : forall (s s' : st) xc xs cur trs, loci s' = loci s ->
  select (rate s') xc xs cur trs = select (rate s) xc xs cur trs.
Proof. intros. apply select_ext. intros x. apply rate_loci. assumption. Qed.

(* ------------------------------------------------------------------ one iteration, as a function of the oracle *)
(* the state after the selection part of an iteration when no posted event is pending:
   clock advanced, oracle values consumed, everything else untouched *)
Definition after (s : st) (nt : Q) (rs ls : list Q) (ds : list nat) : st :=
  {| clock := nt; nextid := nextid s; queue := []; loci := loci s; world := world s; ids := ids s; out := out s;
     rands := rs; lns := ls; draws := ds; stuck := stuck s |}.

Lemma run_pending_empty : forall pf t n (s : st), queue s = [] ->
  run_pending tb (S pf) t n s = (n, set_queue [] s).
Proof. intros pf t n s H. cbn [run_pending]. unfold discard. rewrite H. reflexivity. Qed.

Definition running (t : Q) (s : st) : Prop :=
  (Qle_bool (t_maxtime tb) t || t_equil tb (loci s) (world s)) = false
  /\ Qeq_bool (sum_rates s (transitions tb)) 0 = false.

(* More than one transition: r1, ln(1/r1), r2 are consumed, the kind is the one [select] returns
   for xc = r2 * a, the clock advances by (1/a) * ln, and, if the locus of that kind is not empty,
   one rank k is consumed and the event function is called on the element of that rank. *)
Theorem stoch_step_many : forall pf f t ev (s : st) r1 r2 rs ln ls x0 x1 rest,
  queue s = [] -> running t s ->
  rands s = r1 :: r2 :: rs -> lns s = ln :: ls -> transitions tb = x0 :: x1 :: rest ->
  let a := sum_rates s (transitions tb) in
  let nt := Qred (t + Qred (1 / a * ln)) in
  let x := select (rate s) (r2 * a) 0 x0 (transitions tb) in
  let l := locus s (ev_locus (snd x)) in
  stoch_loop tb (S pf) (S f) t ev s =
    match l with
    | [] => stoch_loop tb (S pf) f nt (ev + 0) (after s nt rs ls (draws s))
    | _ => match draws s with
           | [] => stoch_loop tb (S pf) f nt (S (ev + 0)) (fire_event tb x nt (nth (0 mod length l) l (EN 0)) (set_stuck (after s nt rs ls [])))
           | k :: ds => stoch_loop tb (S pf) f nt (S (ev + 0)) (fire_event tb x nt (nth (k mod length l) l (EN 0)) (after s nt rs ls ds))
           end
    end.
Proof.
  intros pf f t ev s r1 r2 rs ln ls x0 x1 rest Hq [Heq Ha] Hr Hl Htr a nt x l.
  subst l x nt a. cbn [stoch_loop]. rewrite Heq, Ha. rewrite Htr.
  unfold next_rand at 1. rewrite Hr. unfold next_ln at 1. cbn [lns set_oracle]. rewrite Hl.
  unfold next_rand at 1. cbn [rands set_oracle].
  rewrite run_pending_empty; [|cbn [queue set_oracle]; exact Hq].
  unfold locus. cbn [loci set_clock set_queue set_oracle].
  destruct (nth (ev_locus (snd (select (rate s) (r2 * sum_rates s (x0 :: x1 :: rest)) 0 x0 (x0 :: x1 :: rest)))) (loci s) []) eqn:El.
  - unfold after, set_clock, set_queue, set_oracle. cbn. reflexivity.
  - unfold next_draw. cbn [draws set_clock set_queue set_oracle]. destruct (draws s) as [|k ds].
    + unfold after, set_stuck, set_clock, set_queue, set_oracle. cbn. reflexivity.
    + unfold after, set_clock, set_queue, set_oracle. cbn. reflexivity.
Qed.

(* Exactly one transition: no r2 is consumed and that transition is the kind *)
Theorem stoch_step_one : forall pf f t ev (s : st) r1 rs ln ls x0,
  queue s = [] -> running t s ->
  rands s = r1 :: rs -> lns s = ln :: ls -> transitions tb = [x0] ->
  let a := sum_rates s (transitions tb) in
  let nt := Qred (t + Qred (1 / a * ln)) in
  let l := locus s (ev_locus (snd x0)) in
  stoch_loop tb (S pf) (S f) t ev s =
    match l with
    | [] => stoch_loop tb (S pf) f nt (ev + 0) (after s nt rs ls (draws s))
    | _ => match draws s with
           | [] => stoch_loop tb (S pf) f nt (S (ev + 0)) (fire_event tb x0 nt (nth (0 mod length l) l (EN 0)) (set_stuck (after s nt rs ls [])))
           | k :: ds => stoch_loop tb (S pf) f nt (S (ev + 0)) (fire_event tb x0 nt (nth (k mod length l) l (EN 0)) (after s nt rs ls ds))
           end
    end.
Proof.
  intros pf f t ev s r1 rs ln ls x0 Hq [Heq Ha] Hr Hl Htr a nt l.
  subst l nt a. cbn [stoch_loop]. rewrite Heq, Ha. rewrite Htr.
  unfold next_rand at 1. rewrite Hr. unfold next_ln at 1. cbn [lns set_oracle]. rewrite Hl.
  rewrite run_pending_empty; [|cbn [queue set_oracle]; exact Hq].
  unfold locus. cbn [loci set_clock set_queue set_oracle].
  destruct (nth (ev_locus (snd x0)) (loci s) []) eqn:El.
  - unfold after, set_clock, set_queue, set_oracle. cbn. reflexivity.
  - unfold next_draw. cbn [draws set_clock set_queue set_oracle]. destruct (draws s) as [|k ds].
    + unfold after, set_stuck, set_clock, set_queue, set_oracle. cbn. reflexivity.
    + unfold after, set_clock, set_queue, set_oracle. cbn. reflexivity.
Qed.

(* ------------------------------------------------------------------ observers are passive *)
(* (1) a process without stochastic events adds nothing to the transitions: the transitions of
   [observer; procs] are those of [procs] with the process index shifted, with the same rates *)
Definition shift (x : tr) : tr := (S (fst (fst x)), snd (fst x), snd x).

Lemma index_events_shift : forall pi evs j, index_events (S pi) j evs = map shift (index_events pi j evs).
Proof.
  intros pi. induction evs as [|e evs IH]; intros j; [reflexivity|].
  cbn [index_events map]. rewrite IH. reflexivity.
Qed.

Lemma all_events_from_shift : forall ps pi, all_events_from (S pi) ps = map shift (all_events_from pi ps).
Proof.
  induction ps as [|p ps IH]; intros pi; [reflexivity|].
  cbn [all_events_from]. rewrite map_app, index_events_shift, IH. reflexivity.
Qed.

Lemma filter_map_shift : forall (p : tr -> bool) l, (forall x, p (shift x) = p x) -> filter p (map shift l) = map shift (filter p l).
Proof.
  intros p. induction l as [|x l IH]; intros H; [reflexivity|].
  cbn [map filter]. rewrite H. destruct (p x); cbn [map]; rewrite IH; auto.
Qed.

Lemma rate_shift : forall (s : st) x, rate s (shift x) = rate s x.
Proof. reflexivity. Qed.

Lemma select_shift : forall (s : st) xc l xs cur,
  select (rate s) xc xs (shift cur) (map shift l) = shift (select (rate s) xc xs cur l).
Proof.
  intros s xc. induction l as [|x l IH]; intros xs cur; [reflexivity|].
  cbn [map select]. rewrite rate_shift. destruct (Qltb xc (xs + rate s x)); [reflexivity|]. apply IH.
Qed.

Lemma sum_rates_shift : forall (s : st) l, sum_rates s (map shift l) = sum_rates s l.
Proof.
  intros s l. unfold sum_rates. generalize 0. induction l as [|x l IH]; intros a; [reflexivity|].
  cbn [map fold_left]. rewrite rate_shift. apply IH.
Qed.

End Rates.

Arguments after {W}.
Arguments shift x /.

Section Observer.
Variable W : Type.
Notation st := (st W).

(* the table with one more process in front that registers no stochastic events *)
Definition with_observer (tb : table W) (su : list action) : table W :=
  {| t_maxtime := t_maxtime tb; t_loci := t_loci tb; t_procs := {| p_events := []; p_setup := su |} :: t_procs tb;
     t_progs := t_progs tb; t_world := t_world tb; t_equil := t_equil tb |}.

Theorem observer_transitions : forall (tb : table W) su (s : st),
  transitions (with_observer tb su) = map shift (transitions tb)
  /\ sum_rates s (transitions (with_observer tb su)) = sum_rates s (transitions tb)
  /\ forall xc cur, select (rate s) xc 0 (shift cur) (transitions (with_observer tb su))
                    = shift (select (rate s) xc 0 cur (transitions tb)).
Proof.
  intros tb su s.
  assert (E : transitions (with_observer tb su) = map shift (transitions tb)).
  { unfold transitions, per_element, fixed_rate, all_events, with_observer. cbn [t_procs all_events_from p_events index_events app].
    rewrite all_events_from_shift, map_app, !filter_map_shift; reflexivity. }
  split; [exact E|]. split.
  - rewrite E. apply sum_rates_shift.
  - intros xc cur. rewrite E. apply select_shift.
Qed.

(* (2) posted events whose programs neither touch loci nor post programs outside a closed set of
   such programs leave the loci and the three oracle streams exactly as they were: the rates, the
   kind selected and the values consumed by the stochastic part of the loop are unchanged *)
Variable tb : table W.
Variable P : nat -> Prop.

Definition passive_action (a : action) : Prop :=
  match a with
  | APost _ k | APostOn _ _ k | APostRep _ _ k => P k
  | APostPast => P 0%nat
  | AUnpost _ _ | AQuery _ | AObserve => True
  | ALAdd _ _ | ALDiscard _ _ | ALAddSelf _ | ALDiscardSelf _ => False
  end.
Definition closed : Prop :=
  forall k, P k -> forall t e l w, Forall passive_action (snd (prog_of tb k t e l w)).
Definition qinv (s : st) : Prop := Forall (fun x => P (e_prog x)) (queue s).
Definition same_lo (s s' : st) : Prop :=
  loci s' = loci s /\ rands s' = rands s /\ lns s' = lns s /\ draws s' = draws s.

Lemma same_lo_refl : forall s, same_lo s s. Proof. intros s. repeat split. Qed.
Lemma same_lo_trans : forall s1 s2 s3, same_lo s1 s2 -> same_lo s2 s3 -> same_lo s1 s3.
Proof. intros s1 s2 s3 (a1 & a2 & a3 & a4) (b1 & b2 & b3 & b4). repeat split; congruence. Qed.

Lemma post_passive : forall t p e k rep (s : st), P k -> qinv s ->
  same_lo s (snd (post t p e k rep s)) /\ qinv (snd (post t p e k rep s)).
Proof.
  intros t p e k rep s Hk Hq. unfold post. destruct (Qltb t (clock s)); cbn [snd].
  - split; [apply same_lo_refl | exact Hq].
  - split; [repeat split|]. unfold qinv. cbn [queue]. constructor; [exact Hk | exact Hq].
Qed.

Lemma kill_passive : forall i q, Forall (fun x => P (e_prog x)) q -> Forall (fun x => P (e_prog x)) (kill i q).
Proof.
  intros i q H. unfold kill. apply Forall_forall. intros y Hy. apply in_map_iff in Hy.
  destruct Hy as (x & <- & Hx). rewrite Forall_forall in H. specialize (H x Hx).
  destruct (e_id x =? i)%nat; exact H.
Qed.

Lemma do_action_passive : forall p t e a (s : st), passive_action a -> qinv s ->
  same_lo s (do_action p t e a s) /\ qinv (do_action p t e a s).
Proof.
  intros p t e a s Ha Hq. destruct a; cbn [passive_action] in Ha; try contradiction; cbn [do_action].
  - destruct (post_passive (Qred (t + dt)) p e prog None s Ha Hq) as [H1 H2].
    destruct (post (Qred (t + dt)) p e prog None s) as [[i|] s']; cbn [snd] in *; (split; [exact H1 | exact H2]).
  - destruct (post_passive (Qred (t + dt)) p x prog None s Ha Hq) as [H1 H2].
    destruct (post (Qred (t + dt)) p x prog None s) as [[i|] s']; cbn [snd] in *; (split; [exact H1 | exact H2]).
  - destruct (post_passive (Qred (t + dt0)) p e prog (Some ddt) s Ha Hq) as [H1 H2].
    destruct (post (Qred (t + dt0)) p e prog (Some ddt) s) as [[i|] s']; cbn [snd] in *; (split; [exact H1 | exact H2]).
  - destruct (post_passive (Qred (clock s - 1)) p e 0%nat None s Ha Hq) as [H1 H2].
    destruct (post (Qred (clock s - 1)) p e 0%nat None s) as [[i|] s']; cbn [snd] in *; (split; [exact H1 | exact H2]).
  - destruct (ids s); [split; [apply same_lo_refl | exact Hq]|].
    destruct (find_live _ (queue s)).
    + split; [repeat split|]. unfold qinv. cbn [queue emit set_queue]. apply kill_passive. exact Hq.
    + split; [repeat split | exact Hq].
  - destruct (ids s); split; try apply same_lo_refl; try exact Hq. repeat split.
  - split; [repeat split | exact Hq].
Qed.

Lemma run_actions_passive : forall p t e acts (s : st), Forall passive_action acts -> qinv s ->
  same_lo s (run_actions p t e acts s) /\ qinv (run_actions p t e acts s).
Proof.
  intros p t e. unfold run_actions. induction acts as [|a acts IH]; intros s Ha Hq; cbn [fold_left].
  - split; [apply same_lo_refl | exact Hq].
  - inversion Ha as [|? ? Ha1 Ha2]; subst.
    destruct (do_action_passive p t e a s Ha1 Hq) as [H1 H2].
    destruct (IH _ Ha2 H2) as [H3 H4]. split; [exact (same_lo_trans _ _ _ H1 H3) | exact H4].
Qed.

Lemma run_prog_passive : forall p k t e (s : st), closed -> P k -> qinv s ->
  same_lo s (run_prog tb p k t e s) /\ qinv (run_prog tb p k t e s).
Proof.
  intros p k t e s Hc Hk Hq. unfold run_prog.
  assert (Ha := Hc k Hk t e (loci s) (world s)).
  destruct (prog_of tb k t e (loci s) (world s)) as [w acts]. cbn [snd] in Ha.
  destruct (run_actions_passive p t e acts (set_world w s) Ha Hq) as [H1 H2].
  split; [|exact H2]. destruct H1 as (a1 & a2 & a3 & a4). repeat split; assumption.
Qed.

Lemma fire_passive : forall x (s : st), closed -> P (e_prog x) -> qinv s ->
  same_lo s (fire tb x s) /\ qinv (fire tb x s).
Proof.
  intros x s Hc Hk Hq. unfold fire.
  destruct (run_prog_passive (e_proc x) (e_prog x) (e_time x) (e_elem x)
              (emit (OHandler (e_prog x) (e_time x) (clock s) (e_elem x) None) s) Hc Hk Hq) as [H1 H2].
  set (s2 := run_prog tb (e_proc x) (e_prog x) (e_time x) (e_elem x) _) in *.
  assert (H1' : same_lo s s2) by (destruct H1 as (a1 & a2 & a3 & a4); repeat split; assumption).
  destruct (e_rep x) as [ddt|]; [|split; assumption].
  destruct (post_passive (Qred (e_time x + ddt)) (e_proc x) (e_elem x) (e_prog x) (Some ddt) s2 Hk H2) as [H3 H4].
  destruct (post (Qred (e_time x + ddt)) (e_proc x) (e_elem x) (e_prog x) (Some ddt) s2) as [[i|] s3]; cbn [snd] in *.
  - split; [exact (same_lo_trans _ _ _ H1' H3) | exact H4].
  - split; [|exact H4]. destruct (same_lo_trans _ _ _ H1' H3) as (a1 & a2 & a3 & a4). repeat split; assumption.
Qed.

Lemma remove_id_incl' : forall i q, incl (remove_id i q) q.
Proof.
  intros i. induction q as [|x q IH]; [apply incl_refl|].
  cbn [remove_id]. destruct (e_id x =? i)%nat; [apply incl_tl, incl_refl|].
  intros y [->|Hy]; [left; reflexivity | right; exact (IH y Hy)].
Qed.

Lemma discard_dead_incl' : forall f q, incl (discard_dead f q) q.
Proof.
  induction f as [|f IH]; intros q; [apply incl_refl|].
  cbn [discard_dead]. destruct (head q) as [h|]; [|apply incl_refl].
  destruct (e_live h); [apply incl_refl|].
  eapply incl_tran; [apply IH | apply remove_id_incl'].
Qed.

Lemma head_In' : forall q h, head q = Some h -> In h q.
Proof.
  intros q h. destruct q as [|x q]; [discriminate|]. cbn [head]. intros E. inversion E; subst. clear E.
  revert x. induction q as [|y q IH]; intros x; cbn [min_entry]; [left; reflexivity|].
  destruct (IH (if before y x then y else x)) as [E|Hin].
  - destruct (before y x); [right; left; exact E | left; exact E].
  - right. right. exact Hin.
Qed.

Theorem run_pending_passive : forall fuel t n (s : st), closed -> qinv s ->
  same_lo s (snd (run_pending tb fuel t n s)) /\ qinv (snd (run_pending tb fuel t n s)).
Proof.
  induction fuel as [|fuel IH]; intros t n s Hc Hq; cbn [run_pending].
  - cbn [snd]. split; [repeat split | exact Hq].
  - assert (Hq0 : qinv (discard s)).
    { unfold qinv, discard. cbn [queue set_queue]. rewrite Forall_forall. intros y Hy.
      apply discard_dead_incl' in Hy. unfold qinv in Hq. rewrite Forall_forall in Hq. exact (Hq y Hy). }
    assert (H0 : same_lo s (discard s)) by (repeat split).
    destruct (head (queue (discard s))) as [h|] eqn:Eh; [|cbn [snd]; split; assumption].
    destruct (Qle_bool (e_time h) t); [|cbn [snd]; split; assumption].
    assert (Hh : P (e_prog h)).
    { apply head_In' in Eh. unfold qinv in Hq0. rewrite Forall_forall in Hq0. exact (Hq0 h Eh). }
    set (s1 := set_clock (e_time h) (set_queue (remove_id (e_id h) (queue (discard s))) (discard s))).
    assert (Hq1 : qinv s1).
    { unfold qinv, s1. cbn [queue set_clock set_queue]. rewrite Forall_forall. intros y Hy.
      apply remove_id_incl' in Hy. unfold qinv in Hq0. rewrite Forall_forall in Hq0. exact (Hq0 y Hy). }
    assert (H1 : same_lo s s1) by (repeat split).
    destruct (fire_passive h s1 Hc Hh Hq1) as [H2 H3].
    set (s3 := emit _ (fire tb h s1)).
    assert (Hq3 : qinv s3) by exact H3.
    assert (H3' : same_lo s s3).
    { destruct (same_lo_trans _ _ _ H1 H2) as (a1 & a2 & a3 & a4). repeat split; assumption. }
    destruct (IH t (S n) s3 Hc Hq3) as [H4 H5].
    split; [exact (same_lo_trans _ _ _ H3' H4) | exact H5].
Qed.

Corollary observers_passive : forall fuel t n (s : st) trs, closed -> qinv s ->
  let s' := snd (run_pending tb fuel t n s) in
  sum_rates s' trs = sum_rates s trs
  /\ (forall xc xs cur, select (rate s') xc xs cur trs = select (rate s) xc xs cur trs)
  /\ rands s' = rands s /\ lns s' = lns s /\ draws s' = draws s.
Proof.
  intros fuel t n s trs Hc Hq s'. destruct (run_pending_passive fuel t n s Hc Hq) as [(H1 & H2 & H3 & H4) _].
  fold s' in H1, H2, H3, H4. split; [apply sum_rates_loci; exact H1|].
  split; [intros; apply select_loci; exact H1|]. repeat split; assumption.
Qed.

End Observer.
