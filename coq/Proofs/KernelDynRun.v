(* Whole runs of the dynamic kernel, read off the output stream: the membership flag of every
   event function entered from the scheduler, and the correspondence between the event taps of a
   run and its calls (so that "this entry fired" has a meaning in terms of what user code
   observes).  For every user state W, dynamic table D, oracle and fuel. *)
From Coq Require Import List ZArith QArith Qabs Bool Arith Lia.
From EpyV Require Import Model.Kernel Model.KernelDyn Proofs.KernelBase Proofs.KernelLoops Proofs.KernelMember
  Proofs.KernelSync Proofs.CompartSort Proofs.CompartRun Proofs.CompartInv Proofs.KernelDyn Proofs.KernelDynLoops.
Import ListNotations.
Open Scope Q_scope.

Section DR.
Context {W : Type}.
Variable D : dtable W.
Notation tb := (d_tb D).
Implicit Types s : st W.

Lemma dsync_run_out pf fuel rs ds : r_out (dsync_run D pf fuel rs ds) = rev (out (r_final (dsync_run D pf fuel rs ds))).
Proof. unfold dsync_run. destruct (dsync_loop D pf fuel 1 0 0 _) as [[[t ev] k] s]. reflexivity. Qed.

Lemma dstoch_run_out pf fuel rs ls ds : r_out (dstoch_run D pf fuel rs ls ds) = rev (out (r_final (dstoch_run D pf fuel rs ls ds))).
Proof. unfold dstoch_run. destruct (dstoch_loop D pf fuel 0 0 _) as [[t ev] s]. reflexivity. Qed.

Lemma member_rec_true k t c e m : member_rec (OHandler k t c e (Some m)) -> m = true.
Proof. intros [H|H]; [discriminate | inversion H; reflexivity]. Qed.

(* ------------------------------------------------------------------ synchronous dynamics: unconditional *)
Theorem dsync_run_member pf fuel rs ds k t c e m :
  In (OHandler k t c e (Some m)) (r_out (dsync_run D pf fuel rs ds)) -> m = true.
Proof.
  intros H. rewrite dsync_run_out in H. apply in_rev in H.
  destruct (dsync_run_dsteps D pf fuel rs ds) as [cs Hs].
  pose proof (DSteps_member D _ _ _ _ Hs (setup_member D rs [] ds)) as F.
  rewrite Forall_forall in F. exact (member_rec_true _ _ _ _ _ (F _ H)).
Qed.

(* ------------------------------------------------------------------ event taps and calls *)
(* the taps of stochastic / per-element events, newest first: time, process, event index, element *)
Definition ev_taps (o : list obs) : list (Q * nat * nat * elem) :=
  flat_map (fun x => match x with OTap t pi (NEv _ j) e => [(t, pi, j, e)] | _ => [] end) o.

Definition call_tap (c : @dcall W) : list (Q * nat * nat * elem) :=
  match c with
  | DEv x t e => [(t, fst (fst x), snd (fst x), e)]
  | DDyn pi d t => [(t, pi, de_name d, de_value d)]
  | DPost _ => []
  end.

Lemma ev_taps_app a b : ev_taps (a ++ b) = ev_taps a ++ ev_taps b.
Proof. unfold ev_taps. apply flat_map_app. Qed.

Lemma ev_taps_act l : Forall act_obs l -> ev_taps l = [].
Proof.
  induction l as [|x l IH]; intros H; [reflexivity|]. inversion H as [|? ? Hx H']; subst.
  cbn [ev_taps flat_map]. fold (ev_taps l). rewrite (IH H'). destruct x; cbn in Hx; try contradiction; reflexivity.
Qed.

Lemma dafter_ev_taps c s : ev_taps (out (dafter D c s)) = call_tap c ++ ev_taps (out s).
Proof.
  destruct c as [[[pi j] ev] t e|pi d t|h]; cbn [dafter call_tap fst snd].
  - destruct (fire_event_spec tb pi j ev t e s) as [_ [l [A E]]]. cbv zeta in E. rewrite E.
    change (OTap t pi (NEv pi j) e :: l ++ ?r) with ([OTap t pi (NEv pi j) e] ++ l ++ r).
    rewrite !ev_taps_app, (ev_taps_act l A). reflexivity.
  - destruct (fire_dyn_spec D pi d t s) as [_ [l [A E]]]. cbv zeta in E. rewrite E.
    change (OTap t pi (NEv pi (de_name d)) (de_value d) :: l ++ ?r) with ([OTap t pi (NEv pi (de_name d)) (de_value d)] ++ l ++ r).
    rewrite !ev_taps_app, (ev_taps_act l A). reflexivity.
  - unfold pend_step. cbn [out emit].
    destruct (fire_shape tb h (set_clock (e_time h) (set_queue (remove_id (e_id h) (queue s)) s))) as [l [A E]].
    rewrite E. cbn [out set_clock set_queue].
    change (trec h :: l ++ ?r) with ([trec h] ++ l ++ r).
    rewrite !ev_taps_app, (ev_taps_act l A). reflexivity.
Qed.

(* the event taps of a run are exactly the taps of its calls, in order *)
Lemma DSteps_ev_taps Xtr s0 cs s : DSteps D Xtr s0 cs s ->
  ev_taps (out s) = rev (flat_map (fun sc => call_tap (snd sc)) cs) ++ ev_taps (out s0).
Proof.
  intros H. induction H as [|cs s s' H IH Hs|cs s c H IH Hok]; [reflexivity| |].
  - destruct Hs as (_ & _ & -> & _). exact IH.
  - rewrite dafter_ev_taps, IH, flat_map_app, rev_app_distr. cbn [flat_map]. rewrite app_nil_r.
    destruct c; cbn [call_tap snd rev app]; reflexivity.
Qed.

(* a tapped stochastic / per-element event of a run is the tap of one of its calls *)
Lemma DSteps_tap_call Xtr s0 cs s t pi j e : DSteps D Xtr s0 cs s -> ev_taps (out s0) = [] ->
  In (OTap t pi (NEv pi j) e) (out s) ->
  exists s1 c, In (s1, c) cs /\ dcall_ok D Xtr c s1 /\ In (t, pi, j, e) (call_tap c).
Proof.
  intros H H0 Hin.
  assert (Ht : In (t, pi, j, e) (ev_taps (out s))).
  { unfold ev_taps. apply in_flat_map. exists (OTap t pi (NEv pi j) e). split; [exact Hin | left; reflexivity]. }
  rewrite (DSteps_ev_taps Xtr s0 cs s H), H0, app_nil_r in Ht. apply in_rev, in_flat_map in Ht.
  destruct Ht as [[s1 c] [Hsc Hc]]. exists s1, c. split; [exact Hsc|]. split; [|exact Hc].
  pose proof (DSteps_calls D Xtr s0 cs s H) as F. rewrite Forall_forall in F. exact (F _ Hsc).
Qed.

Lemma setup_ev_taps rs ls ds : ev_taps (out (setup_state tb rs ls ds)) = [].
Proof. apply ev_taps_act. exact (proj1 (setup_state_out tb rs ls ds)). Qed.

(* what is known of a fired event named (pi, j) on element e: it is a registered event of positive
   probability, or an appended entry of positive probability that some state generated, called on its own value *)
Definition fired_dyn_ok (pi j : nat) (e : elem) : Prop :=
  (exists ev, In (pi, j, ev) (all_events tb) /\ 0 < ev_p ev) \/
  (exists d, dyn_range D pi d /\ de_name d = j /\ de_value d = e /\ 0 < de_p d).

Lemma call_fired_ok c s1 t pi j e : dcall_ok D Xpos c s1 -> In (t, pi, j, e) (call_tap c) -> fired_dyn_ok pi j e.
Proof.
  destruct c as [[[pi' j'] ev] t' e'|pi' d t'|h]; cbn [call_tap fst snd]; intros Hok Hin.
  - destruct Hin as [Hin|[]]. inversion Hin; subst. destruct Hok as (Hx & _ & _ & Hp). left. exists ev. split; [exact Hx | exact Hp].
  - destruct Hin as [Hin|[]]. inversion Hin; subst. destruct Hok as (Hr & _ & _ & Hp). right. exists d. repeat split; assumption.
  - destruct Hin.
Qed.

(* ------------------------------------------------------------------ stochastic dynamics: unconditional since repair F15 *)
(* the Gillespie loop tests `len(l) > 0` after the posted events of the interval ran; for an appended
   entry that is its membership test on the current state *)
Theorem dstoch_run_member pf fuel rs ls ds k t c e m :
  In (OHandler k t c e (Some m)) (r_out (dstoch_run D pf fuel rs ls ds)) -> m = true.
Proof.
  intros H. rewrite dstoch_run_out in H. apply in_rev in H.
  destruct (dstoch_run_dsteps D (fun _ => True) (fun _ => True)
              (fun _ _ _ => I) (fun _ _ _ _ _ _ _ => I) pf fuel rs ls ds I) as [cs Hs].
  pose proof (DSteps_member D _ _ _ _ Hs (setup_member D rs ls ds)) as F.
  rewrite Forall_forall in F. exact (member_rec_true _ _ _ _ _ (F _ H)).
Qed.

(* with probabilities >= 0 in every distribution and uniform variates in [0,1): a run in which every
   call was selected with positive probability *)
Theorem dstoch_run_dsteps_pos pf fuel rs ls ds :
  (forall lc w, dnonneg D lc w) -> Forall unit_rand rs ->
  exists cs, DSteps D (Xpos) (setup_state tb rs ls ds) cs (r_final (dstoch_run D pf fuel rs ls ds)).
Proof.
  intros Hnn Hr.
  apply (dstoch_run_dsteps D (Forall unit_rand) Xpos); [| |exact Hr].
  - intros n l. apply Forall_skipn.
  - intros s x dt s3 Hrs Ha E. exact (proj2 (dstoch_select_pos D s x dt s3 (Hnn _ _) Hrs Ha E)).
Qed.

(* ... so, read off the output: zero-probability and absent entries never fire in a Gillespie run either *)
Theorem dstoch_run_fired pf fuel rs ls ds t pi j e :
  (forall lc w, dnonneg D lc w) -> Forall unit_rand rs ->
  In (OTap t pi (NEv pi j) e) (r_out (dstoch_run D pf fuel rs ls ds)) -> fired_dyn_ok pi j e.
Proof.
  intros Hnn Hr H. rewrite dstoch_run_out in H. apply in_rev in H.
  destruct (dstoch_run_dsteps_pos pf fuel rs ls ds Hnn Hr) as [cs Hs].
  destruct (DSteps_tap_call Xpos _ _ _ t pi j e Hs (setup_ev_taps rs ls ds) H) as (s1 & c & _ & Hok & Hc).
  exact (call_fired_ok c s1 t pi j e Hok Hc).
Qed.

(* synchronous dynamics, unconditional: zero-probability and absent entries never fire *)
Theorem dsync_run_fired pf fuel rs ds t pi j e :
  In (OTap t pi (NEv pi j) e) (r_out (dsync_run D pf fuel rs ds)) -> fired_dyn_ok pi j e.
Proof.
  intros H. rewrite dsync_run_out in H. apply in_rev in H.
  destruct (dsync_run_dsteps D pf fuel rs ds) as [cs Hs].
  destruct (DSteps_tap_call Xpos _ _ _ t pi j e Hs (setup_ev_taps rs [] ds) H) as (s1 & c & _ & Hok & Hc).
  exact (call_fired_ok c s1 t pi j e Hok Hc).
Qed.

End DR.
