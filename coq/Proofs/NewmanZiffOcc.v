(* Proofs about occupy (bond and site) of Model/NewmanZiff.v (C13): the union-find invariant,
   the running largest-component size and the component count are maintained. *)
From Coq Require Import List ZArith Bool Arith Lia Permutation.
From EpyV Require Import Lib.Prelude Model.NewmanZiff Proofs.NewmanZiffUF.
Import ListNotations.

(* ------------------------------------------------------------------ _gcc and _ncomponents *)
(* g is the largest size stored at a root (0 when there is no root) *)
Definition GccOK (a : list Z) (g : Z) : Prop :=
  (forall r, is_root a r -> (- get a r <= g)%Z) /\
  ((exists r, is_root a r /\ (- get a r)%Z = g) \/ (g = 0%Z /\ forall r, ~ is_root a r)).

(* nc is the number of roots *)
Definition NcOK (a : list Z) (nc : Z) : Prop :=
  exists l, NoDup l /\ (forall r, In r l <-> is_root a r) /\ nc = Z.of_nat (length l).

Lemma GccOK_compr a a' g : compr a a' -> GccOK a g -> GccOK a' g.
Proof.
  intros C [H1 H2]. split.
  - intros r R. apply (compr_root _ _ C) in R. rewrite (c_neg _ _ C) by apply R. auto.
  - destruct H2 as [(r & R & E)|[E H]].
    + left. exists r. split; [apply (compr_root _ _ C); exact R | rewrite (c_neg _ _ C) by apply R; exact E].
    + right. split; [exact E|]. intros r R. apply (compr_root _ _ C) in R. apply (H r R).
Qed.

Lemma NcOK_compr a a' nc : compr a a' -> NcOK a nc -> NcOK a' nc.
Proof.
  intros C (l & ND & Hl & E). exists l. split; [exact ND|]. split; [|exact E].
  intros r. rewrite Hl. symmetry. apply (compr_root _ _ C).
Qed.

Lemma filter_neq_length l x : NoDup l -> In x l ->
  S (length (filter (fun r => negb (Nat.eqb r x)) l)) = length l.
Proof.
  induction l as [|y l IH]; intros ND I; [contradiction|].
  inversion ND as [|? ? Hy ND']; subst. cbn [filter length].
  destruct (Nat.eqb_spec y x) as [->|Ne]; cbn [negb length].
  - f_equal. f_equal. clear IH ND ND' I. induction l as [|z l IH]; [reflexivity|].
    cbn. destruct (Nat.eqb_spec z x) as [->|Nz]; cbn.
    + exfalso. apply Hy. left. reflexivity.
    + f_equal. apply IH. intros H. apply Hy. right. exact H.
  - f_equal. apply IH; [exact ND'|]. destruct I as [->|I]; [contradiction | exact I].
Qed.

Lemma NcOK_join a c1 c2 nc : is_root a c1 -> is_root a c2 -> c1 <> c2 ->
  NcOK a nc -> NcOK (fst (join a c1 c2)) (nc - 1)%Z.
Proof.
  intros R1 R2 Ne (l & ND & Hl & E).
  exists (filter (fun r => negb (Nat.eqb r c2)) l). split; [apply NoDup_filter; exact ND|]. split.
  - intros r. rewrite filter_In, Hl, (join_root a c1 c2 R1 R2 Ne). rewrite negb_true_iff, Nat.eqb_neq. tauto.
  - pose proof (filter_neq_length l c2 ND (proj2 (Hl c2) R2)). lia.
Qed.

Lemma GccOK_join a c1 c2 g : is_root a c1 -> is_root a c2 -> c1 <> c2 ->
  GccOK a g -> GccOK (fst (join a c1 c2)) (Z.max g (snd (join a c1 c2))).
Proof.
  intros R1 R2 Ne [H1 H2]. rewrite join_snd, (join_get_c1 a c1 c2 R1 Ne).
  pose proof (proj2 R1) as N1. pose proof (proj2 R2) as N2.
  assert (R1' : is_root (fst (join a c1 c2)) c1) by (apply (join_root a c1 c2 R1 R2 Ne); auto).
  split.
  - intros r R. apply (join_root a c1 c2 R1 R2 Ne) in R. destruct R as [R Hr2].
    destruct (Nat.eq_dec r c1) as [->|Hr1].
    + rewrite (join_get_c1 a c1 c2 R1 Ne). lia.
    + rewrite (join_get_other a c1 c2 Ne) by auto. specialize (H1 _ R). lia.
  - left. destruct (Z.le_gt_cases g (- (get a c1 + get a c2))) as [Le|Gt].
    + exists c1. split; [exact R1'|]. rewrite (join_get_c1 a c1 c2 R1 Ne). lia.
    + destruct H2 as [(r & R & E)|[E H]]; [|exfalso; apply (H c1 R1)].
      assert (r <> c1) by (intros ->; lia). assert (r <> c2) by (intros ->; lia).
      exists r. split; [apply (join_root a c1 c2 R1 R2 Ne); auto|].
      rewrite (join_get_other a c1 c2 Ne) by auto. lia.
Qed.

(* ------------------------------------------------------------------ the working network *)
Lemma npair_eqb_eq e f : npair_eqb e f = true <-> e = f.
Proof.
  destruct e as [a b], f as [c d]. unfold npair_eqb. cbn [fst snd].
  rewrite andb_true_iff, !Nat.eqb_eq. split; [intros [-> ->]; reflexivity | intros H; inversion H; auto].
Qed.

Lemma same_nedge_true x y f : same_nedge (x, y) f = true <-> f = (x, y) \/ f = (y, x).
Proof.
  destruct f as [c d]. unfold same_nedge. cbn [fst snd]. rewrite orb_true_iff, !npair_eqb_eq.
  split; intros [H|H]; inversion H; subst; auto.
Qed.

Lemma add_edge_eeq e es : eeq (add_edge e es) (e :: es).
Proof.
  unfold add_edge. destruct (existsb (same_nedge e) es) eqn:X.
  - split; intros x y I; [left; right; exact I|]. destruct I as [->|I]; [|left; exact I].
    apply existsb_exists in X. destruct X as (f & If & Sf). apply same_nedge_true in Sf.
    destruct Sf as [->| ->]; auto.
  - split; intros x y I; left.
    + apply in_app_iff in I. destruct I as [I|[<-|[]]]; [right; exact I | left; reflexivity].
    + apply in_app_iff. destruct I as [<-|I]; [right; left; reflexivity | left; exact I].
Qed.

Lemma add_node_In n ns x : In x (add_node n ns) <-> x = n \/ In x ns.
Proof.
  unfold add_node. destruct (existsb (Nat.eqb n) ns) eqn:X.
  - split; [auto|]. intros [->|H]; [|exact H]. apply existsb_exists in X. destruct X as (y & Iy & E).
    apply Nat.eqb_eq in E. subst. exact Iy.
  - rewrite in_app_iff. cbn. intuition.
Qed.

Lemma add_node_fresh n ns : ~ In n ns -> add_node n ns = ns ++ [n].
Proof.
  intros H. unfold add_node. destruct (existsb (Nat.eqb n) ns) eqn:X; [|reflexivity].
  exfalso. apply H. apply existsb_exists in X. destruct X as (y & Iy & E). apply Nat.eqb_eq in E. subst. exact Iy.
Qed.

Lemma eeq_cons e a b : eeq a b -> eeq (e :: a) (e :: b).
Proof.
  intros [H1 H2]. split; intros x y [E|I]; try (left; left; exact E).
  - destruct (H1 _ _ I); [left|right]; right; assumption.
  - destruct (H2 _ _ I); [left|right]; right; assumption.
Qed.

(* ------------------------------------------------------------------ state invariant *)
Record Inv (s : state) : Prop := {
  inv_uf : UF (comp s) (wedges s);
  inv_gcc : GccOK (comp s) (gcc s);
  inv_nc : NcOK (comp s) (ncomp s)
}.

(* ------------------------------------------------------------------ BondPercolation.occupy *)
Lemma occupy_bond_spec s n m : Inv s -> occ (comp s) n -> occ (comp s) m ->
  let s' := occupy_bond s (n, m) in
  Inv s' /\ length (comp s') = length (comp s) /\ (forall x, occ (comp s') x <-> occ (comp s) x)
  /\ eeq (wedges s') ((n, m) :: wedges s) /\ wnodes s' = wnodes s /\ (gcc s <= gcc s')%Z.
Proof.
  intros [U G K] On Om. cbv zeta. unfold occupy_bond.
  destruct (root_spec _ _ _ U On) as (a1 & nr & dn & E1 & Pn & C1). rewrite E1.
  pose proof (UF_compr _ _ _ U C1) as U1.
  assert (Om1 : occ a1 m) by (apply (compr_occ _ _ C1); exact Om).
  destruct (root_spec _ _ _ U1 Om1) as (a2 & mr & dm & E2 & Pm & C2). rewrite E2.
  pose proof (UF_compr _ _ _ U1 C2) as U2.
  pose proof (compr_trans _ _ _ C1 C2) as C12.
  destruct (c_path _ _ C12 _ _ _ Pn) as (dn' & _ & Pn2).
  destruct (c_path _ _ C2 _ _ _ Pm) as (dm' & _ & Pm2).
  destruct (Nat.eqb_spec mr nr) as [->|Ne]; cbn [comp gcc ncomp wnodes wedges].
  - split; [constructor; cbn [comp gcc ncomp wnodes wedges]|].
    + eapply UF_eeq; [apply eeq_sym, add_edge_eeq|]. eapply UF_same; eauto.
    + eapply GccOK_compr; eauto.
    + eapply NcOK_compr; eauto.
    + split; [apply (c_len _ _ C12)|]. split; [apply (compr_occ _ _ C12)|].
      split; [apply add_edge_eeq|]. split; [reflexivity | lia].
  - pose proof (proj2 (path_lt _ _ _ _ Pn2)) as Rn. pose proof (proj2 (path_lt _ _ _ _ Pm2)) as Rm.
    assert (Ne' : nr <> mr) by auto.
    destruct (join a2 nr mr) as [a3 cs] eqn:EJ. cbn [comp gcc ncomp wnodes wedges].
    assert (Ea3 : a3 = fst (join a2 nr mr)) by (rewrite EJ; reflexivity).
    assert (Ecs : cs = snd (join a2 nr mr)) by (rewrite EJ; reflexivity).
    split; [constructor; cbn [comp gcc ncomp wnodes wedges]|].
    + eapply UF_eeq; [apply eeq_sym, add_edge_eeq|]. rewrite Ea3. eapply UF_join; eauto.
    + rewrite Ea3, Ecs. apply GccOK_join; auto. eapply GccOK_compr; eauto.
    + rewrite Ea3. apply NcOK_join; auto. eapply NcOK_compr; eauto.
    + split; [rewrite Ea3, (join_len a2 nr mr Ne'); apply (c_len _ _ C12)|].
      split; [intros x; rewrite Ea3, (join_occ a2 nr mr Rn Rm Ne'); apply (compr_occ _ _ C12)|].
      split; [apply add_edge_eeq|]. split; [reflexivity | lia].
Qed.

Lemma path_inv_step a x r d : path a x r d -> (0 <= get a x)%Z ->
  exists d', d = S d' /\ path a (Z.to_nat (get a x)) r d'.
Proof. destruct 1 as [x H1 H2|x r d H1 H2 H3]; intros H; [lia | eauto]. Qed.

(* ------------------------------------------------------------------ a newly occupied site *)
Section Fresh.
  Variables (a : list Z) (nr : nat).
  Hypothesis Lnr : nr < length a.
  Hypothesis Unr : get a nr = unocc a.
  Let a0 := set a nr (-1)%Z.

  Lemma fresh_get x : x <> nr -> get a0 x = get a x.
  Proof. intros H. apply get_set_other. auto. Qed.

  Lemma fresh_get_nr : get a0 nr = (-1)%Z.
  Proof. apply get_set_same. exact Lnr. Qed.

  Lemma fresh_occ x : occ a0 x <-> x = nr \/ occ a x.
  Proof.
    unfold occ, a0. rewrite set_length, unocc_set. pose proof (unocc_pos a).
    destruct (Nat.eq_dec x nr) as [->|Ne].
    - rewrite get_set_same by exact Lnr. split; [auto|]. intros _. split; [exact Lnr | lia].
    - rewrite get_set_other by auto. split; [auto|]. intros [E|H']; [contradiction | exact H'].
  Qed.

  Lemma fresh_root r : is_root a0 r <-> r = nr \/ is_root a r.
  Proof.
    unfold is_root, a0. rewrite set_length. pose proof (unocc_pos a).
    destruct (Nat.eq_dec r nr) as [->|Ne].
    - rewrite get_set_same by exact Lnr. split; [auto|]. intros _. split; [exact Lnr | lia].
    - rewrite get_set_other by auto. split; [auto|]. intros [E|H']; [contradiction | exact H'].
  Qed.

  Lemma not_root_nr : ~ is_root a nr.
  Proof. intros [_ H]. pose proof (unocc_pos a). lia. Qed.

  Lemma path_fresh x r d : path a x r d -> path a0 x r d.
  Proof.
    induction 1 as [x H1 H2|x r d H1 H2 H3 IH].
    - assert (x <> nr) by (intros ->; pose proof (unocc_pos a); lia).
      constructor; [unfold a0; rewrite set_length; exact H1 | rewrite fresh_get by auto; exact H2].
    - assert (x <> nr).
      { intros ->. pose proof (path_occ _ _ _ _ (path_step _ _ _ _ H1 H2 H3)) as [_ O]. contradiction. }
      apply path_step; [unfold a0; rewrite set_length; exact H1 | rewrite fresh_get by auto; exact H2 |].
      rewrite fresh_get by auto. exact IH.
  Qed.

  Variable es : list nedge.
  Hypothesis U : UF a es.

  Lemma path_fresh_inv x r d : path a0 x r d -> (x = nr /\ r = nr /\ d = 0) \/ path a x r d.
  Proof.
    induction 1 as [x H1 H2|x r d H1 H2 H3 IH].
    - destruct (Nat.eq_dec x nr) as [->|Ne]; [left; auto|]. right.
      unfold a0 in H1. rewrite set_length in H1. rewrite fresh_get in H2 by auto. constructor; assumption.
    - assert (Ne : x <> nr) by (intros ->; rewrite fresh_get_nr in H2; lia).
      unfold a0 in H1. rewrite set_length in H1. rewrite fresh_get in H2, H3, IH by auto.
      right. destruct IH as [(E & _ & _)|P]; [|apply path_step; assumption].
      exfalso. assert (O : occ a x).
      { split; [exact H1|]. unfold unocc. lia. }
      destruct (uf_total _ _ U _ O) as (r' & d' & P & _).
      destruct (path_inv_step _ _ _ _ P H2) as (d'' & _ & HP).
      rewrite E in HP. apply path_occ in HP. destruct HP as [_ HP]. contradiction.
  Qed.

  Lemma fresh_UF : UF a0 es.
  Proof.
    constructor.
    - intros n O. apply fresh_occ in O. destruct (Nat.eq_dec n nr) as [->|Ne].
      + exists nr, 0. split; [apply path_of_root, fresh_root; auto | rewrite fresh_get_nr; lia].
      + destruct O as [->|O]; [contradiction|]. destruct (uf_total _ _ U _ O) as (r & d & P & Hd).
        exists r, d. split; [apply path_fresh; exact P|]. rewrite fresh_get; [exact Hd|].
        intros ->. apply path_lt in P. apply not_root_nr, P.
    - intros x y I. destruct (uf_edge _ _ U _ _ I) as (r & d & e & P & Q). exists r, d, e. split; apply path_fresh; assumption.
    - intros x r d P. destruct (path_fresh_inv _ _ _ P) as [(-> & -> & _)|Q]; [apply conn_refl | eapply uf_root_conn; eauto].
    - intros r R. apply fresh_root in R. destruct (Nat.eq_dec r nr) as [->|Ne].
      + exists [nr]. split; [repeat constructor; cbn; tauto|]. split; [|rewrite fresh_get_nr; reflexivity].
        intros x. cbn. split.
        * intros [<-|[]]. exists 0. apply path_of_root, fresh_root. auto.
        * intros (d & P). destruct (path_fresh_inv _ _ _ P) as [(-> & _)|Q]; [auto|].
          exfalso. apply path_lt in Q. apply not_root_nr, Q.
      + destruct R as [->|R]; [contradiction|]. destruct (uf_size _ _ U _ R) as (l & ND & Hl & E).
        exists l. split; [exact ND|]. split; [|rewrite fresh_get by auto; exact E].
        intros x. rewrite Hl. split; intros (d & P).
        * exists d. apply path_fresh. exact P.
        * destruct (path_fresh_inv _ _ _ P) as [(_ & -> & _)|Q]; [contradiction | eauto].
  Qed.

  Lemma fresh_NcOK nc : NcOK a nc -> NcOK a0 (nc + 1)%Z.
  Proof.
    intros (l & ND & Hl & E). exists (nr :: l). split; [|split].
    - constructor; [|exact ND]. intros I. apply Hl in I. apply (not_root_nr I).
    - intros r. cbn. rewrite Hl, fresh_root. intuition.
    - cbn [length]. lia.
  Qed.
End Fresh.

(* ------------------------------------------------------------------ linking a new site to its occupied neighbours *)
(* loop invariant of the second for-loop of SitePercolation.occupy: nr is a root, csize is the size
   stored there, g bounds the sizes of all other roots and is attained unless csize has overtaken it *)
Record Lk (nr : nat) (g : Z) (a : list Z) (es : list nedge) (cs nc : Z) : Prop := {
  lk_uf : UF a es;
  lk_root : is_root a nr;
  lk_cs : cs = (- get a nr)%Z;
  lk_nc : NcOK a nc;
  lk_g1 : forall r, is_root a r -> r <> nr -> (- get a r <= g)%Z;
  lk_g2 : (g <= cs)%Z \/ exists r, is_root a r /\ r <> nr /\ (- get a r)%Z = g
}.

Lemma Lk_compr nr g a a' es cs nc : compr a a' -> Lk nr g a es cs nc -> Lk nr g a' es cs nc.
Proof.
  intros C [U R E K G1 G2]. constructor.
  - eapply UF_compr; eauto.
  - apply (compr_root _ _ C); exact R.
  - rewrite (c_neg _ _ C) by apply R. exact E.
  - eapply NcOK_compr; eauto.
  - intros r Rr Ne. apply (compr_root _ _ C) in Rr. rewrite (c_neg _ _ C) by apply Rr. auto.
  - destruct G2 as [Le|(r & Rr & Ne & Er)]; [left; exact Le|]. right. exists r.
    split; [apply (compr_root _ _ C); exact Rr|]. split; [exact Ne|]. rewrite (c_neg _ _ C) by apply Rr. exact Er.
Qed.

Lemma Lk_same nr g a es cs nc m d : Lk nr g a es cs nc -> path a m nr d -> Lk nr g a ((nr, m) :: es) cs nc.
Proof.
  intros [U R E K G1 G2] P. constructor; auto.
  eapply UF_same; [exact U | apply path_of_root; exact R | exact P].
Qed.

Lemma Lk_join nr g a es cs nc m mr d : Lk nr g a es cs nc -> path a m mr d -> mr <> nr ->
  Lk nr g (fst (join a nr mr)) ((nr, m) :: es) (snd (join a nr mr)) (nc - 1)%Z /\ (cs <= snd (join a nr mr))%Z.
Proof.
  intros [U R E K G1 G2] P Ne. pose proof (proj2 (path_lt _ _ _ _ P)) as Rm.
  assert (Ne' : nr <> mr) by auto. pose proof (proj2 R) as N1. pose proof (proj2 Rm) as N2.
  assert (Ecs : snd (join a nr mr) = (- (get a nr + get a mr))%Z).
  { rewrite join_snd, (join_get_c1 a nr mr R Ne'). reflexivity. }
  split; [constructor|rewrite Ecs; lia].
  - eapply UF_join; eauto. apply path_of_root. exact R.
  - apply (join_root a nr mr R Rm Ne'). auto.
  - apply join_snd.
  - apply NcOK_join; auto.
  - intros r Rr Hr. apply (join_root a nr mr R Rm Ne') in Rr. destruct Rr as [Rr Hr2].
    rewrite (join_get_other a nr mr Ne') by auto. auto.
  - rewrite Ecs. destruct G2 as [Le|(r & Rr & Hr & Er)]; [left; lia|].
    destruct (Nat.eq_dec r mr) as [->|Hr2]; [left; lia|]. right. exists r.
    split; [apply (join_root a nr mr R Rm Ne'); auto|]. split; [exact Hr|].
    rewrite (join_get_other a nr mr Ne') by auto. exact Er.
Qed.

Lemma link_nbrs_spec nr g : forall nbrs a es cs nc,
  Lk nr g a es cs nc -> (forall m, In m nbrs -> m < length a) ->
  exists a' cs' nc' es', link_nbrs nr nbrs a cs nc = (a', cs', nc') /\ Lk nr g a' es' cs' nc'
    /\ length a' = length a /\ (forall x, occ a' x <-> occ a x)
    /\ (forall x y, In (x, y) es' <-> In (x, y) es \/ (x = nr /\ In y nbrs /\ occ a y)) /\ (cs <= cs')%Z.
Proof.
  induction nbrs as [|m rest IH]; intros a es cs nc L Hn.
  - exists a, cs, nc, es. split; [reflexivity|]. split; [exact L|]. split; [reflexivity|]. split; [tauto|].
    split; [|lia]. intros x y. cbn [In]. tauto.
  - cbn [link_nbrs]. destruct (Z.eqb_spec (get a m) (unocc a)) as [Eu|Nu].
    + destruct (IH a es cs nc L ltac:(intros; apply Hn; right; assumption)) as (a' & cs' & nc' & es' & E & L' & Len & Oc & Hes & Le).
      exists a', cs', nc', es'. split; [exact E|]. split; [exact L'|]. split; [exact Len|]. split; [exact Oc|].
      split; [|exact Le]. intros x y. rewrite Hes. cbn [In]. split.
      * intros [I|(-> & I & O)]; [left; exact I | right; auto].
      * intros [I|(-> & [<-|I] & O)]; [left; exact I | exfalso; apply (proj2 O Eu) | right; auto].
    + assert (Om : occ a m) by (split; [apply Hn; left; reflexivity | exact Nu]).
      destruct (root_spec _ _ _ (lk_uf _ _ _ _ _ _ L) Om) as (a1 & mr & dm & E1 & Pm & C1). rewrite E1.
      pose proof (Lk_compr _ _ _ _ _ _ _ C1 L) as L1.
      destruct (c_path _ _ C1 _ _ _ Pm) as (dm' & _ & Pm1).
      assert (Hn1 : forall m0, In m0 rest -> m0 < length a1) by (intros; rewrite (c_len _ _ C1); apply Hn; right; assumption).
      destruct (Nat.eqb_spec mr nr) as [->|Ne].
      * pose proof (Lk_same _ _ _ _ _ _ _ _ L1 Pm1) as L2.
        destruct (IH a1 _ cs nc L2 Hn1) as (a' & cs' & nc' & es' & E & L' & Len & Oc & Hes & Le).
        exists a', cs', nc', es'. split; [exact E|]. split; [exact L'|].
        split; [rewrite Len; apply (c_len _ _ C1)|]. split; [intros x; rewrite Oc; apply (compr_occ _ _ C1)|]. split; [|exact Le].
        intros x y. rewrite Hes. cbn [In]. rewrite (compr_occ _ _ C1). split.
        -- intros [[Ee|I]|(-> & I & O)]; [injection Ee as <- <-; right; auto | left; exact I | right; auto].
        -- intros [I|(-> & [<-|I] & O)]; [left; right; exact I | left; left; reflexivity | right; auto].
      * destruct (Lk_join _ _ _ _ _ _ _ _ _ L1 Pm1 Ne) as [L2 Lecs].
        pose proof (proj2 (path_lt _ _ _ _ Pm1)) as Rm. assert (Ne' : nr <> mr) by auto.
        destruct (join a1 nr mr) as [a2 cs2] eqn:EJ. cbn [fst snd] in L2, Lecs.
        assert (Ea2 : a2 = fst (join a1 nr mr)) by (rewrite EJ; reflexivity).
        assert (Len2 : length a2 = length a1) by (rewrite Ea2; apply join_len; exact Ne').
        assert (Oc2 : forall x, occ a2 x <-> occ a1 x) by (intros x; rewrite Ea2; apply (join_occ a1 nr mr (lk_root _ _ _ _ _ _ L1) Rm Ne')).
        destruct (IH a2 _ cs2 (nc - 1)%Z L2 ltac:(intros; rewrite Len2; apply Hn1; assumption)) as (a' & cs' & nc' & es' & E & L' & Len & Oc & Hes & Le).
        exists a', cs', nc', es'. split; [exact E|]. split; [exact L'|].
        split; [rewrite Len, Len2; apply (c_len _ _ C1)|].
        split; [intros x; rewrite Oc, Oc2; apply (compr_occ _ _ C1)|]. split; [|lia].
        intros x y. rewrite Hes. cbn [In]. rewrite Oc2, (compr_occ _ _ C1). split.
        -- intros [[Ee|I]|(-> & I & O)]; [injection Ee as <- <-; right; auto | left; exact I | right; auto].
        -- intros [I|(-> & [<-|I] & O)]; [left; right; exact I | left; left; reflexivity | right; auto].
Qed.

(* ------------------------------------------------------------------ SitePercolation.occupy *)
Lemma memb_In m l : memb Nat.eqb m l = true <-> In m l.
Proof.
  unfold memb. rewrite existsb_exists. split.
  - intros (y & I & E). apply Nat.eqb_eq in E. subst. exact I.
  - intros I. exists m. split; [exact I | apply Nat.eqb_refl].
Qed.

Lemma add_edge_keeps e es f : In f es -> In f (add_edge e es).
Proof. unfold add_edge. destruct (existsb _ es); [auto | intros; apply in_app_iff; left; assumption]. Qed.

Lemma add_edge_inv e es f : In f (add_edge e es) -> f = e \/ In f es.
Proof.
  unfold add_edge. destruct (existsb _ es); [auto|]. intros I. apply in_app_iff in I.
  destruct I as [I|[<-|[]]]; auto.
Qed.

Lemma add_nbr_edges_keeps nr wn : forall nbrs we f, In f we -> In f (add_nbr_edges nr nbrs wn we).
Proof.
  induction nbrs as [|m rest IH]; intros we f I; cbn; [exact I|].
  apply IH. destruct (memb Nat.eqb m wn); [apply add_edge_keeps|]; exact I.
Qed.

Lemma add_nbr_edges_inv nr wn : forall nbrs we x y, In (x, y) (add_nbr_edges nr nbrs wn we) ->
  In (x, y) we \/ (x = nr /\ In y nbrs /\ In y wn).
Proof.
  induction nbrs as [|m rest IH]; intros we x y I; cbn in I; [left; exact I|].
  apply IH in I. destruct I as [I|(-> & I & W)]; [|right; repeat split; auto; right; exact I].
  destruct (memb Nat.eqb m wn) eqn:Mb; [|left; exact I].
  apply add_edge_inv in I. destruct I as [E|I]; [|left; exact I].
  injection E as -> ->. right. split; [reflexivity|]. split; [left; reflexivity | apply memb_In; exact Mb].
Qed.

Lemma add_nbr_edges_has nr wn : forall nbrs we y, In y nbrs -> In y wn ->
  In (nr, y) (add_nbr_edges nr nbrs wn we) \/ In (y, nr) (add_nbr_edges nr nbrs wn we).
Proof.
  induction nbrs as [|m rest IH]; intros we y I W; [contradiction|]. cbn.
  destruct I as [->|I]; [|apply IH; assumption].
  apply memb_In in W. rewrite W.
  destruct (proj2 (add_edge_eeq (nr, y) we) nr y (or_introl eq_refl)) as [J|J]; [left|right]; apply add_nbr_edges_keeps; exact J.
Qed.

(* the neighbour lists are those of an undirected network on the nodes 0..N-1 *)
Definition adj_ok (N : nat) (adj : nat -> list nat) : Prop :=
  forall x y, In y (adj x) -> y < N /\ In x (adj y).

(* site percolation: the occupied nodes are the nodes of the working network, whose edges are
   exactly the edges of the original network between occupied nodes *)
Record SInv (adj : nat -> list nat) (s : state) : Prop := {
  si_inv : Inv s;
  si_occ : forall n, occ (comp s) n <-> In n (wnodes s);
  si_sub1 : forall x y, In (x, y) (wedges s) -> In x (wnodes s) /\ In y (wnodes s) /\ In y (adj x);
  si_sub2 : forall x y, In x (wnodes s) -> In y (wnodes s) -> In y (adj x) -> In (x, y) (wedges s) \/ In (y, x) (wedges s)
}.

Lemma occupy_site_spec N adj s nr : adj_ok N adj -> SInv adj s -> length (comp s) = N -> nr < N -> ~ In nr (wnodes s) ->
  let s' := occupy_site adj s nr in
  SInv adj s' /\ length (comp s') = N /\ wnodes s' = wnodes s ++ [nr] /\ (gcc s <= gcc s')%Z.
Proof.
  intros A [[U G K] So S1 S2] Len Lnr Fresh. cbv zeta. unfold occupy_site.
  rewrite (add_node_fresh _ _ Fresh). set (wn := wnodes s ++ [nr]).
  assert (Lnr' : nr < length (comp s)) by lia.
  assert (Unr : get (comp s) nr = unocc (comp s)).
  { destruct (Z.eq_dec (get (comp s) nr) (unocc (comp s))) as [E|E]; [exact E|]. exfalso. apply Fresh, So. split; assumption. }
  set (a0 := set (comp s) nr (-1)%Z).
  assert (R0 : is_root a0 nr) by (apply fresh_root; auto).
  assert (L0 : Lk nr (gcc s) a0 (wedges s) 1%Z (ncomp s + 1)%Z).
  { constructor.
    - apply fresh_UF; assumption.
    - exact R0.
    - unfold a0. rewrite fresh_get_nr by exact Lnr'. reflexivity.
    - apply fresh_NcOK; assumption.
    - intros r R Ne. apply fresh_root in R; [|assumption]. destruct R as [->|R]; [contradiction|].
      unfold a0. rewrite fresh_get by auto. apply (proj1 G _ R).
    - destruct (proj2 G) as [(r & R & E)|[E _]]; [|left; lia]. right. exists r.
      assert (r <> nr) by (intros ->; apply (not_root_nr _ _ Lnr' Unr R)).
      split; [apply fresh_root; auto|]. split; [assumption|]. unfold a0. rewrite fresh_get by auto. exact E. }
  assert (Hadj : forall m, In m (adj nr) -> m < length a0).
  { intros m I. unfold a0. rewrite set_length, Len. apply (A _ _ I). }
  destruct (link_nbrs_spec nr (gcc s) (adj nr) a0 (wedges s) 1%Z (ncomp s + 1)%Z L0 Hadj)
    as (a' & cs' & nc' & es' & E & [U' R' Ecs K' G1 G2] & Len' & Oc & Hes & Le).
  rewrite E. cbn [comp gcc ncomp wnodes wedges].
  assert (Ocw : forall x, occ a0 x <-> In x wn).
  { intros x. unfold a0. rewrite (fresh_occ _ _ Lnr'), So. unfold wn. rewrite in_app_iff. cbn. intuition. }
  assert (Q : eeq es' (add_nbr_edges nr (adj nr) wn (wedges s))).
  { split; intros x y I.
    - apply Hes in I. destruct I as [I|(-> & I & O)]; [left; apply add_nbr_edges_keeps; exact I|].
      apply add_nbr_edges_has; [exact I | apply Ocw; exact O].
    - left. apply Hes. apply add_nbr_edges_inv in I. destruct I as [I|(-> & I & W)]; [left; exact I|].
      right. repeat split; auto. apply Ocw. exact W. }
  split; [constructor; [constructor|..]; cbn [comp gcc ncomp wnodes wedges]|].
  - eapply UF_eeq; eauto.
  - split.
    + intros r R. destruct (Nat.eq_dec r nr) as [->|Ne]; [lia | specialize (G1 _ R Ne); lia].
    + left. destruct G2 as [Le2|(r & R & Ne & Er)].
      * exists nr. split; [exact R'|]. lia.
      * destruct (Z.le_gt_cases (gcc s) cs'); [exists nr; split; [exact R' | lia] | exists r; split; [exact R | lia]].
  - exact K'.
  - intros x. rewrite Oc. apply Ocw.
  - intros x y I. apply add_nbr_edges_inv in I. destruct I as [I|(-> & I & W)].
    + destruct (S1 _ _ I) as (Hx & Hy & Ha). unfold wn. rewrite !in_app_iff. auto.
    + repeat split; auto. unfold wn. apply in_app_iff. right. left. reflexivity.
  - intros x y Hx Hy Ha. unfold wn in Hx, Hy. rewrite in_app_iff in Hx, Hy. cbn in Hx, Hy.
    destruct Hx as [Hx|[<-|[]]]; destruct Hy as [Hy|[<-|[]]].
    + destruct (S2 _ _ Hx Hy Ha); [left|right]; apply add_nbr_edges_keeps; assumption.
    + destruct (add_nbr_edges_has nr wn (adj nr) (wedges s) x) as [J|J]; auto.
      * apply (A _ _ Ha).
      * unfold wn. apply in_app_iff. left. exact Hx.
    + apply add_nbr_edges_has; [exact Ha|]. unfold wn. apply in_app_iff. left. exact Hy.
    + apply add_nbr_edges_has; [exact Ha|]. unfold wn. apply in_app_iff. right. left. reflexivity.
  - split; [rewrite Len'; unfold a0; rewrite set_length; exact Len|]. split; [reflexivity | lia].
Qed.
