(* C03 / C04 lifted to whole runs (stoch_run, sync_run) and restated on the observable fields of
   [result] (r_out is oldest first). *)
From Coq Require Import List ZArith QArith Qabs Bool Arith Lia Lqa Sorted.
From EpyV Require Import Model.Kernel Proofs.KernelBase Proofs.KernelLoops Proofs.KernelQueue
  Proofs.KernelFire Proofs.KernelTime.
Import ListNotations.
Open Scope Q_scope.

(* ------------------------------------------------------------------ from newest-first to oldest-first *)
Lemma obs_times_rev o : obs_times (rev o) = rev (obs_times o).
Proof. unfold obs_times. rewrite filter_rev', map_rev. reflexivity. Qed.

Lemma desc_rev L l : desc (L :: l) -> StronglySorted Qle (rev l) /\ Forall (fun x => x <= L) l.
Proof.
  intros H. inversion H as [|? ? Hs Hf]; subst. split; [|exact Hf].
  apply (ss_rev (fun a b : Q => b <= a)) in Hs. exact Hs.
Qed.

Lemma Forall_rev' {A} (P : A -> Prop) l : Forall P l -> Forall P (rev l).
Proof. rewrite !Forall_forall. intros H x Hx. apply H, in_rev, Hx. Qed.

Lemma ntaps_rev o : ntaps (rev o) = ntaps o.
Proof. unfold ntaps. rewrite filter_rev', rev_length. reflexivity. Qed.
Lemma nhandlers_rev o : nhandlers (rev o) = nhandlers o.
Proof. unfold nhandlers. rewrite filter_rev', rev_length. reflexivity. Qed.

Lemma ph_rev o lg : filter is_ph o = map hrec (rev lg) -> filter is_ph (rev o) = map hrec lg.
Proof. intros H. rewrite filter_rev', H, <- map_rev, rev_involutive. reflexivity. Qed.

Lemma paired_nhandlers o : paired (ht o) -> ntaps o = nhandlers o.
Proof.
  intros P. apply paired_counts in P. unfold ht in P. rewrite filter_ht_tap, filter_ht_handler in P. exact P.
Qed.

Section R.
Context {W : Type}.
Implicit Types s : st W.
Variable tb : table W.
Variable pf fuel : nat.

(* ------------------------------------------------------------------ the state after set-up *)
Lemma setup_ord rs ls ds : ord_st (setup_state tb rs ls ds) [].
Proof.
  destruct (setup_state_umoves tb rs ls ds) as [U _].
  split; [|constructor|intros ? []].
  apply (wfk_umoves _ _ U). cbn. split; constructor.
Qed.

Lemma setup_tinv rs ls ds : tinv_st 0 (setup_state tb rs ls ds).
Proof.
  destruct (setup_state_umoves tb rs ls ds) as [U _].
  apply (tinv_umoves 0 _ _ U). cbn. split; [constructor; constructor|lra|intros ? []].
Qed.

Lemma setup_CI rs ls ds : CI 0 (setup_state tb rs ls ds).
Proof.
  destruct (setup_state_umoves tb rs ls ds) as [U _]. apply ht_umoves in U.
  change (ht (out (setup_state tb rs ls ds)) = []) in U. unfold CI. rewrite ntaps_ht_eq, U. split; [constructor|reflexivity].
Qed.

Lemma setup_oracle rs ls ds : lns (setup_state tb rs ls ds) = ls /\ stuck (setup_state tb rs ls ds) = false.
Proof. destruct (setup_state_umoves tb rs ls ds) as [_ [A B]]. split; assumption. Qed.

(* ------------------------------------------------------------------ stochastic runs *)
Section Stoch.
Variables (rs ls : list Q) (ds : list nat).
Let r := stoch_run tb pf fuel rs ls ds.
Let F := stoch_fired tb pf fuel rs ls ds.

Lemma stoch_fields : r_out r = rev (out (r_final r)) /\ r_stuck r = stuck (r_final r).
Proof.
  unfold r. rewrite stoch_run_eq. destruct (stoch_runL tb pf fuel rs ls ds) as [[[t ev] s] l]. split; reflexivity.
Qed.

Lemma stoch_count : CI (r_events r) (r_final r).
Proof.
  unfold r. rewrite stoch_run_eq. destruct (stoch_runL tb pf fuel rs ls ds) as [[[t ev] s] l] eqn:E. cbn.
  eapply stoch_loopL_count; [apply setup_CI|exact E].
Qed.

Lemma stoch_ord : nonneg_tb tb -> Forall (Qle 0) ls ->
  ord_st (r_final r) F /\ fired_le F (r_time r).
Proof.
  intros Hnn Hl. unfold r, F, stoch_fired. rewrite stoch_run_eq.
  destruct (stoch_runL tb pf fuel rs ls ds) as [[[t ev] s] l] eqn:E. cbn.
  pose proof (stoch_loopL_ord tb pf Hnn fuel 0 0 (setup_state tb rs ls ds) [] t ev s l) as H. cbn in H.
  destruct H as [A [B _]]; [|exact E|split; assumption].
  split; [apply setup_ord|split; [intros ? []|]]. unfold lns_ok. rewrite (proj1 (setup_oracle rs ls ds)). exact Hl.
Qed.

Lemma stoch_tinv : nonneg_tb tb -> Forall (Qle 0) ls -> r_stuck r = false -> tinv_st (r_time r) (r_final r).
Proof.
  intros Hnn Hl. unfold r. rewrite stoch_run_eq.
  destruct (stoch_runL tb pf fuel rs ls ds) as [[[t ev] s] l] eqn:E. cbn. intros Hs.
  pose proof (stoch_loopL_tinv tb pf Hnn fuel 0 0 (setup_state tb rs ls ds) t ev s l) as H.
  destruct H as [_ [H|H]]; [|exact E|congruence|exact H].
  split; [unfold lns_ok; rewrite (proj1 (setup_oracle rs ls ds)); exact Hl|right; apply setup_tinv].
Qed.

End Stoch.

(* ------------------------------------------------------------------ synchronous runs *)
Section Sync.
Variables (rs : list Q) (ds : list nat).
Let r := sync_run tb pf fuel rs ds.
Let F := sync_fired tb pf fuel rs ds.

Lemma sync_fields : r_out r = rev (out (r_final r)) /\ r_stuck r = stuck (r_final r).
Proof.
  unfold r. rewrite sync_run_eq. destruct (sync_runL tb pf fuel rs ds) as [[[[t ev] k] s] l]. split; reflexivity.
Qed.

Lemma sync_count : CI (r_events r) (r_final r).
Proof.
  unfold r. rewrite sync_run_eq. destruct (sync_runL tb pf fuel rs ds) as [[[[t ev] k] s] l] eqn:E. cbn.
  eapply sync_loopL_count; [apply setup_CI|exact E].
Qed.

Lemma sync_ord : ord_st (r_final r) F /\ fired_le F (r_time r).
Proof.
  unfold r, F, sync_fired. rewrite sync_run_eq.
  destruct (sync_runL tb pf fuel rs ds) as [[[[t ev] k] s] l] eqn:E. cbn.
  pose proof (sync_loopL_ord tb pf fuel 1 0 0 (setup_state tb rs [] ds) [] t ev k s l) as H. cbn in H.
  apply H; [|exact E]. split; [apply setup_ord|intros ? []].
Qed.

Lemma sync_tinv : r_stuck r = false -> exists L, L + 1 == r_time r /\ tinv_st L (r_final r).
Proof.
  unfold r. rewrite sync_run_eq.
  destruct (sync_runL tb pf fuel rs ds) as [[[[t ev] k] s] l] eqn:E. cbn. intros Hs.
  pose proof (sync_loopL_tinv tb pf fuel 1 0 0 (setup_state tb rs [] ds) t ev k s l) as H.
  destruct H as [H|H]; [|exact E|congruence|exact H].
  right. exists 0. split; [lra|apply setup_tinv].
Qed.

Lemma sync_time : exists m : nat, (m <= fuel)%nat /\ r_time r == 1 + inject_Z (Z.of_nat m) /\
  (r_stuck r = false -> at_end tb (r_time r) (r_final r) = true) /\
  (forall j : nat, (j < m)%nat -> Qle_bool (t_maxtime tb) (1 + inject_Z (Z.of_nat j)) = false).
Proof.
  unfold r. rewrite sync_run_eq.
  destruct (sync_runL tb pf fuel rs ds) as [[[[t ev] k] s] l] eqn:E. cbn.
  apply (sync_loopL_time tb pf) in E. exact E.
Qed.

End Sync.
End R.

(* ------------------------------------------------------------------ small facts about the trace predicates *)
Lemma paired_fwd_handler l k targ clk e m : paired_fwd l -> In (OHandler k targ clk e m) l -> targ = clk.
Proof.
  induction 1 as [|k0 t0 e0 p0 l0 _ IH|k0 t0 e0 m0 p0 j0 l0 _ IH]; intros Hi; [destruct Hi| |].
  - destruct Hi as [E|[E|Hi]]; [injection E as _ <- <- _ _; reflexivity|discriminate|auto].
  - destruct Hi as [E|[E|Hi]]; [injection E as _ <- <- _ _; reflexivity|discriminate|auto].
Qed.

Lemma in_ht x o : In x o -> is_ht x = true -> In x (ht o).
Proof. intros H1 H2. unfold ht. apply filter_In. auto. Qed.

Lemma sorted_map_filter {A} (f : A -> Q) p l :
  StronglySorted Qle (map f l) -> StronglySorted Qle (map f (filter p l)).
Proof.
  induction l as [|x l IH]; cbn; intros H; [constructor|]. inversion H as [|? ? Hs Hf]; subst.
  destruct (p x); [|auto]. cbn. constructor; [auto|].
  rewrite Forall_forall in *. intros y Hy. apply Hf. apply in_map_iff in Hy. destruct Hy as [z [<- Hz]].
  apply in_map. apply filter_In in Hz. apply Hz.
Qed.

Lemma handler_times_sorted o : StronglySorted Qle (obs_times o) ->
  StronglySorted Qle (map time_of (filter is_handler o)) /\ StronglySorted Qle (map time_of (filter is_tap o)).
Proof.
  intros H. unfold obs_times in H. split.
  - rewrite <- filter_ht_handler. apply sorted_map_filter, H.
  - rewrite <- filter_ht_tap. apply sorted_map_filter, H.
Qed.

Lemma hrec_in_out o lg x : filter is_ph o = map hrec lg -> In x lg -> In (hrec x) o.
Proof.
  intros H Hx. assert (Hi : In (hrec x) (filter is_ph o)) by (rewrite H; apply in_map, Hx).
  apply filter_In in Hi. apply Hi.
Qed.

Lemma succ_fields x ddt y : succ_of x ddt y ->
  e_time y = Qred (e_time x + ddt) /\ e_prog y = e_prog x /\ e_elem y = e_elem x /\ e_proc y = e_proc x /\
  e_rep y = Some ddt /\ e_live y = true.
Proof. intros ->. cbn [e_time e_prog e_elem e_proc e_rep e_live mk_entry]. auto 6. Qed.

Section RunPending.
Context {W : Type}.
Implicit Types s : st W.

(* exactly once, with the posted time and element *)
Lemma run_pendingL_exactly_once tb fuel t n s n' s' l y : wf s ->
  run_pendingL tb fuel t n s = (n', s', l) -> stuck s' = false ->
  In y (queue s) -> e_live y = true -> e_time y <= t -> ~ In (unposted y) (out s') ->
  In y l /\ NoDup (map e_id l) /\ In (hrec y) (out s').
Proof.
  intros Hw H Hs Hy Hl Ht Hu.
  destruct (run_pendingL_ginv tb fuel t n s n' s' l Hw H) as [d [E G]].
  assert (Hin : In y l).
  { destruct (run_pendingL_cons tb fuel t n s n' s' l y Hw H Hy Hl) as [C|[C|C]]; [exact C| |contradiction].
    pose proof (run_pendingL_not_stuck tb fuel t n s n' s' l H Hs y C Hl). lra. }
  split; [exact Hin|split; [apply (g_nodup _ _ _ _ _ G)|]].
  rewrite E. apply in_or_app. left. eapply hrec_in_out; [apply (g_hrec _ _ _ _ _ G)|]. apply in_rev in Hin. exact Hin.
Qed.

Lemma run_pendingL_order tb fuel t n s n' s' l : wf s ->
  run_pendingL tb fuel t n s = (n', s', l) -> StronglySorted (fun a b => before a b = true) l.
Proof.
  intros Hw H.
  assert (O : ord_st s []) by (split; [exact Hw|constructor|intros ? []]).
  destruct (run_pendingL_ord tb fuel t n s [] n' s' l O H) as [A _]. apply (o_sorted _ _ _ _ A).
Qed.

Lemma run_pendingL_fired_gone tb fuel t n s n' s' l x : wf s ->
  run_pendingL tb fuel t n s = (n', s', l) -> In x l -> gone_st (e_id x) s'.
Proof.
  intros Hw H Hx. destruct (run_pendingL_ginv tb fuel t n s n' s' l Hw H) as [d [E G]].
  destruct (g_fired _ _ _ _ _ G x Hx) as [A [B _]]. split; [exact A|].
  apply find_live_none. intros z Hz Ez. exfalso. apply B. rewrite <- Ez. apply in_map, Hz.
Qed.

(* the records of the posted handlers run by the call: one per fired entry, in order, carrying
   the entry's own time (as handler argument and as clock) and element *)
Lemma run_pendingL_records tb fuel t n s n' s' l : wf s ->
  run_pendingL tb fuel t n s = (n', s', l) ->
  exists d, out s' = d ++ out s /\ filter is_ph (rev d) = map hrec l.
Proof.
  intros Hw H. destruct (run_pendingL_ginv tb fuel t n s n' s' l Hw H) as [d [E G]].
  exists d. split; [exact E|]. apply ph_rev, (g_hrec _ _ _ _ _ G).
Qed.

(* a repeating entry keeps firing at t0, t0 + ddt, t0 + 2 ddt, ... as long as the bound allows *)
Lemma run_pendingL_rep_step tb fuel t n s n' s' l x ddt : wf s ->
  run_pendingL tb fuel t n s = (n', s', l) -> In x l -> e_rep x = Some ddt -> 0 <= ddt ->
  exists y, succ_of x ddt y /\ (In y l \/ In y (queue s') \/ In (unposted y) (out s')).
Proof.
  intros Hw H Hx Hr Hd. destruct (run_pendingL_ginv tb fuel t n s n' s' l Hw H) as [d [E G]].
  destruct (g_rep _ _ _ _ _ G x ddt Hx Hr Hd) as [y [A [B|[B|B]]]]; exists y; (split; [exact A|]); auto.
  right. right. rewrite E. apply in_or_app. left. exact B.
Qed.

Lemma run_pendingL_rep_chain tb fuel t n s n' s' l x ddt : wf s ->
  run_pendingL tb fuel t n s = (n', s', l) -> stuck s' = false ->
  (forall i r, ~ In (OUnpost i (Some (Some r))) (out s')) ->
  In x l -> e_rep x = Some ddt -> 0 <= ddt ->
  forall k : nat, e_time x + inject_Z (Z.of_nat k) * ddt <= t ->
  exists y, In y l /\ e_time y == e_time x + inject_Z (Z.of_nat k) * ddt /\
            e_prog y = e_prog x /\ e_elem y = e_elem x /\ e_proc y = e_proc x /\ e_rep y = Some ddt.
Proof.
  intros Hw H Hs Hnu Hx Hr Hd. induction k as [|k IH]; intros Hk.
  - exists x. split; [exact Hx|split; [rewrite inj_nat_0; lra|auto]].
  - rewrite inj_nat_S in Hk.
    assert (Hk' : e_time x + inject_Z (Z.of_nat k) * ddt <= t).
    { assert (0 <= inject_Z (Z.of_nat k)) by (change 0 with (inject_Z 0); rewrite <- Zle_Qle; lia). nra. }
    destruct (IH Hk') as [y [Hy [Ty [P1 [P2 [P3 P4]]]]]].
    destruct (run_pendingL_rep_step tb fuel t n s n' s' l y ddt Hw H Hy P4 Hd) as [z [Sz Cz]].
    destruct (succ_fields _ _ _ Sz) as [F1 [F2 [F3 [F4 [F5 F6]]]]].
    assert (Tz : e_time z == e_time x + inject_Z (Z.of_nat (S k)) * ddt).
    { rewrite F1, Qred_correct, Ty, inj_nat_S. ring. }
    exists z. split; [|split; [exact Tz|repeat split; congruence]].
    destruct Cz as [C|[C|C]]; [exact C| |exfalso; eapply Hnu; exact C].
    exfalso. pose proof (run_pendingL_not_stuck tb fuel t n s n' s' l H Hs z C (succ_live _ _ _ Sz)) as Hlt.
    rewrite Tz, inj_nat_S in Hlt. lra.
Qed.

End RunPending.

(* ------------------------------------------------------------------ whole runs: what happened to every id handed out *)
Section Posted.
Context {W : Type}.
Implicit Types s : st W.

Lemma ginv_posted_rev s lg i tt : ginv_st s lg -> In (OPosted i tt) (rev (out s)) ->
  exists x, e_id x = i /\ e_time x = tt /\ e_live x = true /\
    (In x lg \/ In (OUnpost i (Some (Some tt))) (rev (out s)) \/ In x (queue s)).
Proof.
  intros G Hi. apply in_rev in Hi. destruct (g_posted _ _ _ _ _ G i tt Hi) as [x [A [B [C D]]]].
  exists x. split; [exact A|split; [exact B|split; [exact C|]]].
  destruct D as [D|[D|D]]; [right; right; exact D|left; exact D|].
  right. left. apply in_rev. rewrite rev_involutive. unfold unposted in D. rewrite A, B in D. exact D.
Qed.

Lemma ginv_unposted_rev s lg i r : ginv_st s lg -> In (OUnpost i (Some (Some r))) (rev (out s)) ->
  gone_st i s /\ ~ In i (map e_id lg).
Proof.
  intros G Hi. apply in_rev in Hi. destruct (g_unposted _ _ _ _ _ G i r Hi) as [A [B C]].
  split; [split; [exact A|apply find_live_none; exact B]|exact C].
Qed.

Lemma ginv_rep_rev s lg x ddt : ginv_st s lg -> In x lg -> e_rep x = Some ddt -> 0 <= ddt ->
  exists y, succ_of x ddt y /\ (In y lg \/ In y (queue s) \/ In (unposted y) (rev (out s))).
Proof.
  intros G Hx Hr Hd. destruct (g_rep _ _ _ _ _ G x ddt Hx Hr Hd) as [y [A [B|[B|B]]]]; exists y; (split; [exact A|]); auto.
  right. right. apply in_rev. rewrite rev_involutive. exact B.
Qed.

Lemma ginv_posted_fired s lg i tt x : ginv_st s lg ->
  In (OPosted i tt) (rev (out s)) -> In x lg -> e_id x = i ->
  e_time x = tt /\ In (OHandler (e_prog x) tt tt (e_elem x) None) (rev (out s)).
Proof.
  intros G Hp Hx Hi. pose proof (ph_rev _ _ (g_hrec _ _ _ _ _ G)) as Hph.
  destruct (ginv_posted_rev _ _ i tt G Hp) as [y [A [B [C D]]]].
  assert (E : y = x).
  { destruct D as [D|[D|D]].
    - apply (NoDup_id_inj lg _ _ (g_nodup _ _ _ _ _ G)); [exact D|exact Hx|congruence].
    - exfalso. apply (proj2 (ginv_unposted_rev _ _ i tt G D)). rewrite <- Hi. apply in_map, Hx.
    - exfalso. apply (proj1 (proj2 (g_fired _ _ _ _ _ G x Hx))). rewrite Hi, <- A. apply in_map, D. }
  subst y. split; [exact B|]. rewrite <- B. exact (hrec_in_out _ _ x Hph Hx).
Qed.

End Posted.

(* ------------------------------------------------------------------ statements on the model's own run_pending *)
Section Pending.
Context {W : Type}.
Implicit Types s : st W.

(* the entries fired by a call of run_pending, in order *)
Definition pending_fired (tb : table W) (fuel : nat) (t : Q) (n : nat) s : list entry :=
  snd (run_pendingL tb fuel t n s).

Lemma run_pending_L tb fuel t n s n' s' : run_pending tb fuel t n s = (n', s') ->
  run_pendingL tb fuel t n s = (n', s', pending_fired tb fuel t n s).
Proof.
  intros H. rewrite <- run_pendingL_fst in H. unfold pending_fired.
  destruct (run_pendingL tb fuel t n s) as [[a b] c]. cbn in *. congruence.
Qed.

Lemma gone_query p t e k s : gone_st (the_id k s) s -> ids s <> [] ->
  do_action p t e (AQuery k) s = emit (OQuery (the_id k s) None) s.
Proof. intros [_ G] Hi. rewrite (query_spec p t e k s Hi), G. reflexivity. Qed.

Lemma gone_unpost p t e k fatal s : gone_st (the_id k s) s -> ids s <> [] ->
  do_action p t e (AUnpost k fatal) s = emit (OUnpost (the_id k s) (if fatal then None else Some None)) s.
Proof. intros [_ G] Hi. apply unpost_dead; assumption. Qed.

Lemma run_pending_count tb fuel t n s n' s' : run_pending tb fuel t n s = (n', s') ->
  n' = (n + length (pending_fired tb fuel t n s))%nat.
Proof.
  intros H. apply run_pending_L in H. revert H. generalize (pending_fired tb fuel t n s). intros l H.
  revert n s n' s' l H. induction fuel as [|f IH]; intros n s n' s' l; cbn [run_pendingL].
  - intros [= <- <- <-]. cbn. lia.
  - destruct (head (queue (discard s))) as [h|]; [|intros [= <- <- <-]; cbn; lia].
    destruct (Qle_bool (e_time h) t); [|intros [= <- <- <-]; cbn; lia].
    destruct (run_pendingL tb f t (S n) _) as [[n1 s1] l1] eqn:E. intros [= <- <- <-].
    apply IH in E. cbn. lia.
Qed.

End Pending.

(* ------------------------------------------------------------------ more run-level facts *)
Section More.
Context {W : Type}.
Implicit Types s : st W.

Lemma stoch_loop_gone (tb : table W) pf fuel t ev s t' ev' s' i :
  gone_st i s -> stoch_loop tb pf fuel t ev s = (t', ev', s') -> gone_st i s'.
Proof.
  intros G H. rewrite <- stoch_loopL_fst in H.
  destruct (stoch_loopL tb pf fuel t ev s) as [[[a b] c] l] eqn:E. cbn in H. injection H as -> -> ->.
  exact (proj1 (gone_kmoves i _ _ _ (stoch_loopL_kmoves _ _ _ _ _ _ _ _ _ _ E) G)).
Qed.

Lemma sync_loop_gone (tb : table W) pf fuel t ev k s t' ev' k' s' i :
  gone_st i s -> sync_loop tb pf fuel t ev k s = (t', ev', k', s') -> gone_st i s'.
Proof.
  intros G H. rewrite <- sync_loopL_fst in H.
  destruct (sync_loopL tb pf fuel t ev k s) as [[[[a b] c] d] l] eqn:E. cbn in H. injection H as -> -> -> ->.
  exact (proj1 (gone_kmoves i _ _ _ (sync_loopL_kmoves _ _ _ _ _ _ _ _ _ _ _ _ E) G)).
Qed.

Lemma stoch_run_dinv (tb : table W) pf fuel rs ls ds x :
  In x (queue (r_final (stoch_run tb pf fuel rs ls ds))) -> e_live x = false ->
  In (unposted x) (r_out (stoch_run tb pf fuel rs ls ds)).
Proof.
  intros Hx Hl. rewrite (proj1 (stoch_fields tb pf fuel rs ls ds)). apply -> in_rev.
  refine (dinv_kmoves _ _ _ (stoch_run_kmoves tb pf fuel rs ls ds) _ _ x Hx Hl); cbn.
  - split; constructor.
  - intros ? [].
Qed.

Lemma sync_run_dinv (tb : table W) pf fuel rs ds x :
  In x (queue (r_final (sync_run tb pf fuel rs ds))) -> e_live x = false ->
  In (unposted x) (r_out (sync_run tb pf fuel rs ds)).
Proof.
  intros Hx Hl. rewrite (proj1 (sync_fields tb pf fuel rs ds)). apply -> in_rev.
  refine (dinv_kmoves _ _ _ (sync_run_kmoves tb pf fuel rs ds) _ _ x Hx Hl); cbn.
  - split; constructor.
  - intros ? [].
Qed.

End More.
