(* C19, part 2: what the event functions add and delete do to the world (one event). *)
From Coq Require Import List ZArith Bool Arith Lia Sorted Permutation.
From EpyV Require Import Lib.Prelude Model.Kernel Model.Loci Model.Compart Model.AddDelete
                         Proofs.LociBase Proofs.LociLocus Proofs.LociInv Proofs.AddDelete.
Import ListNotations.
Close Scope Q_scope.
Close Scope Z_scope.

(* ------------------------------------------------------------------ the network invariants *)
Definition gok (s : state) : Prop := graph_ok s /\ NoDup (st_nodes s).
(* every node carries a compartment *)
Definition has_comp (s : state) : Prop := forall v, In v (st_nodes s) -> exists c, st_attr s v = Some (Some c).

Lemma has_comp_not_raises : forall s v, has_comp s -> In v (st_nodes s) -> getc_raises s v = false.
Proof.
  intros s v H Hv. unfold getc_raises. apply has_node_In in Hv as Hn. rewrite Hn. cbn.
  destruct (H v Hv) as [c ->]. reflexivity.
Qed.

(* ------------------------------------------------------------------ what the Loci operations leave alone *)
Lemma call_frame : forall tbl h s e,
  st_nodes (call tbl h s e) = st_nodes s /\ st_edges (call tbl h s e) = st_edges s /\ st_attr (call tbl h s e) = st_attr s.
Proof. intros. unfold call, with_loci. cbn. auto. Qed.

Lemma set_compartment_frame : forall tbl s n c, let s' := fst (set_compartment tbl s n c) in
  st_nodes s' = st_nodes s /\ st_edges s' = st_edges s
  /\ (forall v, st_attr s' v = if has_node s n && Z.eqb v n then Some (Some c) else st_attr s v)
  /\ (has_node s n = true -> snd (set_compartment tbl s n c) = Done).
Proof.
  intros tbl s n c. unfold set_compartment. destruct (has_node s n) eqn:E; cbn [negb fst snd andb].
  - unfold call_enter. destruct (call_frame tbl enter_handler (with_attr s n (Some (Some c))) (N n)) as [A [B C]].
    rewrite A, B, C. cbn. auto.
  - repeat split; auto; discriminate.
Qed.

Lemma change_compartment_frame : forall tbl s n c, let s' := fst (change_compartment tbl s n c) in
  st_nodes s' = st_nodes s /\ st_edges s' = st_edges s
  /\ (forall v, st_attr s' v = if negb (getc_raises s n) && Z.eqb v n then Some (Some c) else st_attr s v)
  /\ (getc_raises s n = false -> snd (change_compartment tbl s n c) = Done)
  /\ (getc_raises s n = true -> s' = s).
Proof.
  intros tbl s n c. unfold change_compartment. destruct (getc_raises s n) eqn:E; cbn [negb fst snd andb].
  - repeat split; auto. discriminate.
  - set (s1 := match getc s n with Some _ => call_leave tbl s (N n) | None => s end).
    assert (F1 : st_nodes s1 = st_nodes s /\ st_edges s1 = st_edges s /\ st_attr s1 = st_attr s).
    { unfold s1. destruct (getc s n); [apply call_frame | auto]. }
    destruct F1 as [A1 [B1 C1]].
    unfold call_enter. destruct (call_frame tbl enter_handler (with_attr s1 n (Some (Some c))) (N n)) as [A [B C]].
    rewrite A, B, C. cbn. rewrite A1, B1, C1. repeat split; auto. discriminate.
Qed.

Lemma add_edge_frame : forall tbl s n m, let s' := fst (add_edge tbl s n m) in
  st_nodes s' = st_nodes s /\ st_attr s' = st_attr s
  /\ (has_node s n = true -> has_node s m = true -> getc_raises s n = false -> getc_raises s m = false ->
      snd (add_edge tbl s n m) = Done
      /\ st_edges s' = if adjb (st_edges s) n m then st_edges s else st_edges s ++ [(n, m)]).
Proof.
  intros tbl s n m. unfold add_edge.
  destruct (negb (has_node s n) || negb (has_node s m)) eqn:E1; cbn [fst snd].
  - split; [reflexivity|]. split; [reflexivity|]. intros H1 H2. rewrite H1, H2 in E1. discriminate.
  - destruct (getc_raises s n || getc_raises s m) eqn:E2; cbn [fst snd].
    + split; [reflexivity|]. split; [reflexivity|]. intros _ _ H1 H2. rewrite H1, H2 in E2. discriminate.
    + unfold call_add.
      destruct (call_frame tbl add_handler
                  (mkState (st_nodes s) (if adjb (st_edges s) n m then st_edges s else st_edges s ++ [(n, m)]) (st_attr s) (st_loci s))
                  (E n m)) as [A [B C]].
      rewrite A, B, C. cbn. auto.
Qed.

Lemma rm_loop_frame : forall tbl inc s,
  let s' := fold_left (fun s e => call_remove tbl s (E (fst e) (snd e))) inc s in
  st_nodes s' = st_nodes s /\ st_edges s' = st_edges s /\ st_attr s' = st_attr s.
Proof.
  intros tbl inc. induction inc as [|e inc IH]; intros s; cbn [fold_left]; [auto|].
  destruct (IH (call_remove tbl s (E (fst e) (snd e)))) as [A [B C]].
  destruct (call_frame tbl remove_handler s (E (fst e) (snd e))) as [A' [B' C']].
  unfold call_remove in *. cbv zeta in *. rewrite A, B, C. auto.
Qed.

Definition without_node (s : state) (n : Z) (s' : state) : Prop :=
  st_nodes s' = filter (fun v => negb (Z.eqb v n)) (st_nodes s)
  /\ st_edges s' = filter (fun e => negb (touches n e)) (st_edges s)
  /\ (forall v, st_attr s' v = if Z.eqb v n then None else st_attr s v).

Lemma remove_node_frame : forall tbl s n,
  (getc_raises s n = false -> snd (remove_node tbl s n) = Done /\ without_node s n (fst (remove_node tbl s n)))
  /\ (getc_raises s n = true -> fst (remove_node tbl s n) = s).
Proof.
  intros tbl s n. unfold remove_node. destruct (getc_raises s n) eqn:Er; cbn [fst snd].
  - split; [discriminate | reflexivity].
  - split; [|discriminate]. intros _. split; [reflexivity|].
    destruct (rm_loop_frame tbl (incident (st_edges s) n) s) as [A [B C]]. cbv zeta in A, B, C.
    unfold without_node, call_remove. cbn [st_nodes st_edges st_attr].
    destruct (call_frame tbl remove_handler (fold_left (fun s e => call_remove tbl s (E (fst e) (snd e))) (incident (st_edges s) n) s) (N n)) as [A' [B' C']].
    unfold call_remove in *. rewrite A', B', C', A, B, C. auto.
Qed.

Lemma p_remove_node_frame : forall s n, has_node s n = true ->
  snd (p_remove_node s n) = Done /\ without_node s n (fst (p_remove_node s n)).
Proof. intros s n H. unfold p_remove_node. rewrite H. cbn. unfold without_node. cbn. auto. Qed.

(* ------------------------------------------------------------------ the graph invariant under these changes *)
Lemma gok_add_node : forall s n, gok s -> ~ In n (st_nodes s) ->
  gok (mkState (st_nodes s ++ [n]) (st_edges s) (st_attr s) (st_loci s)).
Proof.
  intros s n [[G1 G2] G3] Hn. split; [split|]; cbn.
  - intros a b Hab. rewrite !in_app_iff. destruct (G1 a b Hab). auto.
  - intros v Hv. apply G2. intro H. apply Hv, in_app_iff. auto.
  - apply NoDup_snoc; assumption.
Qed.

Lemma gok_attr : forall s s', st_nodes s' = st_nodes s -> st_edges s' = st_edges s ->
  (forall v, ~ In v (st_nodes s) -> st_attr s' v = st_attr s v) -> gok s -> gok s'.
Proof.
  intros s s' A B C [[G1 G2] G3]. split; [split|]; rewrite ?A, ?B; try assumption.
  intros v Hv. rewrite C by exact Hv. apply G2, Hv.
Qed.

Lemma graph_ok_without : forall s n s', without_node s n s' -> graph_ok s -> graph_ok s'.
Proof.
  intros s n s' [A [B C]] [G1 G2]. split; rewrite ?A, ?B.
  - intros a b Hab. apply filter_In in Hab. destruct Hab as [Hab Ht].
    unfold touches in Ht. cbn in Ht. apply negb_true_iff, orb_false_iff in Ht. destruct Ht as [T1 T2].
    apply Z.eqb_neq in T1, T2. destruct (G1 a b Hab) as [Ha Hb].
    split; apply filter_In; (split; [assumption | apply negb_true_iff, Z.eqb_neq; assumption]).
  - intros v Hv. rewrite C. destruct (Z.eqb_spec v n) as [_|Hne]; [reflexivity|]. apply G2. intro H. apply Hv.
    apply filter_In. split; [exact H | apply negb_true_iff, Z.eqb_neq, Hne].
Qed.

Lemma gok_without : forall s n s', without_node s n s' -> gok s -> gok s'.
Proof.
  intros s n s' Wn [G G3]. split; [apply (graph_ok_without s n s' Wn G)|].
  destruct Wn as [A _]. rewrite A. apply NoDup_filter, G3.
Qed.

Lemma filter_neq_length : forall n l, NoDup l -> In n l -> S (length (filter (fun v => negb (Z.eqb v n)) l)) = length l.
Proof.
  intros n l Hn Hi. rewrite <- (zdiscard_length n l Hn Hi). f_equal. unfold zdiscard. f_equal.
  apply filter_ext. intro v. rewrite Z.eqb_sym. reflexivity.
Qed.

(* ------------------------------------------------------------------ adjacency and neighbours *)
Lemma adjb_app : forall a b x y, adjb (a ++ b) x y = adjb a x y || adjb b x y.
Proof. intros. unfold adjb. apply existsb_app. Qed.

Definition untouched (es : list (Z * Z)) (n : Z) : Prop := forall e, In e es -> touches n e = false.

Lemma untouched_adjb : forall es n m, untouched es n -> adjb es n m = false.
Proof.
  intros es n m H. unfold adjb. apply not_true_is_false. intro Hx. apply existsb_exists in Hx.
  destruct Hx as [e [He Hs]]. specialize (H e He). unfold touches in H. apply orb_false_iff in H. destruct H as [H1 H2].
  unfold same_edge in Hs. rewrite H1, H2 in Hs. cbn in Hs. rewrite andb_false_r in Hs. discriminate.
Qed.

Lemma untouched_incident : forall es n, untouched es n -> incident es n = [].
Proof.
  intros es n H. unfold incident. induction es as [|e es IH]; [reflexivity|]. cbn [flat_map].
  assert (He : touches n e = false) by (apply H; left; reflexivity).
  unfold touches in He. apply orb_false_iff in He. destruct He as [-> ->]. cbn [app].
  apply IH. intros e' He'. apply H. right. exact He'.
Qed.

Lemma graph_untouched : forall s n, graph_ok s -> ~ In n (st_nodes s) -> untouched (st_edges s) n.
Proof.
  intros s n [G1 _] Hn [a b] He. destruct (G1 a b He) as [Ha Hb]. unfold touches. cbn.
  apply orb_false_iff. split; apply Z.eqb_neq; intro; subst; contradiction.
Qed.

Lemma incident_app : forall a b n, incident (a ++ b) n = incident a n ++ incident b n.
Proof. intros. unfold incident. apply flat_map_app. Qed.

Lemma incident_star : forall i es, incident (map (pair i) es) i = map (pair i) es.
Proof.
  intros i es. unfold incident. induction es as [|j es IH]; [reflexivity|]. cbn [map flat_map fst snd].
  rewrite Z.eqb_refl. cbn [app]. f_equal. exact IH.
Qed.

Lemma neighbours_star : forall s i es edges0, untouched edges0 i -> st_edges s = edges0 ++ map (pair i) es -> neighbours s i = es.
Proof.
  intros s i es edges0 H E. unfold neighbours. rewrite E, incident_app, (untouched_incident _ _ H), incident_star. cbn [app].
  rewrite map_map. cbn. apply map_id.
Qed.

(* ------------------------------------------------------------------ self.addEdge(i, j), for j in es *)
Section Steps.
Variable cf : adcfg.

Definition present (s : state) (v : Z) : Prop :=
  has_node s v = true /\ (tracked_edges cf = true -> getc_raises s v = false).

Lemma link_frame : forall s i j, present s i -> present s j -> adjb (st_edges s) i j = false ->
  let s' := fst (link cf s i j) in
  snd (link cf s i j) = Done /\ st_nodes s' = st_nodes s /\ st_attr s' = st_attr s /\ st_edges s' = st_edges s ++ [(i, j)].
Proof.
  intros s i j [Hi Hi'] [Hj Hj'] Ha. unfold link. destruct (tracked_edges cf) eqn:T.
  - destruct (add_edge_frame (ac_tbl cf) s i j) as [A [B C]]. cbv zeta in *.
    destruct (C Hi Hj (Hi' eq_refl) (Hj' eq_refl)) as [C1 C2]. rewrite Ha in C2. auto.
  - unfold p_add_edge. rewrite Hi, Hj, Ha. cbn. auto.
Qed.

Lemma link_all_frame : forall es s i, NoDup es -> ~ In i es -> present s i -> (forall j, In j es -> present s j) ->
  (forall j, In j es -> adjb (st_edges s) i j = false) ->
  let s' := fst (link_all cf s i es) in
  snd (link_all cf s i es) = true /\ st_nodes s' = st_nodes s /\ st_attr s' = st_attr s
  /\ st_edges s' = st_edges s ++ map (pair i) es.
Proof.
  induction es as [|j es IH]; intros s i Hn Hi Pi Pes Hadj; cbn [link_all map].
  - cbn. rewrite app_nil_r. auto.
  - inversion Hn as [|? ? Hj Hn']; subst.
    destruct (link_frame s i j Pi (Pes j (or_introl eq_refl)) (Hadj j (or_introl eq_refl))) as [L1 [L2 [L3 L4]]].
    cbv zeta in *. destruct (link cf s i j) as [s1 o] eqn:El. cbn [fst snd] in *. subst o.
    assert (Pres : forall v, present s v -> present s1 v).
    { intros v [P1 P2]. unfold present, has_node, getc_raises, has_node. rewrite L2, L3. split; assumption. }
    destruct (IH s1 i Hn') as [I1 [I2 [I3 I4]]].
    + intro H. apply Hi. right. exact H.
    + apply Pres, Pi.
    + intros j' Hj'. apply Pres, Pes. right. exact Hj'.
    + intros j' Hj'. rewrite L4, adjb_app, (Hadj j' (or_intror Hj')). cbn. unfold same_edge. cbn [fst snd].
      rewrite Z.eqb_refl. cbn.
      assert (j <> j') by (intro; subst; contradiction). assert (i <> j') by (intro; subst; apply Hi; right; assumption).
      destruct (Z.eqb_spec j j'); [contradiction|]. destruct (Z.eqb_spec i j'); [contradiction|]. reflexivity.
    + cbv zeta in *. destruct (link_all cf s1 i es) as [s2 ok] eqn:E2. cbn [fst snd] in *. subst ok.
      rewrite I2, I3, I4, L2, L3, L4, <- app_assoc. cbn. auto.
Qed.

(* ------------------------------------------------------------------ the invariant of the population bookkeeping *)
Definition Base (w : adworld) : Prop :=
  gok (aw_st w) /\ NoDup (aw_all w) /\ (forall v, In v (aw_all w) <-> In v (st_nodes (aw_st w)))
  /\ (with_disease cf = true -> has_comp (aw_st w)).

Lemma tracked_with_disease : tracked_edges cf = true -> with_disease cf = true.
Proof. unfold tracked_edges, with_disease. destruct (ac_combo cf); [discriminate|auto|auto]. Qed.

(* everything add does, when the draw loop completes *)
Record add_result (w w' : adworld) (i : Z) (es : list Z) : Prop := {
  ar_fresh : ~ In i (st_nodes (aw_st w));
  ar_nodes : st_nodes (aw_st w') = st_nodes (aw_st w) ++ [i];
  ar_edges : st_edges (aw_st w') = st_edges (aw_st w) ++ map (pair i) es;
  ar_all : aw_all w' = aw_all w ++ [i];
  ar_len : length es = ac_deg cf;
  ar_nodup : NoDup es;
  ar_noself : ~ In i es;
  ar_old : forall j, In j es -> In j (st_nodes (aw_st w));
  ar_nbrs : neighbours (aw_st w') i = es;
  ar_attr : forall v, st_attr (aw_st w') v = if with_disease cf && Z.eqb v i then Some (Some (ac_S cf)) else st_attr (aw_st w) v;
  ar_log : aw_log w' = {| sn_kind := KAdd i es; sn_all := aw_all w'; sn_st := aw_st w' |} :: aw_log w;
  ar_raised : aw_raised w' = aw_raised w;
  ar_stuck : aw_stuck w' = aw_stuck w }.

Lemma set_world_st_st : forall w s all ds st r k, aw_st (set_world_st w s all ds st r k) = s.
Proof. reflexivity. Qed.

Lemma add_step_cases : forall w, Base w ->
  let i := new_node_name (aw_st w) in
  (picks (ac_deg cf) (zsort (zadd i (aw_all w))) i [] (aw_draws w) = None /\
   let w' := add_step cf w in
   aw_stuck w' = true /\ aw_log w' = aw_log w /\ aw_raised w' = aw_raised w
   /\ st_nodes (aw_st w') = st_nodes (aw_st w) ++ [i] /\ st_edges (aw_st w') = st_edges (aw_st w)
   /\ aw_all w' = aw_all w ++ [i]
   /\ (forall v, st_attr (aw_st w') v = if with_disease cf && Z.eqb v i then Some (Some (ac_S cf)) else st_attr (aw_st w) v))
  \/ (exists es ds, picks (ac_deg cf) (zsort (zadd i (aw_all w))) i [] (aw_draws w) = Some (es, ds)
                    /\ aw_draws (add_step cf w) = ds /\ add_result w (add_step cf w) i es).
Proof.
  intros w [[HG HN] [HA [HAN HC]]] i.
  pose proof (new_node_name_fresh (aw_st w)) as Hfresh. fold i in Hfresh.
  assert (Hhn : has_node (aw_st w) i = false).
  { apply not_true_is_false. intro H. apply has_node_In in H. contradiction. }
  assert (Hall : zadd i (aw_all w) = aw_all w ++ [i]).
  { apply zadd_fresh. intro H. apply HAN in H. contradiction. }
  set (s := aw_st w) in *.
  set (s1 := mkState (st_nodes s ++ [i]) (st_edges s) (st_attr s) (st_loci s)).
  assert (Es1 : p_add_node s i = s1) by (unfold p_add_node; rewrite Hhn; reflexivity).
  assert (Hn1 : has_node s1 i = true) by (apply has_node_In; cbn; apply in_app_iff; right; left; reflexivity).
  (* the state after addNewNode *)
  assert (M : exists s2, mark_new cf s1 i = (s2, Done) /\ st_nodes s2 = st_nodes s1 /\ st_edges s2 = st_edges s1
                         /\ (forall v, st_attr s2 v = if with_disease cf && Z.eqb v i then Some (Some (ac_S cf)) else st_attr s v)).
  { unfold mark_new. destruct (with_disease cf) eqn:D.
    - destruct (set_compartment_frame (ac_tbl cf) s1 i (ac_S cf)) as [A [B [C Dn]]]. cbv zeta in *.
      destruct (set_compartment (ac_tbl cf) s1 i (ac_S cf)) as [s2 o] eqn:E. cbn [fst snd] in *.
      exists s2. rewrite (Dn Hn1). split; [reflexivity|]. split; [exact A|]. split; [exact B|].
      intro v. rewrite C, Hn1. reflexivity.
    - exists s1. cbn. auto. }
  destruct M as [s2 [Em [A2 [B2 C2]]]].
  unfold add_step. fold s. fold i. rewrite Es1, Em, Hall.
  destruct (picks (ac_deg cf) (zsort (aw_all w ++ [i])) i [] (aw_draws w)) as [[es ds]|] eqn:Ep.
  - right. exists es, ds. split; [reflexivity|].
    assert (HL : zsort (aw_all w ++ [i]) <> []).
    { intro H. assert (Hi : In i (zsort (aw_all w ++ [i]))) by (apply zsort_In, in_app_iff; right; left; reflexivity).
      rewrite H in Hi. destruct Hi. }
    destruct (picks_spec _ _ _ _ _ _ _ HL Ep (NoDup_nil Z) (fun H => H) (incl_nil_l _)) as [new [E1 [E2 [E3 [E4 E5]]]]].
    cbn [app] in E1. subst new.
    assert (Hold : forall j, In j es -> In j (st_nodes s)).
    { intros j Hj. specialize (E5 j Hj). apply zsort_In, in_app_iff in E5. destruct E5 as [H|[H|[]]]; [apply HAN, H|].
      subst j. contradiction. }
    assert (Hun : untouched (st_edges s) i) by (apply graph_untouched; [exact HG | exact Hfresh]).
    assert (Pres : forall v, In v (st_nodes s2) -> present s2 v).
    { intros v Hv. split; [apply has_node_In, Hv|]. intro T. pose proof (tracked_with_disease T) as D.
      unfold getc_raises. apply has_node_In in Hv as Hv'. rewrite Hv'. cbn [negb orb]. rewrite C2, D. cbn [andb].
      destruct (Z.eqb v i) eqn:Ev; [reflexivity|].
      rewrite A2 in Hv. unfold s1 in Hv. cbn [st_nodes] in Hv. apply in_app_iff in Hv. destruct Hv as [Hv|[Hv|[]]]; [|apply Z.eqb_neq in Ev; congruence].
      destruct (HC D v Hv) as [c ->]. reflexivity. }
    destruct (link_all_frame es s2 i E3 E4) as [K1 [K2 [K3 K4]]].
    + apply Pres. rewrite A2. cbn. apply in_app_iff. right. left. reflexivity.
    + intros j Hj. apply Pres. rewrite A2. cbn. apply in_app_iff. left. apply Hold, Hj.
    + intros j Hj. rewrite B2. cbn. apply untouched_adjb, Hun.
    + cbv zeta in *. destruct (link_all cf s2 i es) as [s3 ok] eqn:El. cbn [fst snd] in *. subst ok.
      split; [reflexivity|].
      assert (Ee : st_edges s3 = st_edges s ++ map (pair i) es) by (rewrite K4, B2; reflexivity).
      constructor; cbn; rewrite ?andb_true_r, ?orb_false_r; try assumption; try reflexivity.
      * rewrite K2, A2. reflexivity.
      * apply (neighbours_star s3 i es (st_edges s) Hun Ee).
      * intro v. rewrite K3. apply C2.
  - left. split; [reflexivity|]. cbn. rewrite orb_true_r, orb_false_r. repeat split; try reflexivity.
    + rewrite A2. reflexivity.
    + rewrite B2. reflexivity.
    + exact C2.
Qed.

(* add keeps the bookkeeping invariant, whether or not the draw loop completes *)
Lemma add_step_base : forall w, Base w -> Base (add_step cf w).
Proof.
  intros w HB. pose proof HB as [[HG HN] [HA [HAN HC]]].
  pose proof (new_node_name_fresh (aw_st w)) as Hfresh.
  set (i := new_node_name (aw_st w)) in *.
  assert (G : forall w', st_nodes (aw_st w') = st_nodes (aw_st w) ++ [i] ->
                         (forall a b, In (a, b) (st_edges (aw_st w')) -> In a (st_nodes (aw_st w')) /\ In b (st_nodes (aw_st w'))) ->
                         aw_all w' = aw_all w ++ [i] ->
                         (forall v, st_attr (aw_st w') v = if with_disease cf && Z.eqb v i then Some (Some (ac_S cf)) else st_attr (aw_st w) v) ->
                         Base w').
  { intros w' En Ee Ea Et. split; [split; [split|]|split; [|split]].
    - exact Ee.
    - intros v Hv. rewrite Et. rewrite En in Hv. destruct (Z.eqb_spec v i) as [->|Hne].
      + exfalso. apply Hv, in_app_iff. right. left. reflexivity.
      + rewrite andb_false_r. apply HG. intro H. apply Hv, in_app_iff. left. exact H.
    - rewrite En. apply NoDup_snoc; assumption.
    - rewrite Ea. apply NoDup_snoc; [exact HA|]. intro H. apply HAN in H. contradiction.
    - intro v. rewrite Ea, En, !in_app_iff, HAN. tauto.
    - intros D v Hv. rewrite Et, D. cbn [andb]. destruct (Z.eqb v i) eqn:Ev; [eauto|].
      rewrite En in Hv. apply in_app_iff in Hv. destruct Hv as [Hv|[Hv|[]]]; [apply (HC D), Hv|].
      apply Z.eqb_neq in Ev. congruence. }
  destruct (add_step_cases w HB) as [[_ H]|[es [ds [_ [_ R]]]]]; fold i in H || fold i in R.
  - cbv zeta in H. destruct H as [_ [_ [_ [En [Ee [Ea Et]]]]]]. apply G; try assumption.
    intros a b Hab. rewrite Ee in Hab. rewrite En, !in_app_iff. destruct (proj1 HG a b Hab). auto.
  - destruct R. apply G; try assumption.
    intros a b Hab. rewrite ar_edges0 in Hab. rewrite ar_nodes0, !in_app_iff. apply in_app_iff in Hab.
    destruct Hab as [Hab|Hab]; [destruct (proj1 HG a b Hab); auto|].
    apply in_map_iff in Hab. destruct Hab as [j [[= <- <-] Hj]]. split; [right; left; reflexivity | left; apply ar_old0, Hj].
Qed.

(* ------------------------------------------------------------------ delete *)
Record delete_result (w w' : adworld) (n : Z) : Prop := {
  dr_net : st_nodes (aw_st w') = filter (fun v => negb (Z.eqb v n)) (st_nodes (aw_st w))
           /\ st_edges (aw_st w') = filter (fun e => negb (touches n e)) (st_edges (aw_st w));
  dr_attr : forall v, st_attr (aw_st w') v = if Z.eqb v n then None else st_attr (aw_st w) v;
  dr_all : aw_all w' = zdiscard n (aw_all w);
  dr_log : aw_log w' = {| sn_kind := KDelete n; sn_all := aw_all w'; sn_st := aw_st w' |} :: aw_log w;
  dr_raised : aw_raised w' = aw_raised w;
  dr_stuck : aw_stuck w' = aw_stuck w;
  dr_draws : aw_draws w' = aw_draws w }.

Lemma delete_step_result : forall w n, Base w -> In n (st_nodes (aw_st w)) -> delete_result w (delete_step cf w n) n.
Proof.
  intros w n [[HG HN] [HA [HAN HC]]] Hn. set (s := aw_st w) in *.
  apply has_node_In in Hn as Hhn.
  (* the state after the combination's part of removeNode *)
  assert (M : exists s1, mark_removed cf s n = (s1, Done) /\ st_nodes s1 = st_nodes s /\ st_edges s1 = st_edges s
                         /\ (forall v, v <> n -> st_attr s1 v = st_attr s v)
                         /\ (with_disease cf = true -> getc_raises s1 n = false)).
  { unfold mark_removed. destruct (with_disease cf) eqn:D.
    - pose proof (has_comp_not_raises s n (HC eq_refl) Hn) as Hr.
      destruct (change_compartment_frame (ac_tbl cf) s n (ac_R cf)) as [A [B [C [Dn _]]]]. cbv zeta in *.
      destruct (change_compartment (ac_tbl cf) s n (ac_R cf)) as [s1 o] eqn:E. cbn [fst snd] in *.
      exists s1. rewrite (Dn Hr). split; [reflexivity|]. split; [exact A|]. split; [exact B|]. split.
      + intros v Hv. rewrite C. apply Z.eqb_neq in Hv. rewrite Hv, andb_false_r. reflexivity.
      + intros _. unfold getc_raises, has_node. rewrite A. fold (has_node s n). rewrite Hhn. cbn.
        rewrite C, Hr, Z.eqb_refl. reflexivity.
    - exists s. cbn. split; [reflexivity|]. repeat split; auto. discriminate. }
  destruct M as [s1 [Em [A1 [B1 [C1 R1]]]]].
  assert (Hhn1 : has_node s1 n = true) by (unfold has_node; rewrite A1; exact Hhn).
  assert (U : exists s2, unlink cf s1 n = (s2, Done) /\ without_node s1 n s2).
  { unfold unlink. destruct (ac_combo cf) eqn:Ec.
    - destruct (p_remove_node_frame s1 n Hhn1) as [P1 P2]. destruct (p_remove_node s1 n) as [s2 o]. cbn in *. subst o. eauto.
    - destruct (remove_node_frame (ac_tbl cf) s1 n) as [P _].
      assert (D : with_disease cf = true) by (unfold with_disease; rewrite Ec; reflexivity).
      destruct (P (R1 D)) as [P1 P2]. destruct (remove_node (ac_tbl cf) s1 n) as [s2 o]. cbn in *. subst o. eauto.
    - destruct (p_remove_node_frame s1 n Hhn1) as [P1 P2]. destruct (p_remove_node s1 n) as [s2 o]. cbn in *. subst o. eauto. }
  destruct U as [s2 [Eu [A2 [B2 C2]]]].
  unfold delete_step. fold s. rewrite Em, Eu. constructor; cbn; rewrite ?orb_false_r; try reflexivity.
  - rewrite A2, B2, A1, B1. auto.
  - intros v. rewrite C2. destruct (Z.eqb_spec v n) as [_|Hv]; [reflexivity|]. apply C1, Hv.
Qed.

Lemma delete_step_base : forall w n, Base w -> In n (st_nodes (aw_st w)) -> Base (delete_step cf w n).
Proof.
  intros w n HB Hn. pose proof HB as [[HG HN] [HA [HAN HC]]].
  destruct (delete_step_result w n HB Hn) as [[En Ee] Et Ea _ _ _ _].
  split; [|split; [|split]].
  - (* the network *)
    split; [split|].
    + intros a b Hab. rewrite Ee in Hab. apply filter_In in Hab. destruct Hab as [Hab Ht].
      unfold touches in Ht. cbn in Ht. apply negb_true_iff, orb_false_iff in Ht. destruct Ht as [T1 T2].
      apply Z.eqb_neq in T1, T2. destruct (proj1 HG a b Hab) as [Ha Hb]. rewrite En.
      split; apply filter_In; (split; [assumption | apply negb_true_iff, Z.eqb_neq; assumption]).
    + intros v Hv. rewrite Et. destruct (Z.eqb_spec v n) as [_|Hne]; [reflexivity|].
      apply HG. intro H. apply Hv. rewrite En. apply filter_In.
      split; [exact H | apply negb_true_iff, Z.eqb_neq, Hne].
    + rewrite En. apply NoDup_filter, HN.
  - rewrite Ea. apply zdiscard_NoDup, HA.
  - intro v. rewrite Ea, En, zdiscard_In, filter_In, negb_true_iff, Z.eqb_neq, HAN. tauto.
  - intros D v Hv. rewrite En in Hv. apply filter_In in Hv. destruct Hv as [Hv Hne].
    apply negb_true_iff in Hne. rewrite Et, Hne. apply (HC D), Hv.
Qed.

End Steps.
