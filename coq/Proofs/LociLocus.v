(* C01, per-locus reasoning: what each handler does to the contents of one locus, and how that
   re-establishes the (weak) invariant of that locus around each of the six operations. *)
From Coq Require Import List ZArith Bool Arith Lia.
From EpyV Require Import Model.Loci Proofs.LociBase.
Import ListNotations.

Definition involves (n : Z) (x : elem) : Prop :=
  match x with N v => v = n | E a b => a = n \/ b = n end.
Definition flip (x : elem) : elem := match x with N v => N v | E a b => E b a end.

Lemma involves_flip : forall n x, involves n (flip x) <-> involves n x.
Proof. intros n [v|a b]; cbn; tauto. Qed.
Lemma flip_flip : forall x, flip (flip x) = x.
Proof. intros [v|a b]; reflexivity. Qed.

(* the set the property names, as a predicate *)
Definition truthP (sp : spec) (s : state) (x : elem) : Prop :=
  match sp with
  | NodeLocus c => match x with N v => In v (st_nodes s) /\ getc s v = Some c | E _ _ => False end
  | _ => match x with E a b => adj s a b /\ qual sp s a b = true | N _ => False end
  end.

Lemma truth_In : forall sp s x, In x (truth sp s) <-> truthP sp s x.
Proof.
  intros sp s x.
  assert (HE : forall sp', edge_spec sp' ->
    (In x (enodup (flat_map (fun e => (if qual sp' s (fst e) (snd e) then [E (fst e) (snd e)] else [])
                                   ++ (if qual sp' s (snd e) (fst e) then [E (snd e) (fst e)] else [])) (st_edges s)))
     <-> match x with E a b => adj s a b /\ qual sp' s a b = true | N _ => False end)).
  { intros sp' _. rewrite enodup_In, in_flat_map. split.
    - intros [[a b] [He Hx]]. cbn in Hx. apply in_app_iff in Hx. destruct Hx as [Hx|Hx].
      + destruct (qual sp' s a b) eqn:Q; [|destruct Hx]. destruct Hx as [Hx|[]]. subst x.
        split; [apply adjb_spec; left; exact He | exact Q].
      + destruct (qual sp' s b a) eqn:Q; [|destruct Hx]. destruct Hx as [Hx|[]]. subst x.
        split; [apply adjb_spec; right; exact He | exact Q].
    - destruct x as [v|a b]; [intros []|]. intros [Ha Q]. apply adjb_spec in Ha. destruct Ha as [Ha|Ha].
      + exists (a, b). split; [exact Ha|]. cbn. rewrite Q. apply in_app_iff. left. left. reflexivity.
      + exists (b, a). split; [exact Ha|]. cbn. rewrite Q. apply in_app_iff. right. left. reflexivity. }
  destruct sp as [c|l r|l rs].
  - cbn. rewrite enodup_In, in_map_iff. split.
    + intros [v [Hx Hv]]. subst x. apply filter_In in Hv. destruct Hv as [H1 H2]. apply ceq_true in H2. tauto.
    + destruct x as [v|a b]; [|intros []]. intros [H1 H2]. exists v. split; [reflexivity|].
      apply filter_In. split; [exact H1 | apply ceq_true; exact H2].
  - apply (HE (EdgeLocus l r)). exact I.
  - apply (HE (MultiEdgeLocus l rs)). exact I.
Qed.

Lemma truth_NoDup : forall sp s, NoDup (truth sp s).
Proof. intros [c|l r|l rs] s; apply enodup_NoDup. Qed.

Lemma truthP_edge : forall sp s a b, edge_spec sp -> (truthP sp s (E a b) <-> adj s a b /\ qual sp s a b = true).
Proof. intros [c|l r|l rs] s a b H; [destruct H | reflexivity | reflexivity]. Qed.
Lemma truthP_edge_N : forall sp s v, edge_spec sp -> ~ truthP sp s (N v).
Proof. intros [c|l r|l rs] s v H; [destruct H | intros [] | intros []]. Qed.

Lemma qual_some : forall sp s a b, qual sp s a b = true -> getc s a <> None /\ getc s b <> None.
Proof.
  intros [c|l r|l rs] s a b; cbn; try discriminate.
  - rewrite andb_true_iff, !ceq_true. intros [H1 H2]. rewrite H1, H2. split; discriminate.
  - rewrite andb_true_iff, ceq_true, cin_true. intros [H1 [c [H2 _]]]. rewrite H1, H2. split; discriminate.
Qed.

Lemma qual_node : forall c s a b, qual (NodeLocus c) s a b = false.
Proof. reflexivity. Qed.

(* ---------- the invariants of one locus ---------- *)
Definition winv1 (sp : spec) (s : state) (l : list elem) : Prop :=
  NoDup l /\ (forall x, In x l -> truthP sp s x) /\ (forall x, truthP sp s x -> In x l \/ In (flip x) l).
Definition sinv1 (sp : spec) (s : state) (l : list elem) : Prop :=
  NoDup l /\ (forall x, In x l <-> truthP sp s x).
(* between the leave and the enter handlers of node n *)
Definition mid (sp : spec) (s : state) (n : Z) (l : list elem) : Prop :=
  NoDup l /\ (forall x, In x l -> truthP sp s x /\ ~ involves n x)
  /\ (forall x, truthP sp s x -> ~ involves n x -> In x l \/ In (flip x) l).

Lemma sinv1_winv1 : forall sp s l, sinv1 sp s l -> winv1 sp s l.
Proof. intros sp s l [H1 H2]. split; [exact H1|]. split; intros x Hx; [apply H2; exact Hx | left; apply H2; exact Hx]. Qed.

Lemma both_qual_single : forall sp s a b, single_spec sp = true ->
  qual sp s a b = true -> qual sp s b a = true -> False.
Proof.
  intros [c|l r|l rs] s a b Hs; cbn [qual single_spec] in *.
  - discriminate.
  - rewrite !andb_true_iff, !ceq_true. intros [Q1 Q1'] [Q2 Q2']. rewrite Q1 in Q2'. inversion Q2'. subst.
    rewrite Z.eqb_refl in Hs. discriminate.
  - rewrite !andb_true_iff, !ceq_true, !cin_true. intros [Q1 _] [_ [c [Q2 Q2']]]. rewrite Q1 in Q2. inversion Q2. subst.
    apply zmem_In in Q2'. rewrite Q2' in Hs. discriminate.
Qed.

Lemma spec_cases : forall sp, (exists c, sp = NodeLocus c) \/ edge_spec sp.
Proof. intros [c|l r|l rs]; [left; exists c; reflexivity | right; exact I | right; exact I]. Qed.

Lemma winv1_sinv1 : forall sp s l, single_spec sp = true -> winv1 sp s l -> sinv1 sp s l.
Proof.
  intros sp s l Hs [H1 [H2 H3]]. split; [exact H1|]. intro x. split; [apply H2|].
  intro Hx. destruct (H3 x Hx) as [H|H]; [exact H|].
  destruct x as [v|u w]; [exact H|]. apply H2 in H. cbn [flip] in H.
  destruct (spec_cases sp) as [[c Hc]|He]; [subst sp; destruct Hx|].
  apply (truthP_edge sp s u w He) in Hx. apply (truthP_edge sp s w u He) in H.
  exfalso. exact (both_qual_single sp s u w Hs (proj2 Hx) (proj2 H)).
Qed.

(* ---------- what the handlers do ---------- *)
Definition enter_step (sp : spec) (s : state) (l : list elem) (e : Z * Z) : list elem :=
  match matches sp (getc s (fst e)) (getc s (snd e)) with
  | Bwd => ladd (E (snd e) (fst e)) l
  | Fwd => ladd (E (fst e) (snd e)) l
  | NoMatch => l
  end.
Definition leave_step (sp : spec) (s : state) (l : list elem) (e : Z * Z) : list elem :=
  if is_match (matches sp (getc s (fst e)) (getc s (snd e)))
  then ldiscard (E (snd e) (fst e)) (ldiscard (E (fst e) (snd e)) l) else l.

Lemma enter_edge : forall sp s n l, edge_spec sp ->
  enter_handler sp s (N n) l = fold_left (enter_step sp s) (incident (st_edges s) n) l.
Proof. intros [c|a b|a rs] s n l H; [destruct H | reflexivity | reflexivity]. Qed.
Lemma leave_edge : forall sp s n l, edge_spec sp ->
  leave_handler sp s (N n) l = fold_left (leave_step sp s) (incident (st_edges s) n) l.
Proof. intros [c|a b|a rs] s n l H; [destruct H | reflexivity | reflexivity]. Qed.
Lemma add_edge_h : forall sp s n m l, edge_spec sp -> add_handler sp s (E n m) l = enter_step sp s l (n, m).
Proof. intros [c|a b|a rs] s n m l H; [destruct H | reflexivity | reflexivity]. Qed.
Lemma remove_edge_h : forall sp s n m l, edge_spec sp -> remove_handler sp s (E n m) l = leave_step sp s l (n, m).
Proof. intros [c|a b|a rs] s n m l H; [destruct H | reflexivity | reflexivity]. Qed.
Lemma remove_edge_node_h : forall sp s n l, edge_spec sp -> remove_handler sp s (N n) l = l.
Proof. intros [c|a b|a rs] s n l H; [destruct H | reflexivity | reflexivity]. Qed.

Definition enterA (sp : spec) (s : state) (e : Z * Z) (x : elem) : Prop :=
  (matches sp (getc s (fst e)) (getc s (snd e)) = Fwd /\ x = E (fst e) (snd e))
  \/ (matches sp (getc s (fst e)) (getc s (snd e)) = Bwd /\ x = E (snd e) (fst e)).
Definition leaveD (sp : spec) (s : state) (e : Z * Z) (x : elem) : Prop :=
  is_match (matches sp (getc s (fst e)) (getc s (snd e))) = true /\ (x = E (fst e) (snd e) \/ x = E (snd e) (fst e)).

Lemma enter_step_adds : forall sp s e, adds (fun l => enter_step sp s l e) (enterA sp s e).
Proof.
  intros sp s e. unfold enter_step, enterA. destruct (matches sp (getc s (fst e)) (getc s (snd e))); split.
  - intros l x. rewrite ladd_In. split; [intros [H|H]; [left; exact H | right; left; tauto] | intros [H|[[_ H]|[H _]]]; [tauto | tauto | discriminate]].
  - intros l. apply ladd_NoDup.
  - intros l x. rewrite ladd_In. split; [intros [H|H]; [left; exact H | right; right; tauto] | intros [H|[[H _]|[_ H]]]; [tauto | discriminate | tauto]].
  - intros l. apply ladd_NoDup.
  - intros l x. split; [tauto | intros [H|[[H _]|[H _]]]; [exact H | discriminate | discriminate]].
  - auto.
Qed.

Lemma leave_step_drops : forall sp s e, drops (fun l => leave_step sp s l e) (leaveD sp s e).
Proof.
  intros sp s e. unfold leave_step, leaveD. destruct (is_match (matches sp (getc s (fst e)) (getc s (snd e)))); split.
  - intros l x. rewrite !ldiscard_In. split.
    + intros [[H1 H2] H3]. split; [exact H1|]. intros [_ [H|H]]; contradiction.
    + intros [H1 H2]. split; [split; [exact H1|]|]; intro H; apply H2; tauto.
  - intros l Hl. apply ldiscard_NoDup, ldiscard_NoDup, Hl.
  - intros l x. split; [intro H; split; [exact H | intros [H1 _]; discriminate] | tauto].
  - auto.
Qed.

Lemma drops_iter : forall h D k, drops h D -> drops (Nat.iter k h) (fun x => k <> 0 /\ D x).
Proof.
  intros h D k Hd. split.
  - intros l x. rewrite (iter_drops h D Hd). split; intros [H1 H2]; (split; [exact H1|]).
    + intros [H3 H4]. destruct H2; contradiction.
    + destruct k; [left; reflexivity | right; intro H; apply H2; split; [discriminate | exact H]].
  - intros l Hl. apply iter_NoDup; [apply Hd | exact Hl].
Qed.

Lemma hits1 : forall sp c, hits sp [Some c] <> 0 <-> regs sp c.
Proof.
  intros sp c. rewrite hits_pos. split.
  - intros [c' [[H|[]] H2]]. inversion H. subst. exact H2.
  - intro H. exists c. split; [left; reflexivity | exact H].
Qed.

Lemma hits_none : forall sp, hits sp [None] = 0.
Proof. reflexivity. Qed.

Lemma hits2 : forall sp a b ca, (a = Some ca \/ b = Some ca) -> regs sp ca -> hits sp [a; b] <> 0.
Proof.
  intros sp a b ca H Hr. apply hits_pos. exists ca. split; [|exact Hr].
  destruct H as [H|H]; subst; [left; reflexivity | right; left; reflexivity].
Qed.

Lemma adj_sym : forall s a b, adj s a b <-> adj s b a.
Proof. intros s a b. unfold adj. rewrite adjb_sym. tauto. Qed.

(* a qualifying pair is matched by the handler loop whichever endpoint the loop starts from *)
Lemma qual_matches : forall sp s a b, qual sp s a b = true ->
  is_match (matches sp (getc s a) (getc s b)) = true /\ is_match (matches sp (getc s b) (getc s a)) = true.
Proof. intros sp s a b Q. split; apply is_match_qual; tauto. Qed.

(* ---------- L1: after the leave handlers of n nothing that involves n is left ---------- *)
Lemma node_leave_drops : forall c s n, drops (leave_handler (NodeLocus c) s (N n)) (fun x => x = N n).
Proof.
  intros c s n. split.
  - intros l x. cbn. rewrite ldiscard_In. tauto.
  - intros l. cbn. apply ldiscard_NoDup.
Qed.

Lemma edge_leave_drops : forall sp s n, edge_spec sp ->
  drops (leave_handler sp s (N n)) (fun x => exists e, In e (incident (st_edges s) n) /\ leaveD sp s e x).
Proof.
  intros sp s n He. split.
  - intros l x. rewrite (leave_edge sp s n l He).
    rewrite (fold_drops _ (leave_step sp s) (leaveD sp s) (leave_step_drops sp s)).
    split; intros [H1 H2]; (split; [exact H1|]).
    + intros [e [H3 H4]]. exact (H2 e H3 H4).
    + intros e H3 H4. apply H2. exists e. tauto.
  - intros l Hl. rewrite (leave_edge sp s n l He). apply fold_NoDup; [|exact Hl].
    intros b l0. apply (leave_step_drops sp s b).
Qed.

Lemma leave_mid : forall sp s n oc l, wf_spec sp = true -> winv1 sp s l -> getc s n = Some oc ->
  mid sp s n (Nat.iter (hits sp [Some oc]) (leave_handler sp s (N n)) l).
Proof.
  intros sp s n oc l Hwf [Hnd [Hs Hc]] Hn.
  destruct (spec_cases sp) as [[c Hsp]|He]; [subst sp|].
  - pose proof (node_leave_drops c s n) as Hd.
    split; [apply iter_NoDup; [apply Hd | exact Hnd]|]. split.
    + intros x Hx. apply (iter_drops _ _ Hd) in Hx. destruct Hx as [Hx Hk].
      split; [apply Hs; exact Hx|]. intro Hi. pose proof (Hs x Hx) as Ht.
      destruct x as [v|u w]; [|destruct Ht]. cbn in Hi. subst v. destruct Ht as [_ Ht].
      destruct Hk as [Hk|Hk]; [|apply Hk; reflexivity].
      assert (hits (NodeLocus c) [Some oc] <> 0) by (apply hits1; cbn; congruence). contradiction.
    + intros x Ht Hi. destruct (Hc x Ht) as [H|H].
      * left. apply (iter_drops _ _ Hd). split; [exact H|]. right. intro. subst x. apply Hi. reflexivity.
      * right. apply (iter_drops _ _ Hd). split; [exact H|]. right. intro Hx. apply Hi.
        destruct x as [v|u w]; cbn in *; [inversion Hx; reflexivity | discriminate].
  - pose proof (edge_leave_drops sp s n He) as Hd.
    split; [apply iter_NoDup; [apply Hd | exact Hnd]|]. split.
    + intros x Hx. apply (iter_drops _ _ Hd) in Hx. destruct Hx as [Hx Hk].
      pose proof (Hs x Hx) as Ht. split; [exact Ht|]. intro Hi.
      destruct x as [v|u w]; [exact (truthP_edge_N sp s v He Ht)|].
      apply (truthP_edge sp s u w He) in Ht. destruct Ht as [Ha Q].
      destruct (qual_regs sp s u w Hwf Q) as [cu [cw [Gu [Gw [Ru Rw]]]]].
      destruct (qual_matches sp s u w Q) as [M1 M2].
      assert (Hk' : hits sp [Some oc] <> 0).
      { apply hits1. destruct Hi as [Hi|Hi]; subst; congruence. }
      destruct Hk as [Hk|Hk]; [contradiction|]. apply Hk.
      destruct Hi as [Hi|Hi]; subst.
      * exists (n, w). split; [apply incident_In; split; [reflexivity | exact Ha]|].
        split; [exact M1 | left; reflexivity].
      * exists (n, u). split; [apply incident_In; split; [reflexivity | apply adj_sym; exact Ha]|].
        split; [exact M2 | right; reflexivity].
    + intros x Ht Hi.
      assert (Hno : forall y, ~ involves n y -> ~ (exists e, In e (incident (st_edges s) n) /\ leaveD sp s e y)).
      { intros y Hy [e [H1 [_ H2]]]. apply incident_In in H1. destruct H1 as [H1 _]. apply Hy.
        destruct H2 as [H2|H2]; subst y; cbn; tauto. }
      destruct (Hc x Ht) as [H|H]; [left|right]; apply (iter_drops _ _ Hd); (split; [exact H|]); right; apply Hno.
      * exact Hi.
      * rewrite involves_flip. exact Hi.
Qed.

(* ---------- L1': a node without a compartment is involved in nothing ---------- *)
Lemma truthP_involves_some : forall sp s n x, truthP sp s x -> involves n x -> getc s n <> None.
Proof.
  intros sp s n x Ht Hi. destruct (spec_cases sp) as [[c Hsp]|He]; [subst sp|].
  - destruct x as [v|u w]; [|destruct Ht]. cbn in Hi. subst v. destruct Ht as [_ Ht]. congruence.
  - destruct x as [v|u w]; [exact (False_ind _ (truthP_edge_N sp s v He Ht))|].
    apply (truthP_edge sp s u w He) in Ht. destruct Ht as [_ Q]. apply qual_some in Q.
    destruct Hi as [Hi|Hi]; subst; tauto.
Qed.

Lemma none_mid : forall sp s n l, winv1 sp s l -> getc s n = None -> mid sp s n l.
Proof.
  intros sp s n l [Hnd [Hs Hc]] Hn. split; [exact Hnd|]. split.
  - intros x Hx. split; [apply Hs; exact Hx|]. intro Hi. exact (truthP_involves_some sp s n x (Hs x Hx) Hi Hn).
  - intros x Ht _. apply Hc. exact Ht.
Qed.

(* ---------- L2: the middle state does not depend on the compartment of n ---------- *)
Lemma truthP_ext_off : forall sp s s' n x,
  st_nodes s' = st_nodes s -> st_edges s' = st_edges s -> (forall v, v <> n -> getc s' v = getc s v) ->
  ~ involves n x -> (truthP sp s x <-> truthP sp s' x).
Proof.
  intros sp s s' n x Hn He Hg Hi. destruct (spec_cases sp) as [[c Hsp]|Hes]; [subst sp|].
  - destruct x as [v|u w]; [|tauto]. cbn in *. rewrite Hn, (Hg v Hi). tauto.
  - destruct x as [v|u w].
    + split; intro H; [exact (False_ind _ (truthP_edge_N sp s v Hes H)) | exact (False_ind _ (truthP_edge_N sp s' v Hes H))].
    + rewrite (truthP_edge sp s u w Hes), (truthP_edge sp s' u w Hes). unfold adj. rewrite He.
      cbn in Hi. rewrite (qual_ext sp s s' u w); [tauto | symmetry; apply Hg; tauto | symmetry; apply Hg; tauto].
Qed.

Lemma mid_ext : forall sp s s' n l,
  st_nodes s' = st_nodes s -> st_edges s' = st_edges s -> (forall v, v <> n -> getc s' v = getc s v) ->
  mid sp s n l -> mid sp s' n l.
Proof.
  intros sp s s' n l Hn He Hg [Hnd [Hs Hc]]. split; [exact Hnd|]. split.
  - intros x Hx. destruct (Hs x Hx) as [H1 H2]. split; [|exact H2].
    apply (truthP_ext_off sp s s' n x Hn He Hg H2). exact H1.
  - intros x Ht Hi. apply Hc; [|exact Hi]. apply (truthP_ext_off sp s s' n x Hn He Hg Hi). exact Ht.
Qed.

(* ---------- L3: the enter handlers of n complete the invariant ---------- *)
Lemma node_enter_adds : forall c s n, adds (enter_handler (NodeLocus c) s (N n)) (fun x => x = N n).
Proof.
  intros c s n. split.
  - intros l x. cbn. rewrite ladd_In. tauto.
  - intros l. cbn. apply ladd_NoDup.
Qed.

Lemma edge_enter_adds : forall sp s n, edge_spec sp ->
  adds (enter_handler sp s (N n)) (fun x => exists e, In e (incident (st_edges s) n) /\ enterA sp s e x).
Proof.
  intros sp s n He. split.
  - intros l x. rewrite (enter_edge sp s n l He).
    apply (fold_adds _ (enter_step sp s) (enterA sp s) (enter_step_adds sp s)).
  - intros l Hl. rewrite (enter_edge sp s n l He). apply fold_NoDup; [|exact Hl].
    intros b l0. apply (enter_step_adds sp s b).
Qed.

(* a matched pair enters in one of its orientations, and what enters qualifies *)
Lemma enterA_sound : forall sp s a b x, edge_spec sp -> adj s a b -> enterA sp s (a, b) x -> truthP sp s x.
Proof.
  intros sp s a b x He Ha [[M Hx]|[M Hx]]; cbn [fst snd] in *; subst x; apply (truthP_edge sp s _ _ He).
  - split; [exact Ha | apply matches_fwd; exact M].
  - split; [apply adj_sym; exact Ha | apply matches_bwd; exact M].
Qed.

Lemma enterA_complete : forall sp s a b, qual sp s a b = true \/ qual sp s b a = true ->
  enterA sp s (a, b) (E a b) \/ enterA sp s (a, b) (E b a).
Proof.
  intros sp s a b Q. unfold enterA. cbn [fst snd].
  destruct (matches sp (getc s a) (getc s b)) eqn:M.
  - left. left. tauto.
  - right. right. tauto.
  - apply matches_none in M. destruct M as [M1 M2]. rewrite M1, M2 in Q. destruct Q; discriminate.
Qed.

Lemma enter_winv : forall sp s n c l, wf_spec sp = true -> mid sp s n l -> In n (st_nodes s) -> getc s n = Some c ->
  winv1 sp s (Nat.iter (hits sp [Some c]) (enter_handler sp s (N n)) l).
Proof.
  intros sp s n c l Hwf [Hnd [Hs Hc]] Hin Hn.
  destruct (spec_cases sp) as [[c0 Hsp]|He]; [subst sp|].
  - pose proof (node_enter_adds c0 s n) as Ha.
    split; [apply iter_NoDup; [apply Ha | exact Hnd]|]. split.
    + intros x Hx. apply (iter_adds _ _ Ha) in Hx. destruct Hx as [Hx|[Hk Hx]]; [apply Hs; exact Hx|].
      subst x. apply hits1 in Hk. cbn in Hk. subst c0. cbn. tauto.
    + intros x Ht. destruct x as [v|u w]; [|destruct Ht]. left. apply (iter_adds _ _ Ha).
      destruct (Z.eq_dec v n) as [Hv|Hv].
      * subst v. right. split; [|reflexivity]. apply hits1. cbn. destruct Ht as [_ Ht]. congruence.
      * destruct (Hc (N v) Ht Hv) as [H|H]; left; exact H.
  - pose proof (edge_enter_adds sp s n He) as Ha.
    split; [apply iter_NoDup; [apply Ha | exact Hnd]|]. split.
    + intros x Hx. apply (iter_adds _ _ Ha) in Hx. destruct Hx as [Hx|[Hk [e [H1 H2]]]]; [apply Hs; exact Hx|].
      apply incident_In in H1. destruct e as [a b]. cbn [fst snd] in H1. destruct H1 as [H1 H1']. subst a.
      exact (enterA_sound sp s n b x He H1' H2).
    + intros x Ht. destruct x as [v|u w]; [exact (False_ind _ (truthP_edge_N sp s v He Ht))|].
      pose proof Ht as Ht'. apply (truthP_edge sp s u w He) in Ht'. destruct Ht' as [Hadj Q].
      destruct (qual_regs sp s u w Hwf Q) as [cu [cw [Gu [Gw [Ru Rw]]]]].
      destruct (Z.eq_dec u n) as [Hu|Hu]; [|destruct (Z.eq_dec w n) as [Hw|Hw]].
      * subst u. assert (Hk : hits sp [Some c] <> 0) by (apply hits1; congruence).
        assert (Hinc : In (n, w) (incident (st_edges s) n)) by (apply incident_In; split; [reflexivity | exact Hadj]).
        destruct (enterA_complete sp s n w (or_introl Q)) as [H|H]; [left|right]; apply (iter_adds _ _ Ha); right;
          (split; [exact Hk | exists (n, w); split; [exact Hinc | exact H]]).
      * subst w. assert (Hk : hits sp [Some c] <> 0) by (apply hits1; congruence).
        assert (Hinc : In (n, u) (incident (st_edges s) n)) by (apply incident_In; split; [reflexivity | apply adj_sym; exact Hadj]).
        destruct (enterA_complete sp s n u (or_intror Q)) as [H|H]; [right|left]; apply (iter_adds _ _ Ha); right;
          (split; [exact Hk | exists (n, u); split; [exact Hinc | exact H]]).
      * assert (Hi : ~ involves n (E u w)) by (cbn; tauto).
        destruct (Hc (E u w) Ht Hi) as [H|H]; [left|right]; apply (iter_adds _ _ Ha); left; exact H.
Qed.

(* ---------- L4/L5: removing a node ---------- *)
Definition rm_edges_loop (sp : spec) (s : state) (n : Z) (l : list elem) : list elem :=
  fold_left (fun l e => Nat.iter (hits sp [getc s (fst e); getc s (snd e)]) (remove_handler sp s (E (fst e) (snd e))) l)
            (incident (st_edges s) n) l.

Lemma node_remove_drops : forall c s n, drops (remove_handler (NodeLocus c) s (N n)) (fun x => x = N n).
Proof.
  intros c s n. split.
  - intros l x. cbn. rewrite ldiscard_In. tauto.
  - intros l. cbn. apply ldiscard_NoDup.
Qed.

Lemma iter_id : forall A (f : A -> A), (forall x, f x = x) -> forall k x, Nat.iter k f x = x.
Proof. intros A f H k x. induction k as [|k IH]; [reflexivity|]. cbn. rewrite H. exact IH. Qed.

Lemma node_rm_edges_loop : forall c s n l, rm_edges_loop (NodeLocus c) s n l = l.
Proof.
  intros c s n l. unfold rm_edges_loop. induction (incident (st_edges s) n) as [|e t IH]; cbn [fold_left]; [reflexivity|].
  rewrite iter_id by reflexivity. exact IH.
Qed.

Lemma edge_rm_step_drops : forall sp s e, edge_spec sp ->
  drops (fun l => Nat.iter (hits sp [getc s (fst e); getc s (snd e)]) (remove_handler sp s (E (fst e) (snd e))) l)
        (fun x => hits sp [getc s (fst e); getc s (snd e)] <> 0 /\ leaveD sp s e x).
Proof.
  intros sp s e He. apply drops_iter. destruct e as [a b]. cbn [fst snd]. split.
  - intros l x. rewrite (remove_edge_h sp s a b l He). apply (leave_step_drops sp s (a, b)).
  - intros l Hl. rewrite (remove_edge_h sp s a b l He). apply (leave_step_drops sp s (a, b)). exact Hl.
Qed.

Lemma remove_node_mid : forall sp s n l, wf_spec sp = true -> winv1 sp s l ->
  mid sp s n (Nat.iter (hits sp [getc s n]) (remove_handler sp s (N n)) (rm_edges_loop sp s n l)).
Proof.
  intros sp s n l Hwf [Hnd [Hs Hc]].
  destruct (spec_cases sp) as [[c Hsp]|He]; [subst sp|].
  - rewrite node_rm_edges_loop. pose proof (node_remove_drops c s n) as Hd.
    split; [apply iter_NoDup; [apply Hd | exact Hnd]|]. split.
    + intros x Hx. apply (iter_drops _ _ Hd) in Hx. destruct Hx as [Hx Hk].
      split; [apply Hs; exact Hx|]. intro Hi. pose proof (Hs x Hx) as Ht.
      destruct x as [v|u w]; [|destruct Ht]. cbn in Hi. subst v. destruct Ht as [_ Ht].
      destruct Hk as [Hk|Hk]; [|apply Hk; reflexivity].
      assert (hits (NodeLocus c) [getc s n] <> 0) by (rewrite Ht; apply hits1; reflexivity). contradiction.
    + intros x Ht Hi. destruct (Hc x Ht) as [H|H].
      * left. apply (iter_drops _ _ Hd). split; [exact H|]. right. intro. subst x. apply Hi. reflexivity.
      * right. apply (iter_drops _ _ Hd). split; [exact H|]. right. intro Hx. apply Hi.
        destruct x as [v|u w]; cbn in *; [inversion Hx; reflexivity | discriminate].
  - assert (Hid : forall k l0, Nat.iter k (remove_handler sp s (N n)) l0 = l0).
    { intros k l0. apply iter_id. intro l1. apply remove_edge_node_h. exact He. }
    rewrite Hid. unfold rm_edges_loop.
    set (D := fun (e : Z * Z) (x : elem) => hits sp [getc s (fst e); getc s (snd e)] <> 0 /\ leaveD sp s e x).
    assert (Hf : forall l0 x, In x (rm_edges_loop sp s n l0) <-> In x l0 /\ forall e, In e (incident (st_edges s) n) -> ~ D e x).
    { intros l0 x. unfold rm_edges_loop.
      apply (fold_drops _ (fun l e => Nat.iter (hits sp [getc s (fst e); getc s (snd e)]) (remove_handler sp s (E (fst e) (snd e))) l) D).
      intro e. apply edge_rm_step_drops. exact He. }
    unfold rm_edges_loop in Hf.
    split; [apply fold_NoDup; [|exact Hnd]; intros e l0; apply (edge_rm_step_drops sp s e He)|]. split.
    + intros x Hx. apply Hf in Hx. destruct Hx as [Hx Hk].
      pose proof (Hs x Hx) as Ht. split; [exact Ht|]. intro Hi.
      destruct x as [v|u w]; [exact (truthP_edge_N sp s v He Ht)|].
      apply (truthP_edge sp s u w He) in Ht. destruct Ht as [Ha Q].
      destruct (qual_regs sp s u w Hwf Q) as [cu [cw [Gu [Gw [Ru Rw]]]]].
      destruct (qual_matches sp s u w Q) as [M1 M2].
      destruct Hi as [Hi|Hi]; subst.
      * apply (Hk (n, w)); [apply incident_In; split; [reflexivity | exact Ha]|].
        split; [cbn [fst snd]; apply (hits2 sp _ _ cu); [left; exact Gu | exact Ru] | split; [exact M1 | left; reflexivity]].
      * apply (Hk (n, u)); [apply incident_In; split; [reflexivity | apply adj_sym; exact Ha]|].
        split; [cbn [fst snd]; apply (hits2 sp _ _ cw); [left; exact Gw | exact Rw] | split; [exact M2 | right; reflexivity]].
    + intros x Ht Hi.
      assert (Hno : forall y, ~ involves n y -> forall e, In e (incident (st_edges s) n) -> ~ D e y).
      { intros y Hy e H1 [_ [_ H2]]. apply incident_In in H1. destruct H1 as [H1 _]. apply Hy.
        destruct H2 as [H2|H2]; subst y; cbn; tauto. }
      destruct (Hc x Ht) as [H|H]; [left|right]; apply Hf; (split; [exact H|]); apply Hno.
      * exact Hi.
      * rewrite involves_flip. exact Hi.
Qed.

Lemma mid_winv_removed : forall sp s s' n l,
  (forall v, In v (st_nodes s') <-> In v (st_nodes s) /\ v <> n) ->
  (forall a b, adj s' a b <-> adj s a b /\ a <> n /\ b <> n) ->
  (forall v, v <> n -> getc s' v = getc s v) ->
  mid sp s n l -> winv1 sp s' l.
Proof.
  intros sp s s' n l Hn Ha Hg [Hnd [Hs Hc]].
  assert (Ht : forall x, truthP sp s' x <-> truthP sp s x /\ ~ involves n x).
  { intro x. destruct (spec_cases sp) as [[c Hsp]|He]; [subst sp|].
    - destruct x as [v|u w]; [|cbn; tauto]. cbn. rewrite Hn. split.
      + intros [[H1 H2] H3]. rewrite (Hg v H2) in H3. tauto.
      + intros [[H1 H2] H3]. rewrite (Hg v H3). tauto.
    - destruct x as [v|u w].
      + split; [intro H; exact (False_ind _ (truthP_edge_N sp s' v He H)) | intros [H _]; exact (False_ind _ (truthP_edge_N sp s v He H))].
      + rewrite (truthP_edge sp s' u w He), (truthP_edge sp s u w He), Ha. cbn [involves]. split.
        * intros [[H1 [H2 H3]] Q]. rewrite (qual_ext sp s' s u w (Hg u H2) (Hg w H3)) in Q. tauto.
        * intros [[H1 Q] H2]. assert (u <> n /\ w <> n) as [H3 H4] by tauto.
          rewrite (qual_ext sp s' s u w (Hg u H3) (Hg w H4)). tauto. }
  split; [exact Hnd|]. split.
  - intros x Hx. apply Ht. apply Hs. exact Hx.
  - intros x Hx. apply Ht in Hx. destruct Hx as [H1 H2]. apply Hc; assumption.
Qed.

(* ---------- L6: adding an edge ---------- *)
Lemma add_edge_winv : forall sp s s1 n m l, wf_spec sp = true -> winv1 sp s l ->
  st_nodes s1 = st_nodes s -> (forall v, getc s1 v = getc s v) ->
  (forall a b, adj s1 a b <-> adj s a b \/ (a = n /\ b = m) \/ (a = m /\ b = n)) ->
  winv1 sp s1 (Nat.iter (hits sp [getc s1 n; getc s1 m]) (add_handler sp s1 (E n m)) l).
Proof.
  intros sp s s1 n m l Hwf [Hnd [Hs Hc]] Hn Hg Ha.
  destruct (spec_cases sp) as [[c Hsp]|He]; [subst sp|].
  - assert (Hid : forall k l0, Nat.iter k (add_handler (NodeLocus c) s1 (E n m)) l0 = l0).
    { intros k l0. apply iter_id. reflexivity. }
    rewrite Hid. split; [exact Hnd|]. split.
    + intros x Hx. apply Hs in Hx. destruct x as [v|u w]; [|destruct Hx]. cbn in *. rewrite Hn, Hg. exact Hx.
    + intros x Hx. apply Hc. destruct x as [v|u w]; [|destruct Hx]. cbn in *. rewrite Hn, Hg in Hx. exact Hx.
  - assert (Hadds : adds (add_handler sp s1 (E n m)) (enterA sp s1 (n, m))).
    { split.
      - intros l0 x. rewrite (add_edge_h sp s1 n m l0 He). apply (enter_step_adds sp s1 (n, m)).
      - intros l0 Hl. rewrite (add_edge_h sp s1 n m l0 He). apply (enter_step_adds sp s1 (n, m)). exact Hl. }
    assert (Hq : forall a b, qual sp s1 a b = qual sp s a b) by (intros a b; apply qual_ext; apply Hg).
    split; [apply iter_NoDup; [apply Hadds | exact Hnd]|]. split.
    + intros x Hx. apply (iter_adds _ _ Hadds) in Hx. destruct Hx as [Hx|[_ Hx]].
      * apply Hs in Hx. destruct x as [v|u w]; [exact (False_ind _ (truthP_edge_N sp s v He Hx))|].
        apply (truthP_edge sp s u w He) in Hx. apply (truthP_edge sp s1 u w He). rewrite Ha, Hq. tauto.
      * apply (enterA_sound sp s1 n m x He); [apply Ha; tauto | exact Hx].
    + intros x Hx. destruct x as [v|u w]; [exact (False_ind _ (truthP_edge_N sp s1 v He Hx))|].
      apply (truthP_edge sp s1 u w He) in Hx. destruct Hx as [H1 Q]. apply Ha in H1.
      destruct H1 as [H1|H1].
      * assert (Ht : truthP sp s (E u w)) by (apply (truthP_edge sp s u w He); rewrite <- Hq; tauto).
        destruct (Hc _ Ht) as [H|H]; [left|right]; apply (iter_adds _ _ Hadds); left; exact H.
      * destruct (qual_regs sp s1 u w Hwf Q) as [cu [cw [Gu [Gw [Ru Rw]]]]].
        destruct H1 as [[H1 H2]|[H1 H2]]; subst u w.
        -- assert (Hk : hits sp [getc s1 n; getc s1 m] <> 0) by (apply (hits2 sp _ _ cu); [left; exact Gu | exact Ru]).
           destruct (enterA_complete sp s1 n m (or_introl Q)) as [H|H]; [left|right]; apply (iter_adds _ _ Hadds); right; tauto.
        -- assert (Hk : hits sp [getc s1 n; getc s1 m] <> 0) by (apply (hits2 sp _ _ cw); [left; exact Gw | exact Rw]).
           destruct (enterA_complete sp s1 n m (or_intror Q)) as [H|H]; [right|left]; apply (iter_adds _ _ Hadds); right; tauto.
Qed.

(* ---------- L7: removing an edge ---------- *)
Lemma remove_edge_winv : forall sp s s' n m l, wf_spec sp = true -> winv1 sp s l ->
  st_nodes s' = st_nodes s -> (forall v, getc s' v = getc s v) ->
  (forall a b, adj s' a b <-> adj s a b /\ ~ ((a = n /\ b = m) \/ (a = m /\ b = n))) ->
  winv1 sp s' (Nat.iter (hits sp [getc s n; getc s m]) (remove_handler sp s (E n m)) l).
Proof.
  intros sp s s' n m l Hwf [Hnd [Hs Hc]] Hn Hg Ha.
  destruct (spec_cases sp) as [[c Hsp]|He]; [subst sp|].
  - assert (Hid : forall k l0, Nat.iter k (remove_handler (NodeLocus c) s (E n m)) l0 = l0).
    { intros k l0. apply iter_id. reflexivity. }
    rewrite Hid. split; [exact Hnd|]. split.
    + intros x Hx. apply Hs in Hx. destruct x as [v|u w]; [|destruct Hx]. cbn in *. rewrite Hn, Hg. exact Hx.
    + intros x Hx. apply Hc. destruct x as [v|u w]; [|destruct Hx]. cbn in *. rewrite Hn, Hg in Hx. exact Hx.
  - assert (Hd : drops (remove_handler sp s (E n m)) (leaveD sp s (n, m))).
    { split.
      - intros l0 x. rewrite (remove_edge_h sp s n m l0 He). apply (leave_step_drops sp s (n, m)).
      - intros l0 Hl. rewrite (remove_edge_h sp s n m l0 He). apply (leave_step_drops sp s (n, m)). exact Hl. }
    assert (Hq : forall a b, qual sp s' a b = qual sp s a b) by (intros a b; apply qual_ext; apply Hg).
    split; [apply iter_NoDup; [apply Hd | exact Hnd]|]. split.
    + intros x Hx. apply (iter_drops _ _ Hd) in Hx. destruct Hx as [Hx Hk].
      pose proof (Hs x Hx) as Ht. destruct x as [v|u w]; [exact (False_ind _ (truthP_edge_N sp s v He Ht))|].
      apply (truthP_edge sp s u w He) in Ht. destruct Ht as [H1 Q]. apply (truthP_edge sp s' u w He).
      rewrite Ha, Hq. split; [split; [exact H1|]|exact Q]. intro Hnm.
      destruct (qual_regs sp s u w Hwf Q) as [cu [cw [Gu [Gw [Ru Rw]]]]].
      destruct (qual_matches sp s u w Q) as [M1 M2].
      destruct Hnm as [[H2 H3]|[H2 H3]]; subst u w.
      * destruct Hk as [Hk|Hk]; [exact (hits2 sp _ _ cu (or_introl Gu) Ru Hk)|].
        apply Hk. split; [exact M1 | left; reflexivity].
      * destruct Hk as [Hk|Hk]; [exact (hits2 sp _ _ cw (or_introl Gw) Rw Hk)|].
        apply Hk. split; [exact M2 | right; reflexivity].
    + intros x Hx. destruct x as [v|u w]; [exact (False_ind _ (truthP_edge_N sp s' v He Hx))|].
      apply (truthP_edge sp s' u w He) in Hx. rewrite Ha, Hq in Hx. destruct Hx as [[H1 H2] Q].
      assert (Ht : truthP sp s (E u w)) by (apply (truthP_edge sp s u w He); tauto).
      assert (Hno : ~ leaveD sp s (n, m) (E u w) /\ ~ leaveD sp s (n, m) (E w u)).
      { split; intros [_ [H|H]]; inversion H; subst; apply H2; tauto. }
      destruct (Hc _ Ht) as [H|H]; [left|right]; apply (iter_drops _ _ Hd); (split; [exact H | right; tauto]).
Qed.
