(* Coefficients: ProductGF's enumeration of index pairs is the Cauchy product; scaling;
   the operator layer (subtraction, division, numbers as one-coefficient lists). *)
From Coq Require Import List ZArith QArith Bool Arith Lia Setoid Morphisms.
From EpyV Require Import Model.GF Proofs.GFSum.
Import ListNotations.
Open Scope Q_scope.

(* ------------------------------------------------------------ the index pairs of ProductGF.getCoefficient *)

Lemma filter_flat_map {A B} (p : B -> bool) (f : A -> list B) l :
  filter p (flat_map f l) = flat_map (fun x => filter p (f x)) l.
Proof. induction l; simpl; [reflexivity | rewrite filter_app, IHl; reflexivity]. Qed.

Lemma filter_map {A B} (p : B -> bool) (f : A -> B) l :
  filter p (map f l) = map f (filter (fun x => p (f x)) l).
Proof. induction l; simpl; [reflexivity|]. destruct (p (f a)); simpl; rewrite IHl; reflexivity. Qed.

Lemma flat_map_ext_in {A B} (f g : A -> list B) l : (forall a, In a l -> f a = g a) -> flat_map f l = flat_map g l.
Proof.
  induction l; intros H; simpl; [reflexivity|].
  rewrite (H a) by (left; reflexivity). rewrite IHl by (intros; apply H; right; assumption). reflexivity.
Qed.

Lemma filter_eq_seq t s n :
  filter (fun b => (b =? t)%nat) (seq s n) = if ((s <=? t) && (t <? s + n))%nat then [t] else [].
Proof.
  revert s. induction n; intros s; simpl.
  - destruct (Nat.leb_spec s t), (Nat.ltb_spec t (s + 0)); simpl; try reflexivity; lia.
  - rewrite IHn.
    destruct (Nat.eqb_spec s t) as [->|Hne].
    + destruct (Nat.leb_spec (S t) t); [lia|]. simpl.
      destruct (Nat.leb_spec t t); [|lia]. destruct (Nat.ltb_spec t (t + S n)); [|lia]. reflexivity.
    + destruct (Nat.leb_spec (S s) t), (Nat.leb_spec s t), (Nat.ltb_spec t (S s + n)), (Nat.ltb_spec t (s + S n));
        simpl; try reflexivity; lia.
Qed.

(* the pairs (a, b), a <= b, a + b = i, for one a *)
Lemma forwards_row i a : (a <= i)%nat ->
  filter (fun p => (fst p + snd p =? i)%nat) (map (fun b => (a, b)) (seq a (S i - a)))
  = if (a <=? i - a)%nat then [(a, (i - a)%nat)] else [].
Proof.
  intros Ha. rewrite filter_map. cbn [fst snd].
  rewrite (filter_ext (fun b => (a + b =? i)%nat) (fun b => (b =? i - a)%nat)).
  2:{ intros b. destruct (Nat.eqb_spec (a + b) i), (Nat.eqb_spec b (i - a)); try reflexivity; lia. }
  rewrite filter_eq_seq.
  destruct (Nat.leb_spec a (i - a)), (Nat.ltb_spec (i - a) (a + (S i - a))); simpl; try reflexivity; lia.
Qed.

Lemma forwards_eq i :
  forwards i = flat_map (fun a => if (a <=? i - a)%nat then [(a, (i - a)%nat)] else []) (seq 0 (S i)).
Proof.
  unfold forwards, cwr2. rewrite filter_flat_map. apply flat_map_ext_in.
  intros a Ha. apply in_seq in Ha. apply forwards_row. lia.
Qed.

Lemma backwards_eq i :
  backwards i = flat_map (fun a => if (a <? i - a)%nat then [((i - a)%nat, a)] else []) (seq 0 (S i)).
Proof.
  unfold backwards. rewrite forwards_eq, filter_flat_map.
  generalize (seq 0 (S i)). induction l; simpl; [reflexivity|].
  rewrite map_app, IHl. f_equal.
  destruct (Nat.leb_spec a (i - a)), (Nat.ltb_spec a (i - a)); simpl; try reflexivity; try lia.
  - destruct (Nat.eqb_spec a (i - a)); [lia|]. reflexivity.
  - destruct (Nat.eqb_spec a (i - a)); [|lia]. reflexivity.
Qed.

Lemma lsum_flat_map_if {A B} (G : B -> Q) (c : A -> bool) (h : A -> B) l :
  lsum (map G (flat_map (fun a => if c a then [h a] else []) l)) == lsum (map (fun a => if c a then G (h a) else 0) l).
Proof.
  rewrite lsum_flat_map. apply lsum_map_ext_in. intros a _. destruct (c a); simpl; ring.
Qed.

(* c = 0; for (i, j) in forwards + backwards: c += F i j   is   Σ_{j<=i} F j (i-j) *)
Lemma index_pairs_sum (F : nat -> nat -> Q) i :
  fold_left (fun c p => c + F (fst p) (snd p)) (index_pairs i) 0 == sumn (S i) (fun j => F j (i - j)%nat).
Proof.
  rewrite fold_left_sum, Qplus_0_l. unfold index_pairs.
  rewrite map_app, lsum_app, forwards_eq, backwards_eq.
  rewrite (lsum_flat_map_if (fun p => F (fst p) (snd p))), (lsum_flat_map_if (fun p => F (fst p) (snd p))).
  rewrite !lsum_seq. cbn [fst snd].
  rewrite (sumn_rev (S i) (fun a => if (a <? i - a)%nat then F (i - a)%nat a else 0)).
  rewrite <- sumn_add. apply sumn_ext. intros a Ha.
  replace (S i - 1 - a)%nat with (i - a)%nat by lia.
  replace (i - (i - a))%nat with a by lia.
  destruct (Nat.leb_spec a (i - a)), (Nat.ltb_spec (i - a) a); try lia; ring.
Qed.

(* ------------------------------------------------------------ coefficients *)

Lemma coeff_Prod a b i : coeff (Prod a b) i == cauchy (coeff a) (coeff b) i.
Proof. simpl. apply (index_pairs_sum (fun p q => coeff a p * coeff b q)). Qed.

Lemma coeff_ext_cauchy a b a' b' i :
  (forall j, coeff a j == coeff a' j) -> (forall j, coeff b j == coeff b' j) ->
  coeff (Prod a b) i == coeff (Prod a' b') i.
Proof. intros Ha Hb. rewrite !coeff_Prod. apply cauchy_ext; assumption. Qed.

Lemma coeff_scale n g : forall i, coeff (scale n g) i == n * coeff g i.
Proof.
  induction g; intros i.
  - reflexivity.
  - simpl. rewrite IHg1, IHg2. ring.
  - cbn [scale]. rewrite !coeff_Prod. unfold cauchy. rewrite <- sumn_scale.
    apply sumn_ext. intros j _. rewrite IHg1. ring.
Qed.

Lemma coeff_from_coeffs cs i : coeff (from_coeffs cs) i = nth i cs 0.
Proof. reflexivity. Qed.
Lemma coeff_from_function c i : coeff (from_function c) i = c i.
Proof. reflexivity. Qed.

(* a number is the one-coefficient list [n] *)
Lemma coeff_const n i : coeff (from_coeffs [n]) i == if (i =? 0)%nat then n else 0.
Proof. simpl. destruct i as [|[|i]]; reflexivity. Qed.

Lemma coeff_gadd f g i : coeff (gadd f g) i == coeff f i + coeff g i.
Proof. reflexivity. Qed.
Lemma coeff_gadd_num f n i : coeff (gadd_num f n) i == coeff f i + (if (i =? 0)%nat then n else 0).
Proof. unfold gadd_num. cbn [coeff]. rewrite <- coeff_const. reflexivity. Qed.
Lemma coeff_gsub f g i : coeff (gsub f g) i == coeff f i - coeff g i.
Proof. unfold gsub. cbn [coeff]. rewrite coeff_scale. ring. Qed.
Lemma coeff_gsub_num f n i : coeff (gsub_num f n) i == coeff f i - (if (i =? 0)%nat then n else 0).
Proof.
  unfold gsub_num. cbn [coeff]. rewrite coeff_const. destruct (i =? 0)%nat; ring.
Qed.
Lemma coeff_gmul f g i : coeff (gmul f g) i == cauchy (coeff f) (coeff g) i.
Proof. apply coeff_Prod. Qed.
Lemma coeff_gmul_num f n i : coeff (gmul_num f n) i == n * coeff f i.
Proof. apply coeff_scale. Qed.

Lemma gdiv_zero f n : n == 0 -> gdiv f n = None.
Proof. intros H. unfold gdiv. apply Qeq_bool_iff in H. rewrite H. reflexivity. Qed.
Lemma gdiv_nonzero f n : ~ n == 0 -> gdiv f n = Some (scale (1 / n) f).
Proof. intros H. unfold gdiv. destruct (Qeq_bool n 0) eqn:E; [apply Qeq_bool_iff in E; contradiction | reflexivity]. Qed.
Lemma coeff_gdiv f n h i : gdiv f n = Some h -> ~ n == 0 /\ coeff h i == coeff f i / n.
Proof.
  unfold gdiv. destruct (Qeq_bool n 0) eqn:E; [discriminate|]. intros [= <-].
  assert (Hn : ~ n == 0) by (intros H; apply Qeq_bool_iff in H; congruence).
  split; [exact Hn|]. rewrite coeff_scale. field. exact Hn.
Qed.
