(* C08, strictness under synchronous dynamics: the hitting time of an infector is STRICTLY earlier
   than that of the node it infects, for every synchronous run (any oracle, any fuel).
   Argument, as in the code: the tranche of a timestep is drawn before any of its events fires; a
   selected pair (n, m) was in its locus then, so m was infectious then; a node infected during
   the step was susceptible then; hence m was not infected during this step and its hitting time,
   if any, is that of an earlier step. *)
From Coq Require Import List ZArith QArith Bool Arith Lia Lqa.
From EpyV Require Import Lib.Prelude Model.Kernel Model.Loci Model.Compart
  Proofs.KernelBase Proofs.KernelMember Proofs.KernelSync Proofs.LociBase Proofs.LociLocus Proofs.LociInv
  Proofs.CompartRun Proofs.CompartSort Proofs.CompartInv Proofs.CompartDiagram
  Proofs.ContactBase Proofs.ContactForest Proofs.ContactInv.
Import ListNotations.
Close Scope Q_scope.

Section CS.
Variable cm : cmodel.
Variables (nodes : list Z) (edges : list (Z * Z)) (init : list (Z * Z)) (maxtime : Q) (monitor : option Q).
Let tb := mk_table cm nodes edges init maxtime monitor.
Let KK := K cm nodes edges init.
Hypothesis Hwf : wf_model cm = true.
Hypothesis Hon : once_model cm = true.

Definition strictT (w : cworld) : Prop :=
  forall n m t t', In (n, m, t) (cw_occ w) -> In (m, t') (cw_hit w) -> (t' < t)%Q.

(* what a call records *)
Lemma call_records (s : st cworld) c : KK s -> call_ok tb c s ->
  (cw_occ (world (after tb c s)) = cw_occ (world s) /\ cw_hit (world (after tb c s)) = cw_hit (world s))
  \/ (exists h n m, call_kind cm c = Some h /\ marks h (snd (call_args c)) = Some (n, m)
        /\ cw_occ (world (after tb c s)) = cw_occ (world s) ++ [(n, m, clock s)]
        /\ cw_hit (world (after tb c s)) = cw_hit (world s) ++ [(n, clock s)]).
Proof.
  intros Hk Hok. unfold tb. rewrite after_world. destruct (call_kind cm c) as [h|] eqn:Ek; [|left; split; reflexivity].
  rewrite handler_occ, handler_hit. destruct (marks h (snd (call_args c))) as [[n m]|] eqn:Em; [|left; split; reflexivity].
  right. exists h, n, m. split; [reflexivity|]. split; [exact Em|].
  destruct (marking_call cm nodes edges init maxtime monitor s c h n m Hwf Hon Hk Hok Ek Em) as ((x & Ec) & (l & Hl & Hn) & _).
  assert (Et : snd (fst (call_args c)) = clock s) by (rewrite Ec; reflexivity). rewrite Et.
  destruct Hk as (_ & _ & (F1 & F3 & _)).
  assert (Fresh : forall y, In y (cw_occ (world s)) -> child y <> n /\ parent y <> n) by (exact (F1 n l Hn Hl)).
  split; [apply mark_occupied_fresh; exact Fresh|]. cbn [fst]. apply mark_hit_fresh.
  rewrite F3, map_map. intros H. apply in_map_iff in H. destruct H as [y [E Hy]]. exact (proj1 (Fresh y Hy) E).
Qed.

Lemma sus_back_call (s : st cworld) c v c0 : call_ok tb c s ->
  getc (cw_st (world (after tb c s))) v = Some c0 -> In c0 (sus cm) -> getc (cw_st (world s)) v = Some c0.
Proof.
  intros Hok. unfold tb. rewrite after_world. destruct (call_kind cm c) as [h|] eqn:Ek; [|tauto].
  apply move_sus_back; [exact Hon | eapply nth_error_In; exact Ek].
Qed.

(* ------------------------------------------------------------------ posted events of a step record nothing *)
Lemma run_pending_K : forall fuel t n (s : st cworld) n' s', run_pending tb fuel t n s = (n', s') -> KK s ->
  KK s' /\ cw_occ (world s') = cw_occ (world s) /\ cw_hit (world s') = cw_hit (world s).
Proof.
  induction fuel as [|f IH]; intros t n s n' s' E Hk; cbn [run_pending] in E.
  - inversion E; subst. split; [exact (K_sched cm nodes edges init s _ Hk (sched_set_stuck s)) | split; reflexivity].
  - assert (Hd : KK (discard s)) by (exact (K_sched cm nodes edges init s _ Hk (sched_discard s))).
    destruct (head (queue (discard s))) as [h|] eqn:Eh; [|inversion E; subst; split; [exact Hd | split; reflexivity]].
    destruct (Qle_bool (e_time h) t); [|inversion E; subst; split; [exact Hd | split; reflexivity]].
    assert (Hok : call_ok tb (CPost h) (discard s)) by (split; [exact Eh | exact (discard_head_live s h Eh)]).
    pose proof (K_call cm nodes edges init maxtime monitor (discard s) (CPost h) Hwf Hon Hd Hok) as Hk'.
    destruct (IH _ _ _ _ _ E Hk') as (A & B & C). split; [exact A|].
    destruct (call_records (discard s) (CPost h) Hd Hok) as [[R1 R2]|(k & a & b & Ek & Em & _)].
    + split; [exact (eq_trans B R1) | exact (eq_trans C R2)].
    + exfalso. cbn [call_args snd] in Em.
      rewrite (posted_no_marks cm nodes edges init maxtime monitor (discard s) h k (proj1 (proj2 Hd)) Hok) in Em. discriminate.
Qed.

(* ------------------------------------------------------------------ the loop over the tranche *)
(* s2 is the state on which the tranche was drawn; t the time of the step *)
Definition StepInv (t : Q) (s2 s : st cworld) : Prop :=
  KK s /\ strictT (world s) /\ clock s = t
  /\ (forall v c, getc (cw_st (world s)) v = Some c -> In c (sus cm) -> getc (cw_st (world s2)) v = Some c)
  /\ (forall n t', In (n, t') (cw_hit (world s)) ->
        (t' < t)%Q \/ (t' = t /\ exists c, In c (sus cm) /\ getc (cw_st (world s2)) n = Some c)).

Lemma fire_tranche_strict t (s2 : st cworld) : KK s2 -> forall evs nev s nev' s',
  fire_tranche tb t evs nev s = (nev', s') ->
  (forall x e, In (x, e) evs -> In x (all_events tb) /\ mem e (locus s2 (ev_locus (snd x))) = true) ->
  StepInv t s2 s -> StepInv t s2 s'.
Proof.
  intros Hk2. induction evs as [|[x e] evs IH]; intros nev s nev' s' E Hev Hs; cbn [fire_tranche] in E.
  - inversion E; subst. exact Hs.
  - destruct (mem e (locus s (ev_locus (snd x)))) eqn:Em; [|apply (IH _ _ _ _ E); [intros; apply Hev; right; assumption | exact Hs]].
    apply (IH _ _ _ _ E); [intros; apply Hev; right; assumption|]. clear IH E.
    destruct Hs as (Hk & Hst & Hc & Hback & Hhits).
    destruct (Hev x e (or_introl eq_refl)) as [Hx Hm2].
    assert (Hok : call_ok tb (CEv x t e) s) by (split; [exact Hx | split; [exact Em | exact Hc]]).
    pose proof (K_call cm nodes edges init maxtime monitor s (CEv x t e) Hwf Hon Hk Hok) as Hk'.
    assert (Hback' : forall v c, getc (cw_st (world (fire_event tb x t e s))) v = Some c -> In c (sus cm) -> getc (cw_st (world s2)) v = Some c).
    { intros v c Hv Hcs. apply Hback; [|exact Hcs]. exact (sus_back_call s (CEv x t e) v c Hok Hv Hcs). }
    split; [exact Hk'|]. split; [|split; [rewrite fire_event_clock; exact Hc | split; [exact Hback'|]]].
    + (* strictness *)
      destruct (call_records s (CEv x t e) Hk Hok) as [[R1 R2]|(h & n & m & Ek & Emk & R1 & R2)]; cbn [after] in R1, R2.
      * unfold strictT. rewrite R1, R2. exact Hst.
      * (* a marking call on (n, m): m was infectious when the tranche was drawn *)
        cbn [call_args snd] in Emk.
        assert (Hok2 : call_ok tb (CEv x (clock s2) e) s2) by (split; [exact Hx | split; [exact Hm2 | reflexivity]]).
        destruct (marking_call cm nodes edges init maxtime monitor s2 (CEv x (clock s2) e) h n m Hwf Hon Hk2 Hok2 Ek Emk)
          as (_ & _ & (r & Hr & Hm) & _).
        destruct (marking_call cm nodes edges init maxtime monitor s (CEv x t e) h n m Hwf Hon Hk Hok Ek Emk)
          as (_ & (l & Hl & Hn) & (r' & Hr' & Hm') & _).
        assert (Hnm : n <> m) by (intros ->; rewrite Hn in Hm'; inversion Hm'; subst; contradiction).
        destruct Hk as (_ & _ & (F1 & _)).
        unfold strictT. rewrite R1, R2, Hc. intros a b ta tb' Ho Hh.
        apply in_app_or in Ho. apply in_app_or in Hh. destruct Ho as [Ho|[Ho|[]]]; destruct Hh as [Hh|[Hh|[]]].
        -- exact (Hst a b ta tb' Ho Hh).
        -- inversion Hh; subst b tb'. exfalso. exact (proj2 (F1 n l Hn Hl _ Ho) eq_refl).
        -- inversion Ho; subst a b ta. destruct (Hhits m tb' Hh) as [Hlt|[_ (c0 & Hc0 & Hg)]]; [exact Hlt|].
           exfalso. rewrite Hm in Hg. inversion Hg; subst. contradiction.
        -- inversion Ho; subst a b ta. inversion Hh; subst. contradiction.
    + (* the hits of this step are of nodes that were susceptible when the tranche was drawn *)
      destruct (call_records s (CEv x t e) Hk Hok) as [[R1 R2]|(h & n & m & Ek & Emk & R1 & R2)]; cbn [after] in R1, R2.
      * rewrite R2. exact Hhits.
      * rewrite R2, Hc. intros a ta Ha. apply in_app_or in Ha. destruct Ha as [Ha|[Ha|[]]]; [exact (Hhits a ta Ha)|].
        inversion Ha; subst a ta. right. split; [reflexivity|].
        destruct (marking_call cm nodes edges init maxtime monitor s (CEv x t e) h n m Hwf Hon Hk Hok Ek Emk) as (_ & (l & Hl & Hn) & _).
        exists l. split; [exact Hl | exact (Hback n l Hn Hl)].
Qed.

(* ------------------------------------------------------------------ the loop over the steps *)
Definition HeadInv (t : Q) (s : st cworld) : Prop :=
  KK s /\ strictT (world s) /\ forall n t', In (n, t') (cw_hit (world s)) -> (t' < t)%Q.

Lemma sync_loop_strict pf : forall fuel t ev k (s : st cworld) t' ev' k' s',
  sync_loop tb pf fuel t ev k s = (t', ev', k', s') -> HeadInv t s -> KK s' /\ strictT (world s').
Proof.
  induction fuel as [|f IH]; intros t ev k s t' ev' k' s' E (Hk & Hst & Hh).
  - cbn [sync_loop] in E. inversion E; subst. split; [exact (K_sched cm nodes edges init s _ Hk (sched_set_stuck s)) | exact Hst].
  - rewrite sync_loop_S in E. destruct (at_equil tb t s); [inversion E; subst; split; assumption|].
    unfold sync_step in E.
    assert (H0 : KK (set_clock t s)) by (exact (K_sched cm nodes edges init s _ Hk (sched_set_clock t s))).
    destruct (run_pending tb pf t 0 (set_clock t s)) as [n s1] eqn:Ep.
    destruct (run_pending_K _ _ _ _ _ _ Ep H0) as (K1 & O1 & H1). cbn [world set_clock] in O1, H1.
    pose proof (tranche_member tb (set_clock t s1)) as Hmem.
    rewrite tranche_spec in E, Hmem. cbn [fst] in Hmem.
    set (s2 := advance _ _ _ (set_clock t s1)) in *.
    assert (K2 : KK s2).
    { apply (K_sched cm nodes edges init (set_clock t s1)); [|apply sched_advance].
      exact (K_sched cm nodes edges init s1 _ K1 (sched_set_clock t s1)). }
    destruct (fire_tranche tb t _ n s2) as [nev s3] eqn:Ef.
    assert (S2 : StepInv t s2 s2).
    { split; [exact K2|]. split; [|split; [reflexivity | split; [tauto|]]].
      - unfold strictT, s2. cbn [world advance set_clock]. rewrite O1, H1. exact Hst.
      - intros a ta Ha. left. unfold s2 in Ha. cbn [world advance set_clock] in Ha. rewrite H1 in Ha. exact (Hh a ta Ha). }
    assert (S3 : StepInv t s2 s3).
    { apply (fire_tranche_strict t s2 K2 _ _ _ _ _ Ef); [|exact S2]. intros x e Hxe. destruct (Hmem x e Hxe) as (A & _ & B).
      split; [exact A | exact B]. }
    destruct S3 as (K3 & St3 & _ & _ & Hh3).
    apply (IH _ _ _ _ _ _ _ _ E). split; [exact K3|]. split; [exact St3|].
    intros a ta Ha. destruct (Hh3 a ta Ha) as [Hlt|[-> _]]; rewrite Qred_correct; lra.
Qed.

Theorem strict_sync pf fuel rs ds : graph_okb nodes edges = true -> init_ok cm nodes init = true ->
  strictT (world (r_final (sync_run tb pf fuel rs ds))).
Proof.
  intros Hg Hi. unfold sync_run.
  destruct (sync_loop tb pf fuel 1 0 0 (setup_state tb rs [] ds)) as [[[t ev] k] s] eqn:E. cbn [r_final].
  apply (sync_loop_strict pf fuel 1 0 0 _ t ev k s E).
  pose proof (K_setup cm nodes edges init maxtime monitor rs [] ds Hwf Hg Hi) as Hk. split; [exact Hk|].
  assert (Eh : cw_hit (world (setup_state tb rs [] ds)) = [] /\ cw_occ (world (setup_state tb rs [] ds)) = []).
  { destruct (setup_state_lw tb rs [] ds (mk_table_post_only cm nodes edges init maxtime monitor)) as [_ B]. rewrite B. split; reflexivity. }
  destruct Eh as [Eh Eo]. split; [unfold strictT; rewrite Eo; intros ? ? ? ? [] | rewrite Eh; intros ? ? []].
Qed.

End CS.
