(* C04: the abstract queue.  [absq q] is the list of LIVE entries of the heap q sorted by
   (time, id); every queue operation of Model/Kernel.v is the corresponding operation on it. *)
From Coq Require Import List ZArith QArith Qabs Bool Arith Lia Lqa Sorted Permutation.
From EpyV Require Import Model.Kernel Proofs.KernelBase Proofs.KernelLoops Proofs.KernelQueue Proofs.KernelFire.
Import ListNotations.
Open Scope Q_scope.

Fixpoint insert (x : entry) (l : list entry) : list entry :=
  match l with
  | [] => [x]
  | y :: l' => if before x y then x :: l else y :: insert x l'
  end.
Definition isort (l : list entry) : list entry := fold_right insert [] l.
Definition absq (q : list entry) : list entry := isort (filter e_live q).

(* ascending: no later element is before an earlier one *)
Definition asc : list entry -> Prop := StronglySorted (fun a b => before b a = false).
Definition id_not (i : nat) (x : entry) : bool := negb (e_id x =? i)%nat.

Lemma insert_perm x l : Permutation (insert x l) (x :: l).
Proof.
  induction l as [|y l IH]; cbn; [apply Permutation_refl|].
  destruct (before x y); [apply Permutation_refl|].
  eapply perm_trans; [apply perm_skip, IH|apply perm_swap].
Qed.

Lemma isort_perm l : Permutation (isort l) l.
Proof.
  induction l as [|x l IH]; cbn; [constructor|].
  eapply perm_trans; [apply insert_perm|apply perm_skip, IH].
Qed.

Lemma absq_in q x : In x (absq q) <-> In x q /\ e_live x = true.
Proof.
  unfold absq. rewrite <- filter_In. split; apply Permutation_in; [|apply Permutation_sym]; apply isort_perm.
Qed.

Lemma insert_asc x l : asc l -> asc (insert x l).
Proof.
  induction 1 as [|y l Hs IH Hf]; cbn; [constructor; constructor|].
  destruct (before x y) eqn:E.
  - constructor; [constructor; assumption|]. constructor; [apply before_asym, E|].
    rewrite Forall_forall in *. intros z Hz. specialize (Hf z Hz).
    destruct (before z x) eqn:E2; [|reflexivity]. rewrite (before_trans _ _ _ E2 E) in Hf. discriminate.
  - constructor; [exact IH|]. rewrite Forall_forall in *. intros z Hz.
    apply (Permutation_in _ (insert_perm x l)) in Hz. destruct Hz as [<-|Hz]; [exact E|auto].
Qed.

Lemma isort_asc l : asc (isort l).
Proof. induction l as [|x l IH]; cbn; [constructor|apply insert_asc, IH]. Qed.

Lemma absq_asc q : asc (absq q).
Proof. apply isort_asc. Qed.

Lemma absq_ids_NoDup q : NoDup (map e_id q) -> NoDup (map e_id (absq q)).
Proof.
  intros H. unfold absq. eapply Permutation_NoDup; [apply Permutation_map, Permutation_sym, isort_perm|].
  induction q as [|x q IH]; cbn; [constructor|]. inversion H as [|? ? Hn Hd]; subst.
  destruct (e_live x); [|auto]. cbn. constructor; [|auto].
  intros Hi. apply Hn. apply in_map_iff in Hi. destruct Hi as [z [Hz Hi]]. apply filter_In in Hi.
  apply in_map_iff. exists z. split; [exact Hz|apply Hi].
Qed.

(* with unique ids the order is strict: earlier time first, posting order on ties *)
Lemma absq_strict q : NoDup (map e_id q) -> StronglySorted (fun a b => before a b = true) (absq q).
Proof.
  intros H. pose proof (absq_ids_NoDup q H) as Hn. pose proof (absq_asc q) as Ha.
  induction Ha as [|a l Hs IH Hf]; [constructor|]. cbn in Hn. inversion Hn as [|? ? Hna Hnl]; subst.
  constructor; [auto|]. rewrite Forall_forall in *. intros b Hb. apply before_total; [|auto].
  intros E. apply Hna. rewrite <- E. apply in_map, Hb.
Qed.

(* ---- filtering commutes with sorting *)
Lemma insert_head x l : (forall z, In z l -> before x z = true) -> insert x l = x :: l.
Proof. destruct l as [|y l]; cbn; [reflexivity|]. intros H. rewrite (H y (or_introl eq_refl)). reflexivity. Qed.

Lemma filter_insert p x l : asc l ->
  filter p (insert x l) = if p x then insert x (filter p l) else filter p l.
Proof.
  induction 1 as [|y l Hs IH Hf]; cbn; [destruct (p x); reflexivity|].
  destruct (before x y) eqn:E; cbn.
  - destruct (p x) eqn:Px; [|reflexivity]. symmetry. destruct (p y); [cbn; rewrite E; reflexivity|].
    apply insert_head. intros z Hz. apply filter_In in Hz. destruct Hz as [Hz _].
    rewrite Forall_forall in Hf. specialize (Hf z Hz).
    destruct (before x z) eqn:E2; [reflexivity|]. exfalso.
    (* z <= x < y and y <= z *) rewrite (before_negtrans _ _ _ E2 Hf) in E. discriminate.
  - rewrite IH. destruct (p x), (p y); cbn; try rewrite E; reflexivity.
Qed.

Lemma filter_isort p l : filter p (isort l) = isort (filter p l).
Proof.
  induction l as [|x l IH]; [reflexivity|]. change (isort (x :: l)) with (insert x (isort l)).
  rewrite filter_insert; [|apply isort_asc]. rewrite IH. cbn [filter]. destruct (p x); reflexivity.
Qed.

Lemma filter_comm {A} (p r : A -> bool) l : filter p (filter r l) = filter r (filter p l).
Proof. induction l as [|x l IH]; cbn; [reflexivity|]. destruct (p x) eqn:P, (r x) eqn:R; cbn; rewrite ?P, ?R, IH; reflexivity. Qed.

Lemma filter_all {A} (p : A -> bool) l : (forall x, In x l -> p x = true) -> filter p l = l.
Proof. induction l as [|x l IH]; cbn; intros H; [reflexivity|]. rewrite (H x (or_introl eq_refl)), IH; auto. Qed.

Lemma remove_id_filter i q : NoDup (map e_id q) -> remove_id i q = filter (id_not i) q.
Proof.
  induction q as [|x q IH]; cbn; intros H; [reflexivity|]. inversion H as [|? ? Hn Hd]; subst.
  unfold id_not at 1. destruct (Nat.eqb_spec (e_id x) i) as [E|E]; cbn.
  - symmetry. apply filter_all. intros y Hy. unfold id_not. destruct (Nat.eqb_spec (e_id y) i) as [E2|E2]; [|reflexivity].
    exfalso. apply Hn. rewrite E, <- E2. apply in_map, Hy.
  - rewrite IH; auto.
Qed.

Lemma live_kill i q : filter e_live (kill i q) = filter (id_not i) (filter e_live q).
Proof.
  induction q as [|x q IH]; [reflexivity|].
  change (kill i (x :: q)) with ((if (e_id x =? i)%nat then dead x else x) :: kill i q).
  cbn [filter]. destruct (Nat.eqb_spec (e_id x) i) as [E|E].
  - cbn [e_live dead]. rewrite IH. destruct (e_live x); [|reflexivity]. cbn [filter].
    unfold id_not at 2. rewrite E, Nat.eqb_refl. reflexivity.
  - rewrite IH. destruct (e_live x); [|reflexivity]. cbn [filter]. unfold id_not at 2.
    destruct (Nat.eqb_spec (e_id x) i); [contradiction|reflexivity].
Qed.

(* ---- the operations on the abstract queue *)
Lemma absq_post x q : e_live x = true -> absq (x :: q) = insert x (absq q).
Proof. intros H. unfold absq. cbn. rewrite H. reflexivity. Qed.

Lemma absq_kill i q : absq (kill i q) = filter (id_not i) (absq q).
Proof. unfold absq. rewrite live_kill, filter_isort. reflexivity. Qed.

Lemma absq_remove i q : NoDup (map e_id q) -> absq (remove_id i q) = filter (id_not i) (absq q).
Proof. intros H. unfold absq. rewrite (remove_id_filter i q H), filter_comm, filter_isort. reflexivity. Qed.

Lemma absq_discard f q : NoDup (map e_id q) -> absq (discard_dead f q) = absq q.
Proof.
  revert q. induction f as [|f IH]; intros q H; cbn [discard_dead]; [reflexivity|].
  destruct (head q) as [h|] eqn:Eh; [|reflexivity]. destruct (e_live h) eqn:El; [reflexivity|].
  rewrite IH; [|apply remove_id_NoDup, H]. rewrite (absq_remove _ _ H). apply filter_all.
  intros x Hx. apply absq_in in Hx. destruct Hx as [Hx Hl]. unfold id_not.
  destruct (Nat.eqb_spec (e_id x) (e_id h)) as [E|E]; [|reflexivity]. exfalso.
  assert (x = h) by (eapply NoDup_id_inj; eauto using head_in). subst. congruence.
Qed.

Section A.
Context {W : Type}.
Implicit Types s : st W.

Lemma absq_head s : wf s -> head (queue (discard s)) = hd_error (absq (queue s)).
Proof.
  intros Hw. pose proof (discard_head_min_live s Hw) as H.
  destruct (head (queue (discard s))) as [h|].
  - destruct H as [Hin [Hl Hmin]].
    assert (Hh : In h (absq (queue s))) by (apply absq_in; auto).
    pose proof (absq_asc (queue s)) as Ha. destruct (absq (queue s)) as [|m rest] eqn:E; [destruct Hh|].
    cbn. f_equal. assert (Hm : In m (queue s) /\ e_live m = true) by (apply absq_in; rewrite E; left; reflexivity).
    destruct (Hmin m (proj1 Hm) (proj2 Hm)) as [->|Hb]; [reflexivity|].
    destruct Hh as [->|Hh]; [reflexivity|]. inversion Ha as [|? ? _ Hf]; subst.
    rewrite Forall_forall in Hf. rewrite (Hf h Hh) in Hb. discriminate.
  - unfold absq. replace (filter e_live (queue s)) with (@nil entry); [reflexivity|].
    symmetry. induction (queue s) as [|x q IH]; cbn; [reflexivity|].
    rewrite (H x (or_introl eq_refl)). apply IH. intros y Hy. apply H. right. exact Hy.
Qed.

Lemma absq_pop s h : wf s -> head (queue (discard s)) = Some h ->
  absq (remove_id (e_id h) (queue (discard s))) = tl (absq (queue s)).
Proof.
  intros Hw Hh. pose proof Hw as [Hnd _].
  assert (Hnd' : NoDup (map e_id (queue (discard s)))) by (unfold discard; cbn; apply discard_dead_NoDup, Hnd).
  rewrite (absq_remove _ _ Hnd'). unfold discard. cbn [queue set_queue]. rewrite (absq_discard _ _ Hnd).
  pose proof (absq_head s Hw) as E. rewrite Hh in E.
  pose proof (absq_ids_NoDup _ Hnd) as Hn.
  destruct (absq (queue s)) as [|m rest]; [discriminate|]. cbn in E. injection E as <-. cbn.
  unfold id_not at 1. rewrite Nat.eqb_refl. cbn. apply filter_all. intros x Hx. unfold id_not.
  destruct (Nat.eqb_spec (e_id x) (e_id h)) as [E|E]; [|reflexivity]. exfalso.
  cbn in Hn. inversion Hn as [|? ? Hna _]; subst. apply Hna. rewrite <- E. apply in_map, Hx.
Qed.

End A.
