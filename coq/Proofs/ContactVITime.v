(* C08 for SIR_VariableInfection, times: the hitting time of an infector is STRICTLY earlier than
   that of the node it infects - for every synchronous run whatsoever, and for every Gillespie run
   that did not exhaust its fuel or oracle when probabilities and infectivities are >= 0 and every
   ln(1/r) served is > 0.  The arguments are those of Proofs/ContactSync.v and ContactStoch.v, over
   the loops of Model/KernelDyn.v; what a single call records is obtained from the static
   development through the simulation of Proofs/ContactVI.v, the time invariant [tinv_st] and its
   lemmas about posted events are Proofs/KernelTime.v's (they are generic in the table). *)
From Coq Require Import List ZArith QArith Bool Arith Lia Lqa.
From EpyV Require Import Lib.Prelude Model.Kernel Model.KernelDyn Model.Loci Model.Compart Model.CompartVI
  Proofs.KernelBase Proofs.KernelLoops Proofs.KernelMember Proofs.KernelSync Proofs.KernelTime
  Proofs.LociBase Proofs.LociLocus Proofs.LociInv
  Proofs.CompartRun Proofs.CompartSort Proofs.CompartInv Proofs.CompartDiagram
  Proofs.ContactBase Proofs.ContactForest Proofs.ContactInv Proofs.ContactSync Proofs.ContactStoch
  Proofs.KernelDyn Proofs.KernelDynLoops Proofs.KernelDynRun Proofs.CompartVI Proofs.CompartVIQuiet Proofs.ContactVI.
Import ListNotations.
Close Scope Q_scope.

Section VT.
Variable vm : vimodel.
Variables (nodes : list Z) (edges : list (Z * Z)) (init : list (Z * Z)) (inf : list (Z * Z * Q)) (maxtime : Q) (monitor : option Q).
Let D := mk_vitable vm nodes edges init inf maxtime monitor.
Let fcm := vi_fcm vm.
Let KK := KV vm nodes edges init.
Hypothesis Hwf : wf_model fcm = true.
Hypothesis Hon : once_model fcm = true.
Implicit Types s : st viworld.
Notation Xt := (fun _ : trans viworld => True).
Notation occ s := (cw_occ (vi_base (world s))).
Notation hit s := (cw_hit (vi_base (world s))).

(* ------------------------------------------------------------------ what a call records *)
Lemma vcall_records s c : KK s -> dcall_ok D Xt c s ->
  (occ (dafter D c s) = occ s /\ hit (dafter D c s) = hit s)
  \/ (exists h n m, dcall_kind vm c = Some h /\ marks h (snd (dcall_args c)) = Some (n, m)
        /\ occ (dafter D c s) = occ s ++ [(n, m, clock s)] /\ hit (dafter D c s) = hit s ++ [(n, clock s)]).
Proof.
  intros Hk Hok.
  pose proof (call_records fcm nodes edges init maxtime monitor Hwf Hon (proj s) (sim vm c)
                (KV_proj vm nodes edges init s Hk) (sim_ok vm nodes edges init inf maxtime monitor Xt c s Hok)) as R.
  unfold fcm in R. rewrite (sim_world vm nodes edges init inf maxtime monitor Xt c s Hok) in R.
  rewrite (sim_kind vm nodes edges init inf maxtime monitor Xt c s Hok), (sim_args vm nodes edges init inf maxtime monitor Xt c s Hok) in R.
  exact R.
Qed.

Lemma vsus_back_call s c v c0 : dcall_ok D Xt c s ->
  getc (cw_st (vi_base (world (dafter D c s)))) v = Some c0 -> In c0 (sus fcm) -> getc (cw_st (vi_base (world s))) v = Some c0.
Proof.
  intros Hok. pose proof (sus_back_call fcm nodes edges init maxtime monitor Hon (proj s) (sim vm c) v c0
                            (sim_ok vm nodes edges init inf maxtime monitor Xt c s Hok)) as R.
  unfold fcm in R. rewrite (sim_world vm nodes edges init inf maxtime monitor Xt c s Hok) in R. exact R.
Qed.

Lemma nonposted_clock c s : (forall h, c <> DPost h) -> clock (dafter D c s) = clock s.
Proof.
  destruct c as [x t e|pi d t|h]; intros Hnp; cbn [dafter]; [apply fire_event_clock | apply fire_dyn_clock | exfalso; exact (Hnp h eq_refl)].
Qed.

(* posted events record nothing *)
Lemma vrun_pending_K : forall fuel t n s n' s', run_pending (d_tb D) fuel t n s = (n', s') -> KK s ->
  KK s' /\ occ s' = occ s /\ hit s' = hit s /\ inf_const inf s = inf_const inf s'.
Proof.
  induction fuel as [|f IH]; intros t n s n' s' E Hk; cbn [run_pending] in E.
  - inversion E; subst. split; [exact (KV_dsched vm nodes edges init s _ Hk (dsched_set_stuck s)) | repeat split].
  - assert (Hd : KK (discard s)) by (exact (KV_dsched vm nodes edges init s _ Hk (dsched_discard s))).
    destruct (head (queue (discard s))) as [h|] eqn:Eh; [|inversion E; subst; split; [exact Hd | repeat split]].
    destruct (Qle_bool (e_time h) t); [|inversion E; subst; split; [exact Hd | repeat split]].
    assert (Hok : dcall_ok D Xt (DPost h) (discard s)) by (split; [exact Eh | exact (discard_head_live s h Eh)]).
    pose proof (KV_dafter vm nodes edges init inf maxtime monitor Xt (discard s) (DPost h) Hwf Hon Hd Hok) as Hk'.
    change (emit (OTap (e_time h) (e_proc h) (NPost (e_prog h)) (e_elem h))
              (fire (d_tb D) h (set_clock (e_time h) (set_queue (remove_id (e_id h) (queue (discard s))) (discard s)))))
      with (dafter D (DPost h) (discard s)) in E.
    destruct (IH _ _ _ _ _ E Hk') as (A & B & C & I1). split; [exact A|].
    assert (I0 : inf_const inf s = inf_const inf s').
    { rewrite <- I1. unfold inf_const. pose proof (dafter_lw D (DPost h) (discard s)) as L. cbn [dcall_args] in L. destruct L as [_ L].
      rewrite L. unfold D. rewrite vi_prog_of. destruct (nth_error (cm_kinds (vi_cm vm)) (e_prog h)); [rewrite lift_prog_fst|]; reflexivity. }
    destruct (vcall_records (discard s) (DPost h) Hd Hok) as [[R1 R2]|(k & a & b & Ek & Em & _)].
    + split; [exact (eq_trans B R1)|]. split; [exact (eq_trans C R2) | exact I0].
    + exfalso. destruct (vmarking_call vm nodes edges init inf maxtime monitor Xt (discard s) (DPost h) k a b Hwf Hon Hd Hok Ek Em) as (Hnp & _).
      exact (Hnp h eq_refl).
Qed.

(* ================================================================== synchronous dynamics *)
(* s2 is the state on which the tranche was drawn; t the time of the step *)
Definition VStepInv (t : Q) (s2 s : st viworld) : Prop :=
  KK s /\ strictT (vi_base (world s)) /\ clock s = t
  /\ (forall v c, getc (cw_st (vi_base (world s))) v = Some c -> In c (sus fcm) -> getc (cw_st (vi_base (world s2))) v = Some c)
  /\ (forall n t', In (n, t') (hit s) ->
        (t' < t)%Q \/ (t' = t /\ exists c, In c (sus fcm) /\ getc (cw_st (vi_base (world s2))) n = Some c)).

(* one call of the tranche: c on the current state, c2 = the same event function on the same element seen from s2 *)
Lemma vstep_call t s2 s c c2 : KK s2 -> VStepInv t s2 s -> (forall h, c <> DPost h) ->
  dcall_ok D Xt c s -> dcall_ok D Xt c2 s2 -> dcall_kind vm c2 = dcall_kind vm c -> snd (dcall_args c2) = snd (dcall_args c) ->
  VStepInv t s2 (dafter D c s).
Proof.
  intros Hk2 (Hk & Hst & Hc & Hback & Hhits) Hnp Hok Hok2 Ekind Eelem.
  pose proof (KV_dafter vm nodes edges init inf maxtime monitor Xt s c Hwf Hon Hk Hok) as Hk'.
  assert (Hback' : forall v c0, getc (cw_st (vi_base (world (dafter D c s)))) v = Some c0 -> In c0 (sus fcm) ->
                                getc (cw_st (vi_base (world s2))) v = Some c0).
  { intros v c0 Hv Hcs. apply Hback; [|exact Hcs]. exact (vsus_back_call s c v c0 Hok Hv Hcs). }
  split; [exact Hk'|]. split; [|split; [rewrite (nonposted_clock c s Hnp); exact Hc | split; [exact Hback'|]]].
  - destruct (vcall_records s c Hk Hok) as [[R1 R2]|(h & n & m & Ek & Emk & R1 & R2)].
    + unfold strictT. rewrite R1, R2. exact Hst.
    + (* a marking call on (n, m): m was infectious when the tranche was drawn *)
      assert (Ek2 : dcall_kind vm c2 = Some h) by (rewrite Ekind; exact Ek).
      assert (Emk2 : marks h (snd (dcall_args c2)) = Some (n, m)) by (rewrite Eelem; exact Emk).
      destruct (vmarking_call vm nodes edges init inf maxtime monitor Xt s2 c2 h n m Hwf Hon Hk2 Hok2 Ek2 Emk2)
        as (_ & _ & _ & _ & (r & Hr & Hm) & _).
      destruct (vmarking_call vm nodes edges init inf maxtime monitor Xt s c h n m Hwf Hon Hk Hok Ek Emk)
        as (_ & _ & _ & (l & Hl & Hn) & (r' & Hr' & Hm') & _).
      assert (Hnm : n <> m) by (intros ->; rewrite Hn in Hm'; inversion Hm'; subst; contradiction).
      destruct Hk as (_ & _ & (F1 & _)).
      unfold strictT. rewrite R1, R2, Hc. intros a b ta tb' Ho Hh.
      apply in_app_or in Ho. apply in_app_or in Hh. destruct Ho as [Ho|[Ho|[]]]; destruct Hh as [Hh|[Hh|[]]].
      * exact (Hst a b ta tb' Ho Hh).
      * inversion Hh; subst b tb'. exfalso. exact (proj2 (F1 n l Hn Hl _ Ho) eq_refl).
      * inversion Ho; subst a b ta. destruct (Hhits m tb' Hh) as [Hlt|[_ (c0 & Hc0 & Hg)]]; [exact Hlt|].
        exfalso. rewrite Hm in Hg. inversion Hg; subst. contradiction.
      * inversion Ho; subst a b ta. inversion Hh; subst. contradiction.
  - destruct (vcall_records s c Hk Hok) as [[R1 R2]|(h & n & m & Ek & Emk & R1 & R2)].
    + rewrite R2. exact Hhits.
    + rewrite R2, Hc. intros a ta Ha. apply in_app_or in Ha. destruct Ha as [Ha|[Ha|[]]]; [exact (Hhits a ta Ha)|].
      inversion Ha; subst a ta. right. split; [reflexivity|].
      destruct (vmarking_call vm nodes edges init inf maxtime monitor Xt s c h n m Hwf Hon Hk Hok Ek Emk) as (_ & _ & _ & (l & Hl & Hn) & _).
      exists l. split; [exact Hl | exact (Hback n l Hn Hl)].
Qed.

Lemma dfire_tranche_strict t s2 : KK s2 -> clock s2 = t -> forall evs nev s nev' s',
  dfire_tranche D t evs nev s = (nev', s') -> Forall (dsel_ok D (loci s2) (world s2)) evs ->
  VStepInv t s2 s -> VStepInv t s2 s'.
Proof.
  intros Hk2 Hc2. induction evs as [|[x e] evs IH]; intros nev s nev' s' E Hev Hs.
  - cbn [dfire_tranche] in E. inversion E; subst. exact Hs.
  - apply Forall_cons_iff in Hev. destruct Hev as [[_ Hsel] Hev']. cbn [fst snd] in Hsel. pose proof Hs as (_ & _ & Hc & _).
    destruct x as [y|pi d].
    + destruct Hsel as [Hy He]. destruct (mem e (locus s (ev_locus (snd y)))) eqn:Em.
      * rewrite (dfire_tranche_fire_stat D _ _ _ _ _ _ Em) in E. apply (IH _ _ _ _ E Hev').
        apply (vstep_call t s2 s (DEv y t e) (DEv y t e) Hk2 Hs); [intros h; discriminate | | | reflexivity | reflexivity].
        -- split; [exact Hy|]. split; [exact Em|]. split; [exact Hc | exact I].
        -- split; [exact Hy|]. split; [apply mem_In; exact He|]. split; [exact Hc2 | exact I].
      * rewrite (dfire_tranche_skip_stat D _ _ _ _ _ _ Em) in E. exact (IH _ _ _ _ E Hev' Hs).
    + destruct Hsel as [Hd He]. destruct (de_member d (loci s) (world s)) eqn:Em.
      * rewrite (dfire_tranche_fire_dyn D _ _ _ _ _ _ _ Em) in E. apply (IH _ _ _ _ E Hev').
        apply (vstep_call t s2 s (DDyn pi d t) (DDyn pi d t) Hk2 Hs); [intros h; discriminate | | | reflexivity | reflexivity].
        -- split; [exists (loci s2), (world s2); exact Hd|]. split; [exact Em|]. split; [exact Hc | exact I].
        -- split; [exists (loci s2), (world s2); exact Hd|].
           split; [exact (vi_dyn_sound vm nodes edges init inf maxtime monitor pi _ _ d Hd)|]. split; [exact Hc2 | exact I].
      * rewrite (dfire_tranche_skip_dyn D _ _ _ _ _ _ _ Em) in E. exact (IH _ _ _ _ E Hev' Hs).
Qed.

Definition VHeadInv (t : Q) s : Prop :=
  KK s /\ strictT (vi_base (world s)) /\ forall n t', In (n, t') (hit s) -> (t' < t)%Q.

Lemma dsync_loop_strict pf : forall fuel t ev k s t' ev' k' s',
  dsync_loop D pf fuel t ev k s = (t', ev', k', s') -> VHeadInv t s -> KK s' /\ strictT (vi_base (world s')).
Proof.
  induction fuel as [|f IH]; intros t ev k s t' ev' k' s' E (Hk & Hst & Hh).
  - cbn [dsync_loop] in E. inversion E; subst. split; [exact (KV_dsched vm nodes edges init s _ Hk (dsched_set_stuck s)) | exact Hst].
  - rewrite dsync_loop_S in E. destruct (at_equil (d_tb D) t s); [inversion E; subst; split; assumption|].
    unfold dsync_step in E.
    assert (H0 : KK (set_clock t s)) by (exact (KV_dsched vm nodes edges init s _ Hk (dsched_set_clock t s))).
    destruct (run_pending (d_tb D) pf t 0 (set_clock t s)) as [n s1] eqn:Ep.
    destruct (vrun_pending_K _ _ _ _ _ _ Ep H0) as (K1 & O1 & H1 & _). cbn [world set_clock] in O1, H1.
    destruct (dtranche_spec D (set_clock t s1)) as [Ho Hsel].
    destruct (dtranche D (set_clock t s1)) as [evs s2]. cbn [fst snd] in *.
    assert (K2 : KK s2).
    { apply (KV_dsched vm nodes edges init (set_clock t s1)); [|apply dsched_osame; exact Ho].
      exact (KV_dsched vm nodes edges init s1 _ K1 (dsched_set_clock t s1)). }
    assert (W2 : world s2 = world s1) by (rewrite (osame_world _ _ Ho); reflexivity).
    assert (L2 : loci s2 = loci s1) by (rewrite (osame_loci _ _ Ho); reflexivity).
    assert (C2 : clock s2 = t) by (rewrite (osame_clock _ _ Ho); reflexivity).
    destruct (dfire_tranche D t evs n s2) as [nev s3] eqn:Ef.
    assert (S2 : VStepInv t s2 s2).
    { split; [exact K2|]. split; [|split; [exact C2 | split; [tauto|]]].
      - unfold strictT. rewrite W2, O1, H1. exact Hst.
      - intros a ta Ha. left. rewrite W2, H1 in Ha. exact (Hh a ta Ha). }
    assert (S3 : VStepInv t s2 s3).
    { apply (dfire_tranche_strict t s2 K2 C2 _ _ _ _ _ Ef); [|exact S2].
      rewrite L2, W2. exact Hsel. }
    destruct S3 as (K3 & St3 & _ & _ & Hh3).
    apply (IH _ _ _ _ _ _ _ _ E). split; [exact K3|]. split; [exact St3|].
    intros a ta Ha. destruct (Hh3 a ta Ha) as [Hlt|[-> _]]; rewrite Qred_correct; lra.
Qed.

Theorem vstrict_sync pf fuel rs ds : graph_okb nodes edges = true -> init_ok fcm nodes init = true ->
  strictT (vi_base (world (r_final (dsync_run D pf fuel rs ds)))).
Proof.
  intros Hg Hi. unfold dsync_run.
  destruct (dsync_loop D pf fuel 1 0 0 (setup_state (d_tb D) rs [] ds)) as [[[t ev] k] s] eqn:E. cbn [r_final].
  apply (dsync_loop_strict pf fuel 1 0 0 _ t ev k s E).
  pose proof (KV_setup vm nodes edges init inf maxtime monitor rs [] ds Hwf Hg Hi) as Hk. split; [exact Hk|].
  destruct (setup_state_lw (d_tb D) rs [] ds (vi_post_only vm nodes edges init inf maxtime monitor)) as [_ B]. rewrite B.
  split; [unfold strictT; intros ? ? ? ? [] | intros ? ? []].
Qed.

(* ================================================================== Gillespie dynamics *)
(* a call of an appended entry is, as a state transformer, a call of fire_event *)
Lemma fire_dyn_as_event pi w e t s :
  fire_dyn D pi (vi_entry vm w e) t s = fire_event (d_tb D) (pi, vi_infect_prog vm, mk_ev (vi_infect_prog vm) (vi_inf_event vm)) t e s.
Proof. reflexivity. Qed.

Lemma dstoch_select_dt s x dt s3 : dstoch_select D s = Some (x, dt, s3) ->
  dt = Qred ((1 / dsum_rates s (dtransitions D (loci s) (world s))) * hd 0%Q (lns s))%Q
  /\ (stuck s3 = false -> lns s <> [] /\ stuck s = false) /\ lns s3 = skipn 1 (lns s).
Proof.
  unfold dstoch_select. rewrite next_rand_adv, next_ln_adv, advance_advance. cbn [Nat.add].
  destruct (dtransitions D (loci s) (world s)) as [|x0 rest] eqn:Etr; [discriminate|].
  assert (A : forall nr, stuck (advance nr 1 0 s) = false -> lns s <> [] /\ stuck s = false).
  { intros nr H. unfold advance in H. cbn [stuck] in H. rewrite !orb_false_iff in H. destruct H as [[[H1 _] H2] _].
    split; [|exact H1]. intros E. rewrite E in H2. discriminate. }
  destruct rest as [|x1 rest].
  - intros E; inversion E; subst. cbn [lns advance]. split; [reflexivity|]. split; [apply A | reflexivity].
  - rewrite next_rand_adv, advance_advance. cbn [Nat.add]. intros E; inversion E; subst. cbn [lns advance].
    split; [reflexivity|]. split; [apply A | reflexivity].
Qed.

Hypothesis Hnn : (forall ev, In ev (vim_events vm) -> (0 <= ce_p ev)%Q) /\ (forall x, In x inf -> (0 <= snd x)%Q).
Variable pf : nat.

Definition vlns_pos s : Prop := Forall (Qlt 0) (lns s).
Definition VGood (t : Q) s : Prop := tinv_st t s /\ hits_le t (vi_base (world s)) /\ strictT (vi_base (world s)).
Definition VSI (t : Q) s : Prop := KK s /\ inf_const inf s /\ vlns_pos s /\ (stuck s = true \/ VGood t s).

Lemma vstrict_after_call s c : KK s -> dcall_ok D Xt c s -> strictT (vi_base (world s)) ->
  (forall n t', In (n, t') (hit s) -> (t' < clock s)%Q) -> strictT (vi_base (world (dafter D c s))).
Proof.
  intros Hk Hok Hst Hlt.
  destruct (vcall_records s c Hk Hok) as [[R1 R2]|(h & n & m & Ek & Emk & R1 & R2)].
  - unfold strictT. rewrite R1, R2. exact Hst.
  - destruct (vmarking_call vm nodes edges init inf maxtime monitor Xt s c h n m Hwf Hon Hk Hok Ek Emk)
      as (_ & _ & _ & (l & Hl & Hn) & (r' & Hr' & Hm') & _).
    assert (Hnm : n <> m) by (intros ->; rewrite Hn in Hm'; inversion Hm'; subst; contradiction).
    destruct Hk as (_ & _ & (F1 & _)).
    unfold strictT. rewrite R1, R2. intros a b ta tb' Ho Hh.
    apply in_app_or in Ho. apply in_app_or in Hh. destruct Ho as [Ho|[Ho|[]]]; destruct Hh as [Hh|[Hh|[]]].
    + exact (Hst a b ta tb' Ho Hh).
    + inversion Hh; subst b tb'. exfalso. exact (proj2 (F1 n l Hn Hl _ Ho) eq_refl).
    + inversion Ho; subst a b ta. exact (Hlt m tb' Hh).
    + inversion Ho; subst a b ta. inversion Hh; subst. contradiction.
Qed.

Lemma vhits_after_call s c t : KK s -> dcall_ok D Xt c s -> hits_le t (vi_base (world s)) -> (clock s <= t)%Q ->
  hits_le t (vi_base (world (dafter D c s))).
Proof.
  intros Hk Hok Hh Hc.
  destruct (vcall_records s c Hk Hok) as [[_ R2]|(h & n & m & _ & _ & _ & R2)]; unfold hits_le; rewrite R2; [exact Hh|].
  intros a ta Ha. apply in_app_or in Ha. destruct Ha as [Ha|[Ha|[]]]; [exact (Hh a ta Ha)|]. inversion Ha; subst. exact Hc.
Qed.

Lemma vrun_pending_L fuel t n s n' s' : run_pending (d_tb D) fuel t n s = (n', s') ->
  exists l, run_pendingL (d_tb D) fuel t n s = (n', s', l).
Proof.
  intros E. pose proof (run_pendingL_fst (d_tb D) fuel t n s) as F. destruct (run_pendingL (d_tb D) fuel t n s) as [[a b] l].
  cbn [fst] in F. rewrite E in F. inversion F; subst. exists l. reflexivity.
Qed.

Lemma dsum_nonneg s : inf_const inf s -> (0 <= dsum_rates s (dtransitions D (loci s) (world s)))%Q.
Proof.
  intros Hc. rewrite dsum_rates_qsum. apply qsum_nonneg. intros x Hx. apply drate_nonneg.
  apply (vi_dnonneg vm nodes edges init inf maxtime monitor (loci s) (world s)); [|exact Hx].
  unfold vi_nonneg. unfold inf_const in Hc. rewrite Hc. exact Hnn.
Qed.

Theorem dstoch_loop_strict : forall fuel t ev s t' ev' s',
  dstoch_loop D pf fuel t ev s = (t', ev', s') -> VSI t s -> VSI t' s'.
Proof.
  induction fuel as [|f IH]; intros t ev s t' ev' s' E (Hk & Hic & Hl & Hg).
  - cbn [dstoch_loop] in E. inversion E; subst.
    split; [exact (KV_dsched vm nodes edges init s _ Hk (dsched_set_stuck s))|]. split; [exact Hic|]. split; [exact Hl | left; reflexivity].
  - rewrite dstoch_loop_S in E. destruct (at_equil (d_tb D) t s); [inversion E; subst; split; [exact Hk | split; [exact Hic | split; assumption]]|].
    destruct (Qeq_bool (dsum_rates s (dtransitions D (loci s) (world s))) 0) eqn:Ea.
    + (* no stochastic event possible: jump to the next posted event *)
      unfold next_pending_time in E.
      assert (Hkd : KK (discard s)) by (exact (KV_dsched vm nodes edges init s _ Hk (dsched_discard s))).
      destruct (head (queue (discard s))) as [h|] eqn:Eh; cbn [option_map] in E.
      * destruct (run_pending (d_tb D) pf (e_time h) 0 (discard s)) as [n s2] eqn:Ep.
        apply (IH _ _ _ _ _ _ E).
        destruct (vrun_pending_K _ _ _ _ _ _ Ep Hkd) as (K2 & O2 & H2 & I2).
        destruct (vrun_pending_L _ _ _ _ _ _ Ep) as [l1 Hrp].
        pose proof (run_pendingL_omono _ _ _ _ _ _ _ _ Hrp) as [Hm _].
        split; [exact K2|]. split; [rewrite <- I2; exact Hic|]. split; [unfold vlns_pos; rewrite Hm; exact Hl|].
        destruct (stuck s2) eqn:Es2; [left; reflexivity | right].
        pose proof (run_pendingL_stuck _ _ _ _ _ _ _ _ Hrp Es2) as Es0. change (stuck (discard s)) with (stuck s) in Es0.
        destruct Hg as [Hg|(T & Hh & Hst)]; [congruence|].
        pose proof (tinv_st_discard _ _ T) as T0. pose proof (discard_head_live _ _ Eh) as Hlv.
        assert (Hth : (t <= e_time h)%Q) by (apply (t_live _ _ _ _ T0); [apply head_in; exact Eh | exact Hlv]).
        split; [|split].
        -- destruct pf as [|f0]; [cbn in Hrp; injection Hrp as _ <- _; discriminate|].
           rewrite (run_pendingL_head_fires (d_tb D) f0 _ _ _ h Eh (Qle_refl _)) in Hrp.
           destruct (run_pendingL (d_tb D) f0 (e_time h) 1 _) as [[n1 s1'] l1'] eqn:E1. injection Hrp as _ <- _.
           destruct (run_pendingL_tinv (d_tb D) f0 _ _ _ _ _ _ _ (tinv_pend_step (d_tb D) h _ _ Eh Hlv T0) E1 Es2) as [L' [A [B [C1 D1]]]].
           apply (tinv_raise L' (clock s1')); [destruct C1 as [C1|C1]; [exact C1 | rewrite C1; apply Qle_refl] | | | exact A].
           ++ pose proof (t_clock _ _ _ _ A). lra.
           ++ intros y Hy Hly. specialize (D1 y Hy Hly). lra.
        -- unfold hits_le. rewrite H2. intros a ta Ha. specialize (Hh a ta Ha). cbn [world discard set_queue] in Hh. lra.
        -- unfold strictT. rewrite O2, H2. exact Hst.
      * inversion E; subst. split; [exact Hkd|]. split; [exact Hic|]. split; [exact Hl|].
        destruct Hg as [Hg|(T & Hh & Hst)]; [left; exact Hg | right]. split; [apply tinv_st_discard, T | split; [exact Hh | exact Hst]].
    + (* a stochastic event *)
      destruct (dstoch_select D s) as [[[x dt] s3]|] eqn:Es.
      2:{ inversion E; subst. split; [exact (KV_dsched vm nodes edges init s _ Hk (dsched_set_stuck s))|]. split; [exact Hic|].
          split; [exact Hl | left; reflexivity]. }
      destruct (dstoch_select_shape D s x dt s3 Es) as [Hx [nr [_ E3]]].
      destruct (dstoch_select_dt s x dt s3 Es) as (Edt & Hns & El3).
      cbv zeta in E. set (nt := Qred (t + dt)) in *.
      destruct (run_pending (d_tb D) pf nt 0 s3) as [n s4] eqn:Ep.
      assert (K3 : KK s3) by (rewrite E3; exact (KV_dsched vm nodes edges init s _ Hk (dsched_advance nr 1 0 s))).
      destruct (vrun_pending_K _ _ _ _ _ _ Ep K3) as (K4 & O4 & H4 & I4).
      destruct (vrun_pending_L _ _ _ _ _ _ Ep) as [l1 Hrp].
      pose proof (run_pendingL_omono _ _ _ _ _ _ _ _ Hrp) as [Hm4 _].
      assert (L3 : vlns_pos s3) by (unfold vlns_pos; rewrite El3; apply Forall_skipn; exact Hl).
      assert (L4 : vlns_pos s4) by (unfold vlns_pos; rewrite Hm4; exact L3).
      assert (Ic4 : inf_const inf s4) by (rewrite <- I4, E3; exact Hic).
      set (s5 := set_clock nt s4) in *.
      assert (K5 : KK s5) by (exact (KV_dsched vm nodes edges init s4 _ K4 (dsched_set_clock nt s4))).
      (* the state of the event call and what holds there when nothing got stuck *)
      assert (Core : stuck s4 = false -> VGood nt s5 /\ (forall a ta, In (a, ta) (hit s5) -> (ta < nt)%Q)).
      { intros Es4. pose proof (run_pendingL_stuck _ _ _ _ _ _ _ _ Hrp Es4) as Es3.
        destruct (Hns Es3) as [Hne Es0]. destruct Hg as [Hg|(T & Hh & Hst)]; [congruence|].
        assert (Hdt : (0 < dt)%Q).
        { rewrite Edt, Qred_correct.
          pose proof (dsum_nonneg s Hic) as Ha0.
          assert (Ha : (0 < dsum_rates s (dtransitions D (loci s) (world s)))%Q).
          { destruct (Qlt_le_dec 0 (dsum_rates s (dtransitions D (loci s) (world s)))) as [H|H]; [exact H|]. exfalso.
            assert (E0 : (dsum_rates s (dtransitions D (loci s) (world s)) == 0)%Q) by lra. apply Qeq_bool_iff in E0. congruence. }
          pose proof Hl as Hl'. unfold vlns_pos in Hl'. destruct (lns s) as [|l0 ls] eqn:Els; [congruence|]. cbn [hd].
          inversion Hl' as [|? ? Hl0 _]; subst.
          apply Qmult_lt_0_compat; [|exact Hl0]. unfold Qdiv. rewrite Qmult_1_l. apply Qinv_lt_0_compat, Ha. }
        assert (Hnt : (t < nt)%Q) by (unfold nt; rewrite Qred_correct; lra).
        assert (T3 : tinv_st t s3) by (rewrite E3; apply (tinv_core t s); [reflexivity | exact T]).
        destruct (run_pendingL_tinv (d_tb D) pf _ _ _ _ _ _ _ T3 Hrp Es4) as [L' [A [B [C1 D1]]]].
        split; [split; [|split]|].
        - unfold tinv_st, s5. cbn [clock queue out set_clock].
          apply (tinv_raise L' (clock s4)); [destruct C1 as [C1|C1]; [exact C1 | rewrite C1; lra] | apply Qle_refl | | exact A].
          intros y Hy Hly. specialize (D1 y Hy Hly). lra.
        - unfold hits_le, s5. cbn [world set_clock]. rewrite H4, E3. cbn [world advance]. intros a ta Ha. specialize (Hh a ta Ha). lra.
        - unfold strictT, s5. cbn [world set_clock]. rewrite O4, H4, E3. exact Hst.
        - unfold s5. cbn [world set_clock]. rewrite H4, E3. cbn [world advance]. intros a ta Ha. specialize (Hh a ta Ha). lra. }
      apply dtransitions_In in Hx.
      destruct x as [y|pi d]; cbn [dstoch_fire] in E.
      * destruct (locus s5 (ev_locus (snd y))) as [|e0 l0] eqn:Eloc.
        -- rewrite (stoch_fire_empty (d_tb D) y _ _ s5 Eloc) in E. apply (IH _ _ _ _ _ _ E).
           split; [exact K5|]. split; [exact Ic4|]. split; [exact L4|].
           destruct (stuck s4) eqn:Es4; [left; exact Es4 | right; exact (proj1 (Core eq_refl))].
        -- assert (Hne : locus s5 (ev_locus (snd y)) <> []) by (rewrite Eloc; discriminate).
           destruct (stoch_fire_member (d_tb D) y nt (ev + n) s5 Hne) as [e [He Ef]]. rewrite Ef in E.
           apply (IH _ _ _ _ _ _ E). set (s6 := advance 0 0 1 s5) in *.
           assert (K6 : KK s6) by (exact (KV_dsched vm nodes edges init s5 _ K5 (dsched_advance 0 0 1 s5))).
           assert (Hok : dcall_ok D Xt (DEv y nt e) s6) by (split; [exact Hx | split; [apply mem_In; exact He | split; [reflexivity | exact I]]]).
           split; [exact (KV_dafter vm nodes edges init inf maxtime monitor Xt s6 (DEv y nt e) Hwf Hon K6 Hok)|].
           split; [exact (inf_const_dafter vm nodes edges init inf maxtime monitor (DEv y nt e) s6 Ic4)|].
           split; [unfold vlns_pos; rewrite (proj1 (fire_event_okeep (d_tb D) y nt e s6)); exact L4|].
           rewrite fire_event_stuck. destruct (stuck s6) eqn:Es6; [left; reflexivity | right].
           assert (Es4 : stuck s4 = false).
           { unfold s6, advance in Es6. cbn [stuck] in Es6. rewrite !orb_false_iff in Es6. exact (proj1 (proj1 (proj1 Es6))). }
           destruct (Core Es4) as [(T5 & H5 & St5) Hlt5].
           split; [|split].
           ++ apply tinv_fire_event; [reflexivity|]. apply (tinv_core nt s5); [reflexivity | exact T5].
           ++ exact (vhits_after_call s6 (DEv y nt e) nt K6 Hok H5 (Qle_refl _)).
           ++ exact (vstrict_after_call s6 (DEv y nt e) K6 Hok St5 Hlt5).
      * destruct (de_member d (loci s5) (world s5)) eqn:Em.
        -- apply (IH _ _ _ _ _ _ E).
           assert (Hok : dcall_ok D Xt (DDyn pi d nt) s5)
             by (split; [exists (loci s), (world s); exact Hx | split; [exact Em | split; [reflexivity | exact I]]]).
           split; [exact (KV_dafter vm nodes edges init inf maxtime monitor Xt s5 (DDyn pi d nt) Hwf Hon K5 Hok)|].
           split; [exact (inf_const_dafter vm nodes edges init inf maxtime monitor (DDyn pi d nt) s5 Ic4)|].
           destruct (vi_dyn_shape vm nodes edges init inf maxtime monitor pi _ _ d Hx) as [_ [e [_ Ed]]].
           assert (Efd : fire_dyn D pi d nt s5 = fire_event (d_tb D) (pi, vi_infect_prog vm, mk_ev (vi_infect_prog vm) (vi_inf_event vm)) nt e s5)
             by (rewrite Ed; apply fire_dyn_as_event).
           split; [unfold vlns_pos; rewrite Efd, (proj1 (fire_event_okeep (d_tb D) _ nt e s5)); exact L4|].
           rewrite Efd at 1. rewrite fire_event_stuck. destruct (stuck s5) eqn:Es5; [left; reflexivity | right].
           destruct (Core Es5) as [(T5 & H5 & St5) Hlt5].
           split; [|split].
           ++ rewrite Efd. apply tinv_fire_event; [reflexivity | exact T5].
           ++ exact (vhits_after_call s5 (DDyn pi d nt) nt K5 Hok H5 (Qle_refl _)).
           ++ exact (vstrict_after_call s5 (DDyn pi d nt) K5 Hok St5 Hlt5).
        -- apply (IH _ _ _ _ _ _ E).
           split; [exact K5|]. split; [exact Ic4|]. split; [exact L4|].
           destruct (stuck s4) eqn:Es4; [left; exact Es4 | right; exact (proj1 (Core eq_refl))].
Qed.

Theorem vstrict_stoch fuel rs ls ds : graph_okb nodes edges = true -> init_ok fcm nodes init = true -> Forall (Qlt 0) ls ->
  let r := dstoch_run D pf fuel rs ls ds in
  r_stuck r = false -> strictT (vi_base (world (r_final r))).
Proof.
  intros Hg Hi Hls. cbv zeta. unfold dstoch_run.
  destruct (dstoch_loop D pf fuel 0 0 (setup_state (d_tb D) rs ls ds)) as [[t ev] s] eqn:E. cbn [r_final r_stuck]. intros Hs.
  assert (S0 : VSI 0 (setup_state (d_tb D) rs ls ds)).
  { split; [exact (KV_setup vm nodes edges init inf maxtime monitor rs ls ds Hwf Hg Hi)|].
    destruct (setup_state_umoves (d_tb D) rs ls ds) as [U [El Est]]. cbn [lns stuck init_state] in El, Est.
    destruct (setup_state_lw (d_tb D) rs ls ds (vi_post_only vm nodes edges init inf maxtime monitor)) as [_ B].
    split; [unfold inf_const; rewrite B; reflexivity|].
    split; [unfold vlns_pos; rewrite El; exact Hls|]. right.
    split; [|split].
    - unfold tinv_st. apply (tinv_umoves 0 _ _ U). cbn. constructor; [repeat constructor | apply Qle_refl | intros x []].
    - unfold hits_le. rewrite B. intros ? ? [].
    - unfold strictT. rewrite B. intros ? ? ? ? []. }
  destruct (dstoch_loop_strict fuel 0 0 _ t ev s E S0) as (_ & _ & _ & [Hst|(_ & _ & Hst)]); [congruence | exact Hst].
Qed.

End VT.
