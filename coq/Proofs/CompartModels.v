(* C07 / C08: the tables of the shipped models as harness/compart_coq.py regenerates them from the
   live objects of every run (tie A): compartment codes are 1.. in sorted-name order, loci and
   events in registration order (per-element events first).  The probabilities are parameters;
   well-formedness, compartments, diagram and the at-most-once test do not depend on them. *)
From Coq Require Import List ZArith QArith Bool Arith.
From EpyV Require Import Model.Kernel Model.Loci Model.Compart
  Proofs.CompartInv Proofs.CompartDiagram Proofs.ContactInv.
Import ListNotations.

Definition cev (li : nat) (p : Q) (h : hkind) : cevent := {| ce_elem := true; ce_locus := li; ce_p := p; ce_kind := h |}.

(* SIR: I = 1, R = 2, S = 3 *)
Definition sir_cm (pInfect pRemove : Q) : cmodel :=
  {| cm_specs := [EdgeLocus 3 1; NodeLocus 1]%Z;
     cm_events := [cev 0 pInfect (HLeft 1 true None); cev 1 pRemove (HNode 2)];
     cm_extra := []; cm_seed_post := None; cm_equil := [] |}.

(* SIS: I = 1, S = 2; recover is registered before infect *)
Definition sis_cm (pInfect pRecover : Q) : cmodel :=
  {| cm_specs := [EdgeLocus 2 1; NodeLocus 1]%Z;
     cm_events := [cev 1 pRecover (HNode 2); cev 0 pInfect (HLeft 1 true None)];
     cm_extra := []; cm_seed_post := None; cm_equil := [] |}.

(* SIRS: I = 1, R = 2, S = 3 *)
Definition sirs_cm (pInfect pRemove pResuscept : Q) : cmodel :=
  {| cm_specs := [EdgeLocus 3 1; NodeLocus 1; NodeLocus 2]%Z;
     cm_events := [cev 0 pInfect (HLeft 1 true None); cev 1 pRemove (HNode 2); cev 2 pResuscept (HNode 3)];
     cm_extra := []; cm_seed_post := None; cm_equil := [] |}.

(* SEIR: E = 1, I = 2, R = 3, S = 4; loci SE, SI, E, I *)
Definition seir_cm (pInfectA pInfect pSymptoms pRemove : Q) : cmodel :=
  {| cm_specs := [EdgeLocus 4 1; EdgeLocus 4 2; NodeLocus 1; NodeLocus 2]%Z;
     cm_events := [cev 0 pInfectA (HLeft 1 true None); cev 1 pInfect (HLeft 1 true None);
                   cev 2 pSymptoms (HNode 2); cev 3 pRemove (HNode 3)];
     cm_extra := []; cm_seed_post := None; cm_equil := [] |}.

(* SIR_FixedRecovery (with F7 repaired: infection is a per-element event on SI): I = 1, R = 2, S = 3;
   program 1 is the posted removal *)
Definition sir_fr_cm (pInfect T : Q) : cmodel :=
  {| cm_specs := [EdgeLocus 3 1]%Z;
     cm_events := [cev 0 pInfect (HLeft 1 true (Some (T, 1)))];
     cm_extra := [HNode 2]; cm_seed_post := Some (1%Z, T, 1); cm_equil := [] |}.

(* SIS_FixedRecovery: I = 1, S = 2; program 1 is the posted recovery *)
Definition sis_fr_cm (pInfect T : Q) : cmodel :=
  {| cm_specs := [EdgeLocus 2 1]%Z;
     cm_events := [cev 0 pInfect (HLeft 1 true (Some (T, 1)))];
     cm_extra := [HNode 2]; cm_seed_post := Some (1%Z, T, 1); cm_equil := [] |}.

(* Opinion: G (ignorant) = 1, P (spreader) = 2, T (stifler) = 3; loci G, P, T, GP, PPT *)
Definition opinion_cm (pAffect pStifle : Q) : cmodel :=
  {| cm_specs := [NodeLocus 1; NodeLocus 2; NodeLocus 3; EdgeLocus 1 2; MultiEdgeLocus 2 [2; 3]]%Z;
     cm_events := [cev 3 pAffect (HLeft 2 true None); cev 4 pStifle (HLeft 3 false None)];
     cm_extra := []; cm_seed_post := None; cm_equil := [3; 4] |}.

(* for the examples: the event-function entries of a run (program, time, element) *)
Definition handlers_of_ex (o : list obs) : list (nat * Q * Kernel.elem) :=
  flat_map (fun x => match x with OHandler k t _ e (Some _) => [(k, t, e)] | _ => [] end) o.
(* ... and the posted event functions fired (program, time, element) *)
Definition posted_of_ex (o : list obs) : list (nat * Q * Kernel.elem) :=
  flat_map (fun x => match x with OHandler k t _ e None => [(k, t, e)] | _ => [] end) o.
