(* C19, part 6: the statements of Properties/C19.v, unpacked from the run invariant. *)
From Coq Require Import List ZArith QArith Bool Arith Lia.
From EpyV Require Import Lib.Prelude Model.Kernel Model.Loci Model.Compart Model.AddDelete
                         Proofs.LociBase Proofs.LociLocus Proofs.LociInv
                         Proofs.AddDelete Proofs.AddDeleteSteps Proofs.AddDeleteInv Proofs.AddDeleteRun Proofs.AddDeleteMain.
Import ListNotations.
Close Scope Q_scope.
Close Scope Z_scope.

(* ------------------------------------------------------------------ one event *)
Lemma add_names_fresh : forall cf w, Base cf w ->
  let i := new_node_name (aw_st w) in
  ~ In i (st_nodes (aw_st w)) /\ (Z.of_nat (length (st_nodes (aw_st w))) < i)%Z
  /\ st_nodes (aw_st (add_step cf w)) = st_nodes (aw_st w) ++ [i]
  /\ aw_all (add_step cf w) = aw_all w ++ [i].
Proof.
  intros cf w HB i. split; [apply new_node_name_fresh|]. split; [apply new_node_name_above_order|].
  destruct (add_step_cases cf w HB) as [[_ H]|[es [ds [_ [_ R]]]]].
  - cbv zeta in H. destruct H as [_ [_ [_ [En [_ [Ea _]]]]]]. auto.
  - destruct R as [_ Rn _ Ra _ _ _ _ _ _ _ _ _]. auto.
Qed.

Lemma add_degree : forall cf w, Base cf w -> aw_stuck w = false -> aw_stuck (add_step cf w) = false ->
  let i := new_node_name (aw_st w) in
  let nb := neighbours (aw_st (add_step cf w)) i in
  length nb = ac_deg cf /\ NoDup nb /\ ~ In i nb /\ (forall j, In j nb -> In j (st_nodes (aw_st w)))
  /\ st_edges (aw_st (add_step cf w)) = st_edges (aw_st w) ++ map (pair i) nb
  /\ aw_raised (add_step cf w) = aw_raised w.
Proof.
  intros cf w HB Hs Hs' i nb. destruct (add_step_cases cf w HB) as [[_ H]|[es [ds [_ [_ R]]]]].
  - cbv zeta in H. destruct H as [Hst _]. congruence.
  - destruct R as [_ _ Re _ Rl Rn Rs Ro Rb _ _ Rr _]. unfold nb, i. rewrite Rb. auto 10.
Qed.

Lemma add_progress : forall cf w vs, Base cf w -> aw_stuck w = false ->
  let i := new_node_name (aw_st w) in
  NoDup vs -> ac_deg cf <= length vs ->
  (forall v, In v vs -> In v (st_nodes (aw_st w)) /\ In v (map (draw_at (zsort (zadd i (aw_all w)))) (aw_draws w))) ->
  aw_stuck (add_step cf w) = false.
Proof.
  intros cf w vs HB Hs i Hn Hc Hv.
  destruct (picks_progress (ac_deg cf) (zsort (zadd i (aw_all w))) i [] (aw_draws w) vs Hn Hc) as [es [ds Ep]].
  { intros v Hin. destruct (Hv v Hin) as [H1 H2]. split; [|exact H2]. split; [intros []|].
    intro E. subst v. exact (new_node_name_fresh _ H1). }
  destruct (add_step_cases cf w HB) as [[En _]|[es' [ds' [_ [_ R]]]]].
  - fold i in En. congruence.
  - destruct R as [_ _ _ _ _ _ _ _ _ _ _ _ Rs]. congruence.
Qed.

(* the loop can only return when at least c other nodes exist *)
Lemma add_needs_others : forall cf w, Base cf w -> aw_stuck w = false -> aw_stuck (add_step cf w) = false ->
  ac_deg cf <= length (st_nodes (aw_st w)).
Proof.
  intros cf w HB Hs Hs'. destruct (add_degree cf w HB Hs Hs') as [E1 [E2 [_ [E4 _]]]]. cbv zeta in *.
  rewrite <- E1. apply NoDup_incl_length; [exact E2 | exact E4].
Qed.

Lemma delete_removes : forall cf w n, Base cf w -> In n (st_nodes (aw_st w)) ->
  let s := aw_st w in let s' := aw_st (delete_step cf w n) in
  ~ In n (st_nodes s') /\ (forall e, In e (st_edges s') -> touches n e = false)
  /\ (forall v, In v (st_nodes s') <-> In v (st_nodes s) /\ v <> n)
  /\ (forall e, In e (st_edges s') <-> In e (st_edges s) /\ touches n e = false)
  /\ S (length (st_nodes s')) = length (st_nodes s)
  /\ (forall v, In v (aw_all (delete_step cf w n)) <-> In v (aw_all w) /\ v <> n)
  /\ aw_raised (delete_step cf w n) = aw_raised w.
Proof.
  intros cf w n HB Hn s s'. destruct (delete_step_result cf w n HB Hn) as [[En Ee] _ Ea _ Er _ _].
  fold s s' in En, Ee. pose proof HB as [[_ HN] _].
  assert (Hv : forall v, In v (st_nodes s') <-> In v (st_nodes s) /\ v <> n).
  { intro v. rewrite En, filter_In, negb_true_iff, Z.eqb_neq. tauto. }
  assert (He : forall e, In e (st_edges s') <-> In e (st_edges s) /\ touches n e = false).
  { intro e. rewrite Ee, filter_In, negb_true_iff. tauto. }
  split; [intro H; apply Hv in H; tauto|]. split; [intros e H; apply He in H; tauto|]. split; [exact Hv|]. split; [exact He|].
  split; [rewrite En; apply filter_neq_length; assumption|]. split; [|exact Er].
  intro v. rewrite Ea. apply zdiscard_In.
Qed.

(* ------------------------------------------------------------------ whole runs, both dynamics *)
Section Runs.
Variables (cf : adcfg) (n0 : nat).
Hypothesis Hcfg : cfg_ok cf.
Variables (procs : list (list adevent)) (nloci : nat) (nodes : list Z) (edges init : list (Z * Z)) (maxtime : Q) (adraws : list nat).
Hypothesis Hev : forall a, In a (concat procs) -> event_ok cf a.
Hypothesis Hinit : init_ok cf n0 nloci nodes edges init.

Lemma ad_run_inv : forall sync pf fuel rs ls ds,
  let r := ad_run cf procs nloci nodes edges init maxtime adraws sync pf fuel rs ls ds in
  J cf n0 (loci (r_final r)) (world (r_final r)).
Proof.
  intros sync pf fuel rs ls ds. unfold ad_run. destruct sync.
  - apply (sync_run_inv cf n0 Hcfg procs nloci nodes edges init maxtime adraws Hev Hinit).
  - apply (stoch_run_inv cf n0 Hcfg procs nloci nodes edges init maxtime adraws Hev Hinit).
Qed.

Definition snap_locus_ok (sn : snap) : Prop :=
  NoDup (sn_all sn) /\ forall v, In v (sn_all sn) <-> In v (st_nodes (sn_st sn)).

Lemma run_locus : forall sync pf fuel rs ls ds,
  let r := ad_run cf procs nloci nodes edges init maxtime adraws sync pf fuel rs ls ds in
  let w := world (r_final r) in
  NoDup (aw_all w) /\ (forall v, In v (aw_all w) <-> In v (st_nodes (aw_st w)))
  /\ nth (ac_li cf) (loci (r_final r)) [] = map EN (zsort (aw_all w))
  /\ Forall snap_locus_ok (aw_log w).
Proof.
  intros sync pf fuel rs ls ds r w. destruct (ad_run_inv sync pf fuel rs ls ds) as [_ [Hm [[_ [HA [HAN _]]] [_ [_ [_ [_ HS]]]]]]].
  fold r w in Hm, HA, HAN, HS. split; [exact HA|]. split; [exact HAN|]. split; [exact Hm|].
  eapply Forall_impl; [|exact HS]. intros sn [A [B _]]. split; assumption.
Qed.

Lemma run_order : forall sync pf fuel rs ls ds,
  let w := world (r_final (ad_run cf procs nloci nodes edges init maxtime adraws sync pf fuel rs ls ds)) in
  aw_stuck w = false ->
  length (st_nodes (aw_st w)) + count_deletes (aw_log w) = n0 + count_adds (aw_log w).
Proof.
  intros sync pf fuel rs ls ds w. destruct (ad_run_inv sync pf fuel rs ls ds) as [_ [_ [_ [_ [_ [_ [HO _]]]]]]]. exact HO.
Qed.

Lemma run_events : forall sync pf fuel rs ls ds,
  let w := world (r_final (ad_run cf procs nloci nodes edges init maxtime adraws sync pf fuel rs ls ds)) in
  Forall (snap_ok cf) (aw_log w).
Proof.
  intros sync pf fuel rs ls ds w. destruct (ad_run_inv sync pf fuel rs ls ds) as [_ [_ [_ [_ [_ [_ [_ HS]]]]]]]. exact HS.
Qed.

Lemma run_no_exception : forall sync pf fuel rs ls ds,
  aw_raised (world (r_final (ad_run cf procs nloci nodes edges init maxtime adraws sync pf fuel rs ls ds))) = false.
Proof.
  intros sync pf fuel rs ls ds. destruct (ad_run_inv sync pf fuel rs ls ds) as [_ [_ [_ [_ [HR _]]]]]. exact HR.
Qed.

Lemma run_disease : forall sync pf fuel rs ls ds,
  let w := world (r_final (ad_run cf procs nloci nodes edges init maxtime adraws sync pf fuel rs ls ds)) in
  (with_disease cf = true -> has_comp (aw_st w))
  /\ (tracked_edges cf = true -> Inv (ac_tbl cf) (aw_st w))
  /\ Forall (fun sn => (with_disease cf = true -> has_comp (sn_st sn)) /\ (tracked_edges cf = true -> Inv (ac_tbl cf) (sn_st sn))) (aw_log w).
Proof.
  intros sync pf fuel rs ls ds w. destruct (ad_run_inv sync pf fuel rs ls ds) as [_ [_ [[_ [_ [_ HC]]] [_ [_ [HI [_ HS]]]]]]].
  fold w in HC, HI, HS. split; [exact HC|]. split; [exact HI|].
  eapply Forall_impl; [|exact HS]. intros sn [_ [_ [A [B _]]]]. split; assumption.
Qed.

End Runs.
