(* C09: the boolean checks that tie level 2 evaluates on a dumped tree imply the Good invariant. *)
From Coq Require Import ZArith List Bool Arith Lia.
From EpyV Require Import Model.Bbt Proofs.BbtRot Proofs.BbtSet Tie.C09.
Import ListNotations. Close Scope Z_scope. Open Scope nat_scope.

Lemma sorted_b_sound l : sorted_b l = true -> sorted l.
Proof.
  induction l as [|x l IH]; [intros; exact I|].
  destruct l as [|y l]; [intros; cbn; auto|].
  cbn [sorted_b]. intros H. apply andb_true_iff in H. destruct H as [Hxy Hs]. apply Z.ltb_lt in Hxy.
  specialize (IH Hs). cbn [sorted] in *. destruct IH as [IH1 IH2]. split; [|split; assumption].
  constructor; [assumption|]. eapply Forall_impl; [|exact IH1]. cbn. intros; lia.
Qed.

Lemma shape_b_sound t : forall h n, shape_b t = Some (h, n) -> Inv t /\ ht t = h /\ size t = n.
Proof.
  induction t as [|l IHl d h0 ls rs r IHr]; intros h n H.
  - cbn in H. inversion H; subst. split; [apply inv_leaf|split; reflexivity].
  - cbn [shape_b] in H.
    destruct (shape_b l) as [[hl nl]|]; [|discriminate]. destruct (shape_b r) as [[hr nr]|]; [|discriminate].
    destruct (IHl hl nl eq_refl) as ([Hol Hbl] & Hhl & Hnl). destruct (IHr hr nr eq_refl) as ([Hor Hbr] & Hhr & Hnr).
    match type of H with (if ?c then _ else _) = _ => destruct c eqn:Hc end; [|discriminate].
    inversion H; subst h n. clear H.
    repeat (apply andb_true_iff in Hc; destruct Hc as [Hc ?]).
    repeat match goal with H : (_ =? _) = true |- _ => apply Nat.eqb_eq in H | H : (_ <=? _) = true |- _ => apply Nat.leb_le in H end.
    subst. split; [split; cbn [Ok Bal]; auto 10|split; reflexivity].
Qed.

Theorem good_b_sound t : good_b t = true -> Good t.
Proof.
  unfold good_b. intros H. apply andb_true_iff in H. destruct H as [Hs Hp].
  split; [apply sorted_b_sound; assumption|].
  destruct (shape_b t) as [[h n]|] eqn:E; [|discriminate]. apply (shape_b_sound t h n E).
Qed.
