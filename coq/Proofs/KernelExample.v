(* The small table used by the non-vacuity Examples of Properties/C03.v and Properties/C04.v
   (definitions only).  One locus {0, 1}; one process with a per-element event of rate 1/2 whose
   handler (program 2) removes the element from the locus.  Set-up code posts
     a repeating event from 1/2 with period 1 (program 0: observe),
     an event at 2 whose handler (program 1) posts a NESTED event 1/4 later, i.e. at 9/4, BEFORE
       the event already queued for 5/2, and queries its own (already fired) id,
     an event at 5/2 (ties with the third firing of the repeating event: posting order decides),
     an event at 7/4 that it un-posts at once, queries, and un-posts twice more (non-fatal, fatal),
     and an event in the past (rejected). *)
From Coq Require Import List ZArith QArith.
From EpyV Require Import Model.Kernel.
Import ListNotations.
Open Scope Q_scope.

Definition ex_tb : table unit :=
  {| t_maxtime := 3;
     t_loci := [(0%nat, [EN 0; EN 1])];
     t_procs := [ {| p_events := [ {| ev_elem := true; ev_locus := 0; ev_p := 1#2; ev_prog := 2 |} ];
                     p_setup := [APostRep (1#2) 1 0; APost 2 1; APost (5#2) 3; APost (7#4) 3;
                                 AUnpost 2 false; AQuery 2; AUnpost 2 false; AUnpost 2 true; APostPast] |} ];
     t_progs := [static [AObserve]; static [APost (1#4) 3; AQuery 0]; static [ALDiscardSelf 0]; static []];
     t_world := tt;
     t_equil := fun _ _ => false |}.

Definition ex_rands : list Q := [1#2; 1#3; 1#2; 2#3; 1#5; 1#2; 1#2; 1#2].
Definition ex_lns : list Q := [1; 3#2; 1#2; 1].
Definition ex_draws : list nat := [0; 1; 0; 1]%nat.
Definition ex_sync_rands : list Q := [1#4; 3#4; 1#4; 3#4; 1#4; 3#4].

(* (time, id) of an entry *)
Definition key (x : entry) : Q * nat := (e_time x, e_id x).

(* A table with a Monitor (C12): process 0 posts the repeating observe program 1 every 1/2 from 0;
   process 1 has a per-element event of rate 1 (program 0 removes the element from the locus), posts
   an event at 3/4 (program 2) and un-posts it again: the only id user code ever holds. *)
Definition ex_mon : table unit :=
  {| t_maxtime := 2;
     t_loci := [(1%nat, [EN 0; EN 1; EN 2])];
     t_procs := [ {| p_events := []; p_setup := [APostRep 0 (1#2) 1] |};
                  {| p_events := [ {| ev_elem := true; ev_locus := 0; ev_p := 1; ev_prog := 0 |} ];
                     p_setup := [APost (3#4) 2; AUnpost 0 false] |} ];
     t_progs := [static [ALDiscardSelf 0]; static [AObserve]; static []];
     t_world := tt;
     t_equil := fun _ _ => false |}.
Definition ex_mon_rands : list Q := [1#2; 1#2; 1#2; 1#2; 1#2; 1#2; 1#2; 1#2].
Definition ex_mon_lns : list Q := [2; 1; 1; 1].
Definition ex_mon_draws : list nat := [0; 0; 0; 0]%nat.
