(* C07, kernel loci: the explicit add/discard actions an event function of Model/Compart.v hands
   to the kernel ([sync_actions]) make the kernel's ordered copy of every locus equal to
   [ksort] of the contents the handlers of Model/Loci.v produced. *)
From Coq Require Import List ZArith QArith Bool Arith Lia.
From EpyV Require Import Model.Kernel Model.Loci Model.Compart Proofs.KernelMember.
Import ListNotations.

Local Notation kelem_t := Kernel.elem.

(* ------------------------------------------------------------------ the order on elements *)
Lemma ltb_irrefl : forall x : kelem_t, elem_ltb x x = false.
Proof. intros [n|n m]; cbn; [apply Z.ltb_irrefl|]. rewrite !Z.ltb_irrefl, Z.eqb_refl. reflexivity. Qed.

Lemma ltb_trans : forall x y z : kelem_t, elem_ltb x y = true -> elem_ltb y z = true -> elem_ltb x z = true.
Proof.
  intros [a|a1 a2] [b|b1 b2] [c|c1 c2]; cbn; try discriminate; try reflexivity.
  - rewrite !Z.ltb_lt. lia.
  - rewrite !orb_true_iff, !andb_true_iff, !Z.ltb_lt, !Z.eqb_eq. lia.
Qed.

Lemma ltb_total : forall x y : kelem_t, elem_ltb x y = false -> Kernel.elem_eqb x y = false -> elem_ltb y x = true.
Proof.
  intros [a|a1 a2] [b|b1 b2]; cbn; try discriminate; try reflexivity.
  - rewrite Z.ltb_ge, Z.eqb_neq, Z.ltb_lt. lia.
  - rewrite orb_false_iff, !andb_false_iff, orb_true_iff, andb_true_iff, !Z.ltb_ge, !Z.eqb_neq, !Z.ltb_lt, Z.eqb_eq. lia.
Qed.

Fixpoint ssorted (l : list kelem_t) : Prop :=
  match l with
  | [] => True
  | x :: l' => (forall y, In y l' -> elem_ltb x y = true) /\ ssorted l'
  end.

Lemma ins_In : forall x l y, In y (ins x l) <-> y = x \/ In y l.
Proof.
  intros x l y. induction l as [|z l IH]; cbn [ins].
  - cbn. intuition.
  - destruct (elem_ltb x z); [cbn; intuition|].
    destruct (Kernel.elem_eqb x z) eqn:E.
    + apply elem_eqb_eq in E. subst z. cbn. intuition.
    + cbn [In]. rewrite IH. intuition.
Qed.

Lemma ins_ssorted : forall x l, ssorted l -> ssorted (ins x l).
Proof.
  intros x l. induction l as [|z l IH]; intros H; cbn [ins].
  - cbn. split; [intros y []|exact I].
  - destruct H as [H1 H2]. destruct (elem_ltb x z) eqn:L.
    + cbn [ssorted]. split; [|split; assumption].
      intros y [<-|Hy]; [exact L | eapply ltb_trans; [exact L | apply H1, Hy]].
    + destruct (Kernel.elem_eqb x z) eqn:E; [split; assumption|].
      cbn [ssorted]. split; [|apply IH, H2].
      intros y Hy. apply ins_In in Hy. destruct Hy as [->|Hy]; [apply ltb_total; [exact L | exact E] | apply H1, Hy].
Qed.

Lemma ssorted_notin : forall x l, ssorted (x :: l) -> ~ In x l.
Proof. intros x l [H _] Hin. apply H in Hin. rewrite ltb_irrefl in Hin. discriminate. Qed.

Lemma del_In : forall x l y, ssorted l -> (In y (del x l) <-> In y l /\ y <> x).
Proof.
  intros x l y. induction l as [|z l IH]; intros H; cbn [del].
  - cbn. intuition.
  - destruct (Kernel.elem_eqb x z) eqn:E.
    + apply elem_eqb_eq in E. subst z. pose proof (ssorted_notin _ _ H) as Hn. cbn [In]. split.
      * intros Hy. split; [right; exact Hy | intros ->; contradiction].
      * intros [[->|Hy] Hne]; [congruence | exact Hy].
    + destruct H as [H1 H2]. cbn [In]. rewrite (IH H2). split.
      * intros [<-|[Hy Hne]]; [|tauto]. split; [left; reflexivity|]. intros ->.
        rewrite (proj2 (elem_eqb_eq x x) eq_refl) in E. discriminate.
      * intros [[<-|Hy] Hne]; [left; reflexivity | right; tauto].
Qed.

Lemma del_ssorted : forall x l, ssorted l -> ssorted (del x l).
Proof.
  intros x l. induction l as [|z l IH]; intros H; cbn [del]; [exact I|].
  destruct H as [H1 H2]. destruct (Kernel.elem_eqb x z); [exact H2|].
  cbn [ssorted]. split; [|apply IH, H2]. intros y Hy. apply del_In in Hy; [|exact H2]. apply H1, Hy.
Qed.

Lemma ssorted_ext : forall a b, ssorted a -> ssorted b -> (forall x, In x a <-> In x b) -> a = b.
Proof.
  induction a as [|x a IH]; intros b Ha Hb Hab.
  - destruct b as [|y b]; [reflexivity|]. exfalso. apply (proj2 (Hab y)). left. reflexivity.
  - destruct b as [|y b]; [exfalso; apply (proj1 (Hab x)); left; reflexivity|].
    assert (Hxy : x = y).
    { destruct (proj1 (Hab x) (or_introl eq_refl)) as [E|Hx]; [symmetry; exact E|].
      destruct (proj2 (Hab y) (or_introl eq_refl)) as [E|Hy]; [exact E|].
      apply (proj1 Ha) in Hy. apply (proj1 Hb) in Hx.
      pose proof (ltb_trans _ _ _ Hx Hy) as C. rewrite ltb_irrefl in C. discriminate. }
    subst y. f_equal. apply IH; [exact (proj2 Ha) | exact (proj2 Hb)|].
    intros z. pose proof (ssorted_notin _ _ Ha) as Na. pose proof (ssorted_notin _ _ Hb) as Nb. split; intros Hz.
    + destruct (proj1 (Hab z) (or_intror Hz)) as [E|H]; [subst z; contradiction | exact H].
    + destruct (proj2 (Hab z) (or_intror Hz)) as [E|H]; [subst z; contradiction | exact H].
Qed.

(* ------------------------------------------------------------------ ksort *)
Lemma fold_ins_In : forall (A : list kelem_t) l y, In y (fold_left (fun acc x => ins x acc) A l) <-> In y A \/ In y l.
Proof.
  induction A as [|a A IH]; intros l y; cbn [fold_left]; [cbn; tauto|].
  rewrite IH, ins_In. cbn [In]. intuition.
Qed.
Lemma fold_ins_ssorted : forall (A : list kelem_t) l, ssorted l -> ssorted (fold_left (fun acc x => ins x acc) A l).
Proof. induction A as [|a A IH]; intros l H; cbn [fold_left]; [exact H|]. apply IH, ins_ssorted, H. Qed.

Lemma ksort_fold : forall l acc, fold_left (fun acc x => ins (kelem x) acc) l acc
                               = fold_left (fun acc x => ins x acc) (map kelem l) acc.
Proof. induction l as [|x l IH]; intros acc; cbn; [reflexivity | apply IH]. Qed.

Lemma ksort_ssorted : forall l, ssorted (ksort l).
Proof. intros l. unfold ksort. rewrite ksort_fold. apply fold_ins_ssorted. exact I. Qed.

Lemma ksort_In : forall l y, In y (ksort l) <-> In y (map kelem l).
Proof. intros l y. unfold ksort. rewrite ksort_fold, fold_ins_In. cbn. tauto. Qed.

Lemma kelem_inj : forall a b, kelem a = kelem b -> a = b.
Proof. intros [n|n m] [n'|n' m']; cbn; intros E; inversion E; reflexivity. Qed.

Lemma ksort_In_kelem : forall l x, In (kelem x) (ksort l) <-> In x l.
Proof.
  intros l x. rewrite ksort_In, in_map_iff. split.
  - intros [z [E Hz]]. apply kelem_inj in E. subst. exact Hz.
  - intros H. exists x. split; [reflexivity | exact H].
Qed.

Lemma ksort_nil_iff : forall l, ksort l = [] <-> l = [].
Proof.
  intros l. split; [|intros ->; reflexivity]. intros H. destruct l as [|x l]; [reflexivity|].
  exfalso. assert (Hx : In (kelem x) (ksort (x :: l))) by (apply ksort_In_kelem; left; reflexivity).
  rewrite H in Hx. destruct Hx.
Qed.

(* ------------------------------------------------------------------ one locus *)
Lemma fold_del_spec : forall (D : list kelem_t) l, ssorted l ->
  ssorted (fold_left (fun acc x => del x acc) D l) /\
  forall y, In y (fold_left (fun acc x => del x acc) D l) <-> In y l /\ ~ In y D.
Proof.
  induction D as [|d D IH]; intros l H; cbn [fold_left]; [split; [exact H | cbn; tauto]|].
  destruct (IH (del d l) (del_ssorted d l H)) as [S1 S2]. split; [exact S1|].
  intros y. rewrite S2, (del_In d l y H). cbn [In]. intuition.
Qed.

Lemma kmem_In : forall x l, kmem x l = true <-> In x l.
Proof. exact mem_In. Qed.

Definition sync1 (o ns : list kelem_t) (o' : list kelem_t) : list kelem_t :=
  fold_left (fun acc x => ins x acc) (filter (fun x => negb (kmem x o)) ns)
            (fold_left (fun acc x => del x acc) (filter (fun x => negb (kmem x ns)) o) o').

Lemma sync1_eq : forall o ns, ssorted o -> ssorted ns -> sync1 o ns o = ns.
Proof.
  intros o ns Ho Hn. unfold sync1.
  destruct (fold_del_spec (filter (fun x => negb (kmem x ns)) o) o Ho) as [S1 S2].
  apply ssorted_ext; [apply fold_ins_ssorted, S1 | exact Hn|].
  intros y. rewrite fold_ins_In, S2, !filter_In, !negb_true_iff. split.
  - intros [[H _]|[H1 H2]]; [exact H|].
    destruct (kmem y ns) eqn:E; [apply kmem_In, E | exfalso; apply H2; split; [exact H1 | reflexivity]].
  - intros Hy. destruct (kmem y o) eqn:E; [|left; split; [exact Hy | reflexivity]].
    right. split; [apply kmem_In, E|]. intros [_ C]. apply kmem_In in Hy. congruence.
Qed.

(* ------------------------------------------------------------------ the actions on the list of loci *)
Definition act_loci (e : kelem_t) (L : list (list kelem_t)) (a : action) : list (list kelem_t) :=
  match a with
  | ALAdd l x => Kernel.upd_nth l (ins x) L
  | ALDiscard l x => Kernel.upd_nth l (del x) L
  | ALAddSelf l => Kernel.upd_nth l (ins e) L
  | ALDiscardSelf l => Kernel.upd_nth l (del e) L
  | _ => L
  end.

Section K.
Context {W : Type}.
Implicit Types s : st W.

Lemma do_action_loci p t e a s : loci (do_action p t e a s) = act_loci e (loci s) a.
Proof.
  destruct a; cbn [do_action act_loci]; unfold post; try reflexivity;
    try (destruct (Qltb _ _); reflexivity).
  - destruct (ids s); [reflexivity|]. destruct (find_live _ _); reflexivity.
  - destruct (ids s); reflexivity.
Qed.

Lemma do_action_world p t e a s : world (do_action p t e a s) = world s.
Proof.
  destruct a; cbn [do_action]; unfold post; try reflexivity;
    try (destruct (Qltb _ _); reflexivity).
  - destruct (ids s); [reflexivity|]. destruct (find_live _ _); reflexivity.
  - destruct (ids s); reflexivity.
Qed.

Lemma run_actions_loci p t e acts s : loci (run_actions p t e acts s) = fold_left (act_loci e) acts (loci s).
Proof.
  unfold run_actions. revert s. induction acts as [|a acts IH]; intros s; cbn [fold_left]; [reflexivity|].
  rewrite IH, do_action_loci. reflexivity.
Qed.

Lemma run_actions_world p t e acts s : world (run_actions p t e acts s) = world s.
Proof.
  unfold run_actions. revert s. induction acts as [|a acts IH]; intros s; cbn [fold_left]; [reflexivity|].
  rewrite IH, do_action_world. reflexivity.
Qed.
End K.

Lemma kupd_nth_id : forall A i (L : list A), Kernel.upd_nth i (fun x => x) L = L.
Proof. intros A i L. revert i. induction L as [|x L IH]; intros [|i]; cbn; try reflexivity. rewrite IH. reflexivity. Qed.

Lemma kupd_nth_comp : forall A i (f g : A -> A) L,
  Kernel.upd_nth i f (Kernel.upd_nth i g L) = Kernel.upd_nth i (fun x => f (g x)) L.
Proof. intros A i f g L. revert i. induction L as [|x L IH]; intros [|i]; cbn; try reflexivity. rewrite IH. reflexivity. Qed.

Lemma kupd_nth_app_len : forall A (f : A -> A) pre x post,
  Kernel.upd_nth (length pre) f (pre ++ x :: post) = pre ++ f x :: post.
Proof. intros A f pre x post. induction pre as [|y pre IH]; cbn; [reflexivity|]. rewrite IH. reflexivity. Qed.

Lemma fold_discards : forall e i (D : list kelem_t) L,
  fold_left (act_loci e) (map (fun x => ALDiscard i x) D) L
  = Kernel.upd_nth i (fun o => fold_left (fun acc x => del x acc) D o) L.
Proof.
  intros e i. induction D as [|d D IH]; intros L; cbn [map fold_left]; [symmetry; apply kupd_nth_id|].
  rewrite IH. cbn [act_loci]. rewrite kupd_nth_comp. reflexivity.
Qed.

Lemma fold_adds : forall e i (A : list kelem_t) L,
  fold_left (act_loci e) (map (fun x => ALAdd i x) A) L
  = Kernel.upd_nth i (fun o => fold_left (fun acc x => ins x acc) A o) L.
Proof.
  intros e i. induction A as [|a A IH]; intros L; cbn [map fold_left]; [symmetry; apply kupd_nth_id|].
  rewrite IH. cbn [act_loci]. rewrite kupd_nth_comp. reflexivity.
Qed.

Lemma sync_from_spec : forall e new pre old, length old = length new -> Forall ssorted old ->
  fold_left (act_loci e) (sync_from (length pre) old new) (pre ++ old) = pre ++ map ksort new.
Proof.
  intros e. induction new as [|n new IH]; intros pre old Hlen Hs.
  - destruct old; [reflexivity | discriminate].
  - destruct old as [|o old]; [discriminate|]. inversion Hs as [|? ? Ho Hs']; subst.
    cbn [sync_from tl map]. rewrite !fold_left_app, fold_discards, fold_adds, kupd_nth_comp, kupd_nth_app_len.
    change (fold_left (fun a1 x1 => ins x1 a1) (filter (fun x2 => negb (kmem x2 o)) (ksort n))
              (fold_left (fun a3 x3 => del x3 a3) (filter (fun x4 => negb (kmem x4 (ksort n))) o) o))
      with (sync1 o (ksort n) o).
    rewrite (sync1_eq o (ksort n) Ho (ksort_ssorted n)).
    replace (pre ++ ksort n :: old) with ((pre ++ [ksort n]) ++ old) by (rewrite <- app_assoc; reflexivity).
    replace (S (length pre)) with (length (pre ++ [ksort n])) by (rewrite app_length; cbn; lia).
    rewrite IH; [rewrite <- app_assoc; reflexivity | cbn in Hlen; lia | exact Hs'].
Qed.

(* the kernel's copy after the actions of an event function *)
Theorem sync_actions_spec : forall e kloci new, length kloci = length new -> Forall ssorted kloci ->
  fold_left (act_loci e) (sync_actions 0 kloci new) kloci = map ksort new.
Proof. intros e kloci new Hl Hs. unfold sync_actions. cbn [skipn]. exact (sync_from_spec e new [] kloci Hl Hs). Qed.
