(* C02: the holding time.  stochasticdynamics.py computes dt = (1/a) * log(1/r1) from a uniform r1;
   over the real numbers, {dt > s} is the event {r1 < exp(-a s)}, whose length is the survival
   function of the exponential distribution with rate a.  This is the only file of the C02
   development that uses the real numbers (and hence the standard library's axioms for them). *)
From Coq Require Import Reals Lra.
Open Scope R_scope.

Theorem holding_time : forall a r1 s : R, 0 < a -> 0 < r1 <= 1 ->
  (ln (/ r1) / a > s <-> r1 < exp (- a * s)).
Proof.
  intros a r1 s Ha [Hr0 Hr1].
  rewrite (ln_Rinv r1 Hr0).
  assert (Hia : 0 < / a) by (apply Rinv_0_lt_compat; exact Ha).
  split; intros H.
  - assert (H1 : ln r1 < - a * s).
    { unfold Rdiv in H. apply Rgt_lt in H.
      apply (Rmult_lt_compat_l a) in H; [|exact Ha].
      replace (a * (- ln r1 * / a)) with (- ln r1) in H by (field; lra). lra. }
    apply exp_increasing in H1. rewrite (exp_ln r1 Hr0) in H1. exact H1.
  - assert (H1 : ln r1 < - a * s).
    { rewrite <- (ln_exp (- a * s)). apply ln_increasing; assumption. }
    unfold Rdiv. apply Rlt_gt.
    apply (Rmult_lt_reg_l a); [exact Ha|].
    replace (a * (- ln r1 * / a)) with (- ln r1) by (field; lra). lra.
Qed.

(* the model's formula is the same number: (1/a) * ln(1/r1) *)
Lemma holding_time_model_form : forall a r1 : R, 0 < a -> 0 < r1 -> (1 / a) * ln (1 / r1) = ln (/ r1) / a.
Proof. intros a r1 Ha Hr. unfold Rdiv. rewrite !Rmult_1_l. apply Rmult_comm. Qed.

(* P(dt > s) as the length of an interval of r1: [0, exp(-a s)) intersected with (0,1] for s >= 0 *)
Lemma holding_time_survival_in_unit : forall a s : R, 0 < a -> 0 <= s -> 0 < exp (- a * s) <= 1.
Proof.
  intros a s Ha Hs. split; [apply exp_pos|].
  rewrite <- exp_0. destruct (Req_dec s 0) as [->|Hn].
  - right. f_equal. ring.
  - left. apply exp_increasing. assert (0 < a * s) by (apply Rmult_lt_0_compat; lra). lra.
Qed.
