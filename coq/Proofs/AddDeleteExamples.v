(* C19, part 7: the documented configurations as concrete tables (what harness/c19.py reads off
   the live objects), their well-formedness, the witness of F11, and concrete runs. *)
From Coq Require Import List ZArith QArith Bool Arith Lia.
From EpyV Require Import Lib.Prelude Model.Kernel Model.Loci Model.Compart Model.AddDelete
                         Proofs.LociBase Proofs.LociLocus Proofs.LociInv
                         Proofs.AddDelete Proofs.AddDeleteSteps Proofs.AddDeleteInv Proofs.AddDeleteRun Proofs.AddDeleteMain
                         Proofs.AddDeleteTop.
Import ListNotations.
Close Scope Q_scope.
Close Scope Z_scope.

(* SIR: S = 1, I = 2, R = 3; loci SI and I as SIR.build registers them *)
Definition sir_tbl : list spec := [EdgeLocus 1 2; NodeLocus 2]%Z.

(* AddDelete alone: one locus *)
Definition cfg_alone (c : nat) : adcfg :=
  {| ac_combo := Alone; ac_deg := c; ac_tbl := []; ac_li := 0; ac_off := 1; ac_S := 1%Z; ac_R := 3%Z |}.
(* class DynamicSIR(SIR, AddDelete): AddDelete.build runs first - loci allnodes, SI, I *)
Definition cfg_inherit (c : nat) : adcfg :=
  {| ac_combo := Inherit; ac_deg := c; ac_tbl := sir_tbl; ac_li := 0; ac_off := 1; ac_S := 1%Z; ac_R := 3%Z |}.
(* class X(AddDelete, SIR): SIR.build runs first - loci SI, I, allnodes *)
Definition cfg_inherit_rev (c : nat) : adcfg :=
  {| ac_combo := Inherit; ac_deg := c; ac_tbl := sir_tbl; ac_li := 2; ac_off := 0; ac_S := 1%Z; ac_R := 3%Z |}.
(* ProcessSequence({disease: SIR(), population: CompartmentedAddDelete()}): loci SI, I, allnodes *)
Definition cfg_sequence (via_disease : bool) (c : nat) : adcfg :=
  {| ac_combo := Sequence via_disease; ac_deg := c; ac_tbl := sir_tbl; ac_li := 2; ac_off := 0; ac_S := 1%Z; ac_R := 3%Z |}.

Definition sir_events (si i : nat) (pInfect pRemove : Q) : list adevent :=
  [ {| ae_elem := true; ae_locus := si; ae_p := pInfect; ae_kind := PDisease (HLeft 2%Z true None) |};
    {| ae_elem := true; ae_locus := i; ae_p := pRemove; ae_kind := PDisease (HNode 3%Z) |} ].
Definition pop_events (li : nat) (pAdd pDelete : Q) : list adevent :=
  [ {| ae_elem := false; ae_locus := li; ae_p := pAdd; ae_kind := PAdd |};
    {| ae_elem := false; ae_locus := li; ae_p := pDelete; ae_kind := PDelete |} ].

Definition procs_alone (pAdd pDelete : Q) := [pop_events 0 pAdd pDelete].
Definition procs_inherit (pInfect pRemove pAdd pDelete : Q) := [sir_events 1 2 pInfect pRemove ++ pop_events 0 pAdd pDelete].
Definition procs_inherit_rev (pInfect pRemove pAdd pDelete : Q) := [sir_events 0 1 pInfect pRemove ++ pop_events 2 pAdd pDelete].
Definition procs_sequence (pInfect pRemove pAdd pDelete : Q) := [sir_events 0 1 pInfect pRemove; pop_events 2 pAdd pDelete].

Lemma sir_tbl_c01 : wf_loci sir_tbl = true /\ single_orientation sir_tbl = true.
Proof. split; reflexivity. Qed.

Lemma cfg_alone_ok : forall c, cfg_ok (cfg_alone c).
Proof.
  intro c. constructor; cbn.
  - left. lia.
  - reflexivity.
  - discriminate.
  - discriminate.
Qed.

Lemma cfg_inherit_ok : forall c, cfg_ok (cfg_inherit c).
Proof.
  intro c. constructor; cbn.
  - left. lia.
  - discriminate.
  - intros _. exact sir_tbl_c01.
  - discriminate.
Qed.

Lemma cfg_inherit_rev_ok : forall c, cfg_ok (cfg_inherit_rev c).
Proof.
  intro c. constructor; cbn.
  - right. lia.
  - discriminate.
  - intros _. exact sir_tbl_c01.
  - discriminate.
Qed.

Lemma cfg_sequence_ok : forall v c, cfg_ok (cfg_sequence v c).
Proof.
  intros v c. constructor; cbn.
  - right. lia.
  - discriminate.
  - intros _. exact sir_tbl_c01.
  - intros _. reflexivity.
Qed.

Lemma events_ok_of : forall cf procs,
  forallb (fun a => match ae_kind a with
                    | PAdd => true
                    | PDelete => Nat.eqb (ae_locus a) (ac_li cf)
                    | PDisease h => quiet_hk h
                    end) (concat procs) = true ->
  forall a, In a (concat procs) -> event_ok cf a.
Proof.
  intros cf procs H a Ha. rewrite forallb_forall in H. specialize (H a Ha). unfold event_ok.
  destruct (ae_kind a); [exact I | apply Nat.eqb_eq, H | exact H].
Qed.

(* decidable form of init_ok *)
Fixpoint nodupb (l : list Z) : bool := match l with [] => true | x :: t => negb (zmem x t) && nodupb t end.
Lemma nodupb_NoDup : forall l, nodupb l = true -> NoDup l.
Proof.
  induction l as [|x l IH]; intro H; [constructor|]. cbn in H. apply andb_true_iff in H. destruct H as [H1 H2].
  constructor; [apply zmem_false, negb_true_iff, H1 | apply IH, H2].
Qed.

Lemma init_ok_of : forall cf n0 nloci nodes edges init,
  Nat.eqb (length nodes) n0 && nodupb nodes && graph_okb nodes edges && Nat.ltb (ac_li cf) nloci
  && (negb (with_disease cf)
      || forallb (fun nc => zmem (fst nc) nodes) init && forallb (fun v => existsb (fun nc => Z.eqb (fst nc) v) init) nodes) = true ->
  init_ok cf n0 nloci nodes edges init.
Proof.
  intros cf n0 nloci nodes edges init H. repeat (apply andb_true_iff in H; destruct H as [H ?]).
  constructor.
  - apply Nat.eqb_eq, H.
  - apply nodupb_NoDup. assumption.
  - assumption.
  - apply Nat.ltb_lt. assumption.
  - intro D. rewrite D in *. cbn [negb orb] in *. match goal with X : _ && _ = true |- _ => apply andb_true_iff in X; destruct X as [X1 X2] end.
    split; [exact X1|]. intros v Hv. rewrite forallb_forall in X2. specialize (X2 v Hv). apply existsb_exists in X2.
    destruct X2 as [[a c] [Hin E]]. cbn in E. apply Z.eqb_eq in E. subst a. eauto.
Qed.

(* ------------------------------------------------------------------ F11 *)
(* the documented sequence combination on the complete graph on four infected nodes, degree 2,
   additions only; one addition (stochastic dynamics: rate 1, first event at time 1/2 = maximum time) *)
Definition k4_nodes : list Z := [0; 1; 2; 3]%Z.
Definition k4_edges : list (Z * Z) := [(0, 1); (0, 2); (0, 3); (1, 2); (1, 3); (2, 3)]%Z.
Definition k4_infected : list (Z * Z) := [(0, 2); (1, 2); (2, 2); (3, 2)]%Z.

Definition f11_run (via_disease : bool) : result adworld :=
  ad_run (cfg_sequence via_disease 2) (procs_sequence 0 0 1 0) 3 k4_nodes k4_edges k4_infected (1 # 2)%Q [0; 1]
         false 4 4 [(1 # 2)%Q; (1 # 2)%Q] [(1 # 2)%Q] [0].

Lemma f11_witness :
  let r := f11_run false in
  let w := world (r_final r) in
  r_stuck r = false /\ r_events r = 1 /\ aw_stuck w = false /\ aw_raised w = false
  /\ map sn_kind (aw_log w) = [KAdd 5 [0; 1]]%Z
  /\ st_nodes (aw_st w) = [0; 1; 2; 3; 5]%Z
  /\ neighbours (aw_st w) 5%Z = [0; 1]%Z
  /\ map (getc (aw_st w)) [0; 1; 5]%Z = [Some 2; Some 2; Some 1]%Z        (* I, I, S *)
  /\ nth 0 (st_loci (aw_st w)) [] = []                                     (* the SI locus as the handlers left it *)
  /\ nth 0 (loci (r_final r)) [] = []                                      (* and as the scheduler sees it *)
  /\ truth (EdgeLocus 1 2) (aw_st w) = [E 5 0; E 5 1]%Z                    (* the susceptible-infected edges *)
  /\ ~ Inv sir_tbl (aw_st w).
Proof.
  cbv zeta. repeat (split; [vm_compute; reflexivity|]).
  intros [_ [_ H]]. destruct (H 0) as [_ H2]; [cbn; lia|]. specialize (H2 (E 5 0)%Z). destruct H2 as [_ H2].
  assert (E1 : nth 0 (st_loci (aw_st (world (r_final (f11_run false))))) [] = []) by (vm_compute; reflexivity).
  assert (E2 : truth (nth 0 sir_tbl default_spec) (aw_st (world (r_final (f11_run false)))) = [E 5 0; E 5 1]%Z) by (vm_compute; reflexivity).
  rewrite E1, E2 in H2. destruct H2. left. reflexivity.
Qed.

(* with the repair of fixes/F11 (the recipe delegates addEdge to the disease) the same run keeps the invariant *)
Lemma f11_repaired :
  let r := f11_run true in
  let w := world (r_final r) in
  r_stuck r = false /\ aw_stuck w = false /\ map sn_kind (aw_log w) = [KAdd 5 [0; 1]]%Z
  /\ nth 0 (st_loci (aw_st w)) [] = [E 5 0; E 5 1]%Z /\ nth 0 (loci (r_final r)) [] = [EE 5 0; EE 5 1]%Z.
Proof. cbv zeta. repeat split; vm_compute; reflexivity. Qed.

(* ------------------------------------------------------------------ non-vacuity: concrete runs *)
(* inheritance combination, synchronous dynamics, path 0-1-2 with node 1 infected, degree 1:
   every timestep adds a node and deletes one *)
Definition ex_inherit_run : result adworld :=
  ad_run (cfg_inherit 1) (procs_inherit 1 (1 # 2) 1 1) 3 [0; 1; 2]%Z [(0, 1); (1, 2)]%Z [(0, 1); (1, 2); (2, 1)]%Z 4%Q
         [0; 1; 0; 2; 1; 0] true 4 6
         [(1 # 4); (3 # 4); (1 # 2); (1 # 2); (1 # 2); (1 # 2); (1 # 2); (1 # 2); (1 # 2); (1 # 2); (1 # 2); (1 # 2); (1 # 2); (1 # 2); (1 # 2); (1 # 2)]%Q
         [] [1; 0; 2; 1; 0; 3; 1; 2].

Lemma ex_inherit_hyps :
  cfg_ok (cfg_inherit 1)
  /\ (forall a, In a (concat (procs_inherit 1 (1 # 2) 1 1)) -> event_ok (cfg_inherit 1) a)
  /\ init_ok (cfg_inherit 1) 3 3 [0; 1; 2]%Z [(0, 1); (1, 2)]%Z [(0, 1); (1, 2); (2, 1)]%Z.
Proof.
  split; [apply cfg_inherit_ok|]. split; [apply events_ok_of; reflexivity | apply init_ok_of; reflexivity].
Qed.

Lemma ex_alone_hyps : forall c pa pd,
  cfg_ok (cfg_alone c)
  /\ (forall a, In a (concat (procs_alone pa pd)) -> event_ok (cfg_alone c) a)
  /\ init_ok (cfg_alone c) 4 1 k4_nodes k4_edges [].
Proof.
  intros. split; [apply cfg_alone_ok|]. split; [apply events_ok_of; reflexivity | apply init_ok_of; reflexivity].
Qed.

Lemma ex_sequence_hyps : forall v c pi pr pa pd,
  cfg_ok (cfg_sequence v c)
  /\ (forall a, In a (concat (procs_sequence pi pr pa pd)) -> event_ok (cfg_sequence v c) a)
  /\ init_ok (cfg_sequence v c) 4 3 k4_nodes k4_edges k4_infected.
Proof.
  intros. split; [apply cfg_sequence_ok|]. split; [apply events_ok_of; reflexivity | apply init_ok_of; reflexivity].
Qed.
