(* C13: the sampling rule of percolate() (Model/NewmanZiff.v, section Loop), for every state type,
   occupation function and sample function. *)
From Coq Require Import List ZArith QArith Bool Arith Lia Sorted.
From EpyV Require Import Lib.Prelude Model.NewmanZiff.
Import ListNotations.
Local Open Scope nat_scope.

(* ------------------------------------------------------------------ the comparison (i+1)/M >= p *)
Lemma reach_iff k M p : reach k M p = true <-> (p <= Z.of_nat k # Pos.of_nat M)%Q.
Proof. unfold reach. apply Qle_bool_iff. Qed.

Lemma frac_mono j k P : j <= k -> (Z.of_nat j # P <= Z.of_nat k # P)%Q.
Proof. intros H. unfold Qle. cbn. apply Z.mul_le_mono_nonneg_r; lia. Qed.

Lemma reach_mono j k M p : j <= k -> reach j M p = true -> reach k M p = true.
Proof. rewrite !reach_iff. intros H Hj. eapply Qle_trans; [exact Hj | apply frac_mono; exact H]. Qed.

Lemma reach_anti k M p q : (p <= q)%Q -> reach k M q = true -> reach k M p = true.
Proof. rewrite !reach_iff. intros H Hq. eapply Qle_trans; eauto. Qed.

Lemma reach_full M p : 1 <= M -> (p <= 1)%Q -> reach M M p = true.
Proof.
  intros HM Hp. rewrite reach_iff. eapply Qle_trans; [exact Hp|]. unfold Qle. cbn.
  rewrite Z.mul_1_r, <- positive_nat_Z, Nat2Pos.id by lia. lia.
Qed.

Lemma reach_zero M p : reach 0 M p = true <-> (p <= 0)%Q.
Proof.
  rewrite reach_iff. unfold Qle. cbn. rewrite Z.mul_1_r. pose proof (Pos2Z.is_pos (Pos.of_nat M)) as HP. split; intros H; nia.
Qed.

Lemma reach_one k M : 1 <= M -> reach k M 1 = true -> M <= k.
Proof.
  intros HM. rewrite reach_iff. unfold Qle. cbn. rewrite Z.mul_1_r, <- positive_nat_Z, Nat2Pos.id by lia. lia.
Qed.

(* the sample for p is due after exactly k occupations: the first k with k/M >= p *)
Definition least_reach (k M : nat) (p : Q) : Prop :=
  k <= M /\ reach k M p = true /\ forall j, j < k -> reach j M p = false.

Lemma least_reach_unique k k' M p : least_reach k M p -> least_reach k' M p -> k = k'.
Proof.
  intros (_ & H1 & H2) (_ & H1' & H2'). destruct (Nat.lt_trichotomy k k') as [L|[E|L]]; [|exact E|].
  - rewrite (H2' _ L) in H1. discriminate.
  - rewrite (H2 _ L) in H1'. discriminate.
Qed.

Lemma least_reach_le k k' M p q : (p <= q)%Q -> least_reach k M p -> least_reach k' M q -> k <= k'.
Proof.
  intros Hpq (_ & H1 & H2) (_ & H1' & H2'). destruct (Nat.le_gt_cases k k') as [L|L]; [exact L|].
  pose proof (H2 _ L) as X. rewrite (reach_anti _ _ _ _ Hpq H1') in X. discriminate.
Qed.

Lemma least_reach_0 k M p : (p == 0)%Q -> least_reach k M p -> k = 0.
Proof.
  intros E H. apply (least_reach_unique _ _ _ _ H). split; [lia|]. split; [|intros j Hj; lia].
  apply reach_zero. rewrite E. apply Qle_refl.
Qed.

Lemma least_reach_1 k M p : 1 <= M -> (p == 1)%Q -> least_reach k M p -> k = M.
Proof.
  intros HM E (H1 & H2 & _). apply Nat.le_antisymm; [exact H1|]. apply reach_one; [exact HM|].
  eapply reach_anti; [|exact H2]. rewrite E. apply Qle_refl.
Qed.

Lemma SSorted_app_r {A} (P : A -> A -> Prop) l1 l2 : StronglySorted P (l1 ++ l2) -> StronglySorted P l2.
Proof. induction l1 as [|x l1 IH]; cbn; intros H; [exact H|]. inversion H; subst. auto. Qed.

(* ------------------------------------------------------------------ the loop *)
Section Loop.
  Context {St El Ob : Type} (occupy : St -> El -> St) (sample : Q -> St -> St * Ob).
  Variable all : list El.                        (* the shuffled element list *)
  Variable R : list El -> St -> Prop.            (* [R pre s]: s is a state in which exactly pre has been occupied *)
  Hypothesis R_occupy : forall pre e post s, all = pre ++ e :: post -> R pre s -> R (pre ++ [e]) (occupy s e).
  Hypothesis R_sample : forall pre p s, R pre s -> R pre (fst (sample p s)).

  Let M := length all.

  (* the sample labelled p was taken in a state in which exactly the first k elements had been
     occupied, k the first number of occupations with k/M >= p *)
  Definition taken (p : Q) (o : Ob) : Prop :=
    exists k s, least_reach k M p /\ R (firstn k all) s /\ o = snd (sample p s).

  Lemma take_spec k pre : forall rest s, R pre s ->
    exists tk rest' s' os, take sample k M rest s = (rest', s', os) /\ rest = tk ++ rest'
      /\ Forall (fun p => reach k M p = true) tk
      /\ (match rest' with [] => True | p :: _ => reach k M p = false end)
      /\ R pre s' /\ Forall2 (fun p o => exists s1, R pre s1 /\ o = snd (sample p s1)) tk os.
  Proof.
    induction rest as [|p rest IH]; intros s Rs.
    - exists [], [], s, []. cbn. repeat split; auto.
    - cbn [take]. destruct (reach k M p) eqn:Ep.
      + destruct (sample p s) as [s1 o] eqn:Es.
        assert (R1 : R pre s1) by (replace s1 with (fst (sample p s)) by (rewrite Es; reflexivity); apply R_sample; exact Rs).
        destruct (IH s1 R1) as (tk & rest' & s' & os & E & Er & Ft & Hd & Rs' & F2). rewrite E.
        exists (p :: tk), rest', s', (o :: os). split; [reflexivity|]. split; [cbn; f_equal; exact Er|].
        split; [constructor; assumption|]. split; [exact Hd|]. split; [exact Rs'|].
        constructor; [|exact F2]. exists s. split; [exact Rs | rewrite Es; reflexivity].
      + exists [], (p :: rest), s, []. cbn. repeat split; auto.
  Qed.

  Hypothesis HM : 1 <= M.

  Lemma loop_spec : forall es pre rest s, all = pre ++ es -> R pre s ->
    StronglySorted Qlt rest -> Forall (fun p => reach (length pre) M p = false) rest -> Forall (fun p => (p <= 1)%Q) rest ->
    exists s' os n, loop occupy sample M (length pre) es rest s = (s', os, n)
      /\ Forall2 taken rest os /\ R (firstn n all) s' /\ n <= M
      /\ (rest = [] -> n = length pre) /\ (forall p, In p rest -> exists k, least_reach k M p /\ k <= n).
  Proof.
    induction es as [|e es IH]; intros pre rest s Ea Rs Srt Nr Le1.
    - assert (Epre : pre = all) by (rewrite Ea, app_nil_r; reflexivity).
      assert (rest = []) as ->.
      { destruct rest as [|p rest]; [reflexivity|]. exfalso. inversion Nr as [|? ? H1 _]; subst. inversion Le1 as [|? ? H2 _]; subst.
        rewrite Epre in H1. fold M in H1. rewrite reach_full in H1 by assumption. discriminate. }
      subst pre. exists s, [], (length all). cbn. split; [reflexivity|]. split; [constructor|].
      split; [rewrite firstn_all; exact Rs|]. split; [unfold M; lia|]. split; [reflexivity | intros p []].
    - destruct rest as [|p0 rest0].
      + exists s, [], (length pre). cbn. split; [reflexivity|]. split; [constructor|].
        split; [|split; [unfold M; rewrite Ea, app_length; lia|split; [reflexivity | intros p []]]].
        rewrite Ea at 1. rewrite firstn_app, Nat.sub_diag, firstn_all, firstn_O, app_nil_r. exact Rs.
      + set (rest := p0 :: rest0) in *. cbn [loop]. fold rest.
        pose proof (R_occupy pre e es s Ea Rs) as R1.
        assert (Ea' : all = (pre ++ [e]) ++ es) by (rewrite <- app_assoc; exact Ea).
        assert (Lp : length (pre ++ [e]) = S (length pre)) by (rewrite app_length; cbn; lia).
        assert (Fn : firstn (S (length pre)) all = pre ++ [e]).
        { rewrite Ea', <- Lp, firstn_app, Nat.sub_diag, firstn_all, firstn_O, app_nil_r. reflexivity. }
        assert (LM : S (length pre) <= M) by (unfold M; rewrite Ea, app_length; cbn; lia).
        destruct (take_spec (S (length pre)) (pre ++ [e]) rest (occupy s e) R1) as (tk & rest1 & s2 & os & E & Er & Ft & Hd & R2 & F2).
        rewrite E.
        assert (Srt1 : StronglySorted Qlt rest1).
        { apply (SSorted_app_r _ tk). rewrite <- Er. exact Srt. }
        assert (Nr1 : Forall (fun p => reach (length (pre ++ [e])) M p = false) rest1).
        { rewrite Lp. destruct rest1 as [|q rest1]; [constructor|]. constructor; [exact Hd|].
          inversion Srt1 as [|? ? _ Hq]; subst. rewrite Forall_forall in Hq |- *. intros q' Iq'.
          destruct (reach (S (length pre)) M q') eqn:Eq'; [|reflexivity].
          rewrite (reach_anti _ _ q q' (Qlt_le_weak _ _ (Hq _ Iq')) Eq') in Hd. discriminate. }
        assert (Le11 : Forall (fun p => (p <= 1)%Q) rest1).
        { rewrite Er in Le1. apply Forall_app in Le1. apply Le1. }
        destruct (IH (pre ++ [e]) rest1 s2 Ea' R2 Srt1 Nr1 Le11) as (s3 & os' & n & E' & F2' & R3 & Ln & Hn0 & Hk).
        rewrite Lp in E'. rewrite E'. exists s3, (os ++ os'), n. split; [reflexivity|].
        assert (Tk : forall p, In p tk -> least_reach (S (length pre)) M p).
        { intros p Ip. split; [exact LM|]. split; [rewrite Forall_forall in Ft; apply Ft; exact Ip|].
          intros j Hj. destruct (reach j M p) eqn:Ej; [|reflexivity].
          assert (In p rest) by (rewrite Er; apply in_app_iff; left; exact Ip).
          rewrite Forall_forall in Nr. pose proof (Nr _ H) as X. rewrite (reach_mono j (length pre) M p ltac:(lia) Ej) in X. discriminate. }
        assert (Hn : S (length pre) <= n).
        { destruct rest1 as [|q r1]; [rewrite (Hn0 eq_refl); lia|].
          destruct (Hk q (or_introl eq_refl)) as (k & (_ & Hk1 & _) & Hk2).
          destruct (Nat.le_gt_cases (S (length pre)) k) as [L|L]; [lia|].
          rewrite (reach_mono k (S (length pre)) M q ltac:(lia) Hk1) in Hd. discriminate. }
        split; [|split; [exact R3|split; [exact Ln|split; [discriminate|]]]].
        * rewrite Er. apply Forall2_app; [|exact F2'].
          clear - F2 Tk Fn. induction F2 as [|p o tk os (s1 & Rs1 & Eo) F2 IHF]; [constructor|].
          constructor; [|apply IHF; intros; apply Tk; right; assumption].
          exists (S (length pre)), s1. split; [apply Tk; left; reflexivity|]. rewrite Fn. auto.
        * intros p Ip. rewrite Er in Ip. apply in_app_iff in Ip. destruct Ip as [Ip|Ip]; [|apply Hk; exact Ip].
          exists (S (length pre)). split; [apply Tk; exact Ip | exact Hn].
  Qed.

  (* percolate(): one sample per requested point, labelled with it (see [taken]), in order *)
  Theorem percolate_spec ps s0 : R [] s0 -> StronglySorted Qlt ps -> Forall (fun p => (0 <= p)%Q /\ (p <= 1)%Q) ps ->
    exists s' os n, percolate occupy sample all ps s0 = (s', os, n)
      /\ Forall2 taken ps os /\ R (firstn n all) s' /\ n <= M
      /\ (forall p, In p ps -> exists k, least_reach k M p /\ k <= n).
  Proof.
    intros R0 Srt Rng. unfold percolate. fold M.
    assert (Le1 : forall l, Forall (fun p => (0 <= p)%Q /\ (p <= 1)%Q) l -> Forall (fun p => (p <= 1)%Q) l).
    { intros l H. eapply Forall_impl; [|exact H]. cbn. tauto. }
    assert (Pos : forall l, Forall (fun p => (0 < p)%Q) l -> Forall (fun p => reach (@length El []) M p = false) l).
    { intros l H. eapply Forall_impl; [|exact H]. cbn. intros p Hp. destruct (reach 0 M p) eqn:E; [|reflexivity].
      apply reach_zero in E. exfalso. apply (Qlt_not_le _ _ Hp E). }
    destruct ps as [|p ps].
    - destruct (loop_spec all [] [] s0 eq_refl R0 Srt (Forall_nil _) (Forall_nil _)) as (s' & os & n & E & F & Rn & Ln & _ & Hk).
      cbn [length] in E. rewrite E. exists s', os, n. auto.
    - inversion Srt as [|? ? Srt' Hlt]; subst. inversion Rng as [|? ? [Hp0 Hp1] Rng']; subst.
      destruct (Qeq_bool p 0) eqn:E0.
      + apply Qeq_bool_iff in E0. destruct (sample p s0) as [s1 o] eqn:Es.
        assert (R1 : R [] s1) by (replace s1 with (fst (sample p s0)) by (rewrite Es; reflexivity); apply R_sample; exact R0).
        assert (P' : Forall (fun q => (0 < q)%Q) ps).
        { eapply Forall_impl; [|exact Hlt]. cbn. intros q Hq. rewrite <- E0. exact Hq. }
        destruct (loop_spec all [] ps s1 eq_refl R1 Srt' (Pos _ P') (Le1 _ Rng')) as (s' & os & n & E & F & Rn & Ln & _ & Hk).
        cbn [length] in E. rewrite E. exists s', (o :: os), n. split; [reflexivity|].
        assert (L0 : least_reach 0 M p).
        { split; [lia|]. split; [apply reach_zero; rewrite E0; apply Qle_refl | intros j Hj; lia]. }
        split; [|split; [exact Rn|split; [exact Ln|]]].
        * constructor; [|exact F]. exists 0, s0. split; [exact L0|]. split; [exact R0 | rewrite Es; reflexivity].
        * intros q [<-|Iq]; [exists 0; split; [exact L0 | lia] | apply Hk; exact Iq].
      + assert (Hp : (0 < p)%Q).
        { apply Qle_lteq in Hp0. destruct Hp0 as [H|H]; [exact H|]. symmetry in H. apply Qeq_bool_iff in H. congruence. }
        assert (P' : Forall (fun q => (0 < q)%Q) (p :: ps)).
        { constructor; [exact Hp|]. eapply Forall_impl; [|exact Hlt]. cbn. intros q Hq. eapply Qlt_trans; eauto. }
        destruct (loop_spec all [] (p :: ps) s0 eq_refl R0 Srt (Pos _ P') (Le1 _ Rng)) as (s' & os & n & E & F & Rn & Ln & _ & Hk).
        cbn [length] in E. rewrite E. exists s', os, n. auto.
  Qed.
End Loop.

(* ------------------------------------------------------------------ the series never decreases *)
Section Mono.
  Context {St El Ob : Type} (occupy : St -> El -> St) (sample : Q -> St -> St * Ob) (f : St -> Z) (g : Ob -> Z).
  Hypothesis f_occupy : forall s e, (f s <= f (occupy s e))%Z.
  Hypothesis f_sample : forall p s, f (fst (sample p s)) = f s.
  Hypothesis g_sample : forall p s, g (snd (sample p s)) = f s.

  Lemma take_mono k M : forall rest s rest' s' os, take sample k M rest s = (rest', s', os) ->
    f s' = f s /\ Forall (fun o => g o = f s) os.
  Proof.
    induction rest as [|p rest IH]; intros s rest' s' os E; cbn [take] in E.
    - injection E as <- <- <-. auto.
    - destruct (reach k M p).
      + pose proof (f_sample p s) as Fs. pose proof (g_sample p s) as Gs.
        destruct (sample p s) as [s1 o]. cbn [fst snd] in Fs, Gs.
        destruct (take sample k M rest s1) as [[r2 s2] os2] eqn:E2. injection E as <- <- <-.
        destruct (IH _ _ _ _ E2) as [H1 H2]. split; [congruence|]. constructor; [exact Gs|].
        eapply Forall_impl; [|exact H2]. cbn. intros o' Ho. congruence.
      + injection E as <- <- <-. auto.
  Qed.

  Lemma sorted_const_app (c : Z) l1 l2 : Forall (fun x => x = c) l1 -> Forall (fun x => (c <= x)%Z) l2 ->
    StronglySorted Z.le l2 -> StronglySorted Z.le (l1 ++ l2).
  Proof.
    intros H1 H2 S2. induction l1 as [|x l1 IH]; [exact S2|]. inversion H1 as [|? ? Ex H1']; subst. cbn.
    constructor; [apply IH; exact H1'|]. apply Forall_app. split; [|exact H2].
    eapply Forall_impl; [|exact H1']. cbn. intros y ->. lia.
  Qed.

  Lemma loop_mono M : forall es i rest s s' os n, loop occupy sample M i es rest s = (s', os, n) ->
    Forall (fun o => (f s <= g o)%Z) os /\ StronglySorted Z.le (map g os).
  Proof.
    induction es as [|e es IH]; intros i rest s s' os n E; cbn [loop] in E.
    - injection E as <- <- <-. split; constructor.
    - destruct rest as [|p0 rest0]; [injection E as <- <- <-; split; constructor|].
      destruct (take sample (S i) M (p0 :: rest0) (occupy s e)) as [[rest1 s2] os1] eqn:E1.
      destruct (loop occupy sample M (S i) es rest1 s2) as [[s3 os2] n2] eqn:E2. injection E as <- <- <-.
      destruct (take_mono _ _ _ _ _ _ _ E1) as [F1 G1]. destruct (IH _ _ _ _ _ _ E2) as [F2 S2].
      pose proof (f_occupy s e) as Fo. split.
      + apply Forall_app. split.
        * eapply Forall_impl; [|exact G1]. cbn. intros o Ho. lia.
        * eapply Forall_impl; [|exact F2]. cbn. intros o Ho. lia.
      + rewrite map_app. apply (sorted_const_app (f (occupy s e))).
        * clear - G1. induction G1; cbn; constructor; auto.
        * clear - F2 F1. rewrite <- F1. induction F2; cbn; constructor; auto.
        * exact S2.
  Qed.

  Theorem percolate_mono es ps s0 s' os n : percolate occupy sample es ps s0 = (s', os, n) ->
    StronglySorted Z.le (map g os).
  Proof.
    unfold percolate. intros E. destruct ps as [|p ps]; [apply (loop_mono _ _ _ _ _ _ _ _ E)|].
    destruct (Qeq_bool p 0); [|apply (loop_mono _ _ _ _ _ _ _ _ E)].
    pose proof (f_sample p s0) as Fs. pose proof (g_sample p s0) as Gs.
    destruct (sample p s0) as [s1 o]. cbn [fst snd] in Fs, Gs.
    destruct (loop occupy sample (length es) 0 es ps s1) as [[s2 os2] n2] eqn:E2. injection E as <- <- <-.
    destruct (loop_mono _ _ _ _ _ _ _ _ E2) as [F2 S2]. cbn [map]. constructor; [exact S2|].
    clear - F2 Fs Gs. rewrite Gs, <- Fs. induction F2; cbn; constructor; auto.
  Qed.
End Mono.
