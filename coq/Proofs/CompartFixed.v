(* C07, fixed recovery: the queue invariant that ties the posted removals to the compartments.
   For tables in which no stochastic event moves a node out of a compartment from which a posted
   event function takes it ([fixed_ok]: trivially true when nothing is posted), along every run:
     FQ  a pending posted node event function HNode c' for node n  =>  n is in a compartment c
         with c -> c' a posted arrow of the diagram (it is one-shot);
     FU  no two pending posted node event functions are for the same node.
   Hence a posted event function, when it fires, moves its node along an arrow of the diagram
   (C07_diagram for posted events), and a node in such a compartment (I of the fixed-recovery
   variants) is moved by nothing but its own posted removal. *)
From Coq Require Import List ZArith QArith Bool Arith Lia Lqa.
From EpyV Require Import Lib.Prelude Model.Kernel Model.Loci Model.Compart
  Proofs.KernelBase Proofs.KernelMember Proofs.KernelQueue Proofs.KernelFire
  Proofs.LociBase Proofs.LociLocus Proofs.LociInv
  Proofs.CompartRun Proofs.CompartSort Proofs.CompartInv Proofs.CompartDiagram Proofs.ContactBase.
Import ListNotations.
Close Scope Q_scope.

(* ------------------------------------------------------------------ kernel: well-formed queue along calls *)
Section KF.
Context {W : Type}.
Variable tb : table W.
Implicit Types s : st W.

Lemma wf_call c s : wf s -> call_ok tb c s -> wf (after tb c s).
Proof.
  intros Hw Hok. destruct c as [x t e|h]; cbn [after].
  - destruct Hok as (_ & _ & Hc). pose proof (fire_event_kmove tb x t e s Hc) as H. unfold core_of in H.
    exact (wfk_kmove _ _ _ _ _ _ _ _ _ H Hw).
  - destruct Hok as [Hh Hl]. pose proof (pend_step_kmove tb h s Hh Hl) as H. unfold core_of in H.
    exact (wfk_kmove _ _ _ _ _ _ _ _ _ H Hw).
Qed.

Lemma wf_setup rs ls ds : wf (setup_state tb rs ls ds).
Proof.
  pose proof (wfk_kmoves _ _ _ (setup_kmoves tb rs ls ds)) as H. cbn [fst snd] in H. apply H.
  split; [constructor | constructor].
Qed.

Definition quiet (a : action) : Prop := match a with ALAdd _ _ | ALDiscard _ _ | AObserve => True | _ => False end.

Lemma run_quiet p t e acts s : Forall quiet acts ->
  let s' := run_actions p t e acts s in clock s' = clock s /\ nextid s' = nextid s /\ queue s' = queue s.
Proof.
  unfold run_actions. revert s. induction acts as [|a acts IH]; intros s H; cbn [fold_left]; [repeat split|].
  inversion H as [|? ? Ha H']; subst. destruct (IH (do_action p t e a s) H') as (I1 & I2 & I3).
  rewrite I1, I2, I3. destruct a; cbn in Ha; try contradiction; repeat split.
Qed.

(* ---- an id that has fired is gone for good (C04), in terms of Steps *)
Lemma gone_sched i s s' : sched s s' -> gone_st i s -> gone_st i s'.
Proof. intros (_ & _ & En & Hi & _) G. unfold gone_st in *. rewrite En. eapply gone_incl; eassumption. Qed.

Lemma gone_call i c s : call_ok tb c s -> gone_st i s -> gone_st i (after tb c s) /\ (forall h, c = CPost h -> e_id h <> i).
Proof.
  intros Hok G. destruct c as [x t e|h]; cbn [after].
  - destruct Hok as (_ & _ & Hc). pose proof (fire_event_kmove tb x t e s Hc) as H. unfold core_of in H.
    split; [exact (proj1 (gone_kmove i _ _ _ _ _ _ _ _ _ H G)) | discriminate].
  - destruct Hok as [Hh Hl]. pose proof (pend_step_kmove tb h s Hh Hl) as H. unfold core_of in H.
    destruct (gone_kmove i _ _ _ _ _ _ _ _ _ H G) as [A B]. split; [exact A|].
    intros h' E. inversion E; subst h'. intros E'. apply B. left. exact E'.
Qed.

Lemma fired_is_gone h s : wf s -> call_ok tb (CPost h) s -> gone_st (e_id h) (after tb (CPost h) s).
Proof.
  intros [Hnd Hlt] [Hh _]. cbn [after]. destruct (pend_step_shape tb h s) as (n2 & q2 & o2 & U & E).
  pose proof (gone_umoves (e_id h) _ _ U) as G. cbn [fst snd] in G.
  unfold core_of in E.
  pose proof (f_equal (fun k : core => snd (fst (fst k))) E) as E2. pose proof (f_equal (fun k : core => snd (fst k)) E) as E3.
  cbn [fst snd] in E2, E3. unfold gone_st. rewrite E2, E3. apply G. split.
  - rewrite Forall_forall in Hlt. apply Hlt, head_in, Hh.
  - apply find_live_none. intros x Hx Ex. exfalso. apply (remove_id_gone (e_id h) (queue s) Hnd). apply in_map_iff. exists x. split; [exact Ex | exact Hx].
Qed.

Lemma Steps_gone i sA cs s : Steps tb sA cs s -> gone_st i sA ->
  gone_st i s /\ forall s1 h, In (s1, CPost h) cs -> e_id h <> i.
Proof.
  intros H G. induction H as [|cs s s' H IH Hs|cs s c H IH Hok].
  - split; [exact G | intros ? ? []].
  - destruct IH as [A B]. split; [eapply gone_sched; eassumption | exact B].
  - destruct IH as [A B]. destruct (gone_call i c s Hok A) as [A' B']. split; [exact A'|].
    intros s1 h Hin. apply in_app_or in Hin. destruct Hin as [Hin|[E|[]]]; [exact (B s1 h Hin)|]. inversion E; subst. apply B'. reflexivity.
Qed.

Lemma wf_steps sA cs s : Steps tb sA cs s -> wf sA -> wf s /\ Forall (fun sc => wf (fst sc)) cs.
Proof.
  intros H Hw.
  exact (Steps_inv tb (@wf W) (fun s1 s2 H1 Hs => proj1 (proj2 (proj2 (proj2 (proj2 (proj2 Hs))))) H1)
           (fun s1 c H1 Hok => wf_call c s1 H1 Hok) sA cs s Hw H).
Qed.

(* no posted entry fires twice *)
Theorem posted_at_most_once s0 cs s cs1 s1 h cs2 : Steps tb s0 cs s -> wf s0 -> cs = cs1 ++ (s1, CPost h) :: cs2 ->
  forall s2 h2, In (s2, CPost h2) cs2 -> e_id h2 <> e_id h.
Proof.
  intros H Hw E. destruct (Steps_split tb s0 cs s H cs1 (s1, CPost h) cs2 E) as (A & B & C). cbn [fst snd] in A, B, C.
  pose proof (proj1 (wf_steps s0 cs1 s1 A Hw)) as Hw1.
  exact (proj2 (Steps_gone (e_id h) _ cs2 s C (fired_is_gone h s1 Hw1 B))).
Qed.
End KF.

(* the posting an event function with summary h makes when called on e *)
Definition posting (h : hkind) (e : Kernel.elem) : option (Z * Q * nat) :=
  match h, e with
  | HLeft _ _ (Some (T, k)), EE n m => Some (n, T, k)
  | _, _ => None
  end.

Lemma handler_quiet tbl off h t e kl w : posting h e = None -> Forall quiet (snd (handler tbl off h t e kl w)).
Proof.
  intros Hp.
  assert (S : forall l, Forall quiet (sync_actions off kl l)).
  { intros l. unfold sync_actions. eapply Forall_impl; [|apply sync_from_loci_only].
    intros a Ha. destruct a; cbn in Ha; try contradiction; exact I. }
  destruct h as [c|c mark post| |], e as [n|n m]; cbn [handler snd]; try (constructor; fail); try apply S.
  - destruct post as [[T k]|]; [discriminate|]. rewrite app_nil_r. apply S.
  - constructor; [exact I | constructor].
  - constructor; [exact I | constructor].
Qed.

Lemma getc_some_noraise s n c : In n (st_nodes s) -> getc s n = Some c -> getc_raises s n = false.
Proof.
  intros Hn Hc. unfold getc_raises. apply orb_false_iff. split; [apply negb_false_iff, has_node_In, Hn|].
  unfold getc in Hc. destruct (st_attr s n); [reflexivity | discriminate].
Qed.

(* no stochastic event moves a node out of a compartment that is the source of a posted arrow *)
Definition fixed_ok (cm : cmodel) : bool :=
  forallb (fun ev => forallb (fun a => negb (zmem (fst a) (map fst (posted_arrows cm)))) (event_arrow cm ev)) (cm_events cm).

Lemma fixed_ok_source cm cev l c : fixed_ok cm = true -> In cev (cm_events cm) -> In (l, c) (event_arrow cm cev) ->
  forall c', ~ In (l, c') (posted_arrows cm).
Proof.
  unfold fixed_ok. intros H Hin Ha c' Hp. rewrite forallb_forall in H. specialize (H cev Hin). rewrite forallb_forall in H.
  specialize (H _ Ha). cbn [fst] in H. apply negb_true_iff, zmem_false in H. apply H. apply in_map_iff. exists (l, c'). split; [reflexivity | exact Hp].
Qed.

Section CFx.
Variable cm : cmodel.
Variables (nodes : list Z) (edges : list (Z * Z)) (init : list (Z * Z)) (maxtime : Q) (monitor : option Q).
Let tb := mk_table cm nodes edges init maxtime monitor.
Let JJ := J cm nodes edges.

Definition pnode (k : nat) (c' : Z) : Prop := nth_error (cm_kinds cm) k = Some (HNode c').

Definition FQ (s : st cworld) : Prop :=
  forall x c', In x (queue s) -> pnode (e_prog x) c' ->
  e_rep x = None /\ exists n c, e_elem x = EN n /\ getc (cw_st (world s)) n = Some c /\ In (c, c') (posted_arrows cm).

Definition FU (s : st cworld) : Prop :=
  forall x y cx cy, In x (queue s) -> In y (queue s) -> pnode (e_prog x) cx -> pnode (e_prog y) cy ->
  e_elem x = e_elem y -> x = y.

Definition G (s : st cworld) : Prop := JJ s /\ QE s /\ wf s /\ FQ s /\ FU s.

(* ------------------------------------------------------------------ what a stochastic call moves *)
Lemma call_moves (s : st cworld) x t e : wf_model cm = true -> JJ s -> call_ok tb (CEv x t e) s ->
  exists j cev, x = (mpi monitor, j, mk_ev j cev) /\ nth_error (cm_events cm) j = Some cev /\ In cev (cm_events cm)
    /\ world (after tb (CEv x t e) s) = fst (handler (cm_specs cm) 0 (ce_kind cev) t e (loci s) (world s))
    /\ forall n c, moved (ce_kind cev) e = Some (n, c) ->
         let l := locus_left (nth (ce_locus cev) (cm_specs cm) default_spec) in
         getc (cw_st (world s)) n = Some l /\ getc_raises (cw_st (world s)) n = false /\ In (l, c) (event_arrow cm cev).
Proof.
  intros Hwf Hj Hok.
  destruct (event_call cm nodes edges init maxtime monitor s x t e Hwf Hj Hok) as (j & cev & le & Ex & En & Hin & He & Ht & _ & Hw).
  exists j, cev. split; [exact Ex|]. split; [exact En|]. split; [exact Hin|]. split; [exact Hw|].
  intros n c M. cbv zeta.
  assert (Hnodes : st_nodes (cw_st (world s)) = nodes) by (destruct Hj as (_ & _ & H & _); exact H).
  assert (Hgok : forall a b, adj (cw_st (world s)) a b -> In a (st_nodes (cw_st (world s)))).
  { destruct Hj as (_ & [[G1 _] _] & _). intros a b Ha. apply adjb_spec in Ha. destruct Ha as [Ha|Ha]; apply G1 in Ha; tauto. }
  unfold event_arrow. destruct (ce_kind cev) as [c1|c1 mark post| |] eqn:Ek; destruct e as [n1|n1 m1]; cbn in M; try discriminate;
    inversion M; subst n1 c1.
  - destruct le as [u|u w]; cbn in He; inversion He; subst u. destruct (truthP_node_facts _ _ n Ht) as [A B].
    split; [exact B|]. split; [exact (getc_some_noraise _ _ _ A B) | left; reflexivity].
  - destruct le as [u|u w]; cbn in He; inversion He; subst u w. destruct (truthP_edge_facts _ _ n m1 Ht) as (A & B & _).
    split; [exact B|]. split; [exact (getc_some_noraise _ _ _ (Hgok _ _ A) B) | left; reflexivity].
Qed.

(* ------------------------------------------------------------------ the queue after a call *)
Lemma prog_quiet k t e kl w : (forall h, nth_error (cm_kinds cm) k = Some h -> posting h e = None) ->
  Forall quiet (snd (prog_of tb k t e kl w)).
Proof.
  intros H. unfold tb. rewrite prog_of_kind. destruct (nth_error (cm_kinds cm) k) as [h|]; [|constructor].
  apply handler_quiet, H. reflexivity.
Qed.

Lemma run_prog_quiet p k t e (s : st cworld) : (forall h, nth_error (cm_kinds cm) k = Some h -> posting h e = None) ->
  clock (run_prog tb p k t e s) = clock s /\ nextid (run_prog tb p k t e s) = nextid s /\ queue (run_prog tb p k t e s) = queue s.
Proof.
  intros H. unfold run_prog. pose proof (prog_quiet k t e (loci s) (world s) H) as Q.
  destruct (prog_of tb k t e (loci s) (world s)) as [w acts]. cbn [snd] in Q.
  exact (run_quiet p t e acts (set_world w s) Q).
Qed.

Lemma event_queue_quiet (s : st cworld) j cev t e : nth_error (cm_events cm) j = Some cev -> posting (ce_kind cev) e = None ->
  queue (after tb (CEv (mpi monitor, j, mk_ev j cev) t e) s) = queue s.
Proof.
  intros En Hp. cbn [after]. unfold fire_event. cbn [queue emit snd mk_ev ev_prog].
  refine (proj2 (proj2 (run_prog_quiet _ j t e _ _))). intros h Hh. rewrite (event_kind cm j cev En) in Hh. inversion Hh; subst. exact Hp.
Qed.

(* a posted event function: the popped entry leaves the queue; only a repeating entry re-posts itself *)
Lemma posted_queue (s : st cworld) h : QE s -> call_ok tb (CPost h) s ->
  exists extra, queue (after tb (CPost h) s) = extra ++ remove_id (e_id h) (queue s)
    /\ (forall y, In y extra -> e_prog y = e_prog h /\ e_rep y <> None) /\ (e_rep h = None -> extra = []).
Proof.
  intros Hq [Hh _]. destruct (Hq h (head_in _ _ Hh)) as [n En].
  cbn [after]. unfold pend_step, fire. cbn [queue emit].
  set (s1 := emit _ (set_clock _ (set_queue _ s))).
  assert (Hp : forall k, nth_error (cm_kinds cm) (e_prog h) = Some k -> posting k (e_elem h) = None).
  { intros k _. rewrite En. destruct k as [c|c mark [[T kk]|]| |]; reflexivity. }
  destruct (run_prog_quiet (e_proc h) (e_prog h) (e_time h) (e_elem h) s1 Hp) as (R1 & R2 & R3).
  change (queue s1) with (remove_id (e_id h) (queue s)) in R3.
  destruct (e_rep h) as [ddt|] eqn:Er.
  - unfold post. destruct (Qltb _ _); cbn [queue emit].
    + exists []. split; [exact R3|]. split; [intros y [] | discriminate].
    + eexists [_]. split; [cbn [app]; rewrite R3; reflexivity|]. split; [|discriminate].
      intros y [<-|[]]. cbn [e_prog e_rep]. split; [reflexivity | discriminate].
  - exists []. split; [exact R3|]. split; [intros y [] | reflexivity].
Qed.

(* ------------------------------------------------------------------ preservation *)
Lemma G_sched s s' : G s -> sched s s' -> G s'.
Proof.
  intros (Hj & Hq & Hw & Hfq & Hfu) Hs. pose proof Hs as (_ & Ew & _ & Hi & _ & Hwf & _).
  split; [eapply J_sched; eassumption|]. split; [eapply QE_sched; eassumption|]. split; [exact (Hwf Hw)|]. split.
  - intros x c' Hx Hp. rewrite Ew. apply Hfq; [apply Hi, Hx | exact Hp].
  - intros x y cx cy Hx Hy. apply Hfu; apply Hi; assumption.
Qed.

Lemma G_call s c : wf_model cm = true -> fixed_ok cm = true -> G s -> call_ok tb c s -> G (after tb c s).
Proof.
  intros Hwf Hfx (Hj & Hq & Hw & Hfq & Hfu) Hok.
  split; [apply J_call; [apply wf_model_loci, Hwf | exact Hj]|]. split; [apply QE_call; assumption|].
  split; [apply wf_call; assumption|].
  destruct c as [x t e|h].
  - (* a stochastic / per-element event *)
    destruct (call_moves s x t e Hwf Hj Hok) as (j & cev & -> & En & Hin & Ew & Hmv).
    unfold FQ, FU. rewrite Ew. clear Ew.
    (* entries for the moved node cannot exist *)
    assert (NoEntry : forall n c, moved (ce_kind cev) e = Some (n, c) ->
              forall y cy, In y (queue s) -> pnode (e_prog y) cy -> e_elem y <> EN n).
    { intros n c M y cy Hy Hp Ey. destruct (Hmv n c M) as (Hl & _ & Ha). cbv zeta in Hl, Ha.
      destruct (Hfq y cy Hy Hp) as (_ & n' & c'' & Ey' & Hg & Hpa). rewrite Ey in Ey'. inversion Ey'; subst n'.
      rewrite Hl in Hg. inversion Hg; subst c''. exact (fixed_ok_source cm cev _ c Hfx Hin Ha cy Hpa). }
    (* the compartments of the other nodes *)
    assert (Same : forall v, (forall n c, moved (ce_kind cev) e = Some (n, c) -> v <> n) ->
              getc (cw_st (fst (handler (cm_specs cm) 0 (ce_kind cev) t e (loci s) (world s)))) v = getc (cw_st (world s)) v).
    { intros v Hv. rewrite handler_st. destruct (moved (ce_kind cev) e) as [[n c]|] eqn:M; [|reflexivity].
      rewrite cc_getc. destruct (getc_raises (cw_st (world s)) n); [reflexivity|].
      destruct (Z.eqb_spec v n) as [->|_]; [exfalso; exact (Hv n c eq_refl eq_refl) | reflexivity]. }
    assert (OldFQ : forall y cy, In y (queue s) -> pnode (e_prog y) cy ->
              e_rep y = None /\ exists n c, e_elem y = EN n
                /\ getc (cw_st (fst (handler (cm_specs cm) 0 (ce_kind cev) t e (loci s) (world s)))) n = Some c /\ In (c, cy) (posted_arrows cm)).
    { intros y cy Hy Hp. destruct (Hfq y cy Hy Hp) as (Hr & n' & c'' & Ey & Hg & Hpa). split; [exact Hr|].
      exists n', c''. split; [exact Ey|]. split; [|exact Hpa]. rewrite Same; [exact Hg|].
      intros n c M ->. exact (NoEntry n c M y cy Hy Hp Ey). }
    destruct (posting (ce_kind cev) e) as [[[n T] k]|] eqn:Ep.
    + (* infection with a posted removal *)
      destruct (ce_kind cev) as [c1|c1 mark [[T1 k1]|]| |] eqn:Ek; destruct e as [n1|n1 m1]; cbn in Ep; try discriminate.
      inversion Ep; subst n1 T1 k1.
      destruct (fixed_recovery_posts cm nodes edges init maxtime monitor s _ t (EE n m1) Hwf Hj Hok j cev c1 mark T k n m1 eq_refl En Ek eq_refl)
        as (_ & _ & Eq & _).
      cbv zeta in Eq. fold tb in Eq. rewrite Eq.
      destruct (Hmv n c1 eq_refl) as (Hl & Hr & Ha). cbv zeta in Hl, Ha.
      assert (Gn : getc (cw_st (fst (handler (cm_specs cm) 0 (HLeft c1 mark (Some (T, k))) t (EE n m1) (loci s) (world s)))) n = Some c1).
      { rewrite handler_st. cbn [moved]. rewrite cc_getc, Hr, Z.eqb_refl. reflexivity. }
      split.
      * intros y cy [<-|Hy] Hp; [|exact (OldFQ y cy Hy Hp)]. cbn [e_prog e_rep e_elem] in *. split; [reflexivity|].
        exists n, c1. split; [reflexivity|]. split; [exact Gn|].
        unfold posted_arrows. apply in_app_iff. left. apply in_flat_map. exists cev. split; [exact Hin|].
        rewrite Ek. unfold post_arrow. unfold pnode in Hp. rewrite Hp. left. reflexivity.
      * intros y z cy cz [<-|Hy] [<-|Hz] Py Pz Eyz; [reflexivity | | | exact (Hfu y z cy cz Hy Hz Py Pz Eyz)].
        -- exfalso. cbn [e_elem] in Eyz. exact (NoEntry n c1 eq_refl z cz Hz Pz (eq_sym Eyz)).
        -- exfalso. cbn [e_elem] in Eyz. exact (NoEntry n c1 eq_refl y cy Hy Py Eyz).
    + rewrite (event_queue_quiet s j cev t e En Ep). split; [exact OldFQ | exact Hfu].
  - (* a posted event function *)
    destruct (posted_queue s h Hq Hok) as (extra & Eq & Hex & Hnone). fold tb in Eq. unfold FQ, FU. rewrite Eq.
    unfold tb. rewrite after_world. unfold call_kind. cbn [call_args fst snd].
    destruct Hok as [Hh _]. pose proof (head_in _ _ Hh) as Hhin. destruct (Hq h Hhin) as [n En].
    assert (Gone : forall y, In y (remove_id (e_id h) (queue s)) -> In y (queue s) /\ e_id y <> e_id h).
    { intros y Hy. split; [eapply remove_id_incl; exact Hy|]. intros E. apply (remove_id_gone (e_id h) (queue s) (proj1 Hw)).
      apply in_map_iff. exists y. split; [exact E | exact Hy]. }
    destruct (nth_error (cm_kinds cm) (e_prog h)) as [k|] eqn:Ek.
    + destruct k as [c'|c1 mark post| |].
      * (* the posted removal itself *)
        destruct (Hfq h c' Hhin Ek) as (Hr & n' & c0 & En' & Hg & Hpa). rewrite En in En'. inversion En'; subst n'.
        rewrite (Hnone Hr). cbn [app]. rewrite En. split.
        -- intros y cy Hy Hp. destruct (Gone y Hy) as [Hy' Hid]. destruct (Hfq y cy Hy' Hp) as (Hr' & ny & c2 & Ey & Hg' & Hpa').
           split; [exact Hr'|]. exists ny, c2. split; [exact Ey|]. split; [|exact Hpa'].
           rewrite handler_st. cbn [moved]. rewrite cc_getc. destruct (getc_raises (cw_st (world s)) n); [exact Hg'|].
           destruct (Z.eqb_spec ny n) as [->|_]; [|exact Hg']. exfalso. apply Hid. f_equal.
           apply (Hfu y h cy c' Hy' Hhin Hp Ek). rewrite Ey, En. reflexivity.
        -- intros y z cy cz Hy Hz. apply Hfu; [exact (proj1 (Gone y Hy)) | exact (proj1 (Gone z Hz))].
      * (* other programs never move a node when posted (their element is a node) *)
        rewrite En. assert (Ew : fst (handler (cm_specs cm) 0 (HLeft c1 mark post) (e_time h) (EN n) (loci s) (world s)) = world s) by reflexivity.
        rewrite Ew. split.
        -- intros y cy Hy Hp. apply in_app_or in Hy. destruct Hy as [Hy|Hy].
           ++ exfalso. destruct (Hex y Hy) as [E1 _]. unfold pnode in Hp. rewrite E1, Ek in Hp. discriminate.
           ++ apply Hfq; [exact (proj1 (Gone y Hy)) | exact Hp].
        -- intros y z cy cz Hy Hz Py Pz. apply in_app_or in Hy. apply in_app_or in Hz.
           destruct Hy as [Hy|Hy]; [exfalso; destruct (Hex y Hy) as [E1 _]; unfold pnode in Py; rewrite E1, Ek in Py; discriminate|].
           destruct Hz as [Hz|Hz]; [exfalso; destruct (Hex z Hz) as [E1 _]; unfold pnode in Pz; rewrite E1, Ek in Pz; discriminate|].
           apply (Hfu y z cy cz); [exact (proj1 (Gone y Hy)) | exact (proj1 (Gone z Hz)) | exact Py | exact Pz].
      * assert (Ew : fst (handler (cm_specs cm) 0 HNop (e_time h) (e_elem h) (loci s) (world s)) = world s) by (destruct (e_elem h); reflexivity).
        rewrite Ew. split.
        -- intros y cy Hy Hp. apply in_app_or in Hy. destruct Hy as [Hy|Hy].
           ++ exfalso. destruct (Hex y Hy) as [E1 _]. unfold pnode in Hp. rewrite E1, Ek in Hp. discriminate.
           ++ apply Hfq; [exact (proj1 (Gone y Hy)) | exact Hp].
        -- intros y z cy cz Hy Hz Py Pz. apply in_app_or in Hy. apply in_app_or in Hz.
           destruct Hy as [Hy|Hy]; [exfalso; destruct (Hex y Hy) as [E1 _]; unfold pnode in Py; rewrite E1, Ek in Py; discriminate|].
           destruct Hz as [Hz|Hz]; [exfalso; destruct (Hex z Hz) as [E1 _]; unfold pnode in Pz; rewrite E1, Ek in Pz; discriminate|].
           apply (Hfu y z cy cz); [exact (proj1 (Gone y Hy)) | exact (proj1 (Gone z Hz)) | exact Py | exact Pz].
      * assert (Ew : fst (handler (cm_specs cm) 0 HObs (e_time h) (e_elem h) (loci s) (world s)) = world s) by (destruct (e_elem h); reflexivity).
        rewrite Ew. split.
        -- intros y cy Hy Hp. apply in_app_or in Hy. destruct Hy as [Hy|Hy].
           ++ exfalso. destruct (Hex y Hy) as [E1 _]. unfold pnode in Hp. rewrite E1, Ek in Hp. discriminate.
           ++ apply Hfq; [exact (proj1 (Gone y Hy)) | exact Hp].
        -- intros y z cy cz Hy Hz Py Pz. apply in_app_or in Hy. apply in_app_or in Hz.
           destruct Hy as [Hy|Hy]; [exfalso; destruct (Hex y Hy) as [E1 _]; unfold pnode in Py; rewrite E1, Ek in Py; discriminate|].
           destruct Hz as [Hz|Hz]; [exfalso; destruct (Hex z Hz) as [E1 _]; unfold pnode in Pz; rewrite E1, Ek in Pz; discriminate|].
           apply (Hfu y z cy cz); [exact (proj1 (Gone y Hy)) | exact (proj1 (Gone z Hz)) | exact Py | exact Pz].
    + split.
      * intros y cy Hy Hp. apply in_app_or in Hy. destruct Hy as [Hy|Hy].
        -- exfalso. destruct (Hex y Hy) as [E1 _]. unfold pnode in Hp. rewrite E1, Ek in Hp. discriminate.
        -- apply Hfq; [exact (proj1 (Gone y Hy)) | exact Hp].
      * intros y z cy cz Hy Hz Py Pz. apply in_app_or in Hy. apply in_app_or in Hz.
        destruct Hy as [Hy|Hy]; [exfalso; destruct (Hex y Hy) as [E1 _]; unfold pnode in Py; rewrite E1, Ek in Py; discriminate|].
        destruct Hz as [Hz|Hz]; [exfalso; destruct (Hex z Hz) as [E1 _]; unfold pnode in Pz; rewrite E1, Ek in Pz; discriminate|].
        apply (Hfu y z cy cz); [exact (proj1 (Gone y Hy)) | exact (proj1 (Gone z Hz)) | exact Py | exact Pz].
Qed.

(* ------------------------------------------------------------------ set-up *)
Definition seed_actions : list action :=
  match cm_seed_post cm with
  | Some (c, T, k) => map (fun n => APostOn (EN n) T k) (nodes_in (Loci.setup (cm_specs cm) nodes edges init) c)
  | None => []
  end.

Lemma setup_state_mk rs ls ds :
  setup_state tb rs ls ds =
  let s0 := {| clock := 0%Q; nextid := 0; queue := []; loci := init_loci tb; world := t_world tb; ids := []; out := [];
               rands := rs; lns := ls; draws := ds; stuck := false |} in
  match monitor with
  | Some delta => run_actions 1 0%Q (EN 0) seed_actions
                    (run_actions 0 0%Q (EN 0) [APostRep 0%Q delta (length (cm_events cm) + length (cm_extra cm))] s0)
  | None => run_actions 0 0%Q (EN 0) seed_actions s0
  end.
Proof. unfold setup_state, tb, mk_table, seed_actions. cbn [t_procs]. destruct monitor; reflexivity. Qed.

Lemma kobs_kind : nth_error (cm_kinds cm) (length (cm_events cm) + length (cm_extra cm)) = Some HObs.
Proof.
  unfold cm_kinds. rewrite nth_error_app2; rewrite map_length; [|lia].
  rewrite nth_error_app2; [|lia]. replace (length (cm_events cm) + length (cm_extra cm) - length (cm_events cm) - length (cm_extra cm)) with 0 by lia.
  reflexivity.
Qed.

(* the queue while the seeds' removals are being posted: D = the nodes done so far *)
Definition SeedP (k : nat) (D : list Z) (s : st cworld) : Prop :=
  (forall x c', In x (queue s) -> pnode (e_prog x) c' -> e_rep x = None /\ e_prog x = k /\ exists n, e_elem x = EN n /\ In n D)
  /\ (forall x y cx cy, In x (queue s) -> In y (queue s) -> pnode (e_prog x) cx -> pnode (e_prog y) cy -> e_elem x = e_elem y -> x = y).

Lemma seeds_inv p T k : forall ns D (s : st cworld), NoDup ns -> (forall n, In n ns -> ~ In n D) -> SeedP k D s ->
  SeedP k (D ++ ns) (run_actions p 0%Q (EN 0) (map (fun n => APostOn (EN n) T k) ns) s).
Proof.
  unfold run_actions. induction ns as [|n ns IH]; intros D s Hnd Hd HP; cbn [map fold_left].
  - rewrite app_nil_r. exact HP.
  - inversion Hnd as [|? ? Hn Hnd']; subst.
    replace (D ++ n :: ns) with ((D ++ [n]) ++ ns) by (rewrite <- app_assoc; reflexivity).
    apply IH; [exact Hnd'| |].
    + intros m Hm Hin. apply in_app_or in Hin. destruct Hin as [Hin|[<-|[]]]; [exact (Hd m (or_intror Hm) Hin) | exact (Hn Hm)].
    + destruct HP as [P1 P2]. cbn [do_action]. unfold post. destruct (Qltb _ _); cbn [queue emit push_id].
      * split; [|exact P2]. intros x c' Hx Hp. destruct (P1 x c' Hx Hp) as (A & B & m & C & E).
        split; [exact A|]. split; [exact B|]. exists m. split; [exact C | apply in_app_iff; left; exact E].
      * split.
        -- intros x c' [<-|Hx] Hp; cbn [e_rep e_prog e_elem].
           ++ split; [reflexivity|]. split; [reflexivity|]. exists n. split; [reflexivity | apply in_app_iff; right; left; reflexivity].
           ++ destruct (P1 x c' Hx Hp) as (A & B & m & C & E).
              split; [exact A|]. split; [exact B|]. exists m. split; [exact C | apply in_app_iff; left; exact E].
        -- intros x y cx cy [<-|Hx] [<-|Hy] Px Py Exy; [reflexivity | | | exact (P2 x y cx cy Hx Hy Px Py Exy)]; exfalso; cbn [e_elem] in Exy.
           ++ destruct (P1 y cy Hy Py) as (_ & _ & m & C & E). rewrite C in Exy. inversion Exy; subst m. exact (Hd n (or_introl eq_refl) E).
           ++ destruct (P1 x cx Hx Px) as (_ & _ & m & C & E). rewrite C in Exy. inversion Exy; subst m. exact (Hd n (or_introl eq_refl) E).
Qed.

Lemma run_actions_world_eq {W} p t e acts (s : st W) : world (run_actions p t e acts s) = world s.
Proof. apply run_actions_world. Qed.

Lemma G_setup rs ls ds : wf_model cm = true -> graph_okb nodes edges = true -> init_ok cm nodes init = true -> NoDup nodes ->
  G (setup_state tb rs ls ds).
Proof.
  intros Hwf Hg Hi Hnd.
  pose proof (J_setup cm nodes edges init maxtime monitor rs ls ds (wf_model_loci cm Hwf) Hg Hi) as Hj. fold tb in Hj.
  split; [exact Hj|]. split; [apply QE_setup|]. split; [apply wf_setup|].
  assert (Ew : cw_st (world (setup_state tb rs ls ds)) = Loci.setup (cm_specs cm) nodes edges init).
  { destruct (setup_state_lw tb rs ls ds (mk_table_post_only cm nodes edges init maxtime monitor)) as [_ B]. rewrite B. reflexivity. }
  set (st0 := Loci.setup (cm_specs cm) nodes edges init) in *.
  assert (Hn0 : st_nodes st0 = nodes) by (rewrite <- Ew; destruct Hj as (_ & _ & H & _); exact H).
  (* the queue *)
  assert (SP : match cm_seed_post cm with
               | Some (c, T, k) => SeedP k (nodes_in st0 c) (setup_state tb rs ls ds)
               | None => forall x c', In x (queue (setup_state tb rs ls ds)) -> ~ pnode (e_prog x) c'
               end).
  { rewrite setup_state_mk. cbv zeta.
    set (s0 := {| clock := 0%Q; nextid := 0; queue := []; loci := init_loci tb; world := t_world tb; ids := []; out := [];
                  rands := rs; lns := ls; draws := ds; stuck := false |}).
    assert (Mon : forall delta x c', In x (queue (run_actions 0 0%Q (EN 0) [APostRep 0%Q delta (length (cm_events cm) + length (cm_extra cm))] s0)) ->
                    ~ pnode (e_prog x) c').
    { intros delta x c'. unfold run_actions. cbn [fold_left do_action]. unfold post. destruct (Qltb _ _); cbn [queue emit s0]; [intros []|].
      intros [<-|[]]. cbn [e_prog]. unfold pnode. rewrite kobs_kind. discriminate. }
    unfold seed_actions. fold st0. destruct (cm_seed_post cm) as [[[c T] k]|].
    - assert (NDc : NoDup (nodes_in st0 c)) by (unfold nodes_in; rewrite Hn0; apply NoDup_filter, Hnd).
      destruct monitor as [delta|].
      + apply (seeds_inv 1 T k (nodes_in st0 c) [] _ NDc (fun _ _ H => H)). split.
        * intros x c' Hx Hp. exfalso. exact (Mon delta x c' Hx Hp).
        * intros x y cx cy Hx _ Px. exfalso. exact (Mon delta x cx Hx Px).
      + apply (seeds_inv 0 T k (nodes_in st0 c) [] _ NDc (fun _ _ H => H)). split; [intros x c' [] | intros x y cx cy []].
    - destruct monitor as [delta|]; unfold run_actions at 1; cbn [map fold_left]; [exact (Mon delta) | intros x c' []]. }
  unfold FQ, FU. rewrite Ew. destruct (cm_seed_post cm) as [[[c T] k]|] eqn:Esp.
  - destruct SP as [P1 P2]. split; [|exact P2].
    intros x c' Hx Hp. destruct (P1 x c' Hx Hp) as (A & B & n & C & E). split; [exact A|]. exists n, c. split; [exact C|].
    unfold nodes_in in E. apply filter_In in E. destruct E as [_ E]. destruct (getc st0 n) as [c0|] eqn:Eg; [|discriminate].
    apply Z.eqb_eq in E. subst c0. split; [reflexivity|].
    unfold posted_arrows. apply in_app_iff. right. rewrite Esp. unfold post_arrow. unfold pnode in Hp. rewrite B in Hp. rewrite Hp. left. reflexivity.
  - split; [intros x c' Hx Hp; exfalso; exact (SP x c' Hx Hp) | intros x y cx cy Hx _ Px; exfalso; exact (SP x cx Hx Px)].
Qed.

Theorem G_steps rs ls ds cs s : wf_model cm = true -> fixed_ok cm = true -> graph_okb nodes edges = true ->
  init_ok cm nodes init = true -> NoDup nodes -> Steps tb (setup_state tb rs ls ds) cs s -> G s /\ Forall (fun sc => G (fst sc)) cs.
Proof.
  intros Hwf Hfx Hg Hi Hnd H.
  exact (Steps_inv tb G G_sched (fun s c Hk Hok => G_call s c Hwf Hfx Hk Hok) _ cs s (G_setup rs ls ds Hwf Hg Hi Hnd) H).
Qed.

(* ------------------------------------------------------------------ consequences *)
(* a posted event function moves its node along a posted arrow of the diagram, and nothing else *)
Theorem posted_diagram (s : st cworld) h : G s -> call_ok tb (CPost h) s ->
  forall v, getc (cw_st (world (after tb (CPost h) s))) v <> getc (cw_st (world s)) v ->
  exists l c, getc (cw_st (world s)) v = Some l /\ getc (cw_st (world (after tb (CPost h) s))) v = Some c
    /\ In (l, c) (posted_arrows cm) /\ In (l, c) (diagram cm) /\ e_elem h = EN v /\ pnode (e_prog h) c.
Proof.
  intros (Hj & Hq & Hw & Hfq & Hfu) Hok v. unfold tb. rewrite after_world. unfold call_kind. cbn [call_args fst snd].
  destruct Hok as [Hh _]. pose proof (head_in _ _ Hh) as Hhin. destruct (Hq h Hhin) as [n En].
  destruct (nth_error (cm_kinds cm) (e_prog h)) as [k|] eqn:Ek; [|congruence].
  rewrite handler_st, En. destruct k as [c'|c1 mark post| |]; cbn [moved]; try congruence.
  destruct (Hfq h c' Hhin Ek) as (_ & n' & c0 & En' & Hg & Hpa). rewrite En in En'. inversion En'; subst n'.
  rewrite cc_getc. destruct (getc_raises (cw_st (world s)) n); [congruence|].
  destruct (Z.eqb_spec v n) as [->|_]; [|congruence]. intros _.
  exists c0, c'. split; [exact Hg|]. split; [reflexivity|]. split; [exact Hpa|]. split; [|split; [reflexivity | exact Ek]].
  unfold diagram. apply pnodup_In, in_app_iff. right. exact Hpa.
Qed.

(* a stochastic event never moves a node out of a posted-source compartment *)
Theorem stochastic_spares_sources (s : st cworld) x t e : wf_model cm = true -> fixed_ok cm = true -> JJ s ->
  call_ok tb (CEv x t e) s ->
  forall v l, getc (cw_st (world s)) v = Some l -> (exists c', In (l, c') (posted_arrows cm)) ->
  getc (cw_st (world (after tb (CEv x t e) s))) v = Some l.
Proof.
  intros Hwf Hfx Hj Hok v l Hv [c' Hpa].
  destruct (call_moves s x t e Hwf Hj Hok) as (j & cev & -> & En & Hin & Ew & Hmv). rewrite Ew, handler_st.
  destruct (moved (ce_kind cev) e) as [[n c]|] eqn:M; [|exact Hv].
  rewrite cc_getc. destruct (getc_raises (cw_st (world s)) n); [exact Hv|].
  destruct (Z.eqb_spec v n) as [->|_]; [|exact Hv]. exfalso.
  destruct (Hmv n c eq_refl) as (Hl & _ & Ha). cbv zeta in Hl, Ha. rewrite Hl in Hv. inversion Hv; subst l.
  exact (fixed_ok_source cm cev _ c Hfx Hin Ha c' Hpa).
Qed.

(* ------------------------------------------------------------------ the fate of a pending posted entry *)
Lemma queue_after_call (s : st cworld) c y : wf_model cm = true -> G s -> call_ok tb c s -> In y (queue s) ->
  In y (queue (after tb c s)) \/ c = CPost y.
Proof.
  intros Hwf (Hj & Hq & Hw & _) Hok Hy. destruct c as [x t e|h].
  - left. destruct (call_moves s x t e Hwf Hj Hok) as (j & cev & -> & En & Hin & _ & _).
    destruct (posting (ce_kind cev) e) as [[[n T] k]|] eqn:Ep.
    + destruct (ce_kind cev) as [c1|c1 mark [[T1 k1]|]| |] eqn:Ek; destruct e as [n1|n1 m1]; cbn in Ep; try discriminate.
      inversion Ep; subst n1 T1 k1.
      destruct (fixed_recovery_posts cm nodes edges init maxtime monitor s _ t (EE n m1) Hwf Hj Hok j cev c1 mark T k n m1 eq_refl En Ek eq_refl)
        as (_ & _ & Eq & _).
      cbv zeta in Eq. fold tb in Eq. rewrite Eq. right. exact Hy.
    + rewrite (event_queue_quiet s j cev t e En Ep). exact Hy.
  - destruct (posted_queue s h Hq Hok) as (extra & Eq & _). fold tb in Eq. rewrite Eq.
    destruct Hok as [Hh _]. destruct (Nat.eq_dec (e_id y) (e_id h)) as [E|E].
    + right. f_equal. symmetry. exact (NoDup_id_inj (queue s) y h (proj1 Hw) Hy (head_in _ _ Hh) E).
    + left. apply in_app_iff. right. apply remove_id_keeps; assumption.
Qed.

(* a pending live entry stays in the queue until the very call that fires it *)
Theorem entry_fate sA cs s y : wf_model cm = true -> fixed_ok cm = true -> Steps tb sA cs s -> G sA ->
  In y (queue sA) -> e_live y = true -> In y (queue s) \/ exists s1, In (s1, CPost y) cs.
Proof.
  intros Hwf Hfx H HG Hy Hl. induction H as [|cs s s' H IH Hs|cs s c H IH Hok].
  - left. exact Hy.
  - destruct IH as [IH|IH]; [|right; exact IH]. left.
    pose proof (proj1 (Steps_inv tb G G_sched (fun s c Hk Hok => G_call s c Hwf Hfx Hk Hok) _ cs s HG H)) as (_ & _ & Hw & _).
    destruct Hs as (_ & _ & _ & _ & _ & _ & Hkeep). exact (Hkeep Hw y IH Hl).
  - destruct IH as [IH|[s1 IH]]; [|right; exists s1; apply in_app_iff; left; exact IH].
    pose proof (proj1 (Steps_inv tb G G_sched (fun s c Hk Hok => G_call s c Hwf Hfx Hk Hok) _ cs s HG H)) as HGs.
    destruct (queue_after_call s c y Hwf HGs Hok IH) as [A| ->]; [left; exact A|].
    right. exists s. apply in_app_iff. right. left. reflexivity.
Qed.

(* ------------------------------------------------------------------ C07_fixed_recovery *)
(* An infection with fixed recovery entered at time t on (n, m) posts the entry y = (t + T, node n,
   program k).  At every later point of the run: either y is still pending - and then n is in a
   compartment from which program k takes it - or y was fired by exactly one later call, a posted
   call at handler time t + T, which moved n along a posted arrow of the diagram. *)
Theorem fixed_recovery_fate rs ls ds cs s cs1 s1 j cev t n m cs2 c mark T k :
  wf_model cm = true -> fixed_ok cm = true -> graph_okb nodes edges = true -> init_ok cm nodes init = true -> NoDup nodes ->
  Steps tb (setup_state tb rs ls ds) cs s ->
  cs = cs1 ++ (s1, CEv (mpi monitor, j, mk_ev j cev) t (EE n m)) :: cs2 ->
  nth_error (cm_events cm) j = Some cev -> ce_kind cev = HLeft c mark (Some (T, k)) ->
  let y := {| e_time := Qred (t + T); e_id := nextid s1; e_live := true; e_proc := mpi monitor;
              e_elem := EN n; e_prog := k; e_rep := None |} in
  (In y (queue s) /\ forall c', pnode k c' -> exists l, getc (cw_st (world s)) n = Some l /\ In (l, c') (posted_arrows cm))
  \/ (exists s2, In (s2, CPost y) cs2 /\ call_time (CPost y) = Qred (t + T)
        /\ (forall s3 h3, In (s3, CPost h3) cs2 -> e_id h3 = e_id y -> s3 = s2 /\ h3 = y)
        /\ forall v, getc (cw_st (world (after tb (CPost y) s2))) v <> getc (cw_st (world s2)) v ->
              v = n /\ exists l c', getc (cw_st (world s2)) n = Some l /\ getc (cw_st (world (after tb (CPost y) s2))) n = Some c'
                /\ In (l, c') (posted_arrows cm) /\ pnode k c').
Proof.
  intros Hwf Hfx Hg Hi Hnd H E En Ek. cbv zeta.
  set (cl := CEv (mpi monitor, j, mk_ev j cev) t (EE n m)) in *.
  destruct (Steps_split tb _ cs s H cs1 (s1, cl) cs2 E) as (A & B & C). cbn [fst snd] in A, B, C.
  destruct (G_steps rs ls ds cs1 s1 Hwf Hfx Hg Hi Hnd A) as [G1 _].
  pose proof (G_call s1 cl Hwf Hfx G1 B) as G2.
  destruct (fixed_recovery_posts cm nodes edges init maxtime monitor s1 _ t (EE n m) Hwf (proj1 G1) B j cev c mark T k n m eq_refl En Ek eq_refl)
    as (_ & _ & Eq & _). cbv zeta in Eq. fold tb in Eq. fold cl in Eq.
  set (y := {| e_time := Qred (t + T); e_id := nextid s1; e_live := true; e_proc := mpi monitor; e_elem := EN n; e_prog := k; e_rep := None |}) in *.
  assert (Hy : In y (queue (after tb cl s1))) by (rewrite Eq; left; reflexivity).
  destruct (entry_fate _ cs2 s y Hwf Hfx C G2 Hy eq_refl) as [Hq|[s2 Hc]].
  - left. split; [exact Hq|]. intros c' Hp.
    destruct (G_steps rs ls ds cs s Hwf Hfx Hg Hi Hnd H) as [(_ & _ & _ & Hfq & _) _].
    destruct (Hfq y c' Hq Hp) as (_ & n' & l & En' & Hl & Hpa). cbn [e_elem] in En'. inversion En'; subst n'.
    exists l. split; assumption.
  - right. exists s2. split; [exact Hc|]. split; [reflexivity|].
    destruct (in_split _ _ Hc) as [d1 [d2 Ed]].
    destruct (Steps_split tb _ cs2 s C d1 (s2, CPost y) d2 Ed) as (A2 & B2 & C2). cbn [fst snd] in A2, B2, C2.
    pose proof (proj1 (Steps_inv tb G G_sched (fun s c Hk Hok => G_call s c Hwf Hfx Hk Hok) _ d1 s2 G2 A2)) as G3.
    split.
    + (* only once: by the wf of the queue ids every other posted call of cs2 carries another id *)
      intros s3 h3 H3 Eid.
      assert (Hw2 : wf (after tb cl s1)) by (exact (proj1 (proj2 (proj2 G2)))).
      rewrite Ed in H3. apply in_app_or in H3. destruct H3 as [H3|[H3|H3]].
      * (* before the firing: then y would have been gone already *)
        exfalso. destruct (in_split _ _ H3) as [e1 [e2 Ee]].
        destruct (Steps_split tb _ d1 s2 A2 e1 (s3, CPost h3) e2 Ee) as (A3 & B3 & C3). cbn [fst snd] in A3, B3, C3.
        pose proof (proj1 (wf_steps tb _ e1 s3 A3 Hw2)) as Hw3.
        pose proof (fired_is_gone tb h3 s3 Hw3 B3) as Gn. rewrite Eid in Gn.
        destruct (Steps_gone tb (e_id y) _ e2 s2 C3 Gn) as [[_ Gq] _].
        destruct B2 as [Hh Hl]. rewrite find_live_none in Gq. rewrite (Gq y (head_in _ _ Hh) eq_refl) in Hl. discriminate.
      * inversion H3; subst s3 h3. split; reflexivity.
      * exfalso. exact (posted_at_most_once tb _ cs2 s d1 s2 y d2 C Hw2 Ed s3 h3 H3 Eid).
    + intros v Hv. destruct (posted_diagram s2 y G3 B2 v Hv) as (l & c' & H1 & H2 & H3 & _ & H5 & H6).
      cbn [e_elem] in H5. inversion H5; subst v. split; [reflexivity|]. exists l, c'. repeat split; assumption.
Qed.

End CFx.
