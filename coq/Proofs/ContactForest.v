(* C08: for tables in which a node can be infected at most once ([once_model]) the occupied
   edges and hitting times form a contact forest.  The invariant [Forest] is preserved by every
   scheduler move and every call of an event function (both schedulers, Proofs/CompartRun.v).
   Separately, for every table: the records are the first-only folds of the marking calls of
   the run (the hitting time of a node is the time of its first infection, also for SIS). *)
From Coq Require Import List ZArith QArith Bool Arith Lia Relations Sorted.
From EpyV Require Import Lib.Prelude Model.Kernel Model.Loci Model.Compart
  Proofs.KernelBase Proofs.KernelMember Proofs.LociBase Proofs.LociLocus Proofs.LociInv
  Proofs.CompartRun Proofs.CompartSort Proofs.CompartInv Proofs.CompartDiagram Proofs.ContactBase.
Import ListNotations.
Close Scope Q_scope.

Lemma NoDup_snoc {A} (l : list A) x : NoDup l -> ~ In x l -> NoDup (l ++ [x]).
Proof.
  induction l as [|y l IH]; intros H Hx; cbn [app]; [constructor; [intros [] | constructor]|].
  inversion H as [|? ? Hy H']; subst. constructor.
  - intros Hin. apply in_app_or in Hin. destruct Hin as [Hin|[<-|[]]]; [exact (Hy Hin) | apply Hx; left; reflexivity].
  - apply IH; [exact H' | intros Hin; apply Hx; right; exact Hin].
Qed.

(* ------------------------------------------------------------------ lists of occupied edges as growing forests *)
Definition child (x : Z * Z * Q) : Z := fst (fst x).
Definition parent (x : Z * Z * Q) : Z := snd (fst x).

(* every entry joins a node that occurs in no earlier entry (as a brand-new leaf) to another node *)
Fixpoint forestL (occ : list (Z * Z * Q)) : Prop :=
  match occ with
  | [] => True
  | x :: rest => child x <> parent x
                 /\ (forall y, In y rest -> child y <> child x /\ child y <> parent x)
                 /\ forestL rest
  end.

Lemma forestL_snoc occ z : forestL occ -> child z <> parent z ->
  (forall x, In x occ -> child x <> child z /\ parent x <> child z) -> forestL (occ ++ [z]).
Proof.
  induction occ as [|x occ IH]; intros F Hz H; cbn [app forestL].
  - split; [exact Hz|]. split; [intros y []|exact I].
  - destruct F as (F1 & F2 & F3). split; [exact F1|]. split.
    + intros y Hy. apply in_app_or in Hy. destruct Hy as [Hy|[<-|[]]]; [apply F2, Hy|].
      destruct (H x (or_introl eq_refl)) as [A B]. split; congruence.
    + apply IH; [exact F3 | exact Hz|]. intros x' Hx'. apply H. right. exact Hx'.
Qed.

Lemma forestL_mid o1 x o2 : forestL (o1 ++ x :: o2) ->
  child x <> parent x
  /\ (forall y, In y o2 -> child y <> child x /\ child y <> parent x)
  /\ (forall y, In y o1 -> child x <> child y /\ child x <> parent y).
Proof.
  induction o1 as [|z o1 IH]; cbn [app forestL].
  - intros (F1 & F2 & _). split; [exact F1|]. split; [exact F2 | intros y []].
  - intros (F1 & F2 & F3). destruct (IH F3) as (I1 & I2 & I3). split; [exact I1|]. split; [exact I2|].
    intros y [<-|Hy]; [|apply I3, Hy]. apply F2, in_app_iff. right. left. reflexivity.
Qed.

Lemma child_unique occ x y : forestL occ -> In x occ -> In y occ -> child x = child y -> x = y.
Proof.
  intros F Hx Hy E. destruct (in_split _ _ Hx) as [o1 [o2 ->]].
  destruct (forestL_mid _ _ _ F) as (_ & M2 & M3).
  apply in_app_or in Hy. destruct Hy as [Hy|[Hy|Hy]]; [|exact Hy|].
  - exfalso. exact (proj1 (M3 y Hy) E).
  - exfalso. apply (proj1 (M2 y Hy)). symmetry. exact E.
Qed.

(* the parent relation of the occupied edges *)
Definition par (occ : list (Z * Z * Q)) (n m : Z) : Prop := exists t, In (n, m, t) occ.

Lemma t1n_first {A} (R : relation A) a b : clos_trans_1n A R a b -> exists c, R a c.
Proof. intros H. destruct H as [y H|y z H _]; exists y; exact H. Qed.

Lemma par_later occ : forestL occ -> forall n m, clos_trans_1n Z (par occ) n m ->
  forall o1 x o2, occ = o1 ++ x :: o2 -> child x = n -> forall y, In y (x :: o2) -> child y <> m.
Proof.
  intros F n m H. induction H as [n m [t Ht]|n k m [t Ht] Hkm IH]; intros o1 x o2 E Ex y Hy.
  - assert (x = (n, m, t)).
    { apply (child_unique occ); [exact F | rewrite E; apply in_app_iff; right; left; reflexivity | exact Ht | exact Ex]. }
    subst x. rewrite E in F. destruct (forestL_mid _ _ _ F) as (M1 & M2 & _). cbn [child parent fst snd] in *.
    destruct Hy as [<-|Hy]; [exact M1 | apply M2, Hy].
  - assert (x = (n, k, t)).
    { apply (child_unique occ); [exact F | rewrite E; apply in_app_iff; right; left; reflexivity | exact Ht | exact Ex]. }
    subst x.
    destruct (t1n_first _ _ _ Hkm) as (k' & t' & Hk).
    pose proof F as F'. rewrite E in F'. destruct (forestL_mid _ _ _ F') as (M1 & M2 & _). cbn [child parent fst snd] in M1, M2.
    rewrite E in Hk. apply in_app_or in Hk. destruct Hk as [Hk|[Hk|Hk]].
    + destruct (in_split _ _ Hk) as [a [b ->]].
      apply (IH a (k, k', t') (b ++ (n, k, t) :: o2)); [rewrite E, <- app_assoc; reflexivity | reflexivity|].
      destruct Hy as [<-|Hy]; right; apply in_app_iff; right; [left; reflexivity | right; exact Hy].
    + inversion Hk; subst. exfalso. apply M1. reflexivity.
    + exfalso. exact (proj2 (M2 _ Hk) eq_refl).
Qed.

(* no cycles: the occupied edges, oriented infected -> infector, form a forest *)
Theorem forestL_acyclic occ : forestL occ -> forall n, ~ clos_trans Z (par occ) n n.
Proof.
  intros F n H. apply clos_trans_t1n in H.
  destruct (t1n_first _ _ _ H) as (m & t & Hn). destruct (in_split _ _ Hn) as [o1 [o2 E]].
  exact (par_later occ F n n H o1 (n, m, t) o2 E eq_refl (n, m, t) (or_introl eq_refl) eq_refl).
Qed.

(* the parent is unique *)
Theorem forestL_functional occ : forestL occ -> forall n m m' t t', In (n, m, t) occ -> In (n, m', t') occ -> m = m' /\ t = t'.
Proof. intros F n m m' t t' H H'. pose proof (child_unique occ _ _ F H H' eq_refl) as E. inversion E. split; reflexivity. Qed.

(* following the parents from any infected node ends in a node that was never marked: the root of its tree *)
Theorem forestL_root occ : forestL occ -> forall n, In n (map child occ) ->
  exists r, clos_refl_trans Z (par occ) n r /\ ~ In r (map child occ).
Proof.
  induction occ as [|x occ IH]; intros F n Hn; [destruct Hn|].
  destruct F as (F1 & F2 & F3).
  assert (Root : ~ In (parent x) (map child (x :: occ))).
  { cbn [map In]. intros [E|E]; [exact (F1 E)|]. apply in_map_iff in E. destruct E as [y [E Hy]]. exact (proj2 (F2 y Hy) E). }
  assert (Px : par (x :: occ) (child x) (parent x)).
  { exists (snd x). left. destruct x as [[a b] t]. reflexivity. }
  assert (Sub : forall a b, clos_refl_trans Z (par occ) a b -> clos_refl_trans Z (par (x :: occ)) a b).
  { intros a b H. induction H as [a b [t Ht]|a|a b c _ I1 _ I2]; [apply rt_step; exists t; right; exact Ht | apply rt_refl | eapply rt_trans; eassumption]. }
  cbn [map In] in Hn. destruct Hn as [<-|Hn].
  - exists (parent x). split; [apply rt_step, Px | exact Root].
  - destruct (IH F3 n Hn) as [r [P R]]. destruct (Z.eq_dec r (child x)) as [-> |Hne].
    + exists (parent x). split; [eapply rt_trans; [apply Sub, P | apply rt_step, Px] | exact Root].
    + exists r. split; [apply Sub, P|]. cbn [map In]. intros [E|E]; [congruence | exact (R E)].
Qed.

(* the infector of an entry was marked, if at all, by an earlier entry *)
Lemma parent_earlier o1 x o2 y : forestL (o1 ++ x :: o2) -> In y (o1 ++ x :: o2) -> child y = parent x -> In y o1.
Proof.
  intros F Hy E. destruct (forestL_mid _ _ _ F) as (M1 & M2 & _).
  apply in_app_or in Hy. destruct Hy as [Hy|[<-|Hy]]; [exact Hy | exfalso; exact (M1 E) | exfalso; exact (proj2 (M2 y Hy) E)].
Qed.

(* ------------------------------------------------------------------ first-only marking *)
Lemma mark_hit_fresh n t hit : ~ In n (map fst hit) -> mark_hit n t hit = hit ++ [(n, t)].
Proof.
  intros H. unfold mark_hit. destruct (existsb (fun x => Z.eqb (fst x) n) hit) eqn:E; [|reflexivity].
  exfalso. apply existsb_exists in E. destruct E as [x [Hx Ex]]. apply Z.eqb_eq in Ex. apply H. rewrite <- Ex. apply in_map, Hx.
Qed.

Lemma mark_hit_known n t hit : In n (map fst hit) -> mark_hit n t hit = hit.
Proof.
  intros H. unfold mark_hit. destruct (existsb (fun x => Z.eqb (fst x) n) hit) eqn:E; [reflexivity|].
  exfalso. apply in_map_iff in H. destruct H as [x [Ex Hx]].
  assert (existsb (fun x => Z.eqb (fst x) n) hit = true) by (apply existsb_exists; exists x; split; [exact Hx | apply Z.eqb_eq, Ex]).
  congruence.
Qed.

Lemma undirected_eqb_spec a b : undirected_eqb a b = true <-> a = b \/ a = (snd b, fst b).
Proof. unfold undirected_eqb. rewrite orb_true_iff, !zpair_eqb_eq. tauto. Qed.

Lemma mark_occupied_fresh n m t occ : (forall x, In x occ -> child x <> n /\ parent x <> n) ->
  mark_occupied (n, m) t occ = occ ++ [(n, m, t)].
Proof.
  intros H. unfold mark_occupied. destruct (existsb (fun x => undirected_eqb (fst x) (n, m)) occ) eqn:E; [|reflexivity].
  exfalso. apply existsb_exists in E. destruct E as [[[a b] t'] [Hx Ex]]. apply undirected_eqb_spec in Ex. cbn [fst snd] in Ex.
  destruct (H _ Hx) as [H1 H2]. cbn [child parent fst snd] in H1, H2. destruct Ex as [Ex|Ex]; inversion Ex; congruence.
Qed.

(* the hits of a list of (node, time) marks applied first-only *)
Definition first_only (l : list (Z * Q)) (h0 : list (Z * Q)) : list (Z * Q) :=
  fold_left (fun h nt => mark_hit (fst nt) (snd nt) h) l h0.

Lemma mark_hit_keys n t hit : forall v, In v (map fst (mark_hit n t hit)) <-> In v (map fst hit) \/ v = n.
Proof.
  intros v. destruct (in_dec Z.eq_dec n (map fst hit)) as [H|H].
  - rewrite (mark_hit_known n t hit H). split; [tauto|]. intros [A| ->]; assumption.
  - rewrite (mark_hit_fresh n t hit H), map_app, in_app_iff. cbn. intuition.
Qed.

(* first-only: the recorded hit of a node is the time of the first mark on it *)
Lemma first_only_spec l : forall h0 n t, In (n, t) (first_only l h0) <->
  In (n, t) h0 \/ (~ In n (map fst h0) /\ exists l1 l2, l = l1 ++ (n, t) :: l2 /\ ~ In n (map fst l1)).
Proof.
  induction l as [|[n0 t0] l IH]; intros h0 n t; cbn [first_only fold_left].
  - split; [tauto|]. intros [H|[_ [l1 [l2 [E _]]]]]; [exact H | destruct l1; discriminate].
  - change (fold_left _ l ?h) with (first_only l h). rewrite IH. cbn [fst snd].
    destruct (in_dec Z.eq_dec n0 (map fst h0)) as [K|K].
    + rewrite (mark_hit_known n0 t0 h0 K). split.
      * intros [H|[H1 [l1 [l2 [E H2]]]]]; [left; exact H|]. right. split; [exact H1|].
        exists ((n0, t0) :: l1), l2. split; [rewrite E; reflexivity|]. cbn [map In fst]. intros [-> |H3]; tauto.
      * intros [H|[H1 [l1 [l2 [E H2]]]]]; [left; exact H|]. right. split; [exact H1|].
        destruct l1 as [|z l1]; [inversion E; subst; contradiction|]. inversion E; subst.
        exists l1, l2. split; [reflexivity|]. intros H3. apply H2. right. exact H3.
    + rewrite (mark_hit_fresh n0 t0 h0 K). rewrite in_app_iff, map_app, in_app_iff. cbn [In map fst]. split.
      * intros [[H|[H|[]]]|[H1 [l1 [l2 [E H2]]]]].
        -- left. exact H.
        -- inversion H; subst. right. split; [exact K|]. exists [], l. split; [reflexivity | intros []].
        -- right. split; [tauto|]. exists ((n0, t0) :: l1), l2. split; [rewrite E; reflexivity|].
           cbn [map In fst]. intros [-> |H3]; tauto.
      * intros [H|[H1 [l1 [l2 [E H2]]]]]; [left; left; exact H|].
        destruct l1 as [|z l1]; inversion E; subst.
        -- left. right. left. reflexivity.
        -- right. split; [|exists l1, l2; split; [reflexivity | intros H3; apply H2; right; exact H3]].
           intros [H3|[H3|[]]]; [exact (H1 H3)|]. apply H2. left. exact H3.
Qed.

Lemma first_only_NoDup l : forall h0, NoDup (map fst h0) -> NoDup (map fst (first_only l h0)).
Proof.
  induction l as [|[n0 t0] l IH]; intros h0 H; cbn [first_only fold_left]; [exact H|].
  apply IH. cbn [fst snd]. destruct (in_dec Z.eq_dec n0 (map fst h0)) as [K|K].
  - rewrite (mark_hit_known n0 t0 h0 K). exact H.
  - rewrite (mark_hit_fresh n0 t0 h0 K), map_app. cbn [map fst].
    apply NoDup_snoc; assumption.
Qed.
