(* Lemmas for C06 (and the synchronous half of C05): an explicit specification of
   allEventsInTimestep as a function of the loci and the oracle streams, and the structure
   of a whole synchronous run as a sequence of timesteps. *)
From Coq Require Import List ZArith QArith Qabs Bool Arith Lia.
From EpyV Require Import Model.Kernel Proofs.KernelMember.
Import ListNotations.
Open Scope Q_scope.

(* ------------------------------------------------------------------ the specification *)
Definition xev := (nat * nat * event)%type.

Definition lookup (lc : list (list elem)) (x : xev) : list elem := nth (ev_locus (snd x)) lc [].

(* the guard of synchronousdynamics.py:71,81: non-empty locus and positive probability *)
Definition active (lc : list (list elem)) (x : xev) : bool :=
  match lookup lc x with [] => false | _ => Qltb 0 (ev_p (snd x)) end.

(* the elements put on trial for a per-element event *)
Definition block (lc : list (list elem)) (x : xev) : list elem := if active lc x then lookup lc x else [].

(* one variate per element, in order; an exhausted stream reads as 0 *)
Fixpoint spec_trials (x : xev) (p : Q) (els : list elem) (rs : list Q) : list (xev * elem) :=
  match els with
  | [] => []
  | e :: els' => if Qle_bool (hd 0 rs) p then (x, e) :: spec_trials x p els' (tl rs) else spec_trials x p els' (tl rs)
  end.

Fixpoint spec_elem (lc : list (list elem)) (evs : list xev) (rs : list Q) : list (xev * elem) :=
  match evs with
  | [] => []
  | x :: evs' => spec_trials x (ev_p (snd x)) (block lc x) rs ++ spec_elem lc evs' (skipn (length (block lc x)) rs)
  end.

Fixpoint count_elem (lc : list (list elem)) (evs : list xev) : nat :=
  match evs with [] => 0 | x :: evs' => length (block lc x) + count_elem lc evs' end.

(* one variate per active fixed-rate event, and on success one rank selecting a member *)
Fixpoint spec_fixed (lc : list (list elem)) (evs : list xev) (rs : list Q) (ds : list nat) : list (xev * elem) :=
  match evs with
  | [] => []
  | x :: evs' =>
      if active lc x then
        if Qle_bool (hd 0 rs) (ev_p (snd x))
        then (x, nth (hd 0%nat ds mod length (lookup lc x)) (lookup lc x) (EN 0)) :: spec_fixed lc evs' (tl rs) (tl ds)
        else spec_fixed lc evs' (tl rs) ds
      else spec_fixed lc evs' rs ds
  end.

Definition count_fixed (lc : list (list elem)) (evs : list xev) : nat := length (filter (active lc) evs).

Section KS.
Context {W : Type}.
Notation st := (st W).
Variable tb : table W.

Definition spec_tranche (lc : list (list elem)) (rs : list Q) (ds : list nat) : list (xev * elem) :=
  spec_elem lc (per_element tb) rs ++
  spec_fixed lc (fixed_rate tb) (skipn (count_elem lc (per_element tb)) rs) ds.

(* variates and ranks consumed by one call of allEventsInTimestep *)
Definition tranche_rands (lc : list (list elem)) : nat :=
  (count_elem lc (per_element tb) + count_fixed lc (fixed_rate tb))%nat.
Definition tranche_draws (lc : list (list elem)) (rs : list Q) (ds : list nat) : nat :=
  length (spec_fixed lc (fixed_rate tb) (skipn (count_elem lc (per_element tb)) rs) ds).

(* ------------------------------------------------------------------ model = specification *)
Lemma tl_skipn : forall A (l : list A), tl l = skipn 1 l.
Proof. intros A [|x l]; reflexivity. Qed.

Lemma trials_spec : forall p x els (s : st),
  trials p x els s = (spec_trials x p els (rands s), advance (length els) 0 0 s).
Proof.
  intros p x. induction els as [|e els IH]; intros s.
  - cbn [trials spec_trials length]. rewrite advance_0. reflexivity.
  - cbn [trials spec_trials length]. rewrite next_rand_adv, IH, advance_advance.
    cbn [advance rands Nat.add]. rewrite <- tl_skipn. reflexivity.
Qed.

Lemma tranche_elem_spec : forall evs (s : st),
  tranche_elem evs s = (spec_elem (loci s) evs (rands s), advance (count_elem (loci s) evs) 0 0 s).
Proof.
  induction evs as [|x evs IH]; intros s.
  - cbn [tranche_elem spec_elem count_elem]. rewrite advance_0. reflexivity.
  - cbn [tranche_elem spec_elem count_elem]. unfold block, active, lookup, locus.
    destruct (nth (ev_locus (snd x)) (loci s) []) as [|e0 l0] eqn:El.
    + rewrite IH. cbn [length skipn app Nat.add spec_trials]. reflexivity.
    + destruct (Qltb 0 (ev_p (snd x))).
      * rewrite trials_spec, IH, advance_advance. cbn [advance rands loci Nat.add]. reflexivity.
      * rewrite IH. cbn [length skipn app Nat.add spec_trials]. reflexivity.
Qed.

Lemma tranche_fixed_spec : forall evs (s : st),
  tranche_fixed evs s =
  (spec_fixed (loci s) evs (rands s) (draws s),
   advance (count_fixed (loci s) evs) 0 (length (spec_fixed (loci s) evs (rands s) (draws s))) s).
Proof.
  unfold count_fixed. induction evs as [|x evs IH]; intros s.
  - cbn [tranche_fixed spec_fixed filter length]. rewrite advance_0. reflexivity.
  - cbn [tranche_fixed spec_fixed filter]. unfold locus.
    assert (Hl : lookup (loci s) x = nth (ev_locus (snd x)) (loci s) []) by reflexivity.
    destruct (nth (ev_locus (snd x)) (loci s) []) as [|e0 l0] eqn:El.
    + assert (Ha : active (loci s) x = false) by (unfold active; rewrite Hl; reflexivity).
      rewrite Ha, IH. reflexivity.
    + destruct (Qltb 0 (ev_p (snd x))) eqn:Hp.
      * assert (Ha : active (loci s) x = true) by (unfold active; rewrite Hl; exact Hp).
        rewrite Ha, Hl, next_rand_adv. destruct (Qle_bool (hd 0 (rands s)) (ev_p (snd x))).
        -- rewrite next_draw_adv, advance_advance, IH, advance_advance.
           cbn [advance rands draws loci Nat.add app length]. rewrite <- !tl_skipn. reflexivity.
        -- rewrite IH, advance_advance. cbn [advance rands draws loci Nat.add app length].
           rewrite <- !tl_skipn. reflexivity.
      * assert (Ha : active (loci s) x = false) by (unfold active; rewrite Hl; exact Hp).
        rewrite Ha, IH. reflexivity.
Qed.

Lemma tranche_spec : forall (s : st),
  tranche tb s =
  (spec_tranche (loci s) (rands s) (draws s),
   advance (tranche_rands (loci s)) 0 (tranche_draws (loci s) (rands s) (draws s)) s).
Proof.
  intros s. unfold tranche, spec_tranche, tranche_rands, tranche_draws.
  rewrite tranche_elem_spec, tranche_fixed_spec, advance_advance.
  cbn [advance rands draws loci Nat.add]. reflexivity.
Qed.

(* ------------------------------------------------------------------ reading the specification *)
(* with enough variates: exactly the elements whose trial value is <= p *)
Lemma spec_trials_filter : forall x p els rs, (length els <= length rs)%nat ->
  spec_trials x p els rs =
  map (fun er => (x, fst er)) (filter (fun er => Qle_bool (snd er) p) (combine els rs)).
Proof.
  intros x p. induction els as [|e els IH]; intros rs H; [reflexivity|].
  destruct rs as [|r rs]; [simpl in H; lia|].
  cbn [spec_trials hd tl combine filter snd]. rewrite (IH rs) by (simpl in H; lia).
  destruct (Qle_bool r p); reflexivity.
Qed.

Lemma spec_trials_In : forall x p els rs xe, In xe (spec_trials x p els rs) -> fst xe = x /\ In (snd xe) els.
Proof.
  intros x p. induction els as [|e els IH]; intros rs xe H; [destruct H|].
  cbn [spec_trials] in H. destruct (Qle_bool (hd 0 rs) p).
  - destruct H as [<-|H]; [split; [reflexivity | left; reflexivity]|].
    destruct (IH _ _ H) as [H1 H2]. split; [exact H1 | right; exact H2].
  - destruct (IH _ _ H) as [H1 H2]. split; [exact H1 | right; exact H2].
Qed.

Lemma block_In : forall lc x e, In e (block lc x) -> active lc x = true /\ In e (lookup lc x).
Proof. intros lc x e. unfold block. destruct (active lc x); [tauto | intros []]. Qed.

Lemma active_true : forall lc x, active lc x = true <-> lookup lc x <> [] /\ 0 < ev_p (snd x).
Proof.
  intros lc x. unfold active. destruct (lookup lc x).
  - split; [discriminate | intros [H _]; congruence].
  - rewrite Qltb_lt. split; [intros H; split; [discriminate | exact H] | tauto].
Qed.

Lemma spec_elem_In : forall lc evs rs xe, In xe (spec_elem lc evs rs) ->
  In (fst xe) evs /\ active lc (fst xe) = true /\ In (snd xe) (lookup lc (fst xe)).
Proof.
  intros lc. induction evs as [|x evs IH]; intros rs xe H; [destruct H|].
  cbn [spec_elem] in H. apply in_app_or in H. destruct H as [H|H].
  - apply spec_trials_In in H. destruct H as [H1 H2]. apply block_In in H2. rewrite H1.
    split; [left; reflexivity | exact H2].
  - destruct (IH _ _ H) as (H1 & H2 & H3). split; [right; exact H1 | split; assumption].
Qed.

Lemma spec_fixed_In : forall lc evs rs ds xe, In xe (spec_fixed lc evs rs ds) ->
  In (fst xe) evs /\ active lc (fst xe) = true /\ In (snd xe) (lookup lc (fst xe)).
Proof.
  intros lc. induction evs as [|x evs IH]; intros rs ds xe H; [destruct H|].
  cbn [spec_fixed] in H. destruct (active lc x) eqn:Ha.
  - destruct (Qle_bool (hd 0 rs) (ev_p (snd x))).
    + destruct H as [<-|H].
      * cbn [fst snd]. split; [left; reflexivity|]. split; [exact Ha|].
        apply nth_mod_In. apply active_true in Ha. exact (proj1 Ha).
      * destruct (IH _ _ _ H) as (H1 & H2 & H3). split; [right; exact H1 | split; assumption].
    + destruct (IH _ _ _ H) as (H1 & H2 & H3). split; [right; exact H1 | split; assumption].
  - destruct (IH _ _ _ H) as (H1 & H2 & H3). split; [right; exact H1 | split; assumption].
Qed.

(* at most one firing per fixed-rate event: the selected events are a subsequence of the registered ones *)
Inductive subseq {A} : list A -> list A -> Prop :=
| sub_nil : subseq [] []
| sub_skip : forall x a b, subseq a b -> subseq a (x :: b)
| sub_take : forall x a b, subseq a b -> subseq (x :: a) (x :: b).

Lemma spec_fixed_subseq : forall lc evs rs ds, subseq (map fst (spec_fixed lc evs rs ds)) evs.
Proof.
  intros lc. induction evs as [|x evs IH]; intros rs ds; [constructor|].
  cbn [spec_fixed]. destruct (active lc x); [|apply sub_skip, IH].
  destruct (Qle_bool (hd 0 rs) (ev_p (snd x))); [cbn [map fst]; apply sub_take, IH | apply sub_skip, IH].
Qed.

Lemma subseq_length : forall A (a b : list A), subseq a b -> (length a <= length b)%nat.
Proof. induction 1; simpl; lia. Qed.

Lemma per_element_In : forall x, In x (per_element tb) -> In x (all_events tb).
Proof. intros x H. apply filter_In in H. exact (proj1 H). Qed.
Lemma fixed_rate_In : forall x, In x (fixed_rate tb) -> In x (all_events tb).
Proof. intros x H. apply filter_In in H. exact (proj1 H). Qed.

(* every selected pair: a registered event of positive probability and a member of its locus
   as it stood when allEventsInTimestep was called *)
Lemma spec_tranche_In : forall lc rs ds xe, In xe (spec_tranche lc rs ds) ->
  In (fst xe) (all_events tb) /\ 0 < ev_p (snd (fst xe)) /\ In (snd xe) (lookup lc (fst xe)).
Proof.
  intros lc rs ds xe H. unfold spec_tranche in H. apply in_app_or in H. destruct H as [H|H].
  - apply spec_elem_In in H. destruct H as (H1 & H2 & H3). apply active_true in H2.
    split; [exact (per_element_In _ H1) | split; [exact (proj2 H2) | exact H3]].
  - apply spec_fixed_In in H. destruct H as (H1 & H2 & H3). apply active_true in H2.
    split; [exact (fixed_rate_In _ H1) | split; [exact (proj2 H2) | exact H3]].
Qed.

Lemma tranche_sel_ok : forall (s : st), Forall (sel_ok tb) (fst (tranche tb s)).
Proof.
  intros s. rewrite tranche_spec. cbn [fst]. apply Forall_forall. intros xe H.
  destruct (spec_tranche_In _ _ _ _ H) as (H1 & H2 & _). split; assumption.
Qed.

Lemma tranche_member : forall (s : st) x e, In (x, e) (fst (tranche tb s)) ->
  In x (all_events tb) /\ 0 < ev_p (snd x) /\ mem e (locus s (ev_locus (snd x))) = true.
Proof.
  intros s x e H. rewrite tranche_spec in H. cbn [fst] in H.
  destruct (spec_tranche_In _ _ _ _ H) as (H1 & H2 & H3). cbn [fst snd] in *.
  split; [exact H1 | split; [exact H2 | apply mem_In; exact H3]].
Qed.

(* inactive events (empty locus or probability <= 0) are passed over and consume nothing *)
Lemma inactive_iff : forall lc x, active lc x = false <-> lookup lc x = [] \/ ev_p (snd x) <= 0.
Proof.
  intros lc x. unfold active. destruct (lookup lc x).
  - split; [left; reflexivity | reflexivity].
  - rewrite Qltb_ge. split; [right; assumption | intros [H|H]; [discriminate | exact H]].
Qed.

Lemma tranche_elem_inactive : forall x evs (s : st), active (loci s) x = false ->
  tranche_elem (x :: evs) s = tranche_elem evs s.
Proof.
  intros x evs s H. rewrite !tranche_elem_spec. cbn [spec_elem count_elem]. unfold block. rewrite H.
  reflexivity.
Qed.

Lemma tranche_fixed_inactive : forall x evs (s : st), active (loci s) x = false ->
  tranche_fixed (x :: evs) s = tranche_fixed evs s.
Proof.
  intros x evs s H. rewrite !tranche_fixed_spec. unfold count_fixed. cbn [spec_fixed filter]. rewrite H.
  reflexivity.
Qed.

Lemma spec_elem_inactive : forall lc evs rs x e, active lc x = false -> ~ In (x, e) (spec_elem lc evs rs).
Proof. intros lc evs rs x e H Hin. apply spec_elem_In in Hin. cbn [fst] in Hin. destruct Hin as (_ & Ha & _). congruence. Qed.

Lemma spec_tranche_inactive : forall lc rs ds x e, active lc x = false -> ~ In (x, e) (spec_tranche lc rs ds).
Proof.
  intros lc rs ds x e H Hin. unfold spec_tranche in Hin. apply in_app_or in Hin. destruct Hin as [Hin|Hin].
  - apply spec_elem_In in Hin. cbn [fst] in Hin. destruct Hin as (_ & Ha & _). congruence.
  - apply spec_fixed_In in Hin. cbn [fst] in Hin. destruct Hin as (_ & Ha & _). congruence.
Qed.

(* ------------------------------------------------------------------ one timestep *)
(* the body of the while loop of SynchronousDynamics.do (sync_loop_S ties it to the model) *)
Definition sync_step (pf : nat) (t : Q) (s : st) : nat * st :=
  let s0 := set_clock t s in
  let '(n, s1) := run_pending tb pf t 0 s0 in
  let s1' := set_clock t s1 in
  let '(evs, s2) := tranche tb s1' in
  fire_tranche tb t evs n s2.

Lemma sync_loop_S : forall pf f t events steps s,
  sync_loop tb pf (S f) t events steps s =
  if at_equil tb t s then (t, events, steps, s)
  else let '(nev, s3) := sync_step pf t s in
       sync_loop tb pf f (Qred (t + 1)) (events + nev) (if (0 <? nev)%nat then S steps else steps) s3.
Proof.
  intros pf f t events steps s. cbn [sync_loop]. unfold at_equil, sync_step.
  destruct (Qle_bool (t_maxtime tb) t || t_equil tb (loci s) (world s)); [reflexivity|].
  cbv zeta. destruct (run_pending tb pf t 0 (set_clock t s)) as [n s1].
  destruct (tranche tb (set_clock t s1)) as [evs s2].
  destruct (fire_tranche tb t evs n s2) as [nev s3]. reflexivity.
Qed.

(* the tranche of a step is the specification applied to the loci and oracle as they stand
   after the posted events of the step have run *)
Lemma sync_step_eq : forall pf t s,
  sync_step pf t s =
  let s1 := snd (run_pending tb pf t 0 (set_clock t s)) in
  let n := fst (run_pending tb pf t 0 (set_clock t s)) in
  fire_tranche tb t (spec_tranche (loci s1) (rands s1) (draws s1)) n
    (advance (tranche_rands (loci s1)) 0 (tranche_draws (loci s1) (rands s1) (draws s1)) (set_clock t s1)).
Proof.
  intros pf t s. unfold sync_step. cbv zeta.
  destruct (run_pending tb pf t 0 (set_clock t s)) as [n s1]. cbn [fst snd].
  rewrite tranche_spec. reflexivity.
Qed.

(* posted events first, then the tranche; the count is the number of handlers called *)
Lemma sync_step_spec : forall pf t s, exists lp lt,
  out (snd (sync_step pf t s)) = lt ++ lp ++ out s /\
  Forall (posted_rec t) lp /\ Forall (tranche_rec tb t) lt /\
  fst (sync_step pf t s) = (nposted lp + nfired lt)%nat.
Proof.
  intros pf t s. rewrite sync_step_eq. cbv zeta.
  destruct (run_pending_count tb pf t 0%nat (set_clock t s)) as [lp [Ep [Rp Np]]].
  set (s1 := snd (run_pending tb pf t 0 (set_clock t s))) in *.
  set (n := fst (run_pending tb pf t 0 (set_clock t s))) in *.
  assert (Hsel : Forall (sel_ok tb) (spec_tranche (loci s1) (rands s1) (draws s1))).
  { assert (H := tranche_sel_ok (set_clock t s1)). rewrite tranche_spec in H. exact H. }
  set (s2 := advance _ _ _ _).
  destruct (fire_tranche_spec tb t _ n s2 eq_refl Hsel) as [_ [lt [Et [Rt Nt]]]].
  exists lp, lt. split; [|split; [exact Rp | split; [exact Rt|]]].
  - rewrite Et. unfold s2. cbn [advance out set_clock]. rewrite Ep. reflexivity.
  - rewrite Nt, Np. reflexivity.
Qed.

(* ------------------------------------------------------------------ whole runs *)
(* a run as a list of timesteps: (time, records of the posted events, records of the tranche),
   each in chronological order *)
Definition stepr := (Q * list obs * list obs)%type.

Fixpoint steps_ok (t : Q) (steps : list stepr) : Prop :=
  match steps with
  | [] => True
  | (ti, lp, lt) :: rest =>
      ti = t /\ Qle_bool (t_maxtime tb) t = false /\
      Forall (posted_rec t) lp /\ Forall (tranche_rec tb t) lt /\ steps_ok (Qred (t + 1)) rest
  end.

Definition flat (steps : list stepr) : list obs := flat_map (fun x : stepr => snd (fst x) ++ snd x) steps.
Definition step_events (x : stepr) : nat := (nposted (snd (fst x)) + nfired (snd x))%nat.
Definition total_events (steps : list stepr) : nat := fold_right (fun x a => (step_events x + a)%nat) 0%nat steps.
Definition busy_steps (steps : list stepr) : nat := length (filter (fun x => (0 <? step_events x)%nat) steps).

Fixpoint time_after (t : Q) (n : nat) : Q :=
  match n with O => t | S n' => time_after (Qred (t + 1)) n' end.

Lemma Qred_inject_Z : forall k, Qred (inject_Z k) = inject_Z k.
Proof.
  intros k. unfold Qred, inject_Z.
  generalize (Z.ggcd_gcd k 1) (Z.ggcd_correct_divisors k 1).
  destruct (Z.ggcd k 1) as [g [aa bb]]. cbn [fst snd]. rewrite Z.gcd_1_r. intros -> [H1 H2].
  rewrite Z.mul_1_l in H1, H2. subst. reflexivity.
Qed.

(* step times are integers: from 1, exactly 1, 2, 3, ... *)
Lemma time_after_inject : forall n z, time_after (inject_Z z) n = inject_Z (z + Z.of_nat n).
Proof.
  induction n as [|n IH]; intros z.
  - cbn [time_after]. rewrite Z.add_0_r. reflexivity.
  - cbn [time_after]. change 1 with (inject_Z 1). rewrite <- inject_Z_plus, Qred_inject_Z, IH.
    f_equal. lia.
Qed.

Lemma nfired_rev : forall l, nfired (rev l) = nfired l.
Proof.
  induction l as [|o l IH]; [reflexivity|]. cbn [rev]. rewrite nfired_app, IH.
  change (o :: l) with ([o] ++ l). rewrite nfired_app. lia.
Qed.

Lemma nposted_rev : forall l, nposted (rev l) = nposted l.
Proof.
  induction l as [|o l IH]; [reflexivity|]. cbn [rev]. rewrite nposted_app, IH.
  change (o :: l) with ([o] ++ l). rewrite nposted_app. lia.
Qed.

Lemma sync_loop_spec : forall pf fuel t ev stp s t' ev' stp' s',
  sync_loop tb pf fuel t ev stp s = (t', ev', stp', s') ->
  exists steps,
    rev (out s') = rev (out s) ++ flat steps /\
    steps_ok t steps /\
    t' = time_after t (length steps) /\
    ev' = (ev + total_events steps)%nat /\
    stp' = (stp + busy_steps steps)%nat /\
    (stuck s' = false -> at_equil tb t' s' = true).
Proof.
  intros pf. induction fuel as [|f IH]; intros t ev stp s t' ev' stp' s' H.
  - cbn [sync_loop] in H. inversion H; subst. exists []. cbn.
    rewrite app_nil_r, !Nat.add_0_r. repeat split. discriminate.
  - rewrite sync_loop_S in H. destruct (at_equil tb t s) eqn:Heq.
    + inversion H; subst. exists []. cbn. rewrite app_nil_r, !Nat.add_0_r. repeat split. intros _; exact Heq.
    + destruct (sync_step_spec pf t s) as [lp [lt [Eo [Rp [Rt Nn]]]]].
      destruct (sync_step pf t s) as [nev s3]. cbn [fst snd] in *.
      destruct (IH _ _ _ _ _ _ _ _ H) as [steps (E1 & E2 & E3 & E4 & E5 & E6)].
      exists ((t, rev lp, rev lt) :: steps).
      assert (Hn : step_events (t, rev lp, rev lt) = nev).
      { unfold step_events. cbn [fst snd]. rewrite nposted_rev, nfired_rev. symmetry; exact Nn. }
      split; [|split; [|split; [|split; [|split]]]].
      * rewrite E1, Eo. rewrite !rev_app_distr. unfold flat. cbn [flat_map fst snd]. rewrite <- !app_assoc. reflexivity.
      * cbn [steps_ok]. split; [reflexivity|]. split; [|split; [apply Forall_rev; exact Rp | split; [apply Forall_rev; exact Rt | exact E2]]].
        unfold at_equil in Heq. apply orb_false_iff in Heq. exact (proj1 Heq).
      * cbn [length time_after]. exact E3.
      * rewrite E4. cbn [total_events fold_right]. rewrite Hn. fold (total_events steps). lia.
      * rewrite E5. unfold busy_steps. cbn [filter]. rewrite Hn. destruct (0 <? nev)%nat; cbn [length]; lia.
      * exact E6.
Qed.

(* the records of the set-up phase, then the steps from time 1 *)
Lemma sync_run_spec : forall pf fuel rs ds, exists steps,
  let r := sync_run tb pf fuel rs ds in
  r_out r = rev (out (setup_state tb rs [] ds)) ++ flat steps /\
  steps_ok 1 steps /\
  r_time r = inject_Z (Z.of_nat (S (length steps))) /\
  r_events r = total_events steps /\
  r_steps r = busy_steps steps /\
  (r_stuck r = false -> at_equil tb (r_time r) (r_final r) = true).
Proof.
  intros pf fuel rs ds. unfold sync_run.
  destruct (sync_loop tb pf fuel 1 0 0 (setup_state tb rs [] ds)) as [[[t' ev'] stp'] s'] eqn:E.
  destruct (sync_loop_spec _ _ _ _ _ _ _ _ _ _ E) as [steps (E1 & E2 & E3 & E4 & E5 & E6)].
  exists steps. cbn [r_out r_time r_events r_steps r_stuck r_final].
  split; [exact E1|]. split; [exact E2|]. split; [|split; [exact E4 | split; [exact E5 | exact E6]]].
  rewrite E3. change 1 with (inject_Z 1). rewrite time_after_inject. f_equal. lia.
Qed.

(* the k-th step (from 0) runs at time k + 1 *)
Lemma steps_ok_nth : forall steps t k x, steps_ok t steps -> nth_error steps k = Some x ->
  fst (fst x) = time_after t k /\ Qle_bool (t_maxtime tb) (time_after t k) = false /\
  Forall (posted_rec (time_after t k)) (snd (fst x)) /\ Forall (tranche_rec tb (time_after t k)) (snd x).
Proof.
  induction steps as [|[[ti lp] lt] steps IH]; intros t k x H E; [destruct k; discriminate|].
  cbn [steps_ok] in H. destruct H as (H1 & H2 & H3 & H4 & H5).
  destruct k as [|k].
  - inversion E; subst. cbn [time_after fst snd]. repeat split; assumption.
  - cbn [nth_error time_after] in *. exact (IH _ _ _ H5 E).
Qed.

(* what is known of every record of a run, under either dynamics: handlers of stochastic events
   are called on members, taps of stochastic events name registered events of positive probability *)
Definition run_rec : obs -> Prop := stoch_rec (fun x => In x (all_events tb) /\ 0 < ev_p (snd x)).

Lemma tranche_run_rec : forall t o, tranche_rec tb t o -> run_rec o.
Proof.
  intros t o. destruct o; simpl; tauto.
Qed.

Lemma steps_ok_flat : forall steps t, steps_ok t steps -> Forall run_rec (flat steps).
Proof.
  induction steps as [|[[ti lp] lt] steps IH]; intros t H; [constructor|].
  cbn [steps_ok] in H. destruct H as (_ & _ & H3 & H4 & H5).
  unfold flat. cbn [flat_map fst snd]. apply Forall_app; split; [apply Forall_app; split|].
  - exact (Forall_impl _ (posted_stoch _ t) H3).
  - exact (Forall_impl _ (tranche_run_rec t) H4).
  - exact (IH _ H5).
Qed.

Lemma sync_run_records : forall pf fuel rs ds, Forall run_rec (r_out (sync_run tb pf fuel rs ds)).
Proof.
  intros pf fuel rs ds. destruct (sync_run_spec pf fuel rs ds) as [steps (E1 & E2 & _)].
  rewrite E1. apply Forall_app; split; [|exact (steps_ok_flat _ _ E2)].
  apply Forall_rev. eapply Forall_impl; [apply act_stoch|]. exact (proj1 (setup_state_out tb rs [] ds)).
Qed.

(* reading run_rec *)
Lemma run_rec_member : forall k t c e m, run_rec (OHandler k t c e (Some m)) -> m = true.
Proof. intros k t c e m [H|H]; [discriminate | inversion H; reflexivity]. Qed.

Lemma run_rec_tap : forall t pi pi' j e, run_rec (OTap t pi (NEv pi' j) e) ->
  pi' = pi /\ exists ev, In (pi, j, ev) (all_events tb) /\ 0 < ev_p ev.
Proof.
  intros t pi pi' j e [[k H]|(j' & ev & H1 & H2 & H3)]; [discriminate|].
  inversion H1; subst. split; [reflexivity|]. exists ev. split; assumption.
Qed.

Lemma run_rec_zero : forall t pi j e ev, In (pi, j, ev) (all_events tb) -> ev_p ev == 0 ->
  ~ run_rec (OTap t pi (NEv pi j) e).
Proof.
  intros t pi j e ev Hin Hz H. apply run_rec_tap in H. destruct H as (_ & ev' & Hin' & Hp).
  rewrite (all_events_fun tb _ _ _ _ Hin Hin') in Hz. rewrite Hz in Hp. exact (Qlt_irrefl _ Hp).
Qed.

End KS.
