(* Proofs about Model/NetStats.v (C12, statistics clause). *)
From Coq Require Import List ZArith QArith Bool Arith Lia Permutation.
From EpyV Require Import Lib.Prelude Model.NetStats.
Import ListNotations.
Close Scope Q_scope.
Open Scope nat_scope.

Definition sum_deg (nodes : list Z) (es : list edge) : nat := fold_right (fun n a => degree es n + a) 0 nodes.

(* endpoints of every edge are nodes; nodes are listed once *)
Definition closed (nodes : list Z) (es : list edge) : Prop :=
  forall e, In e es -> In (fst e) nodes /\ In (snd e) nodes.

Lemma sum_deg_nil nodes : sum_deg nodes [] = 0.
Proof. induction nodes as [|n ns IH]; cbn; [reflexivity | exact IH]. Qed.

Lemma sum_deg_cons nodes e es : sum_deg nodes (e :: es) = fold_right (fun n a => deg1 n e + a) 0 nodes + sum_deg nodes es.
Proof.
  unfold sum_deg. induction nodes as [|n ns IH]; cbn [fold_right]; [reflexivity|].
  change (degree (e :: es) n) with (deg1 n e + degree es n). rewrite IH. lia.
Qed.

Lemma count_one (x : Z) nodes : NoDup nodes -> In x nodes ->
  fold_right (fun n a => (if Z.eqb x n then 1 else 0) + a) 0 nodes = 1.
Proof.
  induction nodes as [|n ns IH]; intros ND Hin; [destruct Hin|].
  inversion ND as [|? ? Hn ND']; subst. cbn.
  destruct (Z.eqb_spec x n) as [->|Hne].
  - assert (H0 : fold_right (fun n0 a => (if Z.eqb n n0 then 1 else 0) + a) 0 ns = 0).
    { clear -Hn. induction ns as [|m ms IHm]; cbn; [reflexivity|].
      destruct (Z.eqb_spec n m) as [->|_]; [exfalso; apply Hn; left; reflexivity|].
      apply IHm. intros H; apply Hn; right; exact H. }
    rewrite H0. reflexivity.
  - destruct Hin as [->|Hin]; [congruence|]. rewrite (IH ND' Hin). reflexivity.
Qed.

Lemma deg1_total nodes e : NoDup nodes -> In (fst e) nodes -> In (snd e) nodes ->
  fold_right (fun n a => deg1 n e + a) 0 nodes = 2.
Proof.
  intros ND H1 H2. unfold deg1.
  assert (E : forall l, fold_right (fun n a => (if Z.eqb (fst e) n then 1 else 0) + (if Z.eqb (snd e) n then 1 else 0) + a) 0 l
                        = fold_right (fun n a => (if Z.eqb (fst e) n then 1 else 0) + a) 0 l
                          + fold_right (fun n a => (if Z.eqb (snd e) n then 1 else 0) + a) 0 l).
  { induction l as [|n l IH]; cbn; [reflexivity | rewrite IH; lia]. }
  rewrite E, (count_one _ _ ND H1), (count_one _ _ ND H2). reflexivity.
Qed.

(* the handshake lemma, self-loops counted twice *)
Lemma handshake nodes es : NoDup nodes -> closed nodes es -> sum_deg nodes es = 2 * length es.
Proof.
  intros ND. induction es as [|e es IH]; intros Hc; [apply sum_deg_nil|].
  rewrite sum_deg_cons, IH by (intros x Hx; apply Hc; right; exact Hx).
  destruct (Hc e (or_introl eq_refl)) as [H1 H2].
  rewrite (deg1_total nodes e ND H1 H2). change (length (e :: es)) with (S (length es)). lia.
Qed.

(* ---- histogram *)
Lemma degree_le_max nodes es n : In n nodes -> degree es n <= max_degree nodes es.
Proof.
  unfold max_degree. induction nodes as [|m ms IH]; intros H; [destruct H|].
  cbn [fold_right]. destruct H as [->|H]; [lia | specialize (IH H); lia].
Qed.

Lemma max_degree_attained nodes es : nodes <> [] -> exists n, In n nodes /\ degree es n = max_degree nodes es.
Proof.
  induction nodes as [|m ms IH]; intros H; [congruence|].
  destruct ms as [|m' ms'].
  - exists m. split; [left; reflexivity | unfold max_degree; cbn [fold_right]; lia].
  - destruct (IH ltac:(discriminate)) as (n & Hn & E).
    change (max_degree (m :: m' :: ms') es) with (Nat.max (degree es m) (max_degree (m' :: ms') es)).
    destruct (Nat.max_spec (degree es m) (max_degree (m' :: ms') es)) as [[_ Hm]|[_ Hm]]; rewrite Hm.
    + exists n. split; [right; exact Hn | exact E].
    + exists m. split; [left; reflexivity | reflexivity].
Qed.

Lemma histogram_length nodes es : nodes <> [] -> length (histogram nodes es) = S (max_degree nodes es).
Proof. destruct nodes; [congruence|]. intros _. unfold histogram. rewrite map_length, seq_length. reflexivity. Qed.

Lemma histogram_nth nodes es i : nodes <> [] -> i <= max_degree nodes es ->
  nth i (histogram nodes es) 0 = count_deg nodes es i.
Proof.
  destruct nodes as [|n ns]; [congruence|]. intros _ Hi. unfold histogram.
  rewrite (nth_indep _ 0 (count_deg (n :: ns) es 0)) by (rewrite map_length, seq_length; lia).
  rewrite (map_nth (count_deg (n :: ns) es)), seq_nth by lia. reflexivity.
Qed.

(* sums over the histogram, via counting per node *)
Fixpoint wsum_from (i k : nat) (f : nat -> nat) : nat :=
  match k with O => 0 | S k' => i * f i + wsum_from (S i) k' f end.
Fixpoint sum_from (i k : nat) (f : nat -> nat) : nat :=
  match k with O => 0 | S k' => f i + sum_from (S i) k' f end.

Lemma weighted_sum_map i k f : weighted_sum i (map f (seq i k)) = wsum_from i k f.
Proof. revert i; induction k as [|k IH]; intros i; cbn; [reflexivity | rewrite IH; reflexivity]. Qed.

Lemma wsum_indicator i k d : wsum_from i k (fun j => if Nat.eqb d j then 1 else 0) = if (i <=? d) && (d <? i + k) then d else 0.
Proof.
  revert i; induction k as [|k IH]; intros i; cbn [wsum_from].
  - destruct (Nat.leb_spec i d), (Nat.ltb_spec d (i + 0)); cbn; try reflexivity; lia.
  - rewrite IH. destruct (Nat.eqb_spec d i) as [->|Hne].
    + destruct (Nat.leb_spec (S i) i), (Nat.leb_spec i i), (Nat.ltb_spec i (i + S k)), (Nat.ltb_spec i (S i + k)); cbn; lia.
    + destruct (Nat.leb_spec (S i) d), (Nat.leb_spec i d), (Nat.ltb_spec d (i + S k)), (Nat.ltb_spec d (S i + k)); cbn; lia.
Qed.
Lemma sum_indicator i k d : sum_from i k (fun j => if Nat.eqb d j then 1 else 0) = if (i <=? d) && (d <? i + k) then 1 else 0.
Proof.
  revert i; induction k as [|k IH]; intros i; cbn [sum_from].
  - destruct (Nat.leb_spec i d), (Nat.ltb_spec d (i + 0)); cbn; try reflexivity; lia.
  - rewrite IH. destruct (Nat.eqb_spec d i) as [->|Hne].
    + destruct (Nat.leb_spec (S i) i), (Nat.leb_spec i i), (Nat.ltb_spec i (i + S k)), (Nat.ltb_spec i (S i + k)); cbn; lia.
    + destruct (Nat.leb_spec (S i) d), (Nat.leb_spec i d), (Nat.ltb_spec d (i + S k)), (Nat.ltb_spec d (S i + k)); cbn; lia.
Qed.

Lemma wsum_ext i k f g : (forall j, f j = g j) -> wsum_from i k f = wsum_from i k g.
Proof. intros E. revert i; induction k as [|k IH]; intros i; cbn; [reflexivity | rewrite E, IH; reflexivity]. Qed.
Lemma wsum_add i k f g : wsum_from i k (fun j => f j + g j) = wsum_from i k f + wsum_from i k g.
Proof. revert i; induction k as [|k IH]; intros i; cbn; [reflexivity | rewrite IH; lia]. Qed.
Lemma sum_ext i k f g : (forall j, f j = g j) -> sum_from i k f = sum_from i k g.
Proof. intros E. revert i; induction k as [|k IH]; intros i; cbn; [reflexivity | rewrite E, IH; reflexivity]. Qed.
Lemma sum_add i k f g : sum_from i k (fun j => f j + g j) = sum_from i k f + sum_from i k g.
Proof. revert i; induction k as [|k IH]; intros i; cbn; [reflexivity | rewrite IH; lia]. Qed.

Lemma count_deg_cons n ns es i :
  count_deg (n :: ns) es i = (if Nat.eqb (degree es n) i then 1 else 0) + count_deg ns es i.
Proof. unfold count_deg. cbn. destruct (Nat.eqb (degree es n) i); reflexivity. Qed.

Lemma wsum_counts es K ns : (forall n, In n ns -> degree es n <= K) ->
  wsum_from 0 (S K) (count_deg ns es) = sum_deg ns es.
Proof.
  induction ns as [|n ns IH]; intros Hb.
  - cbn [sum_deg fold_right]. clear. generalize 0 at 1. induction (S K) as [|k IHk]; intros i; cbn; [reflexivity|].
    rewrite IHk. unfold count_deg. cbn. lia.
  - rewrite (wsum_ext _ _ _ _ (count_deg_cons n ns es)), wsum_add, IH by (intros m Hm; apply Hb; right; exact Hm).
    rewrite wsum_indicator. specialize (Hb n (or_introl eq_refl)).
    change (sum_deg (n :: ns) es) with (degree es n + sum_deg ns es).
    destruct (Nat.leb_spec 0 (degree es n)), (Nat.ltb_spec (degree es n) (0 + S K)); cbn [andb]; lia.
Qed.

Lemma sum_counts es K ns : (forall n, In n ns -> degree es n <= K) ->
  sum_from 0 (S K) (count_deg ns es) = length ns.
Proof.
  induction ns as [|n ns IH]; intros Hb.
  - clear. generalize 0 at 1. induction (S K) as [|k IHk]; intros i; cbn; [reflexivity|]. rewrite IHk. reflexivity.
  - rewrite (sum_ext _ _ _ _ (count_deg_cons n ns es)), sum_add, IH by (intros m Hm; apply Hb; right; exact Hm).
    rewrite sum_indicator. specialize (Hb n (or_introl eq_refl)).
    destruct (Nat.leb_spec 0 (degree es n)), (Nat.ltb_spec (degree es n) (0 + S K)); cbn [andb length]; lia.
Qed.

Lemma histogram_weighted nodes es : NoDup nodes -> closed nodes es -> nodes <> [] ->
  weighted_sum 0 (histogram nodes es) = 2 * length es.
Proof.
  intros ND Hc Hne. rewrite <- (handshake nodes es ND Hc).
  destruct nodes as [|n ns]; [congruence|]. unfold histogram.
  rewrite weighted_sum_map. apply wsum_counts. intros m Hm. apply degree_le_max. exact Hm.
Qed.

Lemma list_sum_map i k f : list_sum (map f (seq i k)) = sum_from i k f.
Proof. revert i; induction k as [|k IH]; intros i; cbn; [reflexivity | rewrite IH; reflexivity]. Qed.

Lemma histogram_total nodes es : list_sum (histogram nodes es) = length nodes.
Proof.
  destruct nodes as [|n ns]; [reflexivity|]. unfold histogram.
  rewrite list_sum_map. apply sum_counts. intros m Hm. apply degree_le_max. exact Hm.
Qed.

(* ---- largest and second-largest component from the sorted size list *)
Lemma insert_desc_perm x l : Permutation (insert_desc x l) (x :: l).
Proof.
  induction l as [|y l IH]; cbn; [reflexivity|].
  destruct (y <=? x); [reflexivity|]. rewrite IH. apply perm_swap.
Qed.
Lemma sort_desc_perm l : Permutation (sort_desc l) l.
Proof. induction l as [|x l IH]; cbn; [reflexivity|]. rewrite insert_desc_perm. constructor. exact IH. Qed.

Inductive desc : list nat -> Prop :=
| desc_nil : desc []
| desc_one x : desc [x]
| desc_cons x y l : y <= x -> desc (y :: l) -> desc (x :: y :: l).

Lemma insert_desc_desc x l : desc l -> desc (insert_desc x l).
Proof.
  induction 1 as [|y|y z l Hzy Hd IH]; cbn.
  - constructor.
  - destruct (Nat.leb_spec y x); repeat constructor; lia.
  - destruct (Nat.leb_spec y x) as [H|H]; [constructor; [exact H | constructor; assumption]|].
    cbn in IH. destruct (Nat.leb_spec z x) as [H2|H2].
    + constructor; [lia|]. exact IH.
    + constructor; [exact Hzy|]. exact IH.
Qed.
Lemma sort_desc_desc l : desc (sort_desc l).
Proof. induction l as [|x l IH]; cbn; [constructor | apply insert_desc_desc; exact IH]. Qed.

Lemma desc_head_max x l : desc (x :: l) -> forall y, In y (x :: l) -> y <= x.
Proof.
  revert x; induction l as [|z l IH]; intros x Hd y Hy.
  - destruct Hy as [<-|[]]. lia.
  - inversion Hd as [| |? ? ? Hzx Hd']; subst.
    destruct Hy as [<-|Hy]; [lia|]. specialize (IH z Hd' y Hy). lia.
Qed.
