(* C02: the jump chain.  One iteration of the stochastic loop from a state with total rate a > 0
   and no pending posted event, with the uniform variate r2 replaced by the lengths of the
   intervals of r2 that select each kind (Proofs/GillespieSelect.v: select_measure) and the rank
   draw replaced by the uniform distribution on the ranks of the chosen locus, is a finite
   distribution over (kind, element).  It equals the jump law of the continuous-time Markov chain
   of the table: each (kind j, element e of its locus) has probability p_j / a for a per-element
   event and p_j / (|locus| a) for a fixed-rate one.  By induction the n-step law of any observation
   of the absorbing chain is the one of the CTMC's jump chain.  All over Q, no axioms. *)
From Coq Require Import List ZArith QArith Bool Arith Lia Lqa.
From EpyV Require Import Lib.Dist Model.Kernel Proofs.GillespieSelect Proofs.GillespieRates.
Import ListNotations.
Open Scope Q_scope.

Notation tr := (nat * nat * event)%type.
Definition dflt : tr := (0%nat, 0%nat, {| ev_elem := false; ev_locus := 0; ev_p := 0; ev_prog := 0 |}).

(* ------------------------------------------------------------------ r2 replaced by interval lengths *)
(* the set of r2 in [0,1) for which the scan returns entry j is [sel_lo j, sel_hi j) *)
Definition sel_lo {A} (f : A -> Q) (l : list A) (j : nat) : Q := prefix f l j / sumf f l.
Definition sel_hi {A} (f : A -> Q) (l : list A) (j : nat) : Q := prefix f l (S j) / sumf f l.
Definition kind_dist {A} (f : A -> Q) (l : list A) : dist nat :=
  map (fun j => (j, sel_hi f l j - sel_lo f l j)) (seq 0 (length l)).

Lemma sel_length : forall A (f : A -> Q) l j d, (j < length l)%nat -> ~ sumf f l == 0 ->
  sel_hi f l j - sel_lo f l j == f (nth j l d) / sumf f l.
Proof. intros A f l j d Hj Ha. unfold sel_hi, sel_lo. rewrite (prefix_S _ f l j d Hj). field. exact Ha. Qed.

(* the rank draw replaced by the uniform distribution on ranks (nothing is drawn from an empty locus) *)
Definition elem_dist (l : list elem) : dist (option elem) :=
  match l with
  | [] => ret None
  | _ => bind (uniform (length l)) (fun k => ret (Some (nth (k mod length l) l (EN 0))))
  end.

Definition outcome := (nat * option elem)%type.
Definition oelem_eqb (a b : option elem) : bool :=
  match a, b with None, None => true | Some x, Some y => elem_eqb x y | _, _ => false end.
Definition out_eqb (a b : outcome) : bool := Nat.eqb (fst a) (fst b) && oelem_eqb (snd a) (snd b).

Lemma elem_eqb_eq' : forall x y, elem_eqb x y = true <-> x = y.
Proof.
  intros x y. split.
  - destruct x, y; cbn [elem_eqb]; try discriminate.
    + intros H. apply Z.eqb_eq in H. subst. reflexivity.
    + intros H. apply andb_true_iff in H. destruct H as [H1 H2]. apply Z.eqb_eq in H1. apply Z.eqb_eq in H2. subst. reflexivity.
  - intros <-. destruct x; cbn [elem_eqb]; rewrite ?Z.eqb_refl; reflexivity.
Qed.

Lemma out_eqb_eq : forall a b, out_eqb a b = true <-> a = b.
Proof.
  intros [j oe] [j' oe']. unfold out_eqb. cbn [fst snd]. rewrite andb_true_iff, Nat.eqb_eq. split.
  - intros [-> H]. f_equal. destruct oe, oe'; cbn [oelem_eqb] in H; try discriminate; [|reflexivity].
    apply elem_eqb_eq' in H. subst. reflexivity.
  - intros E. inversion E; subst. split; [reflexivity|]. destruct oe'; cbn [oelem_eqb]; [apply elem_eqb_eq'|]; reflexivity.
Qed.

Section Jump.
Variable W : Type.
Variable tb : table W.
Notation st := (st W).

Definition locus_of (s : st) (j : nat) : list elem := locus s (ev_locus (snd (nth j (transitions tb) dflt))).

(* the model's iteration as a distribution over (kind, element) *)
Definition jump_dist (s : st) : dist outcome :=
  bind (kind_dist (rate s) (transitions tb))
       (fun j => bind (elem_dist (locus_of s j)) (fun oe => ret (j, oe))).

(* the jump law of the CTMC of the table in state s: kind j acts on each element of its locus at
   rate p_j (per-element) or p_j / |locus| (fixed rate, uniformly spread; with an empty locus it
   is a jump that changes nothing); a jump has probability rate / a *)
Definition ctmc_entry (s : st) (a : Q) (j : nat) : dist outcome :=
  let ev := snd (nth j (transitions tb) dflt) in
  let l := locus_of s j in
  match l with
  | [] => [((j, None), (if ev_elem ev then 0 else ev_p ev) / a)]
  | _ => map (fun e => ((j, Some e), (if ev_elem ev then ev_p ev else ev_p ev / qlen l) / a)) l
  end.
Definition total_rate (s : st) : Q := sumf (rate s) (transitions tb).
Definition ctmc_jump (s : st) : dist outcome :=
  flat_map (ctmc_entry s (total_rate s)) (seq 0 (length (transitions tb))).

Lemma mass_kind_bind : forall (w : nat -> Q) (F : nat -> dist outcome) js y,
  mass out_eqb (bind (map (fun j => (j, w j)) js) F) y == sumf (fun j => w j * mass out_eqb (F j) y) js.
Proof.
  intros w F js y. rewrite mass_bind. unfold expect. rewrite sumf_map. reflexivity.
Qed.

Lemma qlen_neq0 : forall l : list elem, l <> [] -> ~ qlen l == 0.
Proof. intros l H E. assert (H0 := qlen_pos l H). rewrite E in H0. exact (Qlt_irrefl 0 H0). Qed.

Theorem jump_law : forall s : st, ~ total_rate s == 0 -> deq out_eqb (jump_dist s) (ctmc_jump s).
Proof.
  intros s Ha y. unfold jump_dist, ctmc_jump, kind_dist.
  rewrite mass_kind_bind, mass_flat_map. apply sumf_ext. intros j Hj. apply in_seq in Hj.
  assert (Hj' : (j < length (transitions tb))%nat) by lia.
  rewrite (sel_length _ (rate s) (transitions tb) j dflt Hj' Ha). fold (total_rate s).
  unfold ctmc_entry. set (x := nth j (transitions tb) dflt). set (a := total_rate s) in *.
  assert (Hl : locus_of s j = locus s (ev_locus (snd x))) by reflexivity.
  destruct (locus_of s j) as [|e0 l'] eqn:El.
  - (* empty locus: nothing is drawn *)
    cbn [elem_dist]. unfold bind, ret, scale. cbn [flat_map map app fst snd]. rewrite !mass_cons, !mass_nil.
    assert (Er : rate s x == (if ev_elem (snd x) then 0 else ev_p (snd x))).
    { destruct (ev_elem (snd x)) eqn:Ee.
      - apply rate_elem_empty; [exact Ee | symmetry; exact Hl].
      - rewrite (rate_fixed W s x Ee). reflexivity. }
    rewrite Er. field. exact Ha.
  - set (l := e0 :: l') in *. assert (Hne : l <> []) by discriminate.
    change (elem_dist l) with (bind (uniform (length l)) (fun k => ret (Some (nth (k mod length l) l (EN 0))))).
    rewrite mass_expect, !expect_bind. unfold uniform. unfold expect at 1. rewrite sumf_map. cbn [fst snd].
    rewrite (sumf_ext _ _ (fun k => (1 / inject_Z (Z.of_nat (length l))) * ind (out_eqb (j, Some (nth (k mod length l) l (EN 0))) y))).
    2:{ intros k _. rewrite !expect_ret. reflexivity. }
    rewrite sumf_scal.
    rewrite (sumf_ranks _ (fun e => ind (out_eqb (j, Some e) y)) l (EN 0)).
    unfold mass. rewrite sumf_map. cbn [fst snd].
    rewrite <- sumf_scal. rewrite <- sumf_scal. apply sumf_ext. intros e _.
    assert (Hq : ~ qlen l == 0) by (apply qlen_neq0; exact Hne).
    assert (Er : rate s x == (if ev_elem (snd x) then ev_p (snd x) * qlen l else ev_p (snd x))).
    { destruct (ev_elem (snd x)) eqn:Ee.
      - rewrite (rate_elem W s x Ee), <- Hl. reflexivity.
      - rewrite (rate_fixed W s x Ee). reflexivity. }
    rewrite Er. change (inject_Z (Z.of_nat (length l))) with (qlen l).
    destruct (ev_elem (snd x)); field; split; assumption.
Qed.

(* the probabilities, spelled out *)
Theorem ctmc_jump_mass : forall (s : st) j e, (j < length (transitions tb))%nat ->
  NoDup (locus_of s j) -> In e (locus_of s j) ->
  let ev := snd (nth j (transitions tb) dflt) in
  mass out_eqb (ctmc_jump s) (j, Some e)
  == (if ev_elem ev then ev_p ev else ev_p ev / qlen (locus_of s j)) / total_rate s.
Proof.
  intros s j e Hj Hnd Hin ev. unfold ctmc_jump. rewrite mass_flat_map.
  rewrite (sumf_single _ j); [|apply seq_NoDup|apply in_seq; lia|].
  - unfold ctmc_entry. fold ev. destruct (locus_of s j) as [|e0 l'] eqn:El; [destruct Hin|].
    set (l := e0 :: l') in *. set (c := (if ev_elem ev then ev_p ev else ev_p ev / qlen l) / total_rate s).
    unfold mass. rewrite sumf_map. cbn [fst snd].
    assert (H := sum_indicator elem_eqb elem_eqb_eq' (fun _ => c) e 1 l Hnd Hin).
    rewrite Qmult_1_l in H. rewrite <- H. apply sumf_ext. intros e' _.
    unfold out_eqb. cbn [fst snd oelem_eqb]. rewrite Nat.eqb_refl. cbn [andb].
    assert (Es : elem_eqb e' e = elem_eqb e e').
    { destruct (elem_eqb e e') eqn:E1.
      - apply elem_eqb_eq' in E1. subst. apply elem_eqb_eq'. reflexivity.
      - destruct (elem_eqb e' e) eqn:E2; [|reflexivity]. apply elem_eqb_eq' in E2. subst.
        rewrite (proj2 (elem_eqb_eq' e e) eq_refl) in E1. discriminate. }
    rewrite Es. ring.
  - intros k Hk Hne. unfold ctmc_entry. destruct (locus_of s k).
    + rewrite mass_cons, mass_nil. unfold out_eqb. cbn [fst snd]. rewrite (proj2 (Nat.eqb_neq k j) Hne). cbn. ring.
    + unfold mass. rewrite sumf_map. apply sumf_zero. intros e' _. cbn [fst snd]. unfold out_eqb. cbn [fst snd].
      rewrite (proj2 (Nat.eqb_neq k j) Hne). cbn. ring.
Qed.

Corollary jump_law_mass : forall (s : st) j e, ~ total_rate s == 0 -> (j < length (transitions tb))%nat ->
  NoDup (locus_of s j) -> In e (locus_of s j) ->
  let ev := snd (nth j (transitions tb) dflt) in
  mass out_eqb (jump_dist s) (j, Some e)
  == (if ev_elem ev then ev_p ev else ev_p ev / qlen (locus_of s j)) / total_rate s.
Proof. intros s j e Ha Hj Hnd Hin ev. rewrite (jump_law s Ha (j, Some e)). apply ctmc_jump_mass; assumption. Qed.

(* ------------------------------------------------------------------ the absorbing jump chain *)
Section Chain.
Variable O : Type.
Variable observe : st -> O.
Variable eqbO : option O -> option O -> bool.

(* what the loop does once kind and element are known (stoch_step_many / stoch_step_one):
   the clock is set, and if an element was drawn the event function runs and is tapped *)
Definition next (s : st) (nt : Q) (je : outcome) : st :=
  match snd je with
  | None => set_clock nt s
  | Some e => fire_event tb (nth (fst je) (transitions tb) dflt) nt e (set_clock nt s)
  end.
(* the loop leaves the stochastic branch when the process' own equilibrium test holds or a = 0
   (no time limit here: the chain is followed until absorption) *)
Definition absorbed (s : st) : bool := t_equil tb (loci s) (world s) || Qeq_bool (sum_rates s (transitions tb)) 0.

(* law of the observation at absorption, within |nts| jumps taking place at the times nts
   (None: not absorbed yet) *)
Fixpoint outcome_dist (nts : list Q) (s : st) : dist (option O) :=
  if absorbed s then ret (Some (observe s))
  else match nts with
       | [] => ret None
       | nt :: nts' => bind (jump_dist s) (fun je => outcome_dist nts' (next s nt je))
       end.
Fixpoint ctmc_outcome (nts : list Q) (s : st) : dist (option O) :=
  if absorbed s then ret (Some (observe s))
  else match nts with
       | [] => ret None
       | nt :: nts' => bind (ctmc_jump s) (fun je => ctmc_outcome nts' (next s nt je))
       end.

Theorem outcome_law : forall nts (s : st), deq eqbO (outcome_dist nts s) (ctmc_outcome nts s).
Proof.
  induction nts as [|nt nts IH]; intros s; cbn [outcome_dist ctmc_outcome].
  - destruct (absorbed s); apply deq_refl.
  - destruct (absorbed s) eqn:Eab; [apply deq_refl|].
    apply (bind_cong out_eqb out_eqb_eq).
    + apply jump_law. intros E. unfold absorbed in Eab. apply orb_false_iff in Eab. destruct Eab as [_ Eab].
      assert (E' : sum_rates s (transitions tb) == 0) by (rewrite sum_rates_sumf; exact E).
      apply Qeq_bool_iff in E'. congruence.
    + intros je. apply IH.
Qed.

End Chain.
End Jump.
