(* The event distribution of a (nested) ProcessSequence against the kernel model:
   Kernel.all_events_from over the flattening is the concatenation, hence the multiset union,
   of the component processes' events, each attributed to its component; the rates agree;
   and a process without stochastic events changes neither the transitions, nor their rates,
   nor what the schedulers take from the random source. *)
From Coq Require Import List ZArith QArith Bool Arith String Permutation Lia.
From EpyV Require Import Model.Kernel Model.Sequence Proofs.Sequence.
Import ListNotations.
Close Scope Q_scope.
Open Scope list_scope.

(* ------------------------------------------------------------------ all_events_from *)
Lemma index_events_snd pi j evs : map snd (index_events pi j evs) = evs.
Proof. revert j. induction evs as [|e evs IH]; intro j; simpl; [reflexivity|]. rewrite IH. reflexivity. Qed.

Lemma all_events_from_snd pi ps : map snd (all_events_from pi ps) = flat_map p_events ps.
Proof.
  revert pi. induction ps as [|p ps IH]; intro pi; simpl; [reflexivity|].
  rewrite map_app, index_events_snd, IH. reflexivity.
Qed.

Lemma index_events_in pi j0 evs x :
  In x (index_events pi j0 evs) <->
  exists j e, x = (pi, j0 + j, e) /\ nth_error evs j = Some e.
Proof.
  revert j0. induction evs as [|e0 evs IH]; intro j0; simpl.
  - split; [intros []|intros (j & e & _ & H); destruct j; discriminate].
  - rewrite IH. split.
    + intros [<-|(j & e & -> & H)].
      * exists 0, e0. rewrite Nat.add_0_r. split; reflexivity.
      * exists (S j), e. split; [f_equal; f_equal; lia|exact H].
    + intros (j & e & -> & H). destruct j as [|j]; simpl in H.
      * left. injection H as <-. rewrite Nat.add_0_r. reflexivity.
      * right. exists j, e. split; [f_equal; f_equal; lia|exact H].
Qed.

(* every slot (process, index) of every component appears, attributed to its component *)
Lemma all_events_from_in pi0 ps x :
  In x (all_events_from pi0 ps) <->
  exists pi j p e, x = (pi0 + pi, j, e) /\ nth_error ps pi = Some p /\ nth_error (p_events p) j = Some e.
Proof.
  revert pi0. induction ps as [|p0 ps IH]; intro pi0; simpl.
  - split; [intros []|intros (pi & j & p & e & _ & H & _); destruct pi; discriminate].
  - rewrite in_app_iff, IH, index_events_in. split.
    + intros [(j & e & -> & H)|(pi & j & p & e & -> & H1 & H2)].
      * exists 0, j, p0, e. rewrite Nat.add_0_r. repeat split; assumption.
      * exists (S pi), j, p, e. repeat split; [f_equal; f_equal; lia|assumption..].
    + intros (pi & j & p & e & -> & H1 & H2). destruct pi as [|pi]; simpl in H1.
      * left. injection H1 as <-. exists j, e. rewrite Nat.add_0_r. split; [reflexivity|exact H2].
      * right. exists pi, j, p, e. repeat split; [f_equal; f_equal; lia|assumption..].
Qed.

Lemma index_events_fst_NoDup pi j0 evs : NoDup (map fst (index_events pi j0 evs)).
Proof.
  revert j0. induction evs as [|e evs IH]; intro j0; simpl; [constructor|]. constructor; [|apply IH].
  intro Hin. apply in_map_iff in Hin. destruct Hin as (x & Ex & Hx). apply index_events_in in Hx.
  destruct Hx as (j & e' & -> & _). simpl in Ex. injection Ex as Ex. lia.
Qed.


Lemma NoDup_app_intro {A} (l1 l2 : list A) :
  NoDup l1 -> NoDup l2 -> (forall x, In x l1 -> In x l2 -> False) -> NoDup (l1 ++ l2).
Proof.
  intros H1 H2 Hd. induction H1 as [|a l1 Ha H1 IH]; simpl; [exact H2|]. constructor.
  - intro Hin. apply in_app_or in Hin. destruct Hin as [Hin|Hin]; [contradiction|]. apply (Hd a); [left; reflexivity|exact Hin].
  - apply IH. intros x Hx. apply Hd. right. exact Hx.
Qed.

(* ... and exactly once *)
Lemma all_events_from_NoDup pi0 ps : NoDup (map fst (all_events_from pi0 ps)).
Proof.
  revert pi0. induction ps as [|p ps IH]; intro pi0; simpl; [constructor|].
  rewrite map_app. apply NoDup_app_intro; [apply index_events_fst_NoDup|apply IH|].
  intros x H1 H2. apply in_map_iff in H1. apply in_map_iff in H2.
  destruct H1 as (y1 & E1 & H1). destruct H2 as (y2 & E2 & H2).
  apply index_events_in in H1. apply all_events_from_in in H2.
  destruct H1 as (j & e & -> & _). destruct H2 as (pi & j' & q & e' & -> & _).
  simpl in E1, E2. subst x. injection E2 as E2 _. lia.
Qed.

(* ------------------------------------------------------------------ the tree's events *)
(* the union of the components' events, by recursion on the nesting *)
Fixpoint tree_events (t : ptree procdesc) : list event :=
  match t with
  | Leaf p => p_events (kproc p)
  | Seq cs => flat_map tree_events cs
  | NamedSeq cs => flat_map (fun nc => tree_events (snd nc)) cs
  end.

Lemma flat_map_flat_map {A B C} (f : B -> list C) (g : A -> list B) (l : list A) :
  flat_map f (flat_map g l) = flat_map (fun a => flat_map f (g a)) l.
Proof. induction l as [|a l IH]; simpl; [reflexivity|]. rewrite flat_map_app, IH. reflexivity. Qed.

Lemma flat_map_ext_Forall {A B} (f g : A -> list B) (l : list A) :
  Forall (fun a => f a = g a) l -> flat_map f l = flat_map g l.
Proof. induction 1 as [|a l Ha _ IH]; simpl; [reflexivity|]. rewrite Ha, IH. reflexivity. Qed.

Lemma tree_events_flat (t : ptree procdesc) : flat_map p_events (kprocs t) = tree_events t.
Proof.
  unfold kprocs. induction t as [p|cs IH|cs IH] using ptree_ind'; simpl.
  - rewrite app_nil_r. reflexivity.
  - rewrite flat_map_concat_map, map_map, <- flat_map_concat_map, flat_map_flat_map.
    apply flat_map_ext_Forall. eapply Forall_impl; [|exact IH]. intros c Hc.
    rewrite <- Hc, (flat_map_concat_map p_events), map_map, <- flat_map_concat_map. reflexivity.
  - rewrite flat_map_concat_map, map_map, <- flat_map_concat_map, flat_map_flat_map.
    apply flat_map_ext_Forall. eapply Forall_impl; [|exact IH]. intros c Hc.
    rewrite <- Hc, (flat_map_concat_map p_events), map_map, <- flat_map_concat_map. reflexivity.
Qed.

Lemma filter_partition_perm {A} (f : A -> bool) (l : list A) :
  Permutation (filter f l ++ filter (fun x => negb (f x)) l) l.
Proof.
  induction l as [|a l IH]; simpl; [constructor|]. destruct (f a); simpl.
  - constructor. exact IH.
  - apply Permutation_sym, Permutation_cons_app, Permutation_sym, IH.
Qed.

Section WithTable.
Context {W : Type}.
Variable tb : table W.
Variable t : ptree procdesc.
Hypothesis Htb : t_procs tb = kprocs t.

(* the dynamics schedules exactly the union of the components' events *)
Theorem union_events :
  map snd (all_events tb) = tree_events t
  /\ Permutation (map snd (transitions tb)) (tree_events t)
  /\ NoDup (map fst (transitions tb))
  /\ (forall pi j e, In (pi, j, e) (transitions tb) <->
        exists p, nth_error (all_processes t) pi = Some p /\ nth_error (p_events (kproc p)) j = Some e).
Proof.
  assert (E : map snd (all_events tb) = tree_events t).
  { unfold all_events. rewrite Htb, all_events_from_snd. apply tree_events_flat. }
  assert (Hperm : Permutation (transitions tb) (all_events tb)).
  { unfold transitions, per_element, fixed_rate. apply (filter_partition_perm (fun x => ev_elem (snd x))). }
  split; [exact E|]. split; [|split].
  - rewrite <- E. apply Permutation_map, Hperm.
  - eapply Permutation_NoDup; [apply Permutation_sym, Permutation_map, Hperm|]. apply all_events_from_NoDup.
  - intros pi j e. split.
    + intro H. apply (Permutation_in _ Hperm) in H. unfold all_events in H. rewrite Htb in H.
      apply all_events_from_in in H. destruct H as (pi' & j' & p & e' & Ex & H1 & H2).
      injection Ex as -> -> ->. unfold kprocs in H1. rewrite nth_error_map in H1.
      destruct (nth_error (all_processes t) pi') as [q|]; [|discriminate]. injection H1 as <-.
      exists q. split; [reflexivity|exact H2].
    + intros (p & H1 & H2). apply (Permutation_in _ (Permutation_sym Hperm)).
      unfold all_events. rewrite Htb. apply all_events_from_in.
      exists pi, j, (kproc p), e. repeat split; [|exact H2]. unfold kprocs. rewrite nth_error_map, H1. reflexivity.
Qed.
End WithTable.

(* ------------------------------------------------------------------ agreement with the sequence's own distribution *)
Definition strip (x : nat * nat * event) : nat * event := (fst (fst x), snd x).

Lemma filter_index_events (f : event -> bool) pi j evs :
  map strip (filter (fun x => f (snd x)) (index_events pi j evs)) = map (pair pi) (filter f evs).
Proof.
  revert j. induction evs as [|e evs IH]; intro j; simpl; [reflexivity|].
  destruct (f e); simpl; rewrite IH; reflexivity.
Qed.

Lemma filter_elem_kproc p :
  filter ev_elem (p_events (kproc p)) = map (kevent true) (pd_elem p)
  /\ filter (fun e => negb (ev_elem e)) (p_events (kproc p)) = map (kevent false) (pd_fixed p).
Proof.
  simpl. rewrite !filter_app. split.
  - assert (H1 : forall l, filter ev_elem (map (kevent true) l) = map (kevent true) l)
      by (induction l as [|a l IH]; simpl; [|rewrite IH]; reflexivity).
    assert (H2 : forall l, filter ev_elem (map (kevent false) l) = [])
      by (induction l as [|a l IH]; simpl; [reflexivity|exact IH]).
    rewrite H1, H2, app_nil_r. reflexivity.
  - assert (H1 : forall l, filter (fun e => negb (ev_elem e)) (map (kevent true) l) = [])
      by (induction l as [|a l IH]; simpl; [reflexivity|exact IH]).
    assert (H2 : forall l, filter (fun e => negb (ev_elem e)) (map (kevent false) l) = map (kevent false) l)
      by (induction l as [|a l IH]; simpl; [|rewrite IH]; reflexivity).
    rewrite H1, H2. reflexivity.
Qed.

Lemma dist_from_kernel (f : event -> bool) pi (ps : list procdesc) :
  map strip (filter (fun x => f (snd x)) (all_events_from pi (map kproc ps)))
  = dist_from (fun p => filter f (p_events (kproc p))) pi ps.
Proof.
  revert pi. induction ps as [|p ps IH]; intro pi; [reflexivity|].
  cbn [map all_events_from dist_from]. rewrite filter_app, map_app, filter_index_events, IH. reflexivity.
Qed.

Lemma dist_from_map {X Y} (g : X -> Y) (sel : procdesc -> list X) pi ps :
  dist_from (fun p => map g (sel p)) pi ps = map (fun x => (fst x, g (snd x))) (dist_from sel pi ps).
Proof.
  revert pi. induction ps as [|p ps IH]; intro pi; simpl; [reflexivity|].
  rewrite map_app, IH, !map_map. reflexivity.
Qed.

Lemma dist_from_ext {X} (sel sel' : procdesc -> list X) pi ps :
  (forall p, sel p = sel' p) -> dist_from sel pi ps = dist_from sel' pi ps.
Proof. intro H. revert pi. induction ps as [|p ps IH]; intro pi; simpl; [reflexivity|]. rewrite H, IH. reflexivity. Qed.

(* Dynamics.perElementEventDistribution / fixedRateEventDistribution, statement by statement,
   are the two halves of the kernel's transitions *)
Theorem distribution_is_kernel {W} (tb : table W) (t : ptree procdesc) :
  t_procs tb = kprocs t ->
  map strip (per_element tb) = map (fun x => (fst x, kevent true (snd x))) (per_element_distribution t)
  /\ map strip (fixed_rate tb) = map (fun x => (fst x, kevent false (snd x))) (fixed_rate_distribution t).
Proof.
  intro Htb. unfold per_element, fixed_rate, all_events, per_element_distribution, fixed_rate_distribution.
  rewrite Htb. unfold kprocs. split.
  - rewrite (dist_from_kernel ev_elem), <- dist_from_map. apply dist_from_ext. intro p. apply filter_elem_kproc.
  - rewrite (dist_from_kernel (fun e => negb (ev_elem e))), <- dist_from_map. apply dist_from_ext. intro p. apply filter_elem_kproc.
Qed.

(* Process.perElementEventRateDistribution is the kernel's rate *)
Lemma rate_is_kernel {W} (s : st W) pi j (e : sevent) :
  rate s (pi, j, kevent true e) = elem_rate (map (@List.length elem) (loci s)) e
  /\ rate s (pi, j, kevent false e) = se_p e.
Proof.
  unfold rate, elem_rate, qlen, locus. simpl. split; [|reflexivity].
  rewrite <- (map_nth (@List.length elem)). reflexivity.
Qed.

(* ------------------------------------------------------------------ passive observers *)
(* renumbering of the processes behind position k *)
Definition shift (k : nat) (x : nat * nat * event) : nat * nat * event :=
  let '(pi, j, e) := x in (if Nat.leb k pi then S pi else pi, j, e).

Lemma shift_snd k x : snd (shift k x) = snd x.
Proof. destruct x as [[pi j] e]. reflexivity. Qed.

Lemma index_events_shift_lt k pi j evs : pi < k -> map (shift k) (index_events pi j evs) = index_events pi j evs.
Proof.
  intro H. revert j. induction evs as [|e evs IH]; intro j; simpl; [reflexivity|].
  rewrite IH. destruct (Nat.leb_spec k pi); [lia|reflexivity].
Qed.
Lemma index_events_shift_ge k pi j evs : k <= pi -> map (shift k) (index_events pi j evs) = index_events (S pi) j evs.
Proof.
  intro H. revert j. induction evs as [|e evs IH]; intro j; simpl; [reflexivity|].
  rewrite IH. destruct (Nat.leb_spec k pi); [reflexivity|lia].
Qed.

Lemma all_events_from_shift_ge k pi ps : k <= pi ->
  map (shift k) (all_events_from pi ps) = all_events_from (S pi) ps.
Proof.
  revert pi. induction ps as [|p ps IH]; intros pi H; simpl; [reflexivity|].
  rewrite map_app, index_events_shift_ge by exact H. rewrite IH by lia. reflexivity.
Qed.

Lemma all_events_from_insert n ps1 o ps2 : p_events o = [] ->
  all_events_from n (ps1 ++ o :: ps2) = map (shift (n + List.length ps1)) (all_events_from n (ps1 ++ ps2)).
Proof.
  intro Ho. revert n. induction ps1 as [|p ps1 IH]; intro n; simpl.
  - rewrite Ho. simpl. rewrite Nat.add_0_r. symmetry. apply all_events_from_shift_ge. lia.
  - rewrite map_app, index_events_shift_lt by lia. rewrite IH. f_equal. f_equal. f_equal. lia.
Qed.

Lemma filter_map_shift (f : event -> bool) k l :
  filter (fun x => f (snd x)) (map (shift k) l) = map (shift k) (filter (fun x => f (snd x)) l).
Proof.
  induction l as [|x l IH]; simpl; [reflexivity|]. rewrite shift_snd. destruct (f (snd x)); simpl; rewrite IH; reflexivity.
Qed.

Section Passive.
Context {W : Type}.
Variables tb tb' : table W.
Variables (ps1 ps2 : list proc) (o : proc).
Hypothesis Hprocs : t_procs tb = ps1 ++ ps2.
Hypothesis Hprocs' : t_procs tb' = ps1 ++ o :: ps2.
Hypothesis Hpassive : p_events o = [].
Let k := List.length ps1.

Lemma passive_transitions : transitions tb' = map (shift k) (transitions tb).
Proof.
  unfold transitions, per_element, fixed_rate, all_events. rewrite Hprocs, Hprocs'.
  rewrite (all_events_from_insert 0 ps1 o ps2 Hpassive). simpl.
  rewrite map_app, (filter_map_shift ev_elem), (filter_map_shift (fun e => negb (ev_elem e))). reflexivity.
Qed.

Lemma passive_per_element : per_element tb' = map (shift k) (per_element tb).
Proof.
  unfold per_element, all_events. rewrite Hprocs, Hprocs', (all_events_from_insert 0 ps1 o ps2 Hpassive). simpl.
  apply (filter_map_shift ev_elem).
Qed.
Lemma passive_fixed_rate : fixed_rate tb' = map (shift k) (fixed_rate tb).
Proof.
  unfold fixed_rate, all_events. rewrite Hprocs, Hprocs', (all_events_from_insert 0 ps1 o ps2 Hpassive). simpl.
  apply (filter_map_shift (fun e => negb (ev_elem e))).
Qed.

Lemma rate_shift (s : st W) x : rate s (shift k x) = rate s x.
Proof. unfold rate. rewrite shift_snd. reflexivity. Qed.

Lemma sum_rates_shift (s : st W) l : sum_rates s (map (shift k) l) = sum_rates s l.
Proof.
  unfold sum_rates. generalize 0%Q. induction l as [|x l IH]; intro a; simpl; [reflexivity|].
  rewrite rate_shift. apply IH.
Qed.

Lemma select_shift (s : st W) xc xs cur l :
  select (rate s) xc xs (shift k cur) (map (shift k) l) = shift k (select (rate s) xc xs cur l).
Proof.
  revert xs cur. induction l as [|x l IH]; intros xs cur; simpl; [reflexivity|].
  rewrite rate_shift. destruct (Qltb xc (xs + rate s x)); [reflexivity|apply IH].
Qed.

Definition shift_sel (xe : (nat * nat * event) * elem) := (shift k (fst xe), snd xe).

Lemma trials_shift p x els (s : st W) :
  trials p (shift k x) els s = (map shift_sel (fst (trials p x els s)), snd (trials p x els s)).
Proof.
  revert s. induction els as [|e els IH]; intro s; simpl; [reflexivity|].
  destruct (next_rand s) as [r s1]. rewrite IH. destruct (trials p x els s1) as [sel s2]. simpl.
  destruct (Qle_bool r p); reflexivity.
Qed.

Lemma tranche_elem_shift l (s : st W) :
  tranche_elem (map (shift k) l) s = (map shift_sel (fst (tranche_elem l s)), snd (tranche_elem l s)).
Proof.
  revert s. induction l as [|x l IH]; intro s; simpl; [reflexivity|].
  rewrite shift_snd.
  assert (E : (match locus s (ev_locus (snd x)) with
               | [] => ([], s)
               | _ :: _ => if Qltb 0 (ev_p (snd x)) then trials (ev_p (snd x)) (shift k x) (locus s (ev_locus (snd x))) s else ([], s)
               end)
              = (let r := match locus s (ev_locus (snd x)) with
                          | [] => ([], s)
                          | _ :: _ => if Qltb 0 (ev_p (snd x)) then trials (ev_p (snd x)) x (locus s (ev_locus (snd x))) s else ([], s)
                          end in (map shift_sel (fst r), snd r))).
  { destruct (locus s (ev_locus (snd x))); [reflexivity|]. destruct (Qltb 0 (ev_p (snd x))); [apply trials_shift|reflexivity]. }
  rewrite E. clear E. cbv zeta.
  destruct (match locus s (ev_locus (snd x)) with
            | [] => ([], s)
            | _ :: _ => if Qltb 0 (ev_p (snd x)) then trials (ev_p (snd x)) x (locus s (ev_locus (snd x))) s else ([], s)
            end) as [sel s1]. simpl.
  rewrite IH. destruct (tranche_elem l s1) as [sel' s2]. simpl. rewrite map_app. reflexivity.
Qed.

Lemma tranche_fixed_shift l (s : st W) :
  tranche_fixed (map (shift k) l) s = (map shift_sel (fst (tranche_fixed l s)), snd (tranche_fixed l s)).
Proof.
  revert s. induction l as [|x l IH]; intro s; simpl; [reflexivity|].
  rewrite shift_snd.
  set (L := locus s (ev_locus (snd x))).
  assert (E : (match L with
               | [] => ([], s)
               | _ :: _ => if Qltb 0 (ev_p (snd x)) then
                             let '(r, s1) := next_rand s in
                             if Qle_bool r (ev_p (snd x)) then
                               let '(d, s2) := next_draw s1 in ([(shift k x, nth (d mod List.length L) L (EN 0))], s2)
                             else ([], s1)
                           else ([], s)
               end)
              = (let r := match L with
                          | [] => ([], s)
                          | _ :: _ => if Qltb 0 (ev_p (snd x)) then
                                        let '(r, s1) := next_rand s in
                                        if Qle_bool r (ev_p (snd x)) then
                                          let '(d, s2) := next_draw s1 in ([(x, nth (d mod List.length L) L (EN 0))], s2)
                                        else ([], s1)
                                      else ([], s)
                          end in (map shift_sel (fst r), snd r))).
  { destruct L; [reflexivity|]. destruct (Qltb 0 (ev_p (snd x))); [|reflexivity].
    destruct (next_rand s) as [r s1]. destruct (Qle_bool r (ev_p (snd x))); [|reflexivity].
    destruct (next_draw s1) as [d s2]. reflexivity. }
  rewrite E. clear E. cbv zeta.
  destruct (match L with
            | [] => ([], s)
            | _ :: _ => if Qltb 0 (ev_p (snd x)) then
                          let '(r, s1) := next_rand s in
                          if Qle_bool r (ev_p (snd x)) then
                            let '(d, s2) := next_draw s1 in ([(x, nth (d mod List.length L) L (EN 0))], s2)
                          else ([], s1)
                        else ([], s)
            end) as [sel s1]. simpl.
  rewrite IH. destruct (tranche_fixed l s1) as [sel' s2]. simpl. rewrite map_app. reflexivity.
Qed.

(* adding a process without stochastic events: the same transitions (up to the renumbering of
   the processes behind it), the same rates and total rate, the same Gillespie selection, and
   the synchronous tranche takes exactly the same values from the random source *)
Theorem observers_passive :
  transitions tb' = map (shift k) (transitions tb)
  /\ (forall (s : st W) x, rate s (shift k x) = rate s x)
  /\ (forall s : st W, sum_rates s (transitions tb') = sum_rates s (transitions tb))
  /\ (forall (s : st W) xc x0 l, select (rate s) xc 0%Q (shift k x0) (map (shift k) l) = shift k (select (rate s) xc 0%Q x0 l))
  /\ (forall s, tranche tb' s = (map shift_sel (fst (tranche tb s)), snd (tranche tb s))).
Proof.
  split; [exact passive_transitions|]. split; [exact rate_shift|]. split; [|split].
  - intro s. rewrite passive_transitions. apply sum_rates_shift.
  - intros s xc x0 l. apply select_shift.
  - intro s. unfold tranche. rewrite passive_per_element, passive_fixed_rate, tranche_elem_shift.
    destruct (tranche_elem (per_element tb) s) as [a s1]. simpl.
    rewrite tranche_fixed_shift. destruct (tranche_fixed (fixed_rate tb) s1) as [b s2]. simpl.
    rewrite map_app. reflexivity.
Qed.
End Passive.

(* the same at the level of trees: a leaf with empty event tables anywhere in a sequence *)
Lemma kprocs_insert_leaf (cs1 cs2 : list (ptree procdesc)) (o : procdesc) :
  kprocs (Seq (cs1 ++ Leaf o :: cs2)) = kprocs (Seq cs1) ++ kproc o :: kprocs (Seq cs2)
  /\ kprocs (Seq (cs1 ++ cs2)) = kprocs (Seq cs1) ++ kprocs (Seq cs2).
Proof.
  unfold kprocs. simpl. rewrite !flat_map_app. simpl. rewrite !map_app. simpl. split; reflexivity.
Qed.

Lemma kproc_passive (o : procdesc) : pd_elem o = [] -> pd_fixed o = [] -> p_events (kproc o) = [].
Proof. intros H1 H2. simpl. rewrite H1, H2. reflexivity. Qed.
