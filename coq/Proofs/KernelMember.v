(* Lemmas for C05 (and shared by C06): what each layer of Model/Kernel.v appends to the
   observation stream, and what it leaves alone.  Facts are established per call (user
   programs mutate loci arbitrarily, so nothing about loci is carried across calls). *)
From Coq Require Import List ZArith QArith Qabs Bool Arith Lia.
From EpyV Require Import Model.Kernel.
Import ListNotations.
Open Scope Q_scope.

(* ------------------------------------------------------------------ small facts *)
Lemma elem_eqb_refl : forall x, elem_eqb x x = true.
Proof. destruct x; simpl; rewrite ?Z.eqb_refl; reflexivity. Qed.

Lemma elem_eqb_eq : forall x y, elem_eqb x y = true <-> x = y.
Proof.
  intros x y; split; [|intros ->; apply elem_eqb_refl].
  destruct x, y; simpl; try discriminate.
  - intros H; apply Z.eqb_eq in H; subst; reflexivity.
  - intros H; apply andb_true_iff in H; destruct H as [H1 H2].
    apply Z.eqb_eq in H1; apply Z.eqb_eq in H2; subst; reflexivity.
Qed.

Lemma mem_In : forall x l, mem x l = true <-> In x l.
Proof.
  intros x l; unfold mem; rewrite existsb_exists; split.
  - intros [y [Hy He]]. apply elem_eqb_eq in He; subst; exact Hy.
  - intros H; exists x; split; [exact H | apply elem_eqb_refl].
Qed.

Lemma nth_mod_In : forall (l : list elem) k d, l <> [] -> In (nth (k mod length l) l d) l.
Proof.
  intros l k d Hl. apply nth_In. apply Nat.mod_upper_bound.
  destruct l; [congruence | simpl; lia].
Qed.

Lemma Qltb_lt : forall x y, Qltb x y = true <-> x < y.
Proof.
  intros x y; unfold Qltb; rewrite negb_true_iff; split; intros H.
  - apply Qnot_le_lt; intros Hle; apply Qle_bool_iff in Hle; congruence.
  - destruct (Qle_bool y x) eqn:E; [|reflexivity].
    apply Qle_bool_iff in E. exfalso; exact (Qlt_not_le _ _ H E).
Qed.

Lemma Qltb_ge : forall x y, Qltb x y = false <-> y <= x.
Proof.
  intros x y; unfold Qltb; rewrite negb_false_iff. apply Qle_bool_iff.
Qed.

(* ------------------------------------------------------------------ classes of records *)
(* records a user program itself can produce: anything but a handler entry or a tap *)
Definition act_obs (o : obs) : Prop :=
  match o with OHandler _ _ _ _ _ | OTap _ _ _ _ => False | _ => True end.

(* records of runPendingEvents(t): posted handlers (member = None) due by t, their taps, and actions *)
Definition posted_rec (t : Q) (o : obs) : Prop :=
  match o with
  | OHandler _ targ _ _ m => m = None /\ targ <= t
  | OTap t1 _ n _ => (exists k, n = NPost k) /\ t1 <= t
  | _ => True
  end.

(* ------------------------------------------------------------------ event names are unambiguous *)
Lemma index_events_In : forall pi j0 evs pi' j ev,
  In (pi', j, ev) (index_events pi j0 evs) <-> pi' = pi /\ (j0 <= j)%nat /\ nth_error evs (j - j0) = Some ev.
Proof.
  intros pi j0 evs; revert j0. induction evs as [|e evs IH]; intros j0 pi' j ev; cbn [index_events In].
  - split; [tauto|]. intros (_ & _ & H). destruct (j - j0)%nat; discriminate.
  - rewrite IH. split.
    + intros [E|(E1 & E2 & E3)].
      * inversion E; subst. rewrite Nat.sub_diag. split; [reflexivity|]. split; [lia | reflexivity].
      * split; [exact E1|]. split; [lia|]. replace (j - j0)%nat with (S (j - S j0)) by lia. exact E3.
    + intros (E1 & E2 & E3). destruct (Nat.eq_dec j j0) as [->|Hne].
      * left. rewrite Nat.sub_diag in E3. inversion E3; subst; reflexivity.
      * right. split; [exact E1|]. split; [lia|]. replace (j - j0)%nat with (S (j - S j0)) in E3 by lia. exact E3.
Qed.

Lemma all_events_from_In : forall ps pi0 pi j ev,
  In (pi, j, ev) (all_events_from pi0 ps) <->
  (pi0 <= pi)%nat /\ exists p, nth_error ps (pi - pi0) = Some p /\ nth_error (p_events p) j = Some ev.
Proof.
  induction ps as [|p ps IH]; intros pi0 pi j ev; cbn [all_events_from].
  - split; [intros []|]. intros (_ & q & H & _). destruct (pi - pi0)%nat; discriminate.
  - rewrite in_app_iff, index_events_In, IH, Nat.sub_0_r. split.
    + intros [(E1 & _ & E3)|(E1 & q & E2 & E3)].
      * subst. split; [lia|]. exists p. rewrite Nat.sub_diag. split; [reflexivity | exact E3].
      * split; [lia|]. exists q. replace (pi - pi0)%nat with (S (pi - S pi0)) by lia. split; assumption.
    + intros (E1 & q & E2 & E3). destruct (Nat.eq_dec pi pi0) as [->|Hne].
      * left. rewrite Nat.sub_diag in E2. inversion E2; subst. split; [reflexivity|]. split; [lia | exact E3].
      * right. split; [lia|]. exists q. replace (pi - pi0)%nat with (S (pi - S pi0)) in E2 by lia. split; assumption.
Qed.

Section KM.
Context {W : Type}.
Notation st := (st W).
Variable tb : table W.

(* [ext P s s']: s' has the records of s plus newer ones, all satisfying P *)
Definition ext (P : obs -> Prop) (s s' : st) : Prop := exists l, out s' = l ++ out s /\ Forall P l.

Lemma ext_refl : forall P s, ext P s s.
Proof. intros; exists []; split; [reflexivity | constructor]. Qed.

Lemma ext_trans : forall P s1 s2 s3, ext P s1 s2 -> ext P s2 s3 -> ext P s1 s3.
Proof.
  intros P s1 s2 s3 [l1 [E1 F1]] [l2 [E2 F2]]. exists (l2 ++ l1); split.
  - rewrite E2, E1, app_assoc; reflexivity.
  - apply Forall_app; split; assumption.
Qed.

Lemma ext_impl : forall (P Q : obs -> Prop) s s', (forall o, P o -> Q o) -> ext P s s' -> ext Q s s'.
Proof. intros P Q s s' H [l [E F]]; exists l; split; [exact E | exact (Forall_impl _ H F)]. Qed.

Lemma ext_emit : forall (P : obs -> Prop) o s, P o -> ext P s (emit o s).
Proof. intros P o s H; exists [o]; split; [reflexivity | repeat constructor; exact H]. Qed.

Lemma ext_same_out : forall P s s', out s' = out s -> ext P s s'.
Proof. intros P s s' H; exists []; split; [exact H | constructor]. Qed.

Lemma ext_Forall : forall P s s', ext P s s' -> Forall P (out s) -> Forall P (out s').
Proof. intros P s s' [l [E F]] H; rewrite E; apply Forall_app; split; assumption. Qed.

(* what user actions never touch *)
Definition frame (s s' : st) : Prop :=
  clock s' = clock s /\ rands s' = rands s /\ lns s' = lns s /\ draws s' = draws s /\ stuck s' = stuck s.

Lemma frame_refl : forall s, frame s s.
Proof. intros; repeat split. Qed.

Lemma frame_trans : forall s1 s2 s3, frame s1 s2 -> frame s2 s3 -> frame s1 s3.
Proof.
  intros s1 s2 s3 (a1 & a2 & a3 & a4 & a5) (b1 & b2 & b3 & b4 & b5).
  repeat split; etransitivity; eassumption.
Qed.

(* ------------------------------------------------------------------ actions and programs *)
Lemma do_action_spec : forall p t e a s,
  frame s (do_action p t e a s) /\ ext act_obs s (do_action p t e a s).
Proof.
  intros p t e a s.
  assert (E1 : forall (o : obs) (s1 s2 : st), act_obs o -> out s2 = o :: out s1 -> ext act_obs s1 s2).
  { intros o s1 s2 Ho E. exists [o]; split; [exact E | repeat constructor; exact Ho]. }
  assert (E0 : forall (s1 s2 : st), out s2 = out s1 -> ext act_obs s1 s2) by (intros; apply ext_same_out; assumption).
  (* one script for every constructor, so that new kinds of posting action need no new case *)
  destruct a; unfold do_action, post;
    try (destruct (ids s); [split; [apply frame_refl | apply ext_refl]|]);
    try destruct (Qltb _ _); try destruct (find_live _ _);
    (split; [repeat split | first [apply E0; reflexivity | eapply E1; [|reflexivity]; exact I]]).
Qed.

Lemma run_actions_spec : forall p t e acts s,
  frame s (run_actions p t e acts s) /\ ext act_obs s (run_actions p t e acts s).
Proof.
  intros p t e acts. unfold run_actions. induction acts as [|a acts IH]; intros s; simpl.
  - split; [apply frame_refl | apply ext_refl].
  - destruct (do_action_spec p t e a s) as [F1 E1]. destruct (IH (do_action p t e a s)) as [F2 E2].
    split; [exact (frame_trans _ _ _ F1 F2) | exact (ext_trans _ _ _ _ E1 E2)].
Qed.

Lemma run_prog_spec : forall p k t e s,
  frame s (run_prog tb p k t e s) /\ ext act_obs s (run_prog tb p k t e s).
Proof.
  intros p k t e s. unfold run_prog. destruct (prog_of tb k t e (loci s) (world s)) as [w acts].
  destruct (run_actions_spec p t e acts (set_world w s)) as [F E]. split; [exact F | exact E].
Qed.

(* ------------------------------------------------------------------ posted events *)
Lemma act_posted : forall t o, act_obs o -> posted_rec t o.
Proof. intros t o; destruct o; simpl; tauto. Qed.

Lemma posted_rec_mono : forall t t' o, t <= t' -> posted_rec t o -> posted_rec t' o.
Proof.
  intros t t' o H; destruct o; simpl; try tauto.
  - intros [E L]; split; [exact E | exact (Qle_trans _ _ _ L H)].
  - intros [E L]; split; [exact E | exact (Qle_trans _ _ _ L H)].
Qed.

Definition oracle_same (s s' : st) : Prop := rands s' = rands s /\ lns s' = lns s /\ draws s' = draws s.

Lemma frame_oracle : forall s s', frame s s' -> oracle_same s s'.
Proof. intros s s' (a1 & a2 & a3 & a4 & a5); repeat split; assumption. Qed.

Lemma oracle_same_trans : forall s1 s2 s3, oracle_same s1 s2 -> oracle_same s2 s3 -> oracle_same s1 s3.
Proof.
  intros s1 s2 s3 (a2 & a3 & a4) (b2 & b3 & b4). repeat split; etransitivity; eassumption.
Qed.

Lemma fire_spec : forall x t s, e_time x <= t ->
  frame s (fire tb x s) /\ ext (posted_rec t) s (fire tb x s).
Proof.
  intros x t s Hx. unfold fire.
  set (s1 := emit _ s).
  assert (E1 : ext (posted_rec t) s s1) by (apply ext_emit; simpl; split; [reflexivity | exact Hx]).
  destruct (run_prog_spec (e_proc x) (e_prog x) (e_time x) (e_elem x) s1) as [F2 E2].
  apply (ext_impl _ (posted_rec t)) in E2; [|apply act_posted].
  set (s2 := run_prog _ _ _ _ _ _) in *.
  assert (F02 : frame s s2) by (apply (frame_trans _ s1); [repeat split | exact F2]).
  assert (E02 : ext (posted_rec t) s s2) by exact (ext_trans _ _ _ _ E1 E2).
  destruct (e_rep x) as [ddt|]; [|split; assumption].
  unfold post. destruct (Qltb _ _); simpl.
  - split; [exact F02 | apply (ext_trans _ _ s2); [exact E02 | apply ext_emit; exact I]].
  - split; [exact F02 | apply (ext_trans _ _ s2); [exact E02 | apply ext_same_out; reflexivity]].
Qed.

Lemma run_pending_spec : forall f t n s,
  oracle_same s (snd (run_pending tb f t n s)) /\ ext (posted_rec t) s (snd (run_pending tb f t n s)).
Proof.
  induction f as [|f IH]; intros t n s.
  - simpl. split; [repeat split | apply ext_same_out; reflexivity].
  - cbn [run_pending]. destruct (head (queue (discard s))) as [h|]; [|split; [repeat split | apply ext_same_out; reflexivity]].
    destruct (Qle_bool (e_time h) t) eqn:Hle; [|split; [repeat split | apply ext_same_out; reflexivity]].
    apply Qle_bool_iff in Hle.
    set (s1 := set_clock _ _).
    destruct (fire_spec h t s1 Hle) as [F2 E2].
    set (s3 := emit _ (fire tb h s1)).
    destruct (IH t (S n) s3) as [O4 E4]. split.
    + apply (oracle_same_trans _ s3); [|exact O4].
      apply (oracle_same_trans _ s1); [repeat split | exact (frame_oracle _ _ F2)].
    + apply (ext_trans _ _ s3); [|exact E4].
      apply (ext_trans _ _ (fire tb h s1)); [apply (ext_trans _ _ s1); [apply ext_same_out; reflexivity | exact E2]|].
      apply ext_emit. simpl. split; [eexists; reflexivity | exact Hle].
Qed.

(* the number returned by runPendingEvents is the number of posted handlers it called *)
Definition is_posted (o : obs) : bool := match o with OHandler _ _ _ _ None => true | _ => false end.
Definition nposted (l : list obs) : nat := length (filter is_posted l).

Lemma nposted_act : forall l, Forall act_obs l -> nposted l = 0%nat.
Proof.
  unfold nposted. induction 1 as [|o l Ho _ IH]; [reflexivity|].
  simpl. destruct o; simpl in *; try exact IH; contradiction.
Qed.

Lemma nposted_app : forall a b, nposted (a ++ b) = (nposted a + nposted b)%nat.
Proof. intros; unfold nposted; rewrite filter_app, app_length; reflexivity. Qed.

Lemma fire_shape : forall x s, exists l, Forall act_obs l /\
  out (fire tb x s) = l ++ OHandler (e_prog x) (e_time x) (clock s) (e_elem x) None :: out s.
Proof.
  intros x s. unfold fire. set (s1 := emit _ s).
  destruct (run_prog_spec (e_proc x) (e_prog x) (e_time x) (e_elem x) s1) as [_ [l [E A]]].
  set (s2 := run_prog _ _ _ _ _ _) in *.
  destruct (e_rep x) as [ddt|]; [|exists l; split; [exact A | exact E]].
  unfold post. destruct (Qltb _ _).
  - exists (OValueError :: l). split; [constructor; [exact I | exact A]|]. cbn [emit out]. rewrite E. reflexivity.
  - exists l. split; [exact A | exact E].
Qed.

Lemma run_pending_count : forall f t n s, exists l,
  out (snd (run_pending tb f t n s)) = l ++ out s /\ Forall (posted_rec t) l /\
  fst (run_pending tb f t n s) = (n + nposted l)%nat.
Proof.
  induction f as [|f IH]; intros t n s.
  - exists []. simpl. split; [reflexivity|]. split; [constructor | unfold nposted; simpl; lia].
  - cbn [run_pending].
    destruct (head (queue (discard s))) as [h|];
      [|exists []; simpl; split; [reflexivity|]; split; [constructor | unfold nposted; simpl; lia]].
    destruct (Qle_bool (e_time h) t) eqn:Hle;
      [|exists []; simpl; split; [reflexivity|]; split; [constructor | unfold nposted; simpl; lia]].
    apply Qle_bool_iff in Hle.
    set (s1 := set_clock _ _).
    destruct (fire_shape h s1) as [lf [A Ef]].
    set (s3 := emit _ (fire tb h s1)).
    destruct (IH t (S n) s3) as [l' [E' [R' N']]].
    exists (l' ++ OTap (e_time h) (e_proc h) (NPost (e_prog h)) (e_elem h) :: lf ++
            [OHandler (e_prog h) (e_time h) (clock s1) (e_elem h) None]).
    split; [|split].
    + rewrite E'. unfold s3. cbn [emit out]. rewrite Ef. rewrite <- !app_assoc. cbn [app]. rewrite <- app_assoc. reflexivity.
    + apply Forall_app; split; [exact R'|]. constructor; [simpl; split; [eexists; reflexivity | exact Hle]|].
      apply Forall_app; split; [exact (Forall_impl _ (act_posted t) A)|].
      repeat constructor. exact Hle.
    + rewrite N'.
      change (OTap (e_time h) (e_proc h) (NPost (e_prog h)) (e_elem h) :: lf ++ [OHandler (e_prog h) (e_time h) (clock s1) (e_elem h) None])
        with ([OTap (e_time h) (e_proc h) (NPost (e_prog h)) (e_elem h)] ++ lf ++ [OHandler (e_prog h) (e_time h) (clock s1) (e_elem h) None]).
      rewrite !nposted_app, (nposted_act lf A). unfold nposted; simpl. lia.
Qed.

(* ------------------------------------------------------------------ stochastic / per-element firing *)
Lemma fire_event_spec : forall pi j ev t e s,
  let s' := fire_event tb (pi, j, ev) t e s in
  frame s s' /\
  exists l, Forall act_obs l /\
    out s' = OTap t pi (NEv pi j) e :: l ++
             OHandler (ev_prog ev) t (clock s) e (Some (mem e (locus s (ev_locus ev)))) :: out s.
Proof.
  intros pi j ev t e s. simpl.
  set (s1 := emit _ s).
  destruct (run_prog_spec pi (ev_prog ev) t e s1) as [F [l [E A]]].
  split.
  - apply (frame_trans _ s1); [repeat split|]. destruct F as (a1 & a2 & a3 & a4 & a5). repeat split; assumption.
  - exists l; split; [exact A|]. simpl. rewrite E. reflexivity.
Qed.

(* ------------------------------------------------------------------ the oracle *)
(* consuming nr uniform variates, nl logarithms and nd ranks; an exhausted stream yields the
   default and sets [stuck] *)
Definition advance (nr nl nd : nat) (s : st) : st :=
  {| clock := clock s; nextid := nextid s; queue := queue s; loci := loci s; world := world s; ids := ids s; out := out s;
     rands := skipn nr (rands s); lns := skipn nl (lns s); draws := skipn nd (draws s);
     stuck := stuck s || (length (rands s) <? nr)%nat || (length (lns s) <? nl)%nat || (length (draws s) <? nd)%nat |}.

Lemma next_rand_adv : forall s, next_rand s = (hd 0 (rands s), advance 1 0 0 s).
Proof.
  intros [c ni q lc w i o rs ls ds sk]. unfold next_rand, advance, set_stuck, set_oracle. simpl.
  destruct rs as [|r rs]; simpl; destruct sk; reflexivity.
Qed.

Lemma next_ln_adv : forall s, next_ln s = (hd 0 (lns s), advance 0 1 0 s).
Proof.
  intros [c ni q lc w i o rs ls ds sk]. unfold next_ln, advance, set_stuck, set_oracle. simpl.
  destruct ls as [|r ls]; simpl; destruct sk; reflexivity.
Qed.

Lemma next_draw_adv : forall s, next_draw s = (hd 0%nat (draws s), advance 0 0 1 s).
Proof.
  intros [c ni q lc w i o rs ls ds sk]. unfold next_draw, advance, set_stuck, set_oracle. simpl.
  destruct ds as [|r ds]; simpl; destruct sk; reflexivity.
Qed.

Lemma ltb_skipn_add : forall (n a b : nat), ((n <? a) || (n - a <? b))%nat = (n <? a + b)%nat.
Proof.
  intros n a b. destruct (Nat.ltb_spec n a), (Nat.ltb_spec (n - a) b), (Nat.ltb_spec n (a + b)); simpl; try reflexivity; lia.
Qed.

Lemma skipn_add : forall A (a b : nat) (l : list A), skipn b (skipn a l) = skipn (a + b) l.
Proof.
  intros A a b. induction a as [|a IH]; intros l; [reflexivity|].
  destruct l as [|x l]; [simpl; apply skipn_nil | simpl; apply IH].
Qed.

Lemma advance_advance : forall a b c a' b' c' s,
  advance a' b' c' (advance a b c s) = advance (a + a') (b + b') (c + c') s.
Proof.
  intros a b c a' b' c' [cl ni q lc w i o rs ls ds sk]. unfold advance; simpl.
  rewrite !skipn_add, !skipn_length.
  f_equal.
  rewrite <- (ltb_skipn_add (length rs) a a'), <- (ltb_skipn_add (length ls) b b'), <- (ltb_skipn_add (length ds) c c').
  destruct sk; [reflexivity|]. simpl.
  destruct (length rs <? a)%nat, (length ls <? b)%nat, (length ds <? c)%nat,
           (length rs - a <? a')%nat, (length ls - b <? b')%nat, (length ds - c <? c')%nat; reflexivity.
Qed.

Lemma advance_0 : forall s, advance 0 0 0 s = s.
Proof. intros [cl ni q lc w i o rs ls ds sk]. unfold advance; simpl. rewrite !orb_false_r. reflexivity. Qed.

(* ------------------------------------------------------------------ the tranche loop *)
(* the event named by a tap is a registered event with positive probability *)
Definition fired_ok (pi : nat) (n : ename) : Prop :=
  exists j ev, n = NEv pi j /\ In (pi, j, ev) (all_events tb) /\ 0 < ev_p ev.

(* records of the tranche of timestep t *)
Definition tranche_rec (t : Q) (o : obs) : Prop :=
  match o with
  | OHandler _ targ clk _ m => m = Some true /\ targ = t /\ clk = t
  | OTap t1 pi n _ => t1 = t /\ fired_ok pi n
  | _ => True
  end.

Definition is_fired (o : obs) : bool := match o with OHandler _ _ _ _ (Some _) => true | _ => false end.
Definition nfired (l : list obs) : nat := length (filter is_fired l).

Lemma nfired_act : forall l, Forall act_obs l -> nfired l = 0%nat.
Proof.
  unfold nfired. induction 1 as [|o l Ho _ IH]; [reflexivity|].
  simpl. destruct o; simpl in *; try exact IH; contradiction.
Qed.

Lemma nfired_app : forall a b, nfired (a ++ b) = (nfired a + nfired b)%nat.
Proof. intros; unfold nfired; rewrite filter_app, app_length; reflexivity. Qed.

Definition sel_ok (xe : (nat * nat * event) * elem) : Prop :=
  In (fst xe) (all_events tb) /\ 0 < ev_p (snd (fst xe)).

(* the skip of synchronousdynamics.py:114, as equations on the loop body *)
Lemma fire_tranche_skip : forall t x e evs nev s,
  mem e (locus s (ev_locus (snd x))) = false ->
  fire_tranche tb t ((x, e) :: evs) nev s = fire_tranche tb t evs nev s.
Proof. intros t x e evs nev s H. cbn [fire_tranche]. rewrite H. reflexivity. Qed.

Lemma fire_tranche_fire : forall t x e evs nev s,
  mem e (locus s (ev_locus (snd x))) = true ->
  fire_tranche tb t ((x, e) :: evs) nev s = fire_tranche tb t evs (S nev) (fire_event tb x t e s).
Proof. intros t x e evs nev s H. cbn [fire_tranche]. rewrite H. reflexivity. Qed.

Lemma fire_tranche_spec : forall t evs nev s, clock s = t -> Forall sel_ok evs ->
  let r := fire_tranche tb t evs nev s in
  frame s (snd r) /\
  exists l, out (snd r) = l ++ out s /\ Forall (tranche_rec t) l /\ fst r = (nev + nfired l)%nat.
Proof.
  intros t evs. induction evs as [|[x e] evs IH]; intros nev s Hc Hs.
  - simpl. split; [apply frame_refl|]. exists []. split; [reflexivity|]. split; [apply Forall_nil | unfold nfired; simpl; lia].
  - inversion Hs as [|? ? [Hin Hp] Hs']; subst. cbn [fire_tranche].
    destruct (mem e (locus s (ev_locus (snd x)))) eqn:Hm; [|exact (IH nev s eq_refl Hs')].
    destruct x as [[pi j] ev]. simpl fst in *; simpl snd in *.
    destruct (fire_event_spec pi j ev (clock s) e s) as [F [l [A E]]].
    set (s' := fire_event tb (pi, j, ev) (clock s) e s) in *.
    assert (Hc' : clock s' = clock s) by (destruct F as [F _]; exact F).
    specialize (IH (S nev) s' Hc'). destruct (IH Hs') as [F' [l' [E' [R' N']]]].
    split; [exact (frame_trans _ _ _ F F')|].
    exists (l' ++ OTap (clock s) pi (NEv pi j) e :: l ++ [OHandler (ev_prog ev) (clock s) (clock s) e (Some true)]).
    split; [|split].
    + etransitivity; [exact E'|]. rewrite E, Hm. rewrite <- !app_assoc. simpl. rewrite <- app_assoc. reflexivity.
    + apply Forall_app; split; [exact R'|]. constructor.
      * simpl. split; [reflexivity|]. exists j, ev. repeat split; assumption.
      * apply Forall_app; split.
        -- eapply Forall_impl; [|exact A]. intros o; destruct o; simpl; tauto.
        -- repeat constructor.
    + etransitivity; [exact N'|]. rewrite !nfired_app. change (OTap (clock s) pi (NEv pi j) e :: l ++ [OHandler (ev_prog ev) (clock s) (clock s) e (Some true)])
        with ([OTap (clock s) pi (NEv pi j) e] ++ l ++ [OHandler (ev_prog ev) (clock s) (clock s) e (Some true)]).
      rewrite !nfired_app, (nfired_act l A). unfold nfired; simpl. lia.
Qed.

(* ------------------------------------------------------------------ the inverse-CDF scan *)
Fixpoint qsum {A} (f : A -> Q) (l : list A) : Q :=
  match l with [] => 0 | x :: l' => f x + qsum f l' end.

(* [select] returns the first x whose interval [xs + sum before, xs + sum before + f x) contains xc *)
Lemma select_spec : forall A (f : A -> Q) xc l xs cur, xs <= xc -> xc < xs + qsum f l ->
  exists l1 x l2, l = l1 ++ x :: l2 /\ select f xc xs cur l = x /\
    xs + qsum f l1 <= xc /\ xc < xs + qsum f l1 + f x /\
    (forall l1' y l1'', l1 = l1' ++ y :: l1'' -> xs + qsum f l1' + f y <= xc).
Proof.
  intros A f xc. induction l as [|x l IH]; intros xs cur Hlo Hhi.
  - cbn [qsum] in Hhi. rewrite Qplus_0_r in Hhi. exfalso; exact (Qlt_not_le _ _ Hhi Hlo).
  - cbn [select]. destruct (Qltb xc (xs + f x)) eqn:Hc.
    + apply Qltb_lt in Hc. exists [], x, l. cbn [qsum app]. rewrite Qplus_0_r. repeat split; try assumption.
      intros l1' y l1'' Hnil. destruct l1'; discriminate.
    + apply Qltb_ge in Hc. cbn [qsum] in Hhi.
      destruct (IH (Qred (xs + f x)) x) as (l1 & y & l2 & El & Es & H1 & H2 & H3).
      * rewrite Qred_correct; exact Hc.
      * rewrite Qred_correct, <- Qplus_assoc. exact Hhi.
      * rewrite Qred_correct in H1, H2.
        exists (x :: l1), y, l2. cbn [qsum app]. split; [rewrite El; reflexivity|].
        split; [exact Es|]. split; [|split].
        -- rewrite Qplus_assoc; exact H1.
        -- rewrite Qplus_assoc; exact H2.
        -- intros l1' z l1'' E. destruct l1' as [|x' l1']; cbn [app] in E; inversion E; subst.
           ++ cbn [qsum]. rewrite Qplus_0_r. exact Hc.
           ++ cbn [qsum]. rewrite Qplus_assoc. specialize (H3 l1' z l1'' eq_refl).
              rewrite Qred_correct in H3. exact H3.
Qed.

Lemma select_pos : forall A (f : A -> Q) xc l cur, 0 <= xc -> xc < qsum f l ->
  In (select f xc 0 cur l) l /\ 0 < f (select f xc 0 cur l).
Proof.
  intros A f xc l cur Hlo Hhi.
  destruct (select_spec A f xc l 0 cur Hlo) as (l1 & x & l2 & El & Es & H1 & H2 & _).
  - rewrite Qplus_0_l; exact Hhi.
  - rewrite Es. split; [rewrite El; apply in_or_app; right; left; reflexivity|].
    apply (Qplus_lt_r _ _ (0 + qsum f l1)). rewrite Qplus_0_r.
    exact (Qle_lt_trans _ _ _ H1 H2).
Qed.

Lemma fold_qsum : forall A (f : A -> Q) l a, fold_left (fun a x => Qred (a + f x)) l a == a + qsum f l.
Proof.
  intros A f. induction l as [|x l IH]; intros a.
  - change (a == a + 0). rewrite Qplus_0_r; reflexivity.
  - change (fold_left (fun a x => Qred (a + f x)) l (Qred (a + f x)) == a + (f x + qsum f l)).
    rewrite IH, Qred_correct, Qplus_assoc. reflexivity.
Qed.

Lemma sum_rates_qsum : forall (s : st) trs, sum_rates s trs == qsum (rate s) trs.
Proof. intros s trs. unfold sum_rates. rewrite fold_qsum, Qplus_0_l. reflexivity. Qed.

(* ------------------------------------------------------------------ stochastic dynamics *)
(* One Gillespie iteration, in two named parts (stoch_loop_S ties them to the model).
   Selection: r1, ln and, with more than one transition, r2 are consumed and a transition chosen. *)
Definition stoch_select (s : st) : option ((nat * nat * event) * Q * st) :=
  let trs := transitions tb in
  let a := sum_rates s trs in
  let '(_, s1) := next_rand s in
  let '(ln, s2) := next_ln s1 in
  let dt := Qred ((1 / a) * ln) in
  match trs with
  | [] => None
  | x0 :: rest =>
      let '(x, s3) := match rest with
                      | [] => (x0, s2)
                      | _ => let '(r2, s3) := next_rand s2 in (select (rate s) (r2 * a) 0 x0 trs, s3)
                      end in
      Some (x, dt, s3)
  end.

(* Firing: after the posted events ran and the clock was set; the live locus is read now. *)
Definition stoch_fire (x : nat * nat * event) (nt : Q) (ev : nat) (s5 : st) : nat * st :=
  let l := locus s5 (ev_locus (snd x)) in
  match l with
  | [] => (ev, s5)
  | _ => let '(k, s6) := next_draw s5 in (S ev, fire_event tb x nt (nth (k mod length l) l (EN 0)) s6)
  end.

(* proc.atEquilibrium(t): the time limit, or the process' own test *)
Definition at_equil (t : Q) (s : st) : bool := Qle_bool (t_maxtime tb) t || t_equil tb (loci s) (world s).

Lemma stoch_loop_S : forall pf f t events s,
  stoch_loop tb pf (S f) t events s =
  if at_equil t s then (t, events, s)
  else if Qeq_bool (sum_rates s (transitions tb)) 0 then
    match next_pending_time s with
    | (None, s') => (t, events, s')
    | (Some et, s') => let '(n, s'') := run_pending tb pf et 0 s' in stoch_loop tb pf f et (events + n) s''
    end
  else
    match stoch_select s with
    | None => (t, events, set_stuck s)
    | Some (x, dt, s3) =>
        let nt := Qred (t + dt) in
        let '(n, s4) := run_pending tb pf nt 0 s3 in
        let '(ev', s6) := stoch_fire x nt (events + n) (set_clock nt s4) in
        stoch_loop tb pf f nt ev' s6
    end.
Proof.
  intros pf f t events s. cbn [stoch_loop]. unfold stoch_select, stoch_fire, at_equil.
  destruct (Qle_bool (t_maxtime tb) t || t_equil tb (loci s) (world s)); [reflexivity|].
  destruct (Qeq_bool (sum_rates s (transitions tb)) 0); [reflexivity|].
  cbv zeta.
  destruct (next_rand s) as [r1 s1]. destruct (next_ln s1) as [ln s2].
  destruct (transitions tb) as [|x0 rest]; [reflexivity|].
  destruct rest as [|x1 rest].
  - destruct (run_pending tb pf _ 0 s2) as [n s4].
    destruct (locus (set_clock _ s4) (ev_locus (snd x0))); [reflexivity|].
    destruct (next_draw _) as [k s6]. reflexivity.
  - destruct (next_rand s2) as [r2 s3].
    destruct (run_pending tb pf _ 0 s3) as [n s4].
    destruct (locus (set_clock _ s4) _); [reflexivity|].
    destruct (next_draw _) as [k s6]. reflexivity.
Qed.

(* an event whose locus is empty when its turn comes is not fired: nothing is drawn, nothing recorded *)
Lemma stoch_fire_empty : forall x nt ev s5,
  locus s5 (ev_locus (snd x)) = [] -> stoch_fire x nt ev s5 = (ev, s5).
Proof. intros x nt ev s5 H. unfold stoch_fire. rewrite H. reflexivity. Qed.

(* otherwise one rank is drawn and the event is called on a member of the live locus *)
Lemma stoch_fire_member : forall x nt ev s5, locus s5 (ev_locus (snd x)) <> [] ->
  exists e, In e (locus s5 (ev_locus (snd x))) /\
    stoch_fire x nt ev s5 = (S ev, fire_event tb x nt e (advance 0 0 1 s5)).
Proof.
  intros x nt ev s5 H. unfold stoch_fire. rewrite next_draw_adv.
  exists (nth (hd 0%nat (draws s5) mod length (locus s5 (ev_locus (snd x)))) (locus s5 (ev_locus (snd x))) (EN 0)).
  split; [apply nth_mod_In; exact H|].
  destruct (locus s5 (ev_locus (snd x))); [congruence | reflexivity].
Qed.

(* -- hypotheses on tables and oracles that every run of the implementation satisfies *)
Definition nonneg_table : Prop := forall x, In x (all_events tb) -> 0 <= ev_p (snd x).
Definition unit_rand (r : Q) : Prop := 0 <= r /\ r < 1.

(* (process, index) determines the event *)
Lemma all_events_fun : forall pi j ev ev',
  In (pi, j, ev) (all_events tb) -> In (pi, j, ev') (all_events tb) -> ev = ev'.
Proof.
  intros pi j ev ev' H H'. unfold all_events in *.
  apply all_events_from_In in H. apply all_events_from_In in H'.
  destruct H as (_ & p & E1 & E2). destruct H' as (_ & p' & E1' & E2'). congruence.
Qed.

Lemma In_transitions : forall x, In x (transitions tb) -> In x (all_events tb).
Proof.
  intros x H. unfold transitions in H. apply in_app_or in H.
  destruct H as [H|H]; apply filter_In in H; exact (proj1 H).
Qed.

Lemma qlen_nonneg : forall l, 0 <= qlen l.
Proof. intros l. unfold qlen. change 0 with (inject_Z 0). rewrite <- Zle_Qle. apply Nat2Z.is_nonneg. Qed.

Lemma rate_nonneg : forall (s : st) x, 0 <= ev_p (snd x) -> 0 <= rate s x.
Proof.
  intros s x H. unfold rate. destruct (ev_elem (snd x)); [|exact H].
  rewrite Qred_correct. apply Qmult_le_0_compat; [exact H | apply qlen_nonneg].
Qed.

Lemma rate_pos : forall (s : st) x, 0 < rate s x -> 0 < ev_p (snd x).
Proof.
  intros s x. unfold rate. destruct (ev_elem (snd x)); [|tauto].
  rewrite Qred_correct. intros H.
  destruct (Qlt_le_dec 0 (ev_p (snd x))) as [Hp|Hp]; [exact Hp|]. exfalso.
  apply (Qlt_not_le _ _ H).
  setoid_replace 0 with (0 * qlen (locus s (ev_locus (snd x)))) by ring.
  apply Qmult_le_compat_r; [exact Hp | apply qlen_nonneg].
Qed.

Lemma qsum_nonneg : forall A (f : A -> Q) l, (forall x, In x l -> 0 <= f x) -> 0 <= qsum f l.
Proof.
  intros A f. induction l as [|x l IH]; intros H; cbn [qsum]; [apply Qle_refl|].
  setoid_replace 0 with (0 + 0) by ring.
  apply Qplus_le_compat; [apply H; left; reflexivity | apply IH; intros y Hy; apply H; right; exact Hy].
Qed.

(* the transition chosen has positive probability: zero-probability events are never selected *)
Lemma stoch_select_pos : forall s x dt s3, nonneg_table -> Forall unit_rand (rands s) ->
  Qeq_bool (sum_rates s (transitions tb)) 0 = false ->
  stoch_select s = Some (x, dt, s3) ->
  In x (all_events tb) /\ 0 < ev_p (snd x) /\ 0 < rate s x /\
  exists nr, (nr <= 2)%nat /\ s3 = advance nr 1 0 s.
Proof.
  intros s x dt s3 Hnn Hr Ha. unfold stoch_select.
  rewrite next_rand_adv, next_ln_adv, advance_advance. cbn [Nat.add].
  assert (Hall : forall y, In y (transitions tb) -> 0 <= rate s y).
  { intros y Hy. apply rate_nonneg, Hnn, In_transitions, Hy. }
  assert (Hsum := sum_rates_qsum s (transitions tb)).
  assert (Hapos : 0 < sum_rates s (transitions tb)).
  { destruct (proj1 (Qle_lteq _ _) (qsum_nonneg _ _ _ Hall)) as [Hlt|Heq].
    - rewrite Hsum; exact Hlt.
    - exfalso. rewrite <- Hsum in Heq. symmetry in Heq. apply Qeq_bool_iff in Heq. congruence. }
  destruct (transitions tb) as [|x0 rest] eqn:Etr; [discriminate|].
  assert (Hpos : forall y, In y (x0 :: rest) -> 0 < rate s y -> In y (all_events tb) /\ 0 < ev_p (snd y) /\ 0 < rate s y).
  { intros y Hy Hyp. split; [apply In_transitions; rewrite Etr; exact Hy|]. split; [exact (rate_pos s y Hyp) | exact Hyp]. }
  destruct rest as [|x1 rest].
  - intros E; inversion E; subst. 
    assert (Hx : 0 < rate s x).
    { cbn [qsum] in Hsum. rewrite Qplus_0_r in Hsum. rewrite <- Hsum. exact Hapos. }
    destruct (Hpos x (or_introl eq_refl) Hx) as (h1 & h2 & h3).
    repeat split; try assumption. exists 1%nat; split; [lia | reflexivity].
  - rewrite next_rand_adv, advance_advance. cbn [Nat.add].
    intros E; inversion E; subst. clear E.
    set (a := sum_rates s (x0 :: x1 :: rest)) in *.
    assert (Hr2 : unit_rand (hd 0 (rands (advance 1 1 0 s)))).
    { cbn [advance rands]. destruct (rands s) as [|r1 [|r2 rs]]; cbn [skipn hd].
      - split; [apply Qle_refl | reflexivity].
      - split; [apply Qle_refl | reflexivity].
      - inversion Hr as [|? ? _ Hr']; inversion Hr' as [|? ? Hr2 _]; exact Hr2. }
    destruct Hr2 as [Hlo Hhi].
    set (r2 := hd 0 (rands (advance 1 1 0 s))) in *.
    destruct (select_pos _ (rate s) (r2 * a) (x0 :: x1 :: rest) x0) as [Hin Hp].
    + apply Qmult_le_0_compat; [exact Hlo | apply Qlt_le_weak; exact Hapos].
    + rewrite <- Hsum. fold a. setoid_replace a with (1 * a) at 2 by ring.
      apply Qmult_lt_compat_r; assumption.
    + destruct (Hpos _ Hin Hp) as (h1 & h2 & h3).
      repeat split; try assumption. exists 2%nat; split; [lia | reflexivity].
Qed.

Lemma select_In : forall A (f : A -> Q) xc l xs cur, In (select f xc xs cur l) (cur :: l).
Proof.
  intros A f xc. induction l as [|x l IH]; intros xs cur; cbn [select]; [left; reflexivity|].
  destruct (Qltb xc (xs + f x)); [right; left; reflexivity|].
  right. exact (IH (Qred (xs + f x)) x).
Qed.

Lemma select_In' : forall A (f : A -> Q) xc l xs cur, In cur l -> In (select f xc xs cur l) l.
Proof. intros A f xc l xs cur H. destruct (select_In A f xc l xs cur) as [E|E]; [rewrite <- E; exact H | exact E]. Qed.

(* with no hypothesis at all: a registered transition is chosen and only the oracle moves *)
Lemma stoch_select_shape : forall s x dt s3, stoch_select s = Some (x, dt, s3) ->
  In x (all_events tb) /\ exists nr, (nr <= 2)%nat /\ s3 = advance nr 1 0 s.
Proof.
  intros s x dt s3. unfold stoch_select.
  rewrite next_rand_adv, next_ln_adv, advance_advance. cbn [Nat.add].
  destruct (transitions tb) as [|x0 rest] eqn:Etr; [discriminate|].
  destruct rest as [|x1 rest].
  - intros E; inversion E; subst. split; [apply In_transitions; rewrite Etr; left; reflexivity|].
    exists 1%nat; split; [lia | reflexivity].
  - rewrite next_rand_adv, advance_advance. cbn [Nat.add].
    set (sel := select _ _ _ _ _).
    assert (Hs : In sel (x0 :: x1 :: rest)) by (apply select_In'; left; reflexivity).
    clearbody sel. intros E; inversion E; subst. split.
    + apply In_transitions. rewrite Etr. exact Hs.
    + exists 2%nat; split; [lia | reflexivity].
Qed.

(* records of a whole Gillespie run; Pev is what is known of every chosen transition *)
Definition stoch_rec (Pev : nat * nat * event -> Prop) (o : obs) : Prop :=
  match o with
  | OHandler _ _ _ _ m => m = None \/ m = Some true
  | OTap _ pi n _ => (exists k, n = NPost k) \/ (exists j ev, n = NEv pi j /\ Pev (pi, j, ev))
  | _ => True
  end.

Lemma posted_stoch : forall Pev t o, posted_rec t o -> stoch_rec Pev o.
Proof.
  intros Pev t o; destruct o; simpl; tauto.
Qed.

Lemma Forall_skipn : forall A (P : A -> Prop) n l, Forall P l -> Forall P (skipn n l).
Proof.
  intros A P. induction n as [|n IH]; intros l H; [exact H|].
  destruct l as [|x l]; [constructor|]. inversion H; subst. apply IH; assumption.
Qed.

Section StochGen.
(* IR: an invariant of the stream of uniform variates; Pev: the fact established at each selection *)
Variable IR : list Q -> Prop.
Variable Pev : nat * nat * event -> Prop.
Hypothesis IR_skipn : forall n l, IR l -> IR (skipn n l).
Hypothesis Hsel : forall s x dt s3, IR (rands s) -> Qeq_bool (sum_rates s (transitions tb)) 0 = false ->
  stoch_select s = Some (x, dt, s3) -> Pev x.

Lemma stoch_loop_gen : forall pf fuel t ev s, IR (rands s) ->
  ext (stoch_rec Pev) s (snd (stoch_loop tb pf fuel t ev s)).
Proof.
  intros pf. induction fuel as [|f IH]; intros t ev s Hr.
  - simpl. apply ext_same_out; reflexivity.
  - rewrite stoch_loop_S.
    destruct (at_equil t s); [apply ext_refl|].
    destruct (Qeq_bool (sum_rates s (transitions tb)) 0) eqn:Ha.
    + unfold next_pending_time. cbv zeta.
      destruct (head (queue (discard s))) as [h|]; cbn [option_map]; [|apply ext_same_out; reflexivity].
      destruct (run_pending_spec pf (e_time h) 0%nat (discard s)) as [[O1 _] E].
      destruct (run_pending tb pf (e_time h) 0 (discard s)) as [n s''].
      cbn [snd] in *.
      apply (ext_trans _ _ s'').
      * apply (ext_trans _ _ (discard s)); [apply ext_same_out; reflexivity|].
        exact (ext_impl _ _ _ _ (posted_stoch Pev (e_time h)) E).
      * apply IH. rewrite O1. exact Hr.
    + destruct (stoch_select s) as [[[x dt] s3]|] eqn:Esel; [|apply ext_same_out; reflexivity].
      assert (Hp := Hsel s x dt s3 Hr Ha Esel).
      destruct (stoch_select_shape s x dt s3 Esel) as (_ & nr & _ & Es3).
      cbv zeta.
      destruct (run_pending_spec pf (Qred (t + dt)) 0%nat s3) as [[O1 [_ O3]] E].
      destruct (run_pending tb pf (Qred (t + dt)) 0 s3) as [n s4]. cbn [snd] in *.
      assert (E04 : ext (stoch_rec Pev) s s4).
      { apply (ext_trans _ _ s3); [apply ext_same_out; subst s3; reflexivity|].
        exact (ext_impl _ _ _ _ (posted_stoch Pev _) E). }
      assert (Hr4 : IR (rands s4)).
      { rewrite O1. subst s3. cbn [advance rands]. apply IR_skipn; exact Hr. }
      set (s5 := set_clock (Qred (t + dt)) s4).
      destruct (locus s5 (ev_locus (snd x))) as [|e0 l0] eqn:El.
      * rewrite (stoch_fire_empty x _ _ s5 El).
        apply (ext_trans _ _ s5); [apply (ext_trans _ _ s4); [exact E04 | apply ext_same_out; reflexivity]|].
        apply IH. exact Hr4.
      * destruct (stoch_fire_member x (Qred (t + dt)) (ev + n)%nat s5) as [e [He Ef]]; [rewrite El; discriminate|].
        rewrite Ef. destruct x as [[pi j] evt]. cbn [snd] in *.
        destruct (fire_event_spec pi j evt (Qred (t + dt)) e (advance 0 0 1 s5)) as [F [l [A Eo]]].
        set (s6 := fire_event tb (pi, j, evt) (Qred (t + dt)) e (advance 0 0 1 s5)) in *.
        apply (ext_trans _ _ s6).
        -- apply (ext_trans _ _ s4); [exact E04|].
           exists (OTap (Qred (t + dt)) pi (NEv pi j) e :: l ++
                   [OHandler (ev_prog evt) (Qred (t + dt)) (clock (advance 0 0 1 s5)) e (Some true)]).
           split.
           ++ rewrite Eo. change (locus (advance 0 0 1 s5) (ev_locus evt)) with (locus s5 (ev_locus evt)).
              rewrite (proj2 (mem_In e _) He). cbn [app]. rewrite <- app_assoc. reflexivity.
           ++ constructor; [right; exists j, evt; split; [reflexivity | exact Hp]|].
              apply Forall_app; split; [|repeat constructor; right; reflexivity].
              eapply Forall_impl; [|exact A]. intros o; destruct o; simpl; tauto.
        -- apply IH. destruct F as (_ & F2 & _). rewrite F2. cbn [advance rands]. exact Hr4.
Qed.
End StochGen.

Lemma act_stoch : forall Pev o, act_obs o -> stoch_rec Pev o.
Proof. intros Pev o; destruct o; simpl; tauto. Qed.

(* set-up: the processes' set-up actions only produce action records *)
Lemma setup_state_out : forall rs ls ds,
  Forall act_obs (out (setup_state tb rs ls ds)) /\ rands (setup_state tb rs ls ds) = rs.
Proof.
  intros rs ls ds. unfold setup_state.
  set (s0 := {| clock := 0; nextid := 0; queue := []; loci := init_loci tb; world := t_world tb; ids := []; out := [];
                rands := rs; lns := ls; draws := ds; stuck := false |}).
  assert (H0 : Forall act_obs (out s0) /\ rands s0 = rs) by (split; [constructor | reflexivity]).
  generalize 0%nat. revert H0. generalize s0. clear s0.
  induction (t_procs tb) as [|p ps IH]; intros s0 H0 n; cbn [fold_left fst snd]; [exact H0|].
  apply IH. destruct (run_actions_spec n 0 (EN 0) (p_setup p) s0) as [(_ & F2 & _) E]. split.
  - exact (ext_Forall _ _ _ E (proj1 H0)).
  - rewrite F2. exact (proj2 H0).
Qed.

(* ------------------------------------------------------------------ whole runs *)
Lemma stoch_run_out : forall pf fuel rs ls ds,
  r_out (stoch_run tb pf fuel rs ls ds) = rev (out (snd (stoch_loop tb pf fuel 0 0 (setup_state tb rs ls ds)))).
Proof.
  intros. unfold stoch_run. destruct (stoch_loop tb pf fuel 0 0 (setup_state tb rs ls ds)) as [[t ev] s]. reflexivity.
Qed.

(* unconditional: handlers are called on members, taps name registered events *)
Lemma stoch_run_member : forall pf fuel rs ls ds,
  Forall (stoch_rec (fun x => In x (all_events tb))) (r_out (stoch_run tb pf fuel rs ls ds)).
Proof.
  intros pf fuel rs ls ds. rewrite stoch_run_out. apply Forall_rev.
  eapply ext_Forall.
  - apply (stoch_loop_gen (fun _ => True)); [tauto | | exact I].
    intros s x dt s3 _ _ E. exact (proj1 (stoch_select_shape s x dt s3 E)).
  - eapply Forall_impl; [apply act_stoch|]. exact (proj1 (setup_state_out rs ls ds)).
Qed.

(* with non-negative probabilities and uniform variates in [0,1): only events of positive probability fire *)
Lemma stoch_run_positive : nonneg_table -> forall pf fuel rs ls ds, Forall unit_rand rs ->
  Forall (stoch_rec (fun x => In x (all_events tb) /\ 0 < ev_p (snd x))) (r_out (stoch_run tb pf fuel rs ls ds)).
Proof.
  intros Hnn pf fuel rs ls ds Hr. rewrite stoch_run_out. apply Forall_rev.
  eapply ext_Forall.
  - apply (stoch_loop_gen (Forall unit_rand)).
    + intros n l; apply Forall_skipn.
    + intros s x dt s3 Hrs Ha E. destruct (stoch_select_pos s x dt s3 Hnn Hrs Ha E) as (h1 & h2 & _). split; assumption.
    + rewrite (proj2 (setup_state_out rs ls ds)). exact Hr.
  - eapply Forall_impl; [apply act_stoch|]. exact (proj1 (setup_state_out rs ls ds)).
Qed.

End KM.
