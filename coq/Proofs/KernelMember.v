(* Lemmas for C05 (and shared by C06): what each layer of Model/Kernel.v appends to the
   observation stream, and what it leaves alone.  Facts are established per call (user
   programs mutate loci arbitrarily, so nothing about loci is carried across calls). *)
From Coq Require Import List ZArith QArith Qabs Bool Arith Lia.
From EpyV Require Import Model.Kernel.
Import ListNotations.
Open Scope Q_scope.

(* ------------------------------------------------------------------ small facts *)
Lemma elem_eqb_refl : forall x, elem_eqb x x = true.
Proof. destruct x; simpl; rewrite ?Z.eqb_refl; reflexivity. Qed.

Lemma elem_eqb_eq : forall x y, elem_eqb x y = true <-> x = y.
Proof.
  intros x y; split; [|intros ->; apply elem_eqb_refl].
  destruct x, y; simpl; try discriminate.
  - intros H; apply Z.eqb_eq in H; subst; reflexivity.
  - intros H; apply andb_true_iff in H; destruct H as [H1 H2].
    apply Z.eqb_eq in H1; apply Z.eqb_eq in H2; subst; reflexivity.
Qed.

Lemma mem_In : forall x l, mem x l = true <-> In x l.
Proof.
  intros x l; unfold mem; rewrite existsb_exists; split.
  - intros [y [Hy He]]. apply elem_eqb_eq in He; subst; exact Hy.
  - intros H; exists x; split; [exact H | apply elem_eqb_refl].
Qed.

Lemma nth_mod_In : forall (l : list elem) k d, l <> [] -> In (nth (k mod length l) l d) l.
Proof.
  intros l k d Hl. apply nth_In. apply Nat.mod_upper_bound.
  destruct l; [congruence | simpl; lia].
Qed.

Lemma Qltb_lt : forall x y, Qltb x y = true <-> x < y.
Proof.
  intros x y; unfold Qltb; rewrite negb_true_iff; split; intros H.
  - apply Qnot_le_lt; intros Hle; apply Qle_bool_iff in Hle; congruence.
  - destruct (Qle_bool y x) eqn:E; [|reflexivity].
    apply Qle_bool_iff in E. exfalso; exact (Qlt_not_le _ _ H E).
Qed.

Lemma Qltb_ge : forall x y, Qltb x y = false <-> y <= x.
Proof.
  intros x y; unfold Qltb; rewrite negb_false_iff. apply Qle_bool_iff.
Qed.

(* ------------------------------------------------------------------ classes of records *)
(* records a user program itself can produce: anything but a handler entry or a tap *)
Definition act_obs (o : obs) : Prop :=
  match o with OHandler _ _ _ _ _ | OTap _ _ _ _ => False | _ => True end.

(* records of runPendingEvents(t): posted handlers (member = None) due by t, their taps, and actions *)
Definition posted_rec (t : Q) (o : obs) : Prop :=
  match o with
  | OHandler _ targ _ _ m => m = None /\ targ <= t
  | OTap tt _ n _ => (exists k, n = NPost k) /\ tt <= t
  | _ => True
  end.

Section KM.
Context {W : Type}.
Notation st := (st W).
Variable tb : table W.

(* [ext P s s']: s' has the records of s plus newer ones, all satisfying P *)
Definition ext (P : obs -> Prop) (s s' : st) : Prop := exists l, out s' = l ++ out s /\ Forall P l.

Lemma ext_refl : forall P s, ext P s s.
Proof. intros; exists []; split; [reflexivity | constructor]. Qed.

Lemma ext_trans : forall P s1 s2 s3, ext P s1 s2 -> ext P s2 s3 -> ext P s1 s3.
Proof.
  intros P s1 s2 s3 [l1 [E1 F1]] [l2 [E2 F2]]. exists (l2 ++ l1); split.
  - rewrite E2, E1, app_assoc; reflexivity.
  - apply Forall_app; split; assumption.
Qed.

Lemma ext_impl : forall (P Q : obs -> Prop) s s', (forall o, P o -> Q o) -> ext P s s' -> ext Q s s'.
Proof. intros P Q s s' H [l [E F]]; exists l; split; [exact E | exact (Forall_impl _ H F)]. Qed.

Lemma ext_emit : forall (P : obs -> Prop) o s, P o -> ext P s (emit o s).
Proof. intros P o s H; exists [o]; split; [reflexivity | repeat constructor; exact H]. Qed.

Lemma ext_same_out : forall P s s', out s' = out s -> ext P s s'.
Proof. intros P s s' H; exists []; split; [exact H | constructor]. Qed.

Lemma ext_Forall : forall P s s', ext P s s' -> Forall P (out s) -> Forall P (out s').
Proof. intros P s s' [l [E F]] H; rewrite E; apply Forall_app; split; assumption. Qed.

(* what user actions never touch *)
Definition frame (s s' : st) : Prop :=
  clock s' = clock s /\ rands s' = rands s /\ lns s' = lns s /\ draws s' = draws s /\ stuck s' = stuck s.

Lemma frame_refl : forall s, frame s s.
Proof. intros; repeat split. Qed.

Lemma frame_trans : forall s1 s2 s3, frame s1 s2 -> frame s2 s3 -> frame s1 s3.
Proof.
  intros s1 s2 s3 (a1 & a2 & a3 & a4 & a5) (b1 & b2 & b3 & b4 & b5).
  repeat split; etransitivity; eassumption.
Qed.

(* ------------------------------------------------------------------ actions and programs *)
Lemma do_action_spec : forall p t e a s,
  frame s (do_action p t e a s) /\ ext act_obs s (do_action p t e a s).
Proof.
  intros p t e a s. destruct a; simpl.
  - unfold post. destruct (Qltb _ _); simpl; (split; [repeat split | apply (ext_emit act_obs); exact I]).
  - unfold post. destruct (Qltb _ _); simpl; (split; [repeat split | apply (ext_emit act_obs); exact I]).
  - unfold post. destruct (Qltb _ _); simpl; (split; [repeat split | apply (ext_emit act_obs); exact I]).
  - destruct (ids s); [split; [apply frame_refl | apply ext_refl]|].
    destruct (find_live _ _); (split; [repeat split | apply (ext_emit act_obs); exact I]).
  - destruct (ids s); [split; [apply frame_refl | apply ext_refl]|].
    split; [repeat split | apply (ext_emit act_obs); exact I].
  - split; [repeat split | apply ext_same_out; reflexivity].
  - split; [repeat split | apply ext_same_out; reflexivity].
  - split; [repeat split | apply ext_same_out; reflexivity].
  - split; [repeat split | apply ext_same_out; reflexivity].
  - split; [repeat split | apply (ext_emit act_obs); exact I].
Qed.

Lemma run_actions_spec : forall p t e acts s,
  frame s (run_actions p t e acts s) /\ ext act_obs s (run_actions p t e acts s).
Proof.
  intros p t e acts. unfold run_actions. induction acts as [|a acts IH]; intros s; simpl.
  - split; [apply frame_refl | apply ext_refl].
  - destruct (do_action_spec p t e a s) as [F1 E1]. destruct (IH (do_action p t e a s)) as [F2 E2].
    split; [exact (frame_trans _ _ _ F1 F2) | exact (ext_trans _ _ _ _ E1 E2)].
Qed.

Lemma run_prog_spec : forall p k t e s,
  frame s (run_prog tb p k t e s) /\ ext act_obs s (run_prog tb p k t e s).
Proof.
  intros p k t e s. unfold run_prog. destruct (prog_of tb k t e (loci s) (world s)) as [w acts].
  destruct (run_actions_spec p t e acts (set_world w s)) as [F E]. split; [exact F | exact E].
Qed.

(* ------------------------------------------------------------------ posted events *)
Lemma act_posted : forall t o, act_obs o -> posted_rec t o.
Proof. intros t o; destruct o; simpl; tauto. Qed.

Lemma posted_rec_mono : forall t t' o, t <= t' -> posted_rec t o -> posted_rec t' o.
Proof.
  intros t t' o H; destruct o; simpl; try tauto.
  - intros [E L]; split; [exact E | exact (Qle_trans _ _ _ L H)].
  - intros [E L]; split; [exact E | exact (Qle_trans _ _ _ L H)].
Qed.

Definition oracle_same (s s' : st) : Prop := rands s' = rands s /\ lns s' = lns s /\ draws s' = draws s.

Lemma frame_oracle : forall s s', frame s s' -> oracle_same s s'.
Proof. intros s s' (a1 & a2 & a3 & a4 & a5); repeat split; assumption. Qed.

Lemma oracle_same_trans : forall s1 s2 s3, oracle_same s1 s2 -> oracle_same s2 s3 -> oracle_same s1 s3.
Proof.
  intros s1 s2 s3 (a2 & a3 & a4) (b2 & b3 & b4). repeat split; etransitivity; eassumption.
Qed.

Lemma fire_spec : forall x t s, e_time x <= t ->
  frame s (fire tb x s) /\ ext (posted_rec t) s (fire tb x s).
Proof.
  intros x t s Hx. unfold fire.
  set (s1 := emit _ s).
  assert (E1 : ext (posted_rec t) s s1) by (apply ext_emit; simpl; split; [reflexivity | exact Hx]).
  destruct (run_prog_spec (e_proc x) (e_prog x) (e_time x) (e_elem x) s1) as [F2 E2].
  apply (ext_impl _ (posted_rec t)) in E2; [|apply act_posted].
  set (s2 := run_prog _ _ _ _ _ _) in *.
  assert (F02 : frame s s2) by (apply (frame_trans _ s1); [repeat split | exact F2]).
  assert (E02 : ext (posted_rec t) s s2) by exact (ext_trans _ _ _ _ E1 E2).
  destruct (e_rep x) as [ddt|]; [|split; assumption].
  unfold post. destruct (Qltb _ _); simpl.
  - split; [exact F02 | apply (ext_trans _ _ s2); [exact E02 | apply ext_emit; exact I]].
  - split; [exact F02 | apply (ext_trans _ _ s2); [exact E02 | apply ext_same_out; reflexivity]].
Qed.

Lemma run_pending_spec : forall f t n s,
  oracle_same s (snd (run_pending tb f t n s)) /\ ext (posted_rec t) s (snd (run_pending tb f t n s)).
Proof.
  induction f as [|f IH]; intros t n s; simpl.
  - split; [repeat split | apply ext_same_out; reflexivity].
  - destruct (head (queue (discard s))) as [h|]; [|split; [repeat split | apply ext_same_out; reflexivity]].
    destruct (Qle_bool (e_time h) t) eqn:Hle; [|split; [repeat split | apply ext_same_out; reflexivity]].
    apply Qle_bool_iff in Hle.
    set (s1 := set_clock _ _).
    destruct (fire_spec h t s1 Hle) as [F2 E2].
    set (s3 := emit _ (fire tb h s1)).
    destruct (IH t (S n) s3) as [O4 E4]. split.
    + apply (oracle_same_trans _ s3); [|exact O4].
      apply (oracle_same_trans _ s1); [repeat split | exact (frame_oracle _ _ F2)].
    + apply (ext_trans _ _ s3); [|exact E4].
      apply (ext_trans _ _ (fire tb h s1)); [apply (ext_trans _ _ s1); [apply ext_same_out; reflexivity | exact E2]|].
      apply ext_emit. simpl. split; [eexists; reflexivity | exact Hle].
Qed.

(* ------------------------------------------------------------------ stochastic / per-element firing *)
Lemma fire_event_spec : forall pi j ev t e s,
  let s' := fire_event tb (pi, j, ev) t e s in
  frame s s' /\
  exists l, Forall act_obs l /\
    out s' = OTap t pi (NEv pi j) e :: l ++
             OHandler (ev_prog ev) t (clock s) e (Some (mem e (locus s (ev_locus ev)))) :: out s.
Proof.
  intros pi j ev t e s. simpl.
  set (s1 := emit _ s).
  destruct (run_prog_spec pi (ev_prog ev) t e s1) as [F [l [E A]]].
  split.
  - apply (frame_trans _ s1); [repeat split|]. destruct F as (a1 & a2 & a3 & a4 & a5). repeat split; assumption.
  - exists l; split; [exact A|]. simpl. rewrite E. reflexivity.
Qed.

End KM.
