(* Lemmas for C05 (and shared by C06): what each layer of Model/Kernel.v appends to the
   observation stream, and what it leaves alone.  Facts are established per call (user
   programs mutate loci arbitrarily, so nothing about loci is carried across calls). *)
From Coq Require Import List ZArith QArith Qabs Bool Arith Lia.
From EpyV Require Import Model.Kernel.
Import ListNotations.
Open Scope Q_scope.

(* ------------------------------------------------------------------ small facts *)
Lemma elem_eqb_refl : forall x, elem_eqb x x = true.
Proof. destruct x; simpl; rewrite ?Z.eqb_refl; reflexivity. Qed.

Lemma elem_eqb_eq : forall x y, elem_eqb x y = true <-> x = y.
Proof.
  intros x y; split; [|intros ->; apply elem_eqb_refl].
  destruct x, y; simpl; try discriminate.
  - intros H; apply Z.eqb_eq in H; subst; reflexivity.
  - intros H; apply andb_true_iff in H; destruct H as [H1 H2].
    apply Z.eqb_eq in H1; apply Z.eqb_eq in H2; subst; reflexivity.
Qed.

Lemma mem_In : forall x l, mem x l = true <-> In x l.
Proof.
  intros x l; unfold mem; rewrite existsb_exists; split.
  - intros [y [Hy He]]. apply elem_eqb_eq in He; subst; exact Hy.
  - intros H; exists x; split; [exact H | apply elem_eqb_refl].
Qed.

Lemma nth_mod_In : forall (l : list elem) k d, l <> [] -> In (nth (k mod length l) l d) l.
Proof.
  intros l k d Hl. apply nth_In. apply Nat.mod_upper_bound.
  destruct l; [congruence | simpl; lia].
Qed.

Lemma Qltb_lt : forall x y, Qltb x y = true <-> x < y.
Proof.
  intros x y; unfold Qltb; rewrite negb_true_iff; split; intros H.
  - apply Qnot_le_lt; intros Hle; apply Qle_bool_iff in Hle; congruence.
  - destruct (Qle_bool y x) eqn:E; [|reflexivity].
    apply Qle_bool_iff in E. exfalso; exact (Qlt_not_le _ _ H E).
Qed.

Lemma Qltb_ge : forall x y, Qltb x y = false <-> y <= x.
Proof.
  intros x y; unfold Qltb; rewrite negb_false_iff. apply Qle_bool_iff.
Qed.

(* ------------------------------------------------------------------ classes of records *)
(* records a user program itself can produce: anything but a handler entry or a tap *)
Definition act_obs (o : obs) : Prop :=
  match o with OHandler _ _ _ _ _ | OTap _ _ _ _ => False | _ => True end.

(* records of runPendingEvents(t): posted handlers (member = None) due by t, their taps, and actions *)
Definition posted_rec (t : Q) (o : obs) : Prop :=
  match o with
  | OHandler _ targ _ _ m => m = None /\ targ <= t
  | OTap t1 _ n _ => (exists k, n = NPost k) /\ t1 <= t
  | _ => True
  end.

Section KM.
Context {W : Type}.
Notation st := (st W).
Variable tb : table W.

(* [ext P s s']: s' has the records of s plus newer ones, all satisfying P *)
Definition ext (P : obs -> Prop) (s s' : st) : Prop := exists l, out s' = l ++ out s /\ Forall P l.

Lemma ext_refl : forall P s, ext P s s.
Proof. intros; exists []; split; [reflexivity | constructor]. Qed.

Lemma ext_trans : forall P s1 s2 s3, ext P s1 s2 -> ext P s2 s3 -> ext P s1 s3.
Proof.
  intros P s1 s2 s3 [l1 [E1 F1]] [l2 [E2 F2]]. exists (l2 ++ l1); split.
  - rewrite E2, E1, app_assoc; reflexivity.
  - apply Forall_app; split; assumption.
Qed.

Lemma ext_impl : forall (P Q : obs -> Prop) s s', (forall o, P o -> Q o) -> ext P s s' -> ext Q s s'.
Proof. intros P Q s s' H [l [E F]]; exists l; split; [exact E | exact (Forall_impl _ H F)]. Qed.

Lemma ext_emit : forall (P : obs -> Prop) o s, P o -> ext P s (emit o s).
Proof. intros P o s H; exists [o]; split; [reflexivity | repeat constructor; exact H]. Qed.

Lemma ext_same_out : forall P s s', out s' = out s -> ext P s s'.
Proof. intros P s s' H; exists []; split; [exact H | constructor]. Qed.

Lemma ext_Forall : forall P s s', ext P s s' -> Forall P (out s) -> Forall P (out s').
Proof. intros P s s' [l [E F]] H; rewrite E; apply Forall_app; split; assumption. Qed.

(* what user actions never touch *)
Definition frame (s s' : st) : Prop :=
  clock s' = clock s /\ rands s' = rands s /\ lns s' = lns s /\ draws s' = draws s /\ stuck s' = stuck s.

Lemma frame_refl : forall s, frame s s.
Proof. intros; repeat split. Qed.

Lemma frame_trans : forall s1 s2 s3, frame s1 s2 -> frame s2 s3 -> frame s1 s3.
Proof.
  intros s1 s2 s3 (a1 & a2 & a3 & a4 & a5) (b1 & b2 & b3 & b4 & b5).
  repeat split; etransitivity; eassumption.
Qed.

(* ------------------------------------------------------------------ actions and programs *)
Lemma do_action_spec : forall p t e a s,
  frame s (do_action p t e a s) /\ ext act_obs s (do_action p t e a s).
Proof.
  intros p t e a s.
  assert (E1 : forall (o : obs) (s1 s2 : st), act_obs o -> out s2 = o :: out s1 -> ext act_obs s1 s2).
  { intros o s1 s2 Ho E. exists [o]; split; [exact E | repeat constructor; exact Ho]. }
  assert (E0 : forall (s1 s2 : st), out s2 = out s1 -> ext act_obs s1 s2) by (intros; apply ext_same_out; assumption).
  (* one script for every constructor, so that new kinds of posting action need no new case *)
  destruct a; unfold do_action, post;
    try (destruct (ids s); [split; [apply frame_refl | apply ext_refl]|]);
    try destruct (Qltb _ _); try destruct (find_live _ _);
    (split; [repeat split | first [apply E0; reflexivity | eapply E1; [|reflexivity]; exact I]]).
Qed.

Lemma run_actions_spec : forall p t e acts s,
  frame s (run_actions p t e acts s) /\ ext act_obs s (run_actions p t e acts s).
Proof.
  intros p t e acts. unfold run_actions. induction acts as [|a acts IH]; intros s; simpl.
  - split; [apply frame_refl | apply ext_refl].
  - destruct (do_action_spec p t e a s) as [F1 E1]. destruct (IH (do_action p t e a s)) as [F2 E2].
    split; [exact (frame_trans _ _ _ F1 F2) | exact (ext_trans _ _ _ _ E1 E2)].
Qed.

Lemma run_prog_spec : forall p k t e s,
  frame s (run_prog tb p k t e s) /\ ext act_obs s (run_prog tb p k t e s).
Proof.
  intros p k t e s. unfold run_prog. destruct (prog_of tb k t e (loci s) (world s)) as [w acts].
  destruct (run_actions_spec p t e acts (set_world w s)) as [F E]. split; [exact F | exact E].
Qed.

(* ------------------------------------------------------------------ posted events *)
Lemma act_posted : forall t o, act_obs o -> posted_rec t o.
Proof. intros t o; destruct o; simpl; tauto. Qed.

Lemma posted_rec_mono : forall t t' o, t <= t' -> posted_rec t o -> posted_rec t' o.
Proof.
  intros t t' o H; destruct o; simpl; try tauto.
  - intros [E L]; split; [exact E | exact (Qle_trans _ _ _ L H)].
  - intros [E L]; split; [exact E | exact (Qle_trans _ _ _ L H)].
Qed.

Definition oracle_same (s s' : st) : Prop := rands s' = rands s /\ lns s' = lns s /\ draws s' = draws s.

Lemma frame_oracle : forall s s', frame s s' -> oracle_same s s'.
Proof. intros s s' (a1 & a2 & a3 & a4 & a5); repeat split; assumption. Qed.

Lemma oracle_same_trans : forall s1 s2 s3, oracle_same s1 s2 -> oracle_same s2 s3 -> oracle_same s1 s3.
Proof.
  intros s1 s2 s3 (a2 & a3 & a4) (b2 & b3 & b4). repeat split; etransitivity; eassumption.
Qed.

Lemma fire_spec : forall x t s, e_time x <= t ->
  frame s (fire tb x s) /\ ext (posted_rec t) s (fire tb x s).
Proof.
  intros x t s Hx. unfold fire.
  set (s1 := emit _ s).
  assert (E1 : ext (posted_rec t) s s1) by (apply ext_emit; simpl; split; [reflexivity | exact Hx]).
  destruct (run_prog_spec (e_proc x) (e_prog x) (e_time x) (e_elem x) s1) as [F2 E2].
  apply (ext_impl _ (posted_rec t)) in E2; [|apply act_posted].
  set (s2 := run_prog _ _ _ _ _ _) in *.
  assert (F02 : frame s s2) by (apply (frame_trans _ s1); [repeat split | exact F2]).
  assert (E02 : ext (posted_rec t) s s2) by exact (ext_trans _ _ _ _ E1 E2).
  destruct (e_rep x) as [ddt|]; [|split; assumption].
  unfold post. destruct (Qltb _ _); simpl.
  - split; [exact F02 | apply (ext_trans _ _ s2); [exact E02 | apply ext_emit; exact I]].
  - split; [exact F02 | apply (ext_trans _ _ s2); [exact E02 | apply ext_same_out; reflexivity]].
Qed.

Lemma run_pending_spec : forall f t n s,
  oracle_same s (snd (run_pending tb f t n s)) /\ ext (posted_rec t) s (snd (run_pending tb f t n s)).
Proof.
  induction f as [|f IH]; intros t n s.
  - simpl. split; [repeat split | apply ext_same_out; reflexivity].
  - cbn [run_pending]. destruct (head (queue (discard s))) as [h|]; [|split; [repeat split | apply ext_same_out; reflexivity]].
    destruct (Qle_bool (e_time h) t) eqn:Hle; [|split; [repeat split | apply ext_same_out; reflexivity]].
    apply Qle_bool_iff in Hle.
    set (s1 := set_clock _ _).
    destruct (fire_spec h t s1 Hle) as [F2 E2].
    set (s3 := emit _ (fire tb h s1)).
    destruct (IH t (S n) s3) as [O4 E4]. split.
    + apply (oracle_same_trans _ s3); [|exact O4].
      apply (oracle_same_trans _ s1); [repeat split | exact (frame_oracle _ _ F2)].
    + apply (ext_trans _ _ s3); [|exact E4].
      apply (ext_trans _ _ (fire tb h s1)); [apply (ext_trans _ _ s1); [apply ext_same_out; reflexivity | exact E2]|].
      apply ext_emit. simpl. split; [eexists; reflexivity | exact Hle].
Qed.

(* ------------------------------------------------------------------ stochastic / per-element firing *)
Lemma fire_event_spec : forall pi j ev t e s,
  let s' := fire_event tb (pi, j, ev) t e s in
  frame s s' /\
  exists l, Forall act_obs l /\
    out s' = OTap t pi (NEv pi j) e :: l ++
             OHandler (ev_prog ev) t (clock s) e (Some (mem e (locus s (ev_locus ev)))) :: out s.
Proof.
  intros pi j ev t e s. simpl.
  set (s1 := emit _ s).
  destruct (run_prog_spec pi (ev_prog ev) t e s1) as [F [l [E A]]].
  split.
  - apply (frame_trans _ s1); [repeat split|]. destruct F as (a1 & a2 & a3 & a4 & a5). repeat split; assumption.
  - exists l; split; [exact A|]. simpl. rewrite E. reflexivity.
Qed.

(* ------------------------------------------------------------------ the oracle *)
(* consuming nr uniform variates, nl logarithms and nd ranks; an exhausted stream yields the
   default and sets [stuck] *)
Definition advance (nr nl nd : nat) (s : st) : st :=
  {| clock := clock s; nextid := nextid s; queue := queue s; loci := loci s; world := world s; ids := ids s; out := out s;
     rands := skipn nr (rands s); lns := skipn nl (lns s); draws := skipn nd (draws s);
     stuck := stuck s || (length (rands s) <? nr)%nat || (length (lns s) <? nl)%nat || (length (draws s) <? nd)%nat |}.

Lemma next_rand_adv : forall s, next_rand s = (hd 0 (rands s), advance 1 0 0 s).
Proof.
  intros [c ni q lc w i o rs ls ds sk]. unfold next_rand, advance, set_stuck, set_oracle. simpl.
  destruct rs as [|r rs]; simpl; destruct sk; reflexivity.
Qed.

Lemma next_ln_adv : forall s, next_ln s = (hd 0 (lns s), advance 0 1 0 s).
Proof.
  intros [c ni q lc w i o rs ls ds sk]. unfold next_ln, advance, set_stuck, set_oracle. simpl.
  destruct ls as [|r ls]; simpl; destruct sk; reflexivity.
Qed.

Lemma next_draw_adv : forall s, next_draw s = (hd 0%nat (draws s), advance 0 0 1 s).
Proof.
  intros [c ni q lc w i o rs ls ds sk]. unfold next_draw, advance, set_stuck, set_oracle. simpl.
  destruct ds as [|r ds]; simpl; destruct sk; reflexivity.
Qed.

Lemma ltb_skipn_add : forall (n a b : nat), ((n <? a) || (n - a <? b))%nat = (n <? a + b)%nat.
Proof.
  intros n a b. destruct (Nat.ltb_spec n a), (Nat.ltb_spec (n - a) b), (Nat.ltb_spec n (a + b)); simpl; try reflexivity; lia.
Qed.

Lemma skipn_add : forall A (a b : nat) (l : list A), skipn b (skipn a l) = skipn (a + b) l.
Proof.
  intros A a b. induction a as [|a IH]; intros l; [reflexivity|].
  destruct l as [|x l]; [simpl; apply skipn_nil | simpl; apply IH].
Qed.

Lemma advance_advance : forall a b c a' b' c' s,
  advance a' b' c' (advance a b c s) = advance (a + a') (b + b') (c + c') s.
Proof.
  intros a b c a' b' c' [cl ni q lc w i o rs ls ds sk]. unfold advance; simpl.
  rewrite !skipn_add, !skipn_length.
  f_equal.
  rewrite <- (ltb_skipn_add (length rs) a a'), <- (ltb_skipn_add (length ls) b b'), <- (ltb_skipn_add (length ds) c c').
  destruct sk; [reflexivity|]. simpl.
  destruct (length rs <? a)%nat, (length ls <? b)%nat, (length ds <? c)%nat,
           (length rs - a <? a')%nat, (length ls - b <? b')%nat, (length ds - c <? c')%nat; reflexivity.
Qed.

Lemma advance_0 : forall s, advance 0 0 0 s = s.
Proof. intros [cl ni q lc w i o rs ls ds sk]. unfold advance; simpl. rewrite !orb_false_r. reflexivity. Qed.

(* ------------------------------------------------------------------ the tranche loop *)
(* the event named by a tap is a registered event with positive probability *)
Definition fired_ok (pi : nat) (n : ename) : Prop :=
  exists j ev, n = NEv pi j /\ In (pi, j, ev) (all_events tb) /\ 0 < ev_p ev.

(* records of the tranche of timestep t *)
Definition tranche_rec (t : Q) (o : obs) : Prop :=
  match o with
  | OHandler _ targ clk _ m => m = Some true /\ targ = t /\ clk = t
  | OTap t1 pi n _ => t1 = t /\ fired_ok pi n
  | _ => True
  end.

Definition is_fired (o : obs) : bool := match o with OHandler _ _ _ _ (Some _) => true | _ => false end.
Definition nfired (l : list obs) : nat := length (filter is_fired l).

Lemma nfired_act : forall l, Forall act_obs l -> nfired l = 0%nat.
Proof.
  unfold nfired. induction 1 as [|o l Ho _ IH]; [reflexivity|].
  simpl. destruct o; simpl in *; try exact IH; contradiction.
Qed.

Lemma nfired_app : forall a b, nfired (a ++ b) = (nfired a + nfired b)%nat.
Proof. intros; unfold nfired; rewrite filter_app, app_length; reflexivity. Qed.

Definition sel_ok (xe : (nat * nat * event) * elem) : Prop :=
  In (fst xe) (all_events tb) /\ 0 < ev_p (snd (fst xe)).

(* the skip of synchronousdynamics.py:114, as equations on the loop body *)
Lemma fire_tranche_skip : forall t x e evs nev s,
  mem e (locus s (ev_locus (snd x))) = false ->
  fire_tranche tb t ((x, e) :: evs) nev s = fire_tranche tb t evs nev s.
Proof. intros t x e evs nev s H. cbn [fire_tranche]. rewrite H. reflexivity. Qed.

Lemma fire_tranche_fire : forall t x e evs nev s,
  mem e (locus s (ev_locus (snd x))) = true ->
  fire_tranche tb t ((x, e) :: evs) nev s = fire_tranche tb t evs (S nev) (fire_event tb x t e s).
Proof. intros t x e evs nev s H. cbn [fire_tranche]. rewrite H. reflexivity. Qed.

Lemma fire_tranche_spec : forall t evs nev s, clock s = t -> Forall sel_ok evs ->
  let r := fire_tranche tb t evs nev s in
  frame s (snd r) /\
  exists l, out (snd r) = l ++ out s /\ Forall (tranche_rec t) l /\ fst r = (nev + nfired l)%nat.
Proof.
  intros t evs. induction evs as [|[x e] evs IH]; intros nev s Hc Hs.
  - simpl. split; [apply frame_refl|]. exists []. split; [reflexivity|]. split; [apply Forall_nil | unfold nfired; simpl; lia].
  - inversion Hs as [|? ? [Hin Hp] Hs']; subst. cbn [fire_tranche].
    destruct (mem e (locus s (ev_locus (snd x)))) eqn:Hm; [|exact (IH nev s eq_refl Hs')].
    destruct x as [[pi j] ev]. simpl fst in *; simpl snd in *.
    destruct (fire_event_spec pi j ev (clock s) e s) as [F [l [A E]]].
    set (s' := fire_event tb (pi, j, ev) (clock s) e s) in *.
    assert (Hc' : clock s' = clock s) by (destruct F as [F _]; exact F).
    specialize (IH (S nev) s' Hc'). destruct (IH Hs') as [F' [l' [E' [R' N']]]].
    split; [exact (frame_trans _ _ _ F F')|].
    exists (l' ++ OTap (clock s) pi (NEv pi j) e :: l ++ [OHandler (ev_prog ev) (clock s) (clock s) e (Some true)]).
    split; [|split].
    + etransitivity; [exact E'|]. rewrite E, Hm. rewrite <- !app_assoc. simpl. rewrite <- app_assoc. reflexivity.
    + apply Forall_app; split; [exact R'|]. constructor.
      * simpl. split; [reflexivity|]. exists j, ev. repeat split; assumption.
      * apply Forall_app; split.
        -- eapply Forall_impl; [|exact A]. intros o; destruct o; simpl; tauto.
        -- repeat constructor.
    + etransitivity; [exact N'|]. rewrite !nfired_app. change (OTap (clock s) pi (NEv pi j) e :: l ++ [OHandler (ev_prog ev) (clock s) (clock s) e (Some true)])
        with ([OTap (clock s) pi (NEv pi j) e] ++ l ++ [OHandler (ev_prog ev) (clock s) (clock s) e (Some true)]).
      rewrite !nfired_app, (nfired_act l A). unfold nfired; simpl. lia.
Qed.

(* ------------------------------------------------------------------ the inverse-CDF scan *)
Fixpoint qsum {A} (f : A -> Q) (l : list A) : Q :=
  match l with [] => 0 | x :: l' => f x + qsum f l' end.

(* [select] returns the first x whose interval [xs + sum before, xs + sum before + f x) contains xc *)
Lemma select_spec : forall A (f : A -> Q) xc l xs cur, xs <= xc -> xc < xs + qsum f l ->
  exists l1 x l2, l = l1 ++ x :: l2 /\ select f xc xs cur l = x /\
    xs + qsum f l1 <= xc /\ xc < xs + qsum f l1 + f x /\
    (forall l1' y l1'', l1 = l1' ++ y :: l1'' -> xs + qsum f l1' + f y <= xc).
Proof.
  intros A f xc. induction l as [|x l IH]; intros xs cur Hlo Hhi.
  - cbn [qsum] in Hhi. rewrite Qplus_0_r in Hhi. exfalso; exact (Qlt_not_le _ _ Hhi Hlo).
  - cbn [select]. destruct (Qltb xc (xs + f x)) eqn:Hc.
    + apply Qltb_lt in Hc. exists [], x, l. cbn [qsum app]. rewrite Qplus_0_r. repeat split; try assumption.
      intros l1' y l1'' Hnil. destruct l1'; discriminate.
    + apply Qltb_ge in Hc. cbn [qsum] in Hhi.
      destruct (IH (Qred (xs + f x)) x) as (l1 & y & l2 & El & Es & H1 & H2 & H3).
      * rewrite Qred_correct; exact Hc.
      * rewrite Qred_correct, <- Qplus_assoc. exact Hhi.
      * rewrite Qred_correct in H1, H2.
        exists (x :: l1), y, l2. cbn [qsum app]. split; [rewrite El; reflexivity|].
        split; [exact Es|]. split; [|split].
        -- rewrite Qplus_assoc; exact H1.
        -- rewrite Qplus_assoc; exact H2.
        -- intros l1' z l1'' E. destruct l1' as [|x' l1']; cbn [app] in E; inversion E; subst.
           ++ cbn [qsum]. rewrite Qplus_0_r. exact Hc.
           ++ cbn [qsum]. rewrite Qplus_assoc. specialize (H3 l1' z l1'' eq_refl).
              rewrite Qred_correct in H3. exact H3.
Qed.

Lemma select_pos : forall A (f : A -> Q) xc l cur, 0 <= xc -> xc < qsum f l ->
  In (select f xc 0 cur l) l /\ 0 < f (select f xc 0 cur l).
Proof.
  intros A f xc l cur Hlo Hhi.
  destruct (select_spec A f xc l 0 cur Hlo) as (l1 & x & l2 & El & Es & H1 & H2 & _).
  - rewrite Qplus_0_l; exact Hhi.
  - rewrite Es. split; [rewrite El; apply in_or_app; right; left; reflexivity|].
    apply (Qplus_lt_r _ _ (0 + qsum f l1)). rewrite Qplus_0_r.
    exact (Qle_lt_trans _ _ _ H1 H2).
Qed.

Lemma fold_qsum : forall A (f : A -> Q) l a, fold_left (fun a x => Qred (a + f x)) l a == a + qsum f l.
Proof.
  intros A f. induction l as [|x l IH]; intros a.
  - change (a == a + 0). rewrite Qplus_0_r; reflexivity.
  - change (fold_left (fun a x => Qred (a + f x)) l (Qred (a + f x)) == a + (f x + qsum f l)).
    rewrite IH, Qred_correct, Qplus_assoc. reflexivity.
Qed.

Lemma sum_rates_qsum : forall (s : st) trs, sum_rates s trs == qsum (rate s) trs.
Proof. intros s trs. unfold sum_rates. rewrite fold_qsum, Qplus_0_l. reflexivity. Qed.

End KM.
