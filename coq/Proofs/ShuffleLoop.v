(* Proofs about Model/Shuffle.v (C18), part 2: one loop iteration and the whole loop. *)
From Coq Require Import List ZArith QArith Qround Bool Arith Lia.
From EpyV Require Import Lib.Prelude Model.Shuffle Proofs.Shuffle.
Import ListNotations.
Local Open Scope nat_scope.

(* ---------------------------------------------------------------- the pieces of an iteration *)
Lemma zmem_false2 x a b : zmem x [a; b] = false -> x <> a /\ x <> b.
Proof.
  unfold zmem; cbn. intros H. apply orb_false_iff in H. destruct H as [H1 H]. apply orb_false_iff in H. destruct H as [H2 _].
  apply Z.eqb_neq in H1, H2. auto.
Qed.

Lemma zmem_false3 x a b c : zmem x [a; b; c] = false -> x <> a /\ x <> b /\ x <> c.
Proof.
  unfold zmem; cbn. intros H. apply orb_false_iff in H. destruct H as [H1 H]. apply orb_false_iff in H. destruct H as [H2 H].
  apply orb_false_iff in H. destruct H as [H3 _]. apply Z.eqb_neq in H1, H2, H3. auto.
Qed.

Lemma orient_cases nodes g0 a0 b0 ka0 kb0 a b ka kb :
  orient nodes g0 a0 b0 ka0 kb0 = Some (Some (a, b, ka, kb)) ->
  (a = a0 /\ b = b0 /\ ka = ka0 /\ kb = kb0) \/ (a = b0 /\ b = a0 /\ ka = kb0 /\ kb = ka0).
Proof.
  unfold orient. destruct (length (bin nodes g0 ka0)) as [|[|n]]; [discriminate| |].
  - destruct (length (bin nodes g0 kb0)) as [|[|m]]; try discriminate. intros H. inversion H. right. auto.
  - intros H. inversion H. left. auto.
Qed.

Lemma draw_c_spec bn a b evs c r : draw_c bn a b evs = Some (c, r) -> In c bn /\ c <> a /\ c <> b.
Proof.
  revert c r. induction evs as [|e evs IH]; intros c r; cbn [draw_c]; [discriminate|].
  destruct e as [l|i n]; [discriminate|].
  destruct (Nat.eqb n (length bn) && Nat.ltb i n) eqn:Hv; [|discriminate].
  apply andb_true_iff in Hv. destruct Hv as [Hn Hi]. apply Nat.eqb_eq in Hn. apply Nat.ltb_lt in Hi.
  destruct (zmem (nth i bn 0%Z) [a; b]) eqn:Hm.
  - apply IH.
  - intros H. inversion H. subst c r. split; [apply nth_In; lia | apply zmem_false2; exact Hm].
Qed.

Lemma eligible_spec nodes g a b c d : In d (eligible nodes g a b c) ->
  In d nodes /\ has_edge g c d = true /\ d <> a /\ d <> b /\ d <> c.
Proof.
  unfold eligible. intros H. apply filter_In in H. destruct H as [H1 H2].
  apply andb_true_iff in H2. destruct H2 as [H2 H3]. apply negb_true_iff in H3.
  split; [exact H1|]. split; [exact H2|]. apply zmem_false3. exact H3.
Qed.

Lemma bin_In nodes g0 k c : In c (bin nodes g0 k) -> In c nodes /\ deg g0 c = k.
Proof. unfold bin. intros H. apply filter_In in H. destruct H as [H1 H2]. apply Nat.eqb_eq in H2. auto. Qed.

(* what one iteration can do: nothing to the network, or exactly one guarded swap *)
Definition swapped (nodes : list Z) (g0 : list edge) (s s' : state) (a b c d : Z) : Prop :=
  swap_ok (st_g s) a b c d /\ In c nodes /\ In d nodes /\ deg g0 c = deg (st_g s) a /\
  st_g s' = swap (st_g s) a b c d /\ st_cnt s' = S (st_cnt s) /\ st_swaps s' = (a, b, c, d) :: st_swaps s.

Definition unchanged (s s' : state) : Prop :=
  st_g s' = st_g s /\ st_cnt s' = st_cnt s /\ st_swaps s' = st_swaps s.

Lemma swap_step_cases nodes g0 s s' : swap_step nodes g0 s = Next s' ->
  unchanged s s' \/ exists a b c d, swapped nodes g0 s s' a b c d.
Proof.
  unfold swap_step.
  destruct (refill s) as [[es1 evs1]|]; [|discriminate].
  destruct es1 as [|[a0 b0] es2]; [discriminate|].
  destruct (has_edge (st_g s) a0 b0) eqn:Hab0; cbn [negb];
    [|intros H; inversion H; left; repeat split].
  destruct (orient nodes g0 a0 b0 (deg (st_g s) a0) (deg (st_g s) b0)) as [[[[[a b] ka] kb]|]|] eqn:Ho;
    [|intros H; inversion H; left; repeat split|discriminate].
  assert (Hab : has_edge (st_g s) a b = true /\ ka = deg (st_g s) a).
  { apply orient_cases in Ho. destruct Ho as [[-> [-> [-> _]]]|[-> [-> [-> _]]]]; [auto|]. rewrite has_edge_sym. auto. }
  destruct Hab as [Hab Hka]. clear Ho Hab0.
  destruct (Nat.eqb (length (bin nodes g0 ka)) 2 && Nat.eqb ka kb);
    [intros H; inversion H; left; repeat split|].
  destruct (draw_c (bin nodes g0 ka) a b evs1) as [[c evs2]|] eqn:Hc; [|discriminate].
  apply draw_c_spec in Hc. destruct Hc as [Hcb [Hca Hcb']]. apply bin_In in Hcb. destruct Hcb as [Hcn Hck].
  destruct (eligible nodes (st_g s) a b c) as [|d0 ds] eqn:Hds;
    [intros H; inversion H; left; repeat split|].
  rewrite <- Hds. clear d0 ds Hds.
  destruct evs2 as [|[l|j n] evs3]; [discriminate|discriminate|].
  destruct (Nat.eqb n (length (eligible nodes (st_g s) a b c)) && Nat.ltb j n) eqn:Hv; [|discriminate].
  apply andb_true_iff in Hv. destruct Hv as [Hn Hj]. apply Nat.eqb_eq in Hn. apply Nat.ltb_lt in Hj.
  assert (Hd : In (nth j (eligible nodes (st_g s) a b c) 0%Z) (eligible nodes (st_g s) a b c)) by (apply nth_In; lia).
  set (d := nth j (eligible nodes (st_g s) a b c) 0%Z) in *.
  apply eligible_spec in Hd. destruct Hd as [Hdn [Hcd [Hda [Hdb Hdc]]]].
  destruct (has_edge (st_g s) a d || has_edge (st_g s) c b) eqn:Hp;
    [intros H; inversion H; left; repeat split|].
  apply orb_false_iff in Hp. destruct Hp as [Had Hcbe].
  intros H; inversion H. right. exists a, b, c, d. unfold swapped. cbn.
  split; [constructor; assumption|]. repeat split; try assumption. congruence.
Qed.

(* ---------------------------------------------------------------- the invariant of the loop *)
Definition closed (nodes : list Z) (g : list edge) : Prop :=
  forall e, In e g -> In (fst e) nodes /\ In (snd e) nodes.

Record inv (nodes : list Z) (g0 : list edge) (imax : nat) (s : state) : Prop := {
  inv_simple : simple (st_g s);
  inv_deg : forall n, deg (st_g s) n = deg g0 n;
  inv_len : length (st_g s) = length g0;
  inv_missing : length (missing g0 (st_g s)) <= 2 * st_cnt s;
  inv_closed : closed nodes (st_g s);
  inv_cnt : st_cnt s <= imax;
  inv_swaps : length (st_swaps s) = st_cnt s
}.

Lemma In_add_edge g a b e : In e (add_edge g a b) -> In e g \/ e = (a, b).
Proof.
  unfold add_edge. destruct (has_edge g a b); [auto|]. intros H. apply in_app_or in H.
  destruct H as [H|[H|[]]]; auto.
Qed.

Lemma In_swap g a b c d e : In e (swap g a b c d) -> In e g \/ e = (a, d) \/ e = (c, b).
Proof.
  unfold swap. intros H. apply In_add_edge in H. destruct H as [H|H]; [|auto].
  apply In_add_edge in H. destruct H as [H|H]; [|auto].
  unfold remove_edge in H. apply filter_In in H. destruct H as [H _]. apply filter_In in H. tauto.
Qed.

Lemma closed_has_edge nodes g a b : closed nodes g -> has_edge g a b = true -> In a nodes /\ In b nodes.
Proof.
  intros Hc H. apply has_edge_In in H. destruct H as [[x y] [Hi Hs]]. apply same_edge_iff in Hs.
  destruct (Hc _ Hi) as [Hx Hy]. cbn in Hx, Hy. destruct Hs as [[-> ->]|[-> ->]]; auto.
Qed.

Lemma step_inv nodes g0 imax s s' : nodupu g0 -> inv nodes g0 imax s -> st_cnt s < imax ->
  swap_step nodes g0 s = Next s' -> inv nodes g0 imax s'.
Proof.
  intros Hn0 [Hs Hd Hl Hm Hc Hi Hw] Hlt H. apply swap_step_cases in H.
  destruct H as [[Eg [Ec Ew]]|[a [b [c [d [Hok [Hcn [Hdn [_ [Eg [Ec Ew]]]]]]]]]]].
  - constructor; rewrite ?Eg, ?Ec, ?Ew; assumption || lia.
  - constructor; rewrite ?Eg, ?Ec, ?Ew.
    + apply swap_simple; assumption.
    + intros n. rewrite (swap_degree _ _ _ _ _ Hs Hok). apply Hd.
    + rewrite (swap_length _ _ _ _ _ Hs Hok). exact Hl.
    + pose proof (missing_swap g0 (st_g s) a b c d Hn0). lia.
    + intros e He. apply In_swap in He.
      destruct (closed_has_edge nodes _ a b Hc (ok_ab _ _ _ _ _ Hok)) as [Ha Hb].
      destruct He as [He|[-> | ->]]; cbn [fst snd]; auto.
    + lia.
    + cbn. lia.
Qed.

Lemma run_inv nodes g0 imax : nodupu g0 -> forall fuel s, inv nodes g0 imax s ->
  inv nodes g0 imax (state_of (run fuel imax nodes g0 s)).
Proof.
  intros Hn0. induction fuel as [|k IH]; intros s Hi; cbn [run].
  - destruct (Nat.ltb (st_cnt s) imax); exact Hi.
  - destruct (Nat.ltb (st_cnt s) imax) eqn:Hlt; [|exact Hi].
    destruct (swap_step nodes g0 s) as [s'|] eqn:Hst; [|exact Hi].
    apply IH. apply Nat.ltb_lt in Hlt. exact (step_inv nodes g0 imax s s' Hn0 Hi Hlt Hst).
Qed.

Lemma run_done_ge fuel imax nodes g0 : forall s s', run fuel imax nodes g0 s = Done s' -> imax <= st_cnt s'.
Proof.
  induction fuel as [|k IH]; intros s s'; cbn [run]; destruct (Nat.ltb (st_cnt s) imax) eqn:Hlt.
  - discriminate.
  - intros H; inversion H; subst. apply Nat.ltb_ge in Hlt. exact Hlt.
  - destruct (swap_step nodes g0 s) as [s1|]; [apply IH | discriminate].
  - intros H; inversion H; subst. apply Nat.ltb_ge in Hlt. exact Hlt.
Qed.

(* no iteration at all when the counter bound is 0 *)
Lemma run_zero fuel nodes g0 s : run fuel 0 nodes g0 s = Done s.
Proof. destruct fuel; reflexivity. Qed.

(* ---------------------------------------------------------------- the whole build *)
Definition init (g0 l : list edge) (r : list ev) : state :=
  {| st_g := g0; st_es := l; st_cnt := 0; st_evs := r; st_swaps := [] |}.

Lemma init_inv nodes g0 imax l r : simple g0 -> closed nodes g0 -> inv nodes g0 imax (init g0 l r).
Proof.
  intros Hs Hc. constructor; cbn; auto; try lia.
  rewrite (missing_self g0 (proj1 Hs)). cbn. lia.
Qed.

Lemma build_out nodes g0 f evs fuel :
  (exists l r, evs = Shuf l :: r /\ length l = length g0 /\
               r_out (build nodes g0 f evs fuel) = run fuel (imax_of (length g0) f) nodes g0 (init g0 l r))
  \/ (exists s, r_out (build nodes g0 f evs fuel) = Stuck s /\ st_g s = g0 /\ st_cnt s = 0 /\ st_swaps s = []).
Proof.
  unfold build. cbn [r_out]. destruct evs as [|[l|i n] r].
  - right. eexists; repeat split.
  - destruct (valid_shuffle l g0) eqn:Hv.
    + left. exists l, r. unfold valid_shuffle in Hv. apply andb_true_iff in Hv. destruct Hv as [Hv _].
      apply andb_true_iff in Hv. destruct Hv as [Hv _]. apply Nat.eqb_eq in Hv. rewrite Hv. auto.
    + right. eexists; repeat split.
  - right. eexists; repeat split.
Qed.

Lemma build_inv nodes g0 f evs fuel : simple g0 -> closed nodes g0 ->
  inv nodes g0 (imax_of (length g0) f) (state_of (r_out (build nodes g0 f evs fuel))).
Proof.
  intros Hs Hc. destruct (build_out nodes g0 f evs fuel) as [[l [r [_ [_ ->]]]]|[s [-> [Eg [Ec Ew]]]]].
  - apply run_inv; [exact (proj1 Hs) | apply init_inv; assumption].
  - cbn [state_of]. pose proof (init_inv nodes g0 (imax_of (length g0) f) [] [] Hs Hc) as [H1 H2 H3 H4 H5 H6 H7].
    cbn in *. constructor; rewrite ?Eg, ?Ec, ?Ew; assumption.
Qed.

Lemma build_done_cnt nodes g0 f evs fuel s : simple g0 -> closed nodes g0 ->
  r_out (build nodes g0 f evs fuel) = Done s -> st_cnt s = imax_of (length g0) f.
Proof.
  intros Hs Hc H. pose proof (build_inv nodes g0 f evs fuel Hs Hc) as Hi. rewrite H in Hi. cbn in Hi.
  destruct (build_out nodes g0 f evs fuel) as [[l [r [_ [_ E]]]]|[s1 [E _]]]; rewrite H in E; [|discriminate].
  symmetry in E. apply run_done_ge in E. pose proof (inv_cnt _ _ _ _ Hi). lia.
Qed.

Lemma imax_of_0 M : imax_of M 0%Q = 0.
Proof. unfold imax_of. rewrite Qmult_0_r. reflexivity. Qed.

Lemma imax_of_spec M f : (0 <= f)%Q ->
  (inject_Z (Z.of_nat (imax_of M f)) <= inject_Z (Z.of_nat M) * f)%Q /\
  (inject_Z (Z.of_nat M) * f < inject_Z (Z.of_nat (imax_of M f)) + 1)%Q.
Proof.
  intros H0. unfold imax_of.
  assert (Hp : (0 <= inject_Z (Z.of_nat M) * f)%Q).
  { apply Qmult_le_0_compat; [|exact H0]. change 0%Q with (inject_Z 0). rewrite <- Zle_Qle. lia. }
  assert (Hf : (0 <= Qfloor (inject_Z (Z.of_nat M) * f))%Z).
  { change 0%Z with (Qfloor 0). apply Qfloor_resp_le. exact Hp. }
  rewrite Z2Nat.id by exact Hf. split; [apply Qfloor_le|].
  generalize (Qlt_floor (inject_Z (Z.of_nat M) * f)). rewrite inject_Z_plus. tauto.
Qed.

(* identical for f = 0: not a single iteration, for any script and any fuel *)
Lemma build_zero nodes g0 evs fuel :
  st_g (state_of (r_out (build nodes g0 0%Q evs fuel))) = g0.
Proof.
  destruct (build_out nodes g0 0%Q evs fuel) as [[l [r [_ [_ ->]]]]|[s [-> [Eg _]]]]; [|exact Eg].
  rewrite imax_of_0, run_zero. reflexivity.
Qed.

(* the degree bins computed at entry stay valid: they never need updating *)
Lemma bins_valid nodes g0 g : (forall n, deg g n = deg g0 n) -> forall k, bin nodes g k = bin nodes g0 k.
Proof.
  intros H k. unfold bin. apply filter_ext. intros n. rewrite H. reflexivity.
Qed.

(* ---------------------------------------------------------------- one iteration, stated on swap_step *)
Lemma step_distinct nodes g0 s s' : simple (st_g s) -> swap_step nodes g0 s = Next s' ->
  unchanged s s' \/ exists a b c d, swapped nodes g0 s s' a b c d /\ NoDup [a; b; c; d].
Proof.
  intros Hs H. apply swap_step_cases in H. destruct H as [H|[a [b [c [d H]]]]]; [left; exact H|].
  right. exists a, b, c, d. split; [exact H|]. destruct H as [Hok _]. exact (swap_distinct _ _ _ _ _ Hs Hok).
Qed.

Lemma step_degree nodes g0 s s' : simple (st_g s) -> swap_step nodes g0 s = Next s' ->
  forall n, deg (st_g s') n = deg (st_g s) n.
Proof.
  intros Hs H n. apply swap_step_cases in H. destruct H as [[-> _]|[a [b [c [d [Hok [_ [_ [_ [-> _]]]]]]]]]]; [reflexivity|].
  exact (swap_degree _ _ _ _ _ Hs Hok n).
Qed.

Lemma step_simple nodes g0 s s' : simple (st_g s) -> swap_step nodes g0 s = Next s' -> simple (st_g s').
Proof.
  intros Hs H. apply swap_step_cases in H. destruct H as [[-> _]|[a [b [c [d [Hok [_ [_ [_ [-> _]]]]]]]]]]; [exact Hs|].
  exact (swap_simple _ _ _ _ _ Hs Hok).
Qed.

Lemma step_count nodes g0 s s' : simple (st_g s) -> swap_step nodes g0 s = Next s' ->
  length (st_g s') = length (st_g s) /\
  forall orig, nodupu orig -> length (missing orig (st_g s')) <= length (missing orig (st_g s)) + 2.
Proof.
  intros Hs H. apply swap_step_cases in H. destruct H as [[-> _]|[a [b [c [d [Hok [_ [_ [_ [-> _]]]]]]]]]].
  - split; [reflexivity | intros; lia].
  - split; [exact (swap_length _ _ _ _ _ Hs Hok) | intros orig Ho; exact (missing_swap orig _ a b c d Ho)].
Qed.
