(* Soundness of the summaries of Model/EvProg.v: a program whose summary is h IS the event
   function `handler h` of Model/Compart.v, on every time, element, kernel state and world. *)
From Coq Require Import List ZArith QArith Bool Arith.
From EpyV Require Import Lib.Prelude Model.Kernel Model.Loci Model.Compart Model.EvProg.
Import ListNotations.
Open Scope Q_scope.

Definition lact_action (n : Z) (x : bool * nat) : action :=
  if fst x then ALAdd (snd x) (EN n) else ALDiscard (snd x) (EN n).

Definition conc (tbl : list Loci.spec) (t : Q) (ed : option (Z * Z)) (n : Z) (w0 : cworld) (a : asum) : ist :=
  {| i_w := {| cw_st := match a_chg a with Some c => fst (change_compartment tbl (cw_st w0) n c) | None => cw_st w0 end;
               cw_occ := match a_occ a, ed with
                         | Some fo, Some e => (if fo then mark_occupied else mark_occupied_over) e t (cw_occ w0)
                         | _, _ => cw_occ w0
                         end;
               cw_hit := match a_hit a with
                         | Some fo => (if fo then mark_hit else mark_hit_over) n t (cw_hit w0)
                         | None => cw_hit w0
                         end |};
     i_n := if a_bound a then Some n else None;
     i_posts := match a_post a with Some (T, k) => [APostOn (EN n) T k] | None => [] end
                ++ map (lact_action n) (a_lacts a) |}.

Definition ed_left (ed : option (Z * Z)) (n : Z) : Prop := match ed with Some (x, _) => x = n | None => True end.
Definition is_edge (ed : option (Z * Z)) : bool := match ed with Some _ => true | None => false end.

Lemma aexec_conc : forall tbl t ed n w0, ed_left ed n -> forall s a a', aexec (is_edge ed) s a = Some a' ->
  exec tbl t ed s (conc tbl t ed n w0 a) = conc tbl t ed n w0 a'.
Proof.
  intros tbl t ed n w0 Hl s a a' H. destruct a as [b chg occ hit post lacts].
  destruct ed as [[x y]|]; cbn in Hl; [subst x|]; cbn [is_edge] in H;
  destruct s as [| c | fo | fo | | T k | i | i]; cbn in H;
    repeat match type of H with
           | (if ?x then _ else _) = _ => destruct x
           | match ?x with _ => _ end = _ => destruct x
           end; try discriminate; injection H as <-; unfold conc, exec, with_st; cbn;
    rewrite ?map_app, ?app_assoc, ?app_nil_r; reflexivity.
Qed.

Lemma arun_conc : forall tbl t ed n w0, ed_left ed n -> forall body a a', arun (is_edge ed) body a = Some a' ->
  run_body tbl t ed body (conc tbl t ed n w0 a) = conc tbl t ed n w0 a'.
Proof.
  intros tbl t ed n w0 Hl. induction body as [|s body IH]; intros a a' H; cbn in H.
  - injection H as <-. reflexivity.
  - destruct (aexec _ s a) as [a1|] eqn:E; [|discriminate].
    unfold run_body. cbn [fold_left]. rewrite (aexec_conc tbl t ed n w0 Hl _ _ _ E). apply IH. exact H.
Qed.

Definition is_some {A} (o : option A) : bool := match o with Some _ => true | None => false end.

Lemma aexec_changes : forall edge s a a', aexec edge s a = Some a' ->
  is_some (a_chg a') = is_some (a_chg a) || match s with SChange _ => true | _ => false end.
Proof.
  intros edge s a a' H. destruct a as [b chg occ hit post lacts].
  destruct s; cbn in H;
    repeat match type of H with
           | (if ?x then _ else _) = _ => destruct x
           | match ?x with _ => _ end = _ => destruct x
           end; try discriminate; injection H as <-; cbn; try reflexivity; try (destruct chg; reflexivity).
Qed.

Lemma arun_changes : forall edge body a a', arun edge body a = Some a' ->
  is_some (a_chg a') = is_some (a_chg a) || changes body.
Proof.
  induction body as [|s body IH]; intros a a' H; cbn in H.
  - injection H as <-. cbn. rewrite orb_false_r. reflexivity.
  - destruct (aexec edge s a) as [a1|] eqn:E; [|discriminate].
    rewrite (IH _ _ H), (aexec_changes _ _ _ _ E). unfold changes. cbn [existsb]. rewrite orb_assoc. reflexivity.
Qed.

Lemma conc_a0_edge : forall tbl t n m w, conc tbl t (Some (n, m)) n w (a0 false) = {| i_w := w; i_n := None; i_posts := [] |}.
Proof. intros. destruct w. reflexivity. Qed.
Lemma conc_a0_node : forall tbl t n w, conc tbl t None n w (a0 true) = {| i_w := w; i_n := Some n; i_posts := [] |}.
Proof. intros. destruct w. reflexivity. Qed.

Theorem summarise_sound : forall p h, summarise p = Some h ->
  forall tbl off t e kloci w, interp tbl off p t e kloci w = handler tbl off h t e kloci w.
Proof.
  intros p h H tbl off t e kloci w. destruct p as [body|body]; cbn in H.
  - destruct (arun false body (a0 true)) as [a|] eqn:E; [|discriminate].
    destruct e as [n|n m].
    + unfold interp. rewrite <- (conc_a0_node tbl t n w).
      rewrite (arun_conc tbl t None n w I body _ _ E).
      pose proof (arun_changes _ _ _ _ E) as Hc. cbn in Hc.
      destruct a as [b [c|] [o|] [hh|] [pp|] [|la lacts]]; try discriminate; injection H as <-; cbn in Hc; unfold finish; rewrite <- Hc;
        unfold finish, conc, handler, with_st; cbn; destruct w; cbn; rewrite ?app_nil_r; reflexivity.
    + destruct a as [b [c|] [o|] [hh|] [pp|] [|la lacts]]; try discriminate; injection H as <-; reflexivity.
  - destruct (arun true body (a0 false)) as [a|] eqn:E; [|discriminate].
    destruct e as [n|n m].
    + destruct a as [b [c|] [[|]|] [[|]|] pp [|la lacts]]; try discriminate; injection H as <-; reflexivity.
    + unfold interp. rewrite <- (conc_a0_edge tbl t n m w).
      rewrite (arun_conc tbl t (Some (n, m)) n w eq_refl body _ _ E).
      pose proof (arun_changes _ _ _ _ E) as Hc. cbn in Hc.
      destruct a as [b [c|] [[|]|] [[|]|] pp [|la lacts]]; try discriminate; injection H as <-; cbn in Hc; unfold finish; rewrite <- Hc;
        unfold finish, conc, handler, with_st; cbn; destruct w; cbn; destruct pp as [[T k]|]; reflexivity.
Qed.

(* compartments, loci and posted events alone (marks left open) *)
Theorem summarise_comp_sound : forall p cs, summarise_comp p = Some cs ->
  forall h, comp_part h = cs -> h <> HObs ->
  forall tbl off t e kloci w,
    cw_st (fst (interp tbl off p t e kloci w)) = cw_st (fst (handler tbl off h t e kloci w)) /\
    snd (interp tbl off p t e kloci w) = snd (handler tbl off h t e kloci w).
Proof.
  intros p cs H h Hh Hobs tbl off t e kloci w. destruct p as [body|body]; cbn in H.
  - destruct (arun false body (a0 true)) as [a|] eqn:E; [|discriminate].
    destruct e as [n|n m].
    + unfold interp. rewrite <- (conc_a0_node tbl t n w).
      rewrite (arun_conc tbl t None n w I body _ _ E).
      pose proof (arun_changes _ _ _ _ E) as Hc. cbn in Hc.
      destruct a as [b [c|] [o|] hh [pp|] [|la lacts]]; try discriminate; injection H as <-;
        destruct h; try discriminate; try (exfalso; apply Hobs; reflexivity); cbn in Hh; try injection Hh as <-;
        cbn in Hc; unfold finish; rewrite <- Hc; unfold conc, handler, with_st; cbn; rewrite ?app_nil_r; split; reflexivity.
    + destruct a as [b [c|] [o|] hh [pp|] [|la lacts]]; try discriminate; injection H as <-;
        destruct h; try discriminate; try (exfalso; apply Hobs; reflexivity); split; reflexivity.
  - destruct (arun true body (a0 false)) as [a|] eqn:E; [|discriminate].
    destruct e as [n|n m].
    + destruct a as [b [c|] o hh pp [|la lacts]]; try discriminate; injection H as <-;
        destruct h; try discriminate; split; reflexivity.
    + unfold interp. rewrite <- (conc_a0_edge tbl t n m w).
      rewrite (arun_conc tbl t (Some (n, m)) n w eq_refl body _ _ E).
      pose proof (arun_changes _ _ _ _ E) as Hc. cbn in Hc.
      destruct a as [b [c|] o hh pp [|la lacts]]; try discriminate; injection H as <-;
        destruct h as [|c' mk post| |]; try discriminate; cbn in Hh; injection Hh as -> ->;
        cbn in Hc; unfold finish; rewrite <- Hc; unfold conc, handler, with_st; cbn; destruct mk; cbn; destruct pp as [[T k]|]; split; reflexivity.
Qed.
