(* C02: concrete instances used by the Examples of Properties/C02.v (definitions only):
   the shipped SIR model (Model/Compart.v) on three-node networks as a kernel table, its initial
   kernel state, and the final-size law computed through the model's jump chain. *)
From Coq Require Import List ZArith QArith Bool Arith.
From EpyV Require Import Lib.Prelude Lib.Dist Model.Kernel Model.Loci Model.Compart Proofs.GillespieJump.
Import ListNotations.
Open Scope Q_scope.

(* compartment codes: 1 = infected, 2 = removed, 3 = susceptible; loci: SI edges, infected nodes;
   events as sir_model.py registers them: infect per SI edge, remove per infected node *)
Definition sir (beta gamma : Q) : cmodel :=
  {| cm_specs := [EdgeLocus 3 1; NodeLocus 1];
     cm_events := [ {| ce_elem := true; ce_locus := 0%nat; ce_p := beta; ce_kind := HLeft 1 true None |};
                    {| ce_elem := true; ce_locus := 1%nat; ce_p := gamma; ce_kind := HNode 2 |} ];
     cm_extra := []; cm_seed_post := None; cm_equil := [] |}.

Definition nodes3 : list Z := [0; 1; 2]%Z.
Definition path3 : list (Z * Z) := [(0, 1); (1, 2)]%Z.
Definition complete3 : list (Z * Z) := [(0, 1); (0, 2); (1, 2)]%Z.
Definition seed_at (n : Z) : list (Z * Z) := map (fun v => (v, if Z.eqb v n then 1%Z else 3%Z)) nodes3.

Definition sir_table_until (maxtime : Q) (edges : list (Z * Z)) (seed : Z) (monitor : option Q) : table cworld :=
  mk_table (sir (1 # 2) (1 # 4)) nodes3 edges (seed_at seed) maxtime monitor.
Definition sir_table := sir_table_until 1000.
Definition sir_state (edges : list (Z * Z)) (seed : Z) : st cworld := setup_state (sir_table edges seed None) [] [] [].

(* the observation: number of removed nodes at absorption = final size of the epidemic *)
Definition removed (s : st cworld) : nat := count_in (cw_st (world s)) 2.
Definition times (n : nat) : list Q := map (fun k => inject_Z (Z.of_nat k)) (seq 1 n).
Definition final_size_law (edges : list (Z * Z)) (seed : Z) (n : nat) : dist (option nat) :=
  outcome_dist cworld (sir_table edges seed None) nat removed (times n) (sir_state edges seed).
Definition pr (d : dist (option nat)) (x : option nat) : Q := Qred (mass (opt_eqb Nat.eqb) d x).

(* the jump law in the initial state, as reduced probabilities *)
Definition jump_probs (edges : list (Z * Z)) (seed : Z) : list (outcome * Q) :=
  let tb := sir_table edges seed None in let s := sir_state edges seed in
  flat_map (fun j => map (fun e => ((j, Some e), Qred (mass out_eqb (jump_dist cworld tb s) (j, Some e)))) (locus_of cworld tb s j))
           (seq 0 (length (transitions tb))).

(* event-function entries of the disease process in a whole run of the loop *)
Definition entries (o : list obs) : list (nat * Kernel.elem) :=
  flat_map (fun x => match x with OHandler k _ _ e (Some _) => [(k, e)] | _ => [] end) o.
Definition nobs (o : list obs) : nat := length (filter (fun x => match x with OObserve _ _ => true | _ => false end) o).

(* a whole run of the loop on a fixed oracle, with and without a Monitor in front of the disease *)
Definition ex_rands : list Q := [1 # 2; 1 # 4; 1 # 2; 3 # 4; 1 # 2; 1 # 8; 1 # 2; 7 # 8; 1 # 2; 1 # 2; 1 # 2; 1 # 2].
Definition ex_lns : list Q := [3 # 4; 3 # 4; 3 # 4; 3 # 4; 3 # 4; 3 # 4].
Definition ex_draws : list nat := [1; 0; 1; 0; 0; 0]%nat.
Definition ex_run (monitor : option Q) : result cworld :=
  stoch_run (sir_table_until 6 complete3 0 monitor) 100 100 ex_rands ex_lns ex_draws.
