(* Non-vacuity of the hypotheses of the contour theorems: the algebraic numbers (MathComp's algC, an
   algebraically closed field of characteristic 0 standing in for the complex numbers) contain a
   primitive m-th root of unity for every m > 0, and m is invertible there. *)
From mathcomp Require Import all_ssreflect all_algebra all_field.
From EpyV Require Import Model.Contour Proofs.Contour.
Set Implicit Arguments.
Unset Strict Implicit.
Unset Printing Implicit Defensive.
Import GRing.Theory Num.Theory.
Local Open Scope ring_scope.

Lemma contour_hyps_algC m : (0 < m)%N -> exists z : algC, m.-primitive_root z /\ (m%:R != 0 :> algC).
Proof.
move=> m_gt0; have [z prim_z] := C_prim_root_exists m_gt0.
by exists z; split=> //; rewrite pnatr_eq0 -lt0n.
Qed.

(* 100 points, a series with 150 coefficients, n = i + order = 60: exactly a_60 comes out *)
Definition contour_example_stmt : Prop :=
  exists z : algC, 100.-primitive_root z /\ (100%:R != 0 :> algC) /\
    forall a : nat -> algC, contour_mean 100 z 1 (peval a 150) 60 = a 60%N.

Lemma contour_example_holds : contour_example_stmt.
Proof.
have [z [prim_z m_neq0]] := @contour_hyps_algC 100 isT.
exists z; split=> //; split=> // a.
by rewrite (contour_no_alias a prim_z m_neq0 (oner_neq0 _)).
Qed.
