(* The batch theorem of Proofs/PulseSync.v read on the model: pending times are the times in the user
   state's event map (which the queue holds, Proofs/PulseInv.v); the model supplies that the node that
   fires is the one due at the event's time; that a cascaded node moves to a function of its pending time
   alone and where the firing node is rescheduled are the stated hypotheses. *)
From Coq Require Import List ZArith QArith Qabs Bool Arith Lia Lqa.
From EpyV Require Import Lib.Prelude Model.Kernel Model.Pulse Proofs.KernelBase Proofs.PulseBase Proofs.PulseInv Proofs.PulseRun Proofs.PulseSync.
Import ListNotations.
Open Scope Q_scope.

Section SyncModel.
Variable cfg : pcfg.
Variable ub : Q -> Q.
Hypothesis ub_mono : forall x y, x <= y -> ub x <= ub y.
Hypothesis period_nonneg : 0 <= pc_period cfg.
Variable oracle : list (rkind * Q).
Variable orders : list (list Z).
Notation tb := (pulse_table cfg oracle orders).
Notation reach := (reach cfg oracle orders).

(* the pending firing time of a node, as setFiringTime recorded it *)
Definition ptime (s : kst) (m : Z) : option Q := option_map snd (ev_look (pw_ev (world s)) m).

Variable T : Q.          (* the time of the batch *)
Variable nxt : Q.        (* where the firing nodes are rescheduled *)
Variable upd : Q -> Q.   (* where a cascade at T moves a node pending at a given time *)

(* a run of consecutive events at time T (with the queue clean-ups between them) *)
Inductive tbatch : kst -> kst -> Prop :=
| tb_nil s : tbatch s s
| tb_discard s s' : tbatch (discard s) s' -> tbatch s s'
| tb_event s h s' : head (queue s) = Some h -> e_live h = true -> e_time h = T ->
    tbatch (pend_step tb h s) s' -> tbatch s s'.

(* HYPOTHESES on the numeric maps (through the oracle), on a complete network: at every event of the
   batch every node other than the firing one THAT IS NOT ITSELF DUE NOW is moved to a function of its own
   pending time, and the firing node goes to nxt.  What happens to a node that is due now is not a hypothesis:
   the model passes it over (due_now_kept), given only that round(x, 5) of exactly 1 is 1. *)
Hypothesis cascade_functional : forall s h n, reach s -> head (queue s) = Some h -> e_live h = true -> e_time h = T ->
  e_elem h = EN n -> forall m, m <> n -> ptime s m <> Some T -> ptime (pend_step tb h s) m = option_map upd (ptime s m).
Hypothesis refire_at : forall s h n, reach s -> head (queue s) = Some h -> e_live h = true -> e_time h = T ->
  e_elem h = EN n -> ptime (pend_step tb h s) n = Some nxt.
Hypothesis nxt_ne : nxt <> T.
Hypothesis upd_fired : upd nxt = nxt.

Lemma Qleib_dec (a b : Q) : {a = b} + {a <> b}.
Proof. decide equality; [apply Pos.eq_dec|apply Z.eq_dec]. Qed.
Lemma optQ_dec (a b : option Q) : {a = b} + {a <> b}.
Proof. decide equality. apply Qleib_dec. Qed.

(* the update of the batch: a node due now stays due now, any other goes where the hypothesis says *)
Definition upd' (x : Q) : Q := if Qleib_dec x T then T else upd x.
Lemma upd'_due : upd' T = T.
Proof. unfold upd'. destruct (Qleib_dec T T); [reflexivity|contradiction]. Qed.
Lemma upd'_other x : x <> T -> upd' x = upd x.
Proof. intros H. unfold upd'. destruct (Qleib_dec x T); [contradiction|reflexivity]. Qed.

(* PROVED from the model (after the repair that cascade tests the phase, not the state): when the event of a node n
   fires at T, any other node whose firing is pending at T is still pending at T afterwards: cascade reads its phase
   normalisePhase(1 - (T - T) / period), the rounding of exactly 1, and passes it over *)
Lemma due_now_kept s h n m : reach s -> head (queue s) = Some h -> e_live h = true -> e_time h = T -> e_elem h = EN n ->
  good ub (pw_reqs (world s)) -> round_one (pw_reqs (world (pend_step tb h s))) ->
  m <> n -> ptime s m = Some T -> ptime (pend_step tb h s) m = Some T.
Proof.
  intros R Hh Hl Ht He Hg Hr Hmn Hp.
  pose proof (reach_Inv cfg ub ub_mono period_nonneg oracle orders s R Hg) as P.
  destruct (head_is_fentry cfg ub s h P (head_in _ _ Hh) Hl) as [n' [k' [T' [En Eh]]]].
  assert (Hprog : e_prog h = prog_fired) by (rewrite Eh; reflexivity).
  pose proof (pend_step_world cfg oracle orders h s Hprog) as HW. rewrite He, Ht in HW.
  unfold ptime in *. rewrite HW in Hr |- *.
  destruct (ev_look (pw_ev (world s)) m) as [[k x]|] eqn:Em; [|discriminate].
  cbn [option_map snd] in Hp. injection Hp as ->.
  destruct (fired_prog cfg T (EN n) (loci s) (world s)) as [w' acts] eqn:EF. cbn [fst] in *.
  rewrite <- ev_of_look.
  rewrite (fired_prog_due_kept cfg T n _ _ w' acts m k EF Hmn); [reflexivity| |exact Hr].
  rewrite ev_of_look. exact Em.
Qed.

Lemma tbatch_reqs s s' : tbatch s s' -> exists l, pw_reqs (world s') = l ++ pw_reqs (world s).
Proof.
  induction 1 as [s|s s' _ IH|s h s' _ _ _ _ IH]; [exists []; reflexivity|exact IH|].
  destruct IH as [l1 H1]. destruct (pend_step_reqs cfg oracle orders h s) as [l2 H2].
  exists (l1 ++ l2). rewrite H1, H2, app_assoc. reflexivity.
Qed.

Lemma tbatch_batch s s' : reach s -> tbatch s s' -> good ub (pw_reqs (world s')) -> round_one (pw_reqs (world s')) ->
  batch Z (option Q) (Some T) (Some nxt) (option_map upd') (ptime s) (ptime s').
Proof.
  intros R H. revert R. induction H as [s|s s' _ IH|s h s' Hh Hl Ht Hb IH]; intros R Hg Hr.
  - apply b_nil.
  - apply IH; [apply rc_discard, R|exact Hg|exact Hr].
  - destruct (tbatch_reqs _ _ Hb) as [l1 H1]. destruct (pend_step_reqs cfg oracle orders h s) as [l2 H2].
    assert (Hg0 : good ub (pw_reqs (world s))).
    { rewrite H1, H2 in Hg. eapply good_app, good_app. exact Hg. }
    assert (Hr1 : round_one (pw_reqs (world (pend_step tb h s)))).
    { rewrite H1 in Hr. eapply round_one_app. exact Hr. }
    pose proof (reach_Inv cfg ub ub_mono period_nonneg oracle orders s R Hg0) as P.
    destruct (head_is_fentry cfg ub s h P (head_in _ _ Hh) Hl) as [n [k [T' [En Eh]]]].
    assert (He : e_elem h = EN n) by (rewrite Eh; reflexivity).
    assert (HT : T' = T) by (rewrite Eh in Ht; exact Ht).
    eapply (b_cons _ _ _ _ _ n).
    + split; [|split].
      * unfold ptime. rewrite En. cbn. rewrite HT. reflexivity.
      * apply (refire_at s h n R Hh Hl Ht He).
      * intros m Hm. destruct (optQ_dec (ptime s m) (Some T)) as [E|NE].
        -- rewrite E. cbn [option_map]. rewrite upd'_due. apply (due_now_kept s h n m R Hh Hl Ht He Hg0 Hr1 Hm E).
        -- rewrite (cascade_functional s h n R Hh Hl Ht He m Hm NE).
           destruct (ptime s m) as [x|]; [|reflexivity]. cbn [option_map]. rewrite upd'_other; [reflexivity|].
           intros ->. apply NE. reflexivity.
    + apply IH; [apply rc_event; assumption|exact Hg|exact Hr].
Qed.

(* two nodes with equal pending times have equal pending times once every firing at T has happened *)
Theorem sync_absorbing_model s s' a b : reach s -> tbatch s s' -> good ub (pw_reqs (world s')) -> round_one (pw_reqs (world s')) ->
  (forall m, ptime s' m <> Some T) -> ptime s a = ptime s b -> ptime s' a = ptime s' b.
Proof.
  intros R Hb Hg Hr Hend E.
  apply (batch_sync_absorbing Z (option Q) (Some T) (Some nxt) (option_map upd')) with (p := ptime s).
  - intros H. apply nxt_ne. congruence.
  - left. cbn [option_map]. rewrite upd'_due. reflexivity.
  - cbn [option_map]. rewrite (upd'_other nxt nxt_ne), upd_fired. reflexivity.
  - apply Z.eq_dec.
  - apply tbatch_batch; assumption.
  - exact Hend.
  - exact E.
Qed.

(* hence the number of distinct pending times does not increase and no synchronised group shrinks *)
Theorem sync_counts_model s s' : reach s -> tbatch s s' -> good ub (pw_reqs (world s')) -> round_one (pw_reqs (world s')) ->
  (forall m, ptime s' m <> Some T) ->
  (ndistinct Z (option Q) optQ_dec (pc_nodes cfg) (ptime s') <= ndistinct Z (option Q) optQ_dec (pc_nodes cfg) (ptime s))%nat
  /\ forall a, In a (pc_nodes cfg) ->
       (group Z (option Q) optQ_dec (pc_nodes cfg) (ptime s) a <= group Z (option Q) optQ_dec (pc_nodes cfg) (ptime s') a)%nat.
Proof.
  intros R Hb Hg Hr Hend.
  assert (A : forall a b, In a (pc_nodes cfg) -> In b (pc_nodes cfg) -> ptime s a = ptime s b -> ptime s' a = ptime s' b).
  { intros a b _ _. apply sync_absorbing_model; assumption. }
  split; [apply distinct_not_increasing, A|]. intros a Ha. apply group_not_shrinking; assumption.
Qed.

End SyncModel.
