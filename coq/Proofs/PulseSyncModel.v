(* The batch theorem of Proofs/PulseSync.v read on the model: pending times are the times in the user
   state's event map (which the queue holds, Proofs/PulseInv.v); the model supplies that the node that
   fires is the one due at the event's time; that a cascaded node moves to a function of its pending time
   alone and where the firing node is rescheduled are the stated hypotheses. *)
From Coq Require Import List ZArith QArith Qabs Bool Arith Lia Lqa.
From EpyV Require Import Lib.Prelude Model.Kernel Model.Pulse Proofs.KernelBase Proofs.PulseBase Proofs.PulseInv Proofs.PulseRun Proofs.PulseSync.
Import ListNotations.
Open Scope Q_scope.

Section SyncModel.
Variable cfg : pcfg.
Variable ub : Q -> Q.
Hypothesis ub_mono : forall x y, x <= y -> ub x <= ub y.
Hypothesis period_nonneg : 0 <= pc_period cfg.
Variable oracle : list (rkind * Q).
Variable orders : list (list Z).
Notation tb := (pulse_table cfg oracle orders).
Notation reach := (reach cfg oracle orders).

(* the pending firing time of a node, as setFiringTime recorded it *)
Definition ptime (s : kst) (m : Z) : option Q := option_map snd (ev_look (pw_ev (world s)) m).

Variable T : Q.          (* the time of the batch *)
Variable nxt : Q.        (* where the firing nodes are rescheduled *)
Variable upd : Q -> Q.   (* where a cascade at T moves a node pending at a given time *)

(* a run of consecutive events at time T (with the queue clean-ups between them) *)
Inductive tbatch : kst -> kst -> Prop :=
| tb_nil s : tbatch s s
| tb_discard s s' : tbatch (discard s) s' -> tbatch s s'
| tb_event s h s' : head (queue s) = Some h -> e_live h = true -> e_time h = T ->
    tbatch (pend_step tb h s) s' -> tbatch s s'.

(* HYPOTHESES on the numeric maps (through the oracle), on a complete network: at every event of the
   batch every node other than the firing one is moved to a function of its own pending time, and the firing
   node goes to nxt *)
Hypothesis cascade_functional : forall s h n, reach s -> head (queue s) = Some h -> e_live h = true -> e_time h = T ->
  e_elem h = EN n -> forall m, m <> n -> ptime (pend_step tb h s) m = option_map upd (ptime s m).
Hypothesis refire_at : forall s h n, reach s -> head (queue s) = Some h -> e_live h = true -> e_time h = T ->
  e_elem h = EN n -> ptime (pend_step tb h s) n = Some nxt.
Hypothesis nxt_ne : nxt <> T.
Hypothesis upd_due : upd T = T \/ upd T = nxt.
Hypothesis upd_fired : upd nxt = nxt.

Lemma tbatch_reqs s s' : tbatch s s' -> exists l, pw_reqs (world s') = l ++ pw_reqs (world s).
Proof.
  induction 1 as [s|s s' _ IH|s h s' _ _ _ _ IH]; [exists []; reflexivity|exact IH|].
  destruct IH as [l1 H1]. destruct (pend_step_reqs cfg oracle orders h s) as [l2 H2].
  exists (l1 ++ l2). rewrite H1, H2, app_assoc. reflexivity.
Qed.

Lemma tbatch_batch s s' : reach s -> tbatch s s' -> good ub (pw_reqs (world s')) ->
  batch Z (option Q) (Some T) (Some nxt) (option_map upd) (ptime s) (ptime s').
Proof.
  intros R H. revert R. induction H as [s|s s' _ IH|s h s' Hh Hl Ht Hb IH]; intros R Hg.
  - apply b_nil.
  - apply IH; [apply rc_discard, R|exact Hg].
  - destruct (tbatch_reqs _ _ Hb) as [l1 H1]. destruct (pend_step_reqs cfg oracle orders h s) as [l2 H2].
    assert (Hg0 : good ub (pw_reqs (world s))).
    { rewrite H1, H2 in Hg. eapply good_app, good_app. exact Hg. }
    pose proof (reach_Inv cfg ub ub_mono period_nonneg oracle orders s R Hg0) as P.
    destruct (head_is_fentry cfg ub s h P (head_in _ _ Hh) Hl) as [n [k [T' [En Eh]]]].
    assert (He : e_elem h = EN n) by (rewrite Eh; reflexivity).
    assert (HT : T' = T) by (rewrite Eh in Ht; exact Ht).
    eapply (b_cons _ _ _ _ _ n).
    + split; [|split].
      * unfold ptime. rewrite En. cbn. rewrite HT. reflexivity.
      * apply (refire_at s h n R Hh Hl Ht He).
      * intros m Hm. apply (cascade_functional s h n R Hh Hl Ht He m Hm).
    + apply IH; [apply rc_event; assumption|exact Hg].
Qed.

Lemma optQ_dec (a b : option Q) : {a = b} + {a <> b}.
Proof. repeat decide equality. Qed.

(* two nodes with equal pending times have equal pending times once every firing at T has happened *)
Theorem sync_absorbing_model s s' a b : reach s -> tbatch s s' -> good ub (pw_reqs (world s')) ->
  (forall m, ptime s' m <> Some T) -> ptime s a = ptime s b -> ptime s' a = ptime s' b.
Proof.
  intros R Hb Hg Hend E.
  apply (batch_sync_absorbing Z (option Q) (Some T) (Some nxt) (option_map upd)) with (p := ptime s).
  - intros H. apply nxt_ne. congruence.
  - cbn. destruct upd_due as [U|U]; rewrite U; [left|right]; reflexivity.
  - cbn. rewrite upd_fired. reflexivity.
  - apply Z.eq_dec.
  - apply tbatch_batch; assumption.
  - exact Hend.
  - exact E.
Qed.

(* hence the number of distinct pending times does not increase and no synchronised group shrinks *)
Theorem sync_counts_model s s' : reach s -> tbatch s s' -> good ub (pw_reqs (world s')) ->
  (forall m, ptime s' m <> Some T) ->
  (ndistinct Z (option Q) optQ_dec (pc_nodes cfg) (ptime s') <= ndistinct Z (option Q) optQ_dec (pc_nodes cfg) (ptime s))%nat
  /\ forall a, In a (pc_nodes cfg) ->
       (group Z (option Q) optQ_dec (pc_nodes cfg) (ptime s) a <= group Z (option Q) optQ_dec (pc_nodes cfg) (ptime s') a)%nat.
Proof.
  intros R Hb Hg Hend.
  assert (A : forall a b, In a (pc_nodes cfg) -> In b (pc_nodes cfg) -> ptime s a = ptime s b -> ptime s' a = ptime s' b).
  { intros a b _ _. apply sync_absorbing_model; assumption. }
  split; [apply distinct_not_increasing, A|]. intros a Ha. apply group_not_shrinking; assumption.
Qed.

End SyncModel.
