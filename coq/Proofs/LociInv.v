(* C01, state level: the six operations preserve the loci invariant; histories. *)
From Coq Require Import List ZArith Bool Arith Lia Permutation.
From EpyV Require Import Model.Loci Proofs.LociBase Proofs.LociLocus.
Import ListNotations.

Definition graph_ok (s : state) : Prop :=
  (forall a b, In (a, b) (st_edges s) -> In a (st_nodes s) /\ In b (st_nodes s))
  /\ (forall v, ~ In v (st_nodes s) -> st_attr s v = None).

Definition loci_inv (R : spec -> state -> list elem -> Prop) (tbl : list spec) (s : state) : Prop :=
  length (st_loci s) = length tbl
  /\ forall i, i < length tbl -> R (nth i tbl default_spec) s (nth i (st_loci s) []).

(* weak invariant: sound, complete up to orientation, duplicate-free *)
Definition WInv (tbl : list spec) (s : state) : Prop := graph_ok s /\ loci_inv winv1 tbl s.

(* the invariant of the property: every locus is exactly its truth *)
Definition Inv (tbl : list spec) (s : state) : Prop :=
  graph_ok s /\ length (st_loci s) = length tbl
  /\ forall i, i < length tbl ->
       NoDup (nth i (st_loci s) [])
       /\ forall x, In x (nth i (st_loci s) []) <-> In x (truth (nth i tbl default_spec) s).

Lemma Inv_loci_inv : forall tbl s, Inv tbl s <-> graph_ok s /\ loci_inv sinv1 tbl s.
Proof.
  intros tbl s. unfold Inv, loci_inv, sinv1. split.
  - intros [H1 [H2 H3]]. split; [exact H1|]. split; [exact H2|]. intros i Hi. destruct (H3 i Hi) as [H4 H5].
    split; [exact H4|]. intro x. rewrite H5. apply truth_In.
  - intros [H1 [H2 H3]]. split; [exact H1|]. split; [exact H2|]. intros i Hi. destruct (H3 i Hi) as [H4 H5].
    split; [exact H4|]. intro x. rewrite H5. symmetry. apply truth_In.
Qed.

Lemma wf_loci_nth : forall tbl i, wf_loci tbl = true -> i < length tbl -> wf_spec (nth i tbl default_spec) = true.
Proof. intros tbl i H Hi. unfold wf_loci in H. rewrite forallb_forall in H. apply H, nth_In, Hi. Qed.
Lemma single_nth : forall tbl i, single_orientation tbl = true -> i < length tbl -> single_spec (nth i tbl default_spec) = true.
Proof. intros tbl i H Hi. unfold single_orientation in H. rewrite forallb_forall in H. apply H, nth_In, Hi. Qed.

Lemma Inv_WInv : forall tbl s, Inv tbl s -> WInv tbl s.
Proof.
  intros tbl s H. apply Inv_loci_inv in H. destruct H as [H1 [H2 H3]]. split; [exact H1|]. split; [exact H2|].
  intros i Hi. apply sinv1_winv1, H3, Hi.
Qed.
Lemma WInv_Inv : forall tbl s, single_orientation tbl = true -> WInv tbl s -> Inv tbl s.
Proof.
  intros tbl s Hs [H1 [H2 H3]]. apply Inv_loci_inv. split; [exact H1|]. split; [exact H2|].
  intros i Hi. apply winv1_sinv1; [apply single_nth; assumption | apply H3, Hi].
Qed.

(* ---------- truth only looks at the network ---------- *)
Lemma truthP_same : forall sp s s' x,
  (forall v, In v (st_nodes s') <-> In v (st_nodes s)) -> (forall a b, adj s' a b <-> adj s a b) ->
  (forall v, getc s' v = getc s v) -> (truthP sp s' x <-> truthP sp s x).
Proof.
  intros sp s s' x Hn Ha Hg. destruct (spec_cases sp) as [[c Hsp]|He]; [subst sp|].
  - destruct x as [v|u w]; [|tauto]. cbn. rewrite Hn, Hg. tauto.
  - destruct x as [v|u w].
    + split; intro H; [exact (False_ind _ (truthP_edge_N sp s' v He H)) | exact (False_ind _ (truthP_edge_N sp s v He H))].
    + rewrite (truthP_edge sp s' u w He), (truthP_edge sp s u w He), Ha, (qual_ext sp s' s u w (Hg u) (Hg w)). tauto.
Qed.

Lemma truthP_same_edge : forall sp s s' x, edge_spec sp ->
  (forall a b, adj s' a b <-> adj s a b) -> (forall v, getc s' v = getc s v) -> (truthP sp s' x <-> truthP sp s x).
Proof.
  intros sp s s' x He Ha Hg. destruct x as [v|u w].
  - split; intro H; [exact (False_ind _ (truthP_edge_N sp s' v He H)) | exact (False_ind _ (truthP_edge_N sp s v He H))].
  - rewrite (truthP_edge sp s' u w He), (truthP_edge sp s u w He), Ha, (qual_ext sp s' s u w (Hg u) (Hg w)). tauto.
Qed.

Lemma winv1_same : forall sp s s' l,
  (forall v, In v (st_nodes s') <-> In v (st_nodes s)) -> (forall a b, adj s' a b <-> adj s a b) ->
  (forall v, getc s' v = getc s v) -> winv1 sp s l -> winv1 sp s' l.
Proof.
  intros sp s s' l Hn Ha Hg [H1 [H2 H3]]. split; [exact H1|]. split.
  - intros x Hx. apply (truthP_same sp s s' x Hn Ha Hg). apply H2. exact Hx.
  - intros x Hx. apply H3. apply (truthP_same sp s s' x Hn Ha Hg). exact Hx.
Qed.

Lemma getc_with_attr : forall s n a v, getc (with_attr s n a) v =
  if Z.eqb v n then match a with Some (Some c) => Some c | _ => None end else getc s v.
Proof. intros s n a v. unfold getc, with_attr. cbn. destruct (Z.eqb v n); reflexivity. Qed.

Lemma has_node_In : forall s n, has_node s n = true <-> In n (st_nodes s).
Proof. intros s n. apply zmem_In. Qed.

Lemma getc_raises_false : forall s n, getc_raises s n = false -> In n (st_nodes s) /\ st_attr s n <> None.
Proof.
  intros s n H. unfold getc_raises in H. apply orb_false_iff in H. destruct H as [H1 H2].
  apply negb_false_iff, has_node_In in H1. split; [exact H1|]. destruct (st_attr s n); [discriminate | discriminate].
Qed.

(* ---------- calls ---------- *)
Lemma call_loci : forall tbl h s e i, length (st_loci s) = length tbl -> i < length tbl ->
  nth i (st_loci (call tbl h s e)) [] =
  Nat.iter (hits (nth i tbl default_spec) (handler_compartments s e)) (h (nth i tbl default_spec) s e) (nth i (st_loci s) []).
Proof. intros tbl h s e i HL Hi. unfold call. cbn. apply run_handlers_nth; assumption. Qed.

Lemma call_length : forall tbl h s e, length (st_loci (call tbl h s e)) = length (st_loci s).
Proof. intros. unfold call. cbn. apply run_handlers_length. Qed.

(* ---------- setting the compartment of a node none of the loci knows about ---------- *)
Lemma set_phase : forall tbl s n c, wf_loci tbl = true -> graph_ok s -> length (st_loci s) = length tbl ->
  In n (st_nodes s) -> (forall i, i < length tbl -> mid (nth i tbl default_spec) s n (nth i (st_loci s) [])) ->
  WInv tbl (call_enter tbl (with_attr s n (Some (Some c))) (N n)).
Proof.
  intros tbl s n c Hwf [Hg1 Hg2] HL Hin Hmid.
  set (s1 := with_attr s n (Some (Some c))).
  assert (Hc1 : getc s1 n = Some c) by (unfold s1; rewrite getc_with_attr, Z.eqb_refl; reflexivity).
  split.
  - split; [exact Hg1|]. intros v Hv. cbn. cbn in Hv. destruct (Z.eqb v n) eqn:E; [|apply Hg2; exact Hv].
    apply Z.eqb_eq in E. subst. contradiction.
  - unfold call_enter. split; [rewrite call_length; exact HL|]. intros i Hi.
    rewrite call_loci by assumption. cbn [handler_compartments]. rewrite Hc1.
    apply (winv1_same _ s1); try (intros; reflexivity).
    apply enter_winv; [apply wf_loci_nth; assumption | | exact Hin | exact Hc1].
    apply (mid_ext _ s s1); try reflexivity; [|apply Hmid; exact Hi].
    intros v Hv. unfold s1. rewrite getc_with_attr. apply Z.eqb_neq in Hv. rewrite Hv. reflexivity.
Qed.

Lemma set_compartment_winv : forall tbl s n c, wf_loci tbl = true -> WInv tbl s ->
  has_node s n = true -> getc s n = None -> WInv tbl (fst (set_compartment tbl s n c)).
Proof.
  intros tbl s n c Hwf [Hg [HL HI]] Hn Hc. unfold set_compartment. rewrite Hn. cbn [negb fst].
  apply set_phase; try assumption; [apply has_node_In; exact Hn|].
  intros i Hi. apply none_mid; [apply HI; exact Hi | exact Hc].
Qed.

Lemma change_compartment_winv : forall tbl s n c, wf_loci tbl = true -> WInv tbl s ->
  getc_raises s n = false -> WInv tbl (fst (change_compartment tbl s n c)).
Proof.
  intros tbl s n c Hwf [Hg [HL HI]] Hr. unfold change_compartment. rewrite Hr. cbn [fst].
  destruct (getc_raises_false s n Hr) as [Hin _].
  destruct (getc s n) as [oc|] eqn:Hc.
  - apply set_phase; [exact Hwf | exact Hg | unfold call_leave; rewrite call_length; exact HL | exact Hin |].
    intros i Hi. unfold call_leave. rewrite call_loci by assumption. cbn [handler_compartments]. rewrite Hc.
    apply (mid_ext _ s); try reflexivity.
    apply leave_mid; [apply wf_loci_nth; assumption | apply HI; exact Hi | exact Hc].
  - apply set_phase; try assumption.
    intros i Hi. apply none_mid; [apply HI; exact Hi | exact Hc].
Qed.

Lemma add_node_winv : forall tbl s n c, wf_loci tbl = true -> WInv tbl s ->
  has_node s n = false -> WInv tbl (fst (add_node tbl s n c)).
Proof.
  intros tbl s n c Hwf [[Hg1 Hg2] [HL HI]] Hn. unfold add_node. rewrite Hn.
  assert (Hnin : ~ In n (st_nodes s)) by (intro H; apply has_node_In in H; congruence).
  set (s1 := mkState (st_nodes s ++ [n]) (st_edges s) (st_attr s) (st_loci s)).
  assert (Hc : getc s n = None) by (unfold getc; rewrite (Hg2 n Hnin); reflexivity).
  assert (W1 : WInv tbl s1).
  { split.
    - split.
      + intros a b Hab. cbn. rewrite !in_app_iff. destruct (Hg1 a b Hab). tauto.
      + intros v Hv. cbn in *. apply Hg2. intro H. apply Hv. apply in_app_iff. tauto.
    - split; [exact HL|]. intros i Hi. specialize (HI i Hi). destruct HI as [H1 [H2 H3]].
      assert (Ht : forall x, truthP (nth i tbl default_spec) s1 x <-> truthP (nth i tbl default_spec) s x).
      { intro x. destruct (spec_cases (nth i tbl default_spec)) as [[c0 Hsp]|He]; [rewrite Hsp|].
        - destruct x as [v|u w]; [|tauto]. cbn. rewrite in_app_iff. cbn. split; [|tauto].
          intros [[H|[H|[]]] Hv]; [tauto|]. subst v. unfold getc in Hc, Hv. cbn in Hv. congruence.
        - apply truthP_same_edge; [exact He | intros; reflexivity | intros; reflexivity]. }
      split; [exact H1|]. split; intros x Hx; [apply Ht, H2, Hx | apply H3, Ht, Hx]. }
  destruct c as [c|]; [|exact W1].
  apply set_compartment_winv; [exact Hwf | exact W1 | | exact Hc].
  apply has_node_In. cbn. apply in_app_iff. right. left. reflexivity.
Qed.

(* the loop of remove_node over the incident edges only touches the loci *)
Lemma rm_loop_state : forall tbl s inc L,
  fold_left (fun s e => call_remove tbl s (E (fst e) (snd e))) inc (with_loci s L) =
  with_loci s (fold_left (fun L e => run_handlers tbl (fun sp => remove_handler sp s (E (fst e) (snd e)))
                                                  (handler_compartments s (E (fst e) (snd e))) L) inc L).
Proof.
  intros tbl s inc. induction inc as [|e t IH]; intros L; cbn [fold_left]; [reflexivity|].
  rewrite <- IH. reflexivity.
Qed.

Lemma rm_loop_nth : forall tbl s inc L i, length L = length tbl -> i < length tbl ->
  length (fold_left (fun L e => run_handlers tbl (fun sp => remove_handler sp s (E (fst e) (snd e)))
                                              (handler_compartments s (E (fst e) (snd e))) L) inc L) = length L
  /\ nth i (fold_left (fun L e => run_handlers tbl (fun sp => remove_handler sp s (E (fst e) (snd e)))
                                              (handler_compartments s (E (fst e) (snd e))) L) inc L) [] =
     fold_left (fun l e => Nat.iter (hits (nth i tbl default_spec) [getc s (fst e); getc s (snd e)])
                                    (remove_handler (nth i tbl default_spec) s (E (fst e) (snd e))) l) inc (nth i L []).
Proof.
  intros tbl s inc. induction inc as [|e t IH]; intros L i HL Hi; cbn [fold_left]; [split; reflexivity|].
  destruct (IH (run_handlers tbl (fun sp => remove_handler sp s (E (fst e) (snd e))) (handler_compartments s (E (fst e) (snd e))) L) i) as [H1 H2].
  - rewrite run_handlers_length. exact HL.
  - exact Hi.
  - split; [rewrite H1; apply run_handlers_length|]. rewrite H2. rewrite run_handlers_nth by assumption. reflexivity.
Qed.

Lemma with_loci_id : forall s, with_loci s (st_loci s) = s.
Proof. intros [a b c d]. reflexivity. Qed.

Lemma remove_node_winv : forall tbl s n, wf_loci tbl = true -> WInv tbl s ->
  getc_raises s n = false -> WInv tbl (fst (remove_node tbl s n)).
Proof.
  intros tbl s n Hwf [[Hg1 Hg2] [HL HI]] Hr. unfold remove_node. rewrite Hr. cbn [fst].
  pose proof (rm_loop_state tbl s (incident (st_edges s) n) (st_loci s)) as Hloop.
  rewrite with_loci_id in Hloop. rewrite Hloop. clear Hloop.
  set (L1 := fold_left _ (incident (st_edges s) n) (st_loci s)).
  set (s1 := with_loci s L1).
  assert (HL1 : length L1 = length tbl).
  { unfold L1. destruct tbl as [|sp0 t0] eqn:Et.
    - destruct (st_loci s); [|discriminate]. clear. induction (incident (st_edges s) n) as [|e t IH]; [reflexivity|]. cbn [fold_left].
      replace (run_handlers [] _ _ []) with (@nil (list elem)); [exact IH|].
      unfold run_handlers. induction (handler_compartments s (E (fst e) (snd e))) as [|[c|] r IHr]; cbn; [reflexivity | exact IHr | exact IHr].
    - rewrite <- Et in *. destruct (rm_loop_nth tbl s (incident (st_edges s) n) (st_loci s) 0 HL) as [H _]; [rewrite Et; cbn; lia|].
      rewrite H. exact HL. }
  split.
  - split.
    + intros a b Hab. cbn in Hab. apply filter_In in Hab. destruct Hab as [Hab Ht]. cbn.
      unfold touches in Ht. cbn in Ht. apply negb_true_iff, orb_false_iff in Ht. destruct Ht as [T1 T2].
      apply Z.eqb_neq in T1, T2. destruct (Hg1 a b Hab) as [Ha Hb].
      split; apply filter_In; (split; [assumption | apply negb_true_iff, Z.eqb_neq; assumption]).
    + intros v Hv. cbn. cbn in Hv. destruct (Z.eqb v n) eqn:E; [reflexivity|]. apply Hg2. intro H. apply Hv.
      apply filter_In. split; [exact H | rewrite E; reflexivity].
  - split; [cbn [st_loci]; unfold call_remove; rewrite call_length; exact HL1|].
    intros i Hi.
    apply (mid_winv_removed _ s _ n).
    + intro v. cbn. rewrite filter_In, negb_true_iff, Z.eqb_neq. tauto.
    + intros a b. unfold adj. cbn [st_edges]. rewrite !adjb_spec, !filter_In. unfold touches. cbn [fst snd].
      rewrite !negb_true_iff, !orb_false_iff, !Z.eqb_neq. tauto.
    + intros v Hv. unfold getc. cbn. apply Z.eqb_neq in Hv. rewrite Hv. reflexivity.
    + cbn [st_loci]. change (st_loci (call_remove tbl s1 (N n))) with (st_loci (call tbl remove_handler s1 (N n))).
      rewrite call_loci; [|exact HL1|exact Hi]. cbn [handler_compartments].
      change (getc s1 n) with (getc s n).
      change (remove_handler (nth i tbl default_spec) s1 (N n)) with (remove_handler (nth i tbl default_spec) s (N n)).
      change (st_loci s1) with L1. unfold L1.
      destruct (rm_loop_nth tbl s (incident (st_edges s) n) (st_loci s) i HL Hi) as [_ H2]. rewrite H2.
      apply (remove_node_mid _ s n); [apply wf_loci_nth; assumption | apply HI; exact Hi].
Qed.

Lemma add_edge_winv_state : forall tbl s n m, wf_loci tbl = true -> WInv tbl s ->
  getc_raises s n = false -> getc_raises s m = false -> WInv tbl (fst (add_edge tbl s n m)).
Proof.
  intros tbl s n m Hwf [[Hg1 Hg2] [HL HI]] Hrn Hrm. unfold add_edge.
  destruct (getc_raises_false s n Hrn) as [Hn _]. destruct (getc_raises_false s m Hrm) as [Hm _].
  rewrite (proj2 (has_node_In s n) Hn), (proj2 (has_node_In s m) Hm), Hrn, Hrm. cbn [negb orb fst].
  set (es := if adjb (st_edges s) n m then st_edges s else st_edges s ++ [(n, m)]).
  set (s1 := mkState (st_nodes s) es (st_attr s) (st_loci s)).
  assert (Hadj : forall a b, adj s1 a b <-> adj s a b \/ (a = n /\ b = m) \/ (a = m /\ b = n)).
  { intros a b. unfold adj, s1, es. cbn [st_edges]. destruct (adjb (st_edges s) n m) eqn:E.
    - split; [tauto|]. intros [H|[[H1 H2]|[H1 H2]]]; [exact H | subst; exact E | subst; rewrite adjb_sym; exact E].
    - rewrite !adjb_spec, !in_app_iff. cbn. split.
      + intros [[H|[H|[]]]|[H|[H|[]]]]; try tauto; inversion H; subst; tauto.
      + intros [[H|H]|[[H1 H2]|[H1 H2]]]; subst; tauto. }
  split.
  - split.
    + intros a b Hab. cbn in *. unfold es in Hab. destruct (adjb (st_edges s) n m); [apply Hg1; exact Hab|].
      apply in_app_iff in Hab. destruct Hab as [Hab|[Hab|[]]]; [apply Hg1; exact Hab | inversion Hab; subst; tauto].
    + exact Hg2.
  - split; [unfold call_add; rewrite call_length; exact HL|]. intros i Hi. unfold call_add.
    rewrite call_loci by assumption. cbn [handler_compartments].
    apply (winv1_same _ s1); try (intros; reflexivity).
    apply (add_edge_winv _ s s1 n m); [apply wf_loci_nth; assumption | apply HI; exact Hi | reflexivity | reflexivity | exact Hadj].
Qed.

Lemma remove_edge_winv_state : forall tbl s n m, wf_loci tbl = true -> WInv tbl s ->
  WInv tbl (fst (remove_edge tbl s n m)).
Proof.
  intros tbl s n m Hwf [[Hg1 Hg2] [HL HI]]. unfold remove_edge.
  destruct (getc_raises s n || getc_raises s m); [split; [split|split]; assumption|].
  change (st_edges (call_remove tbl s (E n m))) with (st_edges s).
  destruct (adjb (st_edges s) n m) eqn:Eadj; cbn [fst].
  - split.
    + split; [|exact Hg2]. intros a b Hab. cbn in Hab. apply filter_In in Hab. apply Hg1. tauto.
    + split; [cbn [st_loci]; unfold call_remove; rewrite call_length; exact HL|]. intros i Hi.
      cbn [st_loci]. change (st_loci (call_remove tbl s (E n m))) with (st_loci (call tbl remove_handler s (E n m))).
      rewrite call_loci by assumption. cbn [handler_compartments].
      apply (remove_edge_winv _ s); [apply wf_loci_nth; assumption | apply HI; exact Hi | reflexivity | reflexivity |].
      intros a b. unfold adj. cbn [st_edges]. rewrite !adjb_spec, !filter_In, !negb_true_iff.
      assert (Hse : forall u w, same_edge n m (u, w) = false <-> ~ ((u = n /\ w = m) \/ (u = m /\ w = n))).
      { intros u w. split.
        - intros H Hc. assert (same_edge n m (u, w) = true) by (apply same_edge_spec; destruct Hc as [[? ?]|[? ?]]; subst; tauto). congruence.
        - intro H. destruct (same_edge n m (u, w)) eqn:E; [|reflexivity]. apply same_edge_spec in E. exfalso. apply H.
          destruct E as [E|E]; inversion E; tauto. }
      rewrite !Hse. tauto.
  - split; [split; assumption|]. split; [unfold call_remove; rewrite call_length; exact HL|]. intros i Hi.
    unfold call_remove. rewrite call_loci by assumption. cbn [handler_compartments].
    apply (winv1_same _ s); try (intros; reflexivity).
    apply (remove_edge_winv _ s s n m); [apply wf_loci_nth; assumption | apply HI; exact Hi | reflexivity | reflexivity |].
    intros a b. split; [|tauto]. intro H. split; [exact H|]. intros [[H1 H2]|[H1 H2]]; subst; unfold adj in H.
    + congruence.
    + rewrite adjb_sym in H. congruence.
Qed.

(* ---------- every operation ---------- *)
Theorem winv_step : forall tbl s o, wf_loci tbl = true -> WInv tbl s -> preb s o = true -> WInv tbl (step tbl s o).
Proof.
  intros tbl s o Hwf W Hp. unfold step. destruct o as [n c|n c|n c|n|n m|n m]; cbn [step_out preb] in *.
  - apply andb_true_iff in Hp. destruct Hp as [H1 H2]. apply set_compartment_winv; try assumption.
    destruct (getc s n); [discriminate | reflexivity].
  - apply change_compartment_winv; try assumption. apply negb_true_iff. exact Hp.
  - apply add_node_winv; try assumption. apply negb_true_iff. exact Hp.
  - apply remove_node_winv; try assumption. apply negb_true_iff. exact Hp.
  - apply andb_true_iff in Hp. destruct Hp as [H1 H2]. apply add_edge_winv_state; try assumption; apply negb_true_iff; assumption.
  - apply remove_edge_winv_state; assumption.
Qed.

Theorem inv_step : forall tbl s o, wf_loci tbl = true -> single_orientation tbl = true ->
  Inv tbl s -> preb s o = true -> Inv tbl (step tbl s o).
Proof. intros tbl s o Hwf Hs H Hp. apply WInv_Inv; [exact Hs|]. apply winv_step; [exact Hwf | apply Inv_WInv; exact H | exact Hp]. Qed.

(* ---------- histories ---------- *)
Lemma winv_history : forall tbl ops s, wf_loci tbl = true -> WInv tbl s -> validb tbl s ops = true ->
  WInv tbl (fold_left (step tbl) ops s).
Proof.
  intros tbl ops. induction ops as [|o r IH]; intros s Hwf W Hv; cbn [fold_left]; [exact W|].
  cbn [validb] in Hv. apply andb_true_iff in Hv. destruct Hv as [H1 H2].
  apply IH; [exact Hwf | apply winv_step; assumption | exact H2].
Qed.

Lemma validb_app : forall tbl a b s, validb tbl s (a ++ b) = validb tbl s a && validb tbl (fold_left (step tbl) a s) b.
Proof.
  intros tbl a. induction a as [|o r IH]; intros b s; cbn [app validb fold_left]; [reflexivity|].
  rewrite IH, andb_assoc. reflexivity.
Qed.

Lemma state0_winv : forall tbl nodes edges, graph_okb nodes edges = true -> WInv tbl (state0 tbl nodes edges).
Proof.
  intros tbl nodes edges Hg. unfold graph_okb in Hg. rewrite forallb_forall in Hg.
  assert (Hc : forall v, getc (state0 tbl nodes edges) v = None).
  { intro v. unfold getc, state0. cbn. destruct (zmem v nodes); reflexivity. }
  split.
  - split.
    + intros a b Hab. specialize (Hg _ Hab). cbn in Hg. apply andb_true_iff in Hg. rewrite !zmem_In in Hg. exact Hg.
    + intros v Hv. cbn in *. apply zmem_false in Hv. rewrite Hv. reflexivity.
  - split; [cbn; apply map_length|]. intros i Hi.
    assert (Hn : nth i (st_loci (state0 tbl nodes edges)) [] = []).
    { cbn. clear. revert i. induction tbl as [|sp t IH]; intros [|i]; cbn; try reflexivity. apply IH. }
    rewrite Hn. split; [constructor|]. split; [intros x []|].
    intros x Hx. exfalso. destruct (spec_cases (nth i tbl default_spec)) as [[c Hsp]|He].
    + rewrite Hsp in Hx. destruct x as [v|u w]; [|exact Hx]. destruct Hx as [_ Hx]. rewrite Hc in Hx. discriminate.
    + destruct x as [v|u w]; [exact (truthP_edge_N _ _ v He Hx)|].
      apply (truthP_edge _ _ u w He) in Hx. destruct Hx as [_ Q]. apply qual_some in Q. rewrite Hc in Q. tauto.
Qed.

Theorem weak_history : forall tbl nodes edges init ops, wf_loci tbl = true -> graph_okb nodes edges = true ->
  validb tbl (state0 tbl nodes edges) (init_ops init ++ ops) = true ->
  WInv tbl (fold_left (step tbl) ops (setup tbl nodes edges init)).
Proof.
  intros tbl nodes edges init ops Hwf Hg Hv. unfold setup. rewrite <- fold_left_app.
  apply winv_history; [exact Hwf | apply state0_winv; exact Hg | exact Hv].
Qed.

Theorem inv_history : forall tbl nodes edges init ops, wf_loci tbl = true -> single_orientation tbl = true ->
  graph_okb nodes edges = true -> validb tbl (state0 tbl nodes edges) (init_ops init ++ ops) = true ->
  Inv tbl (fold_left (step tbl) ops (setup tbl nodes edges init)).
Proof. intros. apply WInv_Inv; [assumption|]. apply weak_history; assumption. Qed.

(* the set-up state itself is reached by valid calls whenever the initial assignment names nodes of the network *)
Lemma attr_present_step_change : forall tbl s n c v,
  getc_raises s v = false -> getc_raises (fst (change_compartment tbl s n c)) v = false.
Proof.
  intros tbl s n c v Hv. unfold change_compartment. destruct (getc_raises s n) eqn:Hn; [exact Hv|]. cbn [fst].
  set (s2 := match getc s n with Some _ => call_leave tbl s (N n) | None => s end).
  assert (H1 : has_node s2 v = has_node s v) by (unfold s2; destruct (getc s n); reflexivity).
  assert (H2 : st_attr s2 v = st_attr s v) by (unfold s2; destruct (getc s n); reflexivity).
  unfold getc_raises in *.
  change (has_node (call_enter tbl (with_attr s2 n (Some (Some c))) (N n)) v) with (has_node s2 v).
  change (st_attr (call_enter tbl (with_attr s2 n (Some (Some c))) (N n)) v)
    with (if Z.eqb v n then Some (Some c) else st_attr s2 v).
  rewrite H1, H2. apply orb_false_iff in Hv. destruct Hv as [Hv1 Hv2]. rewrite Hv1. cbn [orb].
  destruct (Z.eqb v n); [reflexivity | exact Hv2].
Qed.

Lemma init_valid : forall tbl init s, (forall nc, In nc init -> getc_raises s (fst nc) = false) ->
  validb tbl s (init_ops init) = true.
Proof.
  intros tbl init. induction init as [|[n c] r IH]; intros s H; cbn [init_ops map validb]; [reflexivity|].
  apply andb_true_iff. split.
  - cbn [preb fst snd]. apply negb_true_iff. apply (H (n, c)). left. reflexivity.
  - apply IH. intros nc Hnc. unfold step. cbn [step_out fst snd]. apply attr_present_step_change. apply H. right. exact Hnc.
Qed.

Lemma setup_valid : forall tbl nodes edges init, forallb (fun nc => zmem (fst nc) nodes) init = true ->
  validb tbl (state0 tbl nodes edges) (init_ops init) = true.
Proof.
  intros tbl nodes edges init H. apply init_valid. rewrite forallb_forall in H. intros nc Hnc. specialize (H nc Hnc).
  unfold getc_raises, has_node, state0. cbn [st_nodes st_attr]. rewrite H. reflexivity.
Qed.

(* ---------- consequences the property names ---------- *)
Lemma NoDup_same_length : forall (l l' : list elem), NoDup l -> NoDup l' -> (forall x, In x l <-> In x l') -> length l = length l'.
Proof. intros l l' H1 H2 H. apply Permutation_length, NoDup_Permutation; assumption. Qed.

Definition same_network (s s' : state) : Prop :=
  (forall v, In v (st_nodes s') <-> In v (st_nodes s)) /\ (forall a b, adj s' a b <-> adj s a b)
  /\ (forall v, In v (st_nodes s) -> getc s' v = getc s v).

Lemma truthP_network : forall sp s s' x, graph_ok s -> graph_ok s' -> same_network s s' -> (truthP sp s' x <-> truthP sp s x).
Proof.
  intros sp s s' x [G1 G2] [G1' G2'] [Hn [Ha Hg]].
  assert (Hgall : forall v, getc s' v = getc s v).
  { intro v. destruct (in_dec Z.eq_dec v (st_nodes s)) as [H|H]; [apply Hg; exact H|].
    unfold getc. rewrite (G2 v H), (G2' v); [reflexivity|]. intro H'. apply H, Hn, H'. }
  apply truthP_same; assumption.
Qed.

Lemma same_networkb_spec : forall s s', same_networkb s s' = true -> same_network s s'.
Proof.
  intros s s' H. unfold same_networkb in H. rewrite !andb_true_iff, !forallb_forall in H.
  destruct H as [[[[H1 H2] H3] H4] H5]. split; [|split].
  - intro v. split; intro Hv; [apply zmem_In, H2, Hv | apply zmem_In, H1, Hv].
  - intros a b. unfold adj. split; intro Hab; apply adjb_spec in Hab.
    + destruct Hab as [Hab|Hab]; [exact (H4 _ Hab) | rewrite adjb_sym; exact (H4 _ Hab)].
    + destruct Hab as [Hab|Hab]; [exact (H3 _ Hab) | rewrite adjb_sym; exact (H3 _ Hab)].
  - intros v Hv. specialize (H5 v Hv). destruct (getc s v), (getc s' v); try discriminate; [|reflexivity].
    apply Z.eqb_eq in H5. congruence.
Qed.
