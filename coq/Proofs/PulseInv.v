(* The scheduling invariant of the pulse-coupled oscillator process over the kernel model:
   the user state's event map is exactly the set of live queue entries (C20_one_pending), through
   set-up, every event, and both scheduler loops. *)
From Coq Require Import List ZArith QArith Qabs Bool Arith Lia Lqa.
From EpyV Require Import Lib.Prelude Model.Kernel Model.Pulse Proofs.KernelBase Proofs.PulseBase.
Import ListNotations.
Open Scope Q_scope.

Notation kst := (st pworld).

Definition is_tap (x : obs) : bool := match x with OTap _ _ _ _ => true | _ => false end.
Definition taps (o : list obs) : list obs := filter is_tap o.

(* the live queue entry of node n's firing at time T with id i *)
Definition fentry (T : Q) (i : nat) (n : Z) : entry := mk_entry T i 0 (EN n) prog_fired None.

(* [link H m np s]: the event map m (with np posts made) describes the live entries of the queue of s,
   except for the nodes in H, whose recorded event is no longer live (it has fired or been un-posted) *)
Record link (H : list Z) (m : list (Z * (nat * Q))) (np : nat) (s : kst) : Prop := {
  lk_len : length (ids s) = np;
  lk_nodup : NoDup (map e_id (queue s));
  lk_qlt : forall x, In x (queue s) -> (e_id x < nextid s)%nat;
  lk_ilt : forall i, In i (ids s) -> (i < nextid s)%nat;
  lk_fwd : forall n k T, ev_look m n = Some (k, T) -> ~ In n H ->
     (k < np)%nat /\ In (fentry T (nth k (ids s) 0%nat) n) (queue s);
  lk_hole : forall n k T, In n H -> ev_look m n = Some (k, T) ->
     (k < np)%nat /\ forall x, In x (queue s) -> e_id x = nth k (ids s) 0%nat -> e_live x = false;
  lk_bwd : forall x, In x (queue s) -> e_live x = true ->
     exists n k T, ev_look m n = Some (k, T) /\ ~ In n H /\ x = fentry T (nth k (ids s) 0%nat) n }.

(* link only looks at the queue, the ids and the id counter *)
Lemma link_ext H m np s s' : queue s' = queue s -> ids s' = ids s -> nextid s' = nextid s -> link H m np s -> link H m np s'.
Proof. intros E1 E2 E3 [A1 A2 A3 A4 A5 A6 A7]. split; rewrite ?E1, ?E2, ?E3; assumption. Qed.

(* ------------------------------------------------------------------ un-posting a node's recorded event *)
Lemma link_unpost H m np s t e n k T : link H m np s -> ev_look m n = Some (k, T) ->
  let s' := do_action 0 t e (AUnpost k false) s in
  link (n :: H) m np s' /\ clock s' = clock s /\ taps (out s') = taps (out s) /\ world s' = world s.
Proof.
  intros L Hn. cbn [do_action].
  assert (Hk : (k < length (ids s))%nat).
  { destruct (in_dec Z.eq_dec n H) as [Hin|Hin].
    - rewrite (lk_len _ _ _ _ L). exact (proj1 (lk_hole _ _ _ _ L n k T Hin Hn)).
    - rewrite (lk_len _ _ _ _ L). exact (proj1 (lk_fwd _ _ _ _ L n k T Hn Hin)). }
  destruct (ids s) as [|i0 l0] eqn:Eids; [cbn in Hk; lia|]. rewrite <- Eids in *.
  rewrite Nat.mod_small by exact Hk.
  set (i := nth k (ids s) 0%nat).
  destruct (find_live i (queue s)) as [x|] eqn:Ef.
  - (* the event was live: n was not in H *)
    apply find_live_some in Ef. destruct Ef as [Hx [Hid Hl]].
    assert (Hin : ~ In n H).
    { intros Hin. destruct (lk_hole _ _ _ _ L n k T Hin Hn) as [_ Hd]. rewrite (Hd x Hx Hid) in Hl. discriminate. }
    split; [|repeat split; reflexivity]. split; cbn [queue ids nextid emit set_queue].
    + exact (lk_len _ _ _ _ L).
    + rewrite kill_ids. exact (lk_nodup _ _ _ _ L).
    + intros y Hy. apply kill_in in Hy. destruct Hy as [[Hy _]|[z [Hz [_ ->]]]]; [exact (lk_qlt _ _ _ _ L _ Hy)|exact (lk_qlt _ _ _ _ L z Hz)].
    + exact (lk_ilt _ _ _ _ L).
    + intros n' k' T' Hn' Hnot.
      assert (Hne : n' <> n) by (intros ->; apply Hnot; left; reflexivity).
      assert (Hnot' : ~ In n' H) by (intros Hi; apply Hnot; right; exact Hi).
      destruct (lk_fwd _ _ _ _ L n' k' T' Hn' Hnot') as [Hk' Hin']. split; [exact Hk'|].
      apply kill_keeps; [exact Hin'|]. cbn [e_id fentry mk_entry]. intros E.
      (* two different nodes cannot share an id *)
      destruct (lk_fwd _ _ _ _ L n k T Hn Hin) as [_ Hin0].
      assert (fentry T' (nth k' (ids s) 0%nat) n' = fentry T i n).
      { apply (NoDup_id_inj (queue s)); [exact (lk_nodup _ _ _ _ L)|exact Hin'|exact Hin0|exact E]. }
      apply Hne. unfold fentry, mk_entry in *. congruence.
    + intros n' k' T' [<-|Hin'] Hn'.
      * rewrite Hn in Hn'. injection Hn' as <- <-. split; [exact (proj1 (lk_fwd _ _ _ _ L n k T Hn Hin))|].
        intros y Hy Ey. apply kill_in in Hy. destruct Hy as [[_ Hne]|[z [_ [_ ->]]]]; [contradiction|reflexivity].
      * destruct (lk_hole _ _ _ _ L n' k' T' Hin' Hn') as [Hk' Hd]. split; [exact Hk'|].
        intros y Hy Ey. apply kill_in in Hy. destruct Hy as [[Hy _]|[z [_ [_ ->]]]]; [apply Hd; assumption|reflexivity].
    + intros y Hy Hly. apply kill_live_in in Hy; [|exact Hly]. destruct Hy as [Hy Hne].
      destruct (lk_bwd _ _ _ _ L y Hy Hly) as [n' [k' [T' [A [B C]]]]]. exists n', k', T'. repeat split; try assumption.
      intros [<-|Hi]; [|exact (B Hi)]. rewrite Hn in A. injection A as <- <-. apply Hne. rewrite C. reflexivity.
  - (* nothing live under that id: the queue is unchanged *)
    split; [|repeat split; reflexivity].
    pose proof (proj1 (find_live_none i (queue s)) Ef) as Hd.
    destruct L as [A1 A2 A3 A4 A5 A6 A7]. split; cbn [queue ids nextid emit]; try assumption.
    + intros n' k' T' Hn' Hnot. apply A5; [exact Hn'|]. intros Hi. apply Hnot. right. exact Hi.
    + intros n' k' T' [<-|Hin'] Hn'; [|exact (A6 n' k' T' Hin' Hn')].
      rewrite Hn in Hn'. injection Hn' as <- <-. split; [rewrite <- A1; exact Hk|exact Hd].
    + intros y Hy Hly. destruct (A7 y Hy Hly) as [n' [k' [T' [A [B C]]]]]. exists n', k', T'. repeat split; try assumption.
      intros [<-|Hi]; [|exact (B Hi)]. rewrite Hn in A. injection A as <- <-.
      rewrite (Hd y Hy) in Hly; [discriminate|]. rewrite C. reflexivity.
Qed.

(* ------------------------------------------------------------------ posting a node's next firing *)
Lemma nth_app_old {A} (l : list A) a d k : (k < length l)%nat -> nth k (l ++ [a]) d = nth k l d.
Proof. intros H. apply app_nth1. exact H. Qed.

Lemma link_post H m np s t e n dt : link H m np s -> In n H \/ ev_look m n = None ->
  clock s <= Qred (t + dt) ->
  let s' := do_action 0 t e (APostOn (EN n) dt prog_fired) s in
  link (remove Z.eq_dec n H) (upd_ev n (np, Qred (t + dt)) m) (S np) s'
  /\ clock s' = clock s /\ taps (out s') = taps (out s) /\ world s' = world s.
Proof.
  intros L Hn Hc. cbn [do_action]. unfold post.
  assert (E : Qltb (Qred (t + dt)) (clock s) = false) by (apply Qltb_false; exact Hc). rewrite E.
  split; [|repeat split; reflexivity].
  destruct L as [A1 A2 A3 A4 A5 A6 A7].
  assert (Hfresh : forall x, In x (queue s) -> e_id x <> nextid s) by (intros x Hx; specialize (A3 x Hx); lia).
  split; cbn [queue ids nextid emit push_id map e_id].
  - rewrite app_length, A1. cbn. lia.
  - constructor; [|exact A2]. intros Hin. apply in_map_iff in Hin. destruct Hin as [x [Ex Hx]]. exact (Hfresh x Hx Ex).
  - intros x [<-|Hx]; [cbn; lia|]. specialize (A3 x Hx). lia.
  - intros i Hi. apply in_app_or in Hi. destruct Hi as [Hi|[<-|[]]]; [specialize (A4 i Hi)|]; lia.
  - intros n' k' T' Hn' Hnot. destruct (Z.eq_dec n' n) as [->|Hne].
    + rewrite look_upd_same in Hn'. injection Hn' as <- <-. split; [lia|]. left.
      rewrite <- A1, nth_middle. reflexivity.
    + rewrite look_upd_other in Hn' by exact Hne.
      assert (Hnot' : ~ In n' H) by (intros Hi; apply Hnot, in_in_remove; assumption).
      destruct (A5 n' k' T' Hn' Hnot') as [Hk Hin]. split; [lia|]. right.
      rewrite nth_app_old by (rewrite A1; exact Hk). exact Hin.
  - intros n' k' T' Hin' Hn'. apply in_remove in Hin'. destruct Hin' as [Hin' Hne].
    rewrite look_upd_other in Hn' by exact Hne.
    destruct (A6 n' k' T' Hin' Hn') as [Hk Hd]. split; [lia|].
    rewrite nth_app_old by (rewrite A1; exact Hk).
    intros x [<-|Hx] Ex; [|apply Hd; assumption].
    cbn [e_id] in Ex. exfalso.
    assert (Hi : In (nth k' (ids s) 0%nat) (ids s)) by (apply nth_In; rewrite A1; exact Hk).
    specialize (A4 _ Hi). lia.
  - intros x [<-|Hx] Hl.
    + exists n, np, (Qred (t + dt)). rewrite look_upd_same. split; [reflexivity|]. split; [apply remove_In|].
      rewrite <- A1, nth_middle. reflexivity.
    + destruct (A7 x Hx Hl) as [n' [k' [T' [A [B C]]]]].
      assert (Hne : n' <> n).
      { intros ->. destruct Hn as [Hn|Hn]; [exact (B Hn)|congruence]. }
      exists n', k', T'. rewrite look_upd_other by exact Hne. split; [exact A|]. split.
      * intros Hi. apply in_remove in Hi. exact (B (proj1 Hi)).
      * rewrite nth_app_old; [exact C|].
        destruct (A5 n' k' T' A B) as [Hk _]. rewrite A1. exact Hk.
Qed.

(* ------------------------------------------------------------------ setFiringTime as the two together *)
Lemma run_actions_app p t e a b (s : kst) : run_actions p t e (a ++ b) s = run_actions p t e b (run_actions p t e a s).
Proof. unfold run_actions. apply fold_left_app. Qed.

Lemma remove_cons_same n H : remove Z.eq_dec n (n :: H) = remove Z.eq_dec n H.
Proof. cbn. destruct (Z.eq_dec n n); [reflexivity|contradiction]. Qed.

Lemma link_sft H w s t e n T : link H (pw_ev w) (pw_nposted w) s -> clock s <= t -> t <= T ->
  let s' := run_actions 0 t e (unpost_of w n ++ [APostOn (EN n) (T - t) prog_fired]) s in
  link (remove Z.eq_dec n H) (pw_ev (set_ev n (pw_nposted w, Qred (t + (T - t))) w)) (pw_nposted (set_ev n (pw_nposted w, Qred (t + (T - t))) w)) s'
  /\ clock s' = clock s /\ taps (out s') = taps (out s) /\ world s' = world s.
Proof.
  intros L Hc HT. rewrite set_ev_ev. cbn [pw_nposted set_ev].
  assert (Hq : forall c, c <= t -> c <= Qred (t + (T - t))) by (intros c Hcc; rewrite Qred_correct; lra).
  unfold unpost_of. rewrite ev_of_look. destruct (ev_look (pw_ev w) n) as [[k T0]|] eqn:En.
  - cbn [app run_actions fold_left].
    destruct (link_unpost H _ _ s t e n k T0 L En) as [L1 [C1 [O1 W1]]].
    set (s1 := do_action 0 t e (AUnpost k false) s) in *.
    destruct (link_post (n :: H) _ _ s1 t e n (T - t) L1 (or_introl (or_introl eq_refl))) as [L2 [C2 [O2 W2]]].
    { rewrite C1. apply Hq, Hc. }
    rewrite remove_cons_same in L2. split; [exact L2|]. split; [congruence|]. split; congruence.
  - cbn [app run_actions fold_left].
    destruct (link_post H _ _ s t e n (T - t) L (or_intror En)) as [L2 [C2 [O2 W2]]]; [apply Hq, Hc|].
    split; [exact L2|]. split; [exact C2|]. split; assumption.
Qed.

(* probes only add OQuery records *)
Lemma run_queries p t e acts (s : kst) : Forall (fun a => exists k, a = AQuery k) acts ->
  let s' := run_actions p t e acts s in
  queue s' = queue s /\ ids s' = ids s /\ nextid s' = nextid s /\ clock s' = clock s /\ taps (out s') = taps (out s) /\ world s' = world s.
Proof.
  unfold run_actions. cbn zeta.
  revert s. induction acts as [|a acts IH]; intros s Hf; cbn [fold_left]; [repeat split; reflexivity|].
  inversion Hf as [|? ? [k ->] Hf']; subst.
  destruct (IH (do_action p t e (AQuery k) s) Hf') as [A1 [A2 [A3 [A4 [A5 A6]]]]].
  rewrite A1, A2, A3, A4, A5, A6. cbn [do_action].
  destruct (ids s) eqn:E; cbn [queue ids nextid clock out world emit taps filter is_tap]; rewrite ?E; repeat split; reflexivity.
Qed.

Section Sim.
Variable cfg : pcfg.

(* requests for a posting time are answered with a time that is not in the caller's past *)
Definition req_lo (r : req) : Prop := rq_kind r = RT -> rq_t r <= rq_ans r.
Definition good_lo (l : list req) : Prop := forall r, In r l -> req_lo r.

Lemma good_lo_app l1 l2 : good_lo (l1 ++ l2) -> good_lo l2.
Proof. intros H r Hr. apply H, in_or_app. right. exact Hr. Qed.

Definition holes_after (ns : list Z) (H : list Z) : list Z := fold_left (fun H n => remove Z.eq_dec n H) ns H.

Lemma holes_after_nil ns : holes_after ns [] = [].
Proof. induction ns as [|n ns IH]; cbn; [reflexivity|exact IH]. Qed.
Lemma holes_after_app a b H : holes_after (a ++ b) H = holes_after b (holes_after a H).
Proof. apply fold_left_app. Qed.

Definition simres (t : Q) (e : elem) (ns : list Z) (st st' : pstate) : Prop :=
  forall (s0 : kst) H,
    let s := run_actions 0 t e (snd st) s0 in
    link H (pw_ev (fst st)) (pw_nposted (fst st)) s -> clock s <= t -> good_lo (pw_reqs (fst st')) ->
    let s' := run_actions 0 t e (snd st') s0 in
    link (holes_after ns H) (pw_ev (fst st')) (pw_nposted (fst st')) s'
    /\ clock s' = clock s /\ taps (out s') = taps (out s) /\ world s' = world s.

Lemma sim_qstep t e o st st' : qstep cfg t o st st' -> simres t e (ocons o []) st st'.
Proof.
  intros [w w' a Hs|w a n arg c T w1 E H0 H1 Harg] s0 H; cbn [fst snd ocons holes_after fold_left]; intros L Hc Hg.
  - rewrite (ws_ev _ _ Hs), (ws_np _ _ Hs). split; [exact L|repeat split; reflexivity].
  - rewrite run_actions_app.
    pose proof (ask_wsame _ _ _ _ _ _ E) as Hs. pose proof (ask_reqs _ _ _ _ _ _ E) as Hr.
    assert (HT : t <= T).
    { apply (Hg (mkreq RT t arg T)); [|reflexivity]. cbn [pw_reqs set_ev]. rewrite Hr. left. reflexivity. }
    rewrite <- (ws_ev _ _ Hs), <- (ws_np _ _ Hs) in L.
    apply (link_sft H w1 _ t e n T L Hc HT).
Qed.

Lemma sim_qsteps t e ns st st' : qsteps cfg t ns st st' -> simres t e ns st st'.
Proof.
  induction 1 as [st|o st1 st2 st3 ns Hq Hs IH]; intros s0 H; cbn zeta; intros L Hc Hg.
  - split; [exact L|repeat split; reflexivity].
  - destruct (proj1 (proj2 (proj2 (proj2 (proj2 (qsteps_keeps _ _ _ _ _ Hs))))) ) as [l Hl].
    assert (Hg2 : good_lo (pw_reqs (fst st2))) by (rewrite Hl in Hg; eapply good_lo_app; exact Hg).
    destruct (sim_qstep t e o st1 st2 Hq s0 H L Hc Hg2) as [L2 [C2 [O2 W2]]].
    destruct (IH s0 _ L2) as [L3 [C3 [O3 W3]]]; [rewrite C2; exact Hc|exact Hg|].
    replace (holes_after (ocons o ns) H) with (holes_after ns (holes_after (ocons o []) H)) by (destruct o; reflexivity).
    split; [exact L3|]. split; [congruence|]. split; congruence.
Qed.

Lemma sim_psteps t e ns st st' : psteps cfg t ns st st' -> simres t e ns st st'.
Proof.
  induction 1 as [st|ns1 ns2 st1 st2 st3 Hp Hs IH]; intros s0 H; cbn zeta; intros L Hc Hg.
  - split; [exact L|repeat split; reflexivity].
  - destruct (proj1 (proj2 (proj2 (psteps_keeps _ _ _ _ _ Hs)))) as [l Hl].
    assert (Hg2 : good_lo (pw_reqs (fst st2))) by (rewrite Hl in Hg; eapply good_lo_app; exact Hg).
    assert (S12 : simres t e ns1 st1 st2).
    { destruct Hp as [ns0 sa sb Hq|w a bg bd]; [apply sim_qsteps, Hq|].
      intros s1 H1; cbn [fst snd holes_after fold_left]; intros L1 _ _. split; [exact L1|repeat split; reflexivity]. }
    destruct (S12 s0 H L Hc Hg2) as [L2 [C2 [O2 W2]]].
    destruct (IH s0 _ L2) as [L3 [C3 [O3 W3]]]; [rewrite C2; exact Hc|exact Hg|].
    rewrite holes_after_app. split; [exact L3|]. split; [congruence|]. split; congruence.
Qed.

End Sim.

(* ------------------------------------------------------------------ times: not before the current event, at most one period ahead *)
Section Time.
Variable cfg : pcfg.
Variable ub : Q -> Q.                      (* an upper bound of the rounding in setFiringTime *)
Hypothesis ub_mono : forall x y, x <= y -> ub x <= ub y.
Hypothesis period_nonneg : 0 <= pc_period cfg.
Notation period := (pc_period cfg).

Definition req_hi (r : req) : Prop := rq_kind r = RT -> rq_ans r <= ub (rq_arg r).
Definition good (l : list req) : Prop := forall r, In r l -> req_lo r /\ req_hi r.

Lemma good_app l1 l2 : good (l1 ++ l2) -> good l2.
Proof. intros H r Hr. apply H, in_or_app. right. exact Hr. Qed.
Lemma good_good_lo l : good l -> good_lo l.
Proof. intros H r Hr. apply H, Hr. Qed.

Definition tmI (t : Q) (H : list Z) (m : list (Z * (nat * Q))) : Prop :=
  forall n k T, ev_look m n = Some (k, T) -> ~ In n H -> t <= T /\ T <= ub (t + period).

Lemma tm_qstep t o st st' : qstep cfg t o st st' -> good (pw_reqs (fst st')) ->
  forall H, tmI t H (pw_ev (fst st)) -> tmI t (holes_after (ocons o []) H) (pw_ev (fst st')).
Proof.
  intros [w w' a Hs|w a n arg c T w1 E H0 H1 Harg] Hg H Ht; cbn [fst snd ocons holes_after fold_left] in *.
  - rewrite (ws_ev _ _ Hs). exact Ht.
  - pose proof (ask_wsame _ _ _ _ _ _ E) as Hs. pose proof (ask_reqs _ _ _ _ _ _ E) as Hr.
    destruct (Hg (mkreq RT t arg T)) as [Hlo Hhi]; [cbn [pw_reqs set_ev]; rewrite Hr; left; reflexivity|].
    specialize (Hlo eq_refl). specialize (Hhi eq_refl). cbn in Hlo, Hhi.
    rewrite set_ev_ev. intros n' k' T' Hn' Hnot. destruct (Z.eq_dec n' n) as [->|Hne].
    + rewrite look_upd_same in Hn'. assert (HT' : T' = Qred (t + (T - t))) by congruence. rewrite HT'. clear HT' Hn'. split; [rewrite Qred_correct; lra|].
      assert (Hle : arg <= t + period).
      { rewrite Harg. assert (c * period <= 1 * period) by (apply Qmult_le_compat_r; assumption). lra. }
      apply ub_mono in Hle. rewrite Qred_correct. lra.
    + rewrite look_upd_other in Hn' by exact Hne. rewrite (ws_ev _ _ Hs) in Hn'.
      apply (Ht n' k' T' Hn'). intros Hi. apply Hnot, in_in_remove; assumption.
Qed.

Lemma tm_qsteps t ns st st' : qsteps cfg t ns st st' -> good (pw_reqs (fst st')) ->
  forall H, tmI t H (pw_ev (fst st)) -> tmI t (holes_after ns H) (pw_ev (fst st')).
Proof.
  induction 1 as [st|o st1 st2 st3 ns Hq Hs IH]; intros Hg H Ht; [exact Ht|].
  destruct (proj1 (proj2 (proj2 (proj2 (proj2 (qsteps_keeps _ _ _ _ _ Hs)))))) as [l Hl].
  assert (Hg2 : good (pw_reqs (fst st2))) by (rewrite Hl in Hg; eapply good_app; exact Hg).
  replace (holes_after (ocons o ns) H) with (holes_after ns (holes_after (ocons o []) H)) by (destruct o; reflexivity).
  apply IH; [exact Hg|]. eapply tm_qstep; eassumption.
Qed.

Lemma tm_psteps t ns st st' : psteps cfg t ns st st' -> good (pw_reqs (fst st')) ->
  forall H, tmI t H (pw_ev (fst st)) -> tmI t (holes_after ns H) (pw_ev (fst st')).
Proof.
  induction 1 as [st|ns1 ns2 st1 st2 st3 Hp Hs IH]; intros Hg H Ht; [exact Ht|].
  destruct (proj1 (proj2 (proj2 (psteps_keeps _ _ _ _ _ Hs)))) as [l Hl].
  assert (Hg2 : good (pw_reqs (fst st2))) by (rewrite Hl in Hg; eapply good_app; exact Hg).
  rewrite holes_after_app. apply IH; [exact Hg|].
  destruct Hp as [ns0 sa sb Hq|w a bg bd]; [eapply tm_qsteps; eassumption|exact Ht].
Qed.

(* ------------------------------------------------------------------ the invariant at the points between events *)
Definition lastT (w : pworld) : Q := match pw_ftimes w with [] => 0 | t :: _ => t end.

(* newest first: each time is at least the one before it *)
Fixpoint desc (l : list Q) : Prop :=
  match l with
  | [] => True
  | a :: l' => match l' with [] => True | b :: _ => b <= a end /\ desc l'
  end.

Definition tap_of (p : Q * Z) : obs := OTap (fst p) 0 (NPost prog_fired) (EN (snd p)).

Record PInv (s : kst) : Prop := {
  pi_link : link [] (pw_ev (world s)) (pw_nposted (world s)) s;
  pi_dom : forall n, In n (pc_nodes cfg) -> ev_look (pw_ev (world s)) n <> None;
  pi_tm : tmI (lastT (world s)) [] (pw_ev (world s));
  pi_sorted : desc (pw_ftimes (world s));
  pi_len : length (pw_ftimes (world s)) = length (pw_fnodes (world s));
  pi_taps : taps (out s) = map tap_of (combine (pw_ftimes (world s)) (pw_fnodes (world s))) }.

Lemma PInv_ext s s' : world s' = world s -> queue s' = queue s -> ids s' = ids s -> nextid s' = nextid s ->
  taps (out s') = taps (out s) -> PInv s -> PInv s'.
Proof.
  intros E1 E2 E3 E4 E5 [A1 A2 A3 A4 A5 A6]. split; rewrite ?E1, ?E5; try assumption.
  eapply link_ext; eassumption.
Qed.

Lemma link_discard_dead m np (s s' : kst) f : queue s' = discard_dead f (queue s) -> ids s' = ids s -> nextid s' = nextid s ->
  link [] m np s -> link [] m np s'.
Proof.
  intros E1 E2 E3 [A1 A2 A3 A4 A5 A6 A7]. split; rewrite ?E1, ?E2, ?E3; try assumption.
  - apply discard_dead_NoDup, A2.
  - intros x Hx. apply A3. eapply discard_dead_incl; exact Hx.
  - intros n k T Hn Hnot. destruct (A5 n k T Hn Hnot) as [Hk Hin]. split; [exact Hk|].
    apply discard_dead_keeps_live; [exact A2|exact Hin|reflexivity].
  - intros n k T [].
  - intros x Hx Hl. apply A7; [eapply discard_dead_incl; exact Hx|exact Hl].
Qed.

Lemma PInv_discard s : PInv s -> PInv (discard s).
Proof.
  intros [A1 A2 A3 A4 A5 A6]. split; cbn [world discard set_queue out]; try assumption.
  eapply link_discard_dead; [| | |exact A1]; reflexivity.
Qed.

End Time.

(* ------------------------------------------------------------------ one event, set-up, and the two scheduler loops *)
Lemma do_action_world p t e a (s : kst) : world (do_action p t e a s) = world s.
Proof.
  destruct a; cbn [do_action]; try reflexivity; unfold post; try (destruct (Qltb _ _); reflexivity).
  - destruct (ids s); [reflexivity|]. destruct (find_live _ _); reflexivity.
  - destruct (ids s); reflexivity.
Qed.
Lemma run_actions_world p t e acts (s : kst) : world (run_actions p t e acts s) = world s.
Proof.
  unfold run_actions. revert s. induction acts as [|a acts IH]; intros s; cbn [fold_left]; [reflexivity|].
  rewrite IH. apply do_action_world.
Qed.

Section Run.
Variable cfg : pcfg.
Variable ub : Q -> Q.
Hypothesis ub_mono : forall x y, x <= y -> ub x <= ub y.
Hypothesis period_nonneg : 0 <= pc_period cfg.
Variable oracle : list (rkind * Q).
Variable orders : list (list Z).
Notation tb := (pulse_table cfg oracle orders).
Notation period := (pc_period cfg).

Lemma prog_of_pulse k : prog_of tb k = match k with O => fired_prog cfg | _ => static [] end.
Proof. destruct k as [|[|k]]; reflexivity. Qed.

Lemma prog_of_fired : prog_of tb prog_fired = fired_prog cfg.
Proof. reflexivity. Qed.

Lemma fired_prog_reqs t e l w : exists lr, pw_reqs (fst (fired_prog cfg t e l w)) = lr ++ pw_reqs w.
Proof.
  destruct e as [n|a b]; [|exists []; reflexivity].
  destruct (fired_prog cfg t (EN n) l w) as [w' acts] eqn:E.
  destruct (fired_prog_spec cfg t n l w w' acts E) as [w1 [a1 [ns [acts0 [_ [P1 [P2 _]]]]]]].
  destruct (proj1 (proj2 (proj2 (psteps_keeps _ _ _ _ _ P1)))) as [l1 H1].
  destruct (proj1 (proj2 (proj2 (psteps_keeps _ _ _ _ _ P2)))) as [l2 H2].
  cbn [fst snd pw_reqs add_log] in *. exists (l2 ++ l1). rewrite H2, H1, app_assoc. reflexivity.
Qed.

Lemma pend_step_reqs h (s0 : kst) : exists lr, pw_reqs (world (pend_step tb h s0)) = lr ++ pw_reqs (world s0).
Proof.
  unfold pend_step, fire. cbn [world emit].
  set (s1 := emit _ (set_clock _ _)).
  assert (H : exists lr, pw_reqs (world (run_prog tb (e_proc h) (e_prog h) (e_time h) (e_elem h) s1)) = lr ++ pw_reqs (world s0)).
  { unfold run_prog. rewrite prog_of_pulse. destruct (e_prog h) as [|k].
    - pose proof (fired_prog_reqs (e_time h) (e_elem h) (loci s1) (world s1)) as [lr Hlr].
      destruct (fired_prog cfg (e_time h) (e_elem h) (loci s1) (world s1)) as [w' acts].
      rewrite run_actions_world. cbn [world set_world fst] in *. exists lr. exact Hlr.
    - cbn [static]. rewrite run_actions_world. exists []. reflexivity. }
  destruct (e_rep h) as [ddt|]; [|exact H].
  unfold post. destruct (Qltb _ _); cbn [world emit]; exact H.
Qed.

(* the world after an event is the one its event function returns *)
Lemma pend_step_world h (s0 : kst) : e_prog h = prog_fired ->
  world (pend_step tb h s0) = fst (fired_prog cfg (e_time h) (e_elem h) (loci s0) (world s0)).
Proof.
  intros Hp. unfold pend_step, fire. cbn [world emit].
  set (s1 := emit _ (set_clock _ _)).
  assert (H : world (run_prog tb (e_proc h) (e_prog h) (e_time h) (e_elem h) s1)
              = fst (fired_prog cfg (e_time h) (e_elem h) (loci s0) (world s0))).
  { unfold run_prog. rewrite Hp, prog_of_fired. change (loci s1) with (loci s0). change (world s1) with (world s0).
    destruct (fired_prog cfg (e_time h) (e_elem h) (loci s0) (world s0)) as [w' acts].
    rewrite run_actions_world. reflexivity. }
  destruct (e_rep h) as [ddt|]; [|exact H].
  unfold post. destruct (Qltb _ _); cbn [world emit]; exact H.
Qed.

(* what one firing does *)
Record fired_at (s0 s' : kst) (n : Z) (T : Q) : Prop := {
  fa_ftimes : pw_ftimes (world s') = T :: pw_ftimes (world s0);
  fa_fnodes : pw_fnodes (world s') = n :: pw_fnodes (world s0);
  fa_clock : clock s' = T;
  fa_tap : out s' = OTap T 0 (NPost prog_fired) (EN n) :: tl (out s');
  (* the node is rescheduled at the oracle's rounding of T + clamp(round(1 - 0)) * period *)
  fa_refire : exists r Tn k, In (mkreq RN T (Qred (1 - 0)) r) (pw_reqs (world s'))
      /\ In (mkreq RT T (Qred (T + clamp01 r * period)) Tn) (pw_reqs (world s'))
      /\ ev_look (pw_ev (world s')) n = Some (k, Qred (T + (Tn - T))) }.

Lemma head_is_fentry (s0 : kst) h : PInv cfg ub s0 -> In h (queue s0) -> e_live h = true ->
  exists n k T, ev_look (pw_ev (world s0)) n = Some (k, T) /\ h = fentry T (nth k (ids s0) 0%nat) n.
Proof.
  intros P Hin Hl. destruct (lk_bwd _ _ _ _ (pi_link _ _ _ P) h Hin Hl) as [n [k [T [A [_ C]]]]].
  exists n, k, T. split; assumption.
Qed.

Lemma pend_step_PInv (s0 : kst) h : PInv cfg ub s0 -> head (queue s0) = Some h -> e_live h = true ->
  good ub (pw_reqs (world (pend_step tb h s0))) ->
  PInv cfg ub (pend_step tb h s0) /\ exists n, e_elem h = EN n /\ fired_at s0 (pend_step tb h s0) n (e_time h).
Proof.
  intros P Hh Hl Hg.
  pose proof (head_in _ _ Hh) as Hin.
  destruct (head_is_fentry s0 h P Hin Hl) as [n [k [T [En Eh]]]].
  pose proof (pi_link _ _ _ P) as L.
  set (w := world s0) in *.
  (* the state in which the event function runs *)
  unfold pend_step, fire in *. rewrite Eh in *. cbn [e_time e_id e_proc e_prog e_elem e_rep fentry mk_entry trec] in *.
  set (i := nth k (ids s0) 0%nat) in *.
  set (s1 := emit (OHandler prog_fired T (clock (set_clock T (set_queue (remove_id i (queue s0)) s0))) (EN n) None)
                  (set_clock T (set_queue (remove_id i (queue s0)) s0))) in *.
  assert (L1 : link [n] (pw_ev w) (pw_nposted w) s1).
  { destruct L as [A1 A2 A3 A4 A5 A6 A7]. split; cbn [queue ids nextid s1 emit set_clock set_queue]; try assumption.
    - apply remove_id_NoDup, A2.
    - intros x Hx. apply A3. eapply remove_id_incl; exact Hx.
    - intros n' k' T' Hn' Hnot.
      assert (Hne : n' <> n) by (intros ->; apply Hnot; left; reflexivity).
      destruct (A5 n' k' T' Hn' (fun x => x)) as [Hk' Hin']. split; [exact Hk'|].
      apply remove_id_keeps; [exact Hin'|]. cbn [e_id fentry mk_entry]. intros E.
      assert (fentry T' (nth k' (ids s0) 0%nat) n' = fentry T i n).
      { apply (NoDup_id_inj (queue s0)); [exact A2|exact Hin'|exact Hin|exact E]. }
      apply Hne. unfold fentry, mk_entry in *. congruence.
    - intros n' k' T' [<-|[]] Hn'. fold w in En. rewrite En in Hn'. assert (k' = k) by congruence. subst k'.
      split; [exact (proj1 (A5 n k T En (fun x => x)))|].
      intros x Hx Ex. exfalso. apply (remove_id_gone i (queue s0) A2). apply in_map_iff. exists x. split; [exact Ex|exact Hx].
    - intros x Hx Hlx. pose proof (remove_id_incl _ _ _ Hx) as Hx0.
      destruct (A7 x Hx0 Hlx) as [n' [k' [T' [A [_ C]]]]]. exists n', k', T'. split; [exact A|]. split; [|exact C].
      intros [<-|[]]. fold w in En. rewrite En in A. assert (k' = k /\ T' = T) as [-> ->] by (split; congruence).
      apply (remove_id_gone i (queue s0) A2). apply in_map_iff. exists x. split; [rewrite C; reflexivity|exact Hx]. }
  unfold run_prog in *. rewrite prog_of_fired in *.
  change (world s1) with w in *.
  destruct (fired_prog cfg T (EN n) (loci s1) w) as [w' acts] eqn:EF. cbn beta iota in Hg |- *.
  destruct (fired_prog_spec cfg T n _ w w' acts EF) as [w1 [a1 [ns [acts0 [EFN [P1 [P2 [Nn ->]]]]]]]].
  set (sA := set_world w' s1) in *.
  rewrite run_actions_app in *.
  assert (HW : world (run_actions 0 T (EN n) (probe cfg w') (run_actions 0 T (EN n) acts0 sA)) = w')
    by (rewrite !run_actions_world; reflexivity).
  cbn [world emit] in Hg. rewrite HW in Hg.
  (* the requests of the two segments are among the final ones *)
  destruct (proj1 (proj2 (proj2 (psteps_keeps _ _ _ _ _ P2)))) as [l2 Hl2]. cbn [fst pw_reqs add_log] in Hl2.
  assert (Hg1 : good ub (pw_reqs w1)) by (rewrite Hl2 in Hg; eapply good_app; exact Hg).
  (* first segment: the firing node gets its new event *)
  destruct (sim_psteps cfg T (EN n) [n] (w, []) (w1, a1) P1 sA [n]) as [L2 [C2 [O2 _]]].
  { cbn [fst snd run_actions fold_left]. eapply link_ext; [| | |exact L1]; reflexivity. }
  { cbn. lra. }
  { cbn [fst]. apply (good_good_lo ub), Hg1. }
  cbn [fst snd] in L2, C2, O2.
  assert (Hh1 : holes_after [n] [n] = []) by (cbn; destruct (Z.eq_dec n n); [reflexivity|contradiction]).
  rewrite Hh1 in L2.
  (* second segment *)
  destruct (sim_psteps cfg T (EN n) ns (add_log T n w1, a1) (w', acts0) P2 sA []) as [L3 [C3 [O3 _]]].
  { cbn [fst snd pw_ev pw_nposted add_log]. exact L2. }
  { cbn [fst snd]. rewrite C2. cbn. lra. }
  { cbn [fst]. apply (good_good_lo ub), Hg. }
  cbn [fst snd] in L3, C3, O3. rewrite holes_after_nil in L3.
  (* the probe *)
  destruct (run_queries 0 T (EN n) (probe cfg w') (run_actions 0 T (EN n) acts0 sA) (probe_queries cfg w'))
    as [Q1 [Q2 [Q3 [Q4 [Q5 Q6]]]]].
  set (sF := run_actions 0 T (EN n) (probe cfg w') (run_actions 0 T (EN n) acts0 sA)) in *.
  (* world-level facts *)
  destruct (psteps_keeps _ _ _ _ _ P1) as [F1 [N1 [_ [_ [_ [D1 _]]]]]].
  destruct (psteps_keeps _ _ _ _ _ P2) as [F2 [N2 [_ [_ [K2 [D2 _]]]]]].
  cbn [fst snd pw_ftimes pw_fnodes add_log] in F1, N1, F2, N2.
  assert (HT0 : lastT w <= T) by (apply (pi_tm _ _ _ P n k T En); intros []).
  split.
  - split; cbn [world emit out]; rewrite ?HW.
    + eapply link_ext; [| | |exact L3]; cbn [queue ids nextid emit]; assumption.
    + intros m Hm. rewrite <- ev_of_look. apply D2. cbn [fst]. rewrite ev_of_look. cbn [pw_ev add_log].
      rewrite <- ev_of_look. apply (D1 m). cbn [fst]. rewrite ev_of_look. apply (pi_dom _ _ _ P), Hm.
    + assert (Hl' : lastT w' = T) by (unfold lastT; rewrite F2; reflexivity). rewrite Hl'.
      assert (T0 : tmI cfg ub T [n] (pw_ev w)).
      { intros n' k' T' Hn' Hnot.
        destruct (pi_tm _ _ _ P n' k' T' Hn' (fun x => x)) as [_ Hhi].
        destruct (lk_fwd _ _ _ _ L n' k' T' Hn' (fun x => x)) as [_ Hin'].
        pose proof (notbefore_time_le _ _ (head_min _ _ Hh _ Hin')) as Hle. cbn [e_time fentry mk_entry] in Hle.
        split; [exact Hle|]. assert (Hm : lastT w + period <= T + period) by lra. apply ub_mono in Hm. fold w in Hhi. eapply Qle_trans; [exact Hhi|exact Hm]. }
      pose proof (tm_psteps cfg ub ub_mono period_nonneg T [n] (w, []) (w1, a1) P1 Hg1 [n] T0) as T1.
      rewrite Hh1 in T1. cbn [fst] in T1.
      pose proof (tm_psteps cfg ub ub_mono period_nonneg T ns (add_log T n w1, a1) (w', acts0) P2 Hg [] T1) as T2.
      rewrite holes_after_nil in T2. exact T2.
    + rewrite F2, F1. cbn [desc]. split; [|exact (pi_sorted _ _ _ P)].
      unfold lastT in HT0. fold w. destruct (pw_ftimes w); [exact I|exact HT0].
    + rewrite F2, N2, F1, N1. cbn [length]. f_equal. exact (pi_len _ _ _ P).
    + cbn [taps filter is_tap trec fentry mk_entry e_time e_proc e_prog e_elem]. fold (taps (out sF)). rewrite Q5, O3, O2.
      cbn [run_actions fold_left]. unfold sA, s1. cbn [out set_world emit set_clock set_queue taps filter is_tap]. fold (taps (out s0)).
      rewrite (pi_taps _ _ _ P), F2, N2, F1, N1. reflexivity.
  - exists n. split; [reflexivity|]. split; cbn [world emit out clock tl]; rewrite ?HW.
    + rewrite F2, F1. reflexivity.
    + rewrite N2, N1. reflexivity.
    + rewrite Q4, C3, C2. reflexivity.
    + reflexivity.
    + destruct (fire_node_spec cfg T n (set_sets [] [] w) []) as [r [w2 [Tn [w3 [A1 [A2 A3]]]]]].
      rewrite <- EFN in A3. cbn [fst] in A3.
      exists r, Tn, (pw_nposted w3).
      assert (Hsub : forall q, In q (pw_reqs w1) -> In q (pw_reqs w')).
      { intros q Hq. rewrite Hl2. apply in_or_app. right. exact Hq. }
      assert (Hw1 : pw_reqs w1 = pw_reqs w3).
      { pose proof (f_equal fst EFN) as Ew1. cbn [fst] in Ew1. rewrite Ew1.
        unfold fire_node, set_phase, normalise_phase, set_firing_time. cbn [fst snd]. rewrite A1. cbn [fst snd].
        change (Qred (1 - 0)) with (Qred (1 - 0)). rewrite A2. reflexivity. }
      split; [|split].
      * apply Hsub. rewrite Hw1, (ask_reqs _ _ _ _ _ _ A2). right. rewrite (ask_reqs _ _ _ _ _ _ A1). left. reflexivity.
      * apply Hsub. rewrite Hw1, (ask_reqs _ _ _ _ _ _ A2). left. reflexivity.
      * pose proof (K2 n Nn) as K2n. cbn [fst] in K2n. rewrite <- ev_of_look, K2n. rewrite ev_of_look. cbn [pw_ev add_log]. rewrite <- ev_of_look. exact A3.
Qed.

End Run.
