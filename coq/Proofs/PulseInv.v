(* The scheduling invariant of the pulse-coupled oscillator process over the kernel model:
   the user state's event map is exactly the set of live queue entries (C20_one_pending), through
   set-up, every event, and both scheduler loops. *)
From Coq Require Import List ZArith QArith Qabs Bool Arith Lia Lqa.
From EpyV Require Import Lib.Prelude Model.Kernel Model.Pulse Proofs.KernelBase Proofs.PulseBase.
Import ListNotations.
Open Scope Q_scope.

Notation kst := (st pworld).

Definition is_tap (x : obs) : bool := match x with OTap _ _ _ _ => true | _ => false end.
Definition taps (o : list obs) : list obs := filter is_tap o.

(* the live queue entry of node n's firing at time T with id i *)
Definition fentry (T : Q) (i : nat) (n : Z) : entry := mk_entry T i 0 (EN n) prog_fired None.

(* [link H m np s]: the event map m (with np posts made) describes the live entries of the queue of s,
   except for the nodes in H, whose recorded event is no longer live (it has fired or been un-posted) *)
Record link (H : list Z) (m : list (Z * (nat * Q))) (np : nat) (s : kst) : Prop := {
  lk_len : length (ids s) = np;
  lk_nodup : NoDup (map e_id (queue s));
  lk_qlt : forall x, In x (queue s) -> (e_id x < nextid s)%nat;
  lk_ilt : forall i, In i (ids s) -> (i < nextid s)%nat;
  lk_fwd : forall n k T, ev_look m n = Some (k, T) -> ~ In n H ->
     (k < np)%nat /\ In (fentry T (nth k (ids s) 0%nat) n) (queue s);
  lk_hole : forall n k T, In n H -> ev_look m n = Some (k, T) ->
     (k < np)%nat /\ forall x, In x (queue s) -> e_id x = nth k (ids s) 0%nat -> e_live x = false;
  lk_bwd : forall x, In x (queue s) -> e_live x = true ->
     exists n k T, ev_look m n = Some (k, T) /\ ~ In n H /\ x = fentry T (nth k (ids s) 0%nat) n }.

(* link only looks at the queue, the ids and the id counter *)
Lemma link_ext H m np s s' : queue s' = queue s -> ids s' = ids s -> nextid s' = nextid s -> link H m np s -> link H m np s'.
Proof. intros E1 E2 E3 [A1 A2 A3 A4 A5 A6 A7]. split; rewrite ?E1, ?E2, ?E3; assumption. Qed.

(* ------------------------------------------------------------------ un-posting a node's recorded event *)
Lemma link_unpost H m np s t e n k T : link H m np s -> ev_look m n = Some (k, T) ->
  let s' := do_action 0 t e (AUnpost k false) s in
  link (n :: H) m np s' /\ clock s' = clock s /\ taps (out s') = taps (out s) /\ world s' = world s.
Proof.
  intros L Hn. cbn [do_action].
  assert (Hk : (k < length (ids s))%nat).
  { destruct (in_dec Z.eq_dec n H) as [Hin|Hin].
    - rewrite (lk_len _ _ _ _ L). exact (proj1 (lk_hole _ _ _ _ L n k T Hin Hn)).
    - rewrite (lk_len _ _ _ _ L). exact (proj1 (lk_fwd _ _ _ _ L n k T Hn Hin)). }
  destruct (ids s) as [|i0 l0] eqn:Eids; [cbn in Hk; lia|]. rewrite <- Eids in *.
  rewrite Nat.mod_small by exact Hk.
  set (i := nth k (ids s) 0%nat).
  destruct (find_live i (queue s)) as [x|] eqn:Ef.
  - (* the event was live: n was not in H *)
    apply find_live_some in Ef. destruct Ef as [Hx [Hid Hl]].
    assert (Hin : ~ In n H).
    { intros Hin. destruct (lk_hole _ _ _ _ L n k T Hin Hn) as [_ Hd]. rewrite (Hd x Hx Hid) in Hl. discriminate. }
    split; [|repeat split; reflexivity]. split; cbn [queue ids nextid emit set_queue].
    + exact (lk_len _ _ _ _ L).
    + rewrite kill_ids. exact (lk_nodup _ _ _ _ L).
    + intros y Hy. apply kill_in in Hy. destruct Hy as [[Hy _]|[z [Hz [_ ->]]]]; [exact (lk_qlt _ _ _ _ L _ Hy)|exact (lk_qlt _ _ _ _ L z Hz)].
    + exact (lk_ilt _ _ _ _ L).
    + intros n' k' T' Hn' Hnot.
      assert (Hne : n' <> n) by (intros ->; apply Hnot; left; reflexivity).
      assert (Hnot' : ~ In n' H) by (intros Hi; apply Hnot; right; exact Hi).
      destruct (lk_fwd _ _ _ _ L n' k' T' Hn' Hnot') as [Hk' Hin']. split; [exact Hk'|].
      apply kill_keeps; [exact Hin'|]. cbn [e_id fentry mk_entry]. intros E.
      (* two different nodes cannot share an id *)
      destruct (lk_fwd _ _ _ _ L n k T Hn Hin) as [_ Hin0].
      assert (fentry T' (nth k' (ids s) 0%nat) n' = fentry T i n).
      { apply (NoDup_id_inj (queue s)); [exact (lk_nodup _ _ _ _ L)|exact Hin'|exact Hin0|exact E]. }
      apply Hne. unfold fentry, mk_entry in *. congruence.
    + intros n' k' T' [<-|Hin'] Hn'.
      * rewrite Hn in Hn'. injection Hn' as <- <-. split; [exact (proj1 (lk_fwd _ _ _ _ L n k T Hn Hin))|].
        intros y Hy Ey. apply kill_in in Hy. destruct Hy as [[_ Hne]|[z [_ [_ ->]]]]; [contradiction|reflexivity].
      * destruct (lk_hole _ _ _ _ L n' k' T' Hin' Hn') as [Hk' Hd]. split; [exact Hk'|].
        intros y Hy Ey. apply kill_in in Hy. destruct Hy as [[Hy _]|[z [_ [_ ->]]]]; [apply Hd; assumption|reflexivity].
    + intros y Hy Hly. apply kill_live_in in Hy; [|exact Hly]. destruct Hy as [Hy Hne].
      destruct (lk_bwd _ _ _ _ L y Hy Hly) as [n' [k' [T' [A [B C]]]]]. exists n', k', T'. repeat split; try assumption.
      intros [<-|Hi]; [|exact (B Hi)]. rewrite Hn in A. injection A as <- <-. apply Hne. rewrite C. reflexivity.
  - (* nothing live under that id: the queue is unchanged *)
    split; [|repeat split; reflexivity].
    pose proof (proj1 (find_live_none i (queue s)) Ef) as Hd.
    destruct L as [A1 A2 A3 A4 A5 A6 A7]. split; cbn [queue ids nextid emit]; try assumption.
    + intros n' k' T' Hn' Hnot. apply A5; [exact Hn'|]. intros Hi. apply Hnot. right. exact Hi.
    + intros n' k' T' [<-|Hin'] Hn'; [|exact (A6 n' k' T' Hin' Hn')].
      rewrite Hn in Hn'. injection Hn' as <- <-. split; [rewrite <- A1; exact Hk|exact Hd].
    + intros y Hy Hly. destruct (A7 y Hy Hly) as [n' [k' [T' [A [B C]]]]]. exists n', k', T'. repeat split; try assumption.
      intros [<-|Hi]; [|exact (B Hi)]. rewrite Hn in A. injection A as <- <-.
      rewrite (Hd y Hy) in Hly; [discriminate|]. rewrite C. reflexivity.
Qed.

(* ------------------------------------------------------------------ posting a node's next firing *)
Lemma nth_app_old {A} (l : list A) a d k : (k < length l)%nat -> nth k (l ++ [a]) d = nth k l d.
Proof. intros H. apply app_nth1. exact H. Qed.

Lemma link_post H m np s t e n dt : link H m np s -> In n H \/ ev_look m n = None ->
  clock s <= Qred (t + dt) ->
  let s' := do_action 0 t e (APostOn (EN n) dt prog_fired) s in
  link (remove Z.eq_dec n H) (upd_ev n (np, Qred (t + dt)) m) (S np) s'
  /\ clock s' = clock s /\ taps (out s') = taps (out s) /\ world s' = world s.
Proof.
  intros L Hn Hc. cbn [do_action]. unfold post.
  assert (E : Qltb (Qred (t + dt)) (clock s) = false) by (apply Qltb_false; exact Hc). rewrite E.
  split; [|repeat split; reflexivity].
  destruct L as [A1 A2 A3 A4 A5 A6 A7].
  assert (Hfresh : forall x, In x (queue s) -> e_id x <> nextid s) by (intros x Hx; specialize (A3 x Hx); lia).
  split; cbn [queue ids nextid emit push_id map e_id].
  - rewrite app_length, A1. cbn. lia.
  - constructor; [|exact A2]. intros Hin. apply in_map_iff in Hin. destruct Hin as [x [Ex Hx]]. exact (Hfresh x Hx Ex).
  - intros x [<-|Hx]; [cbn; lia|]. specialize (A3 x Hx). lia.
  - intros i Hi. apply in_app_or in Hi. destruct Hi as [Hi|[<-|[]]]; [specialize (A4 i Hi)|]; lia.
  - intros n' k' T' Hn' Hnot. destruct (Z.eq_dec n' n) as [->|Hne].
    + rewrite look_upd_same in Hn'. injection Hn' as <- <-. split; [lia|]. left.
      rewrite <- A1, nth_middle. reflexivity.
    + rewrite look_upd_other in Hn' by exact Hne.
      assert (Hnot' : ~ In n' H) by (intros Hi; apply Hnot, in_in_remove; assumption).
      destruct (A5 n' k' T' Hn' Hnot') as [Hk Hin]. split; [lia|]. right.
      rewrite nth_app_old by (rewrite A1; exact Hk). exact Hin.
  - intros n' k' T' Hin' Hn'. apply in_remove in Hin'. destruct Hin' as [Hin' Hne].
    rewrite look_upd_other in Hn' by exact Hne.
    destruct (A6 n' k' T' Hin' Hn') as [Hk Hd]. split; [lia|].
    rewrite nth_app_old by (rewrite A1; exact Hk).
    intros x [<-|Hx] Ex; [|apply Hd; assumption].
    cbn [e_id] in Ex. exfalso.
    assert (Hi : In (nth k' (ids s) 0%nat) (ids s)) by (apply nth_In; rewrite A1; exact Hk).
    specialize (A4 _ Hi). lia.
  - intros x [<-|Hx] Hl.
    + exists n, np, (Qred (t + dt)). rewrite look_upd_same. split; [reflexivity|]. split; [apply remove_In|].
      rewrite <- A1, nth_middle. reflexivity.
    + destruct (A7 x Hx Hl) as [n' [k' [T' [A [B C]]]]].
      assert (Hne : n' <> n).
      { intros ->. destruct Hn as [Hn|Hn]; [exact (B Hn)|congruence]. }
      exists n', k', T'. rewrite look_upd_other by exact Hne. split; [exact A|]. split.
      * intros Hi. apply in_remove in Hi. exact (B (proj1 Hi)).
      * rewrite nth_app_old; [exact C|].
        destruct (A5 n' k' T' A B) as [Hk _]. rewrite A1. exact Hk.
Qed.

(* ------------------------------------------------------------------ setFiringTime as the two together *)
Lemma run_actions_app p t e a b (s : kst) : run_actions p t e (a ++ b) s = run_actions p t e b (run_actions p t e a s).
Proof. unfold run_actions. apply fold_left_app. Qed.

Lemma remove_cons_same n H : remove Z.eq_dec n (n :: H) = remove Z.eq_dec n H.
Proof. cbn. destruct (Z.eq_dec n n); [reflexivity|contradiction]. Qed.

Lemma link_sft H w s t e n T : link H (pw_ev w) (pw_nposted w) s -> clock s <= t -> t <= T ->
  let s' := run_actions 0 t e (unpost_of w n ++ [APostOn (EN n) (T - t) prog_fired]) s in
  link (remove Z.eq_dec n H) (pw_ev (set_ev n (pw_nposted w, Qred (t + (T - t))) w)) (pw_nposted (set_ev n (pw_nposted w, Qred (t + (T - t))) w)) s'
  /\ clock s' = clock s /\ taps (out s') = taps (out s) /\ world s' = world s.
Proof.
  intros L Hc HT. rewrite set_ev_ev. cbn [pw_nposted set_ev].
  assert (Hq : forall c, c <= t -> c <= Qred (t + (T - t))) by (intros c Hcc; rewrite Qred_correct; lra).
  unfold unpost_of. rewrite ev_of_look. destruct (ev_look (pw_ev w) n) as [[k T0]|] eqn:En.
  - cbn [app run_actions fold_left].
    destruct (link_unpost H _ _ s t e n k T0 L En) as [L1 [C1 [O1 W1]]].
    set (s1 := do_action 0 t e (AUnpost k false) s) in *.
    destruct (link_post (n :: H) _ _ s1 t e n (T - t) L1 (or_introl (or_introl eq_refl))) as [L2 [C2 [O2 W2]]].
    { rewrite C1. apply Hq, Hc. }
    rewrite remove_cons_same in L2. split; [exact L2|]. split; [congruence|]. split; congruence.
  - cbn [app run_actions fold_left].
    destruct (link_post H _ _ s t e n (T - t) L (or_intror En)) as [L2 [C2 [O2 W2]]]; [apply Hq, Hc|].
    split; [exact L2|]. split; [exact C2|]. split; assumption.
Qed.

(* probes only add OQuery records *)
Lemma run_queries p t e acts (s : kst) : Forall (fun a => exists k, a = AQuery k) acts ->
  let s' := run_actions p t e acts s in
  queue s' = queue s /\ ids s' = ids s /\ nextid s' = nextid s /\ clock s' = clock s /\ taps (out s') = taps (out s) /\ world s' = world s.
Proof.
  unfold run_actions. cbn zeta.
  revert s. induction acts as [|a acts IH]; intros s Hf; cbn [fold_left]; [repeat split; reflexivity|].
  inversion Hf as [|? ? [k ->] Hf']; subst.
  destruct (IH (do_action p t e (AQuery k) s) Hf') as [A1 [A2 [A3 [A4 [A5 A6]]]]].
  rewrite A1, A2, A3, A4, A5, A6. cbn [do_action].
  destruct (ids s); repeat split; reflexivity.
Qed.

Section Sim.
Variable cfg : pcfg.

(* requests for a posting time are answered with a time that is not in the caller's past *)
Definition req_lo (r : req) : Prop := rq_kind r = RT -> rq_t r <= rq_ans r.
Definition good_lo (l : list req) : Prop := forall r, In r l -> req_lo r.

Lemma good_lo_app l1 l2 : good_lo (l1 ++ l2) -> good_lo l2.
Proof. intros H r Hr. apply H, in_or_app. right. exact Hr. Qed.

Definition holes_after (ns : list Z) (H : list Z) : list Z := fold_left (fun H n => remove Z.eq_dec n H) ns H.

Lemma holes_after_nil ns : holes_after ns [] = [].
Proof. induction ns as [|n ns IH]; cbn; [reflexivity|exact IH]. Qed.
Lemma holes_after_app a b H : holes_after (a ++ b) H = holes_after b (holes_after a H).
Proof. apply fold_left_app. Qed.

Definition simres (t : Q) (e : elem) (ns : list Z) (st st' : pstate) : Prop :=
  forall (s0 : kst) H,
    let s := run_actions 0 t e (snd st) s0 in
    link H (pw_ev (fst st)) (pw_nposted (fst st)) s -> clock s <= t -> good_lo (pw_reqs (fst st')) ->
    let s' := run_actions 0 t e (snd st') s0 in
    link (holes_after ns H) (pw_ev (fst st')) (pw_nposted (fst st')) s'
    /\ clock s' = clock s /\ taps (out s') = taps (out s) /\ world s' = world s.

Lemma sim_qstep t e o st st' : qstep cfg t o st st' -> simres t e (ocons o []) st st'.
Proof.
  intros [w w' a Hs|w a n arg c T w1 E H0 H1 Harg] s0 H; cbn [fst snd ocons holes_after fold_left]; intros L Hc Hg.
  - rewrite (ws_ev _ _ Hs), (ws_np _ _ Hs). split; [exact L|repeat split; reflexivity].
  - rewrite run_actions_app.
    pose proof (ask_wsame _ _ _ _ _ _ E) as Hs. pose proof (ask_reqs _ _ _ _ _ _ E) as Hr.
    assert (HT : t <= T).
    { apply (Hg (mkreq RT t arg T)); [|reflexivity]. cbn [pw_reqs set_ev]. rewrite Hr. left. reflexivity. }
    rewrite <- (ws_ev _ _ Hs), <- (ws_np _ _ Hs) in L.
    apply (link_sft H w1 _ t e n T L Hc HT).
Qed.

Lemma sim_qsteps t e ns st st' : qsteps cfg t ns st st' -> simres t e ns st st'.
Proof.
  induction 1 as [st|o st1 st2 st3 ns Hq Hs IH]; intros s0 H; cbn zeta; intros L Hc Hg.
  - split; [exact L|repeat split; reflexivity].
  - destruct (proj1 (proj2 (proj2 (proj2 (proj2 (qsteps_keeps _ _ _ _ _ Hs))))) ) as [l Hl].
    assert (Hg2 : good_lo (pw_reqs (fst st2))) by (rewrite Hl in Hg; eapply good_lo_app; exact Hg).
    destruct (sim_qstep t e o st1 st2 Hq s0 H L Hc Hg2) as [L2 [C2 [O2 W2]]].
    destruct (IH s0 _ L2) as [L3 [C3 [O3 W3]]]; [rewrite C2; exact Hc|exact Hg|].
    replace (holes_after (ocons o ns) H) with (holes_after ns (holes_after (ocons o []) H)) by (destruct o; reflexivity).
    split; [exact L3|]. split; [congruence|]. split; congruence.
Qed.

Lemma sim_psteps t e ns st st' : psteps cfg t ns st st' -> simres t e ns st st'.
Proof.
  induction 1 as [st|ns1 ns2 st1 st2 st3 Hp Hs IH]; intros s0 H; cbn zeta; intros L Hc Hg.
  - split; [exact L|repeat split; reflexivity].
  - destruct (proj1 (proj2 (proj2 (psteps_keeps _ _ _ _ _ Hs)))) as [l Hl].
    assert (Hg2 : good_lo (pw_reqs (fst st2))) by (rewrite Hl in Hg; eapply good_lo_app; exact Hg).
    assert (S12 : simres t e ns1 st1 st2).
    { destruct Hp as [ns0 sa sb Hq|w a bg bd]; [apply sim_qsteps, Hq|].
      intros s1 H1; cbn [fst snd holes_after fold_left]; intros L1 _ _. split; [exact L1|repeat split; reflexivity]. }
    destruct (S12 s0 H L Hc Hg2) as [L2 [C2 [O2 W2]]].
    destruct (IH s0 _ L2) as [L3 [C3 [O3 W3]]]; [rewrite C2; exact Hc|exact Hg|].
    rewrite holes_after_app. split; [exact L3|]. split; [congruence|]. split; congruence.
Qed.

End Sim.
