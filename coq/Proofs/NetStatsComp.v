(* The partition property of the component computation of Model/NetStats.v (C12, statistics clause):
   the final labels of [labels nodes es] identify exactly the connected components of the undirected
   graph (nodes, es), every label is the least node of its class, and [component_sizes nodes es] is the
   list of the sizes of the classes.  Part 1: the label invariant. *)
From Coq Require Import List ZArith Bool Arith Lia Permutation.
From EpyV Require Import Lib.Prelude Model.NetStats Proofs.NetStats.
Import ListNotations.
Open Scope nat_scope.

(* ------------------------------------------------------------------ connectivity
   the reflexive-symmetric-transitive closure of the edge relation.  For an edge list closed over
   [nodes] it never leaves [nodes] (connected_nodes), so on nodes it is the closure restricted to nodes. *)
Inductive connected (es : list edge) : Z -> Z -> Prop :=
| cn_refl x : connected es x x
| cn_edge e : In e es -> connected es (fst e) (snd e)
| cn_sym x y : connected es x y -> connected es y x
| cn_trans x y z : connected es x y -> connected es y z -> connected es x z.

Lemma connected_incl es es' : incl es es' -> forall x y, connected es x y -> connected es' x y.
Proof.
  intros H x y C. induction C as [x|e He|x y _ IH|x y z _ IH1 _ IH2].
  - apply cn_refl.
  - apply cn_edge, H, He.
  - apply cn_sym, IH.
  - eapply cn_trans; eassumption.
Qed.

Lemma connected_nil x y : connected [] x y -> x = y.
Proof.
  intros C. induction C as [x|e He|x y _ IH|x y z _ IH1 _ IH2].
  - reflexivity.
  - destruct He.
  - symmetry; exact IH.
  - rewrite IH1; exact IH2.
Qed.

Lemma connected_nodes nodes es : closed nodes es -> forall x y, connected es x y -> (In x nodes <-> In y nodes).
Proof.
  intros Hc x y C. induction C as [x|e He|x y _ IH|x y z _ IH1 _ IH2].
  - tauto.
  - destruct (Hc e He) as [H1 H2]. tauto.
  - tauto.
  - tauto.
Qed.

(* ------------------------------------------------------------------ label_of / relabel *)
Definition relabel_with (a b m : Z) (lab : list (Z * Z)) : list (Z * Z) :=
  map (fun x : Z * Z => if Z.eqb (snd x) a || Z.eqb (snd x) b then (fst x, m) else x) lab.

Lemma relabel_unfold lab e :
  relabel lab e = relabel_with (label_of lab (fst e)) (label_of lab (snd e))
                               (Z.min (label_of lab (fst e)) (label_of lab (snd e))) lab.
Proof. reflexivity. Qed.

Lemma relabel_with_fst a b m lab : map fst (relabel_with a b m lab) = map fst lab.
Proof.
  unfold relabel_with. rewrite map_map. apply map_ext. intros [k v]. cbn [fst snd].
  destruct (Z.eqb v a || Z.eqb v b); reflexivity.
Qed.

Lemma label_of_cons k v lab n : label_of ((k, v) :: lab) n = if Z.eqb k n then v else label_of lab n.
Proof. unfold label_of. cbn [find fst]. destruct (Z.eqb k n); reflexivity. Qed.

Lemma label_of_id nodes x : label_of (map (fun n : Z => (n, n)) nodes) x = x.
Proof.
  induction nodes as [|n ns IH]; [reflexivity|]. cbn [map]. rewrite label_of_cons.
  destruct (Z.eqb_spec n x) as [E|_]; [exact E | exact IH].
Qed.

Lemma label_of_in lab n l : NoDup (map fst lab) -> In (n, l) lab -> label_of lab n = l.
Proof.
  induction lab as [|[k v] lab IH]; intros ND H; [destruct H|].
  cbn [map fst] in ND. inversion ND as [|? ? Hk ND']; subst. rewrite label_of_cons.
  destruct H as [H|H].
  - inversion H; subst. rewrite Z.eqb_refl. reflexivity.
  - destruct (Z.eqb_spec k n) as [->|_].
    + exfalso. apply Hk. apply in_map_iff. exists (n, l). split; [reflexivity | exact H].
    + apply IH; assumption.
Qed.

Lemma label_of_relabel_with a b m lab n : In n (map fst lab) ->
  label_of (relabel_with a b m lab) n =
  if Z.eqb (label_of lab n) a || Z.eqb (label_of lab n) b then m else label_of lab n.
Proof.
  induction lab as [|[k v] lab IH]; intros H; [destruct H|].
  change (relabel_with a b m ((k, v) :: lab))
    with ((if Z.eqb v a || Z.eqb v b then (k, m) else (k, v)) :: relabel_with a b m lab).
  rewrite (label_of_cons k v lab n).
  destruct (Z.eqb_spec k n) as [->|Hne].
  - destruct (Z.eqb v a || Z.eqb v b); rewrite label_of_cons, Z.eqb_refl; reflexivity.
  - destruct H as [H|H]; [cbn [fst] in H; congruence|].
    destruct (Z.eqb v a || Z.eqb v b); rewrite label_of_cons;
      (destruct (Z.eqb_spec k n) as [E|_]; [congruence|]); apply IH, H.
Qed.

(* ------------------------------------------------------------------ the invariant
   [P] is the list of the edges processed so far: the label classes are the classes of
   [connected P], and every label is a node of its own class, not larger than any node it labels. *)
Record Inv (nodes : list Z) (P : list edge) (lab : list (Z * Z)) : Prop := {
  inv_fst : map fst lab = nodes;
  inv_conn : forall x y, In x nodes -> In y nodes -> (label_of lab x = label_of lab y <-> connected P x y);
  inv_le : forall x, In x nodes -> (label_of lab x <= x)%Z;
  inv_in : forall x, In x nodes -> In (label_of lab x) nodes;
  inv_idem : forall x, In x nodes -> label_of lab (label_of lab x) = label_of lab x }.

Lemma Inv_init nodes : Inv nodes [] (map (fun n : Z => (n, n)) nodes).
Proof.
  constructor.
  - rewrite map_map. cbn [fst]. apply map_id.
  - intros x y _ _. rewrite !label_of_id. split; [intros ->; apply cn_refl | apply connected_nil].
  - intros x _. rewrite label_of_id. lia.
  - intros x Hx. rewrite label_of_id. exact Hx.
  - intros x _. rewrite !label_of_id. reflexivity.
Qed.

Lemma Inv_equiv nodes P P' lab : incl P P' -> incl P' P -> Inv nodes P lab -> Inv nodes P' lab.
Proof.
  intros H1 H2 I. constructor; try apply I.
  intros x y Hx Hy. rewrite (inv_conn _ _ _ I x y Hx Hy). split; apply connected_incl; assumption.
Qed.

Lemma Inv_relabel nodes P lab e : closed nodes (e :: P) -> Inv nodes P lab -> Inv nodes (e :: P) (relabel lab e).
Proof.
  intros Hc I. destruct (Hc e (or_introl eq_refl)) as [Hu Hv].
  pose (f := label_of lab). pose (a := f (fst e)). pose (b := f (snd e)). pose (m := Z.min a b).
  assert (F : forall x, In x nodes ->
            label_of (relabel lab e) x = if Z.eqb (f x) a || Z.eqb (f x) b then m else f x).
  { intros x Hx. rewrite relabel_unfold. apply label_of_relabel_with. rewrite (inv_fst _ _ _ I). exact Hx. }
  assert (Hm : m = a \/ m = b) by (unfold m; lia).
  assert (Ha : In a nodes) by (apply (inv_in _ _ _ I), Hu).
  assert (Hb : In b nodes) by (apply (inv_in _ _ _ I), Hv).
  assert (Ia : f a = a) by (apply (inv_idem _ _ _ I), Hu).
  assert (Ib : f b = b) by (apply (inv_idem _ _ _ I), Hv).
  assert (Hmn : In m nodes) by (destruct Hm as [-> | ->]; assumption).
  assert (Im : f m = m) by (destruct Hm as [-> | ->]; assumption).
  assert (Tm : Z.eqb m a || Z.eqb m b = true).
  { apply orb_true_iff. destruct Hm as [-> | ->]; [left | right]; apply Z.eqb_refl. }
  assert (Mono : forall p q, connected P p q -> connected (e :: P) p q).
  { apply connected_incl. intros z Hz. right. exact Hz. }
  assert (Euv : connected (e :: P) (fst e) (snd e)) by (apply cn_edge; left; reflexivity).
  assert (Cab : forall z, In z nodes -> Z.eqb (f z) a || Z.eqb (f z) b = true -> connected (e :: P) z (fst e)).
  { intros z Hz Hor. apply orb_true_iff in Hor. destruct Hor as [Hor|Hor]; apply Z.eqb_eq in Hor.
    - apply Mono, (inv_conn _ _ _ I z (fst e) Hz Hu). exact Hor.
    - eapply cn_trans; [apply Mono, (inv_conn _ _ _ I z (snd e) Hz Hv); exact Hor | apply cn_sym, Euv]. }
  assert (Nab : forall z, Z.eqb z a || Z.eqb z b = false -> m <> z).
  { intros z Hor. apply orb_false_iff in Hor. destruct Hor as [H1 H2].
    apply Z.eqb_neq in H1. apply Z.eqb_neq in H2. destruct Hm as [-> | ->]; congruence. }
  assert (G : forall x y, connected (e :: P) x y -> In x nodes ->
            label_of (relabel lab e) x = label_of (relabel lab e) y).
  { intros x y C. induction C as [x|e' He'|x y C IH|x y z C1 IH1 C2 IH2]; intros Hx.
    - reflexivity.
    - destruct (Hc e' He') as [_ Hy']. rewrite (F _ Hx), (F _ Hy'). destruct He' as [<-|He'].
      + fold a b. rewrite !Z.eqb_refl, orb_true_r. reflexivity.
      + assert (E : f (fst e') = f (snd e')).
        { apply (inv_conn _ _ _ I _ _ Hx Hy'). apply cn_edge, He'. }
        rewrite E. reflexivity.
    - symmetry. apply IH. apply (connected_nodes nodes (e :: P) Hc x y C). exact Hx.
    - rewrite (IH1 Hx). apply IH2. apply (connected_nodes nodes (e :: P) Hc x y C1). exact Hx. }
  constructor.
  - rewrite relabel_unfold, relabel_with_fst. apply I.
  - intros x y Hx Hy. split; [|intros C; apply G; assumption].
    rewrite (F x Hx), (F y Hy).
    destruct (Z.eqb (f x) a || Z.eqb (f x) b) eqn:Ex; destruct (Z.eqb (f y) a || Z.eqb (f y) b) eqn:Ey; intros E.
    + eapply cn_trans; [apply Cab; assumption | apply cn_sym, Cab; assumption].
    + exfalso. exact (Nab _ Ey E).
    + exfalso. symmetry in E. exact (Nab _ Ex E).
    + apply Mono, (inv_conn _ _ _ I x y Hx Hy). exact E.
  - intros x Hx. rewrite (F x Hx). assert (L := inv_le _ _ _ I x Hx). fold f in L.
    destruct (Z.eqb (f x) a || Z.eqb (f x) b) eqn:Ex; [|exact L].
    apply orb_true_iff in Ex. destruct Ex as [Ex|Ex]; apply Z.eqb_eq in Ex; unfold m; lia.
  - intros x Hx. rewrite (F x Hx).
    destruct (Z.eqb (f x) a || Z.eqb (f x) b); [exact Hmn | apply (inv_in _ _ _ I), Hx].
  - intros x Hx. rewrite (F x Hx).
    destruct (Z.eqb (f x) a || Z.eqb (f x) b) eqn:Ex.
    + rewrite (F m Hmn), Im, Tm. reflexivity.
    + rewrite (F (f x) (inv_in _ _ _ I x Hx)).
      assert (E : f (f x) = f x) by (apply (inv_idem _ _ _ I), Hx).
      rewrite E, Ex. reflexivity.
Qed.

Lemma closed_cons nodes e es : closed nodes (e :: es) -> closed nodes es.
Proof. intros H x Hx. apply H. right. exact Hx. Qed.

Lemma closed_app nodes es P : closed nodes es -> closed nodes P -> closed nodes (es ++ P).
Proof. intros H1 H2 x Hx. apply in_app_or in Hx. destruct Hx as [Hx|Hx]; [apply H1 | apply H2]; exact Hx. Qed.

(* one pass over the edge list *)
Lemma Inv_fold nodes es : closed nodes es -> forall P lab, closed nodes P -> Inv nodes P lab ->
  Inv nodes (rev es ++ P) (fold_left relabel es lab).
Proof.
  induction es as [|e es IH]; intros Hc P lab HP I; [exact I|].
  cbn [fold_left rev]. rewrite <- app_assoc. cbn [app].
  assert (HeP : closed nodes (e :: P)).
  { intros x [<-|Hx]; [apply Hc; left; reflexivity | apply HP, Hx]. }
  apply IH; [exact (closed_cons _ _ _ Hc) | exact HeP | apply Inv_relabel; assumption].
Qed.

(* any number of passes; with no pass at all the processed list must already be everything *)
Lemma Inv_passes nodes es k : closed nodes es -> forall P lab, Inv nodes P lab -> incl P es ->
  (k = 0 -> incl es P) -> Inv nodes es (passes k es lab).
Proof.
  intros Hc. induction k as [|k IH]; intros P lab I H1 H2.
  - cbn [passes]. apply (Inv_equiv nodes P es lab H1 (H2 eq_refl) I).
  - cbn [passes]. apply (IH (rev es ++ P)).
    + apply Inv_fold; [exact Hc | intros x Hx; apply Hc, H1, Hx | exact I].
    + intros x Hx. apply in_app_or in Hx. destruct Hx as [Hx|Hx]; [apply in_rev, Hx | apply H1, Hx].
    + intros _ x Hx. apply in_or_app. left. apply in_rev in Hx. exact Hx.
Qed.

Theorem labels_Inv nodes es : closed nodes es -> Inv nodes es (labels nodes es).
Proof.
  intros Hc. unfold labels. apply (Inv_passes nodes es (length nodes) Hc []).
  - apply Inv_init.
  - intros x [].
  - intros E x Hx. apply length_zero_iff_nil in E. subst nodes. destruct (Hc x Hx) as [[] _].
Qed.

(* ------------------------------------------------------------------ (1), (2) *)
Theorem labels_same_iff_connected nodes es : closed nodes es ->
  forall x y, In x nodes -> In y nodes ->
  (label_of (labels nodes es) x = label_of (labels nodes es) y <-> connected es x y).
Proof. intros Hc. exact (inv_conn _ _ _ (labels_Inv nodes es Hc)). Qed.
Print Assumptions labels_same_iff_connected.

(* the final label of a node is the least node of its connected component *)
Theorem label_is_min_of_class nodes es : closed nodes es ->
  forall x, In x nodes ->
  let l := label_of (labels nodes es) x in
  In l nodes /\ connected es x l /\ label_of (labels nodes es) l = l /\
  forall y, In y nodes -> connected es x y -> (l <= y)%Z.
Proof.
  intros Hc x Hx l. assert (I := labels_Inv nodes es Hc).
  assert (Hl : In l nodes) by (apply (inv_in _ _ _ I), Hx).
  assert (El : label_of (labels nodes es) l = l) by (apply (inv_idem _ _ _ I), Hx).
  split; [exact Hl|]. split; [|split; [exact El|]].
  - apply (inv_conn _ _ _ I x l Hx Hl). symmetry. exact El.
  - intros y Hy C. apply (inv_conn _ _ _ I x y Hx Hy) in C. fold l in C. rewrite C.
    apply (inv_le _ _ _ I), Hy.
Qed.
Print Assumptions label_is_min_of_class.

(* the labels list has one entry per node, in node order *)
Lemma labels_fst nodes es : closed nodes es -> map fst (labels nodes es) = nodes.
Proof. intros Hc. exact (inv_fst _ _ _ (labels_Inv nodes es Hc)). Qed.

(* ================================================================== Part 2: the classes and their sizes *)

(* ------------------------------------------------------------------ list facts *)
Lemma NoDup_app_intro {A} (l1 l2 : list A) :
  NoDup l1 -> NoDup l2 -> (forall x, In x l1 -> ~ In x l2) -> NoDup (l1 ++ l2).
Proof.
  induction l1 as [|a l1 IH]; intros N1 N2 D; [exact N2|].
  inversion N1 as [|? ? Ha N1']; subst. cbn [app]. constructor.
  - intros H. apply in_app_or in H. destruct H as [H|H]; [exact (Ha H) | exact (D a (or_introl eq_refl) H)].
  - apply IH; [exact N1' | exact N2 | intros x Hx; apply D; right; exact Hx].
Qed.

Lemma NoDup_app_elim {A} (l1 l2 : list A) :
  NoDup (l1 ++ l2) -> NoDup l1 /\ NoDup l2 /\ forall x, In x l1 -> ~ In x l2.
Proof.
  induction l1 as [|a l1 IH]; intros N.
  - split; [constructor|]. split; [exact N | intros x []].
  - cbn [app] in N. inversion N as [|? ? Ha N']; subst. destruct (IH N') as (N1 & N2 & D).
    split; [constructor; [intros H; apply Ha, in_or_app; left; exact H | exact N1]|].
    split; [exact N2|]. intros x [<-|Hx]; [intros H; apply Ha, in_or_app; right; exact H | apply D, Hx].
Qed.

Lemma concat_length_sum {A} (l : list (list A)) : length (concat l) = list_sum (map (@length A) l).
Proof. induction l as [|c l IH]; [reflexivity|]. cbn [concat map list_sum]. rewrite app_length, IH. reflexivity. Qed.

Lemma filter_map_comm {A B} (g : A -> B) (p : B -> bool) (l : list A) :
  filter p (map g l) = map g (filter (fun x => p (g x)) l).
Proof.
  induction l as [|x l IH]; [reflexivity|]. cbn [map filter]. rewrite IH.
  destruct (p (g x)); reflexivity.
Qed.

Definition disjoint (c d : list Z) : Prop := forall x, In x c -> ~ In x d.

Lemma NoDup_concat_disjoint (cs : list (list Z)) : NoDup (concat cs) -> ForallOrdPairs disjoint cs.
Proof.
  induction cs as [|c cs IH]; intros N; [constructor|].
  cbn [concat] in N. destruct (NoDup_app_elim _ _ N) as (_ & N2 & D).
  constructor; [|exact (IH N2)].
  apply Forall_forall. intros d Hd x Hx Hxd. apply (D x Hx). apply in_concat. exists d. split; assumption.
Qed.

(* ------------------------------------------------------------------ zdedup *)
Lemma existsb_eqb_In x l : existsb (Z.eqb x) l = true <-> In x l.
Proof.
  rewrite existsb_exists. split.
  - intros (y & Hy & E). apply Z.eqb_eq in E. subst y. exact Hy.
  - intros H. exists x. split; [exact H | apply Z.eqb_refl].
Qed.

Lemma zdedup_In l x : In x (zdedup l) <-> In x l.
Proof.
  induction l as [|a l IH]; [reflexivity|]. cbn [zdedup].
  destruct (existsb (Z.eqb a) l) eqn:E.
  - rewrite IH. split; [intros H; right; exact H|]. intros [<-|H]; [apply existsb_eqb_In, E | exact H].
  - cbn [In]. rewrite IH. reflexivity.
Qed.

Lemma zdedup_NoDup l : NoDup (zdedup l).
Proof.
  induction l as [|a l IH]; [constructor|]. cbn [zdedup].
  destruct (existsb (Z.eqb a) l) eqn:E; [exact IH|].
  constructor; [|exact IH]. rewrite zdedup_In. intros H. apply existsb_eqb_In in H. congruence.
Qed.

(* ------------------------------------------------------------------ the classes of a label list *)
Definition class_of (lab : list (Z * Z)) (nodes : list Z) (r : Z) : list Z :=
  filter (fun n => Z.eqb (label_of lab n) r) nodes.
Definition lab_reps (lab : list (Z * Z)) : list Z := zdedup (map snd lab).
Definition lab_classes (lab : list (Z * Z)) (nodes : list Z) : list (list Z) :=
  map (class_of lab nodes) (lab_reps lab).

(* the connected components as node lists: one class per distinct final label (ordered by the last
   occurrence of the label in the label list, as zdedup does), each class in node order *)
Definition components (nodes : list Z) (es : list edge) : list (list Z) :=
  lab_classes (labels nodes es) nodes.
(* their representatives: the distinct final labels *)
Definition representatives (nodes : list Z) (es : list edge) : list Z := lab_reps (labels nodes es).

(* what it means to be a connected component / the partition into connected components *)
Definition is_class (nodes : list Z) (es : list edge) (c : list Z) : Prop :=
  c <> [] /\ NoDup c /\ exists x, In x nodes /\ forall y, In y c <-> (In y nodes /\ connected es x y).
Definition is_partition (nodes : list Z) (es : list edge) (cs : list (list Z)) : Prop :=
  Permutation (concat cs) nodes /\ Forall (is_class nodes es) cs /\ ForallOrdPairs disjoint cs.

Lemma class_of_In lab nodes r y : In y (class_of lab nodes r) <-> In y nodes /\ label_of lab y = r.
Proof. unfold class_of. rewrite filter_In, Z.eqb_eq. reflexivity. Qed.

Lemma snd_labels lab : NoDup (map fst lab) -> map snd lab = map (label_of lab) (map fst lab).
Proof.
  intros ND. rewrite map_map. apply map_ext_in. intros [k v] H. cbn [fst snd]. symmetry.
  apply label_of_in; assumption.
Qed.

Lemma count_by_label lab r : NoDup (map fst lab) ->
  length (filter (fun x : Z * Z => Z.eqb (snd x) r) lab) = length (class_of lab (map fst lab) r).
Proof.
  intros ND. unfold class_of. rewrite filter_map_comm, map_length. f_equal.
  apply filter_ext_in. intros [k v] H. cbn [fst snd]. rewrite (label_of_in lab k v ND H). reflexivity.
Qed.

Lemma component_sizes_components nodes es : NoDup nodes -> closed nodes es ->
  component_sizes nodes es = map (@length Z) (components nodes es).
Proof.
  intros ND Hc. unfold component_sizes, components, lab_classes, lab_reps. cbv zeta.
  rewrite map_map. apply map_ext. intros r.
  assert (E := labels_fst nodes es Hc).
  rewrite count_by_label by (rewrite E; exact ND). rewrite E. reflexivity.
Qed.

Section Classes.
  Variables (nodes : list Z) (es : list edge) (lab : list (Z * Z)).
  Hypothesis ND : NoDup nodes.
  Hypothesis I : Inv nodes es lab.

  Lemma reps_In r : In r (lab_reps lab) <-> exists n, In n nodes /\ label_of lab n = r.
  Proof.
    unfold lab_reps. rewrite zdedup_In, snd_labels by (rewrite (inv_fst _ _ _ I); exact ND).
    rewrite (inv_fst _ _ _ I), in_map_iff. split; intros (n & A & B); exists n; tauto.
  Qed.

  Lemma classes_concat_In y : In y (concat (lab_classes lab nodes)) <-> In y nodes.
  Proof.
    rewrite in_concat. split.
    - intros (c & Hc & Hy). apply in_map_iff in Hc. destruct Hc as (r & <- & _).
      apply class_of_In in Hy. tauto.
    - intros Hy. exists (class_of lab nodes (label_of lab y)). split.
      + apply in_map, reps_In. exists y. split; [exact Hy | reflexivity].
      + apply class_of_In. split; [exact Hy | reflexivity].
  Qed.

  Lemma classes_concat_NoDup rs : NoDup rs -> NoDup (concat (map (class_of lab nodes) rs)).
  Proof.
    induction rs as [|r rs IH]; intros N; [constructor|].
    inversion N as [|? ? Hr N']; subst. cbn [map concat]. apply NoDup_app_intro.
    - apply NoDup_filter, ND.
    - exact (IH N').
    - intros x Hx Hx'. apply class_of_In in Hx. destruct Hx as [_ Ex].
      apply in_concat in Hx'. destruct Hx' as (c & Hc & Hxc). apply in_map_iff in Hc.
      destruct Hc as (r' & <- & Hr'). apply class_of_In in Hxc. destruct Hxc as [_ Ex'].
      apply Hr. rewrite <- Ex, Ex'. exact Hr'.
  Qed.

  Lemma class_of_is_class r : In r (lab_reps lab) -> is_class nodes es (class_of lab nodes r).
  Proof.
    intros Hr. apply reps_In in Hr. destruct Hr as (n & Hn & En).
    split; [|split].
    - intros E. assert (H : In n (class_of lab nodes r)) by (apply class_of_In; split; assumption).
      rewrite E in H. destruct H.
    - apply NoDup_filter, ND.
    - exists n. split; [exact Hn|]. intros y. rewrite class_of_In. split.
      + intros [Hy Ey]. split; [exact Hy|]. apply (inv_conn _ _ _ I n y Hn Hy). congruence.
      + intros [Hy C]. split; [exact Hy|]. apply (inv_conn _ _ _ I n y Hn Hy) in C. congruence.
  Qed.

  Lemma lab_classes_partition : is_partition nodes es (lab_classes lab nodes).
  Proof.
    assert (N : NoDup (concat (lab_classes lab nodes))) by (apply classes_concat_NoDup, zdedup_NoDup).
    split; [|split].
    - apply NoDup_Permutation; [exact N | exact ND | exact classes_concat_In].
    - apply Forall_forall. intros c Hc. apply in_map_iff in Hc. destruct Hc as (r & <- & Hr).
      apply class_of_is_class, Hr.
    - apply NoDup_concat_disjoint, N.
  Qed.

  (* the distinct labels are a system of representatives: pairwise unconnected nodes, one per class *)
  Lemma lab_reps_spec :
    NoDup (lab_reps lab) /\ (forall r, In r (lab_reps lab) -> In r nodes) /\
    (forall n, In n nodes -> exists r, In r (lab_reps lab) /\ connected es n r) /\
    (forall r r', In r (lab_reps lab) -> In r' (lab_reps lab) -> connected es r r' -> r = r').
  Proof.
    assert (Fix : forall r, In r (lab_reps lab) -> In r nodes /\ label_of lab r = r).
    { intros r Hr. apply reps_In in Hr. destruct Hr as (n & Hn & <-).
      split; [apply (inv_in _ _ _ I), Hn | apply (inv_idem _ _ _ I), Hn]. }
    split; [apply zdedup_NoDup|]. split; [intros r Hr; apply (Fix r Hr)|]. split.
    - intros n Hn. exists (label_of lab n). split; [apply reps_In; exists n; split; [exact Hn | reflexivity]|].
      apply (inv_conn _ _ _ I n _ Hn (inv_in _ _ _ I n Hn)). symmetry. apply (inv_idem _ _ _ I), Hn.
    - intros r r' Hr Hr' C. destruct (Fix r Hr) as [A B]. destruct (Fix r' Hr') as [A' B'].
      apply (inv_conn _ _ _ I r r' A A') in C. congruence.
  Qed.

  (* ---- any partition into connected components has the same sizes *)
  Definition rep_of (c : list Z) : Z := label_of lab (hd 0%Z c).

  Lemma class_by_label c : is_class nodes es c ->
    c <> [] /\ In (hd 0%Z c) c /\ forall y, In y c <-> In y nodes /\ label_of lab y = rep_of c.
  Proof.
    intros (Hne & _ & x & Hx & Hc). split; [exact Hne|].
    assert (Hh : In (hd 0%Z c) c) by (destruct c as [|h t]; [congruence | left; reflexivity]).
    split; [exact Hh|]. intros y. rewrite (Hc y). unfold rep_of.
    destruct (proj1 (Hc _) Hh) as [Hhn Chx].
    apply (inv_conn _ _ _ I x _ Hx Hhn) in Chx.
    split; intros [Hy H]; (split; [exact Hy|]).
    - apply (inv_conn _ _ _ I x y Hx Hy) in H. congruence.
    - apply (inv_conn _ _ _ I x y Hx Hy). congruence.
  Qed.

  Lemma rep_of_NoDup cs : Forall (is_class nodes es) cs -> ForallOrdPairs disjoint cs -> NoDup (map rep_of cs).
  Proof.
    intros Hcl D. induction D as [|c cs Hd D IH]; [constructor|].
    inversion Hcl as [|? ? Hc Hcl']; subst. cbn [map]. constructor; [|exact (IH Hcl')].
    intros H. apply in_map_iff in H. destruct H as (d & E & Hdin).
    rewrite Forall_forall in Hd, Hcl'.
    destruct (class_by_label c Hc) as (_ & Hh & Hcy).
    destruct (class_by_label d (Hcl' d Hdin)) as (_ & _ & Hdy).
    apply (Hd d Hdin _ Hh). apply Hdy. rewrite E. apply Hcy, Hh.
  Qed.

  Lemma partition_sizes cs : is_partition nodes es cs ->
    Permutation (map (@length Z) cs) (map (@length Z) (lab_classes lab nodes)).
  Proof.
    intros (Pc & Hcl & D).
    assert (E1 : map (@length Z) cs = map (fun r => length (class_of lab nodes r)) (map rep_of cs)).
    { rewrite map_map. apply map_ext_in. intros c Hc. rewrite Forall_forall in Hcl.
      destruct (Hcl c Hc) as (_ & Nc & _). destruct (class_by_label c (Hcl c Hc)) as (_ & _ & Hy).
      apply Permutation_length. apply NoDup_Permutation; [exact Nc | apply NoDup_filter, ND|].
      intros y. rewrite class_of_In. apply Hy. }
    rewrite E1. unfold lab_classes. rewrite (map_map (class_of lab nodes) (@length Z)). apply (Permutation_map (fun r => length (class_of lab nodes r))).
    apply NoDup_Permutation; [apply rep_of_NoDup; assumption | apply zdedup_NoDup|].
    intros r. rewrite reps_In, in_map_iff. rewrite Forall_forall in Hcl. split.
    - intros (c & <- & Hc). destruct (class_by_label c (Hcl c Hc)) as (_ & Hh & Hy).
      exists (hd 0%Z c). split; [apply Hy, Hh | reflexivity].
    - intros (n & Hn & <-). apply (Permutation_in _ (Permutation_sym Pc)) in Hn.
      apply in_concat in Hn. destruct Hn as (c & Hc & Hnc). exists c. split; [|exact Hc].
      destruct (class_by_label c (Hcl c Hc)) as (_ & _ & Hy). symmetry. apply Hy, Hnc.
  Qed.
End Classes.

(* ------------------------------------------------------------------ (3) *)
(* [components nodes es] is a partition of the nodes into connected components ... *)
Theorem components_partition nodes es : NoDup nodes -> closed nodes es ->
  is_partition nodes es (components nodes es).
Proof. intros ND Hc. apply lab_classes_partition; [exact ND | apply labels_Inv, Hc]. Qed.
Print Assumptions components_partition.

(* ... and component_sizes lists the sizes of these classes, in the same order *)
Theorem component_sizes_spec nodes es : NoDup nodes -> closed nodes es ->
  exists cs, is_partition nodes es cs /\ NoDup (concat cs) /\ component_sizes nodes es = map (@length Z) cs.
Proof.
  intros ND Hc. exists (components nodes es).
  assert (P := components_partition nodes es ND Hc).
  split; [exact P|]. split; [|apply component_sizes_components; assumption].
  destruct P as (P & _). apply (Permutation_NoDup (Permutation_sym P)), ND.
Qed.
Print Assumptions component_sizes_spec.

(* the partition into connected components is unique up to order (and order inside the classes), so:
   for EVERY partition of the nodes into connected components, component_sizes is its size list *)
Theorem component_sizes_any_partition nodes es : NoDup nodes -> closed nodes es ->
  forall cs, is_partition nodes es cs -> Permutation (component_sizes nodes es) (map (@length Z) cs).
Proof.
  intros ND Hc cs P. rewrite (component_sizes_components nodes es ND Hc). symmetry.
  apply (partition_sizes nodes es (labels nodes es) ND (labels_Inv nodes es Hc) cs P).
Qed.
Print Assumptions component_sizes_any_partition.

(* the distinct final labels: one representative per component, pairwise unconnected; their number is
   the length of component_sizes *)
Theorem representatives_spec nodes es : NoDup nodes -> closed nodes es ->
  let reps := representatives nodes es in
  NoDup reps /\ (forall r, In r reps -> In r nodes) /\
  (forall n, In n nodes -> exists r, In r reps /\ connected es n r) /\
  (forall r r', In r reps -> In r' reps -> connected es r r' -> r = r') /\
  length (component_sizes nodes es) = length reps.
Proof.
  intros ND Hc reps.
  destruct (lab_reps_spec nodes es (labels nodes es) ND (labels_Inv nodes es Hc)) as (A & B & C & D).
  split; [exact A|]. split; [exact B|]. split; [exact C|]. split; [exact D|].
  unfold component_sizes, reps, representatives, lab_reps. cbv zeta. apply map_length.
Qed.
Print Assumptions representatives_spec.

(* ================================================================== Part 3: (4) corollaries *)
Theorem component_sizes_sum nodes es : NoDup nodes -> closed nodes es ->
  list_sum (component_sizes nodes es) = length nodes.
Proof.
  intros ND Hc. rewrite (component_sizes_components nodes es ND Hc), <- concat_length_sum.
  apply Permutation_length. exact (proj1 (components_partition nodes es ND Hc)).
Qed.
Print Assumptions component_sizes_sum.

(* no empty component *)
Theorem component_sizes_pos nodes es : NoDup nodes -> closed nodes es ->
  forall s, In s (component_sizes nodes es) -> 1 <= s.
Proof.
  intros ND Hc s Hs. rewrite (component_sizes_components nodes es ND Hc) in Hs.
  apply in_map_iff in Hs. destruct Hs as (c & <- & Hcin).
  destruct (components_partition nodes es ND Hc) as (_ & Hcl & _). rewrite Forall_forall in Hcl.
  destruct (Hcl c Hcin) as (Hne & _). destruct c as [|h t]; [congruence | cbn [length]; lia].
Qed.
Print Assumptions component_sizes_pos.

(* the reported component summary, against ANY partition cs of the nodes into connected components
   (one exists: components_partition): the number of components; the size of a largest one; the size
   of a second largest one, 0 when there is at most one component *)
Theorem stats_components_spec nodes es : NoDup nodes -> closed nodes es ->
  forall cs, is_partition nodes es cs ->
  let st := statistics nodes es in
  s_components st = length cs /\
  (forall c, In c cs -> length c <= s_lcc st) /\
  (cs <> [] -> exists c, In c cs /\ length c = s_lcc st) /\
  (length cs <= 1 -> s_slcc st = 0) /\
  (2 <= length cs -> exists c1 c2 rest, Permutation cs (c1 :: c2 :: rest) /\
     length c1 = s_lcc st /\ length c2 = s_slcc st /\ s_slcc st <= s_lcc st /\
     forall c, In c rest -> length c <= s_slcc st).
Proof.
  intros ND Hc cs P st.
  assert (Q : Permutation (sort_desc (component_sizes nodes es)) (map (@length Z) cs)).
  { rewrite sort_desc_perm. apply component_sizes_any_partition; assumption. }
  assert (D := sort_desc_desc (component_sizes nodes es)).
  unfold st, statistics; cbn [s_components s_lcc s_slcc].
  remember (sort_desc (component_sizes nodes es)) as ccs eqn:Eccs. clear Eccs.
  destruct (Permutation_map_inv _ _ Q) as (l3 & E3 & P3). subst ccs. clear Q.
  assert (Len : length cs = length l3) by (apply Permutation_length, P3).
  rewrite map_length, Len.
  destruct l3 as [|c1 [|c2 rest]].
  - apply Permutation_sym, Permutation_nil in P3. subst cs. cbn.
    split; [reflexivity|]. split; [intros c []|]. split; [congruence|]. split; [reflexivity | lia].
  - cbn [map nth length]. split; [reflexivity|].
    split; [intros c Hcin; apply (Permutation_in _ P3) in Hcin; destruct Hcin as [<-|[]]; lia|].
    split; [intros _; exists c1; split; [apply (Permutation_in _ (Permutation_sym P3)); left|]; reflexivity|].
    split; [reflexivity | lia].
  - cbn [map nth length]. cbn [map] in D.
    inversion D as [| |? ? ? H21 D']; subst.
    split; [reflexivity|].
    split.
    { intros c Hcin. apply (Permutation_in _ P3) in Hcin.
      apply (desc_head_max _ _ D). change (In (length c) (map (@length Z) (c1 :: c2 :: rest))).
      apply in_map, Hcin. }
    split; [intros _; exists c1; split; [apply (Permutation_in _ (Permutation_sym P3)); left|]; reflexivity|].
    split; [lia|]. intros _. exists c1, c2, rest.
    split; [exact P3|]. split; [reflexivity|]. split; [reflexivity|]. split; [exact H21|].
    intros c Hcin. apply (desc_head_max _ _ D'). right. apply in_map, Hcin.
Qed.
Print Assumptions stats_components_spec.

Lemma list_sum_ge x l : In x l -> x <= list_sum l.
Proof.
  induction l as [|d l IH]; intros H; [destruct H|].
  change (list_sum (d :: l)) with (d + list_sum l).
  destruct H as [<-|H]; [lia | specialize (IH H); lia].
Qed.

(* the same, for the components the model computes, and the number of representatives *)
Corollary stats_components_computed nodes es : NoDup nodes -> closed nodes es ->
  let st := statistics nodes es in
  s_components st = length (components nodes es) /\
  s_components st = length (representatives nodes es) /\
  (nodes <> [] -> 1 <= s_components st /\ 1 <= s_lcc st) /\
  s_lcc st <= length nodes.
Proof.
  intros ND Hc st. assert (P := components_partition nodes es ND Hc).
  destruct (stats_components_spec nodes es ND Hc _ P) as (A & B & C & _). fold st in A, B, C.
  split; [exact A|]. split; [rewrite A; unfold components, lab_classes, representatives; apply map_length|].
  assert (S := component_sizes_sum nodes es ND Hc).
  rewrite (component_sizes_components nodes es ND Hc) in S.
  destruct (components nodes es) as [|c cs] eqn:E.
  - cbn in S. split; [intros Hne; destruct nodes; [congruence | discriminate S]|].
    unfold st, statistics; cbn [s_lcc]. rewrite (component_sizes_components nodes es ND Hc), E. cbn. lia.
  - destruct (C ltac:(discriminate)) as (c' & Hc' & <-).
    destruct P as (_ & Hcl & _). rewrite Forall_forall in Hcl. destruct (Hcl c' Hc') as (Hne & _).
    split; [intros _; split; [rewrite A; cbn [length]; lia | destruct c'; [congruence | cbn [length]; lia]]|].
    rewrite <- S. apply list_sum_ge, in_map, Hc'.
Qed.
Print Assumptions stats_components_computed.

(* ================================================================== (5) non-vacuity
   three components: the isolated node 4; {1,7}; {3,5,9} with the self-loop (9,9) and the edge 5-9
   three times (once reversed).  The class sizes come out as [1;2;3] and are sorted for the summary. *)
Example components_example :
  let nodes := [4; 1; 7; 5; 3; 9]%Z in
  let es := [(5, 9); (9, 9); (7, 1); (3, 9); (9, 5); (5, 9)]%Z in
  NoDup nodes /\ closed nodes es /\
  labels nodes es = [(4, 4); (1, 1); (7, 1); (5, 3); (3, 3); (9, 3)]%Z /\
  components nodes es = [[4]; [1; 7]; [5; 3; 9]]%Z /\
  representatives nodes es = [4; 1; 3]%Z /\
  component_sizes nodes es = [1; 2; 3] /\
  s_components (statistics nodes es) = 3 /\ s_lcc (statistics nodes es) = 3 /\ s_slcc (statistics nodes es) = 2 /\
  connected es 5 3 /\ ~ connected es 7 3 /\ ~ connected es 4 1.
Proof.
  cbv zeta.
  assert (ND : NoDup [4; 1; 7; 5; 3; 9]%Z) by (repeat constructor; cbn; intuition discriminate).
  assert (Hc : closed [4; 1; 7; 5; 3; 9]%Z [(5, 9); (9, 9); (7, 1); (3, 9); (9, 5); (5, 9)]%Z).
  { intros e He. cbn in He. repeat (destruct He as [<-|He]; [cbn; tauto|]). destruct He. }
  split; [exact ND|]. split; [exact Hc|].
  split; [vm_compute; reflexivity|]. split; [vm_compute; reflexivity|]. split; [vm_compute; reflexivity|].
  split; [vm_compute; reflexivity|]. split; [vm_compute; reflexivity|]. split; [vm_compute; reflexivity|].
  split; [vm_compute; reflexivity|].
  split; [|split].
  - apply (labels_same_iff_connected _ _ Hc 5%Z 3%Z); [cbn; tauto | cbn; tauto | vm_compute; reflexivity].
  - intros C. apply (labels_same_iff_connected _ _ Hc 7%Z 3%Z) in C; [|cbn; tauto|cbn; tauto].
    vm_compute in C. discriminate C.
  - intros C. apply (labels_same_iff_connected _ _ Hc 4%Z 1%Z) in C; [|cbn; tauto|cbn; tauto].
    vm_compute in C. discriminate C.
Qed.
Print Assumptions components_example.
