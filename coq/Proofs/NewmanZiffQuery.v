(* C13: what the query methods of NewmanZiff report, against an independent graph-theoretic
   specification (connected components as classes of the closure [conn]). *)
From Coq Require Import List ZArith QArith Bool Arith Lia Permutation.
From EpyV Require Import Lib.Prelude Model.NewmanZiff Proofs.NewmanZiffUF Proofs.NewmanZiffOcc.
Import ListNotations.
Local Open Scope nat_scope.

(* ------------------------------------------------------------------ specification *)
(* c is the number of nodes of V connected to n *)
Definition class_size (V : nat -> Prop) (es : list nedge) (n : nat) (c : Z) : Prop :=
  exists l, NoDup l /\ (forall x, In x l <-> V x /\ conn es n x) /\ c = Z.of_nat (length l).

(* g is the size of a largest component (0 for the network without nodes) *)
Definition largest_class (V : nat -> Prop) (es : list nedge) (g : Z) : Prop :=
  (forall n c, V n -> class_size V es n c -> (c <= g)%Z) /\
  ((exists n, V n /\ class_size V es n g) \/ (g = 0%Z /\ forall n, ~ V n)).

(* k is the number of components: a system of k pairwise unconnected representatives *)
Definition n_classes (V : nat -> Prop) (es : list nedge) (k : Z) : Prop :=
  exists reps, NoDup reps /\ (forall r, In r reps -> V r) /\ (forall n, V n -> exists r, In r reps /\ conn es n r)
    /\ (forall r r', In r reps -> In r' reps -> conn es r r' -> r = r') /\ k = Z.of_nat (length reps).

(* componentSize(n): the size of n's component, 0 for a node that is not in the network *)
Definition size_spec (V : nat -> Prop) (es : list nedge) (n : nat) (c : Z) : Prop :=
  (V n /\ class_size V es n c) \/ (~ V n /\ c = 0%Z).

Lemma class_size_unique V es n c c' : class_size V es n c -> class_size V es n c' -> c = c'.
Proof.
  intros (l & ND & Hl & ->) (l' & ND' & Hl' & ->). f_equal. apply Permutation_length.
  apply NoDup_Permutation; auto. intros x. rewrite Hl, Hl'. tauto.
Qed.

(* ------------------------------------------------------------------ the array against the specification *)
Section Spec.
  Variables (a : list Z) (es : list nedge) (V : nat -> Prop).
  Hypothesis U : UF a es.
  Hypothesis HV : forall x, V x <-> occ a x.

  Lemma uf_class_size n r d : path a n r d -> class_size V es n (- get a r)%Z.
  Proof.
    intros P. destruct (uf_size _ _ U _ (proj2 (path_lt _ _ _ _ P))) as (l & ND & Hl & E).
    exists l. split; [exact ND|]. split; [|exact E]. intros x. rewrite Hl, HV. split.
    - intros (e & Q). split; [eapply path_occ; eauto|]. apply (uf_classes _ _ U _ _ _ _ _ _ P Q). reflexivity.
    - intros (O & C). destruct (uf_total _ _ U _ O) as (r' & d' & Q & _).
      apply (uf_classes _ _ U _ _ _ _ _ _ P Q) in C. subst. eauto.
  Qed.

  Lemma gcc_true g : GccOK a g -> largest_class V es g.
  Proof.
    intros [H1 H2]. split.
    - intros n c Vn Cs. apply HV in Vn. destruct (uf_total _ _ U _ Vn) as (r & d & P & _).
      rewrite (class_size_unique _ _ _ _ _ Cs (uf_class_size _ _ _ P)). apply H1. apply (path_lt _ _ _ _ P).
    - destruct H2 as [(r & R & E)|[E H]].
      + left. exists r. pose proof (path_of_root _ _ R) as P. split; [apply HV; eapply path_occ; eauto|].
        rewrite <- E. eapply uf_class_size; eauto.
      + right. split; [exact E|]. intros n Vn. apply HV in Vn. destruct (uf_total _ _ U _ Vn) as (r & d & P & _).
        apply (H r). apply (path_lt _ _ _ _ P).
  Qed.

  Lemma nc_true k : NcOK a k -> n_classes V es k.
  Proof.
    intros (l & ND & Hl & E). exists l. split; [exact ND|]. split; [|split; [|split; [|exact E]]].
    - intros r I. apply Hl in I. apply HV. eapply path_occ. apply path_of_root. exact I.
    - intros n Vn. apply HV in Vn. destruct (uf_total _ _ U _ Vn) as (r & d & P & _). exists r.
      split; [apply Hl; apply (path_lt _ _ _ _ P) | eapply uf_root_conn; eauto].
    - intros r r' I I' C. apply Hl in I. apply Hl in I'.
      apply (uf_classes _ _ U _ _ _ _ _ _ (path_of_root _ _ I) (path_of_root _ _ I')). exact C.
  Qed.
End Spec.

(* ------------------------------------------------------------------ componentSize *)
Lemma componentSize_bond_spec a es V n : UF a es -> (forall x, V x <-> occ a x) -> occ a n ->
  exists a' c, componentSize_bond a n = (a', c) /\ compr a a' /\ class_size V es n c.
Proof.
  intros U HV O. unfold componentSize_bond. destruct (root_spec _ _ _ U O) as (a' & r & d & E & P & C).
  rewrite E. exists a', (- get a' r)%Z. split; [reflexivity|]. split; [exact C|].
  rewrite (c_neg _ _ C) by apply (path_lt _ _ _ _ P). eapply uf_class_size; eauto.
Qed.

Lemma componentSize_site_spec a es V n : UF a es -> (forall x, V x <-> occ a x) -> n < length a ->
  exists a' c, componentSize_site a n = (a', c) /\ compr a a' /\ size_spec V es n c.
Proof.
  intros U HV Ln. unfold componentSize_site. destruct (Z.eqb_spec (get a n) (unocc a)) as [E|Ne].
  - exists a, 0%Z. split; [reflexivity|]. split; [apply compr_refl|]. right. split; [|reflexivity].
    rewrite HV. intros [_ O]. contradiction.
  - assert (O : occ a n) by (split; assumption).
    destruct (componentSize_bond_spec a es V n U HV O) as (a' & c & E & C & S). exists a', c.
    split; [exact E|]. split; [exact C|]. left. split; [apply HV; exact O | exact S].
Qed.

(* componentSize(n) for n = 0..N-1, one after the other *)
Lemma sizes_all_spec (cs : list Z -> nat -> list Z * Z) es V (Pre : list Z -> nat -> Prop) :
  (forall a a' n, compr a a' -> Pre a n -> Pre a' n) ->
  (forall a n, UF a es -> (forall x, V x <-> occ a x) -> Pre a n ->
     exists a' c, cs a n = (a', c) /\ compr a a' /\ size_spec V es n c) ->
  forall ns a, UF a es -> (forall x, V x <-> occ a x) -> (forall n, In n ns -> Pre a n) ->
  exists a' l, sizes_all cs a ns = (a', l) /\ compr a a' /\ Forall2 (size_spec V es) ns l.
Proof.
  intros Hpre Hcs. induction ns as [|n ns IH]; intros a U HV HP.
  - exists a, []. split; [reflexivity|]. split; [apply compr_refl | constructor].
  - cbn [sizes_all]. destruct (Hcs a n U HV (HP n (or_introl eq_refl))) as (a1 & c & E1 & C1 & S1). rewrite E1.
    assert (HV1 : forall x, V x <-> occ a1 x) by (intros x; rewrite HV; symmetry; apply (compr_occ _ _ C1)).
    destruct (IH a1 (UF_compr _ _ _ U C1) HV1) as (a2 & l & E2 & C2 & S2).
    { intros m I. eapply Hpre; [exact C1|]. apply HP. right. exact I. }
    rewrite E2. exists a2, (c :: l). split; [reflexivity|]. split; [eapply compr_trans; eauto|]. constructor; assumption.
Qed.

(* ------------------------------------------------------------------ sample() *)
(* what a sample reports is true of the working network it sees *)
Definition reports_true (N : nat) (o : obs) : Prop :=
  let V := fun n => In n (o_wnodes o) in
  largest_class V (o_wedges o) (o_gcc o) /\ n_classes V (o_wedges o) (o_ncomp o) /\
  Forall2 (size_spec V (o_wedges o)) (seq 0 N) (o_sizes o).

Lemma Inv_compr s a' : Inv s -> compr (comp s) a' ->
  Inv {| comp := a'; gcc := gcc s; ncomp := ncomp s; wnodes := wnodes s; wedges := wedges s |}.
Proof.
  intros [U G K] C. constructor; cbn [comp gcc ncomp wnodes wedges].
  - eapply UF_compr; eauto.
  - eapply GccOK_compr; eauto.
  - eapply NcOK_compr; eauto.
Qed.

Lemma sample_with_spec (cs : list Z -> nat -> list Z * Z) (Pre : list Z -> nat -> Prop) N p s :
  (forall a a' n, compr a a' -> Pre a n -> Pre a' n) ->
  (forall a es V n, UF a es -> (forall x, V x <-> occ a x) -> Pre a n ->
     exists a' c, cs a n = (a', c) /\ compr a a' /\ size_spec V es n c) ->
  Inv s -> (forall x, In x (wnodes s) <-> occ (comp s) x) -> (forall n, n < N -> Pre (comp s) n) ->
  exists a', compr (comp s) a' /\
    sample_with cs N p s =
      ({| comp := a'; gcc := gcc s; ncomp := ncomp s; wnodes := wnodes s; wedges := wedges s |},
       snd (sample_with cs N p s)) /\
    let o := snd (sample_with cs N p s) in
    o_p o = p /\ o_gcc o = gcc s /\ o_wnodes o = wnodes s /\ o_wedges o = wedges s /\ reports_true N o.
Proof.
  intros Hpre Hcs I HV HP. destruct I as [U G K]. unfold sample_with.
  destruct (sizes_all_spec cs (wedges s) (fun n => In n (wnodes s)) Pre Hpre
              (fun a n => Hcs a (wedges s) _ n) (seq 0 N) (comp s) U HV) as (a' & l & E & C & S).
  { intros n I. apply HP. apply in_seq in I. lia. }
  rewrite E. exists a'. split; [exact C|]. split; [reflexivity|]. cbv zeta. cbn [snd o_p o_gcc o_wnodes o_wedges].
  do 4 (split; [reflexivity|]). unfold reports_true. cbn [o_gcc o_ncomp o_sizes o_wnodes o_wedges].
  split; [eapply gcc_true; eauto|]. split; [eapply nc_true; eauto | exact S].
Qed.
