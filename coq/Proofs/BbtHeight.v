(* C09: a height-balanced tree is logarithmically shallow, and the descents of find and draw
   are bounded by the height. *)
From Coq Require Import ZArith List Bool Arith Lia.
From EpyV Require Import Model.Bbt Proofs.BbtRot Proofs.BbtSet Proofs.BbtDraw.
Import ListNotations. Close Scope Z_scope. Open Scope nat_scope.

Lemma pow_half_mono a b : a <= b -> 2 ^ (a / 2) <= 2 ^ (b / 2).
Proof. intros H. apply Nat.pow_le_mono_r; [lia|]. apply Nat.div_le_mono; lia. Qed.
Lemma pow_half_step a : 2 ^ ((a + 2) / 2) = 2 * 2 ^ (a / 2).
Proof.
  replace (a + 2) with (a + 1 * 2) by lia. rewrite Nat.div_add by lia.
  rewrite Nat.add_1_r, Nat.pow_succ_r'. reflexivity.
Qed.

(* the AVL bound: a balanced tree of height h has at least 2^(h/2) - 1 entries *)
Theorem height_bound t : Bal t -> 2 ^ (ht t / 2) <= size t + 1.
Proof.
  induction t as [|l IHl d h ls rs r IHr]; intros Hb; [cbn; lia|].
  destruct Hb as (Hbl & Hbr & H1 & H2). specialize (IHl Hbl). specialize (IHr Hbr).
  cbn [ht size].
  destruct (Nat.eq_dec (Nat.max (ht l) (ht r)) 0) as [H0|H0].
  - rewrite H0. cbn. lia.
  - (* both children have height at least max - 1 *)
    set (m := Nat.max (ht l) (ht r)) in *.
    assert (Hm : S m = (m - 1) + 2) by lia. rewrite Hm, pow_half_step.
    pose proof (pow_half_mono (m - 1) (ht l) ltac:(lia)).
    pose proof (pow_half_mono (m - 1) (ht r) ltac:(lia)).
    lia.
Qed.
Corollary height_log t : Bal t -> ht t / 2 <= Nat.log2 (size t + 1).
Proof. intros Hb. apply Nat.log2_le_pow2; [lia|]. apply height_bound; assumption. Qed.
Corollary height_log2 t : Bal t -> ht t <= 2 * Nat.log2 (size t + 1) + 1.
Proof.
  intros Hb. pose proof (height_log t Hb). pose proof (Nat.div_mod (ht t) 2 ltac:(lia)).
  pose proof (Nat.mod_upper_bound (ht t) 2 ltac:(lia)). lia.
Qed.

(* descents: find compares with at most [ht t] entries; add and discard go down the same
   search path (they are structurally recursive on it), draw asks for at most [ht t] integers
   (BbtDraw.run_draw) *)
Lemma find_visits_le e t : find_visits e t <= ht t.
Proof.
  induction t as [|l IHl d h ls rs r IHr]; cbn [find_visits ht]; [lia|].
  destruct (e =? d)%Z; [lia|]. destruct (e <? d)%Z; lia.
Qed.

