(* Proofs about Model/Percolate.v (C14). *)
From Coq Require Import List ZArith QArith Qround Bool Arith Lia Permutation.
From EpyV Require Import Lib.Prelude Model.Percolate.
Import ListNotations.

(* ---- undirected edges: a canonical representative *)
Definition norm (e : edge) : edge := if (fst e <=? snd e)%Z then e else (snd e, fst e).

Lemma zpair_eqb_eq a b : zpair_eqb a b = true <-> a = b.
Proof.
  destruct a as [a1 a2], b as [b1 b2]; unfold zpair_eqb; cbn [fst snd].
  rewrite andb_true_iff, !Z.eqb_eq. split; [intros [-> ->]; reflexivity | intros H; inversion H; auto].
Qed.

Lemma same_edge_norm e f : same_edge e f = true <-> norm e = norm f.
Proof.
  destruct e as [a b], f as [c d]. unfold same_edge, norm. cbn [fst snd].
  rewrite orb_true_iff, !zpair_eqb_eq.
  destruct (Z.leb_spec a b) as [Hab|Hab], (Z.leb_spec c d) as [Hcd|Hcd]; split; intros H.
  all: try (destruct H as [H|H]; injection H as H1 H2; f_equal; lia).
  all: injection H as H1 H2; first [left; f_equal; lia | right; f_equal; lia].
Qed.

Lemma same_edge_refl e : same_edge e e = true.
Proof. apply same_edge_norm; reflexivity. Qed.

(* a networkx edge list never names the same undirected edge twice *)
Definition NoDupU (es : list edge) : Prop := NoDup (map norm es).

Lemma NoDupU_perm a b : Permutation a b -> NoDupU a -> NoDupU b.
Proof. unfold NoDupU; intros P H. eapply Permutation_NoDup; [apply Permutation_map; exact P | exact H]. Qed.

Lemma NoDupU_NoDup es : NoDupU es -> NoDup es.
Proof. unfold NoDupU. apply NoDup_map_inv. Qed.

(* ---- the shuffle oracle yields a permutation of the list *)
Lemma map_nth_seq {A} (d : A) (l : list A) : map (fun i => nth i l d) (seq 0 (length l)) = l.
Proof.
  induction l as [|x l IH]; [reflexivity|].
  cbn [length seq map nth]. f_equal.
  rewrite <- seq_shift, map_map. exact IH.
Qed.

Definition is_perm (perm : list nat) (n : nat) : Prop := Permutation perm (seq 0 n).

Lemma apply_perm_Permutation {A} (d : A) l perm :
  is_perm perm (length l) -> Permutation (apply_perm d l perm) l.
Proof.
  intros P. unfold apply_perm.
  transitivity (map (fun i => nth i l d) (seq 0 (length l)));
    [apply Permutation_map; exact P | rewrite map_nth_seq; reflexivity].
Qed.

(* ---- removing the unoccupied edges leaves exactly the occupied ones *)
Lemma filter_perm {A} (f : A -> bool) a b : Permutation a b -> Permutation (filter f a) (filter f b).
Proof.
  induction 1 as [|x a b P IH|x y a|a b c P1 IH1 P2 IH2]; cbn.
  - constructor.
  - destruct (f x); [constructor|]; exact IH.
  - destruct (f x), (f y); try apply perm_swap; reflexivity.
  - eapply perm_trans; eassumption.
Qed.

Lemma filter_none {A} (f : A -> bool) l : (forall x, In x l -> f x = false) -> filter f l = [].
Proof.
  induction l as [|x l IH]; cbn; intros H; [reflexivity|].
  rewrite (H x (or_introl eq_refl)). apply IH. intros y Hy. apply H. right; exact Hy.
Qed.

Lemma filter_all {A} (f : A -> bool) l : (forall x, In x l -> f x = true) -> filter f l = l.
Proof.
  induction l as [|x l IH]; cbn; intros H; [reflexivity|].
  rewrite (H x (or_introl eq_refl)). f_equal. apply IH. intros y Hy. apply H. right; exact Hy.
Qed.

Lemma existsb_same_in e u : In e u -> existsb (same_edge e) u = true.
Proof. intros H. apply existsb_exists. exists e. split; [exact H | apply same_edge_refl]. Qed.

Lemma NoDupU_app_disjoint o u e : NoDupU (o ++ u) -> In e o -> existsb (same_edge e) u = false.
Proof.
  unfold NoDupU. rewrite map_app. intros ND He.
  destruct (existsb (same_edge e) u) eqn:E; [|reflexivity]. exfalso.
  apply existsb_exists in E. destruct E as (f & Hf & Hs). apply same_edge_norm in Hs.
  revert ND. generalize (in_map norm _ _ He) (in_map norm _ _ Hf). rewrite Hs.
  generalize (map norm o) (map norm u) (norm f). clear.
  intros a b x Ha Hb ND. induction a as [|y a IH]; [destruct Ha|].
  cbn in ND. inversion ND as [|? ? Hn ND']; subst.
  destruct Ha as [->|Ha]; [apply Hn, in_or_app; right; exact Hb | exact (IH Ha ND')].
Qed.

Lemma remove_edges_app o u es :
  NoDupU es -> Permutation (o ++ u) es -> Permutation (remove_edges es u) o.
Proof.
  intros ND P. unfold remove_edges.
  set (f := fun e : edge => negb (existsb (same_edge e) u)).
  assert (NDou : NoDupU (o ++ u)) by (eapply NoDupU_perm; [symmetry; exact P | exact ND]).
  transitivity (filter f (o ++ u)); [apply filter_perm; symmetry; exact P|].
  rewrite filter_app, (filter_none f u), (filter_all f o), app_nil_r; [reflexivity| |].
  - intros e He. subst f. cbn. rewrite (NoDupU_app_disjoint o u e NDou He). reflexivity.
  - intros e He. subst f. cbn. rewrite (existsb_same_in e u He). reflexivity.
Qed.

(* ---- the theorems of C14, about [percolate] *)
Section Percolate.
  Variables (nodes : list Z) (es : list edge) (perm : list nat) (T : Q).
  Hypothesis Hnd : NoDupU es.
  Hypothesis Hperm : is_perm perm (length es).
  Let m := percolate nodes es perm T.
  Let occ := occ_of (length es) T.

  Lemma percolate_unfold :
    m = {| occupied := firstn occ (apply_perm (0,0)%Z es perm);
           unoccupied := skipn occ (apply_perm (0,0)%Z es perm);
           nodes_after := nodes;
           edges_after := remove_edges es (skipn occ (apply_perm (0,0)%Z es perm)) |}.
  Proof. reflexivity. Qed.

  Lemma partition_perm : Permutation (occupied m ++ unoccupied m) es.
  Proof. rewrite percolate_unfold; cbn. rewrite firstn_skipn. apply apply_perm_Permutation. exact Hperm. Qed.

  Lemma partition_disjoint : forall e, In e (occupied m) -> In e (unoccupied m) -> False.
  Proof.
    intros e Ho Hu.
    assert (ND : NoDup (occupied m ++ unoccupied m)).
    { eapply Permutation_NoDup; [symmetry; apply partition_perm | apply NoDupU_NoDup; exact Hnd]. }
    revert ND Ho Hu. generalize (occupied m) (unoccupied m). clear.
    intros a b ND Ha Hb. induction a as [|x a IH]; [destruct Ha|].
    cbn in ND. inversion ND as [|? ? Hn ND']; subst.
    destruct Ha as [->|Ha]; [apply Hn, in_or_app; right; exact Hb | exact (IH ND' Ha)].
  Qed.

  Lemma edges_after_perm : Permutation (edges_after m) (occupied m).
  Proof. rewrite percolate_unfold; cbn. apply remove_edges_app; [exact Hnd|]. rewrite firstn_skipn. apply apply_perm_Permutation, Hperm. Qed.

  Lemma apply_perm_length : length (apply_perm (0,0)%Z es perm) = length es.
  Proof. apply Permutation_length, apply_perm_Permutation, Hperm. Qed.

  Lemma occupied_length : length (occupied m) = Nat.min occ (length es).
  Proof. rewrite percolate_unfold; cbn. rewrite firstn_length, apply_perm_length. reflexivity. Qed.

  Lemma edges_after_count : length (edges_after m) = Nat.min occ (length es).
  Proof. rewrite (Permutation_length edges_after_perm). apply occupied_length. Qed.

  Lemma edges_after_subset : forall e, In e (edges_after m) -> In e es.
  Proof.
    intros e He. eapply Permutation_in; [apply partition_perm|].
    apply in_or_app; left. eapply Permutation_in; [apply edges_after_perm | exact He].
  Qed.

  Lemma edges_after_NoDupU : NoDupU (edges_after m).
  Proof.
    assert (H : NoDupU (occupied m ++ unoccupied m)) by (eapply NoDupU_perm; [symmetry; apply partition_perm | exact Hnd]).
    eapply NoDupU_perm; [symmetry; apply edges_after_perm|].
    unfold NoDupU in *. rewrite map_app in H. revert H. generalize (map norm (occupied m)) (map norm (unoccupied m)). clear.
    intros a b. induction a as [|x a IH]; cbn; intros H; [constructor|].
    inversion H as [|? ? Hn H']; subst. constructor; [|exact (IH H')].
    intros Hx. apply Hn, in_or_app. left; exact Hx.
  Qed.
End Percolate.

(* ---- floor(M*T) *)
Lemma inj_nonneg M : (0 <= inject_Z (Z.of_nat M))%Q.
Proof. change 0%Q with (inject_Z 0). rewrite <- Zle_Qle. lia. Qed.

Lemma occ_of_le M T : (0 <= T)%Q -> (T <= 1)%Q -> (occ_of M T <= M)%nat.
Proof.
  intros H0 H1. unfold occ_of.
  assert (Hm : (inject_Z (Z.of_nat M) * T <= inject_Z (Z.of_nat M))%Q).
  { rewrite Qmult_comm. setoid_replace (inject_Z (Z.of_nat M)) with (1 * inject_Z (Z.of_nat M))%Q at 2 by (rewrite Qmult_1_l; reflexivity).
    apply Qmult_le_compat_r; [exact H1 | apply inj_nonneg]. }
  apply Qfloor_resp_le in Hm. rewrite Qfloor_Z in Hm. lia.
Qed.

Lemma occ_of_0 M : occ_of M 0%Q = 0%nat.
Proof. unfold occ_of. rewrite Qmult_0_r. reflexivity. Qed.

Lemma occ_of_1 M : occ_of M 1%Q = M.
Proof. unfold occ_of. rewrite Qmult_1_r, Qfloor_Z. apply Nat2Z.id. Qed.

Lemma occ_of_spec M T : (0 <= T)%Q ->
  (inject_Z (Z.of_nat (occ_of M T)) <= inject_Z (Z.of_nat M) * T)%Q /\
  (inject_Z (Z.of_nat M) * T < inject_Z (Z.of_nat (occ_of M T)) + 1)%Q.
Proof.
  intros H0. unfold occ_of.
  assert (Hp : (0 <= inject_Z (Z.of_nat M) * T)%Q).
  { apply Qmult_le_0_compat; [apply inj_nonneg|exact H0]. }
  assert (Hf : (0 <= Qfloor (inject_Z (Z.of_nat M) * T))%Z).
  { change 0%Z with (Qfloor 0). apply Qfloor_resp_le. exact Hp. }
  rewrite Z2Nat.id by exact Hf. split; [apply Qfloor_le|].
  generalize (Qlt_floor (inject_Z (Z.of_nat M) * T)). rewrite inject_Z_plus. tauto.
Qed.

(* ---- equivariance: relabelling the edges commutes with taking the occupied prefix *)
Lemma prefix_equivariant {A B} (s : A -> B) k (p : list A) : firstn k (map s p) = map s (firstn k p).
Proof. apply firstn_map. Qed.
Lemma suffix_equivariant {A B} (s : A -> B) k (p : list A) : skipn k (map s p) = map s (skipn k p).
Proof. apply skipn_map. Qed.
