(* Non-vacuity of the dynamic kernel's statements.  The Gillespie loop guards the call of a selected
   entry by `len(l) > 0`, evaluated after the posted events of the interval ran; since repair F15
   (/repo 0d0f7b6) the length of a SingletonLocus is 0 once its element has left the locus it was
   taken from, so a posted event that removes the selected element makes the entry be skipped
   (dstoch_stale_skipped).  Before the repair the event function was entered on the non-member. *)
From Coq Require Import List ZArith QArith Bool Arith.
From EpyV Require Import Lib.Prelude Model.Kernel Model.KernelDyn Proofs.KernelMember Proofs.KernelDyn
  Proofs.KernelDynLoops Proofs.KernelDynRun.
Import ListNotations.
Open Scope Q_scope.

(* locus 0 = {1, 2}; the process appends one entry per element of locus 0, probability p,
   event function = program 0; program 1 removes element 1 from locus 0 *)
Definition ex_entry (p : Q) (e : elem) : dyn_event unit :=
  {| de_value := e; de_p := p; de_prog := 0; de_name := 0; de_member := fun lc _ => mem e (nth 0 lc []) |}.

Definition ex_D (prog0 setup : list action) (maxt : Q) : dtable unit :=
  {| d_tb := {| t_maxtime := maxt; t_loci := [(0%nat, [EN 1; EN 2])];
                t_procs := [{| p_events := []; p_setup := setup |}];
                t_progs := [static prog0; static [ALDiscard 0 (EN 1)]];
                t_world := tt; t_equil := fun _ _ => false |};
     d_dyn := fun pi lc _ => if Nat.eqb pi 0 then map (ex_entry 1) (nth 0 lc []) else [] |}.

(* every entry passes its own test in the state it is generated from *)
Lemma ex_sound prog0 setup maxt pi lc w d :
  In d (d_dyn (ex_D prog0 setup maxt) pi lc w) -> de_member d lc w = true.
Proof.
  cbn [ex_D d_dyn]. destruct (Nat.eqb pi 0); [|intros []]. intros H. apply in_map_iff in H.
  destruct H as [e [<- He]]. cbn [ex_entry de_member]. apply mem_In. exact He.
Qed.

(* Gillespie: the entry for element 1 is selected at time 0 for time 1; the event posted for 1/2
   (program 1) runs first and removes element 1; `len(l) > 0` then fails for the stale entry: no call,
   no tap, not counted (the only event of the run is the posted one); before repair F15 the event
   function was entered here on the non-member 1 *)
Example dstoch_stale_skipped :
  let D := ex_D [] [APost (1#2) 1%nat] 1 in
  let r := dstoch_run D 10 10 [1#2; 1#4] [2] [] in
  r_out r = [OPosted 0 (1 # 2); OHandler 1 (1 # 2) (1 # 2) (EN 0) None; OTap (1 # 2) 0 (NPost 1) (EN 0)]
  /\ r_time r = 1 /\ r_events r = 1%nat /\ r_stuck r = false /\ loci (r_final r) = [[EN 2]].
Proof. cbv zeta. repeat split; vm_compute; reflexivity. Qed.

(* same run with the other entry selected (r2 = 3/4): element 2 is still a member and is fired *)
Example dstoch_live_fired :
  let D := ex_D [] [APost (1#2) 1%nat] 1 in
  let r := dstoch_run D 10 10 [1#2; 3#4] [2] [] in
  r_out r = [OPosted 0 (1 # 2); OHandler 1 (1 # 2) (1 # 2) (EN 0) None; OTap (1 # 2) 0 (NPost 1) (EN 0);
             OHandler 0 1 1 (EN 2) (Some true); OTap 1 0 (NEv 0 0) (EN 2)]
  /\ r_events r = 2%nat /\ r_stuck r = false.
Proof. cbv zeta. repeat split; vm_compute; reflexivity. Qed.

(* synchronous: both entries are selected (p = 1); the event function of the first removes
   element 2; when the turn of the second comes its test fails: skipped, not counted *)
Example dsync_skip_example :
  let r := dsync_run (ex_D [ALDiscard 0 (EN 2)] [] 2) 10 10 [1#2; 1#2] [] in
  r_out r = [OHandler 0 1 1 (EN 1) (Some true); OTap 1 0 (NEv 0 0) (EN 1)]
  /\ r_events r = 1%nat /\ r_steps r = 1%nat /\ r_stuck r = false /\ loci (r_final r) = [[EN 1]].
Proof. cbv zeta. repeat split; vm_compute; reflexivity. Qed.
