(* Non-vacuity of the dynamic kernel's statements, and the witness that the proviso of the
   stochastic membership theorem (Proofs/KernelDynRun.v, dstoch_run_member: posted events are
   inert) cannot be dropped: the Gillespie loop calls an appended entry's event function on the
   stored value without re-testing `e in l` (len(SingletonLocus) is always 1), so a posted event
   that fires between selection and call and removes the element from the underlying locus
   leads to a call on a non-member.  No shipped model posts such an event next to
   SIR_VariableInfection; a user subclass with posted removals would. *)
From Coq Require Import List ZArith QArith Bool Arith.
From EpyV Require Import Lib.Prelude Model.Kernel Model.KernelDyn Proofs.KernelMember Proofs.KernelDyn
  Proofs.KernelDynLoops Proofs.KernelDynRun.
Import ListNotations.
Open Scope Q_scope.

(* locus 0 = {1, 2}; the process appends one entry per element of locus 0, probability p,
   event function = program 0; program 1 removes element 1 from locus 0 *)
Definition ex_entry (p : Q) (e : elem) : dyn_event unit :=
  {| de_value := e; de_p := p; de_prog := 0; de_name := 0; de_member := fun lc _ => mem e (nth 0 lc []) |}.

Definition ex_D (prog0 setup : list action) (maxt : Q) : dtable unit :=
  {| d_tb := {| t_maxtime := maxt; t_loci := [(0%nat, [EN 1; EN 2])];
                t_procs := [{| p_events := []; p_setup := setup |}];
                t_progs := [static prog0; static [ALDiscard 0 (EN 1)]];
                t_world := tt; t_equil := fun _ _ => false |};
     d_dyn := fun pi lc _ => if Nat.eqb pi 0 then map (ex_entry 1) (nth 0 lc []) else [] |}.

(* every entry passes its own test in the state it is generated from *)
Lemma ex_sound prog0 setup maxt pi lc w d :
  In d (d_dyn (ex_D prog0 setup maxt) pi lc w) -> de_member d lc w = true.
Proof.
  cbn [ex_D d_dyn]. destruct (Nat.eqb pi 0); [|intros []]. intros H. apply in_map_iff in H.
  destruct H as [e [<- He]]. cbn [ex_entry de_member]. apply mem_In. exact He.
Qed.

(* Gillespie: the entry for element 1 is selected at time 0 for time 1; the event posted for 1/2
   (program 1) runs first and removes element 1; the event function is then entered on a non-member *)
Example dstoch_member_refuted :
  let D := ex_D [] [APost (1#2) 1%nat] 1 in
  let r := dstoch_run D 10 10 [1#2; 1#4] [2] [] in
  r_out r = [OPosted 0 (1 # 2); OHandler 1 (1 # 2) (1 # 2) (EN 0) None; OTap (1 # 2) 0 (NPost 1) (EN 0);
             OHandler 0 1 1 (EN 1) (Some false); OTap 1 0 (NEv 0 0) (EN 1)]
  /\ r_stuck r = false
  /\ (forall pi lc w d, In d (d_dyn D pi lc w) -> de_member d lc w = true).
Proof.
  cbv zeta. split; [vm_compute; reflexivity|]. split; [vm_compute; reflexivity|]. apply ex_sound.
Qed.

(* synchronous: both entries are selected (p = 1); the event function of the first removes
   element 2; when the turn of the second comes its test fails: skipped, not counted *)
Example dsync_skip_example :
  let r := dsync_run (ex_D [ALDiscard 0 (EN 2)] [] 2) 10 10 [1#2; 1#2] [] in
  r_out r = [OHandler 0 1 1 (EN 1) (Some true); OTap 1 0 (NEv 0 0) (EN 1)]
  /\ r_events r = 1%nat /\ r_steps r = 1%nat /\ r_stuck r = false /\ loci (r_final r) = [[EN 1]].
Proof. cbv zeta. repeat split; vm_compute; reflexivity. Qed.
