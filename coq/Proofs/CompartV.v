(* The vaccine gate of SIvR.infect (Model/CompartV.v): efficacy 1 protects, efficacy 0 changes nothing. *)
From Coq Require Import List ZArith QArith Bool Arith Lia.
From EpyV Require Import Lib.Prelude Model.Kernel Model.Loci Model.Compart Model.CompartV.
Import ListNotations.
Open Scope Q_scope.

Definition effective (w : vworld) (off t : Q) (n : Z) : bool :=
  match vacc_time w n with Some tv => Qltb (tv + off) t | None => false end.

Lemma Qltb_true x y : Qltb x y = true <-> x < y.
Proof.
  unfold Qltb. rewrite negb_true_iff. split.
  - intros H. apply Qnot_le_lt. intros Hle. apply Qle_bool_iff in Hle. congruence.
  - intros H. destruct (Qle_bool y x) eqn:E; [|reflexivity]. apply Qle_bool_iff in E. exfalso. exact (Qlt_not_le _ _ H E).
Qed.
Lemma Qltb_false x y : Qltb x y = false <-> y <= x.
Proof.
  unfold Qltb. rewrite negb_false_iff. apply Qle_bool_iff.
Qed.

(* efficacy 1, vaccine in effect: for every value the generator can return (r < 1 suffices) the
   node is not infected: no compartment change, no locus change, no mark; one gate value consumed *)
Lemma vaccine_full tbl off0 c eff off iN iV t n m kloci w r rest :
  eff == 1 -> effective w off t n = true -> vw_gate w = r :: rest -> r < 1 ->
  vhandler tbl off0 (VInfect c eff off iN iV) t (EE n m) kloci w = (pop_gate w, []).
Proof.
  intros He Hv Hg Hr. unfold effective in Hv. cbn [vhandler]. rewrite Hv, Hg.
  assert (E : Qltb eff r = false). { apply Qltb_false. rewrite He. apply Qlt_le_weak. exact Hr. }
  rewrite E. reflexivity.
Qed.

(* efficacy 0: whatever the vaccination status, for every gate value r > 0 the node is infected exactly as by
   the ungated branch: same compartment change and the same occupied-edge mark (only the plain locus differs) *)
Lemma vaccine_none tbl off0 c eff off iN iV t n m kloci w :
  eff == 0 -> (forall r rest, vw_gate w = r :: rest -> 0 < r) -> (effective w off t n = true -> vw_gate w <> []) ->
  let res := fst (vhandler tbl off0 (VInfect c eff off iN iV) t (EE n m) kloci w) in
  cw_st (vw_base res) = fst (change_compartment tbl (cw_st (vw_base w)) n c) /\
  cw_occ (vw_base res) = mark_occupied (n, m) t (cw_occ (vw_base w)) /\
  cw_hit (vw_base res) = cw_hit (vw_base w).
Proof.
  intros He Hpos Hne. cbn [vhandler]. fold (effective w off t n).
  destruct (effective w off t n) eqn:Hv.
  - destruct (vw_gate w) as [|r rest] eqn:Hg; [exfalso; apply (Hne eq_refl); reflexivity|].
    assert (E : Qltb eff r = true). { apply Qltb_true. rewrite He. exact (Hpos r rest eq_refl). }
    rewrite E. cbn. repeat split; reflexivity.
  - cbn. repeat split; reflexivity.
Qed.

(* an unvaccinated node, or one whose vaccine has not taken effect, is infected without consulting the generator *)
Lemma vaccine_not_effective tbl off0 c eff off iN iV t n m kloci w :
  effective w off t n = false ->
  vhandler tbl off0 (VInfect c eff off iN iV) t (EE n m) kloci w = v_infect tbl off0 c iN t n m kloci w.
Proof. intros Hv. unfold effective in Hv. cbn [vhandler]. rewrite Hv. reflexivity. Qed.
