(* C08: the contact-forest invariant of a run of an at-most-once model, and its consequences. *)
From Coq Require Import List ZArith QArith Bool Arith Lia Relations Sorted.
From EpyV Require Import Lib.Prelude Model.Kernel Model.Loci Model.Compart
  Proofs.KernelBase Proofs.KernelMember Proofs.LociBase Proofs.LociLocus Proofs.LociInv
  Proofs.CompartRun Proofs.CompartSort Proofs.CompartInv Proofs.CompartDiagram Proofs.ContactBase Proofs.ContactForest.
Import ListNotations.
Close Scope Q_scope.

Definition rights (sp : spec) : list Z :=
  match sp with EdgeLocus _ r => [r] | MultiEdgeLocus _ rs => rs | NodeLocus _ => [] end.
Definition marking (h : hkind) : bool := match h with HLeft _ true _ => true | _ => false end.

(* the compartments out of which a marking (infection) event takes a node *)
Definition sus (cm : cmodel) : list Z :=
  flat_map (fun ev => if marking (ce_kind ev) then [locus_left (nth (ce_locus ev) (cm_specs cm) default_spec)] else [])
           (cm_events cm).

(* a node is infected at most once: no event function of the table (stochastic or posted) moves a
   node INTO a susceptible compartment, and the infector's compartments are not susceptible ones *)
Definition once_model (cm : cmodel) : bool :=
  forallb (fun h => forallb (fun c => negb (zmem c (sus cm))) (kind_target h)) (cm_kinds cm)
  && forallb (fun ev => if marking (ce_kind ev)
                        then forallb (fun r => negb (zmem r (sus cm))) (rights (nth (ce_locus ev) (cm_specs cm) default_spec))
                        else true) (cm_events cm).

Lemma once_target cm h c : once_model cm = true -> In h (cm_kinds cm) -> In c (kind_target h) -> ~ In c (sus cm).
Proof.
  unfold once_model. rewrite andb_true_iff. intros [H _] Hh Hc. rewrite forallb_forall in H. specialize (H h Hh).
  rewrite forallb_forall in H. specialize (H c Hc). apply negb_true_iff, zmem_false in H. exact H.
Qed.

Lemma once_rights cm cev r : once_model cm = true -> In cev (cm_events cm) -> marking (ce_kind cev) = true ->
  In r (rights (nth (ce_locus cev) (cm_specs cm) default_spec)) -> ~ In r (sus cm).
Proof.
  unfold once_model. rewrite andb_true_iff. intros [_ H] Hin Hm Hr. rewrite forallb_forall in H. specialize (H cev Hin).
  rewrite Hm, forallb_forall in H. specialize (H r Hr). apply negb_true_iff, zmem_false in H. exact H.
Qed.

Lemma sus_left cm cev : In cev (cm_events cm) -> marking (ce_kind cev) = true ->
  In (locus_left (nth (ce_locus cev) (cm_specs cm) default_spec)) (sus cm).
Proof. intros Hin Hm. unfold sus. apply in_flat_map. exists cev. split; [exact Hin|]. rewrite Hm. left. reflexivity. Qed.

Lemma right_ok_rights sp s m : right_ok sp s m -> exists r, getc s m = Some r /\ In r (rights sp).
Proof.
  destruct sp as [c|l r|l rs]; cbn [right_ok rights]; [intros [] | intros H; exists r; split; [exact H | left; reflexivity] | exact (fun H => H)].
Qed.

Lemma marks_marking h e nm : marks h e = Some nm -> marking h = true /\ e = EE (fst nm) (snd nm).
Proof. destruct h as [c|c [|] post| |], e as [a|a b]; cbn; intros E; inversion E; split; reflexivity. Qed.

Lemma SS_before {A} (R : A -> A -> Prop) l1 x l2 : StronglySorted R (l1 ++ x :: l2) -> forall y, In y l1 -> R y x.
Proof.
  induction l1 as [|z l1 IH]; intros H y Hy; [destruct Hy|]. cbn [app] in H. inversion H as [|? ? H1 H2]; subst.
  destruct Hy as [<-|Hy]; [|apply IH; assumption]. rewrite Forall_forall in H2. apply H2, in_app_iff. right. left. reflexivity.
Qed.

Section CF.
Variable cm : cmodel.
Variables (nodes : list Z) (edges : list (Z * Z)) (init : list (Z * Z)) (maxtime : Q) (monitor : option Q).
Let tb := mk_table cm nodes edges init maxtime monitor.
Let st0 := Loci.setup (cm_specs cm) nodes edges init.

Definition proj_hit (x : Z * Z * Q) : Z * Q := (child x, snd x).

(* the invariant.  Edges are recorded as (infected, infector, time). *)
Definition Forest (w : cworld) : Prop :=
  let st := cw_st w in
  (* a node that is (still) susceptible touches no occupied edge *)
  (forall v c, getc st v = Some c -> In c (sus cm) -> forall x, In x (cw_occ w) -> child x <> v /\ parent x <> v)
  (* the hitting times are those of the occupied edges, on their infected ends, in the same order *)
  /\ cw_hit w = map proj_hit (cw_occ w)
  (* occupied pairs are edges of the network *)
  /\ (forall x, In x (cw_occ w) -> adjb edges (child x) (parent x) = true)
  (* each occupied edge joined a node no earlier occupied edge touches to another node *)
  /\ forestL (cw_occ w)
  (* a susceptible node has been in that compartment since set-up *)
  /\ (forall v c, getc st v = Some c -> In c (sus cm) -> getc st0 v = Some c)
  (* the infected end of an occupied edge was susceptible at set-up: it is not a seed *)
  /\ (forall x, In x (cw_occ w) -> exists c, In c (sus cm) /\ getc st0 (child x) = Some c).

Definition K (s : st cworld) : Prop := J cm nodes edges s /\ QE s /\ Forest (world s).

Lemma move_sus_back h t e kl w v c : once_model cm = true -> In h (cm_kinds cm) ->
  getc (cw_st (fst (handler (cm_specs cm) 0 h t e kl w))) v = Some c -> In c (sus cm) -> getc (cw_st w) v = Some c.
Proof.
  intros Ho Hh. rewrite handler_st. destruct (moved h e) as [[n c0]|] eqn:M; [|tauto].
  rewrite cc_getc. destruct (getc_raises (cw_st w) n); [tauto|]. destruct (Z.eqb v n); [|tauto].
  intros E Hc. inversion E; subst c0. exfalso. exact (once_target cm h c Ho Hh (moved_target h e n c M) Hc).
Qed.

(* what is known at a call that marks *)
Lemma marking_call (s : st cworld) c h n m : wf_model cm = true -> once_model cm = true -> K s -> call_ok tb c s ->
  call_kind cm c = Some h -> marks h (snd (call_args c)) = Some (n, m) ->
  let st := cw_st (world s) in
  (exists x, c = CEv x (clock s) (EE n m))
  /\ (exists l, In l (sus cm) /\ getc st n = Some l) /\ (exists r, ~ In r (sus cm) /\ getc st m = Some r)
  /\ adjb edges n m = true /\ getc_raises st n = false.
Proof.
  intros Hwf Ho (Hj & Hq & Hf) Hok Ek Em. cbv zeta.
  destruct c as [x t e|hh]; [|cbn [call_args snd] in Em; rewrite (posted_no_marks cm nodes edges init maxtime monitor s hh h Hq Hok) in Em; discriminate].
  cbn [call_args snd] in Em.
  destruct (event_call cm nodes edges init maxtime monitor s x t e Hwf Hj Hok) as (j & cev & le & Ex & En & Hin & He & Ht & Hc & _).
  unfold call_kind in Ek. subst x. cbn [call_args fst snd mk_ev ev_prog] in Ek.
  rewrite (event_kind cm j cev En) in Ek. inversion Ek; subst h.
  destruct (marks_marking _ _ _ Em) as [Hm Ee]. cbn [fst snd] in Ee.
  destruct (ce_kind cev) as [c1|c1 mark post| |] eqn:Ekind; try discriminate.
  destruct (through_infectious_edge cm nodes edges init maxtime monitor s _ t e Hwf Hj Hok j cev c1 mark post eq_refl En Ekind)
    as (n' & m' & Ee' & Hedge & Hn & Hr).
  rewrite Ee in Ee'. inversion Ee'; subst n' m'.
  assert (Hmk : marking (ce_kind cev) = true) by (rewrite Ekind; exact Hm).
  destruct (right_ok_rights _ _ _ Hr) as [r [Hr1 Hr2]].
  assert (Hadj : adjb edges n m = true) by (apply adjb_spec; exact Hedge).
  split; [exists (mpi monitor, j, mk_ev j cev); rewrite Hc, Ee; reflexivity|].
  split; [eexists; split; [exact (sus_left cm cev Hin Hmk) | exact Hn]|].
  split; [exists r; split; [exact (once_rights cm cev r Ho Hin Hmk Hr2) | exact Hr1]|].
  split; [exact Hadj|].
  destruct Hj as (_ & [[G1 _] _] & _ & He' & _). unfold getc_raises. apply orb_false_iff. split.
  - apply negb_false_iff, has_node_In. rewrite <- He' in Hedge. destruct Hedge as [H|H]; apply G1 in H; tauto.
  - unfold getc in Hn. destruct (st_attr (cw_st (world s)) n); [reflexivity | discriminate].
Qed.

Lemma K_sched s s' : K s -> sched s s' -> K s'.
Proof.
  intros (Hj & Hq & Hf) Hs. split; [eapply J_sched; eassumption|]. split; [eapply QE_sched; eassumption|].
  destruct Hs as (_ & -> & _). exact Hf.
Qed.

Lemma K_call s c : wf_model cm = true -> once_model cm = true -> K s -> call_ok tb c s -> K (after tb c s).
Proof.
  intros Hwf Ho Hk Hok. pose proof Hk as (Hj & Hq & Hf).
  split; [apply J_call; [apply wf_model_loci, Hwf | exact Hj]|]. split; [apply QE_call; assumption|].
  unfold tb. rewrite after_world. destruct (call_kind cm c) as [h|] eqn:Ek; [|exact Hf].
  assert (Hh : In h (cm_kinds cm)) by (eapply nth_error_In; exact Ek).
  set (t := snd (fst (call_args c))). set (e := snd (call_args c)).
  set (w' := fst (handler (cm_specs cm) 0 h t e (loci s) (world s))).
  assert (Back : forall v c0, getc (cw_st w') v = Some c0 -> In c0 (sus cm) -> getc (cw_st (world s)) v = Some c0)
    by (intros v c0; apply move_sus_back; assumption).
  destruct Hf as (F1 & F3 & F4 & F5 & F8 & F6).
  destruct (marks h e) as [[n m]|] eqn:Em.
  - destruct (marking_call s c h n m Hwf Ho Hk Hok Ek Em) as ((x & Ec) & (l & Hl & Hn) & (r & Hr & Hm) & Hadj & Hraise).
    assert (Et : t = clock s) by (unfold t; rewrite Ec; reflexivity).
    assert (Fresh : forall y, In y (cw_occ (world s)) -> child y <> n /\ parent y <> n) by (exact (F1 n l Hn Hl)).
    assert (NotHit : ~ In n (map fst (cw_hit (world s)))).
    { rewrite F3, map_map. intros H. apply in_map_iff in H. destruct H as [y [E Hy]]. exact (proj1 (Fresh y Hy) E). }
    assert (Eo : cw_occ w' = cw_occ (world s) ++ [(n, m, t)]).
    { unfold w'. rewrite handler_occ, Em. apply mark_occupied_fresh. exact Fresh. }
    assert (Eh : cw_hit w' = cw_hit (world s) ++ [(n, t)]).
    { unfold w'. rewrite handler_hit, Em. cbn [fst]. apply mark_hit_fresh. exact NotHit. }
    destruct (marks_moved h e n m Em) as [c1 Mv].
    assert (Hc1 : ~ In c1 (sus cm)) by (eapply once_target; [exact Ho | exact Hh | eapply moved_target; exact Mv]).
    assert (Gn : getc (cw_st w') n = Some c1).
    { unfold w'. rewrite handler_st, Mv, cc_getc, Hraise, Z.eqb_refl. reflexivity. }
    assert (Hnm : n <> m) by (intros ->; rewrite Hn in Hm; inversion Hm; subst; contradiction).
    unfold Forest. cbv zeta. rewrite Eo, Eh. refine (conj _ (conj _ (conj _ (conj _ (conj _ _))))).
    + intros v c0 Hv Hc0 y Hy. pose proof (Back v c0 Hv Hc0) as Hv0.
      apply in_app_or in Hy. destruct Hy as [Hy|[<-|[]]]; [exact (F1 v c0 Hv0 Hc0 y Hy)|]. cbn [child parent fst snd].
      split; intros <-; [rewrite Gn in Hv; inversion Hv; subst; contradiction | rewrite Hm in Hv0; inversion Hv0; subst; contradiction].
    + rewrite map_app, F3. reflexivity.
    + intros y Hy. apply in_app_or in Hy. destruct Hy as [Hy|[<-|[]]]; [apply F4, Hy | exact Hadj].
    + apply forestL_snoc; [exact F5 | exact Hnm|]. intros y Hy. apply Fresh, Hy.
    + intros v c0 Hv Hc0. apply F8; [apply Back; assumption | exact Hc0].
    + intros y Hy. apply in_app_or in Hy. destruct Hy as [Hy|[<-|[]]]; [apply F6, Hy|].
      exists l. split; [exact Hl | exact (F8 n l Hn Hl)].
  - assert (Eo : cw_occ w' = cw_occ (world s)) by (unfold w'; rewrite handler_occ, Em; reflexivity).
    assert (Eh : cw_hit w' = cw_hit (world s)) by (unfold w'; rewrite handler_hit, Em; reflexivity).
    unfold Forest. cbv zeta. rewrite Eo, Eh. refine (conj _ (conj F3 (conj F4 (conj F5 (conj _ F6))))).
    + intros v c0 Hv Hc0. apply (F1 v c0); [apply Back; assumption | exact Hc0].
    + intros v c0 Hv Hc0. apply F8; [apply Back; assumption | exact Hc0].
Qed.

Lemma K_setup rs ls ds : wf_model cm = true -> graph_okb nodes edges = true -> init_ok cm nodes init = true ->
  K (setup_state tb rs ls ds).
Proof.
  intros Hwf Hg Hi. split; [apply J_setup; [apply wf_model_loci, Hwf | exact Hg | exact Hi]|]. split; [apply QE_setup|].
  destruct (setup_state_lw tb rs ls ds (mk_table_post_only cm nodes edges init maxtime monitor)) as [_ B]. rewrite B.
  unfold tb, mk_table. cbn [t_world]. unfold Forest. cbn [cw_st cw_occ cw_hit].
  refine (conj _ (conj eq_refl (conj _ (conj I (conj _ _))))).
  - intros v c _ _ x [].
  - intros x [].
  - intros v c H _. exact H.
  - intros x [].
Qed.

Theorem K_steps rs ls ds cs s : wf_model cm = true -> once_model cm = true -> graph_okb nodes edges = true ->
  init_ok cm nodes init = true -> Steps tb (setup_state tb rs ls ds) cs s -> K s /\ Forall (fun sc => K (fst sc)) cs.
Proof.
  intros Hwf Ho Hg Hi H.
  exact (Steps_inv tb K K_sched (fun s c Hk Hok => K_call s c Hwf Ho Hk Hok) _ cs s (K_setup rs ls ds Hwf Hg Hi) H).
Qed.

(* ------------------------------------------------------------------ consequences of the invariant *)
(* every ever-marked node has exactly one occupied edge on which it is the infected end, and that
   edge carries the node's hitting time *)
Theorem unique_parent w n t : Forest w -> In (n, t) (cw_hit w) ->
  exists m, In (n, m, t) (cw_occ w) /\ forall m' t', In (n, m', t') (cw_occ w) -> m' = m /\ t' = t.
Proof.
  intros (_ & F3 & _ & F5 & _) H. rewrite F3 in H. apply in_map_iff in H. destruct H as [[[a m] t'] [E Hx]].
  unfold proj_hit in E. cbn [child fst snd] in E. inversion E; subst a t'. exists m. split; [exact Hx|].
  intros m' t' H'. destruct (forestL_functional _ F5 n m' m t' t H' Hx). split; assumption.
Qed.

Theorem hit_iff_child w n : Forest w -> (In n (map fst (cw_hit w)) <-> In n (map child (cw_occ w))).
Proof. intros (_ & F3 & _). rewrite F3, map_map. reflexivity. Qed.

Theorem hit_NoDup w : Forest w -> NoDup (map fst (cw_hit w)).
Proof.
  intros (_ & F3 & _ & F5 & _). rewrite F3, map_map. change (fun x => fst (proj_hit x)) with child.
  revert F5. generalize (cw_occ w) as occ. clear. induction occ as [|x occ IH]; intros F5; [constructor|]. destruct F5 as (_ & F2 & F3').
  cbn [map]. constructor; [|apply IH, F3']. intros H. apply in_map_iff in H. destruct H as [y [E Hy]]. exact (proj1 (F2 y Hy) E).
Qed.

(* seeds carry no hitting time, and a node that is still susceptible touches no occupied edge *)
Theorem hit_not_seed w n t : Forest w -> In (n, t) (cw_hit w) -> exists c, In c (sus cm) /\ getc st0 n = Some c.
Proof.
  intros F H. destruct (unique_parent w n t F H) as [m [Hx _]]. destruct F as (_ & _ & _ & _ & _ & F6). exact (F6 _ Hx).
Qed.

(* the infector of an occupied edge: if it has a hitting time at all, its own (unique) occupied edge
   comes earlier in the record *)
Theorem infector_earlier w o1 x o2 t' : Forest w -> cw_occ w = o1 ++ x :: o2 -> In (parent x, t') (cw_hit w) ->
  exists m', In (parent x, m', t') o1.
Proof.
  intros F E H. destruct (unique_parent w _ t' F H) as [m' [Hy _]]. destruct F as (_ & _ & _ & F5 & _).
  rewrite E in Hy, F5. exists m'. exact (parent_earlier o1 x o2 _ F5 Hy eq_refl).
Qed.

(* skeletonise(): the full node set with exactly the edges whose OCCUPIED flag is set *)
Definition occupiedb (w : cworld) (e : Z * Z) : bool := existsb (fun x => undirected_eqb (fst x) e) (cw_occ w).
Definition skeleton (w : cworld) : list Z * list (Z * Z) :=
  (st_nodes (cw_st w), filter (occupiedb w) (st_edges (cw_st w))).

Theorem skeleton_spec w : Forest w -> st_edges (cw_st w) = edges ->
  fst (skeleton w) = st_nodes (cw_st w)
  /\ (forall e, In e (snd (skeleton w)) <-> In e edges /\ exists x, In x (cw_occ w) /\ (e = (child x, parent x) \/ e = (parent x, child x)))
  /\ (forall x, In x (cw_occ w) -> In (child x, parent x) (snd (skeleton w)) \/ In (parent x, child x) (snd (skeleton w))).
Proof.
  intros (_ & _ & F4 & _) He. split; [reflexivity|].
  assert (A : forall e, In e (snd (skeleton w)) <-> In e edges /\ exists x, In x (cw_occ w) /\ (e = (child x, parent x) \/ e = (parent x, child x))).
  { intros e. unfold skeleton. cbn [snd]. rewrite filter_In, He. unfold occupiedb. rewrite existsb_exists.
    split; intros [H1 [x [Hx Hu]]]; (split; [exact H1|]); exists x; (split; [exact Hx|]).
    - apply undirected_eqb_spec in Hu. destruct x as [[a b] t], e as [e1 e2]. cbn [child parent fst snd] in *.
      destruct Hu as [Hu|Hu]; inversion Hu; subst; [left | right]; reflexivity.
    - apply undirected_eqb_spec. destruct x as [[a b] t], e as [e1 e2]. cbn [child parent fst snd] in *.
      destruct Hu as [Hu|Hu]; inversion Hu; subst; [left | right]; reflexivity. }
  split; [exact A|]. intros x Hx. pose proof (F4 x Hx) as Ha. apply adjb_spec in Ha. destruct Ha as [Ha|Ha]; [left | right]; apply A;
    (split; [exact Ha|]); exists x; (split; [exact Hx|]); [left | right]; reflexivity.
Qed.

(* ------------------------------------------------------------------ the records as functions of the calls of the run *)
(* the (infected, infector, time) a call marks *)
Definition infection (sc : st cworld * call) : list (Z * Z * Q) :=
  match call_kind cm (snd sc) with
  | Some h => match marks h (snd (call_args (snd sc))) with
              | Some nm => [(nm, snd (fst (call_args (snd sc))))]
              | None => []
              end
  | None => []
  end.
Definition infections (cs : list (st cworld * call)) : list (Z * Z * Q) := flat_map infection cs.

(* every table (SIS included): the hitting times are the marks of the run applied first-only *)
Theorem hits_first_only sA cs s : Steps tb sA cs s ->
  cw_hit (world s) = first_only (map proj_hit (infections cs)) (cw_hit (world sA)).
Proof.
  intros H. induction H as [|cs s s' H IH Hs|cs s c H IH Hok]; [reflexivity | destruct Hs as (_ & -> & _); exact IH|].
  unfold infections. rewrite flat_map_app, map_app. unfold first_only. rewrite fold_left_app.
  fold (first_only (map proj_hit (flat_map infection cs)) (cw_hit (world sA))). fold (infections cs). rewrite <- IH.
  unfold tb. rewrite after_world. cbn [flat_map]. rewrite app_nil_r. unfold infection. cbn [snd].
  destruct (call_kind cm c) as [h|]; [|reflexivity]. rewrite handler_hit.
  destruct (marks h (snd (call_args c))) as [nm|]; reflexivity.
Qed.

(* at-most-once tables: the occupied edges are exactly the marks of the run, in order *)
Theorem occ_is_infections rs ls ds cs s : wf_model cm = true -> once_model cm = true -> graph_okb nodes edges = true ->
  init_ok cm nodes init = true -> Steps tb (setup_state tb rs ls ds) cs s -> cw_occ (world s) = infections cs.
Proof.
  intros Hwf Ho Hg Hi H. induction H as [|cs s s' H IH Hs|cs s c H IH Hok].
  - destruct (setup_state_lw tb rs ls ds (mk_table_post_only cm nodes edges init maxtime monitor)) as [_ B]. rewrite B. reflexivity.
  - destruct Hs as (_ & -> & _). exact IH.
  - destruct (K_steps rs ls ds cs s Hwf Ho Hg Hi H) as [Hk _].
    unfold infections. rewrite flat_map_app. fold (infections cs). rewrite <- IH. cbn [flat_map]. rewrite app_nil_r.
    unfold tb. rewrite after_world. unfold infection. cbn [snd].
    destruct (call_kind cm c) as [h|] eqn:Ek; [|rewrite app_nil_r; reflexivity]. rewrite handler_occ.
    destruct (marks h (snd (call_args c))) as [[n m]|] eqn:Em; [|rewrite app_nil_r; reflexivity].
    destruct (marking_call s c h n m Hwf Ho Hk Hok Ek Em) as (_ & (l & Hl & Hn) & _).
    destruct Hk as (_ & _ & (F1 & _)). apply mark_occupied_fresh. exact (F1 n l Hn Hl).
Qed.

(* every occupied edge was recorded by an infection event function entered from the scheduler on
   that very pair, at the clock time of that call *)
Theorem occ_event_time rs ls ds cs s n m t : wf_model cm = true -> once_model cm = true -> graph_okb nodes edges = true ->
  init_ok cm nodes init = true -> Steps tb (setup_state tb rs ls ds) cs s -> In (n, m, t) (cw_occ (world s)) ->
  exists sc x, In sc cs /\ snd sc = CEv x t (EE n m) /\ clock (fst sc) = t /\ call_ok tb (snd sc) (fst sc).
Proof.
  intros Hwf Ho Hg Hi H Hin. rewrite (occ_is_infections rs ls ds cs s Hwf Ho Hg Hi H) in Hin.
  unfold infections in Hin. apply in_flat_map in Hin. destruct Hin as [[s1 c] [Hsc Hx]].
  destruct (K_steps rs ls ds cs s Hwf Ho Hg Hi H) as [_ Hall]. rewrite Forall_forall in Hall. pose proof (Hall _ Hsc) as Hk. cbn [fst] in Hk.
  destruct (Steps_calls tb _ _ _ H _ Hsc) as [Hok _]. cbn [fst snd] in Hok.
  unfold infection in Hx. cbn [snd] in Hx. destruct (call_kind cm c) as [h|] eqn:Ek; [|destruct Hx].
  destruct (marks h (snd (call_args c))) as [[n' m']|] eqn:Em; [|destruct Hx]. destruct Hx as [Hx|[]]. injection Hx as E1 E2 E3. subst n' m'.
  destruct (marking_call s1 c h n m Hwf Ho Hk Hok Ek Em) as ((x & Ec) & _).
  assert (Et : clock s1 = t) by (rewrite <- E3, Ec; reflexivity).
  exists (s1, c), x. cbn [fst snd]. split; [exact Hsc|]. split; [rewrite Ec, Et; reflexivity|]. split; [exact Et | exact Hok].
Qed.

(* times along the tree: whenever the times of the marking calls of the run are related by R in
   call order (R = Qle: never decreasing; R = Qlt: strictly increasing), the hitting time of an
   infector is R-related to the hitting time of the node it infected *)
Theorem times_along_tree (R : Q -> Q -> Prop) rs ls ds cs s : wf_model cm = true -> once_model cm = true ->
  graph_okb nodes edges = true -> init_ok cm nodes init = true -> Steps tb (setup_state tb rs ls ds) cs s ->
  StronglySorted R (map snd (infections cs)) ->
  forall n m t t', In (n, m, t) (cw_occ (world s)) -> In (m, t') (cw_hit (world s)) -> R t' t.
Proof.
  intros Hwf Ho Hg Hi H Hs n m t t' Hx Hm.
  destruct (K_steps rs ls ds cs s Hwf Ho Hg Hi H) as [(_ & _ & F) _].
  rewrite <- (occ_is_infections rs ls ds cs s Hwf Ho Hg Hi H) in Hs.
  destruct (in_split _ _ Hx) as [o1 [o2 E]].
  destruct (infector_earlier (world s) o1 (n, m, t) o2 t' F E Hm) as [m' Hy]. cbn [parent fst snd] in Hy.
  rewrite E, map_app in Hs. cbn [map snd] in Hs.
  apply (SS_before R (map snd o1) t (map snd o2) Hs t'). apply in_map_iff. exists (m, m', t'). split; [reflexivity | exact Hy].
Qed.

End CF.
