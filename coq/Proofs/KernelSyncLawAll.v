(* The one-step selection law of the synchronous model for EVERY table without fixed-rate events
   (any number of per-element events, on any loci): what a timestep selects is distributed as the
   concatenation, in registration order, of independent selections - one per event, each the
   image of one independent Bernoulli(p) trial per element the event's locus holds at the start
   of the step.  Generalises select_dist_single of KernelSyncLaw.v. *)
From Coq Require Import List ZArith QArith Bool Arith Lia.
From EpyV Require Import Lib.Prelude Model.Kernel Proofs.KernelMember Proofs.KernelSync Proofs.Binomial Proofs.KernelSyncLaw.
Import ListNotations.
Open Scope Q_scope.

(* ------------------------------------------------------------------ the monad laws, under prob *)
Lemma prob_bind_cons : forall A B (P : B -> bool) a q (d : dist A) (f : A -> dist B),
  prob P (bind ((a, q) :: d) f) == q * prob P (f a) + prob P (bind d f).
Proof.
  intros A B P a q d f. unfold bind. cbn [flat_map fst snd]. rewrite prob_app, prob_scale. reflexivity.
Qed.

Lemma prob_bind_ext : forall A B (P : B -> bool) (d : dist A) (f g : A -> dist B),
  (forall a q, In (a, q) d -> prob P (f a) == prob P (g a)) -> prob P (bind d f) == prob P (bind d g).
Proof.
  intros A B P. induction d as [|[a q] d IH]; intros f g H; [reflexivity|].
  rewrite !prob_bind_cons. rewrite (H a q) by (left; reflexivity).
  rewrite (IH f g) by (intros a' q' Hin; apply (H a' q'); right; exact Hin). reflexivity.
Qed.

Lemma prob_bind_app : forall A B (P : B -> bool) (d1 d2 : dist A) (f : A -> dist B),
  prob P (bind (d1 ++ d2) f) == prob P (bind d1 f) + prob P (bind d2 f).
Proof. intros A B P d1 d2 f. unfold bind. rewrite flat_map_app, prob_app. reflexivity. Qed.

Lemma prob_bind_scale : forall A B (P : B -> bool) p (d : dist A) (f : A -> dist B),
  prob P (bind (scale p d) f) == p * prob P (bind d f).
Proof.
  intros A B P p. induction d as [|[a q] d IH]; intros f.
  - cbn [scale map bind flat_map prob]. ring.
  - cbn [scale map fst snd]. fold (scale p d). rewrite !prob_bind_cons, IH. ring.
Qed.

Lemma prob_bind_assoc : forall A B C (P : C -> bool) (d : dist A) (f : A -> dist B) (g : B -> dist C),
  prob P (bind (bind d f) g) == prob P (bind d (fun a => bind (f a) g)).
Proof.
  intros A B C P. induction d as [|[a q] d IH]; intros f g; [reflexivity|].
  rewrite prob_bind_cons. change (bind ((a, q) :: d) f) with (scale q (f a) ++ bind d f).
  rewrite prob_bind_app, prob_bind_scale, IH. reflexivity.
Qed.

Lemma prob_bind_ret_l : forall A B (P : B -> bool) (a : A) (f : A -> dist B),
  prob P (bind (ret a) f) == prob P (f a).
Proof. intros A B P a f. unfold ret. rewrite prob_bind_cons. cbn [bind flat_map prob]. ring. Qed.

Lemma prob_bind_lin : forall A B (P : B -> bool) (d : dist A) (f g1 g2 : A -> dist B) c,
  (forall a, prob P (f a) == c * prob P (g1 a) + prob P (g2 a)) ->
  prob P (bind d f) == c * prob P (bind d g1) + prob P (bind d g2).
Proof.
  intros A B P. induction d as [|[a q] d IH]; intros f g1 g2 c H.
  - cbn [bind flat_map prob]. ring.
  - rewrite !prob_bind_cons, (IH f g1 g2 c H), (H a). ring.
Qed.

Lemma prob_bind_nil : forall A B (P : B -> bool) (d : dist A), prob P (bind d (fun _ => @nil (B * Q))) == 0.
Proof.
  intros A B P. induction d as [|[a q] d IH]; [reflexivity|]. rewrite prob_bind_cons, IH. cbn [prob]. ring.
Qed.

(* the order of two independent draws does not matter *)
Lemma prob_bind_swap : forall A B C (P : C -> bool) (d1 : dist A) (d2 : dist B) (h : A -> B -> dist C),
  prob P (bind d1 (fun a => bind d2 (fun b => h a b))) == prob P (bind d2 (fun b => bind d1 (fun a => h a b))).
Proof.
  intros A B C P. induction d1 as [|[a q] d1 IH]; intros d2 h.
  - transitivity 0; [reflexivity|]. symmetry. apply (prob_bind_nil B C P d2).
  - rewrite prob_bind_cons, IH. symmetry. apply prob_bind_lin. intros b. apply prob_bind_cons.
Qed.

(* ------------------------------------------------------------------ independent trials, split *)
Lemma patterns_app : forall B (P : B -> bool) l1 l2 (f : list bool -> dist B),
  prob P (bind (patterns (l1 ++ l2)) f) ==
  prob P (bind (patterns l1) (fun m1 => bind (patterns l2) (fun m2 => f (m1 ++ m2)))).
Proof.
  intros B P. induction l1 as [|p l1 IH]; intros l2 f.
  - cbn [app patterns]. rewrite prob_bind_ret_l. reflexivity.
  - cbn [app patterns]. rewrite !prob_bind_assoc. apply prob_bind_ext. intros b _ _.
    rewrite !prob_bind_assoc.
    rewrite (prob_bind_ext _ _ P (patterns (l1 ++ l2)) _ (fun m => f (b :: m)))
      by (intros m _ _; apply prob_bind_ret_l).
    rewrite (IH l2 (fun m => f (b :: m))).
    apply prob_bind_ext. intros m1 _ _. rewrite prob_bind_ret_l. reflexivity.
Qed.

Lemma rands_of_app : forall m1 m2, rands_of (m1 ++ m2) = rands_of m1 ++ rands_of m2.
Proof. intros. unfold rands_of. apply map_app. Qed.

Lemma rands_of_length : forall m, length (rands_of m) = length m.
Proof. intros. unfold rands_of. apply map_length. Qed.

(* the trials of one event read only the first |els| variates *)
Lemma spec_trials_app : forall x p els rs1 rs2, length rs1 = length els ->
  spec_trials x p els (rs1 ++ rs2) = spec_trials x p els rs1.
Proof.
  intros x p. induction els as [|e els IH]; intros rs1 rs2 H; [reflexivity|].
  destruct rs1 as [|r rs1]; [discriminate|]. injection H as H.
  cbn [spec_trials app hd tl]. rewrite (IH rs1 rs2 H). reflexivity.
Qed.

Lemma skipn_app_exact : forall A n (l1 l2 : list A), length l1 = n -> skipn n (l1 ++ l2) = l2.
Proof.
  intros A n l1 l2 H. subst n. induction l1 as [|a l1 IH]; [reflexivity|]. cbn [length app skipn]. exact IH.
Qed.

(* ------------------------------------------------------------------ the product law *)
(* independent selections, one per event, concatenated in registration order *)
Fixpoint selected_all (lc : list (list elem)) (evs : list xev) : dist (list (xev * elem)) :=
  match evs with
  | [] => ret []
  | x :: evs' => bind (selected_dist x (ev_p (snd x)) (block lc x))
                      (fun a => bind (selected_all lc evs') (fun b => ret (a ++ b)))
  end.

Definition probs_of (lc : list (list elem)) (evs : list xev) : list Q :=
  flat_map (fun x => repeat (ev_p (snd x)) (length (block lc x))) evs.

Definition probs_ok (evs : list xev) : Prop := forall x, In x evs -> 0 <= ev_p (snd x) /\ ev_p (snd x) < 2.

Lemma spec_elem_law : forall lc evs, probs_ok evs -> forall P,
  prob P (bind (patterns (probs_of lc evs)) (fun m => ret (spec_elem lc evs (rands_of m)))) ==
  prob P (selected_all lc evs).
Proof.
  intros lc. induction evs as [|x evs IH]; intros Hok P.
  - cbn [probs_of flat_map patterns spec_elem selected_all]. rewrite prob_bind_ret_l. reflexivity.
  - assert (Hx : 0 <= ev_p (snd x) /\ ev_p (snd x) < 2) by (apply Hok; left; reflexivity).
    assert (Hok' : probs_ok evs) by (intros y Hy; apply Hok; right; exact Hy).
    destruct Hx as [H0 H2].
    cbn [probs_of flat_map selected_all]. fold (probs_of lc evs).
    rewrite patterns_app, patterns_repeat.
    unfold selected_dist at 1. rewrite prob_bind_assoc.
    apply prob_bind_ext. intros m1 q1 Hin. rewrite prob_bind_ret_l.
    pose proof (masks_length _ _ _ _ Hin) as Hlen.
    (* the right-hand side: push the predicate through the concatenation *)
    rewrite (prob_bind_ret _ _ P (fun b => map (pair x) (pick m1 (block lc x)) ++ b) (selected_all lc evs)).
    rewrite <- (IH Hok' (fun b => P (map (pair x) (pick m1 (block lc x)) ++ b))).
    rewrite !prob_bind_ret. apply prob_ext_In. intros m2 q2 _. f_equal.
    cbn [spec_elem]. rewrite rands_of_app.
    rewrite spec_trials_app by (rewrite rands_of_length; exact Hlen).
    rewrite skipn_app_exact by (rewrite rands_of_length; exact Hlen).
    rewrite spec_trials_pick. rewrite <- Hlen at 1. rewrite (outcomes_rands_of _ m1 H0 H2). reflexivity.
Qed.

Section LawAll.
Context {W : Type}.
Variable tb : table W.

Lemma trial_probs_probs_of : forall lc, trial_probs tb lc = probs_of lc (per_element tb).
Proof. reflexivity. Qed.

(* Every table without fixed-rate events: the selection of a timestep is the product law *)
Theorem select_dist_all : forall (s : st W), fixed_rate tb = [] -> probs_ok (per_element tb) ->
  forall P, prob P (select_dist tb s) == prob P (selected_all (loci s) (per_element tb)).
Proof.
  intros s Hfr Hok P. unfold select_dist. rewrite trial_probs_probs_of.
  rewrite <- (spec_elem_law (loci s) (per_element tb) Hok P).
  rewrite !prob_bind_ret. apply prob_ext_In. intros m q _. f_equal.
  rewrite tranche_spec. cbn [fst]. unfold spec_tranche. rewrite Hfr.
  cbn [spec_fixed with_rands set_oracle loci rands]. rewrite app_nil_r. reflexivity.
Qed.

End LawAll.

(* ------------------------------------------------------------------ marginals *)
(* the laws are distributions *)
Lemma mass_masks : forall n p, mass (masks n p) == 1.
Proof.
  unfold mass. induction n as [|n IH]; intros p.
  - cbn [masks]. rewrite prob_ret. reflexivity.
  - cbn [masks]. rewrite prob_bind_trial.
    rewrite !(prob_bind_ret _ _ (fun _ => true)). rewrite !(IH p). ring.
Qed.

Lemma mass_selected_dist : forall X (x : X) p els, mass (selected_dist x p els) == 1.
Proof.
  intros X x p els. unfold mass, selected_dist. rewrite (prob_bind_ret _ _ (fun _ => true)). apply mass_masks.
Qed.

Lemma prob_bind_const : forall A B (P : B -> bool) (d : dist A) (f : A -> dist B) c,
  (forall a q, In (a, q) d -> prob P (f a) == c) -> prob P (bind d f) == mass d * c.
Proof.
  intros A B P. induction d as [|[a q] d IH]; intros f c H.
  - unfold mass. cbn [bind flat_map prob]. ring.
  - rewrite prob_bind_cons, (H a q) by (left; reflexivity).
    rewrite (IH f c) by (intros a' q' Hin; apply (H a' q'); right; exact Hin).
    unfold mass. cbn [prob]. ring.
Qed.

Lemma mass_selected_all : forall lc evs, mass (selected_all lc evs) == 1.
Proof.
  intros lc. induction evs as [|x evs IH].
  - unfold mass. cbn [selected_all]. rewrite prob_ret. reflexivity.
  - unfold mass. cbn [selected_all].
    rewrite (prob_bind_const _ _ (fun _ => true) _ _ 1).
    + fold (mass (selected_dist x (ev_p (snd x)) (block lc x))). rewrite mass_selected_dist. ring.
    + intros a q _. rewrite (prob_bind_ret _ _ (fun _ => true)). exact IH.
Qed.

(* The number of elements selected for the FIRST event is binomial whatever else is registered; for
   a later event the same follows for the table with the earlier events dropped, the selections
   being independent (the product form above). *)
Definition count_for (eqx : xev -> bool) (sel : list (xev * elem)) : nat := length (filter (fun xe => eqx (fst xe)) sel).

Lemma count_for_app : forall eqx a b, count_for eqx (a ++ b) = (count_for eqx a + count_for eqx b)%nat.
Proof. intros. unfold count_for. rewrite filter_app, app_length. reflexivity. Qed.

Lemma count_for_all : forall eqx x (l : list elem), eqx x = true -> count_for eqx (map (pair x) l) = length l.
Proof.
  intros eqx x l H. unfold count_for. induction l as [|e l IH]; [reflexivity|].
  cbn [map filter fst]. rewrite H. cbn [length]. rewrite IH. reflexivity.
Qed.

Lemma count_for_none : forall eqx x (l : list elem), eqx x = false -> count_for eqx (map (pair x) l) = 0%nat.
Proof.
  intros eqx x l H. unfold count_for. induction l as [|e l IH]; [reflexivity|].
  cbn [map filter fst]. rewrite H. exact IH.
Qed.

(* a selection of events none of which is the counted one contributes nothing *)
Lemma selected_all_none : forall eqx lc evs, (forall y, In y evs -> eqx y = false) ->
  forall b q, In (b, q) (selected_all lc evs) -> count_for eqx b = 0%nat.
Proof.
  intros eqx lc. induction evs as [|y evs IH]; intros Hn b q Hin.
  - cbn [selected_all ret In] in Hin. destruct Hin as [E|[]]. inversion E. reflexivity.
  - cbn [selected_all] in Hin. apply In_bind in Hin. destruct Hin as (a & qa & qb & Ha & Hin).
    apply In_bind in Hin. destruct Hin as (b' & qa' & qb' & Hb & Hin).
    cbn [ret In] in Hin. destruct Hin as [E|[]]. inversion E; subst.
    rewrite count_for_app. rewrite (IH (fun z Hz => Hn z (or_intror Hz)) b' qa' Hb).
    unfold selected_dist in Ha. apply In_bind in Ha. destruct Ha as (m & qm & qr & _ & Ha).
    cbn [ret In] in Ha. destruct Ha as [E'|[]]. inversion E'; subst.
    rewrite (count_for_none eqx y _ (Hn y (or_introl eq_refl))). reflexivity.
Qed.

Lemma prob_const : forall A (c : bool) (d : dist A), prob (fun _ => c) d == if c then mass d else 0.
Proof. intros A c d. destruct c; [reflexivity | apply prob_false]. Qed.

Lemma prob_bind_indicator : forall A B (P : B -> bool) (Q : A -> bool) (d : dist A) (f : A -> dist B),
  (forall a q, In (a, q) d -> prob P (f a) == if Q a then 1 else 0) -> prob P (bind d f) == prob Q d.
Proof.
  intros A B P Q. induction d as [|[a q] d IH]; intros f H; [reflexivity|].
  rewrite prob_bind_cons, (H a q) by (left; reflexivity).
  rewrite (IH f) by (intros a' q' Hin; apply (H a' q'); right; exact Hin).
  cbn [prob]. destruct (Q a); ring.
Qed.

Lemma selected_dist_support : forall X (x : X) p els a q, In (a, q) (selected_dist x p els) ->
  exists m, a = map (pair x) (pick m els) /\ length m = length els.
Proof.
  intros X x p els a q H. unfold selected_dist in H. apply In_bind in H. destruct H as (m & qm & qr & Hm & H).
  cbn [ret In] in H. destruct H as [E|[]]. inversion E; subst. exists m. split; [reflexivity|].
  exact (masks_length _ _ _ _ Hm).
Qed.

(* every event of the table that eqx singles out exactly once: the number of elements selected for it
   is binomial in the size of its block, whatever the other events are and wherever it stands *)
Theorem selected_all_count : forall eqx lc evs1 x evs2 k,
  eqx x = true -> (forall y, In y (evs1 ++ evs2) -> eqx y = false) ->
  prob (fun sel => Nat.eqb k (count_for eqx sel)) (selected_all lc (evs1 ++ x :: evs2)) ==
  binomial_pmf (length (block lc x)) (ev_p (snd x)) k.
Proof.
  intros eqx lc. induction evs1 as [|y evs1 IH]; intros x evs2 k Hx Hn.
  - cbn [app selected_all].
    rewrite (prob_bind_indicator _ _ _ (fun a => Nat.eqb k (count_for eqx a))).
    + rewrite <- selected_binomial with (x := x). apply prob_ext_In. intros a q Ha.
      apply selected_dist_support in Ha. destruct Ha as (m & -> & _).
      rewrite (count_for_all eqx x _ Hx), map_length. reflexivity.
    + intros a q _.
      rewrite (prob_bind_ret _ _ (fun sel => Nat.eqb k (count_for eqx sel)) (fun b => a ++ b)).
      rewrite (prob_ext_In _ _ (fun _ => Nat.eqb k (count_for eqx a))).
      * rewrite prob_const. destruct (Nat.eqb k (count_for eqx a)); [apply mass_selected_all | reflexivity].
      * intros b qb Hb. rewrite count_for_app, (selected_all_none eqx lc evs2 Hn b qb Hb), Nat.add_0_r. reflexivity.
  - cbn [app selected_all].
    assert (Hy : eqx y = false) by (apply Hn; left; reflexivity).
    rewrite (prob_bind_const _ _ _ _ _ (binomial_pmf (length (block lc x)) (ev_p (snd x)) k)).
    + rewrite mass_selected_dist. ring.
    + intros a q Ha. apply selected_dist_support in Ha. destruct Ha as (m & -> & _).
      rewrite (prob_bind_ret _ _ (fun sel => Nat.eqb k (count_for eqx sel)) (fun b => map (pair y) (pick m (block lc y)) ++ b)).
      rewrite <- (IH x evs2 k Hx (fun z Hz => Hn z (or_intror Hz))).
      apply prob_ext. intros b. rewrite count_for_app, (count_for_none eqx y _ Hy). reflexivity.
Qed.

(* ------------------------------------------------------------------ fixed-rate events *)
(* a rank drawn uniformly from a locus of n elements *)
Definition uniform (n : nat) : dist nat := map (fun k => (k, 1 / qn n)) (seq 0 n).

Lemma uniform_support : forall n k q, In (k, q) (uniform n) -> (k < n)%nat.
Proof.
  intros n k q H. unfold uniform in H. apply in_map_iff in H. destruct H as (k' & E & H).
  inversion E; subst. apply in_seq in H. lia.
Qed.

(* the oracle of the fixed-rate part, call by call: one variate per active event, and a rank - uniform
   over the locus as it is - for each success *)
Fixpoint fixed_script (lc : list (list elem)) (fevs : list xev) : dist (list bool * list nat) :=
  match fevs with
  | [] => ret ([], [])
  | x :: fevs' =>
      if active lc x then
        bind (trial (ev_p (snd x))) (fun b : bool =>
          if b then bind (uniform (length (lookup lc x))) (fun k =>
                    bind (fixed_script lc fevs') (fun md => ret (true :: fst md, k :: snd md)))
          else bind (fixed_script lc fevs') (fun md => ret (false :: fst md, snd md)))
      else fixed_script lc fevs'
  end.

(* the law claimed: each active fixed-rate event happens at most once, with its probability, on a
   uniformly drawn element of its locus, independently of the others *)
Fixpoint fixed_all (lc : list (list elem)) (fevs : list xev) : dist (list (xev * elem)) :=
  match fevs with
  | [] => ret []
  | x :: fevs' =>
      if active lc x then
        bind (trial (ev_p (snd x))) (fun b : bool =>
          if b then bind (uniform (length (lookup lc x))) (fun k =>
                    bind (fixed_all lc fevs') (fun r => ret ((x, nth k (lookup lc x) (EN 0)) :: r)))
          else fixed_all lc fevs')
      else fixed_all lc fevs'
  end.

Lemma spec_fixed_law : forall lc fevs, probs_ok fevs -> forall P,
  prob P (bind (fixed_script lc fevs) (fun md => ret (spec_fixed lc fevs (rands_of (fst md)) (snd md)))) ==
  prob P (fixed_all lc fevs).
Proof.
  intros lc. induction fevs as [|x fevs IH]; intros Hok P.
  - cbn [fixed_script fixed_all spec_fixed]. rewrite prob_bind_ret_l. reflexivity.
  - assert (Hx : 0 <= ev_p (snd x) /\ ev_p (snd x) < 2) by (apply Hok; left; reflexivity).
    assert (Hok' : probs_ok fevs) by (intros y Hy; apply Hok; right; exact Hy).
    destruct Hx as [H0 H2].
    cbn [fixed_script fixed_all]. destruct (active lc x) eqn:Ha.
    + rewrite prob_bind_assoc. apply prob_bind_ext. intros b _ _. destruct b.
      * rewrite prob_bind_assoc. apply prob_bind_ext. intros k qk Hk. apply uniform_support in Hk.
        rewrite prob_bind_assoc.
        rewrite (prob_bind_ret _ _ P (fun r => (x, nth k (lookup lc x) (EN 0)) :: r) (fixed_all lc fevs)).
        rewrite <- (IH Hok' (fun r => P ((x, nth k (lookup lc x) (EN 0)) :: r))).
        rewrite (prob_bind_ret _ _ (fun r => P ((x, nth k (lookup lc x) (EN 0)) :: r))).
        rewrite <- (prob_bind_ret _ _ P (fun md => (x, nth k (lookup lc x) (EN 0)) :: spec_fixed lc fevs (rands_of (fst md)) (snd md))).
        apply prob_bind_ext. intros md _ _. rewrite prob_bind_ret_l. cbn [fst snd].
        cbn [spec_fixed rands_of map hd tl]. rewrite Ha.
        assert (E : Qle_bool 0 (ev_p (snd x)) = true) by (apply Qle_bool_iff; exact H0). rewrite E.
        rewrite (Nat.mod_small _ _ Hk). reflexivity.
      * rewrite prob_bind_assoc. rewrite <- (IH Hok' P).
        apply prob_bind_ext. intros md _ _. rewrite prob_bind_ret_l. cbn [fst snd].
        cbn [spec_fixed rands_of map hd tl]. rewrite Ha.
        assert (E : Qle_bool 2 (ev_p (snd x)) = false).
        { destruct (Qle_bool 2 (ev_p (snd x))) eqn:E; [|reflexivity]. apply Qle_bool_iff in E.
          exfalso. exact (Qlt_not_le _ _ H2 E). }
        rewrite E. reflexivity.
    + rewrite <- (IH Hok' P). apply prob_bind_ext. intros md _ _. cbn [spec_fixed]. rewrite Ha. reflexivity.
Qed.

(* the per-element trials read only their own variates *)
Lemma spec_trials_app_le : forall x p els rs1 rs2, (length els <= length rs1)%nat ->
  spec_trials x p els (rs1 ++ rs2) = spec_trials x p els rs1.
Proof.
  intros x p. induction els as [|e els IH]; intros rs1 rs2 H; [reflexivity|].
  destruct rs1 as [|r rs1]; [cbn [length] in H; lia|]. cbn [length] in H.
  cbn [spec_trials app hd tl]. rewrite (IH rs1 rs2) by lia. reflexivity.
Qed.

Lemma skipn_app_le : forall A n (l1 l2 : list A), (n <= length l1)%nat -> skipn n (l1 ++ l2) = skipn n l1 ++ l2.
Proof.
  intros A n l1 l2 H. rewrite skipn_app. replace (n - length l1)%nat with 0%nat by lia. reflexivity.
Qed.

Lemma spec_elem_app : forall lc evs rs1 rs2, (count_elem lc evs <= length rs1)%nat ->
  spec_elem lc evs (rs1 ++ rs2) = spec_elem lc evs rs1.
Proof.
  intros lc. induction evs as [|x evs IH]; intros rs1 rs2 H; [reflexivity|].
  cbn [count_elem] in H. cbn [spec_elem].
  rewrite spec_trials_app_le by lia. rewrite skipn_app_le by lia.
  rewrite IH by (rewrite skipn_length; lia). reflexivity.
Qed.

Lemma patterns_length : forall ps m q, In (m, q) (patterns ps) -> length m = length ps.
Proof.
  induction ps as [|p ps IH]; intros m q H.
  - cbn [patterns ret In] in H. destruct H as [E|[]]. inversion E. reflexivity.
  - cbn [patterns] in H. apply In_bind in H. destruct H as (b & qa & qb & _ & H).
    apply In_bind in H. destruct H as (m' & qa' & qb' & H1 & H2).
    cbn [ret In] in H2. destruct H2 as [E|[]]. inversion E; subst. cbn [length]. rewrite (IH _ _ H1). reflexivity.
Qed.

Lemma probs_of_length : forall lc evs, length (probs_of lc evs) = count_elem lc evs.
Proof.
  intros lc. induction evs as [|x evs IH]; [reflexivity|].
  cbn [probs_of flat_map count_elem]. fold (probs_of lc evs). rewrite app_length, repeat_length, IH. reflexivity.
Qed.

Section LawFull.
Context {W : Type}.
Variable tb : table W.

(* the selection of a timestep with the whole oracle scripted: the per-element trials, then the
   fixed-rate part call by call *)
Definition select_dist_full (s : st W) : dist (list (xev * elem)) :=
  bind (patterns (probs_of (loci s) (per_element tb))) (fun m =>
    bind (fixed_script (loci s) (fixed_rate tb)) (fun md =>
      ret (fst (tranche tb (set_oracle (rands_of (m ++ fst md)) (lns s) (snd md) s))))).

(* EVERY table: what a timestep selects is the independent per-element selections in registration
   order, followed by the independent fixed-rate events *)
Theorem select_dist_full_law : forall (s : st W), probs_ok (per_element tb) -> probs_ok (fixed_rate tb) ->
  forall P, prob P (select_dist_full s) ==
            prob P (bind (selected_all (loci s) (per_element tb))
                         (fun a => bind (fixed_all (loci s) (fixed_rate tb)) (fun b => ret (a ++ b)))).
Proof.
  intros s Hpe Hfr P. unfold select_dist_full.
  (* right-hand side: replace the two product laws by the scripted oracles *)
  transitivity (prob P (bind (bind (patterns (probs_of (loci s) (per_element tb)))
                                   (fun m => ret (spec_elem (loci s) (per_element tb) (rands_of m))))
                             (fun a => bind (fixed_all (loci s) (fixed_rate tb)) (fun b => ret (a ++ b))))).
  - rewrite prob_bind_assoc. apply prob_bind_ext. intros m qm Hm. rewrite prob_bind_ret_l.
    rewrite (prob_bind_ret _ _ P (fun b => spec_elem (loci s) (per_element tb) (rands_of m) ++ b)).
    rewrite <- (spec_fixed_law (loci s) (fixed_rate tb) Hfr).
    rewrite (prob_bind_ret _ _ (fun b => P (spec_elem (loci s) (per_element tb) (rands_of m) ++ b))).
    rewrite (prob_bind_ret _ _ P).
    apply prob_ext. intros md. f_equal.
    rewrite tranche_spec. cbn [fst]. unfold spec_tranche. cbn [set_oracle loci rands draws].
    apply patterns_length in Hm. rewrite probs_of_length in Hm.
    rewrite rands_of_app.
    rewrite spec_elem_app by (rewrite rands_of_length; lia).
    rewrite skipn_app_exact by (rewrite rands_of_length; exact Hm). reflexivity.
  - (* swap in the product law of the per-element part *)
    set (g := fun a => bind (fixed_all (loci s) (fixed_rate tb)) (fun b => ret (a ++ b))).
    assert (Hgen : forall (d1 d2 : dist (list (xev * elem))),
              (forall Q, prob Q d1 == prob Q d2) -> prob P (bind d1 g) == prob P (bind d2 g)).
    { intros d1 d2 H. unfold g.
      rewrite !(prob_bind_swap _ _ _ P _ (fixed_all (loci s) (fixed_rate tb)) (fun a b => ret (a ++ b))).
      apply prob_bind_ext. intros b _ _.
      rewrite !(prob_bind_ret _ _ P (fun a => a ++ b)). apply H. }
    apply Hgen. intros Q. apply spec_elem_law. exact Hpe.
Qed.

End LawFull.

(* ------------------------------------------------------------------ marginals of the fixed-rate part *)
Lemma prob_map_const : forall A (R : A -> bool) c (ks : list A),
  prob R (map (fun k => (k, c)) ks) == qn (length (filter R ks)) * c.
Proof.
  intros A R c. induction ks as [|k ks IH].
  - cbn [map prob filter length]. unfold qn. cbn [Z.of_nat inject_Z]. ring.
  - cbn [map prob filter]. rewrite IH. destruct (R k).
    + cbn [length]. replace (S (length (filter R ks))) with (1 + length (filter R ks))%nat by reflexivity.
      rewrite qn_add. change (qn 1) with 1. ring.
    + ring.
Qed.

Lemma qn_pos : forall n, (0 < n)%nat -> ~ qn n == 0.
Proof.
  intros n H E. unfold qn, Qeq in E. cbn [inject_Z Qnum Qden] in E. lia.
Qed.

Lemma filter_true_all : forall A (l : list A), filter (fun _ => true) l = l.
Proof. intros A. induction l as [|a l IH]; [reflexivity|]. cbn [filter]. rewrite IH. reflexivity. Qed.

Lemma mass_uniform : forall n, (0 < n)%nat -> mass (uniform n) == 1.
Proof.
  intros n H. unfold mass, uniform. rewrite prob_map_const, filter_true_all, seq_length.
  field. exact (qn_pos n H).
Qed.

Lemma map_nth_seq : forall A (d : A) (l : list A), map (fun k => nth k l d) (seq 0 (length l)) = l.
Proof.
  intros A d. induction l as [|a l IH]; [reflexivity|].
  cbn [length seq map nth]. f_equal. rewrite <- seq_shift, map_map. exact IH.
Qed.

Lemma filter_map_length : forall A B (f : A -> B) (Q : B -> bool) (l : list A),
  length (filter Q (map f l)) = length (filter (fun a => Q (f a)) l).
Proof.
  intros A B f Q. induction l as [|a l IH]; [reflexivity|].
  cbn [map filter]. destruct (Q (f a)); cbn [length]; rewrite IH; reflexivity.
Qed.

(* a uniformly drawn rank selects an element with a given feature with probability (number of such)/(size) *)
Lemma uniform_element : forall A (d : A) (l : list A) (Q : A -> bool), (0 < length l)%nat ->
  prob (fun k => Q (nth k l d)) (uniform (length l)) == qn (length (filter Q l)) / qn (length l).
Proof.
  intros A d l Q H. unfold uniform. rewrite prob_map_const.
  rewrite <- (filter_map_length _ _ (fun k => nth k l d) Q), map_nth_seq.
  field. exact (qn_pos _ H).
Qed.

Lemma active_nonempty : forall lc x, active lc x = true -> (0 < length (lookup lc x))%nat.
Proof.
  intros lc x H. unfold active in H. destruct (lookup lc x); [discriminate | cbn [length]; lia].
Qed.

Lemma mass_fixed_all : forall lc fevs, mass (fixed_all lc fevs) == 1.
Proof.
  intros lc. induction fevs as [|x fevs IH].
  - unfold mass. cbn [fixed_all]. rewrite prob_ret. reflexivity.
  - unfold mass in *. cbn [fixed_all]. destruct (active lc x) eqn:Ha; [|exact IH].
    rewrite prob_bind_trial.
    rewrite (prob_bind_const _ _ (fun _ => true) _ _ 1).
    + fold (mass (uniform (length (lookup lc x)))). rewrite (mass_uniform _ (active_nonempty _ _ Ha)), IH. ring.
    + intros k q _. rewrite (prob_bind_ret _ _ (fun _ => true)). exact IH.
Qed.

(* the pairs of a selection that belong to the events eqx singles out and carry an element with feature Q *)
Definition hit (eqx : xev -> bool) (Q : elem -> bool) (r : list (xev * elem)) : bool :=
  existsb (fun xe => eqx (fst xe) && Q (snd xe)) r.

Lemma fixed_all_none : forall eqx Q lc fevs, (forall y, In y fevs -> eqx y = false) ->
  forall r q, In (r, q) (fixed_all lc fevs) -> hit eqx Q r = false.
Proof.
  intros eqx Q lc. induction fevs as [|y fevs IH]; intros Hn r q Hin.
  - cbn [fixed_all ret In] in Hin. destruct Hin as [E|[]]. inversion E. reflexivity.
  - assert (Hn' : forall z, In z fevs -> eqx z = false) by (intros z Hz; apply Hn; right; exact Hz).
    cbn [fixed_all] in Hin. destruct (active lc y); [|exact (IH Hn' r q Hin)].
    apply In_bind in Hin. destruct Hin as (b & qa & qb & _ & Hin). destruct b; [|exact (IH Hn' r qb Hin)].
    apply In_bind in Hin. destruct Hin as (k & qa' & qb' & _ & Hin).
    apply In_bind in Hin. destruct Hin as (r' & qa'' & qb'' & Hr & Hin).
    cbn [ret In] in Hin. destruct Hin as [E|[]]. inversion E; subst.
    unfold hit. cbn [existsb fst snd]. rewrite (Hn y (or_introl eq_refl)). cbn [andb orb].
    exact (IH Hn' r' qa'' Hr).
Qed.

(* An active fixed-rate event that eqx singles out, anywhere in the table: it selects an element with
   feature Q with probability p * (number of such elements in its locus) / (size of the locus) - hence it
   happens with probability p (Q = everything) and on a uniformly drawn element. *)
Theorem fixed_all_hit : forall eqx Q lc f1 x f2,
  eqx x = true -> (forall y, In y (f1 ++ f2) -> eqx y = false) -> active lc x = true ->
  prob (hit eqx Q) (fixed_all lc (f1 ++ x :: f2)) ==
  ev_p (snd x) * (qn (length (filter Q (lookup lc x))) / qn (length (lookup lc x))).
Proof.
  intros eqx Q lc. induction f1 as [|y f1 IH]; intros x f2 Hx Hn Ha.
  - cbn [app fixed_all]. rewrite Ha. rewrite prob_bind_trial.
    assert (H2 : prob (hit eqx Q) (fixed_all lc f2) == 0).
    { rewrite (prob_ext_In _ _ (fun _ => false)); [apply prob_false|].
      intros r q Hr. exact (fixed_all_none eqx Q lc f2 Hn r q Hr). }
    rewrite H2.
    rewrite (prob_bind_indicator _ _ _ (fun k => Q (nth k (lookup lc x) (EN 0)))).
    + rewrite (uniform_element _ (EN 0) (lookup lc x) Q (active_nonempty _ _ Ha)). ring.
    + intros k q _. rewrite (prob_bind_ret _ _ (hit eqx Q)).
      rewrite (prob_ext_In _ _ (fun _ => Q (nth k (lookup lc x) (EN 0)))).
      * rewrite prob_const. destruct (Q (nth k (lookup lc x) (EN 0))); [apply mass_fixed_all | reflexivity].
      * intros r qr Hr. unfold hit. cbn [existsb fst snd]. rewrite Hx. cbn [andb].
        fold (hit eqx Q r). rewrite (fixed_all_none eqx Q lc f2 Hn r qr Hr). apply orb_false_r.
  - cbn [app fixed_all].
    assert (Hy : eqx y = false) by (apply Hn; left; reflexivity).
    assert (IH' := IH x f2 Hx (fun z Hz => Hn z (or_intror Hz)) Ha).
    destruct (active lc y) eqn:Hay; [|exact IH'].
    rewrite prob_bind_trial.
    rewrite (prob_bind_const _ _ (hit eqx Q) _ _ (ev_p (snd x) * (qn (length (filter Q (lookup lc x))) / qn (length (lookup lc x))))).
    + fold (mass (uniform (length (lookup lc y)))). rewrite (mass_uniform _ (active_nonempty _ _ Hay)), IH'. ring.
    + intros k q _. rewrite (prob_bind_ret _ _ (hit eqx Q)). rewrite <- IH'.
      apply prob_ext. intros r. unfold hit. cbn [existsb fst snd]. rewrite Hy. reflexivity.
Qed.

Corollary fixed_all_fires : forall eqx lc f1 x f2,
  eqx x = true -> (forall y, In y (f1 ++ f2) -> eqx y = false) -> active lc x = true ->
  prob (hit eqx (fun _ => true)) (fixed_all lc (f1 ++ x :: f2)) == ev_p (snd x).
Proof.
  intros eqx lc f1 x f2 Hx Hn Ha. rewrite (fixed_all_hit eqx (fun _ => true) lc f1 x f2 Hx Hn Ha).
  rewrite filter_true_all. field. exact (qn_pos _ (active_nonempty _ _ Ha)).
Qed.

(* the scripted law of a timestep's selection is a distribution: total mass 1 *)
Theorem select_dist_full_mass : forall W (tb : table W) (s : st W),
  probs_ok (per_element tb) -> probs_ok (fixed_rate tb) -> mass (select_dist_full tb s) == 1.
Proof.
  intros W tb s Hpe Hfr. unfold mass. rewrite (select_dist_full_law tb s Hpe Hfr (fun _ => true)).
  rewrite (prob_bind_const _ _ (fun _ => true) _ _ 1).
  - fold (mass (selected_all (loci s) (per_element tb))). rewrite mass_selected_all. ring.
  - intros a q _. rewrite (prob_bind_ret _ _ (fun _ => true)). apply mass_fixed_all.
Qed.

(* ------------------------------------------------------------------ the state after the step *)
(* what the fixed-rate script hands out is consumed exactly: one variate per active event, one rank per success *)
Lemma fixed_script_support : forall lc fevs, probs_ok fevs -> forall md q, In (md, q) (fixed_script lc fevs) ->
  length (fst md) = count_fixed lc fevs /\
  length (spec_fixed lc fevs (rands_of (fst md)) (snd md)) = length (snd md).
Proof.
  intros lc. induction fevs as [|x fevs IH]; intros Hok md q Hin.
  - cbn [fixed_script ret In] in Hin. destruct Hin as [E|[]]. inversion E; subst. split; reflexivity.
  - assert (Hx : 0 <= ev_p (snd x) /\ ev_p (snd x) < 2) by (apply Hok; left; reflexivity).
    assert (Hok' : probs_ok fevs) by (intros y Hy; apply Hok; right; exact Hy).
    destruct Hx as [H0 H2].
    cbn [fixed_script] in Hin. unfold count_fixed. cbn [filter spec_fixed].
    destruct (active lc x) eqn:Ha.
    + apply In_bind in Hin. destruct Hin as (b & qa & qb & _ & Hin). destruct b.
      * apply In_bind in Hin. destruct Hin as (k & qa' & qb' & Hk & Hin).
        apply In_bind in Hin. destruct Hin as (md' & qa'' & qb'' & Hmd & Hin).
        cbn [ret In] in Hin. destruct Hin as [E|[]]. inversion E; subst.
        destruct (IH Hok' md' qa'' Hmd) as [L1 L2]. cbn [fst snd length rands_of map hd tl].
        assert (E0 : Qle_bool 0 (ev_p (snd x)) = true) by (apply Qle_bool_iff; exact H0). rewrite E0.
        fold (rands_of (fst md')). cbn [length]. unfold count_fixed in L1. rewrite L1, L2. split; reflexivity.
      * apply In_bind in Hin. destruct Hin as (md' & qa'' & qb'' & Hmd & Hin).
        cbn [ret In] in Hin. destruct Hin as [E|[]]. inversion E; subst.
        destruct (IH Hok' md' qa'' Hmd) as [L1 L2]. cbn [fst snd length rands_of map hd tl].
        assert (E2 : Qle_bool 2 (ev_p (snd x)) = false).
        { destruct (Qle_bool 2 (ev_p (snd x))) eqn:E2'; [|reflexivity]. apply Qle_bool_iff in E2'.
          exfalso. exact (Qlt_not_le _ _ H2 E2'). }
        rewrite E2. fold (rands_of (fst md')). unfold count_fixed in L1. rewrite L1, L2. split; reflexivity.
    + exact (IH Hok' md q Hin).
Qed.

Lemma prob_bind2_map : forall A B C D (P : D -> bool) (g : C -> D) (d1 : dist A) (d2 : dist B) (h : A -> B -> C),
  prob P (bind d1 (fun a => bind d2 (fun b => ret (g (h a b))))) ==
  prob (fun c => P (g c)) (bind d1 (fun a => bind d2 (fun b => ret (h a b)))).
Proof.
  intros A B C D P g d1 d2 h. induction d1 as [|[a q] d1 IH]; [reflexivity|].
  rewrite !prob_bind_cons, IH.
  rewrite (prob_bind_ret _ _ P (fun b => g (h a b))), (prob_bind_ret _ _ (fun c => P (g c)) (fun b => h a b)). reflexivity.
Qed.

Section LawStep.
Context {W : Type}.
Variable tb : table W.

(* the law of (a view of) the state after the timestep's tranche, with the whole oracle scripted *)
Definition step_dist_full {A} (t : Q) (s : st W) (view : st W -> A) : dist A :=
  bind (patterns (probs_of (loci s) (per_element tb))) (fun m =>
    bind (fixed_script (loci s) (fixed_rate tb)) (fun md =>
      ret (view (snd (tranche_step tb t 0 (set_oracle (rands_of (m ++ fst md)) (lns s) (snd md) s)))))).

(* the state in which the selected events fire: the oracle of the selection used up, everything else as it was *)
Definition after_selection (s : st W) : st W := set_oracle [] (lns s) [] s.

Lemma tranche_state : forall (s : st W) m qm md qd, probs_ok (fixed_rate tb) ->
  In (m, qm) (patterns (probs_of (loci s) (per_element tb))) -> In (md, qd) (fixed_script (loci s) (fixed_rate tb)) ->
  snd (tranche tb (set_oracle (rands_of (m ++ fst md)) (lns s) (snd md) s)) = after_selection s.
Proof.
  intros s m qm md qd Hfr Hm Hmd. rewrite tranche_spec. cbn [snd].
  apply patterns_length in Hm. rewrite probs_of_length in Hm.
  destruct (fixed_script_support (loci s) (fixed_rate tb) Hfr md qd Hmd) as [L1 L2].
  unfold advance, after_selection, set_oracle.
  cbn [clock nextid queue loci world ids out rands lns draws stuck].
  assert (Er : length (rands_of (m ++ fst md)) = tranche_rands tb (loci s)).
  { rewrite rands_of_length, app_length, Hm, L1. reflexivity. }
  assert (Ed : tranche_draws tb (loci s) (rands_of (m ++ fst md)) (snd md) = length (snd md)).
  { unfold tranche_draws. rewrite rands_of_app, skipn_app_exact by (rewrite rands_of_length; exact Hm). exact L2. }
  rewrite Ed, <- Er, !skipn_all, !Nat.ltb_irrefl. cbn [skipn length Nat.ltb Nat.leb].
  rewrite !orb_false_r. reflexivity.
Qed.

(* EVERY table: the state after the tranche of a timestep is distributed as the image of the product law of the
   selection under the (deterministic) firing of the selected events, in order, with the membership re-check *)
Theorem step_dist_full_law : forall A (t : Q) (s : st W) (view : st W -> A),
  probs_ok (per_element tb) -> probs_ok (fixed_rate tb) ->
  forall P, prob P (step_dist_full t s view) ==
            prob (fun sel => P (view (snd (fire_tranche tb t sel 0 (after_selection s)))))
                 (bind (selected_all (loci s) (per_element tb))
                       (fun a => bind (fixed_all (loci s) (fixed_rate tb)) (fun b => ret (a ++ b)))).
Proof.
  intros A t s view Hpe Hfr P.
  rewrite <- (select_dist_full_law tb s Hpe Hfr (fun sel => P (view (snd (fire_tranche tb t sel 0 (after_selection s)))))).
  unfold step_dist_full, select_dist_full.
  rewrite <- (prob_bind2_map _ _ _ _ P (fun sel => view (snd (fire_tranche tb t sel 0 (after_selection s))))
               (patterns (probs_of (loci s) (per_element tb))) (fixed_script (loci s) (fixed_rate tb))
               (fun m md => fst (tranche tb (set_oracle (rands_of (m ++ fst md)) (lns s) (snd md) s)))).
  apply prob_bind_ext. intros m qm Hm. apply prob_bind_ext. intros md qd Hmd.
  rewrite !prob_ret. unfold tranche_step.
  pose proof (tranche_state s m qm md qd Hfr Hm Hmd) as Hs.
  destruct (tranche tb (set_oracle (rands_of (m ++ fst md)) (lns s) (snd md) s)) as [evs s2].
  cbn [fst snd] in *. rewrite Hs. reflexivity.
Qed.

End LawStep.
