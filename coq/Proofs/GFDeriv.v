(* Derivatives: the fuel of Model/GF.v is always sufficient, [deriv] satisfies the recursion
   equations of the three derivative() methods, and the coefficients of the k-th derivative
   are (i+k)!/i! times the coefficient i+k, for every tree (product rule = Leibniz identity). *)
From Coq Require Import List ZArith QArith Bool Arith Lia Setoid Morphisms.
From EpyV Require Import Model.GF Proofs.GFSum Proofs.GFCoeff.
Import ListNotations.
Open Scope Q_scope.

(* ------------------------------------------------------------ fuel *)

Lemma deriv_on_mono f : forall k g d, deriv_on f k g = Some d -> forall f', (f <= f')%nat -> deriv_on f' k g = Some d.
Proof.
  induction f; intros k g d H f' Hf; [discriminate|].
  destruct f' as [|f']; [lia|]. assert (Hf' : (f <= f')%nat) by lia.
  destruct g as [c m|a b|a b]; cbn [deriv_on] in *.
  - exact H.
  - destruct (deriv_on f k a) as [a'|] eqn:Ea; [|discriminate].
    destruct (deriv_on f k b) as [b'|] eqn:Eb; [|discriminate].
    rewrite (IHf _ _ _ Ea f' Hf'), (IHf _ _ _ Eb f' Hf'). exact H.
  - destruct k as [|k]; cbv beta iota in H |- *; [exact H|].
    destruct (deriv_on f 1 a) as [a1|] eqn:Ea; [|discriminate].
    destruct (deriv_on f 1 b) as [b1|] eqn:Eb; [|discriminate].
    rewrite (IHf _ _ _ Ea f' Hf'), (IHf _ _ _ Eb f' Hf'). exact (IHf _ _ _ H f' Hf').
Qed.

(* one derivative: fuel height+3 is enough; the result is at most pdepth higher and no deeper in products *)
Lemma deriv_on_1 g : forall f, (height g + 3 <= f)%nat ->
  exists d, deriv_on f 1 g = Some d /\ (height d <= height g + pdepth g)%nat /\ (pdepth d <= pdepth g)%nat.
Proof.
  induction g as [c m|a IHa b IHb|a IHa b IHb]; intros f Hf; (destruct f as [|f]; [lia|]); cbn [deriv_on].
  - eexists. split; [reflexivity|]. cbn. lia.
  - cbn [height] in Hf.
    destruct (IHa f) as (a' & Ea & Ha1 & Ha2); [lia|]. destruct (IHb f) as (b' & Eb & Hb1 & Hb2); [lia|].
    rewrite Ea, Eb. eexists. split; [reflexivity|]. cbn [height pdepth]. lia.
  - cbn [height] in Hf.
    destruct (IHa f) as (a' & Ea & Ha1 & Ha2); [lia|]. destruct (IHb f) as (b' & Eb & Hb1 & Hb2); [lia|].
    rewrite Ea, Eb.
    destruct f as [|[|f]]; [lia|lia|]. cbn [deriv_on].
    eexists. split; [reflexivity|]. cbn [height pdepth]. lia.
Qed.

Lemma deriv_on_enough k : forall g f, (deriv_fuel k g <= f)%nat -> exists d, deriv_on f k g = Some d.
Proof.
  unfold deriv_fuel. induction k as [|k IHk]; intros g.
  - induction g as [c m|a IHa b IHb|a IHa b IHb]; intros f Hf; (destruct f as [|f]; [lia|]); cbn [deriv_on].
    + eexists; reflexivity.
    + cbn [height] in Hf. destruct (IHa f) as (a' & Ea); [lia|]. destruct (IHb f) as (b' & Eb); [lia|].
      rewrite Ea, Eb. eexists; reflexivity.
    + eexists; reflexivity.
  - induction g as [c m|a IHa b IHb|a IHa b IHb]; intros f Hf; (destruct f as [|f]; [lia|]); cbn [deriv_on].
    + eexists; reflexivity.
    + cbn [height pdepth] in Hf.
      assert (Ma : (S k * (2 + pdepth a) <= S k * (2 + Nat.max (pdepth a) (pdepth b)))%nat) by (apply Nat.mul_le_mono_l; lia).
      assert (Mb : (S k * (2 + pdepth b) <= S k * (2 + Nat.max (pdepth a) (pdepth b)))%nat) by (apply Nat.mul_le_mono_l; lia).
      destruct (IHa f) as (a' & Ea); [lia|]. destruct (IHb f) as (b' & Eb); [lia|].
      rewrite Ea, Eb. eexists; reflexivity.
    + cbn [height pdepth] in Hf.
      set (P := S (Nat.max (pdepth a) (pdepth b))) in *.
      rewrite Nat.mul_succ_l in Hf.
      destruct (deriv_on_1 a f) as (a1 & Ea & Ha1 & Ha2); [lia|].
      destruct (deriv_on_1 b f) as (b1 & Eb & Hb1 & Hb2); [lia|].
      rewrite Ea, Eb. apply IHk. cbn [height pdepth].
      assert (M : (k * (2 + Nat.max (S (Nat.max (pdepth a1) (pdepth b))) (S (Nat.max (pdepth a) (pdepth b1)))) <= k * (2 + P))%nat)
        by (apply Nat.mul_le_mono_l; lia).
      lia.
Qed.

Lemma deriv_spec k g f : (deriv_fuel k g <= f)%nat -> deriv_on f k g = Some (deriv k g).
Proof.
  intros Hf. unfold deriv.
  destruct (deriv_on_enough k g (deriv_fuel k g) (le_n _)) as (d & E). rewrite E.
  exact (deriv_on_mono _ _ _ _ E f Hf).
Qed.

(* ------------------------------------------------------------ functional induction *)

(* whatever is preserved by the four clauses of the derivative() methods holds of [deriv] *)
Lemma deriv_rel_ind (P : nat -> gf -> gf -> Prop) :
  (forall k c m, P k (Fn c m) (Fn (dcoef c k) m)) ->
  (forall k a b a' b', P k a a' -> P k b b' -> P k (Sum a b) (Sum a' b')) ->
  (forall a b, P O (Prod a b) (Prod a b)) ->
  (forall k a b a1 b1 r, P 1%nat a a1 -> P 1%nat b b1 -> P k (Sum (Prod a1 b) (Prod a b1)) r -> P (S k) (Prod a b) r) ->
  forall k g, P k g (deriv k g).
Proof.
  intros HF HS H0 HP.
  assert (G : forall f k g d, deriv_on f k g = Some d -> P k g d).
  { induction f; intros k g d H; [discriminate|].
    destruct g as [c m|a b|a b]; cbn [deriv_on] in H.
    - injection H as <-. apply HF.
    - destruct (deriv_on f k a) as [a'|] eqn:Ea; [|discriminate].
      destruct (deriv_on f k b) as [b'|] eqn:Eb; [|discriminate].
      injection H as <-. apply HS; apply IHf; assumption.
    - destruct k as [|k]; cbv beta iota in H; [injection H as <-; apply H0|].
      destruct (deriv_on f 1 a) as [a1|] eqn:Ea; [|discriminate].
      destruct (deriv_on f 1 b) as [b1|] eqn:Eb; [|discriminate].
      eapply HP; apply IHf; eassumption. }
  intros k g. exact (G _ k g _ (deriv_spec k g _ (le_n _))).
Qed.

(* ------------------------------------------------------------ the equations of the code *)

Lemma deriv_Fn k c m : deriv k (Fn c m) = Fn (dcoef c k) m.
Proof.
  pose proof (deriv_spec k (Fn c m) (S (deriv_fuel k (Fn c m))) (Nat.le_succ_diag_r _)) as H.
  cbn [deriv_on] in H. congruence.
Qed.

Lemma deriv_Sum k a b : deriv k (Sum a b) = Sum (deriv k a) (deriv k b).
Proof.
  set (F := Nat.max (deriv_fuel k (Sum a b)) (Nat.max (deriv_fuel k a) (deriv_fuel k b))).
  pose proof (deriv_spec k (Sum a b) (S F) ltac:(unfold F; lia)) as H.
  cbn [deriv_on] in H.
  rewrite (deriv_spec k a F ltac:(unfold F; lia)), (deriv_spec k b F ltac:(unfold F; lia)) in H.
  congruence.
Qed.

Lemma deriv_Prod_0 a b : deriv 0 (Prod a b) = Prod a b.
Proof.
  pose proof (deriv_spec 0 (Prod a b) (S (deriv_fuel 0 (Prod a b))) (Nat.le_succ_diag_r _)) as H.
  cbn [deriv_on] in H. congruence.
Qed.

(* ProductGF.derivative: d = SumGF(ProductGF(gf1.dx(), gf2), ProductGF(gf1, gf2.dx())); return d.dx(order - 1) *)
Lemma deriv_Prod_S k a b :
  deriv (S k) (Prod a b) = deriv k (Sum (Prod (deriv 1 a) b) (Prod a (deriv 1 b))).
Proof.
  set (s := Sum (Prod (deriv 1 a) b) (Prod a (deriv 1 b))).
  set (F := Nat.max (deriv_fuel (S k) (Prod a b)) (Nat.max (deriv_fuel 1 a) (Nat.max (deriv_fuel 1 b) (deriv_fuel k s)))).
  pose proof (deriv_spec (S k) (Prod a b) (S F) ltac:(unfold F; lia)) as H.
  cbn [deriv_on] in H.
  rewrite (deriv_spec 1 a F ltac:(unfold F; lia)), (deriv_spec 1 b F ltac:(unfold F; lia)) in H.
  fold s in H. rewrite (deriv_spec k s F ltac:(unfold F; lia)) in H.
  congruence.
Qed.

(* ------------------------------------------------------------ falling products *)

(* (i+1)(i+2)...(i+k) *)
Fixpoint ffq (i k : nat) : Q :=
  match k with O => 1 | S k' => ffq i k' * qn (i + S k') end.

Lemma dcoef_ffq c k i : dcoef c k i == ffq i k * c (i + k)%nat.
Proof.
  unfold dcoef. generalize (c (i + k)%nat) as m0. induction k; intros m0.
  - simpl. ring.
  - rewrite seq_S, fold_left_app. cbn [fold_left ffq]. rewrite IHk.
    replace (1 + k)%nat with (S k) by lia. ring.
Qed.

Lemma ffq_fact i k : ffq i k * qn (fact i) == qn (fact (i + k)).
Proof.
  induction k.
  - simpl. rewrite Nat.add_0_r. ring.
  - cbn [ffq]. replace (i + S k)%nat with (S (i + k)) by lia.
    change (fact (S (i + k))) with (S (i + k) * fact (i + k))%nat.
    rewrite qn_mul, <- IHk. ring.
Qed.

Lemma qn_fact_nz i : ~ qn (fact i) == 0.
Proof. apply qn_pos. apply lt_O_fact. Qed.

Lemma ffq_quot i k : ffq i k == qn (fact (i + k)) / qn (fact i).
Proof. rewrite <- ffq_fact. field. apply qn_fact_nz. Qed.

Lemma ffq_1 i : ffq i 1 == qn (S i).
Proof. simpl. replace (i + 1)%nat with (S i) by lia. ring. Qed.

(* ------------------------------------------------------------ coefficients of derivatives *)

Theorem coeff_deriv k g : forall i, coeff (deriv k g) i == ffq i k * coeff g (i + k)%nat.
Proof.
  apply (deriv_rel_ind (fun k g d => forall i, coeff d i == ffq i k * coeff g (i + k)%nat)); clear k g.
  - intros k c m i. cbn [coeff]. apply dcoef_ffq.
  - intros k a b a' b' Ha Hb i. cbn [coeff]. rewrite Ha, Hb. ring.
  - intros a b i. rewrite Nat.add_0_r. simpl ffq. ring.
  - intros k a b a1 b1 r Ha Hb Hr i. rewrite Hr. cbn [ffq coeff].
    change (fold_left (fun c p => c + coeff a1 (fst p) * coeff b (snd p)) (index_pairs (i + k)) 0) with (coeff (Prod a1 b) (i + k)).
    change (fold_left (fun c p => c + coeff a (fst p) * coeff b1 (snd p)) (index_pairs (i + k)) 0) with (coeff (Prod a b1) (i + k)).
    change (fold_left (fun c p => c + coeff a (fst p) * coeff b (snd p)) (index_pairs (i + S k)) 0) with (coeff (Prod a b) (i + S k)).
    rewrite !coeff_Prod.
    rewrite (cauchy_ext (coeff a1) (dseq (coeff a)) (coeff b) (coeff b) (i + k)); [| | reflexivity].
    2:{ intros j. rewrite Ha, ffq_1. replace (j + 1)%nat with (S j) by lia. reflexivity. }
    rewrite (cauchy_ext (coeff a) (coeff a) (coeff b1) (dseq (coeff b)) (i + k)); [|reflexivity|].
    2:{ intros j. rewrite Hb, ffq_1. replace (j + 1)%nat with (S j) by lia. reflexivity. }
    rewrite cauchy_leibniz. replace (i + S k)%nat with (S (i + k)) by lia. ring.
Qed.

Corollary coeff_deriv_fact k g i : coeff (deriv k g) i == qn (fact (i + k)) / qn (fact i) * coeff g (i + k)%nat.
Proof. rewrite coeff_deriv, ffq_quot. reflexivity. Qed.

Corollary coeff_deriv_1 g i : coeff (deriv 1 g) i == qn (S i) * coeff g (S i).
Proof. rewrite coeff_deriv, ffq_1. replace (i + 1)%nat with (S i) by lia. reflexivity. Qed.
