(* Evaluation: for trees whose leaves vanish above a degree that the 301-term loop reaches,
   evaluate() is the value of the polynomial given by the coefficients; also for derivatives
   and for whole programs over the operators. *)
From Coq Require Import List ZArith QArith Bool Arith Lia Setoid Morphisms.
From EpyV Require Import Model.GF Proofs.GFSum Proofs.GFCoeff Proofs.GFDeriv.
Import ListNotations.
Open Scope Q_scope.

Lemma eval_terms_sum m c x : eval_terms m c x == sumn (S m) (fun i => c i * qpow x i).
Proof. unfold eval_terms. rewrite (fold_left_sum (fun i => c i * qpow x i)), Qplus_0_l. apply lsum_seq. Qed.

(* every leaf coefficient function is 0 above index d *)
Fixpoint leaves_vanish (d : nat) (g : gf) : Prop :=
  match g with
  | Fn c => forall i, (d < i)%nat -> c i == 0
  | Sum a b | Prod a b => leaves_vanish d a /\ leaves_vanish d b
  end.

(* a bound on the degree of the tree when its leaves have degree <= d *)
Fixpoint degb (d : nat) (g : gf) : nat :=
  match g with
  | Fn _ => d
  | Sum a b => Nat.max (degb d a) (degb d b)
  | Prod a b => (degb d a + degb d b)%nat
  end.

Lemma leaves_vanish_mono d d' g : (d <= d')%nat -> leaves_vanish d g -> leaves_vanish d' g.
Proof.
  intros Hd. induction g; simpl.
  - intros H i Hi. apply H. lia.
  - intros [? ?]; split; auto.
  - intros [? ?]; split; auto.
Qed.

Lemma coeff_vanish d g : leaves_vanish d g -> forall i, (degb d g < i)%nat -> coeff g i == 0.
Proof.
  induction g as [c|a IHa b IHb|a IHa b IHb]; intros H i Hi.
  - apply H. exact Hi.
  - destruct H as [Ha Hb]. cbn [degb] in Hi. cbn [coeff]. rewrite IHa, IHb by (assumption || lia). ring.
  - destruct H as [Ha Hb]. cbn [degb] in Hi. rewrite coeff_Prod. apply sumn_zero. intros j Hj.
    destruct (le_lt_dec j (degb d a)).
    + rewrite (IHb Hb (i - j)%nat) by lia. ring.
    + rewrite (IHa Ha j) by lia. ring.
Qed.

(* evaluate() with the leaves summed to term m >= d is the polynomial Σ coeff_i x^i *)
Theorem eval_to_poly d m g x : leaves_vanish d g -> (d <= m)%nat ->
  forall N, (degb d g <= N)%nat -> eval_to m g x == sumn (S N) (fun i => coeff g i * qpow x i).
Proof.
  intros H Hm. induction g as [c|a IHa b IHb|a IHa b IHb]; intros N HN.
  - cbn [eval_to coeff degb] in *. rewrite eval_terms_sum.
    rewrite (sumn_extend (S d) (S m)), (sumn_extend (S d) (S N)); try lia; try reflexivity.
    + intros i Hi. rewrite (H i) by lia. ring.
    + intros i Hi. rewrite (H i) by lia. ring.
  - destruct H as [Ha Hb]. cbn [degb] in HN. cbn [eval_to coeff].
    rewrite (IHa Ha N), (IHb Hb N) by lia. rewrite <- sumn_add. apply sumn_ext. intros; ring.
  - destruct H as [Ha Hb]. cbn [degb] in HN. cbn [eval_to].
    rewrite (IHa Ha N), (IHb Hb N) by lia.
    rewrite (poly_mul_sum (coeff a) (coeff b) x (degb d a) (degb d b) N); [| apply coeff_vanish; assumption | apply coeff_vanish; assumption | exact HN].
    apply sumn_ext. intros n _. rewrite coeff_Prod. reflexivity.
Qed.

(* the cut-off of the loop does not matter once it is past the leaves' degree *)
Theorem eval_to_cutoff d m m' g x : leaves_vanish d g -> (d <= m)%nat -> (d <= m')%nat -> eval_to m g x == eval_to m' g x.
Proof.
  intros H Hm Hm'.
  rewrite (eval_to_poly d m g x H Hm (degb d g) (le_n _)), (eval_to_poly d m' g x H Hm' (degb d g) (le_n _)). reflexivity.
Qed.

(* ------------------------------------------------------------ preservation *)

Lemma scale_vanish d n g : leaves_vanish d g -> leaves_vanish d (scale n g).
Proof.
  induction g; simpl.
  - intros H i Hi. rewrite H by exact Hi. ring.
  - intros [? ?]; split; auto.
  - intros [? ?]; split; auto.
Qed.
Lemma scale_degb d n g : degb d (scale n g) = degb d g.
Proof. induction g; simpl; congruence. Qed.

Lemma deriv_vanish_degb d k g : leaves_vanish d g -> leaves_vanish d (deriv k g) /\ (degb d (deriv k g) <= degb d g)%nat.
Proof.
  apply (deriv_rel_ind (fun k g r => leaves_vanish d g -> leaves_vanish d r /\ (degb d r <= degb d g)%nat)); clear k g.
  - intros k c H. split; [|reflexivity]. intros i Hi. rewrite dcoef_ffq, (H (i + k)%nat) by lia. ring.
  - intros k a b a' b' IHa IHb [Ha Hb]. destruct (IHa Ha), (IHb Hb). cbn [leaves_vanish degb]. split; [split; assumption | lia].
  - intros a b H. split; [exact H | reflexivity].
  - intros k a b a1 b1 r IHa IHb IHr [Ha Hb]. destruct (IHa Ha) as [Va Da], (IHb Hb) as [Vb Db].
    destruct IHr as [Vr Dr]; [cbn [leaves_vanish]; tauto|]. split; [exact Vr|].
    cbn [degb] in *. lia.
Qed.

Lemma from_coeffs_vanish cs d : (length cs <= S d)%nat -> leaves_vanish d (from_coeffs cs).
Proof. intros H i Hi. simpl. rewrite nth_overflow by lia. reflexivity. Qed.

(* ------------------------------------------------------------ evaluation of derivatives *)

Theorem eval_deriv d m k g x : leaves_vanish d g -> (d <= m)%nat ->
  forall N, (degb d g <= N)%nat ->
  eval_to m (deriv k g) x == sumn (S N) (fun i => ffq i k * coeff g (i + k)%nat * qpow x i).
Proof.
  intros H Hm N HN. destruct (deriv_vanish_degb d k g H) as [V D].
  rewrite (eval_to_poly d m (deriv k g) x V Hm N) by lia.
  apply sumn_ext. intros i _. rewrite coeff_deriv. reflexivity.
Qed.

(* ------------------------------------------------------------ whole programs *)

(* the reference: exact polynomial arithmetic on coefficient sequences *)
Fixpoint sem (e : expr) : nat -> Q :=
  match e with
  | ECoeffs cs => fun i => nth i cs 0
  | EAdd a b => fun i => sem a i + sem b i
  | EAddN a n => fun i => sem a i + (if (i =? 0)%nat then n else 0)
  | ESub a b => fun i => sem a i - sem b i
  | ESubN a n => fun i => sem a i - (if (i =? 0)%nat then n else 0)
  | EMul a b => fun i => sumn (S i) (fun j => sem a j * sem b (i - j)%nat)
  | EMulN a n => fun i => n * sem a i
  | EDiv a n => fun i => sem a i / n
  | EDx a k => fun i => qn (fact (i + k)) / qn (fact i) * sem a (i + k)%nat
  end.

(* some division in the program is by zero *)
Fixpoint divides_by_zero (e : expr) : Prop :=
  match e with
  | ECoeffs _ => False
  | EAdd a b | ESub a b | EMul a b => divides_by_zero a \/ divides_by_zero b
  | EAddN a _ | ESubN a _ | EMulN a _ | EDx a _ => divides_by_zero a
  | EDiv a n => divides_by_zero a \/ n == 0
  end.

Lemma build_None e : build e = None <-> divides_by_zero e.
Proof.
  induction e; cbn [build divides_by_zero].
  - split; [discriminate | tauto].
  - destruct (build e1), (build e2); cbn [obind]; intuition (try discriminate; auto).
  - destruct (build e); cbn [obind]; intuition (try discriminate; auto).
  - destruct (build e1), (build e2); cbn [obind]; intuition (try discriminate; auto).
  - destruct (build e); cbn [obind]; intuition (try discriminate; auto).
  - destruct (build e1), (build e2); cbn [obind]; intuition (try discriminate; auto).
  - destruct (build e); cbn [obind]; intuition (try discriminate; auto).
  - destruct (build e) as [f|]; cbn [obind].
    + unfold gdiv. destruct (Qeq_bool n 0) eqn:E.
      * apply Qeq_bool_iff in E. tauto.
      * assert (~ n == 0) by (intros H; apply Qeq_bool_iff in H; congruence).
        intuition (try discriminate; auto).
    + intuition (try discriminate; auto).
  - destruct (build e); cbn [obind]; intuition (try discriminate; auto).
Qed.

(* the objects that programs build: leaves vanish from index max_len e on, i.e. above max_len e - 1 *)
Lemma build_vanish e : forall g, build e = Some g -> leaves_vanish (pred (max_len e)) g.
Proof.
  induction e; intros g; cbn [build max_len].
  - intros [= <-]. apply from_coeffs_vanish. lia.
  - destruct (build e1) as [f1|], (build e2) as [f2|]; cbn [obind]; try discriminate. intros [= <-].
    split; [apply (leaves_vanish_mono (pred (max_len e1))) | apply (leaves_vanish_mono (pred (max_len e2)))]; auto; lia.
  - destruct (build e) as [f|]; cbn [obind]; try discriminate. intros [= <-].
    split; [apply (leaves_vanish_mono (pred (max_len e))); auto; lia | apply from_coeffs_vanish; simpl; lia].
  - destruct (build e1) as [f1|], (build e2) as [f2|]; cbn [obind]; try discriminate. intros [= <-].
    split; [apply (leaves_vanish_mono (pred (max_len e1))) | apply scale_vanish, (leaves_vanish_mono (pred (max_len e2)))]; auto; lia.
  - destruct (build e) as [f|]; cbn [obind]; try discriminate. intros [= <-].
    split; [apply (leaves_vanish_mono (pred (max_len e))); auto; lia | apply from_coeffs_vanish; simpl; lia].
  - destruct (build e1) as [f1|], (build e2) as [f2|]; cbn [obind]; try discriminate. intros [= <-].
    split; [apply (leaves_vanish_mono (pred (max_len e1))) | apply (leaves_vanish_mono (pred (max_len e2)))]; auto; lia.
  - destruct (build e) as [f|]; cbn [obind]; try discriminate. intros [= <-]. apply scale_vanish; auto.
  - destruct (build e) as [f|]; cbn [obind]; try discriminate. unfold gdiv. destruct (Qeq_bool n 0); [discriminate|].
    intros [= <-]. apply scale_vanish; auto.
  - destruct (build e) as [f|]; cbn [obind]; try discriminate. intros [= <-]. apply deriv_vanish_degb; auto.
Qed.

(* coefficients of what a program builds = the reference polynomial arithmetic *)
Theorem build_coeff e : forall g, build e = Some g -> forall i, coeff g i == sem e i.
Proof.
  induction e; intros g; cbn [build sem].
  - intros [= <-] i. reflexivity.
  - destruct (build e1) as [f1|], (build e2) as [f2|]; cbn [obind]; try discriminate. intros [= <-] i.
    rewrite coeff_gadd, (IHe1 _ eq_refl), (IHe2 _ eq_refl). reflexivity.
  - destruct (build e) as [f|]; cbn [obind]; try discriminate. intros [= <-] i.
    rewrite coeff_gadd_num, (IHe _ eq_refl). reflexivity.
  - destruct (build e1) as [f1|], (build e2) as [f2|]; cbn [obind]; try discriminate. intros [= <-] i.
    rewrite coeff_gsub, (IHe1 _ eq_refl), (IHe2 _ eq_refl). reflexivity.
  - destruct (build e) as [f|]; cbn [obind]; try discriminate. intros [= <-] i.
    rewrite coeff_gsub_num, (IHe _ eq_refl). reflexivity.
  - destruct (build e1) as [f1|], (build e2) as [f2|]; cbn [obind]; try discriminate. intros [= <-] i.
    rewrite coeff_gmul. apply sumn_ext. intros j _. rewrite (IHe1 _ eq_refl), (IHe2 _ eq_refl). reflexivity.
  - destruct (build e) as [f|]; cbn [obind]; try discriminate. intros [= <-] i.
    rewrite coeff_gmul_num, (IHe _ eq_refl). reflexivity.
  - destruct (build e) as [f|]; cbn [obind]; try discriminate. intros H i.
    destruct (coeff_gdiv f n g i H) as [_ ->]. rewrite (IHe _ eq_refl). reflexivity.
  - destruct (build e) as [f|]; cbn [obind]; try discriminate. intros [= <-] i.
    rewrite coeff_deriv_fact, (IHe _ eq_refl). reflexivity.
Qed.

(* value of what a program builds = value of the reference polynomial *)
Theorem build_eval e g x : build e = Some g -> (max_len e <= S max_term)%nat ->
  forall N, (degb max_term g <= N)%nat -> eval g x == sumn (S N) (fun i => sem e i * qpow x i).
Proof.
  intros Hb Hl N HN. unfold eval.
  assert (V : leaves_vanish max_term g) by (apply (leaves_vanish_mono (pred (max_len e))); [lia | apply build_vanish; exact Hb]).
  rewrite (eval_to_poly max_term max_term g x V (le_n _) N HN).
  apply sumn_ext. intros i _. rewrite (build_coeff e g Hb). reflexivity.
Qed.

(* what tie B executes is [eval] *)
Theorem tie_eval_is_eval e g x : build e = Some g -> eval_to (Nat.min (max_len e) max_term) g x == eval g x.
Proof.
  intros Hb. unfold eval. destruct (le_lt_dec (max_len e) max_term) as [Hl|Hl].
  - rewrite Nat.min_l by exact Hl. apply (eval_to_cutoff (pred (max_len e))); [apply build_vanish; exact Hb | lia | lia].
  - rewrite Nat.min_r by lia. reflexivity.
Qed.
