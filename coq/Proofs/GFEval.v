(* Evaluation: for trees whose leaves vanish above a degree that the 301-term loop reaches,
   evaluate() is the value of the polynomial given by the coefficients; also for derivatives
   and for whole programs over the operators. *)
From Coq Require Import List ZArith QArith Bool Arith Lia Setoid Morphisms.
From EpyV Require Import Model.GF Proofs.GFSum Proofs.GFCoeff Proofs.GFDeriv.
Import ListNotations.
Open Scope Q_scope.

Lemma eval_terms_sum m c x : eval_terms m c x == sumn (S m) (fun i => c i * qpow x i).
Proof. unfold eval_terms. rewrite (fold_left_sum (fun i => c i * qpow x i)), Qplus_0_l. apply lsum_seq. Qed.

(* every leaf coefficient function is 0 above the last term [cut m] that is summed for it *)
Fixpoint leaves_within (cut : nat -> nat) (g : gf) : Prop :=
  match g with
  | Fn c m => forall i, (cut m < i)%nat -> c i == 0
  | Sum a b | Prod a b => leaves_within cut a /\ leaves_within cut b
  end.

(* a bound on the degree of the tree when each leaf has degree <= cut m *)
Fixpoint degb (cut : nat -> nat) (g : gf) : nat :=
  match g with
  | Fn _ m => cut m
  | Sum a b => Nat.max (degb cut a) (degb cut b)
  | Prod a b => (degb cut a + degb cut b)%nat
  end.

Lemma leaves_within_mono cut cut' g : (forall m, (cut m <= cut' m)%nat) -> leaves_within cut g -> leaves_within cut' g.
Proof.
  intros Hd. induction g; simpl.
  - intros H i Hi. apply H. specialize (Hd m). lia.
  - intros [? ?]; split; auto.
  - intros [? ?]; split; auto.
Qed.

Lemma coeff_vanish cut g : leaves_within cut g -> forall i, (degb cut g < i)%nat -> coeff g i == 0.
Proof.
  induction g as [c m|a IHa b IHb|a IHa b IHb]; intros H i Hi.
  - apply H. exact Hi.
  - destruct H as [Ha Hb]. cbn [degb] in Hi. cbn [coeff]. rewrite IHa, IHb by (assumption || lia). ring.
  - destruct H as [Ha Hb]. cbn [degb] in Hi. rewrite coeff_Prod. apply sumn_zero. intros j Hj.
    destruct (le_lt_dec j (degb cut a)).
    + rewrite (IHb Hb (i - j)%nat) by lia. ring.
    + rewrite (IHa Ha j) by lia. ring.
Qed.

(* evaluate() with every leaf summed as far as its coefficients go is the polynomial Σ coeff_i x^i *)
Theorem eval_cut_poly cut g x : leaves_within cut g ->
  forall N, (degb cut g <= N)%nat -> eval_cut cut g x == sumn (S N) (fun i => coeff g i * qpow x i).
Proof.
  intros H. induction g as [c m|a IHa b IHb|a IHa b IHb]; intros N HN.
  - cbn [eval_cut coeff degb] in *. rewrite eval_terms_sum.
    symmetry. apply (sumn_extend (S (cut m)) (S N)) ; [lia|].
    intros i Hi. rewrite (H i) by lia. ring.
  - destruct H as [Ha Hb]. cbn [degb] in HN. cbn [eval_cut coeff].
    rewrite (IHa Ha N), (IHb Hb N) by lia. rewrite <- sumn_add. apply sumn_ext. intros; ring.
  - destruct H as [Ha Hb]. cbn [degb] in HN. cbn [eval_cut].
    rewrite (IHa Ha N), (IHb Hb N) by lia.
    rewrite (poly_mul_sum (coeff a) (coeff b) x (degb cut a) (degb cut b) N); [| apply coeff_vanish; assumption | apply coeff_vanish; assumption | exact HN].
    apply sumn_ext. intros n _. rewrite coeff_Prod. reflexivity.
Qed.

(* where the loops stop does not matter once they are past the leaves' degrees *)
Theorem eval_cut_indep cut cut' g x : leaves_within cut g -> leaves_within cut' g -> eval_cut cut g x == eval_cut cut' g x.
Proof.
  intros H H'. set (N := Nat.max (degb cut g) (degb cut' g)).
  rewrite (eval_cut_poly cut g x H N), (eval_cut_poly cut' g x H' N) by (unfold N; lia). reflexivity.
Qed.

(* ------------------------------------------------------------ preservation *)

Lemma scale_within cut n g : leaves_within cut g -> leaves_within cut (scale n g).
Proof.
  induction g; simpl.
  - intros H i Hi. rewrite H by exact Hi. ring.
  - intros [? ?]; split; auto.
  - intros [? ?]; split; auto.
Qed.
Lemma scale_degb cut n g : degb cut (scale n g) = degb cut g.
Proof. induction g; simpl; congruence. Qed.

Lemma deriv_within_degb cut k g : leaves_within cut g -> leaves_within cut (deriv k g) /\ (degb cut (deriv k g) <= degb cut g)%nat.
Proof.
  apply (deriv_rel_ind (fun k g r => leaves_within cut g -> leaves_within cut r /\ (degb cut r <= degb cut g)%nat)); clear k g.
  - intros k c m H. split; [|reflexivity]. intros i Hi. rewrite dcoef_ffq, (H (i + k)%nat) by lia. ring.
  - intros k a b a' b' IHa IHb [Ha Hb]. destruct (IHa Ha), (IHb Hb). cbn [leaves_within degb]. split; [split; assumption | lia].
  - intros a b H. split; [exact H | reflexivity].
  - intros k a b a1 b1 r IHa IHb IHr [Ha Hb]. destruct (IHa Ha) as [Va Da], (IHb Hb) as [Vb Db].
    destruct IHr as [Vr Dr]; [cbn [leaves_within]; tauto|]. split; [exact Vr|].
    cbn [degb] in *. lia.
Qed.

(* a coefficient list is within its own _maxTerm = len(cs), whatever its length *)
Lemma from_coeffs_within cs cut : (forall m, (pred (length cs) <= cut m)%nat) -> leaves_within cut (from_coeffs cs).
Proof. intros H i Hi. simpl. specialize (H (length cs)). rewrite nth_overflow by lia. reflexivity. Qed.

Lemma from_function_within cs cut : (forall m, (pred (length cs) <= cut m)%nat) -> leaves_within cut (from_function (fun i => nth i cs 0)).
Proof. intros H i Hi. simpl. specialize (H max_term). rewrite nth_overflow by lia. reflexivity. Qed.

(* ------------------------------------------------------------ evaluation of derivatives *)

Theorem eval_deriv cut k g x : leaves_within cut g ->
  forall N, (degb cut g <= N)%nat ->
  eval_cut cut (deriv k g) x == sumn (S N) (fun i => ffq i k * coeff g (i + k)%nat * qpow x i).
Proof.
  intros H N HN. destruct (deriv_within_degb cut k g H) as [V D].
  rewrite (eval_cut_poly cut (deriv k g) x V N) by lia.
  apply sumn_ext. intros i _. rewrite coeff_deriv. reflexivity.
Qed.

(* ------------------------------------------------------------ whole programs *)

(* the reference: exact polynomial arithmetic on coefficient sequences *)
Fixpoint sem (e : expr) : nat -> Q :=
  match e with
  | ECoeffs cs | EFunc cs => fun i => nth i cs 0
  | EAdd a b => fun i => sem a i + sem b i
  | EAddN a n => fun i => sem a i + (if (i =? 0)%nat then n else 0)
  | ESub a b => fun i => sem a i - sem b i
  | ESubN a n => fun i => sem a i - (if (i =? 0)%nat then n else 0)
  | EMul a b => fun i => sumn (S i) (fun j => sem a j * sem b (i - j)%nat)
  | EMulN a n => fun i => n * sem a i
  | EDiv a n => fun i => sem a i / n
  | EDx a k => fun i => qn (fact (i + k)) / qn (fact i) * sem a (i + k)%nat
  end.

(* some division in the program is by zero *)
Fixpoint divides_by_zero (e : expr) : Prop :=
  match e with
  | ECoeffs _ | EFunc _ => False
  | EAdd a b | ESub a b | EMul a b => divides_by_zero a \/ divides_by_zero b
  | EAddN a _ | ESubN a _ | EMulN a _ | EDx a _ => divides_by_zero a
  | EDiv a n => divides_by_zero a \/ n == 0
  end.

Lemma build_None e : build e = None <-> divides_by_zero e.
Proof.
  induction e; cbn [build divides_by_zero].
  - split; [discriminate | tauto].
  - split; [discriminate | tauto].
  - destruct (build e1), (build e2); cbn [obind]; intuition (try discriminate; auto).
  - destruct (build e); cbn [obind]; intuition (try discriminate; auto).
  - destruct (build e1), (build e2); cbn [obind]; intuition (try discriminate; auto).
  - destruct (build e); cbn [obind]; intuition (try discriminate; auto).
  - destruct (build e1), (build e2); cbn [obind]; intuition (try discriminate; auto).
  - destruct (build e); cbn [obind]; intuition (try discriminate; auto).
  - destruct (build e) as [f|]; cbn [obind].
    + unfold gdiv. destruct (Qeq_bool n 0) eqn:E.
      * apply Qeq_bool_iff in E. tauto.
      * assert (~ n == 0) by (intros H; apply Qeq_bool_iff in H; congruence).
        intuition (try discriminate; auto).
    + intuition (try discriminate; auto).
  - destruct (build e); cbn [obind]; intuition (try discriminate; auto).
Qed.

(* the objects that programs build: every leaf vanishes from index max_len e on ... *)
Lemma build_within_len e : forall g, build e = Some g -> leaves_within (fun _ => pred (max_len e)) g.
Proof.
  induction e; intros g; cbn [build max_len].
  - intros [= <-]. apply from_coeffs_within. intros _. lia.
  - intros [= <-]. apply from_function_within. intros _. lia.
  - destruct (build e1) as [f1|], (build e2) as [f2|]; cbn [obind]; try discriminate. intros [= <-].
    split; [apply (leaves_within_mono (fun _ => pred (max_len e1))) | apply (leaves_within_mono (fun _ => pred (max_len e2)))]; auto; intros; lia.
  - destruct (build e) as [f|]; cbn [obind]; try discriminate. intros [= <-].
    split; [apply (leaves_within_mono (fun _ => pred (max_len e))); auto; intros; lia | apply from_coeffs_within; intros; simpl; lia].
  - destruct (build e1) as [f1|], (build e2) as [f2|]; cbn [obind]; try discriminate. intros [= <-].
    split; [apply (leaves_within_mono (fun _ => pred (max_len e1))) | apply scale_within, (leaves_within_mono (fun _ => pred (max_len e2)))]; auto; intros; lia.
  - destruct (build e) as [f|]; cbn [obind]; try discriminate. intros [= <-].
    split; [apply (leaves_within_mono (fun _ => pred (max_len e))); auto; intros; lia | apply from_coeffs_within; intros; simpl; lia].
  - destruct (build e1) as [f1|], (build e2) as [f2|]; cbn [obind]; try discriminate. intros [= <-].
    split; [apply (leaves_within_mono (fun _ => pred (max_len e1))) | apply (leaves_within_mono (fun _ => pred (max_len e2)))]; auto; intros; lia.
  - destruct (build e) as [f|]; cbn [obind]; try discriminate. intros [= <-]. apply scale_within; auto.
  - destruct (build e) as [f|]; cbn [obind]; try discriminate. unfold gdiv. destruct (Qeq_bool n 0); [discriminate|].
    intros [= <-]. apply scale_within; auto.
  - destruct (build e) as [f|]; cbn [obind]; try discriminate. intros [= <-]. apply deriv_within_degb; auto.
Qed.

(* ... and is within its own _maxTerm: lists always, coefficient functions when they end by term 300 *)
Lemma build_within_own e : funcs_short e -> forall g, build e = Some g -> leaves_within (fun m => m) g.
Proof.
  induction e; intros Hs g; cbn [build funcs_short] in *.
  - intros [= <-]. intros i Hi. simpl. rewrite nth_overflow by lia. reflexivity.
  - intros [= <-]. intros i Hi. simpl. rewrite nth_overflow by lia. reflexivity.
  - destruct Hs. destruct (build e1) as [f1|], (build e2) as [f2|]; cbn [obind]; try discriminate. intros [= <-]. split; auto.
  - destruct (build e) as [f|]; cbn [obind]; try discriminate. intros [= <-].
    split; [auto|]. apply from_coeffs_within. intros; simpl; lia.
  - destruct Hs. destruct (build e1) as [f1|], (build e2) as [f2|]; cbn [obind]; try discriminate. intros [= <-].
    split; [auto | apply scale_within; auto].
  - destruct (build e) as [f|]; cbn [obind]; try discriminate. intros [= <-].
    split; [auto|]. apply from_coeffs_within. intros; simpl; lia.
  - destruct Hs. destruct (build e1) as [f1|], (build e2) as [f2|]; cbn [obind]; try discriminate. intros [= <-]. split; auto.
  - destruct (build e) as [f|]; cbn [obind]; try discriminate. intros [= <-]. apply scale_within; auto.
  - destruct (build e) as [f|]; cbn [obind]; try discriminate. unfold gdiv. destruct (Qeq_bool n 0); [discriminate|].
    intros [= <-]. apply scale_within; auto.
  - destruct (build e) as [f|]; cbn [obind]; try discriminate. intros [= <-]. apply deriv_within_degb; auto.
Qed.

(* coefficients of what a program builds = the reference polynomial arithmetic *)
Theorem build_coeff e : forall g, build e = Some g -> forall i, coeff g i == sem e i.
Proof.
  induction e; intros g; cbn [build sem].
  - intros [= <-] i. reflexivity.
  - intros [= <-] i. reflexivity.
  - destruct (build e1) as [f1|], (build e2) as [f2|]; cbn [obind]; try discriminate. intros [= <-] i.
    rewrite coeff_gadd, (IHe1 _ eq_refl), (IHe2 _ eq_refl). reflexivity.
  - destruct (build e) as [f|]; cbn [obind]; try discriminate. intros [= <-] i.
    rewrite coeff_gadd_num, (IHe _ eq_refl). reflexivity.
  - destruct (build e1) as [f1|], (build e2) as [f2|]; cbn [obind]; try discriminate. intros [= <-] i.
    rewrite coeff_gsub, (IHe1 _ eq_refl), (IHe2 _ eq_refl). reflexivity.
  - destruct (build e) as [f|]; cbn [obind]; try discriminate. intros [= <-] i.
    rewrite coeff_gsub_num, (IHe _ eq_refl). reflexivity.
  - destruct (build e1) as [f1|], (build e2) as [f2|]; cbn [obind]; try discriminate. intros [= <-] i.
    rewrite coeff_gmul. apply sumn_ext. intros j _. rewrite (IHe1 _ eq_refl), (IHe2 _ eq_refl). reflexivity.
  - destruct (build e) as [f|]; cbn [obind]; try discriminate. intros [= <-] i.
    rewrite coeff_gmul_num, (IHe _ eq_refl). reflexivity.
  - destruct (build e) as [f|]; cbn [obind]; try discriminate. intros H i.
    destruct (coeff_gdiv f n g i H) as [_ ->]. rewrite (IHe _ eq_refl). reflexivity.
  - destruct (build e) as [f|]; cbn [obind]; try discriminate. intros [= <-] i.
    rewrite coeff_deriv_fact, (IHe _ eq_refl). reflexivity.
Qed.

(* value of what a program builds = value of the reference polynomial *)
Theorem build_eval e g x : build e = Some g -> funcs_short e ->
  forall N, (degb (fun m => m) g <= N)%nat -> eval g x == sumn (S N) (fun i => sem e i * qpow x i).
Proof.
  intros Hb Hs N HN. unfold eval.
  rewrite (eval_cut_poly (fun m => m) g x (build_within_own e Hs g Hb) N HN).
  apply sumn_ext. intros i _. rewrite (build_coeff e g Hb). reflexivity.
Qed.

(* what tie B executes (every leaf summed to the longest coefficient list) is [eval] ... *)
Theorem tie_eval_is_eval e g x : build e = Some g -> funcs_short e -> eval_to (max_len e) g x == eval g x.
Proof.
  intros Hb Hs. unfold eval, eval_to. apply eval_cut_indep.
  - apply (leaves_within_mono (fun _ => pred (max_len e))); [intros; lia | apply build_within_len; exact Hb].
  - apply (build_within_own e Hs g Hb).
Qed.

(* ... and is also what the pinned tree computed (every leaf summed to term 300) for lists of <= 301 entries *)
Theorem tie_eval_is_eval_300 e g x : build e = Some g -> (max_len e <= S max_term)%nat -> eval_to (max_len e) g x == eval_to max_term g x.
Proof.
  intros Hb Hl. unfold eval_to. apply eval_cut_indep.
  - apply (leaves_within_mono (fun _ => pred (max_len e))); [intros; lia | apply build_within_len; exact Hb].
  - apply (leaves_within_mono (fun _ => pred (max_len e))); [intros; lia | apply build_within_len; exact Hb].
Qed.
