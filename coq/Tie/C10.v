(* Tie B for C10: a sequence of runs on ONE experiment object against Model/Lifecycle.v.
   The user code is a sequence of ScriptProcesses whose table is selected by the experimental
   parameter 'variant'; the model predicts, run by run, the calls made (set-up, generate, reset,
   build, process set-up, simulationStarted, results, simulationEnded, tear-down), the status
   flag, whether the run failed, the generator's remaining quota and the number of networks
   generated, the event stream at simulationStarted (clock, id counter, every queue entry with
   its liveness, all loci) and the working network handed to the run. *)
From Coq Require Import List ZArith QArith Bool Arith String.
From EpyV Require Import Lib.Prelude Model.Kernel Model.Lifecycle.
Import ListNotations.
Close Scope Q_scope.
Open Scope list_scope.

Definition net : Type := (list Z * list (Z * Z))%type.

Definition tag_eqb (a b : tag) : bool :=
  match a, b with
  | TSetUp, TSetUp | TReset, TReset | TBuild, TBuild | TProcSetUp, TProcSetUp | TStarted, TStarted
  | TResults, TResults | TEnded, TEnded | TProcTearDown, TProcTearDown | TTornDown, TTornDown => true
  | TGenerate x, TGenerate y => Bool.eqb x y
  | _, _ => false
  end.

(* what was observed at simulationStarted *)
Record started_obs := {
  so_clock : Q; so_nextid : nat;
  so_queue : list (Q * nat * bool);          (* (time, id, still in the finder), ascending id *)
  so_loci : list (list elem);
  so_nodes : list Z; so_edges : list (Z * Z);
  so_distinct : bool }.                      (* the working network is not the prototype object *)

Record run_obs := {
  r_variant : nat; r_outcome : outcome;
  o_calls : list tag; o_status : option bool; o_failed : bool;
  o_remaining : option nat; o_generated : nat;
  o_started : option started_obs;
  o_left_queue : nat; o_left_finder : nat;    (* len(_postedEvents), len(_postedEventFinder) after run() *)
  o_proto_same : bool }.

Record case_t := {
  c_tables : list (table unit); c_script : bool;
  c_proto : net; c_limit : option nat;
  c_runs : list run_obs }.

Definition the_user (tables : list (table unit)) : user net unit nat :=
  {| u_world := tt;
     u_table := fun v _ => nth v tables {| t_maxtime := 0%Q; t_loci := []; t_procs := []; t_progs := []; t_world := tt; t_equil := fun _ _ => false |};
     u_decorate := fun _ g => g;
     u_oracle := fun _ => ([], [], []);
     u_partial := fun _ _ x => x;
     u_body := fun _ _ x => x |}.

Definition qentry_eqb (a b : Q * nat * bool) : bool :=
  Qeq_bool (fst (fst a)) (fst (fst b)) && Nat.eqb (snd (fst a)) (snd (fst b)) && Bool.eqb (snd a) (snd b).
Definition edge_eqb (a b : Z * Z) : bool := zpair_eqb a b || zpair_eqb a (snd b, fst b).

Definition started_matches (script : bool) (proto : net) (s1 : state net unit nat) (o : started_obs) : bool :=
  let k := s_k s1 in
  (negb script ||
   (Qeq_bool (clock k) (so_clock o) && Nat.eqb (nextid k) (so_nextid o)
    && list_eqb qentry_eqb (rev (map (fun e => (e_time e, e_id e, e_live e)) (queue k))) (so_queue o)
    && list_eqb (list_eqb elem_eqb) (loci k) (so_loci o)))
  && match v_net (view_of s1) with
     | Some g => list_eqb Z.eqb (fst g) (so_nodes o)
                 && (negb script      (* shipped processes may rewrite the edges during build (Percolate) *)
                     || (Nat.eqb (List.length (snd g)) (List.length (so_edges o)) && set_eqb edge_eqb (snd g) (so_edges o)))
     | None => false
     end
  && so_distinct o
  && match s_graph s1 with Some a => negb (Nat.eqb a (s_proto s1)) | None => false end.

Fixpoint check_runs (u : user net unit nat) (script : bool) (proto : net) (i : nat) (rs : list run_obs) (s : state net unit nat) : bool :=
  match rs with
  | [] => true
  | r :: rs' =>
      let res := run_once u i (r_variant r) (r_outcome r) s in
      let s' := fst res in
      let added := rev (firstn (List.length (s_trace s') - List.length (s_trace s)) (s_trace s')) in
      let torn := existsb (tag_eqb TTornDown) added in
      list_eqb tag_eqb added (o_calls r)
      && opt_eqb Bool.eqb (s_status s') (o_status r)
      && Bool.eqb (snd res) (o_failed r)
      && opt_eqb Nat.eqb (s_remaining s') (o_remaining r)
      && Nat.eqb (s_generated s') (o_generated r)
      && match at_started u i (r_variant r) s, o_started r with
         | Some s1, Some o => existsb (tag_eqb TStarted) added && started_matches script proto s1 o
         | None, None => true
         | Some _, None => negb (existsb (tag_eqb TStarted) added)     (* an injected set-up failure *)
         | None, Some _ => false
         end
      && (negb torn || (Nat.eqb (List.length (queue (s_k s'))) (o_left_queue r) && Nat.eqb 0 (o_left_finder r)))
      && o_proto_same r
      && match h_get (s_proto s') (s_heap s') with
         | Some g => list_eqb Z.eqb (fst g) (fst proto) && list_eqb zpair_eqb (snd g) (snd proto)
         | None => false
         end
      && check_runs u script proto (S i) rs' s'
  end.

Definition check_case (c : case_t) : bool :=
  let u := the_user (c_tables c) in
  check_runs u (c_script c) (c_proto c) 0 (c_runs c) (initial u (c_proto c) (c_limit c)).
