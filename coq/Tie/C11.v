(* Tie B for C11: what a (nested) ProcessSequence of shipped and scripted processes did in the
   implementation against Model/Sequence.v.  The case describes the tree as it was constructed
   (kinds of the leaves, instance names, the stems of their loci, their events with the name of
   the parameter that supplies the probability), the parameter dict, the results that each leaf
   reported by itself and the sizes of the loci at the instants where the distribution was
   read; everything else is computed by the model and compared with the observation. *)
From Coq Require Import List ZArith QArith Bool Arith String.
From EpyV Require Import Lib.Prelude Model.Kernel Model.Sequence.
Import ListNotations.
Close Scope Q_scope.
Open Scope list_scope.

Inductive pexpr := PConst (q : Q) | PParam (key : string).
Record levent := { le_stem : string; le_p : pexpr; le_name : string }.
Record lleaf := {
  lf_id : nat; lf_inst : option string;
  lf_elem : list levent; lf_fixed : list levent;      (* in the order build() registers them *)
  lf_stems : list string; lf_maxtime : Q; lf_always : option bool;
  lf_eqafter : option Q;                              (* a leaf that overrides atEquilibrium(t) by t >= this time, whatever its maximum time *)
  lf_requests : list string }.                        (* parameters that build() requires (no default) *)

(* the threshold of the leaf's own equilibrium test: Process.atEquilibrium compares with maximumTime(), an
   overriding leaf with its own time (an override that never holds is lf_always = Some false);
   maximumTime() of the tree is computed from lf_maxtime in either case *)
Definition lf_threshold (l : lleaf) : Q := match lf_eqafter l with Some q => q | None => lf_maxtime l end.

Fixpoint tmap {A B} (f : A -> B) (t : ptree A) : ptree B :=
  match t with
  | Leaf p => Leaf (f p)
  | Seq cs => Seq (map (tmap f) cs)
  | NamedSeq cs => NamedSeq (map (fun nc => (fst nc, tmap f (snd nc))) cs)
  end.

Fixpoint index_of (n : string) (l : list string) : nat :=
  match l with [] => 0 | x :: l' => if String.eqb n x then 0 else S (index_of n l') end.

Definition value_of (inst : option string) (params : dict Q) (e : pexpr) : Q :=
  match e with
  | PConst q => q
  | PParam k => match get_decorated inst params k None with Found v => v | KeyError _ => (-1)%Q end
  end.
Definition resolve_event (inst : option string) (params : dict Q) (names : list string) (k : nat) (e : levent) : sevent :=
  {| se_locus := index_of (decorated_name inst (le_stem e)) names; se_p := value_of inst params (le_p e);
     se_prog := k; se_name := le_name e |}.
(* events that a process adds to its per-element distribution at run time (SIR_VariableInfection: one
   per S-I edge, on a one-element locus, with the edge's infectivity): leaf -> (name, probability) *)
Definition extras := list (nat * list (string * Q)).
Definition extra_events (one : nat) (ex : extras) (id : nat) : list sevent :=
  match find (fun x => Nat.eqb (fst x) id) ex with
  | None => []
  | Some x => map (fun nr => {| se_locus := one; se_p := snd nr; se_prog := 0; se_name := fst nr |}) (snd x)
  end.
Definition resolve_ex (params : dict Q) (names : list string) (one : nat) (ex : extras) (l : lleaf) : procdesc :=
  {| pd_id := lf_id l; pd_inst := lf_inst l;
     pd_elem := map (resolve_event (lf_inst l) params names 0) (lf_elem l) ++ extra_events one ex (lf_id l);
     pd_fixed := map (resolve_event (lf_inst l) params names 0) (lf_fixed l);
     pd_loci := lf_stems l; pd_maxtime := lf_threshold l; pd_always := lf_always l |}.
Definition resolve (params : dict Q) (names : list string) (l : lleaf) : procdesc :=
  {| pd_id := lf_id l; pd_inst := lf_inst l;
     pd_elem := map (resolve_event (lf_inst l) params names 0) (lf_elem l);
     pd_fixed := map (resolve_event (lf_inst l) params names 0) (lf_fixed l);
     pd_loci := lf_stems l; pd_maxtime := lf_threshold l; pd_always := lf_always l |}.

(* the first required parameter that is missing, in build order *)
Fixpoint first_missing (params : dict Q) (ls : list lleaf) : option string :=
  match ls with
  | [] => None
  | l :: ls' =>
      match get_parameters (lf_inst l) params (map (fun k => (k, None)) (lf_requests l)) with
      | inr k => Some k
      | inl _ => first_missing params ls'
      end
  end.

Record snap := { sn_sizes : list nat; sn_extra : extras; sn_dist : list (nat * string * Q) }.
Record lookup_obs := { lo_leaf : nat; lo_key : string; lo_default : option Q; lo_result : option Q }.
Record getparams_obs := { gp_leaf : nat; gp_keys : list (string * option Q); gp_result : list Q + string }.
Record setparams_obs := { sp_inst : option string; sp_before : dict Q; sp_kvs : dict Q; sp_after : dict Q }.
Record event_obs := { eo_leaf : nat; eo_fn : string; eo_attrs : list string; eo_loci : list string }.

Record case_t := {
  c_tree : ptree lleaf;
  c_params : dict Q;
  c_results : list (nat * dict Z);                (* what each leaf reported by itself *)
  o_built : bool;                                 (* set-up completed *)
  o_dup : bool;                                   (* "Locus ... already exists in the simulation" *)
  o_keyerror : option string;                     (* KeyError raised by build *)
  o_all : list nat;                               (* allProcesses(), as leaf ids *)
  o_names : option (list string);                 (* processNames() of the top process *)
  o_loci : list (string * nat);                   (* the registry: name and owning leaf, in order *)
  o_snaps : list snap;                            (* eventRateDistribution at several instants *)
  o_complete : bool;                              (* the run reached its end (results available) *)
  o_results : dict Z;
  o_maxtime : Q;
  o_equil : list (Q * bool);
  o_lookups : list lookup_obs;
  o_getparams : list getparams_obs;
  o_setparams : list setparams_obs;
  o_undecorated : list (string * string);
  o_events : list event_obs }.

Definition str_list_eqb := list_eqb String.eqb.
Definition find_leaf (id : nat) (ls : list lleaf) : option lleaf := find (fun l => Nat.eqb (lf_id l) id) ls.

Definition dist_eqb (a b : nat * string * Q) : bool :=
  Nat.eqb (fst (fst a)) (fst (fst b)) && String.eqb (snd (fst a)) (snd (fst b)) && Qeq_bool (snd a) (snd b).
Definition kv_eqb {V} (veqb : V -> V -> bool) (a b : string * V) : bool := String.eqb (fst a) (fst b) && veqb (snd a) (snd b).

Definition lookup_matches (params : dict Q) (ls : list lleaf) (o : lookup_obs) : bool :=
  match find_leaf (lo_leaf o) ls with
  | None => false
  | Some l => match get_decorated (lf_inst l) params (lo_key o) (lo_default o), lo_result o with
              | Found v, Some v' => Qeq_bool v v'
              | KeyError k, None => String.eqb k (lo_key o)
              | _, _ => false
              end
  end.
Definition getparams_matches (params : dict Q) (ls : list lleaf) (o : getparams_obs) : bool :=
  match find_leaf (gp_leaf o) ls with
  | None => false
  | Some l => match get_parameters (lf_inst l) params (gp_keys o), gp_result o with
              | inl vs, inl vs' => list_eqb Qeq_bool vs vs'
              | inr k, inr k' => String.eqb k k'
              | _, _ => false
              end
  end.
Definition setparams_matches (o : setparams_obs) : bool :=
  list_eqb (kv_eqb Qeq_bool) (set_parameters (sp_inst o) (sp_before o) (sp_kvs o)) (sp_after o).

Definition event_within (ls : list lleaf) (o : event_obs) : bool :=
  match find_leaf (eo_leaf o) ls with
  | None => false
  | Some l => subsetb String.eqb (eo_attrs o) (may_change_attrs (lf_inst l) (eo_fn o))
              && subsetb String.eqb (eo_loci o) (may_change_loci (lf_inst l) (lf_stems l))
  end.

Definition check_case (c : case_t) : bool :=
  let leaves := all_processes (c_tree c) in
  let t0 := tmap (resolve (c_params c) []) (c_tree c) in
  let common :=
    list_eqb Nat.eqb (map lf_id leaves) (o_all c)
    && opt_eqb str_list_eqb (process_names (c_tree c)) (o_names c)
    && forallb (lookup_matches (c_params c) leaves) (o_lookups c)
    && forallb (getparams_matches (c_params c) leaves) (o_getparams c)
    && forallb setparams_matches (o_setparams c)
    && forallb (fun x => String.eqb (undecorated_name (fst x)) (snd x)) (o_undecorated c)
    && Qeq_bool (maximum_time lf_maxtime (c_tree c)) (o_maxtime c)
    && forallb (fun x => Bool.eqb (at_equilibrium pd_equil t0 (fst x)) (snd x)) (o_equil c) in
  match first_missing (c_params c) leaves with
  | Some k => common && negb (o_built c) && negb (o_dup c) && opt_eqb String.eqb (Some k) (o_keyerror c)
  | None =>
      match build_registry t0 with
      | None => common && negb (o_built c) && o_dup c && opt_eqb String.eqb None (o_keyerror c)
      | Some reg =>
          let t := tmap (resolve (c_params c) (map fst reg)) (c_tree c) in
          let ids := map pd_id (all_processes t) in
          let res := fun p : procdesc => match find (fun x => Nat.eqb (fst x) (pd_id p)) (c_results c) with
                                         | Some x => snd x | None => [] end in
          common && o_built c && negb (o_dup c) && opt_eqb String.eqb None (o_keyerror c)
          && list_eqb (fun a b => String.eqb (fst a) (fst b) && Nat.eqb (snd a) (snd b)) reg (o_loci c)
          && forallb (fun s => list_eqb dist_eqb
                                 (map (fun x => (nth (fst (fst x)) ids 4999, snd (fst x), snd x))
                                      (event_rate_distribution
                                         (tmap (resolve_ex (c_params c) (map fst reg) (List.length (sn_sizes s)) (sn_extra s)) (c_tree c))
                                         (sn_sizes s ++ [1])))
                                 (sn_dist s)) (o_snaps c)
          && forallb (event_within leaves) (o_events c)
          && (negb (o_complete c) || list_eqb (kv_eqb Z.eqb) (results res t) (o_results c))
      end
  end.
