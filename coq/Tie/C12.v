(* Tie B for C12: NetworkStatistics results against Model/NetStats.v, and Monitor time series
   through the whole-run tie of the compartmented models (Tie/Compart.v, o_observations). *)
From Coq Require Import List ZArith QArith Bool Arith.
From EpyV Require Import Lib.Prelude Model.Kernel Model.NetStats Tie.Kernel Tie.Compart.
Import ListNotations.

Record stats_obs := { so_N : nat; so_M : nat; so_kmean : Q; so_kmax : nat; so_kdist : list nat;
                      so_components : nat; so_lcc : nat; so_slcc : nat }.

Inductive case_t :=
| CStats (nodes : list Z) (es : list (Z * Z)) (o : stats_obs)
| CRun (c : Tie.Compart.case_t).

Definition check_stats (nodes : list Z) (es : list (Z * Z)) (o : stats_obs) : bool :=
  let m := statistics nodes es in
  Nat.eqb (s_N m) (so_N o) && Nat.eqb (s_M m) (so_M o) && qapprox (s_kmean m) (so_kmean o)
  && Nat.eqb (s_kmax m) (so_kmax o) && list_eqb Nat.eqb (s_kdist m) (so_kdist o)
  && Nat.eqb (s_components m) (so_components o) && Nat.eqb (s_lcc m) (so_lcc o) && Nat.eqb (s_slcc m) (so_slcc o).

Definition check_case (c : case_t) : bool :=
  match c with
  | CStats nodes es o => check_stats nodes es o
  | CRun r => Tie.Compart.check_case r
  end.
