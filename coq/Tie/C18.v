(* Tie B for C18: compare the model of ShuffleK.build with what the implementation did,
   driven by the same random choices (recorded shuffles and DrawSet.draw outcomes). *)
From Coq Require Import List ZArith QArith Bool Arith.
From EpyV Require Import Lib.Prelude Model.Shuffle.
Import ListNotations.

Record case_t := {
  c_nodes : list Z; c_edges : list edge; c_f : Q;
  c_evs : list ev;                 (* every shuffle result and every draw, in the order they happened *)
  c_fuel : nat;                    (* an upper bound on the number of loop iterations *)
  o_nodes : list Z; o_edges : list edge;     (* working network after the build *)
  o_swaps : list quad;                        (* (a,b,c,d) of every remove_edges_from/add_edges_from pair, in order *)
  o_proto : list edge                         (* the prototype's edges after the run *)
}.

Definition edges_same (a b : list edge) : bool :=
  Nat.eqb (length a) (length b) && set_eqb same_edge a b.

Definition quad_eqb (p q : quad) : bool :=
  let '(a, b, c, d) := p in let '(a', b', c', d') := q in
  (a =? a')%Z && (b =? b')%Z && (c =? c')%Z && (d =? d')%Z.

Definition check_case (c : case_t) : bool :=
  let r := build (c_nodes c) (c_edges c) (c_f c) (c_evs c) (c_fuel c) in
  match r_out r with
  | Done s =>
      edges_same (st_g s) (o_edges c)
      && list_eqb quad_eqb (rev (st_swaps s)) (o_swaps c)
      && match st_evs s with [] => true | _ => false end        (* every recorded choice was consumed *)
      && list_eqb Z.eqb (r_nodes r) (o_nodes c)
      && list_eqb zpair_eqb (r_proto r) (o_proto c)
  | _ => false
  end.
