(* Tie B for C13: compare the model of BondPercolation / SitePercolation with what the
   implementation did (recorded by a sample() override that calls the public queries).
   A case is a history of runs of ONE experiment object (the prototype network may be edited in
   place, or replaced, between runs); every run is compared with the model on the network as it
   is at that run (setUp rebuilds all percolation state, so runs are independent in the model). *)
From Coq Require Import List ZArith QArith Bool Arith.
From EpyV Require Import Lib.Prelude Model.Percolate Model.NewmanZiff.
Import ListNotations.

Record run_t := {
  c_site : bool;                 (* SitePercolation (true) or BondPercolation (false) *)
  c_nodes : list nat;            (* nodes of the working copy before do() touches it, in order *)
  c_edges : list nedge;          (* its edges, in g.edges() order (what bond percolation shuffles) *)
  c_adj : list (list nat);       (* og.neighbors(n) for n = 0..N-1, in order (site percolation) *)
  c_perm : list nat;             (* the scripted shuffle *)
  c_ps : list Q;                 (* _samplepoints, exact values of the floats *)
  o_raised : bool;               (* run() raised *)
  o_arg_edges : list nedge;      (* the list handed to percolate() (bond) *)
  o_arg_nodes : list nat;        (* the list handed to percolate() (site) *)
  o_samples : list obs;          (* one record per call of sample() *)
  o_series : list (Q * Z);       (* results dict: (pOccupied, gcc) series *)
  o_ev_edges : list nedge;       (* elements of the OCCUPY events, in order (bond) *)
  o_ev_nodes : list nat          (* elements of the OCCUPY events, in order (site) *)
}.

Definition edges_same (a b : list nedge) : bool :=
  Nat.eqb (length a) (length b) && set_eqb same_nedge a b.

Definition obs_eqb (m o : obs) : bool :=
  Qeq_bool (o_p m) (o_p o)
  && list_eqb Z.eqb (o_comp m) (o_comp o)
  && Z.eqb (o_gcc m) (o_gcc o) && Z.eqb (o_ncomp m) (o_ncomp o)
  && list_eqb Z.eqb (o_sizes m) (o_sizes o)
  && list_eqb Nat.eqb (o_wnodes m) (o_wnodes o)
  && edges_same (o_wedges m) (o_wedges o).

Definition series_eqb (a b : Q * Z) : bool := Qeq_bool (fst a) (fst b) && Z.eqb (snd a) (snd b).

Definition check_run (c : run_t) : bool :=
  negb (o_raised c) &&
  if c_site c then
    let ns := apply_perm 0%nat (c_nodes c) (c_perm c) in
    let '(s, os, n) := do_site (c_nodes c) (fun k => nth k (c_adj c) []) (c_perm c) (c_ps c) in
    list_eqb Nat.eqb ns (o_arg_nodes c)
    && list_eqb obs_eqb os (o_samples c)
    && list_eqb series_eqb (series os) (o_series c)
    && list_eqb Nat.eqb (firstn n ns) (o_ev_nodes c)
  else
    let es := apply_perm (0, 0)%nat (c_edges c) (c_perm c) in
    let '(s, os, n) := do_bond (c_nodes c) (c_edges c) (c_perm c) (c_ps c) in
    list_eqb npair_eqb es (o_arg_edges c)
    && list_eqb obs_eqb os (o_samples c)
    && list_eqb series_eqb (series os) (o_series c)
    && list_eqb npair_eqb (firstn n es) (o_ev_edges c).

Definition case_t := list run_t.
Definition check_case (c : case_t) : bool := forallb check_run c.
