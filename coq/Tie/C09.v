(* Tie B for C09: replay an operation sequence on the model and compare with what DrawSet did.
   Level 1 (check_case): results, rng.integers requests, len, empty and - wherever the harness dumped
   it - the whole tree (shape, data, stored _height/_leftSize/_rightSize) must be identical.
   Level 2 (check_case_l2): the dumped tree itself satisfies the boolean Good invariant and its
   in-order list is the abstract set reached by the same operations (no reference to the tree model). *)
From Coq Require Import List ZArith Bool Arith.
From EpyV Require Import Lib.Prelude Model.Bbt.
Import ListNotations.

Record step_t := {
  s_op : op;                       (* Dr carries the integers rng.integers actually returned *)
  s_res : res;                     (* what the call returned / raised *)
  s_reqs : list nat;               (* arguments of the rng.integers calls it made *)
  s_len : nat; s_empty : bool;     (* len(s), s.empty() after the call *)
  s_dump : option (list entry)     (* preorder dump of s._root after the call, when taken *)
}.
Definition case_t := list step_t.

Definition entry_eqb (a b : entry) : bool :=
  match a, b with
  | None, None => true
  | Some (d, h, l, r), Some (d', h', l', r') => (d =? d')%Z && (h =? h')%nat && (l =? l')%nat && (r =? r')%nat
  | _, _ => false
  end.
Definition res_eqb (a b : res) : bool :=
  match a, b with
  | RUnit, RUnit | RKeyError, RKeyError | RValueError, RValueError | RStuck, RStuck => true
  | RDrew x, RDrew y => (x =? y)%Z
  | RBool x, RBool y => Bool.eqb x y
  | RList x, RList y => list_eqb Z.eqb x y
  | _, _ => false
  end.

Fixpoint check_steps (t : tree) (ss : list step_t) : bool :=
  match ss with
  | [] => true
  | s :: ss' =>
    let '(t', r, q) := step t (s_op s) in
    res_eqb r (s_res s) && list_eqb Nat.eqb q (s_reqs s) && (len t' =? s_len s)%nat
    && Bool.eqb (is_empty t') (s_empty s)
    && match s_dump s with None => true | Some d => list_eqb entry_eqb (dump t') d end
    && check_steps t' ss'
  end.
Definition check_case (c : case_t) : bool := check_steps Leaf c.

(* ---- level 2 *)
Fixpoint undump (fuel : nat) (es : list entry) : option (tree * list entry) :=
  match fuel with
  | O => None
  | S f =>
    match es with
    | [] => None
    | None :: rest => Some (Leaf, rest)
    | Some (d, h, ls, rs) :: rest =>
      match undump f rest with
      | Some (l, rest1) =>
        match undump f rest1 with
        | Some (r, rest2) => Some (Node l d h ls rs r, rest2)
        | None => None
        end
      | None => None
      end
    end
  end.

Fixpoint sorted_b (l : list Z) : bool :=
  match l with
  | x :: ((y :: _) as l') => (x <? y)%Z && sorted_b l'
  | _ => true
  end.
(* real height (0 for Leaf) and size, or None if some stored field or the balance is wrong *)
Fixpoint shape_b (t : tree) : option (nat * nat) :=
  match t with
  | Leaf => Some (0, 0)%nat
  | Node l _ h ls rs r =>
    match shape_b l, shape_b r with
    | Some (hl, nl), Some (hr, nr) =>
      if (h =? Nat.max hl hr)%nat && (ls =? nl)%nat && (rs =? nr)%nat && (hl <=? S hr)%nat && (hr <=? S hl)%nat
      then Some (S (Nat.max hl hr), nl + 1 + nr)%nat else None
    | _, _ => None
    end
  end.
Definition good_b (t : tree) : bool :=
  sorted_b (inorder t) && match shape_b t with Some _ => true | None => false end.

Fixpoint check_steps_l2 (s : list Z) (ss : list step_t) : bool :=
  match ss with
  | [] => true
  | st :: ss' =>
    let s' := aapply s (s_op st) in
    match s_dump st with
    | None => true
    | Some d =>
      match undump (S (length d)) d with
      | Some (t, []) => good_b t && list_eqb Z.eqb (inorder t) s'
      | _ => false
      end
    end && (s_len st =? length s')%nat && Bool.eqb (s_empty st) (match s' with [] => true | _ => false end)
    && check_steps_l2 s' ss'
  end.
Definition check_case_l2 (c : case_t) : bool := check_steps_l2 [] c.
