(* Tie B for C02: whole scripted stochastic runs, of two kinds in one case list -
   generic ScriptProcess tables (Tie/Kernel.v) and shipped compartmented models (Tie/Compart.v). *)
From Coq Require Import List ZArith QArith Bool Arith.
From EpyV Require Import Lib.Prelude Model.Kernel Tie.Kernel Tie.Compart.
Import ListNotations.

Inductive case_t :=
| CK (c : EpyV.Tie.Kernel.case_t)
| CC (c : EpyV.Tie.Compart.case_t).

Definition check_case (c : case_t) : bool :=
  match c with
  | CK k => EpyV.Tie.Kernel.check_case k
  | CC k => EpyV.Tie.Compart.check_case k
  end.
