(* Tie B for C16: a program over the GF operators (coefficient lists as leaves), what the
   implementation answered for gf[i] and gf(x), and the model's answers.
   Every leaf is summed up to term [max_len e] (the longest coefficient list of the program):
   Properties/C16.v, [C16_tie_eval_is_eval], proves that on exactly these programs this is [eval]
   (every leaf up to its own _maxTerm), because every further coefficient is 0. *)
From Coq Require Import List ZArith QArith Bool Arith.
From EpyV Require Import Lib.Prelude Model.GF.
Import ListNotations.

Record case_t := {
  c_expr : expr;
  c_idx : list nat;          (* gf[i] for these i *)
  c_pts : list Q;            (* gf(x) for these x *)
  o_zerodiv : bool;          (* building the expression raised ZeroDivisionError *)
  o_coeffs : list Q;
  o_values : list Q
}.

Definition tie_eval (e : expr) (g : gf) (x : Q) : Q := eval_to (max_len e) g x.

Definition check_case (c : case_t) : bool :=
  match build (c_expr c) with
  | None => o_zerodiv c
  | Some g =>
      negb (o_zerodiv c)
      && list_eqb Qeq_bool (map (coeff g) (c_idx c)) (o_coeffs c)
      && list_eqb Qeq_bool (map (tie_eval (c_expr c) g) (c_pts c)) (o_values c)
  end.
