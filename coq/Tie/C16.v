(* Tie B for C16: a program over the GF operators (coefficient lists as leaves), what the
   implementation answered for gf[i] and gf(x), and the model's answers.
   Every leaf is summed up to term [max_len e] (the longest coefficient list of the program):
   Properties/C16.v, [C16_tie_eval_is_eval], proves that on exactly these programs this is [eval]
   (every leaf up to its own _maxTerm), because every further coefficient is 0. *)
From Coq Require Import List ZArith QArith Bool Arith.
From EpyV Require Import Lib.Prelude Model.GF.
Import ListNotations.

Record case_t := {
  c_expr : expr;
  c_idx : list nat;          (* gf[i] for these i *)
  c_pts : list Q;            (* gf(x) for these x *)
  o_zerodiv : bool;          (* building the expression raised ZeroDivisionError *)
  o_coeffs : list Q;
  o_values : list Q;
  (* further queries on the SAME top object after the ones above, in this order: for each (k, cs),
     [g.dx(k)[i] for i in c_idx] answered cs (the same k may be asked again) *)
  o_dxq : list (nat * list Q)
}.

Definition tie_eval (e : expr) (g : gf) (x : Q) : Q := eval_to (max_len e) g x.

(* g.dx(k) on the object built from the program is the object built from the program [EDx e k] *)
Definition check_dxq (e : expr) (idx : list nat) (kc : nat * list Q) : bool :=
  match build (EDx e (fst kc)) with
  | None => false
  | Some d => list_eqb Qeq_bool (map (coeff d) idx) (snd kc)
  end.

Definition check_case (c : case_t) : bool :=
  match build (c_expr c) with
  | None => o_zerodiv c
  | Some g =>
      negb (o_zerodiv c)
      && list_eqb Qeq_bool (map (coeff g) (c_idx c)) (o_coeffs c)
      && list_eqb Qeq_bool (map (tie_eval (c_expr c) g) (c_pts c)) (o_values c)
      && forallb (check_dxq (c_expr c) (c_idx c)) (o_dxq c)
  end.
