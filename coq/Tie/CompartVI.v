(* Tie B for whole runs of SIR_VariableInfection (Model/CompartVI.v over Model/KernelDyn.v)
   against the implementation, both dynamics, alone or in a sequence behind a Monitor. *)
From Coq Require Import List ZArith QArith Qabs Bool Arith.
From EpyV Require Import Lib.Prelude Model.Kernel Model.KernelDyn Model.Loci Model.Compart Model.CompartVI
  Tie.Kernel Tie.Compart.
Import ListNotations.
Open Scope Q_scope.

Record vicase_t := {
  vc_model : vimodel; vc_nodes : list Z; vc_edges : list (Z * Z); vc_init : list (Z * Z);
  vc_maxtime : Q; vc_monitor : option Q; vc_sync : bool;
  vc_inf_rands : list Q;                                   (* what rng.random() returned inside initialInfectivities, in order *)
  vc_rands : list Q; vc_lns : list Q; vc_draws : list nat; (* the oracle after set-up *)
  vio_inf : list (Z * Z * Q);                              (* edge infectivities observed after set-up *)
  vio_handlers : list (nat * Q * Kernel.elem * bool);      (* event-function entries: program, t, element, member of its locus at entry *)
  vio_taps : list (Q * nat * bool * Kernel.elem);
  vio_final_comp : list (Z * Z);
  vio_final_loci : list (list Kernel.elem);
  vio_occ : list (Z * Z * Q); vio_hit : list (Z * Q);
  vio_counts : list (Z * nat);
  vio_observations : list (Q * list nat);
  vio_time : Q; vio_events : nat; vio_steps : nat; vio_ok : bool }.

(* tie A: the table read off the live objects of this run is the shipped class's, for some pRemove (possibly with the
   harness' posted removal of the seeds) *)
Definition spec_eqb (a b : Loci.spec) : bool :=
  match a, b with
  | NodeLocus c, NodeLocus c' => Z.eqb c c'
  | EdgeLocus l r, EdgeLocus l' r' => Z.eqb l l' && Z.eqb r r'
  | MultiEdgeLocus l rs, MultiEdgeLocus l' rs' => Z.eqb l l' && list_eqb Z.eqb rs rs'
  | _, _ => false
  end.
Definition hkind_eqb (a b : hkind) : bool :=
  match a, b with
  | HNode c, HNode c' => Z.eqb c c'
  | HLeft c m None, HLeft c' m' None => Z.eqb c c' && Bool.eqb m m'
  | HNop, HNop => true
  | HObs, HObs => true
  | _, _ => false
  end.
Definition vi_shipped (vm : vimodel) : bool :=
  match vim_events vm with
  | [ev] => list_eqb spec_eqb (vim_specs vm) (vim_specs (sir_vi 0)) && ce_elem ev && Nat.eqb (ce_locus ev) 1
            && hkind_eqb (ce_kind ev) (HNode 2) && Nat.eqb (vim_si vm) 0 && hkind_eqb (vim_infect vm) (HLeft 1 true None)
            && match vim_seed_post vm with
               | None => true
               | Some (c, T, k) => Z.eqb c 1 && Nat.eqb k 0      (* the posted-removal subclass: seeds, remove *)
               end
  | _ => false
  end.

Definition vi_inf_of (c : vicase_t) : list (Z * Z * Q) := initial_infectivities (vc_edges c) (vc_inf_rands c).

Definition vimodel_run (c : vicase_t) : result viworld :=
  let D := mk_vitable (vc_model c) (vc_nodes c) (vc_edges c) (vc_init c) (vi_inf_of c) (vc_maxtime c) (vc_monitor c) in
  if vc_sync c then dsync_run D 4000 4000 (vc_rands c) (vc_draws c)
  else dstoch_run D 4000 4000 (vc_rands c) (vc_lns c) (vc_draws c).

Definition inf_eqb (a b : Z * Z * Q) : bool := undirected_eqb (fst a) (fst b) && Qeq_bool (snd a) (snd b).

Definition vicheck_case (c : vicase_t) : bool :=
  let r := vimodel_run c in
  let w := vi_base (world (r_final r)) in
  vio_ok c && negb (r_stuck r) && vi_shipped (vc_model c)
  && Nat.eqb (length (vc_inf_rands c)) (length (vc_edges c))
  && inf_covers (vc_edges c) (vi_inf_of c)
  && set_eqb inf_eqb (vi_inf_of c) (vio_inf c) && Nat.eqb (length (vi_inf_of c)) (length (vio_inf c))
  && list_eqb inf_eqb (vi_inf (world (r_final r))) (vi_inf_of c)
  && list_eqb h_eqb (handlers_of (r_out r)) (vio_handlers c)
  && list_eqb t_eqb (taps_of (r_out r)) (vio_taps c)
  && list_eqb o_eqb (observations_of (r_out r)) (vio_observations c)
  && forallb (fun nc => opt_eqb Z.eqb (getc (cw_st w) (fst nc)) (Some (snd nc))) (vio_final_comp c)
  && Nat.eqb (length (vio_final_comp c)) (length (st_nodes (cw_st w)))
  && list_eqb (list_eqb Kernel.elem_eqb) (loci (r_final r)) (vio_final_loci c)
  && list_eqb (list_eqb Kernel.elem_eqb) (map ksort (st_loci (cw_st w))) (vio_final_loci c)
  && set_eqb occ_eqb (cw_occ w) (vio_occ c) && Nat.eqb (length (cw_occ w)) (length (vio_occ c))
  && set_eqb hit_eqb (cw_hit w) (vio_hit c) && Nat.eqb (length (cw_hit w)) (length (vio_hit c))
  && forallb (fun cn => Nat.eqb (count_in (cw_st w) (fst cn)) (snd cn)) (vio_counts c)
  && qapprox (r_time r) (vio_time c) && Nat.eqb (r_events r) (vio_events c)
  && (negb (vc_sync c) || Nat.eqb (r_steps r) (vio_steps c)).

(* for debugging: which conjunct fails *)
Definition vidiagnose (c : vicase_t) : list bool :=
  let r := vimodel_run c in
  let w := vi_base (world (r_final r)) in
  [ vio_ok c; negb (r_stuck r); vi_shipped (vc_model c);
    Nat.eqb (length (vc_inf_rands c)) (length (vc_edges c));
    inf_covers (vc_edges c) (vi_inf_of c);
    set_eqb inf_eqb (vi_inf_of c) (vio_inf c);
    list_eqb h_eqb (handlers_of (r_out r)) (vio_handlers c);
    list_eqb t_eqb (taps_of (r_out r)) (vio_taps c);
    list_eqb o_eqb (observations_of (r_out r)) (vio_observations c);
    forallb (fun nc => opt_eqb Z.eqb (getc (cw_st w) (fst nc)) (Some (snd nc))) (vio_final_comp c);
    list_eqb (list_eqb Kernel.elem_eqb) (loci (r_final r)) (vio_final_loci c);
    list_eqb (list_eqb Kernel.elem_eqb) (map ksort (st_loci (cw_st w))) (vio_final_loci c);
    set_eqb occ_eqb (cw_occ w) (vio_occ c); set_eqb hit_eqb (cw_hit w) (vio_hit c);
    forallb (fun cn => Nat.eqb (count_in (cw_st w) (fst cn)) (snd cn)) (vio_counts c);
    qapprox (r_time r) (vio_time c); Nat.eqb (r_events r) (vio_events c);
    negb (vc_sync c) || Nat.eqb (r_steps r) (vio_steps c) ].

(* what the model did, for comparison by eye *)
Definition vitrace (c : vicase_t) :=
  let r := vimodel_run c in (handlers_of (r_out r), taps_of (r_out r), r_time r, r_events r, r_steps r).
