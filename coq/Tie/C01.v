(* Tie B for C01: compare the model of the loci machinery with what the implementation did,
   after set-up and after every call of a history. *)
From Coq Require Import List ZArith Bool Arith.
From EpyV Require Import Lib.Prelude Model.Loci.
Import ListNotations.

(* a call of the history as one instance sees it: made through its own API (one of the six single-element calls, or
   one of the four bulk calls), or through the API of another instance of the same simulation (only compartment calls
   are generated there) *)
(* Bulk os: one call of Process.addNodesFrom / removeNodesFrom / addEdgesFrom / removeEdgesFrom, which loops over its
   argument calling the single-element method (self.addNode(n, **kwds), self.removeNode(n), ...): the elements in
   order, stopping at the first element whose call raises (the exception leaves the loop); the implementation is
   observed once, after the whole call *)
Inductive top := Own (o : op) | Other | Bulk (os : list op).

Fixpoint bulk_out (tbl : list spec) (s : state) (os : list op) : state * outcome :=
  match os with
  | [] => (s, Done)
  | o :: r => let so := step_out tbl s o in
              match snd so with
              | Done => bulk_out tbl (fst so) r
              | _ => so
              end
  end.

Record obs_t := {
  o_raised : bool;                         (* the call raised an exception *)
  o_nodes : list Z;                        (* list(g.nodes()) *)
  o_edges : list (Z * Z);                  (* list(g.edges()) *)
  o_attr : list (option (option Z));       (* COMPARTMENT attribute of every node of the universe *)
  o_loci : list (list elem)                (* list(locus) of every compartment-tracking locus *)
}.

Record case_t := {
  c_tbl : list spec;                       (* extracted from the live loci objects (tie A) *)
  c_effects : list (Z * list nat);         (* CompartmentedModel._effects as observed: compartment -> loci indices *)
  c_universe : list Z;
  c_nodes : list Z; c_edges : list (Z * Z); c_init : list (Z * Z);
  c_ops : list top; c_obs0 : obs_t; c_obs : list obs_t;
  c_ops_b : list top; c_obs_b : list obs_t  (* second history from the same set-up state (may be empty) *)
}.

(* several named instances of compartmented models on one network (ProcessSequence): each instance
   has its own decorated COMPARTMENT attribute and its own loci, i.e. its own copy of the model
   state over the shared network; a call made through another instance must leave it as it is *)
Record mcase_t := { m_parts : list case_t }.

Definition same_uedge (e f : Z * Z) : bool := same_edge (fst f) (snd f) e.
Definition attr_eqb (a b : option (option Z)) : bool := opt_eqb (opt_eqb Z.eqb) a b.

Definition sets_same {A} (eqb : A -> A -> bool) (a b : list A) : bool :=
  Nat.eqb (length a) (length b) && set_eqb eqb a b.

Definition check_state (u : list Z) (s : state) (o : obs_t) : bool :=
  sets_same Z.eqb (st_nodes s) (o_nodes o)
  && sets_same same_uedge (st_edges s) (o_edges o)
  && list_eqb attr_eqb (map (st_attr s) u) (o_attr o)
  && Nat.eqb (length (st_loci s)) (length (o_loci o))
  && list_eqb (sets_same elem_eqb) (st_loci s) (o_loci o).

Definition outcome_matches (r : outcome) (raised : bool) : bool :=
  match r with Done => negb raised | Raised => raised | Outside => false end.

Fixpoint check_trace (tbl : list spec) (u : list Z) (s : state) (ops : list top) (obs : list obs_t) : bool :=
  match ops, obs with
  | [], [] => true
  | Own o :: ops', ob :: obs' =>
      let so := step_out tbl s o in
      outcome_matches (snd so) (o_raised ob) && check_state u (fst so) ob && check_trace tbl u (fst so) ops' obs'
  | Other :: ops', ob :: obs' =>
      check_state u s ob && check_trace tbl u s ops' obs'
  | Bulk os :: ops', ob :: obs' =>
      let so := bulk_out tbl s os in
      outcome_matches (snd so) (o_raised ob) && check_state u (fst so) ob && check_trace tbl u (fst so) ops' obs'
  | _, _ => false
  end.

Definition check_effects (tbl : list spec) (eff : list (Z * list nat)) : bool :=
  forallb (fun ce => list_eqb Nat.eqb (effects tbl (fst ce)) (snd ce)) eff.

Definition check_case (c : case_t) : bool :=
  let tbl := c_tbl c in
  let s0 := setup tbl (c_nodes c) (c_edges c) (c_init c) in
  check_effects tbl (c_effects c)
  && check_state (c_universe c) s0 (c_obs0 c)
  && check_trace tbl (c_universe c) s0 (c_ops c) (c_obs c)
  && check_trace tbl (c_universe c) s0 (c_ops_b c) (c_obs_b c).

Definition check_mcase (m : mcase_t) : bool := forallb check_case (m_parts m).
