(* Tie B for C15: compare the models of the generator logic with what the implementation did. *)
From Coq Require Import List ZArith QArith Bool Arith.
From EpyV Require Import Lib.Prelude Model.Shuffle Model.Generators.
Import ListNotations.
Local Open Scope nat_scope.

Definition graph_t := (list Z * list edge)%type.

Inductive case_t :=
| CQuota (ctor : bool) (caller : list Z) (limit : option nat) (ops : list qop) (outs : list qout)
| CFixed (proto : graph_t) (limit : option nat) (ops : list qop) (outs : list (option graph_t))
| CCP (i : cp_input) (o_nodes : list (Z * Z)) (o_edges : list edge) (o_core o_per : list Z)
| CMod (i : mod_input) (o_nodes : list vnode) (o_edges : list edge)
| CPlc (ptable : list Q) (N : nat) (evs : list pev) (o_degs : list nat).

Definition edges_same (a b : list edge) : bool :=
  Nat.eqb (length a) (length b) && set_eqb same_edge a b.

Definition qout_eqb (a b : qout) : bool :=
  match a, b with
  | ONone, ONone => true | OStop, OStop => true
  | OGraph p, OGraph q => list_eqb Z.eqb p q
  | _, _ => false
  end.

Definition graph_eqb (a b : graph_t) : bool := list_eqb Z.eqb (fst a) (fst b) && edges_same (snd a) (snd b).

Definition vnode_eqb (a b : vnode) : bool :=
  (v_label a =? v_label b)%Z && (v_origin a =? v_origin b)%Z && Bool.eqb (v_flag a) (v_flag b).

(* the recorded node order of a restricted copy lists exactly the nodes of the chosen component *)
Definition rearranged (order comp : list Z) : bool :=
  Nat.eqb (length order) (length comp) && set_eqb Z.eqb order comp.

Definition check_case (c : case_t) : bool :=
  match c with
  | CQuota ctor caller limit ops outs =>
      list_eqb qout_eqb (q_run (q_init ctor caller limit) ops) outs
  | CFixed proto limit ops outs =>
      list_eqb (opt_eqb graph_eqb) (fixed_outputs proto limit ops) outs
  | CCP i o_nodes o_edges o_core o_per =>
      let g := cp_generate i in
      Nat.eqb (length (cp_rs i)) (cp_Nc i * cp_Np i)          (* one random() per (core, periphery) pair *)
      && rearranged (cp_order i) (cp_component i)
      && list_eqb zpair_eqb (map (fun v => (v_label v, v_origin v)) (g_nodes g)) o_nodes
      && edges_same (g_edges g) o_edges
      && rearranged (nodes_of_origin g 0%Z) o_core             (* a subgraph view lists its nodes in an order of its own *)
      && rearranged (nodes_of_origin g 1%Z) o_per
  | CMod i o_nodes o_edges =>
      let g := mod_generate i in
      Nat.eqb (length (md_choices i)) (length (md_sats i))
      && rearranged (m_order (md_centre i)) (module_component (md_Nc i) (md_centre i))
      && forallb (fun m => rearranged (m_order m) (module_component (md_Ns i) m)) (md_sats i)
      && list_eqb vnode_eqb (g_nodes g) o_nodes
      && edges_same (g_edges g) o_edges
  | CPlc ptable N evs o_degs =>
      (* rng.integers(1, maxdeg) stayed in 1..99: the hypothesis of C15_plc_degree_bound *)
      forallb (fun e => match e with PK k _ => Nat.leb 1 k && Nat.leb k 99 | PIdx _ => true end) evs &&
      match plc_degrees (ptab ptable) N evs with
      | Some (ns, []) => list_eqb Nat.eqb ns o_degs        (* every recorded draw consumed *)
      | _ => false
      end
  end.
