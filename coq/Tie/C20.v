(* Tie B for C20: whole runs of PulseCoupledOscillator against Model/Pulse.v over Model/Kernel.v.
   The oracle holds the values of the numeric maps recomputed by the harness from the recorded
   arguments; the model recomputes the arguments exactly and both are compared. *)
From Coq Require Import List ZArith QArith Qabs Bool Arith Floats String Ascii.
From EpyV Require Import Lib.Prelude Model.Kernel Model.Pulse Tie.Kernel Proofs.PulseBase Proofs.PulseRun.
Import ListNotations.
Open Scope Q_scope.

(* Cases carry binary64 values as primitive float literals written from float.hex() (they parse an
   order of magnitude faster than Q literals); fq is their exact rational value. *)
Definition fq (f : float) : Q :=
  match Prim2SF f with
  | S754_finite s m e =>
      let z := if s then Zneg m else Zpos m in
      match e with
      | Z0 => z # 1
      | Zpos p => (z * Z.pow_pos 2 p) # 1
      | Zneg p => z # (Pos.pow 2 p)
      end
  | _ => 0
  end.

Definition kind_of (a : ascii) : rkind :=
  if Ascii.eqb a "N" then RN else if Ascii.eqb a "T" then RT else if Ascii.eqb a "S" then RS
  else if Ascii.eqb a "G" then RG else RR.
Fixpoint kinds_of (s : string) : list rkind :=
  match s with EmptyString => [] | String a s' => kind_of a :: kinds_of s' end.

(* as written by the harness *)
Record fcase_t := {
  f_cfg : pcfg; f_sync : bool;
  f_kinds : list string;                (* one letter per numeric call, in call order (chunked) *)
  f_answers : list float;               (* the value of each call, recomputed by the harness from its argument *)
  f_args : list float;                  (* the argument the implementation passed *)
  f_orders : list (list Z);
  f_snaps : list (nat * option float);
  f_taps : list (float * Z);
  f_ftimes : list float; f_fnodes : list Z; f_phases : list float;
  f_time : float; f_events : nat; f_ok : bool }.

Record case_t := {
  c_cfg : pcfg; c_sync : bool;
  c_oracle : list (rkind * Q);          (* answers in call order, those of results() included *)
  c_orders : list (list Z);             (* per fired event: nodes handed to cascade, in order *)
  o_args : list (rkind * Q);            (* the implementation's argument of every numeric call, in call order *)
  o_snaps : list (nat * option Q);      (* after set-up and after every event, for every node in network order:
                                           its 'event' attribute and pendingEventTime of it (None: KeyError) *)
  o_taps : list (Q * Z);                (* FIRED taps: time, node *)
  o_ftimes : list Q; o_fnodes : list Z; o_phases : list Q;   (* results *)
  o_time : Q; o_events : nat; o_ok : bool }.

Definition of_fcase (f : fcase_t) : case_t :=
  let ks := flat_map kinds_of (f_kinds f) in
  {| c_cfg := f_cfg f; c_sync := f_sync f;
     c_oracle := combine ks (map fq (f_answers f));
     c_orders := f_orders f;
     o_args := combine ks (map fq (f_args f));
     o_snaps := map (fun p => (fst p, option_map fq (snd p))) (f_snaps f);
     o_taps := map (fun p => (fq (fst p), snd p)) (f_taps f);
     o_ftimes := map fq (f_ftimes f); o_fnodes := f_fnodes f; o_phases := map fq (f_phases f);
     o_time := fq (f_time f); o_events := f_events f;
     o_ok := f_ok f && Nat.eqb (List.length ks) (List.length (f_answers f)) && Nat.eqb (List.length ks) (List.length (f_args f)) |}.

Definition model_run (c : case_t) : result pworld :=
  let tb := pulse_table (c_cfg c) (c_oracle c) (c_orders c) in
  if c_sync c then sync_run tb 300 300 [] [] else stoch_run tb 300 300 [] [] [].

Definition queries_of (o : list obs) : list (nat * option Q) :=
  flat_map (fun x => match x with OQuery i r => [(i, r)] | _ => [] end) o.
Definition taps_of (o : list obs) : list (Q * Z) :=
  flat_map (fun x => match x with OTap t 0%nat (NPost 0%nat) (EN n) => [(t, n)] | _ => [] end) o.
Definition all_taps (o : list obs) : nat :=
  List.length (filter (fun x => match x with OTap _ _ _ _ => true | _ => false end) o).
Definition errors_of (o : list obs) : nat :=
  List.length (filter (fun x => match x with OValueError => true | OUnpost _ None => true | OQuery _ None => true | _ => false end) o).

(* arguments agree up to 1e-9 (absolute below 1, relative above) *)
Definition arg_approx (a b : Q) : bool :=
  Qle_bool (Qabs (a - b)) ((1 # 1000000000) * Qmax 1 (Qmax (Qabs a) (Qabs b))).
Definition arg_eqb (a b : rkind * Q) : bool := rkind_eqb (fst a) (fst b) && arg_approx (snd a) (snd b).

Definition snap_eqb (a b : nat * option Q) : bool := Nat.eqb (fst a) (fst b) && opt_eqb qapprox (snd a) (snd b).
Definition tap_eqb (a b : Q * Z) : bool := qapprox (fst a) (fst b) && Z.eqb (snd a) (snd b).

(* the scheduling invariant of C20 as a boolean on a kernel state (checked on the final state of every case) *)
Definition node_ok (s : st pworld) (n : Z) : bool :=
  match ev_of (world s) n with
  | Some (k, T) =>
      (k <? List.length (ids s))%nat &&
      match filter (fun x => e_live x && elem_eqb (e_elem x) (EN n)) (queue s) with
      | [x] => Nat.eqb (e_id x) (nth k (ids s) 0%nat) && Qeq_bool (e_time x) T
      | _ => false
      end
  | None => false
  end.
Definition inv_b (cfg : pcfg) (s : st pworld) : bool :=
  forallb (node_ok s) (pc_nodes cfg)
  && Nat.eqb (List.length (filter e_live (queue s))) (List.length (pc_nodes cfg))
  && Nat.eqb (List.length (ids s)) (pw_nposted (world s)).

(* the hypotheses of the C20 theorems on the oracle, checked on every run:
   (Proofs.PulseRun.good_b_good: good (fun x => x + eps)) every posting time handed to the model is not before the
   caller's time and at most eps above the exact argument, with eps = 1e-9 of the PERIOD (an absolute slack would
   admit shifts of whole phase quanta when the period is short);
   (Proofs.PulseBase.round_one_b_ok: round_one) round(x, 5) of an argument that is exactly 1 is 1.
   Over and above the hypotheses, the tie holds the repaired setFiringTime (F13) to what it does: the time posted
   is the argument itself, so it is not more than eps BELOW the exact argument either. *)
Definition rounding_slack (cfg : pcfg) : Q := (1 # 1000000000) * Qabs (pc_period cfg).
Definition posted_close (eps : Q) (l : list req) : bool :=
  forallb (fun r => match rq_kind r with
                    | RT => Qle_bool (Qabs (rq_ans r - rq_arg r)) eps
                    | _ => true end) l.

Definition check_case (c : case_t) : bool :=
  let r := model_run c in
  let s := r_final r in
  let '(phis, w) := final_phases (c_cfg c) (clock s) (world s) in
  o_ok c && negb (r_stuck r) && negb (pw_bad w)
  && Nat.eqb (List.length (pw_oracle w)) 0 && Nat.eqb (List.length (pw_orders w)) 0
  && Nat.eqb (errors_of (r_out r)) 0
  && good_b (rounding_slack (c_cfg c)) (pw_reqs w) && posted_close (rounding_slack (c_cfg c)) (pw_reqs w)
  && round_one_b (pw_reqs w)
  && list_eqb arg_eqb (map (fun q => (rq_kind q, rq_arg q)) (rev (pw_reqs w))) (o_args c)
  && list_eqb snap_eqb (queries_of (r_out r)) (o_snaps c)
  && list_eqb tap_eqb (taps_of (r_out r)) (o_taps c)
  && Nat.eqb (all_taps (r_out r)) (List.length (o_taps c))
  && list_eqb qapprox (rev (pw_ftimes w)) (o_ftimes c)
  && list_eqb Z.eqb (rev (pw_fnodes w)) (o_fnodes c)
  && list_eqb Qeq_bool phis (o_phases c)
  && inv_b (c_cfg c) s
  && qapprox (r_time r) (o_time c) && Nat.eqb (r_events r) (o_events c).

Definition check_fcase (f : fcase_t) : bool := check_case (of_fcase f).

(* for debugging: which conjunct fails *)
Definition diagnose (c : case_t) : list bool :=
  let r := model_run c in
  let s := r_final r in
  let '(phis, w) := final_phases (c_cfg c) (clock s) (world s) in
  [ o_ok c; negb (r_stuck r); negb (pw_bad w);
    Nat.eqb (List.length (pw_oracle w)) 0; Nat.eqb (List.length (pw_orders w)) 0;
    Nat.eqb (errors_of (r_out r)) 0; good_b (rounding_slack (c_cfg c)) (pw_reqs w);
    posted_close (rounding_slack (c_cfg c)) (pw_reqs w); round_one_b (pw_reqs w);
    list_eqb arg_eqb (map (fun q => (rq_kind q, rq_arg q)) (rev (pw_reqs w))) (o_args c);
    list_eqb snap_eqb (queries_of (r_out r)) (o_snaps c);
    list_eqb tap_eqb (taps_of (r_out r)) (o_taps c);
    Nat.eqb (all_taps (r_out r)) (List.length (o_taps c));
    list_eqb qapprox (rev (pw_ftimes w)) (o_ftimes c);
    list_eqb Z.eqb (rev (pw_fnodes w)) (o_fnodes c);
    list_eqb Qeq_bool phis (o_phases c);
    inv_b (c_cfg c) s;
    qapprox (r_time r) (o_time c); Nat.eqb (r_events r) (o_events c) ].
