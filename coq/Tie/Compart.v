(* Tie B for whole runs of the shipped compartmented models (C07, C08, and the shipped-model
   parts of C05, C12): Model/Compart.v over Model/Kernel.v against the implementation. *)
From Coq Require Import List ZArith QArith Qabs Bool Arith.
From EpyV Require Import Lib.Prelude Model.Kernel Model.Loci Model.Compart Tie.Kernel.
Import ListNotations.
Open Scope Q_scope.

Record case_t := {
  c_model : cmodel; c_nodes : list Z; c_edges : list (Z * Z); c_init : list (Z * Z);
  c_maxtime : Q; c_monitor : option Q; c_sync : bool;
  c_rands : list Q; c_lns : list Q; c_draws : list nat;
  o_handlers : list (nat * Q * Kernel.elem * bool);       (* event-function entries: program, t, element, member of its locus *)
  o_taps : list (Q * nat * bool * Kernel.elem);           (* event tap: t, process, posted?, element *)
  o_final_comp : list (Z * Z);
  o_final_loci : list (list Kernel.elem);
  o_occ : list (Z * Z * Q); o_hit : list (Z * Q);
  o_counts : list (Z * nat);                              (* results(): compartment -> size *)
  o_observations : list (Q * list nat);                   (* Monitor: time, size of every locus *)
  o_time : Q; o_events : nat; o_steps : nat; o_ok : bool }.

Definition model_run (c : case_t) : result cworld :=
  let tb := mk_table (c_model c) (c_nodes c) (c_edges c) (c_init c) (c_maxtime c) (c_monitor c) in
  if c_sync c then sync_run tb 4000 4000 (c_rands c) (c_draws c)
  else stoch_run tb 4000 4000 (c_rands c) (c_lns c) (c_draws c).

Definition handlers_of (o : list obs) : list (nat * Q * Kernel.elem * bool) :=
  flat_map (fun x => match x with OHandler k t _ e (Some m) => [(k, t, e, m)] | _ => [] end) o.
Definition taps_of (o : list obs) : list (Q * nat * bool * Kernel.elem) :=
  flat_map (fun x => match x with
                     | OTap t p (NPost _) e => [(t, p, true, e)]
                     | OTap t p (NEv _ _) e => [(t, p, false, e)]
                     | _ => [] end) o.
Definition observations_of (o : list obs) : list (Q * list nat) :=
  flat_map (fun x => match x with OObserve t l => [(t, l)] | _ => [] end) o.

Definition h_eqb (a b : nat * Q * Kernel.elem * bool) : bool :=
  let '(k, t, e, m) := a in let '(k', t', e', m') := b in
  Nat.eqb k k' && qapprox t t' && Kernel.elem_eqb e e' && Bool.eqb m m'.
Definition t_eqb (a b : Q * nat * bool * Kernel.elem) : bool :=
  let '(t, p, x, e) := a in let '(t', p', x', e') := b in
  qapprox t t' && Nat.eqb p p' && Bool.eqb x x' && Kernel.elem_eqb e e'.
Definition o_eqb (a b : Q * list nat) : bool := qapprox (fst a) (fst b) && list_eqb Nat.eqb (snd a) (snd b).
Definition occ_eqb (a b : Z * Z * Q) : bool := undirected_eqb (fst a) (fst b) && qapprox (snd a) (snd b).
Definition hit_eqb (a b : Z * Q) : bool := Z.eqb (fst a) (fst b) && qapprox (snd a) (snd b).

Definition check_case (c : case_t) : bool :=
  let r := model_run c in
  let w := world (r_final r) in
  o_ok c && negb (r_stuck r)
  && list_eqb h_eqb (handlers_of (r_out r)) (o_handlers c)
  && list_eqb t_eqb (taps_of (r_out r)) (o_taps c)
  && list_eqb o_eqb (observations_of (r_out r)) (o_observations c)
  && forallb (fun nc => opt_eqb Z.eqb (getc (cw_st w) (fst nc)) (Some (snd nc))) (o_final_comp c)
  && Nat.eqb (length (o_final_comp c)) (length (st_nodes (cw_st w)))
  && list_eqb (list_eqb Kernel.elem_eqb) (loci (r_final r)) (o_final_loci c)
  && list_eqb (list_eqb Kernel.elem_eqb) (map ksort (st_loci (cw_st w))) (o_final_loci c)
  && set_eqb occ_eqb (cw_occ w) (o_occ c) && Nat.eqb (length (cw_occ w)) (length (o_occ c))
  && set_eqb hit_eqb (cw_hit w) (o_hit c) && Nat.eqb (length (cw_hit w)) (length (o_hit c))
  && forallb (fun cn => Nat.eqb (count_in (cw_st w) (fst cn)) (snd cn)) (o_counts c)
  && qapprox (r_time r) (o_time c) && Nat.eqb (r_events r) (o_events c)
  && (negb (c_sync c) || Nat.eqb (r_steps r) (o_steps c)).

(* C07 says nothing about occupied edges and hitting times (that is C08): its tie leaves the marks out *)
Definition check_case_nomarks (c : case_t) : bool :=
  let r := model_run c in
  let w := world (r_final r) in
  o_ok c && negb (r_stuck r)
  && list_eqb h_eqb (handlers_of (r_out r)) (o_handlers c)
  && list_eqb t_eqb (taps_of (r_out r)) (o_taps c)
  && list_eqb o_eqb (observations_of (r_out r)) (o_observations c)
  && forallb (fun nc => opt_eqb Z.eqb (getc (cw_st w) (fst nc)) (Some (snd nc))) (o_final_comp c)
  && Nat.eqb (length (o_final_comp c)) (length (st_nodes (cw_st w)))
  && list_eqb (list_eqb Kernel.elem_eqb) (loci (r_final r)) (o_final_loci c)
  && list_eqb (list_eqb Kernel.elem_eqb) (map ksort (st_loci (cw_st w))) (o_final_loci c)
  && forallb (fun cn => Nat.eqb (count_in (cw_st w) (fst cn)) (snd cn)) (o_counts c)
  && qapprox (r_time r) (o_time c) && Nat.eqb (r_events r) (o_events c)
  && (negb (c_sync c) || Nat.eqb (r_steps r) (o_steps c)).

(* for debugging: which conjunct fails *)
Definition diagnose (c : case_t) : list bool :=
  let r := model_run c in
  let w := world (r_final r) in
  [ o_ok c; negb (r_stuck r);
    list_eqb h_eqb (handlers_of (r_out r)) (o_handlers c);
    list_eqb t_eqb (taps_of (r_out r)) (o_taps c);
    list_eqb o_eqb (observations_of (r_out r)) (o_observations c);
    forallb (fun nc => opt_eqb Z.eqb (getc (cw_st w) (fst nc)) (Some (snd nc))) (o_final_comp c);
    list_eqb (list_eqb Kernel.elem_eqb) (loci (r_final r)) (o_final_loci c);
    list_eqb (list_eqb Kernel.elem_eqb) (map ksort (st_loci (cw_st w))) (o_final_loci c);
    set_eqb occ_eqb (cw_occ w) (o_occ c); set_eqb hit_eqb (cw_hit w) (o_hit c);
    forallb (fun cn => Nat.eqb (count_in (cw_st w) (fst cn)) (snd cn)) (o_counts c);
    qapprox (r_time r) (o_time c); Nat.eqb (r_events r) (o_events c) ].
