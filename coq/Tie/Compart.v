(* placeholder until Model/Compart.v lands *)
From EpyV Require Import Model.Kernel.
Definition check_case (x : bool) : bool := x.
