(* Tie B for the kernel model (used by C03, C04, C05, C06, C12): the observation stream and
   the metadata of a whole run of the implementation against Model/Kernel.v. *)
From Coq Require Import List ZArith QArith Qabs Bool Arith.
From EpyV Require Import Lib.Prelude Model.Kernel.
Import ListNotations.
Open Scope Q_scope.

(* times agree up to relative 1e-9 (the model is exact, the implementation binary64) *)
Definition Qmax (a b : Q) : Q := if Qle_bool a b then b else a.
Definition qapprox (a b : Q) : bool :=
  Qeq_bool a b || Qle_bool (Qabs (a - b)) ((1 # 1000000000) * Qmax (Qabs a) (Qabs b)).

Definition ename_eqb (a b : ename) : bool :=
  match a, b with
  | NEv p j, NEv p' j' => Nat.eqb p p' && Nat.eqb j j'
  | NPost k, NPost k' => Nat.eqb k k'
  | _, _ => false
  end.

Definition obs_eqb (a b : obs) : bool :=
  match a, b with
  | OHandler k t c e m, OHandler k' t' c' e' m' =>
      Nat.eqb k k' && qapprox t t' && qapprox c c' && elem_eqb e e' && opt_eqb Bool.eqb m m'
  | OTap t p n e, OTap t' p' n' e' => qapprox t t' && Nat.eqb p p' && ename_eqb n n' && elem_eqb e e'
  | OPosted i t, OPosted i' t' => Nat.eqb i i' && qapprox t t'
  | OPostedRep t, OPostedRep t' => qapprox t t'
  | OValueError, OValueError => true
  | OUnpost i r, OUnpost i' r' => Nat.eqb i i' && opt_eqb (opt_eqb qapprox) r r'
  | OQuery i r, OQuery i' r' => Nat.eqb i i' && opt_eqb qapprox r r'
  | OObserve t l, OObserve t' l' => qapprox t t' && list_eqb Nat.eqb l l'
  | _, _ => false
  end.

Record case_t := {
  c_tb : table unit; c_sync : bool; c_rands : list Q; c_lns : list Q; c_draws : list nat;
  o_obs : list obs; o_time : Q; o_events : nat; o_steps : nat; o_ok : bool }.

Definition model_run (c : case_t) : result unit :=
  if c_sync c then sync_run (c_tb c) 4000 4000 (c_rands c) (c_draws c)
  else stoch_run (c_tb c) 4000 4000 (c_rands c) (c_lns c) (c_draws c).

Definition check_case (c : case_t) : bool :=
  let r := model_run c in
  o_ok c && negb (r_stuck r)
  && list_eqb obs_eqb (r_out r) (o_obs c)
  && qapprox (r_time r) (o_time c) && Nat.eqb (r_events r) (o_events c)
  && (negb (c_sync c) || Nat.eqb (r_steps r) (o_steps c)).

(* for debugging a disagreement *)
Definition first_diff (c : case_t) : nat :=
  (fix go (i : nat) (a b : list obs) : nat :=
     match a, b with
     | x :: a', y :: b' => if obs_eqb x y then go (S i) a' b' else i
     | _, _ => i
     end) 0%nat (r_out (model_run c)) (o_obs c).
