(* The sum of the three whole-run ties of the shipped compartmented models: the static-table models
   (Tie/Compart.v), SIvR (Tie/CompartV.v) and SIR_VariableInfection with its state-dependent event
   table (Tie/CompartVI.v).  C07 leaves occupied edges and hitting times to C08. *)
From Coq Require Import List ZArith QArith Bool Arith.
From EpyV Require Import Lib.Prelude Model.Kernel Model.KernelDyn Model.Loci Model.Compart Model.CompartV Model.CompartVI
  Tie.Kernel Tie.Compart Tie.CompartV Tie.CompartVI.
Import ListNotations.
Open Scope Q_scope.

Inductive allcase := ABase (c : Tie.Compart.case_t) | AVacc (c : vcase_t) | AVar (c : vicase_t).

Definition vicheck_case_nomarks (c : vicase_t) : bool :=
  let r := vimodel_run c in
  let w := vi_base (world (r_final r)) in
  vio_ok c && negb (r_stuck r) && vi_shipped (vc_model c)
  && Nat.eqb (length (vc_inf_rands c)) (length (vc_edges c))
  && inf_covers (vc_edges c) (vi_inf_of c)
  && set_eqb inf_eqb (vi_inf_of c) (vio_inf c) && Nat.eqb (length (vi_inf_of c)) (length (vio_inf c))
  && list_eqb inf_eqb (vi_inf (world (r_final r))) (vi_inf_of c)
  && list_eqb h_eqb (handlers_of (r_out r)) (vio_handlers c)
  && list_eqb t_eqb (taps_of (r_out r)) (vio_taps c)
  && list_eqb o_eqb (observations_of (r_out r)) (vio_observations c)
  && forallb (fun nc => opt_eqb Z.eqb (getc (cw_st w) (fst nc)) (Some (snd nc))) (vio_final_comp c)
  && Nat.eqb (length (vio_final_comp c)) (length (st_nodes (cw_st w)))
  && list_eqb (list_eqb Kernel.elem_eqb) (loci (r_final r)) (vio_final_loci c)
  && list_eqb (list_eqb Kernel.elem_eqb) (map ksort (st_loci (cw_st w))) (vio_final_loci c)
  && forallb (fun cn => Nat.eqb (count_in (cw_st w) (fst cn)) (snd cn)) (vio_counts c)
  && qapprox (r_time r) (vio_time c) && Nat.eqb (r_events r) (vio_events c)
  && (negb (vc_sync c) || Nat.eqb (r_steps r) (vio_steps c)).

Definition check_all (c : allcase) : bool :=
  match c with ABase c => Tie.Compart.check_case c | AVacc c => vcheck_case c | AVar c => vicheck_case c end.
Definition check_all_nomarks (c : allcase) : bool :=
  match c with ABase c => Tie.Compart.check_case_nomarks c | AVacc c => vcheck_case_nomarks c | AVar c => vicheck_case_nomarks c end.
