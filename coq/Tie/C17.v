(* Tie B for C17 (network clause): the degree histogram of Model/GFNet.v against what
   gf_from_network(g) answered.  The implementation works in binary64: a coefficient must be the
   model's rational to within half a unit in the last place (relative 2^-53), gf(1) and
   gf.dx()(1) within 1e-9 (relative to max(1, value)) of the model's exact values. *)
From Coq Require Import List ZArith QArith Qabs Qminmax Bool Arith.
From EpyV Require Import Lib.Prelude Model.GF Model.GFNet.
Import ListNotations.

Record case_t := {
  c_nodes : list Z; c_edges : list (Z * Z);
  c_idx : list nat;
  o_valueerror : bool;         (* gf_from_network raised ValueError (empty network) *)
  o_coeffs : list Q;           (* gf[i], the exact value of the float *)
  o_one : Q;                   (* gf(1) *)
  o_mean : Q                   (* gf.dx()(1) *)
}.

Definition close53 (obs model : Q) : bool :=
  Qle_bool (Qabs (obs - model) * inject_Z (2 ^ 53)) (Qabs model).
Definition close9 (obs model : Q) : bool :=
  Qle_bool (Qabs (obs - model) * inject_Z (10 ^ 9)) (Qmax 1 (Qabs model)).

Fixpoint all2 {A B} (p : A -> B -> bool) (a : list A) (b : list B) : bool :=
  match a, b with
  | [], [] => true
  | x :: a', y :: b' => p x y && all2 p a' b'
  | _, _ => false
  end.

Definition check_case (c : case_t) : bool :=
  match gf_from_network {| g_nodes := c_nodes c; g_edges := c_edges c |} with
  | None => o_valueerror c
  | Some f =>
      negb (o_valueerror c)
      && all2 close53 (o_coeffs c) (map (coeff f) (c_idx c))
      && close9 (o_one c) (eval f 1)
      && close9 (o_mean c) (eval (deriv 1 f) 1)
  end.
