(* Tie B for C19: whole runs of AddDelete (alone, combined with SIR by inheritance, in a named
   sequence with SIR) against Model/AddDelete.v over Model/Kernel.v.  Compared after every
   event: what the event was (new node and the nodes it was linked to / deleted node / disease
   event and element), the all-nodes locus, the node set, the edge set, every node's compartment,
   the disease's loci; and for the run: event-function entries with locus membership, the event
   tap, the kernel's copy of every locus at the end, time, number of events, busy timesteps. *)
From Coq Require Import List ZArith QArith Qabs Bool Arith.
From EpyV Require Import Lib.Prelude Model.Kernel Model.Loci Model.Compart Model.AddDelete Tie.Kernel Tie.Compart.
Import ListNotations.
Close Scope Q_scope.

(* what the harness saw after an event *)
Record osnap := {
  os_kind : evkind;
  os_all : list Z;                         (* list(locus(NODES)) *)
  os_nodes : list Z;                       (* network.nodes *)
  os_edges : list (Z * Z);                 (* network.edges *)
  os_comp : list (Z * option Z);           (* node -> compartment code (None: no compartment) *)
  os_loci : list (list Kernel.elem) }.     (* the disease's loci, each as the DrawSet enumerates it *)

Record case_t := {
  c_cfg : adcfg; c_procs : list (list adevent); c_nloci : nat;
  c_nodes : list Z; c_edges : list (Z * Z); c_init : list (Z * Z);
  c_maxtime : Q; c_sync : bool;
  c_fuel : nat;      (* iterations of the scheduler loop the implementation can have made at most: one more than the
                        randoms it consumed (stochastic), the number of timesteps below the maximum time (synchronous) *)
  c_rands : list Q; c_lns : list Q; c_draws : list nat;    (* the scheduler's oracle *)
  c_adraws : list nat;                                     (* ranks drawn inside add, in order *)
  o_snaps : list osnap;
  o_handlers : list (nat * Q * Kernel.elem * bool);
  o_taps : list (Q * nat * bool * Kernel.elem);
  o_final_loci : list (list Kernel.elem);
  o_time : Q; o_events : nat; o_steps : nat; o_ok : bool }.

Definition model_run (c : case_t) : result adworld :=
  ad_run (c_cfg c) (c_procs c) (c_nloci c) (c_nodes c) (c_edges c) (c_init c) (c_maxtime c) (c_adraws c)
         (c_sync c) 8 (c_fuel c) (c_rands c) (c_lns c) (c_draws c).

Definition zset_eqb (a b : list Z) : bool := set_eqb Z.eqb a b && Nat.eqb (length a) (length b).

Definition kind_eqb (a b : evkind) : bool :=
  match a, b with
  | KAdd i es, KAdd i' es' => Z.eqb i i' && zset_eqb es es'      (* Python keeps es in a set *)
  | KDelete n, KDelete n' => Z.eqb n n'
  | KDisease k e, KDisease k' e' => Nat.eqb k k' && Kernel.elem_eqb e e'
  | _, _ => false
  end.

Definition snap_eqb (m : snap) (o : osnap) : bool :=
  let s := sn_st m in
  kind_eqb (sn_kind m) (os_kind o)
  && zset_eqb (sn_all m) (os_all o)
  && zset_eqb (st_nodes s) (os_nodes o)
  && set_eqb undirected_eqb (st_edges s) (os_edges o) && Nat.eqb (length (st_edges s)) (length (os_edges o))
  && forallb (fun nc => opt_eqb Z.eqb (getc s (fst nc)) (snd nc)) (os_comp o)
  && list_eqb (list_eqb Kernel.elem_eqb) (map ksort (st_loci s)) (os_loci o).

Fixpoint snaps_eqb (ms : list snap) (os : list osnap) : bool :=
  match ms, os with
  | [], [] => true
  | m :: ms', o :: os' => snap_eqb m o && snaps_eqb ms' os'
  | _, _ => false
  end.

Definition check_case (c : case_t) : bool :=
  let r := model_run c in
  let w := world (r_final r) in
  o_ok c && negb (r_stuck r) && negb (aw_stuck w) && negb (aw_raised w)
  && snaps_eqb (rev (aw_log w)) (o_snaps c)
  && list_eqb h_eqb (handlers_of (r_out r)) (o_handlers c)
  && list_eqb t_eqb (taps_of (r_out r)) (o_taps c)
  && list_eqb (list_eqb Kernel.elem_eqb) (loci (r_final r)) (o_final_loci c)
  && match aw_draws w with [] => true | _ => false end          (* every rank drawn inside add was consumed *)
  && qapprox (r_time r) (o_time c) && Nat.eqb (r_events r) (o_events c)
  && (negb (c_sync c) || Nat.eqb (r_steps r) (o_steps c)).

(* a history: the same process and dynamics objects run several times, each run from a fresh copy of the
   prototype network; the model knows no state that survives a run, so every run is checked on its own *)
Definition check_runs (cs : list case_t) : bool := forallb check_case cs.

(* for debugging: which conjunct fails, and the index of the first differing snapshot *)
Definition diagnose (c : case_t) : list bool * nat :=
  let r := model_run c in
  let w := world (r_final r) in
  ([ o_ok c; negb (r_stuck r); negb (aw_stuck w); negb (aw_raised w);
     snaps_eqb (rev (aw_log w)) (o_snaps c);
     list_eqb h_eqb (handlers_of (r_out r)) (o_handlers c);
     list_eqb t_eqb (taps_of (r_out r)) (o_taps c);
     list_eqb (list_eqb Kernel.elem_eqb) (loci (r_final r)) (o_final_loci c);
     match aw_draws w with [] => true | _ => false end;
     qapprox (r_time r) (o_time c); Nat.eqb (r_events r) (o_events c) ],
   (fix go (i : nat) (a : list snap) (b : list osnap) : nat :=
      match a, b with
      | x :: a', y :: b' => if snap_eqb x y then go (S i) a' b' else i
      | _, _ => i
      end) 0 (rev (aw_log w)) (o_snaps c)).
