(* Tie B for whole runs of SIvR (Model/CompartV.v), and the sum of the two compartmented ties used by C07. *)
From Coq Require Import List ZArith QArith Qabs Bool Arith.
From EpyV Require Import Lib.Prelude Model.Kernel Model.Loci Model.Compart Model.CompartV Tie.Kernel Tie.Compart.
Import ListNotations.
Open Scope Q_scope.

Record vcase_t := {
  v_model : vmodel; v_nodes : list Z; v_edges : list (Z * Z); v_init : list (Z * Z);
  v_maxtime : Q; v_sync : bool; v_vacc : list (Z * Q); v_gate : list Q;
  v_rands : list Q; v_lns : list Q; v_draws : list nat;
  vo_handlers : list (nat * Q * Kernel.elem * bool);
  vo_taps : list (Q * nat * bool * Kernel.elem);
  vo_final_comp : list (Z * Z);
  vo_final_loci : list (list Kernel.elem);           (* all loci of the simulation, plain ones included *)
  vo_occ : list (Z * Z * Q);
  vo_counts : list (Z * nat);
  vo_gate_used : nat;                                (* number of gate values the implementation consumed *)
  vo_time : Q; vo_events : nat; vo_steps : nat; vo_ok : bool }.

Definition vmodel_run (c : vcase_t) : result vworld :=
  let tb := mk_vtable (v_model c) (v_nodes c) (v_edges c) (v_init c) (v_maxtime c) (v_vacc c) (v_gate c) in
  if v_sync c then sync_run tb 4000 4000 (v_rands c) (v_draws c)
  else stoch_run tb 4000 4000 (v_rands c) (v_lns c) (v_draws c).

Definition vcheck_case (c : vcase_t) : bool :=
  let r := vmodel_run c in
  let w := world (r_final r) in
  let b := vw_base w in
  vo_ok c && negb (r_stuck r)
  && list_eqb h_eqb (handlers_of (r_out r)) (vo_handlers c)
  && list_eqb t_eqb (taps_of (r_out r)) (vo_taps c)
  && forallb (fun nc => opt_eqb Z.eqb (getc (cw_st b) (fst nc)) (Some (snd nc))) (vo_final_comp c)
  && Nat.eqb (length (vo_final_comp c)) (length (st_nodes (cw_st b)))
  && list_eqb (list_eqb Kernel.elem_eqb) (loci (r_final r)) (vo_final_loci c)
  && set_eqb occ_eqb (cw_occ b) (vo_occ c) && Nat.eqb (length (cw_occ b)) (length (vo_occ c))
  && forallb (fun cn => Nat.eqb (count_in (cw_st b) (fst cn)) (snd cn)) (vo_counts c)
  && Nat.eqb (length (v_gate c) - length (vw_gate w)) (vo_gate_used c)
  && qapprox (r_time r) (vo_time c) && Nat.eqb (r_events r) (vo_events c)
  && (negb (v_sync c) || Nat.eqb (r_steps r) (vo_steps c)).

Inductive anycase := CBase (c : Tie.Compart.case_t) | CVacc (c : vcase_t).
Definition check_any (c : anycase) : bool :=
  match c with CBase c => Tie.Compart.check_case c | CVacc c => vcheck_case c end.

Definition vcheck_case_nomarks (c : vcase_t) : bool :=
  let r := vmodel_run c in
  let w := world (r_final r) in
  let b := vw_base w in
  vo_ok c && negb (r_stuck r)
  && list_eqb h_eqb (handlers_of (r_out r)) (vo_handlers c)
  && list_eqb t_eqb (taps_of (r_out r)) (vo_taps c)
  && forallb (fun nc => opt_eqb Z.eqb (getc (cw_st b) (fst nc)) (Some (snd nc))) (vo_final_comp c)
  && Nat.eqb (length (vo_final_comp c)) (length (st_nodes (cw_st b)))
  && list_eqb (list_eqb Kernel.elem_eqb) (loci (r_final r)) (vo_final_loci c)
  && forallb (fun cn => Nat.eqb (count_in (cw_st b) (fst cn)) (snd cn)) (vo_counts c)
  && Nat.eqb (length (v_gate c) - length (vw_gate w)) (vo_gate_used c)
  && qapprox (r_time r) (vo_time c) && Nat.eqb (r_events r) (vo_events c)
  && (negb (v_sync c) || Nat.eqb (r_steps r) (vo_steps c)).
Definition check_any_nomarks (c : anycase) : bool :=
  match c with CBase c => Tie.Compart.check_case_nomarks c | CVacc c => vcheck_case_nomarks c end.

Definition vdiagnose (c : vcase_t) : list bool :=
  let r := vmodel_run c in
  let w := world (r_final r) in
  let b := vw_base w in
  [ vo_ok c; negb (r_stuck r);
    list_eqb h_eqb (handlers_of (r_out r)) (vo_handlers c);
    list_eqb t_eqb (taps_of (r_out r)) (vo_taps c);
    forallb (fun nc => opt_eqb Z.eqb (getc (cw_st b) (fst nc)) (Some (snd nc))) (vo_final_comp c);
    list_eqb (list_eqb Kernel.elem_eqb) (loci (r_final r)) (vo_final_loci c);
    set_eqb occ_eqb (cw_occ b) (vo_occ c);
    forallb (fun cn => Nat.eqb (count_in (cw_st b) (fst cn)) (snd cn)) (vo_counts c);
    Nat.eqb (length (v_gate c) - length (vw_gate w)) (vo_gate_used c);
    qapprox (r_time r) (vo_time c); Nat.eqb (r_events r) (vo_events c) ].
