(* Tie B for C14: compare the model of Percolate with what the implementation did.
   A case is a history of runs of ONE dynamics object; every run carries the edge list of the prototype network
   in force in that run (the same one again, or another one installed with setNetworkGenerator between the runs)
   and is compared with the model on THAT edge list (setUp makes a fresh working copy of the prototype, so runs
   are independent in the model). *)
From Coq Require Import List ZArith QArith Bool Arith.
From EpyV Require Import Lib.Prelude Model.Percolate.
Import ListNotations.

Record run_t := {
  c_nodes : list Z; c_edges : list edge; c_perm : list nat; c_T : Q;
  o_occupied : list edge; o_unoccupied : list edge;
  o_nodes : list Z; o_edges : list edge;      (* working network after the build *)
  o_next_edges : list edge                    (* network seen by the next process in the sequence *)
}.

Definition edges_same (a b : list edge) : bool :=
  Nat.eqb (length a) (length b) && set_eqb same_edge a b.

Definition check_run (c : run_t) : bool :=
  let m := percolate (c_nodes c) (c_edges c) (c_perm c) (c_T c) in
  list_eqb zpair_eqb (occupied m) (o_occupied c)
  && list_eqb zpair_eqb (unoccupied m) (o_unoccupied c)
  && set_eqb Z.eqb (nodes_after m) (o_nodes c) && Nat.eqb (length (nodes_after m)) (length (o_nodes c))
  && edges_same (edges_after m) (o_edges c)
  && edges_same (edges_after m) (o_next_edges c).

Definition case_t := list run_t.
Definition check_case (c : case_t) : bool := forallb check_run c.
