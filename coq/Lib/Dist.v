(* Finite distributions over the rationals: a distribution is a list of (outcome, weight) pairs,
   the probability of an outcome is the sum of the weights of its occurrences.  Two distributions
   are equivalent when every outcome has the same probability.  Nothing here mentions measure
   theory: [uniform n] is the list of the n ranks with weight 1/n each.  Used by C02. *)
From Coq Require Import List ZArith QArith Bool Arith Lia Lqa.
Import ListNotations.
Open Scope Q_scope.

(* ------------------------------------------------------------------ finite sums *)
Fixpoint sumf {A} (f : A -> Q) (l : list A) : Q :=
  match l with [] => 0 | x :: l' => f x + sumf f l' end.

Lemma sumf_app : forall A (f : A -> Q) l1 l2, sumf f (l1 ++ l2) == sumf f l1 + sumf f l2.
Proof.
  intros A f. induction l1 as [|x l1 IH]; intros l2; cbn [sumf app]; [ring|]. rewrite IH. ring.
Qed.

Lemma sumf_ext : forall A (f g : A -> Q) l, (forall x, In x l -> f x == g x) -> sumf f l == sumf g l.
Proof.
  intros A f g. induction l as [|x l IH]; intros H; cbn [sumf]; [reflexivity|].
  rewrite (H x (or_introl eq_refl)), IH; [reflexivity|]. intros y Hy. apply H. right. exact Hy.
Qed.

Lemma sumf_plus : forall A (f g : A -> Q) l, sumf (fun x => f x + g x) l == sumf f l + sumf g l.
Proof. intros A f g. induction l as [|x l IH]; cbn [sumf]; [ring|]. rewrite IH. ring. Qed.

Lemma sumf_scal : forall A (f : A -> Q) c l, sumf (fun x => c * f x) l == c * sumf f l.
Proof. intros A f c. induction l as [|x l IH]; cbn [sumf]; [ring|]. rewrite IH. ring. Qed.

Lemma sumf_zero : forall A (f : A -> Q) l, (forall x, In x l -> f x == 0) -> sumf f l == 0.
Proof.
  intros A f. induction l as [|x l IH]; intros H; cbn [sumf]; [reflexivity|].
  rewrite (H x (or_introl eq_refl)), IH; [ring|]. intros y Hy. apply H. right. exact Hy.
Qed.

Lemma sumf_map : forall A B (h : A -> B) (f : B -> Q) l, sumf f (map h l) = sumf (fun x => f (h x)) l.
Proof. intros A B h f. induction l as [|x l IH]; cbn [sumf map]; [reflexivity|]. rewrite IH. reflexivity. Qed.

Lemma sumf_flat_map : forall A B (h : A -> list B) (f : B -> Q) l,
  sumf f (flat_map h l) == sumf (fun x => sumf f (h x)) l.
Proof.
  intros A B h f. induction l as [|x l IH]; cbn [sumf flat_map]; [reflexivity|]. rewrite sumf_app, IH. reflexivity.
Qed.

Lemma sumf_nonneg : forall A (f : A -> Q) l, (forall x, In x l -> 0 <= f x) -> 0 <= sumf f l.
Proof.
  intros A f. induction l as [|x l IH]; intros H; cbn [sumf]; [apply Qle_refl|].
  assert (H1 := H x (or_introl eq_refl)). assert (H2 : 0 <= sumf f l) by (apply IH; intros y Hy; apply H; right; exact Hy).
  lra.
Qed.

(* ------------------------------------------------------------------ distributions *)
Definition dist (A : Type) := list (A * Q).

Definition ret {A} (x : A) : dist A := [(x, 1)].
Definition scale {A} (p : Q) (d : dist A) : dist A := map (fun yq => (fst yq, p * snd yq)) d.
Definition bind {A B} (d : dist A) (f : A -> dist B) : dist B :=
  flat_map (fun xp => scale (snd xp) (f (fst xp))) d.
Definition uniform (n : nat) : dist nat := map (fun k => (k, 1 / inject_Z (Z.of_nat n))) (seq 0 n).
Definition total {A} (d : dist A) : Q := sumf snd d.

(* probability of the outcome x, for a boolean equality test on outcomes *)
Definition ind (b : bool) : Q := if b then 1 else 0.
Definition mass {A} (eqb : A -> A -> bool) (d : dist A) (x : A) : Q :=
  sumf (fun yp => ind (eqb (fst yp) x) * snd yp) d.
(* expectation of g *)
Definition expect {A} (d : dist A) (g : A -> Q) : Q := sumf (fun xp => snd xp * g (fst xp)) d.

Definition deq {A} (eqb : A -> A -> bool) (d1 d2 : dist A) : Prop := forall x, mass eqb d1 x == mass eqb d2 x.

Lemma ind_true : forall b, b = true -> ind b = 1. Proof. intros b ->. reflexivity. Qed.
Lemma ind_false : forall b, b = false -> ind b = 0. Proof. intros b ->. reflexivity. Qed.

Section Mass.
Context {A : Type} (eqb : A -> A -> bool).

Lemma mass_nil : forall x, mass eqb [] x = 0.
Proof. reflexivity. Qed.

Lemma mass_cons : forall y p d x, mass eqb ((y, p) :: d) x = ind (eqb y x) * p + mass eqb d x.
Proof. reflexivity. Qed.

Lemma mass_app : forall d1 d2 x, mass eqb (d1 ++ d2) x == mass eqb d1 x + mass eqb d2 x.
Proof. intros. apply sumf_app. Qed.

Lemma mass_scale : forall p d x, mass eqb (scale p d) x == p * mass eqb d x.
Proof.
  intros p d x. unfold mass, scale. rewrite sumf_map. cbn [fst snd].
  rewrite <- sumf_scal. apply sumf_ext. intros y _. ring.
Qed.

Lemma mass_ret : forall y x, mass eqb (ret y) x == ind (eqb y x).
Proof. intros. unfold ret. rewrite mass_cons, mass_nil. ring. Qed.

Lemma mass_flat_map : forall B (h : B -> dist A) l x, mass eqb (flat_map h l) x == sumf (fun j => mass eqb (h j) x) l.
Proof. intros. apply sumf_flat_map. Qed.

Lemma mass_bind : forall B (d : dist B) (f : B -> dist A) x,
  mass eqb (bind d f) x == expect d (fun y => mass eqb (f y) x).
Proof.
  intros B d f x. unfold bind, expect. rewrite mass_flat_map. apply sumf_ext. intros y _. apply mass_scale.
Qed.

(* a weight-0 entry and the order of entries are irrelevant, by definition of [deq] *)
Lemma deq_refl : forall d, deq eqb d d. Proof. intros d x. reflexivity. Qed.
Lemma deq_sym : forall d1 d2, deq eqb d1 d2 -> deq eqb d2 d1. Proof. intros d1 d2 H x. symmetry. apply H. Qed.
Lemma deq_trans : forall d1 d2 d3, deq eqb d1 d2 -> deq eqb d2 d3 -> deq eqb d1 d3.
Proof. intros d1 d2 d3 H1 H2 x. rewrite (H1 x). apply H2. Qed.

(* bind is a congruence in its continuation *)
Lemma bind_cong_r : forall B (d : dist B) (f g : B -> dist A),
  (forall y, In y (map fst d) -> deq eqb (f y) (g y)) -> deq eqb (bind d f) (bind d g).
Proof.
  intros B d f g H x. rewrite !mass_bind. unfold expect. apply sumf_ext. intros yp Hy.
  rewrite (H (fst yp) (in_map fst d yp Hy) x). reflexivity.
Qed.

End Mass.

(* ------------------------------------------------------------------ expectation *)
Lemma expect_ret : forall A (x : A) g, expect (ret x) g == g x.
Proof. intros. unfold expect, ret. cbn [sumf fst snd]. ring. Qed.

Lemma expect_app : forall A (d1 d2 : dist A) g, expect (d1 ++ d2) g == expect d1 g + expect d2 g.
Proof. intros. apply sumf_app. Qed.

Lemma expect_scale : forall A p (d : dist A) g, expect (scale p d) g == p * expect d g.
Proof.
  intros A p d g. unfold expect, scale. rewrite sumf_map. cbn [fst snd]. rewrite <- sumf_scal.
  apply sumf_ext. intros y _. ring.
Qed.

Lemma expect_cons : forall A (x : A) p d g, expect ((x, p) :: d) g = p * g x + expect d g.
Proof. reflexivity. Qed.

Lemma expect_bind : forall A B (d : dist A) (f : A -> dist B) g,
  expect (bind d f) g == expect d (fun x => expect (f x) g).
Proof.
  intros A B d f g. unfold bind. induction d as [|[x p] d IH]; [reflexivity|].
  cbn [flat_map fst snd]. rewrite expect_app, IH, expect_scale, expect_cons. reflexivity.
Qed.

Lemma expect_ext : forall A (d : dist A) g h, (forall x, In x (map fst d) -> g x == h x) -> expect d g == expect d h.
Proof.
  intros A d g h H. unfold expect. apply sumf_ext. intros xp Hx. rewrite (H (fst xp) (in_map fst d xp Hx)). reflexivity.
Qed.

Lemma mass_expect : forall A (eqb : A -> A -> bool) (d : dist A) x, mass eqb d x == expect d (fun y => ind (eqb y x)).
Proof. intros. unfold mass, expect. apply sumf_ext. intros yp _. ring. Qed.

(* sums over a list through its ranks *)
Lemma map_nth_seq : forall A (l : list A) d, map (fun k => nth k l d) (seq 0 (length l)) = l.
Proof.
  intros A. induction l as [|x l IH]; intros d; [reflexivity|].
  cbn [length seq map nth]. f_equal. rewrite <- seq_shift, map_map. cbn [nth]. apply IH.
Qed.

Lemma sumf_ranks : forall A (h : A -> Q) (l : list A) d,
  sumf (fun k => h (nth (k mod length l) l d)) (seq 0 (length l)) == sumf h l.
Proof.
  intros A h l d. transitivity (sumf h (map (fun k => nth k l d) (seq 0 (length l)))); [|rewrite map_nth_seq; reflexivity].
  rewrite sumf_map. apply sumf_ext. intros k Hk. apply in_seq in Hk. rewrite Nat.mod_small; [reflexivity | lia].
Qed.

Lemma sumf_single : forall (g : nat -> Q) j l, NoDup l -> In j l -> (forall k, In k l -> k <> j -> g k == 0) -> sumf g l == g j.
Proof.
  intros g j. induction l as [|x l IH]; intros Hnd Hin Hz; [destruct Hin|].
  inversion Hnd as [|? ? Hx Hnd']; subst. cbn [sumf]. destruct Hin as [->|Hin].
  - rewrite sumf_zero; [ring|]. intros k Hk. apply Hz; [right; exact Hk|]. intros ->. contradiction.
  - rewrite (Hz x (or_introl eq_refl)); [|intros ->; contradiction].
    rewrite IH; [ring | exact Hnd' | exact Hin|]. intros k Hk. apply Hz. right. exact Hk.
Qed.

(* ------------------------------------------------------------------ expectation depends only on the masses *)
Section Expect.
Context {A : Type} (eqb : A -> A -> bool).
Hypothesis eqb_spec : forall x y, eqb x y = true <-> x = y.

Lemma eqb_refl' : forall x, eqb x x = true. Proof. intros x. apply eqb_spec. reflexivity. Qed.
Lemma eqb_neq : forall x y, x <> y -> eqb x y = false.
Proof. intros x y H. destruct (eqb x y) eqn:E; [|reflexivity]. apply eqb_spec in E. contradiction. Qed.

Lemma A_dec : forall x y : A, {x = y} + {x <> y}.
Proof.
  intros x y. destruct (eqb x y) eqn:E.
  - left. apply eqb_spec. exact E.
  - right. intros H. apply eqb_spec in H. congruence.
Qed.

Lemma sum_indicator : forall (g : A -> Q) x0 p0 sup, NoDup sup -> In x0 sup ->
  sumf (fun x => (ind (eqb x0 x) * p0) * g x) sup == p0 * g x0.
Proof.
  intros g x0 p0. induction sup as [|y sup IH]; intros Hnd Hin; [destruct Hin|].
  cbn [sumf]. inversion Hnd as [|? ? Hny Hnd']; subst. destruct Hin as [->|Hin].
  - rewrite (ind_true _ (eqb_refl' x0)). rewrite sumf_zero; [ring|].
    intros x Hx. rewrite (ind_false (eqb x0 x)); [ring|]. apply eqb_neq. intros ->. contradiction.
  - rewrite (IH Hnd' Hin). rewrite (ind_false (eqb x0 y)); [ring|]. apply eqb_neq. intros ->. contradiction.
Qed.

Lemma expect_mass : forall (g : A -> Q) sup d, NoDup sup -> (forall x, In x (map fst d) -> In x sup) ->
  expect d g == sumf (fun x => mass eqb d x * g x) sup.
Proof.
  intros g sup. induction d as [|[x0 p0] d IH]; intros Hnd Hsup.
  - unfold expect. cbn [sumf]. symmetry. apply sumf_zero. intros x _. rewrite mass_nil. ring.
  - unfold expect. cbn [sumf fst snd]. fold (expect d g). rewrite IH; [|exact Hnd|intros x Hx; apply Hsup; right; exact Hx].
    rewrite <- (sum_indicator g x0 p0 sup Hnd); [|apply Hsup; left; reflexivity].
    rewrite <- sumf_plus. apply sumf_ext. intros x _. rewrite mass_cons. ring.
Qed.

Lemma expect_deq : forall (g : A -> Q) d1 d2, deq eqb d1 d2 -> expect d1 g == expect d2 g.
Proof.
  intros g d1 d2 H.
  set (sup := nodup A_dec (map fst d1 ++ map fst d2)).
  assert (Hnd : NoDup sup) by apply NoDup_nodup.
  rewrite (expect_mass g sup d1 Hnd), (expect_mass g sup d2 Hnd).
  - apply sumf_ext. intros x _. rewrite (H x). reflexivity.
  - intros x Hx. apply nodup_In. apply in_or_app. right. exact Hx.
  - intros x Hx. apply nodup_In. apply in_or_app. left. exact Hx.
Qed.

(* bind is a congruence in the distribution bound *)
Lemma bind_cong_l : forall B (eqbB : B -> B -> bool) (d1 d2 : dist A) (f : A -> dist B),
  deq eqb d1 d2 -> deq eqbB (bind d1 f) (bind d2 f).
Proof. intros B eqbB d1 d2 f H y. rewrite !mass_bind. apply expect_deq. exact H. Qed.

Lemma bind_cong : forall B (eqbB : B -> B -> bool) (d1 d2 : dist A) (f g : A -> dist B),
  deq eqb d1 d2 -> (forall x, deq eqbB (f x) (g x)) -> deq eqbB (bind d1 f) (bind d2 g).
Proof.
  intros B eqbB d1 d2 f g H1 H2. apply (deq_trans eqbB _ (bind d2 f)).
  - apply bind_cong_l. exact H1.
  - apply bind_cong_r. intros y _. apply H2.
Qed.

End Expect.

(* ------------------------------------------------------------------ the uniform distribution on ranks *)
Lemma mass_uniform : forall n k, (k < n)%nat -> mass Nat.eqb (uniform n) k == 1 / inject_Z (Z.of_nat n).
Proof.
  intros n k Hk. unfold uniform, mass. rewrite sumf_map. cbn [fst snd].
  assert (H := sum_indicator Nat.eqb Nat.eqb_eq (fun _ => 1) k (1 / inject_Z (Z.of_nat n)) (seq 0 n) (seq_NoDup n 0)).
  rewrite <- (Qmult_1_r (1 / inject_Z (Z.of_nat n))). rewrite <- H; [|apply in_seq; lia].
  apply sumf_ext. intros x _. rewrite (Nat.eqb_sym x k). ring.
Qed.

Lemma total_uniform : forall n, (0 < n)%nat -> total (uniform n) == 1.
Proof.
  intros n Hn. unfold total, uniform. rewrite sumf_map. cbn [snd].
  assert (E : forall l : list nat, sumf (fun _ => 1 / inject_Z (Z.of_nat n)) l == inject_Z (Z.of_nat (length l)) * (1 / inject_Z (Z.of_nat n))).
  { induction l as [|x l IH]; cbn [sumf length]; [ring|]. rewrite IH, Nat2Z.inj_succ, <- Z.add_1_r, inject_Z_plus. ring. }
  rewrite E, seq_length. field. intros H.
  unfold Qeq in H. cbn in H. lia.
Qed.
