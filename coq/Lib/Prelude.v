(* Shared executable utilities: no proofs here. *)
From Coq Require Import List ZArith Bool Arith.
Import ListNotations.

(* indices of the cases on which a boolean check fails: what tie B prints *)
Fixpoint failing_from {A} (f : A -> bool) (i : nat) (l : list A) : list nat :=
  match l with
  | [] => []
  | x :: l' => if f x then failing_from f (S i) l' else i :: failing_from f (S i) l'
  end.
Definition failing {A} (f : A -> bool) (l : list A) : list nat := failing_from f 0 l.

Definition zpair_eqb (a b : Z * Z) : bool := (fst a =? fst b)%Z && (snd a =? snd b)%Z.

Fixpoint list_eqb {A} (eqb : A -> A -> bool) (a b : list A) : bool :=
  match a, b with
  | [], [] => true
  | x :: a', y :: b' => eqb x y && list_eqb eqb a' b'
  | _, _ => false
  end.

Definition memb {A} (eqb : A -> A -> bool) (x : A) (l : list A) : bool := existsb (eqb x) l.
Definition subsetb {A} (eqb : A -> A -> bool) (a b : list A) : bool := forallb (fun x => memb eqb x b) a.
Definition set_eqb {A} (eqb : A -> A -> bool) (a b : list A) : bool := subsetb eqb a b && subsetb eqb b a.

Definition opt_eqb {A} (eqb : A -> A -> bool) (a b : option A) : bool :=
  match a, b with None, None => true | Some x, Some y => eqb x y | _, _ => false end.
