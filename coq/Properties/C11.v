(* C11 - composed and multiply-instantiated processes do not interfere.
   Only statements here; every proof is glue over Proofs/Sequence*.v. *)
From Coq Require Import List ZArith QArith Bool Arith String Permutation.
From EpyV Require Import Model.Kernel Model.Sequence
  Proofs.Sequence Proofs.SequenceNames Proofs.SequenceFrame Proofs.SequenceKernel.
Import ListNotations.
Close Scope Q_scope.
Open Scope list_scope.

(* every operation that ProcessSequence forwards (setDynamics, reset, build, setUp, tearDown,
   setMaximumTime) reaches, for every nesting, exactly the processes of allProcesses(), once
   each and in that order *)
Theorem C11_forwarded : forall (P S : Type) (f : P -> S -> S) (t : ptree P) (s : S),
  forward f t s = fold_left (fun s p => f p s) (all_processes t) s.
Proof. intros. apply forward_flat. Qed.

(* the dynamics schedules exactly the union of the components' events, for every nesting: the
   kernel's event list over the flattening is the concatenation of the components' tables (so
   its multiset is their union), every slot occurs exactly once and is attributed to the
   component that registered it *)
Theorem C11_union_events : forall (W : Type) (tb : table W) (t : ptree procdesc),
  t_procs tb = kprocs t ->
  map snd (all_events tb) = tree_events t
  /\ Permutation (map snd (transitions tb)) (tree_events t)
  /\ NoDup (map fst (transitions tb))
  /\ (forall pi j e, In (pi, j, e) (transitions tb) <->
        exists p, nth_error (all_processes t) pi = Some p /\ nth_error (p_events (kproc p)) j = Some e).
Proof. intros W tb t H. exact (union_events tb t H). Qed.

(* Dynamics.perElementEventDistribution / fixedRateEventDistribution / eventRateDistribution as
   written (extend over allProcesses()) are the kernel's per_element / fixed_rate / rate *)
Theorem C11_distribution : forall (W : Type) (tb : table W) (t : ptree procdesc),
  t_procs tb = kprocs t ->
  map strip (per_element tb) = map (fun x => (fst x, kevent true (snd x))) (per_element_distribution t)
  /\ map strip (fixed_rate tb) = map (fun x => (fst x, kevent false (snd x))) (fixed_rate_distribution t)
  /\ (forall (s : st W) pi j e, rate s (pi, j, kevent true e) = elem_rate (map (@List.length elem) (loci s)) e
                                /\ rate s (pi, j, kevent false e) = se_p e).
Proof.
  intros W tb t H. destruct (distribution_is_kernel tb t H) as [H1 H2].
  split; [exact H1|]. split; [exact H2|]. intros s pi j e. apply rate_is_kernel.
Qed.

(* results: union of the components' keys, a later component winning on equal keys *)
Theorem C11_results_merge : forall (P V : Type) (res : P -> dict V), (forall p, NoDup (dict_keys (res p))) ->
  forall t : ptree P,
  (forall k, dict_get k (results res t) = merged_from res k None (all_processes t))
  /\ (forall k, In k (dict_keys (results res t)) <-> exists p, In p (all_processes t) /\ In k (dict_keys (res p)))
  /\ (forall k ps1 p ps2 v, all_processes t = ps1 ++ p :: ps2 -> dict_get k (res p) = Some v ->
        (forall q, In q ps2 -> dict_get k (res q) = None) -> dict_get k (results res t) = Some v)
  /\ NoDup (dict_keys (results res t)).
Proof.
  intros P V res Hres t. destruct (results_spec res Hres t) as [Hnd Hget].
  split; [exact Hget|]. split; [intro k; apply (results_keys res Hres)|].
  split; [intros k ps1 p ps2 v; apply (results_later_wins res Hres)|exact Hnd].
Qed.

(* maximumTime: an upper bound of every component's, never negative for a sequence, and
   either 0 (nothing larger) or attained by a component *)
Theorem C11_maxtime : forall (P : Type) (mt : P -> Q) (t : ptree P),
  (forall p, In p (all_processes t) -> (mt p <= maximum_time mt t)%Q)
  /\ (is_seq t = true -> (0 <= maximum_time mt t)%Q)
  /\ ((is_seq t = true /\ maximum_time mt t = 0%Q) \/ exists p, In p (all_processes t) /\ maximum_time mt t = mt p).
Proof. intros. apply maximum_time_spec. Qed.

(* at equilibrium exactly when every component is *)
Theorem C11_equilibrium : forall (P : Type) (equil : P -> Q -> bool) (t : ptree P) (tm : Q),
  at_equilibrium equil t tm = true <-> forall p, In p (all_processes t) -> equil p tm = true.
Proof. intros. rewrite at_equilibrium_flat. apply forallb_forall. Qed.

(* the three-level rule: decorated name, then the shared undecorated name, then the default,
   else KeyError *)
Theorem C11_lookup : forall (V : Type) (inst : option string) (d : dict V) (k : string) (dflt : option V),
  (forall v, dict_get (decorated_name inst k) d = Some v -> get_decorated inst d k dflt = Found v)
  /\ (dict_get (decorated_name inst k) d = None ->
      forall v, dict_get k d = Some v -> get_decorated inst d k dflt = Found v)
  /\ (dict_get (decorated_name inst k) d = None -> dict_get k d = None ->
      get_decorated inst d k dflt = match dflt with Some v => Found v | None => KeyError k end).
Proof. intros. apply lookup_rule. Qed.

(* a parameter set for one named instance is read by that instance and by no other *)
Theorem C11_lookup_independent : forall (V : Type) (i j : option string) (d : dict V) (k k' : string) (v : V) (dflt : option V),
  get_decorated i (dict_set (decorated_name i k) v d) k dflt = Found v
  /\ (i <> j -> i <> None -> has_at k = false -> has_at k' = false ->
      get_decorated j (dict_set (decorated_name i k') v d) k dflt = get_decorated j d k dflt).
Proof.
  intros. split; [apply lookup_own_instance|]. intros Hij Hi Hk Hk'. apply lookup_other_instance; assumption.
Qed.

Theorem C11_undecorate : forall (inst : option string) (k : string),
  has_at k = false -> undecorated_name (decorated_name inst k) = k.
Proof. intros. apply undecorate_decorate. assumption. Qed.

(* different instances never share a decorated name ('@' occurs in no stem) *)
Theorem C11_names_disjoint : forall (i j : option string) (stems1 stems2 : list string),
  i <> j ->
  (forall s, In s stems1 -> has_at s = false) -> (forall s, In s stems2 -> has_at s = false) ->
  forall x, In x (map (decorated_name i) stems1) -> In x (map (decorated_name j) stems2) -> False.
Proof. intros i j s1 s2. apply names_disjoint. Qed.

(* the locus registry: build succeeds exactly when all decorated locus names are distinct and
   then holds exactly those names in allProcesses() order; distinct instance names suffice;
   the same instance name with a common stem is refused *)
Theorem C11_registry : forall t : ptree procdesc,
  (forall reg, build_registry t = Some reg -> reg = all_loci (all_processes t) /\ NoDup (all_locus_names t))
  /\ (build_registry t = None <-> ~ NoDup (all_locus_names t))
  /\ (NoDup (map pd_inst (all_processes t)) ->
      (forall p, In p (all_processes t) -> NoDup (pd_loci p) /\ forall s, In s (pd_loci p) -> has_at s = false) ->
      exists reg, build_registry t = Some reg /\ reg = all_loci (all_processes t))
  /\ (forall ps1 p ps2 q ps3 s, all_processes t = ps1 ++ p :: ps2 ++ q :: ps3 -> pd_inst p = pd_inst q ->
      In s (pd_loci p) -> In s (pd_loci q) -> build_registry t = None).
Proof.
  intro t. destruct (registry_spec t) as [H1 H2]. split; [exact H1|]. split; [exact H2|].
  split; [apply registry_separate|]. intros ps1 p ps2 q ps3 s. apply registry_refuses_same_name.
Qed.

(* frame: an event whose writes stay within its summary (own state variables, own loci, the
   declared shared variables) changes no attribute and no locus outside that set ... *)
Theorem C11_frame_general : forall (inst : option string) (fn : string) (stems : list string) (ws : list write) (w : sworld),
  (forall x, In x ws -> within_summary fn stems x = true) ->
  (forall a e, ~ In a (may_change_attrs inst fn) ->
     attr_get (a, e) (sw_attrs (apply_writes inst ws w)) = attr_get (a, e) (sw_attrs w))
  /\ (forall n, ~ In n (may_change_loci inst stems) -> locus_get n (apply_writes inst ws w) = locus_get n w).
Proof. intros inst fn stems ws w H. split; [apply (frame_attrs inst fn stems ws w H)|apply (frame_loci inst fn stems ws w H)]. Qed.

(* ... in particular nothing that is named for another instance *)
Theorem C11_frame : forall (i j : option string) (fn : string) (stems : list string) (ws : list write) (w : sworld),
  i <> j ->
  (forall x, In x ws -> within_summary fn stems x = true) ->
  (forall s, In s stems -> has_at s = false) ->
  (forall stem e, has_at stem = false -> ~ In (state_variable j stem) shared_vars ->
     attr_get (state_variable j stem, e) (sw_attrs (apply_writes i ws w)) = attr_get (state_variable j stem, e) (sw_attrs w))
  /\ (forall stem, has_at stem = false ->
     locus_get (decorated_name j stem) (apply_writes i ws w) = locus_get (decorated_name j stem) w).
Proof. intros i j fn stems ws w. apply frame_other_instance. Qed.

(* adding a process without stochastic events leaves the transitions (up to renumbering the
   processes behind it), their rates, the Gillespie selection and the values taken from the
   random source by the synchronous tranche unchanged *)
Theorem C11_observers_passive : forall (W : Type) (tb tb' : table W) (ps1 ps2 : list proc) (o : proc),
  t_procs tb = ps1 ++ ps2 -> t_procs tb' = ps1 ++ o :: ps2 -> p_events o = [] ->
  let k := List.length ps1 in
  transitions tb' = map (shift k) (transitions tb)
  /\ (forall (s : st W) x, rate s (shift k x) = rate s x)
  /\ (forall s : st W, sum_rates s (transitions tb') = sum_rates s (transitions tb))
  /\ (forall (s : st W) xc x0 l, select (rate s) xc 0%Q (shift k x0) (map (shift k) l) = shift k (select (rate s) xc 0%Q x0 l))
  /\ (forall s : st W, tranche tb' s = (map (shift_sel ps1) (fst (tranche tb s)), snd (tranche tb s))).
Proof. intros W tb tb' ps1 ps2 o H1 H2 H3. exact (observers_passive tb tb' ps1 ps2 o H1 H2 H3). Qed.

(* ------------------------------------------------------------------ non-vacuity *)
(* a monitor, then a dict of two named SIR instances nested in a list *)
Definition ex_sir (id : nat) (name : string) (pinf prem : Q) : procdesc :=
  {| pd_id := id; pd_inst := Some name;
     pd_elem := [ {| se_locus := 2 * (id - 1); se_p := pinf; se_prog := 0; se_name := "epydemic.sir.I" |};
                  {| se_locus := 2 * (id - 1) + 1; se_p := prem; se_prog := 1; se_name := "epydemic.sir.R" |} ];
     pd_fixed := []; pd_loci := ["epydemic.sir.SI"; "epydemic.sir.I"]%string; pd_maxtime := 3%Q; pd_always := None |}.
Definition ex_monitor : procdesc :=
  {| pd_id := 0; pd_inst := None; pd_elem := []; pd_fixed := []; pd_loci := []; pd_maxtime := 5%Q; pd_always := None |}.
Definition ex_tree : ptree procdesc :=
  Seq [Leaf ex_monitor; NamedSeq [("first", Leaf (ex_sir 1 "a" (1#2)%Q (1#4)%Q)); ("second", Seq [Leaf (ex_sir 2 "b" (1#8)%Q 1%Q)])]%string].

Example C11_example :
  map pd_id (all_processes ex_tree) = [0; 1; 2]
  /\ event_rate_distribution ex_tree [3; 2; 4; 1]
     = [(1, "epydemic.sir.I"%string, (3#2)%Q); (1, "epydemic.sir.R"%string, (1#2)%Q); (2, "epydemic.sir.I"%string, (1#2)%Q); (2, "epydemic.sir.R"%string, 1%Q)]
  /\ maximum_time pd_maxtime ex_tree = 5%Q
  /\ at_equilibrium pd_equil ex_tree 4%Q = false /\ at_equilibrium pd_equil ex_tree 5%Q = true
  /\ results (fun p => [("epydemic.sir.S"%string, Z.of_nat (pd_id p))]) ex_tree = [("epydemic.sir.S"%string, 2%Z)]
  /\ option_map reg_names (build_registry ex_tree)
     = Some ["epydemic.sir.SI@a"; "epydemic.sir.I@a"; "epydemic.sir.SI@b"; "epydemic.sir.I@b"]%string
  /\ NoDup (map pd_inst (all_processes ex_tree))
  /\ get_decorated (Some "a"%string) [("p@b", 1%Z); ("p", 2%Z); ("p@a", 3%Z)]%string "p" None = Found 3%Z
  /\ get_decorated (Some "c"%string) [("p@b", 1%Z); ("p", 2%Z); ("p@a", 3%Z)]%string "p" None = Found 2%Z
  /\ get_decorated (Some "c"%string) [("p@b", 1%Z)]%string "p" (Some 7%Z) = Found 7%Z
  /\ get_decorated (Some "c"%string) [("p@b", 1%Z)]%string "p" None = KeyError "p"%string.
Proof.
  repeat split; try reflexivity.
  simpl. repeat constructor; simpl; intuition discriminate.
Qed.

(* the hypotheses of C11_frame are satisfiable: an infection event of instance "a" writing all
   it may write leaves compartment@b and the loci of "b" alone, and does change its own *)
Example C11_frame_example :
  let ws := [WAttr (Own "compartment") (EN 1) 1%Z; WAttr (Own "occupied") (EE 1 2) 1%Z; WAttr (Shared "tOccupied") (EE 1 2) 5%Z;
             WAttr (Shared "tHitting") (EN 1) 5%Z; WAttr (Shared "hittingProcess") (EN 1) 0%Z;
             WLocus "epydemic.sir.SI" []; WLocus "epydemic.sir.I" [EN 1; EN 2]]%string in
  let w := {| sw_attrs := [("compartment@a", EN 1, 0%Z); ("compartment@b", EN 1, 0%Z)]%string;
              sw_loci := [("epydemic.sir.SI@a", [EE 1 2]); ("epydemic.sir.SI@b", [EE 1 2])]%string |} in
  (forall x, In x ws -> within_summary "infect" ["epydemic.sir.SI"; "epydemic.sir.I"]%string x = true)
  /\ attr_get ("compartment@b"%string, EN 1) (sw_attrs (apply_writes (Some "a"%string) ws w)) = Some 0%Z
  /\ attr_get ("compartment@a"%string, EN 1) (sw_attrs (apply_writes (Some "a"%string) ws w)) = Some 1%Z
  /\ locus_get "epydemic.sir.SI@b"%string (apply_writes (Some "a"%string) ws w) = [EE 1 2]
  /\ locus_get "epydemic.sir.SI@a"%string (apply_writes (Some "a"%string) ws w) = [].
Proof.
  cbv zeta. split; [|repeat split; reflexivity].
  intros x Hx. simpl in Hx. repeat (destruct Hx as [<-|Hx]; [reflexivity|]). destruct Hx.
Qed.

(* a stem containing '@' would break C11_names_disjoint: the hypothesis is necessary *)
Example C11_at_in_stem_collides :
  decorated_name (Some "c"%string) "a@b"%string = decorated_name (Some "b@c"%string) "a"%string.
Proof. reflexivity. Qed.
