(* C20 - pulse-coupled oscillators always have exactly one scheduled firing.
   Statements only; the proofs are in Proofs/Pulse{Base,Inv,Run,Sync,SyncModel}.v.

   The process is Model/Pulse.v's table over the event kernel of Model/Kernel.v.  [reach] holds of the
   state after set-up and of every state either scheduler loop passes through between events (C20_states:
   the final state for EVERY fuel, i.e. every truncation of a run).  The numeric maps (decimal rounding,
   phaseToState, stateToPhase, rng.random) are an arbitrary oracle; the only hypotheses on it are stated on
   the log of answered requests [pw_reqs]:
     good_lo : a posting time answered for a caller at time t is not before t  (round(t + x, 5) >= t for x >= 0
               because t is itself a 5-place value; otherwise postEvent raises ValueError and the run dies);
     good ub : moreover it is at most ub of the exact argument, ub any monotone bound of the rounding. *)
From Coq Require Import List ZArith QArith Qabs Bool Arith Lia Lqa.
From EpyV Require Import Lib.Prelude Model.Kernel Model.Pulse.
From EpyV Require Import Proofs.KernelBase Proofs.PulseBase Proofs.PulseInv Proofs.PulseRun Proofs.PulseSync Proofs.PulseSyncModel.
Import ListNotations.
Open Scope Q_scope.

(* the states the theorems speak about: every state of a run of either dynamics, for every fuel *)
Theorem C20_states : forall cfg oracle orders pf fuel rs ls ds,
  reach cfg oracle orders (r_final (stoch_run (pulse_table cfg oracle orders) pf fuel rs ls ds))
  /\ reach cfg oracle orders (r_final (sync_run (pulse_table cfg oracle orders) pf fuel rs ds)).
Proof. intros. split; [apply stoch_run_reach|apply sync_run_reach]. Qed.

(* After set-up and after every event every node of the network has exactly one LIVE queue entry: the one
   the node's 'event' attribute names (index k in the ids handed out by postEvent), due at the time the user
   state recorded; and every live entry is such an entry (so there are no others); ids are unique. *)
Theorem C20_one_pending : forall cfg oracle orders (s : st pworld),
  0 <= pc_period cfg -> reach cfg oracle orders s -> good_lo (pw_reqs (world s)) ->
  (forall n, In n (pc_nodes cfg) ->
     exists k T, ev_of (world s) n = Some (k, T) /\ (k < length (ids s))%nat
                 /\ filter (live_of n) (queue s) = [fentry T (nth k (ids s) 0%nat) n])
  /\ (forall x, In x (queue s) -> e_live x = true ->
        exists n k T, ev_of (world s) n = Some (k, T) /\ x = fentry T (nth k (ids s) 0%nat) n)
  /\ NoDup (map e_id (queue s)).
Proof. exact one_pending. Qed.

(* Every pending firing is due no earlier than the latest firing and no later than the rounding bound of
   (time of the latest firing + period); the clock is never before the latest firing. *)
Theorem C20_due_bound : forall cfg (ub : Q -> Q) oracle orders (s : st pworld),
  (forall x y, x <= y -> ub x <= ub y) -> 0 <= pc_period cfg ->
  reach cfg oracle orders s -> good ub (pw_reqs (world s)) ->
  forall n k T, ev_of (world s) n = Some (k, T) ->
    lastT (world s) <= T /\ T <= ub (lastT (world s) + pc_period cfg).
Proof.
  intros cfg ub oracle orders s Hm Hp R Hg n k T E.
  exact (pi_tm _ _ _ (reach_Inv cfg ub Hm Hp oracle orders s R Hg) n k T E (fun x => x)).
Qed.

(* the instance for a rounding that errs by at most eps *)
Theorem C20_due_bound_eps : forall cfg eps oracle orders (s : st pworld),
  0 <= pc_period cfg -> reach cfg oracle orders s -> good (fun x => x + eps) (pw_reqs (world s)) ->
  forall n k T, ev_of (world s) n = Some (k, T) -> T <= lastT (world s) + pc_period cfg + eps.
Proof.
  intros cfg eps oracle orders s Hp R Hg n k T E.
  apply (pi_tm _ _ _ (reach_Inv cfg (fun x => x + eps) (fun x y H => proj2 (Qplus_le_l x y eps) H) Hp oracle orders s R Hg) n k T E (fun x => x)).
Qed.

(* One event: the live head h of the queue fires.  It is the pending firing of a node n; afterwards the
   invariant holds again, (T, n) has been appended to the log, the clock is T, the last record of the event
   stream is n's FIRED tap at T, and n is rescheduled at the oracle's rounding of T + clamp(round(1 - 0)) * period,
   (no cascade touches it afterwards) - i.e. one period later. *)
Theorem C20_refire : forall cfg (ub : Q -> Q) oracle orders (s : st pworld) h,
  (forall x y, x <= y -> ub x <= ub y) -> 0 <= pc_period cfg ->
  reach cfg oracle orders s -> head (queue s) = Some h -> e_live h = true ->
  let s' := pend_step (pulse_table cfg oracle orders) h s in
  good ub (pw_reqs (world s')) ->
  exists n, e_elem h = EN n /\ fired_at cfg s s' n (e_time h).
Proof.
  intros cfg ub oracle orders s h Hm Hp R Hh Hl s' Hg.
  destruct (pend_step_reqs cfg oracle orders h s) as [lr Hlr].
  assert (Hg0 : good ub (pw_reqs (world s))) by (fold s' in Hlr; rewrite Hlr in Hg; eapply good_app; exact Hg).
  exact (proj2 (pend_step_PInv cfg ub Hm Hp oracle orders s h (reach_Inv cfg ub Hm Hp oracle orders s R Hg0) Hh Hl Hg)).
Qed.

(* with an oracle that rounds 1 to 1 the argument of that rounding is exactly T + period *)
Theorem C20_refire_one_period : forall cfg T, clamp01 1 = 1 /\ Qred (T + clamp01 1 * pc_period cfg) == T + pc_period cfg.
Proof. intros cfg T. split; [reflexivity|]. rewrite Qred_correct. change (clamp01 1) with 1. ring. Qed.

(* The firing log: times non-decreasing (newest first: each at least the one before), as many nodes as times,
   and the FIRED taps of the event stream are exactly the logged (time, node) pairs, in order. *)
Theorem C20_log : forall cfg (ub : Q -> Q) oracle orders (s : st pworld),
  (forall x y, x <= y -> ub x <= ub y) -> 0 <= pc_period cfg ->
  reach cfg oracle orders s -> good ub (pw_reqs (world s)) ->
  desc (pw_ftimes (world s))
  /\ length (pw_ftimes (world s)) = length (pw_fnodes (world s))
  /\ taps (out s) = map tap_of (combine (pw_ftimes (world s)) (pw_fnodes (world s))).
Proof.
  intros cfg ub oracle orders s Hm Hp R Hg.
  pose proof (reach_Inv cfg ub Hm Hp oracle orders s R Hg) as P.
  exact (conj (pi_sorted _ _ _ P) (conj (pi_len _ _ _ P) (pi_taps _ _ _ P))).
Qed.

(* normalisePhase lands in [0, 1] whatever the rounding returns; so do getPhase and the reported final phases *)
Theorem C20_phase_range : forall r, 0 <= clamp01 r /\ clamp01 r <= 1.
Proof. exact clamp01_range. Qed.
Theorem C20_final_phases_range : forall cfg t w, Forall (fun x => 0 <= x /\ x <= 1) (fst (final_phases cfg t w)).
Proof. exact final_phases_range. Qed.

(* PARTIAL.  Synchrony is absorbing on a complete network, as a statement about pending firing times over a
   batch of consecutive events at one time T.  Proved from the model: the node that fires is the one whose
   pending time is T, and every other node whose pending time is T keeps it (it is passed over; this needs of the
   oracle only [round_one]: round(x, 5) of exactly 1 is 1, which Tie/C20.v checks on every run).
   HYPOTHESISED (they are statements about the floating-point maps, which the model receives as oracle values):
   every other node NOT due at T is moved to upd(its pending time) for one function upd (complete network: every
   other node is a neighbour; the update depends on the pending time alone), the firing nodes all go to
   nxt <> T, and upd nxt = nxt (phase 0 maps to itself).  Conclusion: equal pending times are equal after the
   batch; hence the number of distinct pending times does not increase and no synchronised group shrinks.
   Not proved: that the shipped phaseToState/stateToPhase/round satisfy the hypotheses (D checks the conclusion
   on every complete-network run).
   History: the former hypothesis "upd T = T or upd T = nxt" (a node due now is passed over, or synchronises) was
   FALSE of the code before the repair F18 (cascade tested phaseToState(phase) == 1.0, and phaseToState(1.0) is not
   1.0 in binary64 for dissipation 0.01, 0.1, 1e-6, ...: with a negative coupling the node left its group). *)
Theorem C20_sync_absorbing_partial : forall cfg (ub : Q -> Q) oracle orders T nxt (upd : Q -> Q),
  (forall x y, x <= y -> ub x <= ub y) -> 0 <= pc_period cfg ->
  let tb := pulse_table cfg oracle orders in
  (forall s h n, reach cfg oracle orders s -> head (queue s) = Some h -> e_live h = true -> e_time h = T ->
     e_elem h = EN n -> forall m, m <> n -> ptime s m <> Some T -> ptime (pend_step tb h s) m = option_map upd (ptime s m)) ->
  (forall s h n, reach cfg oracle orders s -> head (queue s) = Some h -> e_live h = true -> e_time h = T ->
     e_elem h = EN n -> ptime (pend_step tb h s) n = Some nxt) ->
  nxt <> T -> upd nxt = nxt ->
  forall s s', reach cfg oracle orders s -> tbatch cfg oracle orders T s s' -> good ub (pw_reqs (world s')) ->
  round_one (pw_reqs (world s')) ->
  (forall m, ptime s' m <> Some T) ->
  (forall a b, ptime s a = ptime s b -> ptime s' a = ptime s' b)
  /\ (ndistinct Z (option Q) optQ_dec (pc_nodes cfg) (ptime s') <= ndistinct Z (option Q) optQ_dec (pc_nodes cfg) (ptime s))%nat
  /\ (forall a, In a (pc_nodes cfg) ->
        (group Z (option Q) optQ_dec (pc_nodes cfg) (ptime s) a <= group Z (option Q) optQ_dec (pc_nodes cfg) (ptime s') a)%nat).
Proof.
  intros cfg ub oracle orders T nxt upd Hm Hp tb H1 H2 H3 H5 s s' R Hb Hg Hr Hend.
  split.
  - intros a b. exact (sync_absorbing_model cfg ub Hm Hp oracle orders T nxt upd H1 H2 H3 H5 s s' a b R Hb Hg Hr Hend).
  - exact (sync_counts_model cfg ub Hm Hp oracle orders T nxt upd H1 H2 H3 H5 s s' R Hb Hg Hr Hend).
Qed.

(* The part of the synchrony clause that is no longer a hypothesis: when a node fires at T, every OTHER node whose
   firing is pending at T is still pending at T afterwards (cascade reads its phase, the rounding of exactly 1, and
   passes it over).  Before the repair F18 cascade tested phaseToState(phase) == 1.0, which fails in binary64 for
   some dissipations, and this was false of the code. *)
Theorem C20_due_now_passed_over : forall cfg (ub : Q -> Q) oracle orders T s h n m,
  (forall x y, x <= y -> ub x <= ub y) -> 0 <= pc_period cfg ->
  let tb := pulse_table cfg oracle orders in
  reach cfg oracle orders s -> head (queue s) = Some h -> e_live h = true -> e_time h = T -> e_elem h = EN n ->
  good ub (pw_reqs (world s)) -> round_one (pw_reqs (world (pend_step tb h s))) ->
  m <> n -> ptime s m = Some T -> ptime (pend_step tb h s) m = Some T.
Proof.
  intros cfg ub oracle orders T s h n m Hm Hp tb R Hh Hl Ht He Hg Hr Hmn Hpt.
  exact (due_now_kept cfg ub Hm Hp oracle orders T s h n m R Hh Hl Ht He Hg Hr Hmn Hpt).
Qed.

(* ------------------------------------------------------------------ non-vacuity *)
(* A real run (two coupled nodes, period 1, the values the implementation's arithmetic produced): three firings,
   the third after a synchronisation.  Its final state is reachable, its oracle satisfies [good] for the bound
   x + 1e-5, and the log is not empty. *)
Definition ex_cfg : pcfg :=
  {| pc_nodes := [0; 1]%Z; pc_adj := [(0, [1]); (1, [0])]%Z; pc_period := 1; pc_coupling := 1 # 8; pc_maxtime := 3 # 2; pc_observe := true |}.
Definition ex_oracle : list (rkind * Q) :=
  [(RR, 1 # 4); (RG, 5955422397294589 # 36028797018963968); (RN, 3759154608966153 # 4503599627370496); (RT, 3759154608966153 # 4503599627370496);
   (RR, 1 # 2); (RG, 212536501914567 # 562949953421312); (RN, 2803310624053039 # 4503599627370496); (RT, 2803310624053039 # 4503599627370496);
   (RN, 1 # 1); (RT, 7306910251423535 # 4503599627370496); (RN, 1773877821228691 # 2251799813685248); (RS, 3854826337731417 # 4503599627370496);
   (RG, 4369114592791149 # 4503599627370496);
   (RN, 4369122142497213 # 4503599627370496); (RN, 8606559031890113 # 288230376151711744); (RT, 1468894054463161 # 2251799813685248);
   (RN, 4369122142497213 # 4503599627370496); (RN, 1 # 1); (RT, 3720693868148409 # 2251799813685248);
   (RN, 8606559031890113 # 288230376151711744); (RS, 3605401984276117 # 72057594037927936); (RG, 125340932159485 # 1125899906842624); (RN, 8022171944242517 # 72057594037927936);
   (RN, 8004427761710677 # 9007199254740992); (RT, 6940001989781661 # 4503599627370496); (RN, 8022171944242517 # 72057594037927936);
   (RN, 1 # 1); (RT, 2860900404288039 # 1125899906842624); (RN, 8004427761710677 # 9007199254740992); (RS, 4174958880980699 # 4503599627370496);
   (RG, 4884083242615269 # 4503599627370496);
   (RN, 1221015930972689 # 1125899906842624); (RN, 0 # 1); (RT, 6940001989781661 # 4503599627370496); (RN, 1 # 1); (RN, 1 # 1);
   (RT, 2860900404288039 # 1125899906842624)].
Definition ex_orders : list (list Z) := [[0]; [1]; [0]]%Z.
Definition ex_final : st pworld := r_final (stoch_run (pulse_table ex_cfg ex_oracle ex_orders) 100 100 [] [] []).

Example C20_nonvacuous :
  reach ex_cfg ex_oracle ex_orders ex_final
  /\ good (fun x => x + (1 # 100000)) (pw_reqs (world ex_final))
  /\ 0 <= pc_period ex_cfg
  /\ pw_fnodes (world ex_final) = [1; 0; 1]%Z
  /\ pw_bad (world ex_final) = false /\ pw_oracle (world ex_final) = [].
Proof.
  split; [apply stoch_run_reach|]. split; [apply good_b_good; vm_compute; reflexivity|].
  split; [cbn; lra|]. vm_compute. repeat split.
Qed.

(* the hypotheses of the batch theorem are satisfiable: two nodes due at time 0, rescheduled at 1, nothing else moves *)
Example C20_sync_nonvacuous :
  let t := 0%nat in let nxt := 1%nat in let upd := fun x : nat => x in
  let p0 := fun _ : bool => 0%nat in
  let p1 := fun b : bool => if b then 1%nat else 0%nat in
  let p2 := fun _ : bool => 1%nat in
  nxt <> t /\ (upd t = t \/ upd t = nxt) /\ upd nxt = nxt
  /\ batch bool nat t nxt upd p0 p2 /\ (forall m, p2 m <> t) /\ p2 true = p2 false.
Proof.
  cbv zeta. split; [discriminate|]. split; [left; reflexivity|]. split; [reflexivity|]. split; [|split; [intros m; discriminate|reflexivity]].
  eapply (b_cons _ _ _ _ _ true _ (fun b : bool => if b then 1%nat else 0%nat)).
  - split; [reflexivity|]. split; [reflexivity|]. intros [|] H; [contradiction|reflexivity].
  - eapply (b_cons _ _ _ _ _ false); [|apply b_nil].
    split; [reflexivity|]. split; [reflexivity|]. intros [|] H; [reflexivity|contradiction].
Qed.
