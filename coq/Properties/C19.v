(* C19 - statements (under construction) *)
From EpyV Require Import Model.AddDelete.
Example C19_stub : True. Proof. exact I. Qed.
