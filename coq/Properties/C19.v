(* C19 - addition-deletion keeps its population bookkeeping exact.
   Only statements here; the proofs are in Proofs/AddDelete*.v.

   The model (Model/AddDelete.v) transcribes adddelete.py and the two documented combinations with
   a compartmented model (the classes of test/test_adddeletesir.py = the cookbook recipe), with the
   method resolution written out, as programs of the event kernel (Model/Kernel.v) over a world
   [adworld] = network + compartments + disease loci (a Model/Loci.v state) + the all-nodes locus.
   [add_step cf w] / [delete_step cf w n] are the event functions add / delete; [ad_run] is a whole
   run under stochastic (sync = false) or synchronous (sync = true) dynamics for arbitrary oracles
   (randoms, logarithms, ranks drawn by the scheduler, ranks drawn inside add) and arbitrary fuel.

   [Base cf w]: the network is well formed (edges join nodes, absent nodes carry no attributes, no
   node listed twice), the all-nodes locus is duplicate-free and has exactly the nodes, and - with a
   disease - every node carries a compartment.  It holds after set-up and after every event of every
   run (C19_locus_is_nodes, C19_every_event), so the one-event theorems apply at every event.

   Hypotheses of the run theorems, all read off the live objects by the harness on every run:
   [cfg_ok] (the all-nodes locus is not among the disease's loci; where the disease hears of edges its
   loci table is one C01 covers), [event_ok] (delete is registered on the all-nodes locus; the
   disease's event functions post nothing), [init_ok] (the initial network is a graph without
   repeated nodes; every node receives an initial compartment). *)
From Coq Require Import List ZArith QArith Bool Arith.
From EpyV Require Import Lib.Prelude Model.Kernel Model.Loci Model.Compart Model.AddDelete
                         Proofs.LociInv Proofs.AddDelete Proofs.AddDeleteSteps Proofs.AddDeleteInv
                         Proofs.AddDeleteMain Proofs.AddDeleteTop Proofs.AddDeleteExamples.
Import ListNotations.
Close Scope Q_scope.
Close Scope Z_scope.

(* ---------- one event ---------- *)

(* newNodeName returns a name that is not in use (and larger than the order); add creates exactly
   that node and puts it into the all-nodes locus *)
Theorem C19_fresh_name : forall cf w, Base cf w ->
  let i := new_node_name (aw_st w) in
  ~ In i (st_nodes (aw_st w)) /\ (Z.of_nat (length (st_nodes (aw_st w))) < i)%Z
  /\ st_nodes (aw_st (add_step cf w)) = st_nodes (aw_st w) ++ [i]
  /\ aw_all (add_step cf w) = aw_all w ++ [i].
Proof. exact add_names_fresh. Qed.

(* whenever the draw loop of add returns, the new node has exactly c neighbours, all distinct, none
   itself, all of them nodes that existed before; these are the only new edges; nothing raised *)
Theorem C19_new_degree : forall cf w, Base cf w -> aw_stuck w = false -> aw_stuck (add_step cf w) = false ->
  let i := new_node_name (aw_st w) in
  let nb := neighbours (aw_st (add_step cf w)) i in
  length nb = ac_deg cf /\ NoDup nb /\ ~ In i nb /\ (forall j, In j nb -> In j (st_nodes (aw_st w)))
  /\ st_edges (aw_st (add_step cf w)) = st_edges (aw_st w) ++ map (pair i) nb
  /\ aw_raised (add_step cf w) = aw_raised w.
Proof. exact add_degree. Qed.

(* ... and it does return as soon as the ranks supplied by the random source select c distinct
   existing nodes (with fewer than c other nodes it cannot: Python's `while True` never ends) *)
Theorem C19_add_progress : forall cf w vs, Base cf w -> aw_stuck w = false ->
  let i := new_node_name (aw_st w) in
  NoDup vs -> ac_deg cf <= length vs ->
  (forall v, In v vs -> In v (st_nodes (aw_st w)) /\ In v (map (draw_at (zsort (zadd i (aw_all w)))) (aw_draws w))) ->
  aw_stuck (add_step cf w) = false.
Proof. exact add_progress. Qed.

(* conversely it can only return when at least c other nodes exist - the guard in the property text *)
Theorem C19_add_needs_c_others : forall cf w, Base cf w -> aw_stuck w = false -> aw_stuck (add_step cf w) = false ->
  ac_deg cf <= length (st_nodes (aw_st w)).
Proof. exact add_needs_others. Qed.

(* delete removes its node and exactly the edges at that node, from the network and from the locus *)
Theorem C19_delete_removes_edges : forall cf w n, Base cf w -> In n (st_nodes (aw_st w)) ->
  let s := aw_st w in let s' := aw_st (delete_step cf w n) in
  ~ In n (st_nodes s') /\ (forall e, In e (st_edges s') -> touches n e = false)
  /\ (forall v, In v (st_nodes s') <-> In v (st_nodes s) /\ v <> n)
  /\ (forall e, In e (st_edges s') <-> In e (st_edges s) /\ touches n e = false)
  /\ S (length (st_nodes s')) = length (st_nodes s)
  /\ (forall v, In v (aw_all (delete_step cf w n)) <-> In v (aw_all w) /\ v <> n)
  /\ aw_raised (delete_step cf w n) = aw_raised w.
Proof. exact delete_removes. Qed.

(* both events keep the bookkeeping invariant *)
Theorem C19_events_keep_base : forall cf w, Base cf w ->
  Base cf (add_step cf w) /\ forall n, In n (st_nodes (aw_st w)) -> Base cf (delete_step cf w n).
Proof. intros cf w H. split; [apply add_step_base, H | intros n Hn; apply delete_step_base; assumption]. Qed.

(* inheritance combination: C01's invariant for the disease's loci (every locus is exactly the set it
   is declared to track) is preserved by add and by delete *)
Theorem C19_inherit_consistent : forall cf, ac_combo cf = Inherit ->
  wf_loci (ac_tbl cf) = true -> single_orientation (ac_tbl cf) = true ->
  forall w, Base cf w -> Inv (ac_tbl cf) (aw_st w) ->
  Inv (ac_tbl cf) (aw_st (add_step cf w)) /\ forall n, Inv (ac_tbl cf) (aw_st (delete_step cf w n)).
Proof.
  intros cf Ec Hwf Hso w HB HI. split.
  - apply add_step_inv; try assumption. unfold tracked_edges. rewrite Ec. reflexivity.
  - intro n. apply delete_step_inv_inherit; assumption.
Qed.

(* ---------- whole runs, both dynamics, every oracle ---------- *)

(* the all-nodes locus (as the handlers keep it and as the scheduler sees it) is the node set at the
   end and after every event *)
Theorem C19_locus_is_nodes : forall cf n0, cfg_ok cf ->
  forall procs nloci nodes edges init maxtime adraws,
  (forall a, In a (concat procs) -> event_ok cf a) -> init_ok cf n0 nloci nodes edges init ->
  forall sync pf fuel rs ls ds,
  let r := ad_run cf procs nloci nodes edges init maxtime adraws sync pf fuel rs ls ds in
  let w := world (r_final r) in
  NoDup (aw_all w) /\ (forall v, In v (aw_all w) <-> In v (st_nodes (aw_st w)))
  /\ nth (ac_li cf) (loci (r_final r)) [] = map EN (zsort (aw_all w))
  /\ Forall (fun sn => NoDup (sn_all sn) /\ forall v, In v (sn_all sn) <-> In v (st_nodes (sn_st sn))) (aw_log w).
Proof. exact run_locus. Qed.

(* final order = initial order + additions - deletions (unless an addition never returned) *)
Theorem C19_order : forall cf n0, cfg_ok cf ->
  forall procs nloci nodes edges init maxtime adraws,
  (forall a, In a (concat procs) -> event_ok cf a) -> init_ok cf n0 nloci nodes edges init ->
  forall sync pf fuel rs ls ds,
  let w := world (r_final (ad_run cf procs nloci nodes edges init maxtime adraws sync pf fuel rs ls ds)) in
  aw_stuck w = false ->
  length (st_nodes (aw_st w)) + count_deletes (aw_log w) = n0 + count_adds (aw_log w).
Proof. exact run_order. Qed.

(* after every event: locus = nodes; every node has a compartment (with a disease); the disease's loci
   are exact (where it hears of the edges); an added node has exactly its c distinct neighbours, none
   itself; a deleted node and all its edges are gone *)
Theorem C19_every_event : forall cf n0, cfg_ok cf ->
  forall procs nloci nodes edges init maxtime adraws,
  (forall a, In a (concat procs) -> event_ok cf a) -> init_ok cf n0 nloci nodes edges init ->
  forall sync pf fuel rs ls ds,
  Forall (snap_ok cf) (aw_log (world (r_final (ad_run cf procs nloci nodes edges init maxtime adraws sync pf fuel rs ls ds)))).
Proof. exact run_events. Qed.

(* no call made by add or delete ever raises: delete is only ever handed nodes of the network *)
Theorem C19_no_exception : forall cf n0, cfg_ok cf ->
  forall procs nloci nodes edges init maxtime adraws,
  (forall a, In a (concat procs) -> event_ok cf a) -> init_ok cf n0 nloci nodes edges init ->
  forall sync pf fuel rs ls ds,
  aw_raised (world (r_final (ad_run cf procs nloci nodes edges init maxtime adraws sync pf fuel rs ls ds))) = false.
Proof. exact run_no_exception. Qed.

(* combined with a compartmented model: nodes enter and leave its compartments and loci consistently -
   at the end and after every event every node has a compartment, and (inheritance combination, and
   the sequence combination once the recipe routes addEdge to the disease) the loci are exact *)
Theorem C19_disease_consistent : forall cf n0, cfg_ok cf ->
  forall procs nloci nodes edges init maxtime adraws,
  (forall a, In a (concat procs) -> event_ok cf a) -> init_ok cf n0 nloci nodes edges init ->
  forall sync pf fuel rs ls ds,
  let w := world (r_final (ad_run cf procs nloci nodes edges init maxtime adraws sync pf fuel rs ls ds)) in
  (with_disease cf = true -> has_comp (aw_st w))
  /\ (tracked_edges cf = true -> Inv (ac_tbl cf) (aw_st w))
  /\ Forall (fun sn => (with_disease cf = true -> has_comp (sn_st sn)) /\ (tracked_edges cf = true -> Inv (ac_tbl cf) (sn_st sn))) (aw_log w).
Proof. exact run_disease. Qed.

(* ---------- the sequence combination as documented (F11, known finding) ---------- *)
(* ProcessSequence{SIR, CompartmentedAddDelete} on the complete graph on four infected nodes, degree 2,
   one addition: node 5 is susceptible and joined to the infected nodes 0 and 1, yet the SI locus is
   empty - add reaches Process.addEdge, the disease never hears of the edges *)
Theorem C19_sequence_refuted :
  let r := f11_run false in
  let w := world (r_final r) in
  r_stuck r = false /\ r_events r = 1 /\ aw_stuck w = false /\ aw_raised w = false
  /\ map sn_kind (aw_log w) = [KAdd 5 [0; 1]]%Z
  /\ st_nodes (aw_st w) = [0; 1; 2; 3; 5]%Z
  /\ neighbours (aw_st w) 5%Z = [0; 1]%Z
  /\ map (getc (aw_st w)) [0; 1; 5]%Z = [Some 2; Some 2; Some 1]%Z
  /\ nth 0 (st_loci (aw_st w)) [] = []
  /\ nth 0 (loci (r_final r)) [] = []
  /\ truth (EdgeLocus 1 2) (aw_st w) = [E 5 0; E 5 1]%Z
  /\ ~ Inv sir_tbl (aw_st w).
Proof. exact f11_witness. Qed.

(* the repair proposed in fixes/F11 (the recipe also overrides addEdge and delegates it to the disease)
   is covered by C19_disease_consistent with ac_combo = Sequence true; on the witness: *)
Theorem C19_sequence_repaired_witness :
  let r := f11_run true in
  let w := world (r_final r) in
  r_stuck r = false /\ aw_stuck w = false /\ map sn_kind (aw_log w) = [KAdd 5 [0; 1]]%Z
  /\ nth 0 (st_loci (aw_st w)) [] = [E 5 0; E 5 1]%Z /\ nth 0 (loci (r_final r)) [] = [EE 5 0; EE 5 1]%Z.
Proof. exact f11_repaired. Qed.

(* ---------- non-vacuity ---------- *)
(* the hypotheses hold for the documented configurations; a synchronous run of the inheritance
   combination (path 0-1-2, node 1 infected, degree 1) with two infections, two removals, three
   additions and three deletions ends, not stuck, with nodes 4 5 6: 3 + 3 = 3 + 3 *)
Example C19_example_inherit :
  (cfg_ok (cfg_inherit 1)
   /\ (forall a, In a (concat (procs_inherit 1 (1 # 2) 1 1)) -> event_ok (cfg_inherit 1) a)
   /\ init_ok (cfg_inherit 1) 3 3 [0; 1; 2]%Z [(0, 1); (1, 2)]%Z [(0, 1); (1, 2); (2, 1)]%Z)
  /\ let w := world (r_final ex_inherit_run) in
     r_stuck ex_inherit_run = false /\ aw_stuck w = false /\ r_events ex_inherit_run = 10
     /\ count_adds (aw_log w) = 3 /\ count_deletes (aw_log w) = 3 /\ st_nodes (aw_st w) = [4; 5; 6]%Z
     /\ rev (map sn_kind (aw_log w)) =
        [KDisease 0 (EE 0 1); KDisease 0 (EE 2 1); KDisease 1 (EN 1); KAdd 4 [0]; KDelete 0;
         KDisease 1 (EN 2); KAdd 5 [2]; KDelete 2; KAdd 6 [1]; KDelete 1]%Z.
Proof. split; [exact ex_inherit_hyps|]. cbv zeta. repeat split; vm_compute; reflexivity. Qed.

Example C19_example_other_configurations : forall v c pi pr pa pd,
  (cfg_ok (cfg_alone c) /\ (forall a, In a (concat (procs_alone pa pd)) -> event_ok (cfg_alone c) a)
   /\ init_ok (cfg_alone c) 4 1 k4_nodes k4_edges [])
  /\ (cfg_ok (cfg_sequence v c) /\ (forall a, In a (concat (procs_sequence pi pr pa pd)) -> event_ok (cfg_sequence v c) a)
      /\ init_ok (cfg_sequence v c) 4 3 k4_nodes k4_edges k4_infected)
  /\ cfg_ok (cfg_inherit_rev c).
Proof. intros. split; [apply ex_alone_hyps|]. split; [apply ex_sequence_hyps | apply cfg_inherit_rev_ok]. Qed.
