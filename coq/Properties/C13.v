(* C13 - Newman-Ziff percolation reports true component sizes at every sample.
   Only statements here; every proof is [exact <lemma of Proofs/NewmanZiff*.v>].

   Vocabulary (Proofs/NewmanZiffUF.v, NewmanZiffQuery.v, NewmanZiffSampling.v, NewmanZiffMain.v):
     path a n r d        following parent entries of the array a from n reaches the root r in d steps
     occ a n             n is an occupied node (in range, entry is not the marker N+1)
     conn es x y         reflexive-symmetric-transitive closure of the edge list es
     UF a es             a is a union-find forest for (occupied nodes, es): every occupied node reaches a
                         root in fewer steps than the size stored there (acyclic; rootOf terminates within
                         fuel N), edge endpoints share their root, every node is connected to its root,
                         a root stores minus the number of nodes in its tree
     Inv s               UF (comp s) (wedges s), _gcc is the largest stored size, _ncomponents the number of roots
     class_size / largest_class / n_classes / size_spec
                         component sizes, largest component, number of components of a graph (V, es),
                         defined from conn only (no reference to the array)
     reports_true N o    what the sample o reports (largest component, number of components, component
                         size of each node 0..N-1) is true of the working network recorded in o
     least_reach k M p   k is the first number of occupations with k/M >= p (exact rationals)
     eeq es es'          the same set of undirected edges *)
From Coq Require Import List ZArith QArith Bool Arith Permutation Sorted.
From EpyV Require Import Lib.Prelude Model.Percolate Model.NewmanZiff.
From EpyV Require Import Proofs.NewmanZiffUF Proofs.NewmanZiffOcc Proofs.NewmanZiffQuery Proofs.NewmanZiffSampling Proofs.NewmanZiffMain.
Import ListNotations.
Local Open Scope nat_scope.

(* ---- the union-find invariant ---- *)

(* the classes of rootOf are exactly the connected components *)
Theorem C13_uf_classes : forall a es, UF a es -> forall n m r s d e,
  path a n r d -> path a m s e -> (r = s <-> conn es n m).
Proof. exact uf_classes. Qed.

(* rootOf (fuel N, path compression included) returns the root and keeps the invariant *)
Theorem C13_uf_inv_rootOf : forall a es n, UF a es -> occ a n ->
  exists a' r d, root a n = (a', r) /\ path a n r d /\ is_root a' r /\ UF a' es /\ length a' = length a.
Proof. exact root_preserves. Qed.

(* BondPercolation.setUp establishes it (N >= 1 nodes), occupy preserves it *)
Theorem C13_uf_init_bond : forall nodes, 1 <= length nodes -> Inv (init_bond nodes).
Proof. exact init_bond_Inv. Qed.

Theorem C13_uf_inv : forall s n m, Inv s -> occ (comp s) n -> occ (comp s) m ->
  let s' := occupy_bond s (n, m) in
  Inv s' /\ length (comp s') = length (comp s) /\ (forall x, occ (comp s') x <-> occ (comp s) x)
  /\ eeq (wedges s') ((n, m) :: wedges s) /\ wnodes s' = wnodes s /\ (gcc s <= gcc s')%Z.
Proof. exact occupy_bond_spec. Qed.

(* SitePercolation.setUp establishes it, occupy (node not yet occupied) preserves it together with
   "the working network is the sub-network induced by the occupied nodes" (SInv) *)
Theorem C13_uf_init_site : forall adj nodes, SInv adj (init_site nodes).
Proof. exact init_site_SInv. Qed.

Theorem C13_uf_inv_site : forall N adj s nr, adj_ok N adj -> SInv adj s -> length (comp s) = N -> nr < N -> ~ In nr (wnodes s) ->
  let s' := occupy_site adj s nr in
  SInv adj s' /\ length (comp s') = N /\ wnodes s' = wnodes s ++ [nr] /\ (gcc s <= gcc s')%Z.
Proof. exact occupy_site_spec. Qed.

(* ---- the queries report the true values ---- *)

Theorem C13_component_size : forall a es (V : nat -> Prop) n, UF a es -> (forall x, V x <-> occ a x) -> occ a n ->
  exists a' c, componentSize_bond a n = (a', c) /\ UF a' es /\ class_size V es n c.
Proof. exact componentSize_bond_true. Qed.

Theorem C13_component_size_site : forall a es (V : nat -> Prop) n, UF a es -> (forall x, V x <-> occ a x) -> n < length a ->
  exists a' c, componentSize_site a n = (a', c) /\ compr a a' /\ size_spec V es n c.
Proof. exact componentSize_site_spec. Qed.

Theorem C13_site_unoccupied : forall adj s n, SInv adj s -> n < length (comp s) -> ~ In n (wnodes s) ->
  componentSize_site (comp s) n = (comp s, 0%Z).
Proof. exact site_unoccupied_zero. Qed.

Theorem C13_gcc : forall s (V : nat -> Prop), Inv s -> (forall x, V x <-> occ (comp s) x) ->
  largest_class V (wedges s) (gcc s).
Proof. intros s V I HV. exact (gcc_true (comp s) (wedges s) V (inv_uf s I) HV (gcc s) (inv_gcc s I)). Qed.

Theorem C13_ncomponents : forall s (V : nat -> Prop), Inv s -> (forall x, V x <-> occ (comp s) x) ->
  n_classes V (wedges s) (ncomp s).
Proof. intros s V I HV. exact (nc_true (comp s) (wedges s) V (inv_uf s I) HV (ncomp s) (inv_nc s I)). Qed.

(* ---- the run: one sample per requested point, labelled with it, in order, each taken after the first k
   occupations with k/M >= p, each reporting the truth about the working network, which is the sub-network
   of the elements occupied so far; the series never decreases ---- *)

Theorem C13_samples : forall nodes es0 perm ps,
  nodes_ok nodes -> 1 <= length nodes -> Forall (valid_edge (length nodes)) es0 -> 1 <= length es0 ->
  is_perm perm (length es0) -> StronglySorted Qlt ps -> Forall (fun p => (0 <= p)%Q /\ (p <= 1)%Q) ps ->
  let es := apply_perm (0, 0) es0 perm in
  exists s' os n, do_bond nodes es0 perm ps = (s', os, n)
    /\ Permutation es es0
    /\ Forall2 (bond_sample_ok nodes es) ps os
    /\ map fst (series os) = ps
    /\ StronglySorted Z.le (map snd (series os)).
Proof. exact do_bond_samples. Qed.

Theorem C13_samples_site : forall adj nodes perm ps,
  nodes_ok nodes -> NoDup nodes -> 1 <= length nodes -> adj_ok (length nodes) adj ->
  is_perm perm (length nodes) -> StronglySorted Qlt ps -> Forall (fun p => (0 <= p)%Q /\ (p <= 1)%Q) ps ->
  let ns := apply_perm 0 nodes perm in
  exists s' os n, do_site nodes adj perm ps = (s', os, n)
    /\ Permutation ns nodes
    /\ Forall2 (site_sample_ok adj (length nodes) ns) ps os
    /\ map fst (series os) = ps
    /\ StronglySorted Z.le (map snd (series os)).
Proof. exact do_site_samples. Qed.

(* the GCC series of the results never decreases (for every input, no side conditions) *)
Theorem C13_monotone : forall nodes es0 perm ps s' os n, do_bond nodes es0 perm ps = (s', os, n) ->
  StronglySorted Z.le (map snd (series os)).
Proof. exact do_bond_monotone. Qed.

Theorem C13_monotone_site : forall nodes adj perm ps s' os n, do_site nodes adj perm ps = (s', os, n) ->
  StronglySorted Z.le (map snd (series os)).
Proof. exact do_site_monotone. Qed.

(* the working network seen by a sample is exactly the sub-network of the elements occupied so far *)
Theorem C13_working_network : forall nodes es p o, bond_sample_ok nodes es p o ->
  exists k, least_reach k (length es) p /\ o_wnodes o = nodes /\ eeq (o_wedges o) (firstn k es).
Proof. intros nodes es p o (_ & k & H1 & H2 & H3 & _). exists k. exact (conj H1 (conj H2 H3)). Qed.

Theorem C13_working_network_site : forall adj N ns p o, site_sample_ok adj N ns p o ->
  exists k, least_reach k (length ns) p /\ o_wnodes o = firstn k ns /\ induced adj (o_wnodes o) (o_wedges o).
Proof. intros adj N ns p o (_ & k & H1 & H2 & H3 & _). exists k. exact (conj H1 (conj H2 H3)). Qed.

(* requested point 0 (necessarily the first): the empty configuration *)
Theorem C13_first_empty : forall nodes es p o, nodes_ok nodes -> 1 <= length nodes -> bond_sample_ok nodes es p o -> (p == 0)%Q ->
  o_wnodes o = nodes /\ o_wedges o = [] /\ o_gcc o = 1%Z.
Proof. exact bond_first_empty. Qed.

Theorem C13_first_empty_site : forall adj N ns p o, site_sample_ok adj N ns p o -> (p == 0)%Q ->
  o_wnodes o = [] /\ o_wedges o = [] /\ o_gcc o = 0%Z /\ o_ncomp o = 0%Z.
Proof. exact site_first_empty. Qed.

(* requested point 1 (necessarily the last): the complete network (and, by reports_true, its largest component) *)
Theorem C13_last_complete : forall nodes es p o, 1 <= length es -> bond_sample_ok nodes es p o -> (p == 1)%Q ->
  o_wnodes o = nodes /\ eeq (o_wedges o) es.
Proof. exact bond_last_complete. Qed.

Theorem C13_last_complete_site : forall adj N ns p o, 1 <= length ns -> site_sample_ok adj N ns p o -> (p == 1)%Q ->
  o_wnodes o = ns /\ induced adj ns (o_wedges o).
Proof. exact site_last_complete. Qed.

(* the sampling rule alone, for any state, occupation and sample functions (also the library's own sample()) *)
Theorem C13_sampling_rule : forall (St El Ob : Type) (occupy : St -> El -> St) (sample : Q -> St -> St * Ob)
  (all : list El) (R : list El -> St -> Prop),
  (forall pre e post s, all = pre ++ e :: post -> R pre s -> R (pre ++ [e]) (occupy s e)) ->
  (forall pre p s, R pre s -> R pre (fst (sample p s))) ->
  1 <= length all ->
  forall ps s0, R [] s0 -> StronglySorted Qlt ps -> Forall (fun p => (0 <= p)%Q /\ (p <= 1)%Q) ps ->
  exists s' os n, percolate occupy sample all ps s0 = (s', os, n)
    /\ Forall2 (taken sample all R) ps os /\ R (firstn n all) s' /\ n <= length all
    /\ (forall p, In p ps -> exists k, least_reach k (length all) p /\ k <= n).
Proof. exact @percolate_spec. Qed.

(* ---- non-vacuity: a triangle with a pendant edge, a non-trivial shuffle, points 0, 1/2, 1 ---- *)
Example C13_example :
  let nodes := [0; 1; 2; 3] in let es0 := [(0, 1); (1, 2); (0, 2); (2, 3)] in let perm := [2; 0; 3; 1] in
  let ps := [0; 1 # 2; 1]%Q in
  nodes_ok nodes /\ Forall (valid_edge (length nodes)) es0 /\ is_perm perm (length es0)
  /\ StronglySorted Qlt ps /\ Forall (fun p => (0 <= p)%Q /\ (p <= 1)%Q) ps
  /\ Inv (init_bond nodes)
  /\ (let '(_, os, n) := do_bond nodes es0 perm ps in (series os, map o_ncomp os, map o_sizes os, n))
     = ([(0, 1%Z); (1 # 2, 3%Z); (1, 4%Z)]%Q, [4; 2; 1]%Z, [[1; 1; 1; 1]; [3; 3; 3; 1]; [4; 4; 4; 4]]%Z, 4).
Proof. exact example_bond. Qed.

Example C13_example_site :
  let nodes := [0; 1; 2; 3] in let adj := fun n => nth n [[1; 2]; [0; 2]; [1; 0; 3]; [2]] [] in let perm := [3; 0; 2; 1] in
  let ps := [1 # 4; 3 # 4]%Q in
  nodes_ok nodes /\ NoDup nodes /\ adj_ok (length nodes) adj /\ is_perm perm (length nodes)
  /\ StronglySorted Qlt ps /\ Forall (fun p => (0 <= p)%Q /\ (p <= 1)%Q) ps
  /\ (let '(_, os, n) := do_site nodes adj perm ps in (series os, map o_ncomp os, map o_sizes os, map o_wnodes os, n))
     = ([(1 # 4, 1%Z); (3 # 4, 3%Z)]%Q, [1; 1]%Z, [[0; 0; 0; 1]; [3; 0; 3; 3]]%Z, [[3]; [3; 0; 2]], 3).
Proof. exact example_site. Qed.
