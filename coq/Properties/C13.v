(* C13 - placeholder while the development is in progress *)
From Coq Require Import List ZArith.
From EpyV Require Import Model.NewmanZiff.
Import ListNotations.
Example C13_placeholder : get [(-1)%Z] 0 = (-1)%Z.
Proof. reflexivity. Qed.
