(* C10 - every run starts from a clean slate and prototypes are never modified.
   Only statements here; every proof is glue over Proofs/Lifecycle.v. *)
From Coq Require Import List ZArith QArith Bool Arith String.
From EpyV Require Import Model.Kernel Model.Lifecycle Proofs.Lifecycle.
Import ListNotations.
Close Scope Q_scope.
Open Scope list_scope.

(* set-up overwrites every per-run field from constants, the parameters, the fresh network and
   the run's random source: from ANY two states (of experiment objects around the same prototype
   value, with the same quota status) it raises or not alike and leaves the same per-run state *)
Theorem C10_fresh : forall (G W P : Type) (u : user G W P) (g0 : G) (i : nat) (params : P) (s s' : state G W P),
  Inv G W P g0 s -> Inv G W P g0 s' -> can_generate G W P s = can_generate G W P s' ->
  snd (setup u i params None s) = snd (setup u i params None s')
  /\ view_of (fst (setup u i params None s)) = view_of (fst (setup u i params None s')).
Proof. intros G W P u g0 i params s s'. apply fresh. Qed.

(* for every list of earlier runs - any parameters, completed, cut short, or failed at any step
   with whatever the failing user code did before raising - the next run reaches
   simulationStarted (if the generator may still generate) in the state F(parameters, prototype
   value, its own random source): clock 0, id counter and queue holding only what this run's
   build and set-up posted, loci mirroring only the new network, a fresh copy of the prototype *)
Theorem C10_history : forall (G W P : Type) (u : user G W P) (g0 : G) (limit : option nat)
                             (h : list (P * outcome)) (params : P),
  let s := run_all u 0 h (initial u g0 limit) in
  can_generate G W P s = true ->
  exists s1, at_started u (List.length h) params s = Some s1 /\ view_of s1 = F u (List.length h) params g0.
Proof. intros G W P u g0 limit h params. apply history. Qed.

(* with an unbounded generator the side condition holds by itself *)
Theorem C10_history_unbounded : forall (G W P : Type) (u : user G W P) (g0 : G) (h : list (P * outcome)) (params : P),
  exists s1, at_started u (List.length h) params (run_all u 0 h (initial u g0 None)) = Some s1
             /\ view_of s1 = F u (List.length h) params g0.
Proof.
  intros G W P u g0 h params. apply history.
  unfold can_generate. rewrite run_all_unbounded; reflexivity.
Qed.

(* the prototype network holds the value it was constructed with after any history, and the
   working network is always another object *)
Theorem C10_prototype : forall (G W P : Type) (u : user G W P) (g0 : G) (limit : option nat) (h : list (P * outcome)),
  let s := run_all u 0 h (initial u g0 limit) in
  h_get (s_proto s) (s_heap s) = Some g0 /\ s_proto s = 0
  /\ match s_graph s with Some a => a <> s_proto s | None => True end.
Proof. intros G W P u g0 limit h. apply prototype_unchanged. Qed.

(* a generator created with a limit hands out at most that many networks in total *)
Theorem C10_quota : forall (G W P : Type) (u : user G W P) (g0 : G) (L : nat) (h : list (P * outcome)),
  s_generated (run_all u 0 h (initial u g0 (Some L))) <= L.
Proof. intros G W P u g0 L h. apply quota_total. Qed.

(* the protocol of one run: tear-down after a completed and after a failing do(), not after a
   failing set-up; the queue is empty whenever tear-down ran; the status flag *)
Theorem C10_protocol : forall (G W P : Type) (u : user G W P) (g0 : G) (i : nat) (params : P) (o : outcome) (s : state G W P),
  Inv G W P g0 s -> can_generate G W P s = true ->
  let s' := fst (run_once u i params o s) in
  let failed := snd (run_once u i params o s) in
  match o with
  | Ok => failed = false /\ s_status s' = Some true /\ queue (s_k s') = []
          /\ calls_of G W P s s' [TSetUp; TGenerate true; TReset; TBuild; TProcSetUp; TStarted; TResults; TEnded; TProcTearDown; TTornDown]
  | FailAt FGenerate => failed = true /\ s_status s' = Some false /\ calls_of G W P s s' [TSetUp]
  | FailAt FReset => failed = true /\ s_status s' = Some false /\ calls_of G W P s s' [TSetUp; TGenerate true; TReset]
  | FailAt FBuild => failed = true /\ s_status s' = Some false /\ calls_of G W P s s' [TSetUp; TGenerate true; TReset; TBuild]
  | FailAt FProcSetUp => failed = true /\ s_status s' = Some false
                         /\ calls_of G W P s s' [TSetUp; TGenerate true; TReset; TBuild; TProcSetUp]
  | FailAt (FEvent _) => failed = true /\ s_status s' = Some false /\ queue (s_k s') = []
                         /\ calls_of G W P s s' [TSetUp; TGenerate true; TReset; TBuild; TProcSetUp; TStarted; TProcTearDown; TTornDown]
  | FailAt FResults => failed = true /\ s_status s' = Some false /\ queue (s_k s') = []
                       /\ calls_of G W P s s' [TSetUp; TGenerate true; TReset; TBuild; TProcSetUp; TStarted; TResults; TProcTearDown; TTornDown]
  | FailAt FProcTearDown => failed = true /\ s_status s' = Some false
                            /\ calls_of G W P s s' [TSetUp; TGenerate true; TReset; TBuild; TProcSetUp; TStarted; TResults; TEnded; TProcTearDown]
  end.
Proof. intros G W P u g0 i params o s HI Hq. exact (protocol G W P u g0 i params o s HI Hq). Qed.

(* ------------------------------------------------------------------ non-vacuity *)
(* a network is (nodes, edges); one process with a locus, an event and a set-up that posts; a
   do() that posts more events, empties the locus and deletes the edges of the working network *)
Definition ex_net : Type := (list Z * list (Z * Z))%type.
Definition ex_table (p : nat) (g : ex_net) : table unit :=
  {| t_maxtime := 2%Q; t_loci := [(0, map EN (fst g))];
     t_procs := [ {| p_events := [ {| ev_elem := true; ev_locus := 0; ev_p := (1#2)%Q; ev_prog := 0 |} ];
                     p_setup := [APost (inject_Z (Z.of_nat p)) 0; APost (1#2)%Q 0] |} ];
     t_progs := [static []]; t_world := tt; t_equil := fun _ _ => false |}.
Definition ex_mess (x : st unit * ex_net) : st unit * ex_net :=
  let k := fst x in
  ({| clock := 7%Q; nextid := 40; queue := [ {| e_time := 9%Q; e_id := 39; e_live := true; e_proc := 0; e_elem := EN 0; e_prog := 0; e_rep := None |} ];
      loci := []; world := tt; ids := [39]; out := []; rands := []; lns := []; draws := []; stuck := true |},
   (fst (snd x), [])).
Definition ex_user : user ex_net unit nat :=
  {| u_world := tt; u_table := ex_table; u_decorate := fun _ g => g;
     u_oracle := fun i => ([inject_Z (Z.of_nat i)], [], []);
     u_partial := fun _ _ => ex_mess; u_body := fun _ _ => ex_mess |}.
Definition ex_proto : ex_net := ([0; 1; 2]%Z, [(0, 1); (1, 2)]%Z).
Definition ex_history : list (nat * outcome) :=
  [(1, Ok); (2, FailAt (FEvent 3)); (3, FailAt FBuild); (1, FailAt FProcSetUp); (2, FailAt FGenerate); (0, FailAt FResults)].

Example C10_example :
  let s := run_all ex_user 0 ex_history (initial ex_user ex_proto (Some 7)) in
  can_generate _ _ _ s = true
  /\ s_generated s = 5 /\ s_remaining s = Some 1
  /\ h_get 0 (s_heap s) = Some ex_proto
  /\ option_map (fun s1 => (v_net (view_of s1), clock (s_k s1), nextid (s_k s1),
                            map (fun e => (e_time e, e_id e)) (queue (s_k s1)), loci (s_k s1)))
                (at_started ex_user 6 5 s)
     = Some (Some ex_proto, 0%Q, 2, [((1#2)%Q, 1); (5%Q, 0)], [[EN 0; EN 1; EN 2]]%Z)
  /\ option_map view_of (at_started ex_user 6 5 s) = Some (F ex_user 6 5 ex_proto).
Proof. vm_compute. repeat split; reflexivity. Qed.
