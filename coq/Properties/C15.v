(* C15 - stub, being written *)
From Coq Require Import List ZArith.
From EpyV Require Import Lib.Prelude Model.Shuffle Model.Generators.
