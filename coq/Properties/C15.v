(* C15 - network generators deliver the structures they promise: the part that is the repository's own logic.
   Only statements here; every proof is [exact <lemma of Proofs/Generators*.v>] or short glue.
   PARTIAL: the clauses that are facts about networkx's generators (ER/BA: exactly N nodes, no parallel edges, no
   self-loops; configuration_model: a node's degree is at most its stub count; connected_components returns the
   connected components) are not theorems: they appear as hypotheses (the [conn ... (induced ...)] contracts below)
   or are checked on every generated sample by the direct oracle of harness/c15.py. *)
From Coq Require Import List ZArith QArith Bool Arith Lia.
From EpyV Require Import Lib.Prelude Model.Shuffle Model.Generators Proofs.Shuffle Proofs.Generators Proofs.GeneratorsAssembly.
Import ListNotations.
Local Open Scope nat_scope.

(* ---- NetworkGenerator: limit and parameters (generator.py) *)

(* a generator with limit L answers its first L requests with a network and every later one with None
   (generate) / StopIteration (__next__); without a limit it always answers; set() and mutations of the caller's
   dict do not count.  For every program of set / mutate / generate / next and every starting state. *)
Theorem C15_quota : forall s ops,
  map is_graph (q_run s ops) =
    match q_rem s with
    | None => repeat true (gens ops)
    | Some L => repeat true (Nat.min L (gens ops)) ++ repeat false (gens ops - L)
    end
  /\ Forall2 (fun o out => match out with ONone => o = QGen | OStop => o = QNext | OGraph _ => True end)
             (filter is_gen ops) (q_run s ops).
Proof. intros s ops. split; [rewrite q_run_answers; apply answers_spec | apply q_run_kind]. Qed.

(* once set() has been called the networks are generated from the caller's dict as it was at the most recent
   set(): later mutations of that dict are not seen ([snaps] has no notion of aliasing) *)
Theorem C15_params_copy : forall s ops,
  graph_params (q_run (fst (q_step s QSet)) ops)
  = firstn (budget (q_rem s) ops) (snaps (q_caller s) (q_caller s) ops).
Proof. intros s ops. rewrite q_run_params by reflexivity. reflexivity. Qed.

(* the same for a generator whose parameters are its own object (every state reached after a set) *)
Theorem C15_params_copy_own : forall s ops, q_alias s = false ->
  graph_params (q_run s ops) = firstn (budget (q_rem s) ops) (snaps (q_own s) (q_caller s) ops).
Proof. exact q_run_params. Qed.

(* FixedNetwork: every network handed out equals the prototype, and the limit is respected *)
Theorem C15_fixed_copy : forall proto limit ops,
  (forall g, In (Some g) (fixed_outputs proto limit ops) -> g = proto)
  /\ map (fun o => match o with Some _ => true | None => false end) (fixed_outputs proto limit ops)
     = match limit with
       | None => repeat true (gens ops)
       | Some L => repeat true (Nat.min L (gens ops)) ++ repeat false (gens ops - L)
       end.
Proof. intros proto limit ops. split; [apply fixed_all_equal | rewrite fixed_answers; apply answers_spec]. Qed.

(* ---- PLC: the degree sequence handed to the configuration model (plc_generator.py:78-123) *)

(* whenever the loop ends, for every model function p and every sequence of draws with rng.integers(1, 100) in
   1..99: N degrees, each in 1..99, with an even sum *)
Theorem C15_plc_degree_bound : forall p N evs ns rest, Forall ev_ok evs -> plc_degrees p N evs = Some (ns, rest) ->
  Forall (fun k => 1 <= k <= 99) ns /\ length ns = N /\ Nat.even (total ns) = true.
Proof. exact plc_degrees_spec. Qed.

(* ---- core-periphery (coreperiphery_generator.py:92-131) *)

(* the nodes are 0..n-1 in this order and every edge joins two of them *)
Theorem C15_cp_labels : forall i, NoDup (cp_order i) ->
  let g := cp_generate i in let n := length (cp_order i) in
  map v_label (g_nodes g) = zseq 0 n /\
  forall e, In e (g_edges g) -> In (fst e) (zseq 0 n) /\ In (snd e) (zseq 0 n).
Proof. intros i Hn. split; [exact (cp_nodes_labels i Hn) | exact (cp_edges_closed i)]. Qed.

(* every node is marked core (0) or periphery (1); the extractor functions return exactly the nodes with that mark;
   node j carries the mark of the node of the composed network it was renumbered from (core iff label < N_core) *)
Theorem C15_cp_origin : forall i,
  let g := cp_generate i in
  (forall v, In v (g_nodes g) -> v_origin v = 0%Z \/ v_origin v = 1%Z)
  /\ (forall o l, In l (nodes_of_origin g o) <-> exists v, In v (g_nodes g) /\ v_label v = l /\ v_origin v = o)
  /\ (NoDup (cp_order i) -> forall j, j < length (cp_order i) ->
        nth j (g_nodes g) (0%Z, 0%Z, false) = (Z.of_nat j, cp_origin (cp_Nc i) (nth j (cp_order i) 0%Z), false)).
Proof.
  intros i. split; [exact (cp_origin_01 i)|]. split; [exact (nodes_of_origin_spec (cp_generate i))|].
  intros Hn j Hj. exact (cp_node_nth i j Hn Hj).
Qed.

(* connected, given the contract of connected_components: the component that was kept is connected *)
Theorem C15_cp_connected : forall i,
  conn (induced (cp_all_edges i) (cp_order i)) (cp_order i) ->
  conn (g_edges (cp_generate i)) (map v_label (g_nodes (cp_generate i))).
Proof. exact cp_connected. Qed.

(* ---- modular (modular_generator.py:97-146) *)

(* each satellite k is joined to the centre by exactly one edge (n, m), the k-th link; no other edge of the
   network joins satellite k to the centre *)
Theorem C15_mod_one_link : forall i, mod_wf i -> forall k, k < length (md_sats i) ->
  exists n m, in_sat (md_Nc i) (md_Ns i) k n /\ in_centre (md_Nc i) m /\ In (n, m) (mod_links i) /\
    has_edge (g_edges (mod_generate i)) n m = true /\
    forall x y, has_edge (g_edges (mod_generate i)) x y = true ->
                in_sat (md_Nc i) (md_Ns i) k x -> in_centre (md_Nc i) y -> x = n /\ y = m.
Proof. exact mod_one_link. Qed.

(* no edge joins two different satellites *)
Theorem C15_mod_no_satellite_edge : forall i x y k k', mod_wf i -> has_edge (g_edges (mod_generate i)) x y = true ->
  in_sat (md_Nc i) (md_Ns i) k x -> in_sat (md_Nc i) (md_Ns i) k' y -> k = k'.
Proof. exact mod_no_sat_sat. Qed.

(* the endpoints of the links, and only those, carry the core-link flag *)
Theorem C15_mod_flags : forall i v, In v (g_nodes (mod_generate i)) ->
  (v_flag v = true <-> exists l, In l (mod_links i) /\ (fst l = v_label v \/ snd l = v_label v)).
Proof. exact mod_flags. Qed.

(* the origin mark is 0 on the centre's block of labels and k+1 on satellite k's block *)
Theorem C15_mod_origin : forall i v, mod_wf i -> In v (g_nodes (mod_generate i)) ->
  (v_origin v = 0%Z /\ in_centre (md_Nc i) (v_label v))
  \/ exists k, k < length (md_sats i) /\ v_origin v = Z.of_nat (S k) /\ in_sat (md_Nc i) (md_Ns i) k (v_label v).
Proof. exact mod_origin_blocks. Qed.

(* every module is connected within the result, given the contract of connected_components *)
Theorem C15_mod_modules_connected : forall i,
  (conn (induced (m_edges (md_centre i)) (m_order (md_centre i))) (m_order (md_centre i)) -> NoDup (m_order (md_centre i)) ->
   conn (g_edges (mod_generate i)) (mod_centre_nodes i))
  /\ forall k m, nth_error (md_sats i) k = Some m ->
       conn (induced (m_edges m) (m_order m)) (m_order m) -> NoDup (m_order m) ->
       conn (g_edges (mod_generate i)) (module_nodes (md_Ns i) m (sat_offset (md_Nc i) (md_Ns i) k)).
Proof. exact mod_modules_connected. Qed.

(* ---- non-vacuity *)

(* quota and copying: constructor dict [1;2], limit 2; set, mutate, generate, next, generate *)
Example C15_example_quota :
  q_run (q_init true [1; 2]%Z (Some 2)) [QSet; QMutate 0 9%Z; QGen; QNext; QGen]
  = [OGraph [1; 2]%Z; OGraph [1; 2]%Z; ONone].
Proof. reflexivity. Qed.

(* PLC: a rejected draw, an odd sum repaired twice *)
Example C15_example_plc :
  let evs := [PK 1 (3#4); PK 1 (1#4); PK 2 (1#4); PIdx 0; PK 1 0; PIdx 0; PK 1 0] in
  Forall ev_ok evs /\ plc_degrees (ptab [1#2; 1#2]) 2 evs = Some ([1; 1], []).
Proof. cbv zeta. split; [repeat constructor; unfold deg_ok; lia | reflexivity]. Qed.

(* core-periphery: one core node, two periphery nodes, one cross link; the hypotheses hold and the result is the edge 0-1 *)
Example C15_example_cp :
  let i := {| cp_Nc := 1; cp_Np := 2; cp_core := []; cp_per := []; cp_phi := 1#4; cp_rs := [1#4; 1#2];
              cp_comps := [[0; 1]; [2]]%Z; cp_order := [0; 1]%Z |} in
  NoDup (cp_order i) /\ conn (induced (cp_all_edges i) (cp_order i)) (cp_order i) /\
  cp_generate i = {| g_nodes := [(0, 0, false); (1, 1, false)]%Z; g_edges := [(0, 1)]%Z |}.
Proof.
  cbv zeta. split; [|split; [|reflexivity]].
  - repeat constructor; cbn; intuition discriminate.
  - assert (E : has_edge (induced (cp_all_edges {| cp_Nc := 1; cp_Np := 2; cp_core := []; cp_per := []; cp_phi := 1#4; cp_rs := [1#4; 1#2];
              cp_comps := [[0; 1]; [2]]%Z; cp_order := [0; 1]%Z |}) [0; 1]%Z) 0 1 = true) by reflexivity.
    intros x y Hx Hy. cbn in Hx, Hy.
    destruct Hx as [<-|[<-|[]]], Hy as [<-|[<-|[]]].
    + constructor.
    + eapply path_step; [exact E | constructor].
    + eapply path_step; [rewrite has_edge_sym; exact E | constructor].
    + constructor.
Qed.

(* modular: a centre of two nodes, one satellite whose largest component is a single node, linked 2-1 *)
Example C15_example_mod :
  let i := {| md_Nc := 2; md_Ns := 2;
              md_centre := {| m_edges := [(0, 1)]%Z; m_comps := [[0; 1]]%Z; m_order := [0; 1]%Z |};
              md_sats := [{| m_edges := []; m_comps := [[0]; [1]]%Z; m_order := [0]%Z |}];
              md_choices := [(1, 0)] |} in
  mod_wf i /\
  mod_generate i = {| g_nodes := [(0, 0, false); (1, 0, true); (2, 1, true)]%Z; g_edges := [(0, 1); (2, 1)]%Z |}.
Proof.
  cbv zeta. split; [|reflexivity].
  constructor; cbn; [lia | repeat constructor; cbn; lia | lia].
Qed.
