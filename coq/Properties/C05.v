(* C05 - event functions are only invoked on live members of their locus.
   Statements only; proofs are in Proofs/KernelMember.v and Proofs/KernelSync.v.
   Everything is for every world type W, every table (arbitrary user programs), every oracle
   and every fuel.  A record [OHandler prog t clock e (Some m)] is written by the model at the
   instant a stochastic / per-element event function is entered; m is the outcome of the test
   [e in locus] on the registered locus at that instant (Model/Kernel.v, fire_event). *)
From Coq Require Import List ZArith QArith Bool Arith.
From EpyV Require Import Model.Kernel Proofs.KernelMember Proofs.KernelSync.
Import ListNotations.
Open Scope Q_scope.

(* ---------------------------------------------------------------- C05_member *)
(* Gillespie dynamics: the element is drawn from the live locus, read after the posted events ran *)
Theorem C05_member_stoch : forall W (tb : table W) pf fuel rs ls ds k t c e m,
  In (OHandler k t c e (Some m)) (r_out (stoch_run tb pf fuel rs ls ds)) -> m = true.
Proof.
  intros W tb pf fuel rs ls ds k t c e m H.
  assert (R := proj1 (Forall_forall _ _) (stoch_run_member tb pf fuel rs ls ds) _ H).
  destruct R as [R|R]; [discriminate | inversion R; reflexivity].
Qed.

(* synchronous dynamics: because of the re-check in the loop over the tranche *)
Theorem C05_member_sync : forall W (tb : table W) pf fuel rs ds k t c e m,
  In (OHandler k t c e (Some m)) (r_out (sync_run tb pf fuel rs ds)) -> m = true.
Proof.
  intros W tb pf fuel rs ds k t c e m H.
  exact (run_rec_member tb k t c e m (proj1 (Forall_forall _ _) (sync_run_records tb pf fuel rs ds) _ H)).
Qed.

(* the same fact where it is established: one Gillespie iteration is selection (stoch_select),
   the posted events, then stoch_fire on the state s5 they left; a non-empty locus yields a call
   on one of its current members and consumes exactly one rank *)
Theorem C05_stoch_iteration : forall W (tb : table W) pf f t events s,
  stoch_loop tb pf (S f) t events s =
  if at_equil tb t s then (t, events, s)
  else if Qeq_bool (sum_rates s (transitions tb)) 0 then
    match next_pending_time s with
    | (None, s') => (t, events, s')
    | (Some et, s') => let '(n, s'') := run_pending tb pf et 0 s' in stoch_loop tb pf f et (events + n) s''
    end
  else
    match stoch_select tb s with
    | None => (t, events, set_stuck s)
    | Some (x, dt, s3) =>
        let nt := Qred (t + dt) in
        let '(n, s4) := run_pending tb pf nt 0 s3 in
        let '(ev', s6) := stoch_fire tb x nt (events + n) (set_clock nt s4) in
        stoch_loop tb pf f nt ev' s6
    end.
Proof. exact (@stoch_loop_S). Qed.

Theorem C05_stoch_fire_member : forall W (tb : table W) x nt ev (s5 : st W),
  locus s5 (ev_locus (snd x)) <> [] ->
  exists e, In e (locus s5 (ev_locus (snd x))) /\
    stoch_fire tb x nt ev s5 = (S ev, fire_event tb x nt e (advance 0 0 1 s5)).
Proof. exact (@stoch_fire_member). Qed.

(* ---------------------------------------------------------------- C05_sync_skip *)
(* a selected element that has left its locus when its turn comes: no record, no count, state
   untouched, and the rest of the tranche proceeds *)
Theorem C05_sync_skip : forall W (tb : table W) t x e evs nev (s : st W),
  mem e (locus s (ev_locus (snd x))) = false ->
  fire_tranche tb t ((x, e) :: evs) nev s = fire_tranche tb t evs nev s.
Proof. exact (@fire_tranche_skip). Qed.

Theorem C05_sync_fire : forall W (tb : table W) t x e evs nev (s : st W),
  mem e (locus s (ev_locus (snd x))) = true ->
  fire_tranche tb t ((x, e) :: evs) nev s = fire_tranche tb t evs (S nev) (fire_event tb x t e s).
Proof. exact (@fire_tranche_fire). Qed.

(* over a whole tranche: every record is of the tranche class (handlers have member = true,
   time t, clock t) and the count grows by exactly the number of event functions entered *)
Theorem C05_sync_tranche_count : forall W (tb : table W) t evs nev (s : st W),
  clock s = t -> Forall (sel_ok tb) evs ->
  exists l, out (snd (fire_tranche tb t evs nev s)) = l ++ out s /\
            Forall (tranche_rec tb t) l /\
            fst (fire_tranche tb t evs nev s) = (nev + nfired l)%nat.
Proof. intros W tb t evs nev s Hc Hs. exact (proj2 (fire_tranche_spec tb t evs nev s Hc Hs)). Qed.

(* ---------------------------------------------------------------- C05_zero_never *)
(* synchronous: allEventsInTimestep only selects registered events of positive probability, on
   members of the locus as it stood at that call *)
Theorem C05_zero_never_sync_select : forall W (tb : table W) (s : st W) x e,
  In (x, e) (fst (tranche tb s)) ->
  In x (all_events tb) /\ 0 < ev_p (snd x) /\ mem e (locus s (ev_locus (snd x))) = true.
Proof. exact (@tranche_member). Qed.

(* ... so an event registered with probability zero never fires in a synchronous run *)
Theorem C05_zero_never_sync : forall W (tb : table W) pf fuel rs ds pi j ev t e,
  In (pi, j, ev) (all_events tb) -> ev_p ev == 0 ->
  ~ In (OTap t pi (NEv pi j) e) (r_out (sync_run tb pf fuel rs ds)).
Proof.
  intros W tb pf fuel rs ds pi j ev t e Hin Hz H.
  exact (run_rec_zero tb t pi j e ev Hin Hz (proj1 (Forall_forall _ _) (sync_run_records tb pf fuel rs ds) _ H)).
Qed.

(* Gillespie: the inverse-CDF scan.  With xs the running prefix sum, [select] returns the first
   x whose interval [xs + sum before, xs + sum before + rate x) contains xc *)
Theorem C05_select_interval : forall A (f : A -> Q) xc l xs cur, xs <= xc -> xc < xs + qsum f l ->
  exists l1 x l2, l = l1 ++ x :: l2 /\ select f xc xs cur l = x /\
    xs + qsum f l1 <= xc /\ xc < xs + qsum f l1 + f x /\
    (forall l1' y l1'', l1 = l1' ++ y :: l1'' -> xs + qsum f l1' + f y <= xc).
Proof. exact select_spec. Qed.

(* hence, for 0 <= xc < total, the chosen transition has a positive rate *)
Theorem C05_select_positive : forall A (f : A -> Q) xc l cur, 0 <= xc -> xc < qsum f l ->
  In (select f xc 0 cur l) l /\ 0 < f (select f xc 0 cur l).
Proof. exact select_pos. Qed.

(* in the loop: with probabilities >= 0 and uniform variates in [0,1), whenever the total rate is
   non-zero the chosen transition has positive probability (and positive rate: for a per-element
   event its locus is non-empty at selection time) *)
Theorem C05_zero_never_stoch_select : forall W (tb : table W) (s : st W) x dt s3,
  nonneg_table tb -> Forall unit_rand (rands s) ->
  Qeq_bool (sum_rates s (transitions tb)) 0 = false ->
  stoch_select tb s = Some (x, dt, s3) ->
  In x (all_events tb) /\ 0 < ev_p (snd x) /\ 0 < rate s x.
Proof.
  intros W tb s x dt s3 Hnn Hr Ha E.
  destruct (stoch_select_pos tb s x dt s3 Hnn Hr Ha E) as (h1 & h2 & h3 & _). repeat split; assumption.
Qed.

(* ... so an event registered with probability zero never fires in a Gillespie run *)
Theorem C05_zero_never_stoch : forall W (tb : table W) pf fuel rs ls ds pi j ev t e,
  nonneg_table tb -> Forall unit_rand rs ->
  In (pi, j, ev) (all_events tb) -> ev_p ev == 0 ->
  ~ In (OTap t pi (NEv pi j) e) (r_out (stoch_run tb pf fuel rs ls ds)).
Proof.
  intros W tb pf fuel rs ls ds pi j ev t e Hnn Hr Hin Hz H.
  exact (run_rec_zero tb t pi j e ev Hin Hz (proj1 (Forall_forall _ _) (stoch_run_positive tb Hnn pf fuel rs ls ds Hr) _ H)).
Qed.

(* ---------------------------------------------------------------- C05_empty_never *)
(* synchronous: an event whose locus is empty (or whose probability is <= 0) when
   allEventsInTimestep runs is passed over: nothing selected, no variate or rank consumed *)
Theorem C05_empty_never_sync : forall W (tb : table W) x evs (s : st W),
  locus s (ev_locus (snd x)) = [] ->
  tranche_elem (x :: evs) s = tranche_elem evs s /\ tranche_fixed (x :: evs) s = tranche_fixed evs s /\
  forall e, ~ In (x, e) (fst (tranche tb s)).
Proof.
  intros W tb x evs s H.
  assert (Ha : active (loci s) x = false) by (apply inactive_iff; left; exact H).
  split; [exact (tranche_elem_inactive x evs s Ha)|]. split; [exact (tranche_fixed_inactive x evs s Ha)|].
  intros e. rewrite tranche_spec. exact (spec_tranche_inactive tb _ _ _ x e Ha).
Qed.

(* Gillespie: a chosen event whose locus is empty when its turn comes (after the posted events)
   is not fired: no rank drawn, no record, event count unchanged *)
Theorem C05_empty_never_stoch : forall W (tb : table W) x nt ev (s5 : st W),
  locus s5 (ev_locus (snd x)) = [] -> stoch_fire tb x nt ev s5 = (ev, s5).
Proof. exact (@stoch_fire_empty). Qed.

(* ---------------------------------------------------------------- non-vacuity *)
(* locus 0 = {1,2,3}, locus 1 empty.  Event (0,0): per element, p = 1, its handler removes
   element 2 and the element itself.  Event (0,1): p = 0.  Event (0,2): fixed rate on the empty
   locus.  A posted event at 1/2 observes the locus sizes. *)
Definition ex_tb (maxt : Q) : table unit :=
  {| t_maxtime := maxt; t_loci := [(0%nat, [EN 1; EN 2; EN 3]); (0%nat, [])];
     t_procs := [{| p_events := [ {| ev_elem := true; ev_locus := 0; ev_p := 1; ev_prog := 0 |};
                                  {| ev_elem := true; ev_locus := 0; ev_p := 0; ev_prog := 1 |};
                                  {| ev_elem := false; ev_locus := 1; ev_p := 1; ev_prog := 1 |} ];
                    p_setup := [APost (1#2) 2%nat] |}];
     t_progs := [static [ALDiscard 0 (EN 2); ALDiscardSelf 0]; static []; static [AObserve]];
     t_world := tt; t_equil := fun _ _ => false |}.

(* synchronous, one step: 1, 2, 3 are all selected; firing on 1 removes 2, which is then skipped *)
Example C05_example_sync :
  let r := sync_run (ex_tb 2) 10 10 [1#2; 1#2; 1#2] [] in
  r_out r = [OPosted 0 (1 # 2); OHandler 2 (1 # 2) (1 # 2) (EN 0) None;
             OObserve (1 # 2) [3%nat; 0%nat]; OTap (1 # 2) 0 (NPost 2) (EN 0);
             OHandler 0 1 1 (EN 1) (Some true); OTap 1 0 (NEv 0 0) (EN 1);
             OHandler 0 1 1 (EN 3) (Some true); OTap 1 0 (NEv 0 0) (EN 3)] /\
  r_events r = 3%nat /\ r_stuck r = false /\ nonneg_table (ex_tb 2).
Proof.
  cbv zeta. split; [vm_compute; reflexivity|]. split; [vm_compute; reflexivity|]. split; [vm_compute; reflexivity|].
  intros x Hx. vm_compute in Hx. destruct Hx as [<-|[<-|[<-|[]]]]; vm_compute; discriminate.
Qed.

(* Gillespie, two iterations: the first fires (0,0) on the drawn member 2; in the second the scan
   passes the zero-rate event (0,1) and lands on (0,2), whose locus is empty: nothing fires *)
Example C05_example_stoch :
  let r := stoch_run (ex_tb (7#12)) 10 10 [1#2; 1#4; 1#2; 3#4] [1; 1] [1%nat] in
  r_out r = [OPosted 0 (1 # 2); OHandler 0 (1 # 4) (1 # 4) (EN 2) (Some true);
             OTap (1 # 4) 0 (NEv 0 0) (EN 2);
             OHandler 2 (1 # 2) (1 # 2) (EN 0) None;
             OObserve (1 # 2) [2%nat; 0%nat]; OTap (1 # 2) 0 (NPost 2) (EN 0)] /\
  r_time r = 7 # 12 /\ r_events r = 2%nat /\ r_stuck r = false /\
  Forall unit_rand [1#2; 1#4; 1#2; 3#4].
Proof.
  cbv zeta. split; [vm_compute; reflexivity|]. split; [vm_compute; reflexivity|].
  split; [vm_compute; reflexivity|]. split; [vm_compute; reflexivity|].
  repeat constructor; vm_compute; discriminate.
Qed.

(* ================================================================================================
   State-dependent event tables (SIR_VariableInfection): Model/KernelDyn.v is the two scheduler
   loops with a per-element event list computed from the current state; with no dynamic entries
   they ARE the loops of Model/Kernel.v (the two C05_dyn_conservative theorems), so everything above carries over,
   and the membership clauses hold for every dynamic table.  Since the repair F15 (0d0f7b6) the
   Gillespie loop re-tests a one-element locus after the posted events of the interval ran, so the
   stochastic clause needs no proviso. *)
From EpyV Require Import Model.Loci Model.Compart Model.KernelDyn Model.CompartVI Proofs.KernelDyn Proofs.KernelDynLoops Proofs.KernelDynRun Proofs.KernelDynStatic Proofs.CompartVI Proofs.CompartVIMain.

Theorem C05_dyn_member_stoch : forall W (D : dtable W) pf fuel rs ls ds k t c e m,
  In (OHandler k t c e (Some m)) (r_out (dstoch_run D pf fuel rs ls ds)) -> m = true.
Proof. exact CVI_member_stoch. Qed.
Theorem C05_dyn_member_sync : forall W (D : dtable W) pf fuel rs ds k t c e m,
  In (OHandler k t c e (Some m)) (r_out (dsync_run D pf fuel rs ds)) -> m = true.
Proof. exact CVI_member_sync. Qed.
Theorem C05_dyn_stoch_stale_skip : forall W (D : dtable W) pi d nt ev (s5 : st W),
  de_member d (loci s5) (world s5) = false -> dstoch_fire D (TDyn pi d) nt ev s5 = (ev, s5).
Proof. exact CVI_stoch_stale_skip. Qed.
Theorem C05_dyn_stoch_live_fire : forall W (D : dtable W) pi d nt ev (s5 : st W),
  de_member d (loci s5) (world s5) = true -> dstoch_fire D (TDyn pi d) nt ev s5 = (S ev, fire_dyn D pi d nt s5).
Proof. exact CVI_stoch_live_fire. Qed.
Theorem C05_dyn_sync_skip : forall W (D : dtable W) t pi d e evs nev (s : st W),
  de_member d (loci s) (world s) = false ->
  dfire_tranche D t ((TDyn pi d, e) :: evs) nev s = dfire_tranche D t evs nev s.
Proof. exact CVI_sync_skip. Qed.
Theorem C05_dyn_sync_fire : forall W (D : dtable W) t pi d e evs nev (s : st W),
  de_member d (loci s) (world s) = true ->
  dfire_tranche D t ((TDyn pi d, e) :: evs) nev s = dfire_tranche D t evs (S nev) (fire_dyn D pi d t s).
Proof. exact CVI_sync_fire. Qed.
Theorem C05_dyn_zero_never_sync : forall W (D : dtable W) pf fuel rs ds t pi j e,
  In (OTap t pi (NEv pi j) e) (r_out (dsync_run D pf fuel rs ds)) -> fired_dyn_ok D pi j e.
Proof. exact CVI_zero_never_sync. Qed.
Theorem C05_dyn_zero_never_stoch : forall W (D : dtable W) pf fuel rs ls ds t pi j e,
  (forall lc w, dnonneg D lc w) -> Forall unit_rand rs ->
  In (OTap t pi (NEv pi j) e) (r_out (dstoch_run D pf fuel rs ls ds)) -> fired_dyn_ok D pi j e.
Proof. exact CVI_zero_never_stoch. Qed.
Theorem C05_dyn_conservative_stoch : forall W (tb : table W) pf fuel rs ls ds,
  dstoch_run (static_dtable tb) pf fuel rs ls ds = stoch_run tb pf fuel rs ls ds.
Proof. exact CVI_conservative_stoch. Qed.
Theorem C05_dyn_conservative_sync : forall W (tb : table W) pf fuel rs ds,
  dsync_run (static_dtable tb) pf fuel rs ds = sync_run tb pf fuel rs ds.
Proof. exact CVI_conservative_sync. Qed.

(* SIR_VariableInfection (also with posted removals of its seeds): infect is only ever called on an edge that is
   in the SI locus at that instant; the appended entries are exactly the SI locus in ascending order, each with
   its edge's infectivity, each testing membership of its own edge *)
Theorem C05_vi_member_stoch : forall vm nodes edges init inf maxtime monitor pf fuel rs ls ds k t c e m,
  In (OHandler k t c e (Some m)) (r_out (dstoch_run (mk_vitable vm nodes edges init inf maxtime monitor) pf fuel rs ls ds)) -> m = true.
Proof. exact CVI_vi_member_stoch. Qed.
Theorem C05_vi_member_sync : forall vm nodes edges init inf maxtime monitor pf fuel rs ds k t c e m,
  In (OHandler k t c e (Some m)) (r_out (dsync_run (mk_vitable vm nodes edges init inf maxtime monitor) pf fuel rs ds)) -> m = true.
Proof. exact CVI_vi_member_sync. Qed.
Theorem C05_vi_distribution : forall vm nodes edges init inf maxtime monitor lc w,
  let D := mk_vitable vm nodes edges init inf maxtime monitor in
  dper_element D lc w = map TStat (per_element (d_tb D))
    ++ map (fun e => TDyn (vi_mpi monitor) (vi_entry vm w e)) (nth (vim_si vm) lc []).
Proof. exact CVI_vi_distribution. Qed.
Theorem C05_vi_entry : forall vm w n m, let d := vi_entry vm w (EE n m) in
  de_value d = EE n m /\ de_prog d = vi_infect_prog vm
  /\ de_p d = match infectivity (vi_inf w) n m with Some p => p | None => 0 end
  /\ forall lc w', de_member d lc w' = mem (EE n m) (nth (vim_si vm) lc []).
Proof. exact CVI_vi_entry. Qed.

(* the F15 situation with the posted-removal subclass: path 0 - 1, node 0 infected and removed by an event posted
   for 1/2, infectivity 1, pRemove = 0.  Gillespie selects infect on (1,0) for time 1; the posted removal runs
   first; the entry is stale and is skipped: node 1 stays susceptible *)
Example C05_dyn_example_posted_removal :
  let D := mk_vitable (sir_vi_gen 0 (Some (1#2))) [0; 1]%Z [(0, 1)]%Z [(0, 1); (1, 3)]%Z
                      (initial_infectivities [(0, 1)]%Z [1]) 3 None in
  let r := dstoch_run D 50 50 [1#2; 1#2; 1#2] [1; 1] [] in
  r_out r = [OPosted 0 (1 # 2); OHandler 0 (1 # 2) (1 # 2) (EN 0) None; OTap (1 # 2) 0 (NPost 0) (EN 0)]
  /\ r_time r = 1 /\ r_events r = 1%nat /\ r_stuck r = false
  /\ map (getc (cw_st (vi_base (world (r_final r))))) [0; 1]%Z = [Some 2; Some 3]%Z.
Proof. exact CVI_example_posted_removal. Qed.

(* synchronous, the F8 situation on a triangle 0-1-2 with 0 and 1 infected, all infectivities 1: both (2,0) and
   (2,1) are selected; infect on (2,0) empties the SI locus; (2,1) fails its test and is skipped, uncounted *)
Example C05_dyn_example_sync_skip :
  let D := mk_vitable (sir_vi 0) [0; 1; 2]%Z [(0, 1); (0, 2); (1, 2)]%Z [(0, 1); (1, 1); (2, 3)]%Z
                      (initial_infectivities [(0, 1); (0, 2); (1, 2)]%Z [1; 1; 1]) 2 None in
  let r := dsync_run D 50 50 [1#2; 1#2] [] in
  r_out r = [OHandler 1 1 1 (EE 2 0) (Some true); OTap 1 0 (NEv 0 1) (EE 2 0)]
  /\ r_events r = 1%nat /\ r_steps r = 1%nat /\ r_stuck r = false
  /\ cw_occ (vi_base (world (r_final r))) = [((2, 0)%Z, 1)].
Proof. exact CVI_example_sync_skip. Qed.
