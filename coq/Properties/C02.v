(* C02 - stochastic dynamics samples the continuous-time Markov chain of the model.
   Statements only; proofs are in Proofs/Gillespie{Select,Rates,Jump,Holding}.v and Lib/Dist.v.
   The model is the Gillespie loop [stoch_loop] of Model/Kernel.v (stochasticdynamics.py) over
   exact rationals, for every world type W and every table (arbitrary user processes); the oracle
   is the list of rng.random() values, of ln(1/r1) values and of drawn ranks.

   What is NOT a theorem here (DESIGN.md section 7): that a uniform variate lands in an interval
   with probability equal to its length, and that numpy's generator is uniform.  The theorems give
   the exact preimage of every random decision (which r2 select which kind: an interval of the
   right length; which r1 give a holding time > s: an interval of length exp(-a s); which rank
   gives which element), and, with those lengths taken as probabilities in a finite-distribution
   monad over Q, the jump-chain law and its equality with the CTMC's.  The law of durations is
   covered only through C02_holding_time (no distribution over the reals is formalised).
   Every theorem except C02_holding_time is closed under the global context. *)
From Coq Require Import List ZArith QArith Bool Arith Reals.
From EpyV Require Import Lib.Prelude Lib.Dist Model.Kernel
  Proofs.GillespieSelect Proofs.GillespieRates Proofs.GillespieJump Proofs.GillespieHolding Proofs.GillespieExamples.
Import ListNotations.
Open Scope Q_scope.

(* ---------------------------------------------------------------- C02_select_interval *)
(* [prefix f l j] is the sum of the first j rates.  For non-negative rates and 0 <= xc < total the
   scan returns the first entry whose cumulative sum exceeds xc: the unique j with
   prefix j <= xc < prefix (j+1). *)
Theorem C02_select_index : forall A (f : A -> Q) xc l x0,
  (forall x, In x l -> 0 <= f x) -> 0 <= xc -> xc < sumf f l ->
  exists j, (j < length l)%nat /\ prefix f l j <= xc /\ xc < prefix f l (S j) /\ select f xc 0 x0 l = nth j l x0 /\
            forall k, prefix f l k <= xc -> xc < prefix f l (S k) -> k = j.
Proof. exact (@select_index). Qed.

(* as an iff on the entry, for lists without repeated entries (as [transitions] is) *)
Theorem C02_select_interval : forall A (f : A -> Q) xc l x0 j,
  NoDup l -> (forall x, In x l -> 0 <= f x) -> 0 <= xc -> xc < sumf f l -> (j < length l)%nat ->
  (select f xc 0 x0 l = nth j l x0 <-> prefix f l j <= xc /\ xc < prefix f l (S j)).
Proof. exact (@select_interval). Qed.

Theorem C02_zero_rate_never : forall A (f : A -> Q) xc l x0 x,
  (forall y, In y l -> 0 <= f y) -> 0 <= xc -> xc < sumf f l -> f x == 0 -> select f xc 0 x0 l <> x.
Proof. exact (@select_zero_never). Qed.

(* the entry returned always has a positive rate and is an entry of the list *)
Theorem C02_selected_positive : forall A (f : A -> Q) xc l x0,
  (forall x, In x l -> 0 <= f x) -> 0 <= xc -> xc < sumf f l ->
  In (select f xc 0 x0 l) l /\ 0 < f (select f xc 0 x0 l).
Proof. exact (@select_positive). Qed.

(* with xc = r2 * a: the r2 in [0,1) selecting entry j are exactly [prefix j / a, prefix (j+1) / a),
   an interval of length rate_j / a *)
Theorem C02_select_measure : forall A (f : A -> Q) l x0 r2 j,
  NoDup l -> (forall x, In x l -> 0 <= f x) ->
  let a := sumf f l in 0 < a -> 0 <= r2 -> r2 < 1 -> (j < length l)%nat ->
  (select f (r2 * a) 0 x0 l = nth j l x0 <-> prefix f l j / a <= r2 /\ r2 < prefix f l (S j) / a)
  /\ prefix f l (S j) / a - prefix f l j / a == f (nth j l x0) / a.
Proof. exact (@select_measure). Qed.

(* the same on the kernel: the loop's own total [sum_rates] (a left-to-right sum) and its own list of
   transitions, which has no repeated entry; only a table with non-negative probabilities is assumed *)
Theorem C02_select_measure_kernel : forall W (tb : table W) (s : st W) x0 r2 j,
  nonneg_table W tb ->
  let trs := transitions tb in let a := sum_rates s trs in
  0 < a -> 0 <= r2 -> r2 < 1 -> (j < length trs)%nat ->
  (select (rate s) (r2 * a) 0 x0 trs = nth j trs x0 <->
     prefix (rate s) trs j / a <= r2 /\ r2 < prefix (rate s) trs (S j) / a)
  /\ prefix (rate s) trs (S j) / a - prefix (rate s) trs j / a == rate s (nth j trs x0) / a.
Proof.
  intros W tb s x0 r2 j Hnn trs a Ha Hr0 Hr1 Hj.
  assert (Ea : a == sumf (rate s) trs) by apply sum_rates_sumf.
  assert (Ha' : 0 < sumf (rate s) trs) by (rewrite <- Ea; exact Ha).
  destruct (select_measure (rate s) trs x0 r2 j (transitions_NoDup W tb) (transitions_rates_nonneg W tb s Hnn) Ha' Hr0 Hr1 Hj) as [H1 H2].
  rewrite (select_xc_ext _ (rate s) (r2 * a) (r2 * sumf (rate s) trs)) by (rewrite Ea; reflexivity).
  rewrite Ea. split; assumption.
Qed.

(* ---------------------------------------------------------------- C02_holding_time *)
(* dt = ln(1/r1)/a exceeds s exactly when r1 < exp(-a s): the inverse-CDF identity of Exp(a).
   Over Coq's real numbers; depends on the standard library's axioms for them. *)
Theorem C02_holding_time : forall a r1 s : R, (0 < a)%R -> (0 < r1 <= 1)%R ->
  ((ln (/ r1) / a > s)%R <-> (r1 < exp (- a * s))%R).
Proof. exact holding_time. Qed.

(* ---------------------------------------------------------------- C02_rate_table *)
Theorem C02_rate_table : forall W (tb : table W) (s : st W),
  (forall x : nat * nat * event, ev_elem (snd x) = true ->
     rate s x == ev_p (snd x) * inject_Z (Z.of_nat (length (locus s (ev_locus (snd x))))))
  /\ (forall x : nat * nat * event, ev_elem (snd x) = false -> rate s x = ev_p (snd x))
  /\ sum_rates s (transitions tb) ==
       sumf (fun x : nat * nat * event => ev_p (snd x) * inject_Z (Z.of_nat (length (locus s (ev_locus (snd x)))))) (per_element tb)
       + sumf (fun x : nat * nat * event => ev_p (snd x)) (fixed_rate tb).
Proof. exact (@rate_table). Qed.

(* the order: per-element events of all processes (allProcesses() order, registration order within a
   process), then the fixed-rate events likewise; no entry occurs twice *)
Theorem C02_transitions_order : forall W (tb : table W),
  all_events tb = flat_map (fun ip => index_events (fst ip) 0 (p_events (snd ip))) (combine (seq 0 (length (t_procs tb))) (t_procs tb))
  /\ transitions tb = filter (fun x : nat * nat * event => ev_elem (snd x)) (all_events tb)
                      ++ filter (fun x : nat * nat * event => negb (ev_elem (snd x))) (all_events tb)
  /\ NoDup (transitions tb).
Proof. intros W tb. destruct (transitions_order W tb) as [H1 H2]. split; [exact H1|]. split; [exact H2 | apply transitions_NoDup]. Qed.

(* ---------------------------------------------------------------- one iteration as a function of the oracle *)
(* no pending posted event, not at equilibrium, a <> 0, more than one transition: r1, ln(1/r1), r2 are
   consumed; kind = select (r2 * a); time advances by (1/a) ln(1/r1); one rank is consumed iff the
   locus of the kind is not empty and the event function is called on the element of that rank *)
Theorem C02_step : forall W (tb : table W) pf f t ev (s : st W) r1 r2 rs ln ls x0 x1 rest,
  queue s = [] -> running W tb t s ->
  rands s = r1 :: r2 :: rs -> lns s = ln :: ls -> transitions tb = x0 :: x1 :: rest ->
  let a := sum_rates s (transitions tb) in
  let nt := Qred (t + Qred (1 / a * ln)) in
  let x := select (rate s) (r2 * a) 0 x0 (transitions tb) in
  let l := locus s (ev_locus (snd x)) in
  stoch_loop tb (S pf) (S f) t ev s =
    match l with
    | [] => stoch_loop tb (S pf) f nt (ev + 0) (after s nt rs ls (draws s))
    | _ => match draws s with
           | [] => stoch_loop tb (S pf) f nt (S (ev + 0)) (fire_event tb x nt (nth (0 mod length l) l (EN 0)) (set_stuck (after s nt rs ls [])))
           | k :: ds => stoch_loop tb (S pf) f nt (S (ev + 0)) (fire_event tb x nt (nth (k mod length l) l (EN 0)) (after s nt rs ls ds))
           end
    end.
Proof. exact (@stoch_step_many). Qed.

(* exactly one transition: r2 is not consumed *)
Theorem C02_step_single : forall W (tb : table W) pf f t ev (s : st W) r1 rs ln ls x0,
  queue s = [] -> running W tb t s ->
  rands s = r1 :: rs -> lns s = ln :: ls -> transitions tb = [x0] ->
  let a := sum_rates s (transitions tb) in
  let nt := Qred (t + Qred (1 / a * ln)) in
  let l := locus s (ev_locus (snd x0)) in
  stoch_loop tb (S pf) (S f) t ev s =
    match l with
    | [] => stoch_loop tb (S pf) f nt (ev + 0) (after s nt rs ls (draws s))
    | _ => match draws s with
           | [] => stoch_loop tb (S pf) f nt (S (ev + 0)) (fire_event tb x0 nt (nth (0 mod length l) l (EN 0)) (set_stuck (after s nt rs ls [])))
           | k :: ds => stoch_loop tb (S pf) f nt (S (ev + 0)) (fire_event tb x0 nt (nth (k mod length l) l (EN 0)) (after s nt rs ls ds))
           end
    end.
Proof. exact (@stoch_step_one). Qed.

(* ---------------------------------------------------------------- C02_jump_law *)
(* [jump_dist]: the kind has the distribution of the interval lengths of C02_select_measure, the
   element is [nth (k mod n)] for k uniform on the n ranks of the kind's locus (none when empty).
   [ctmc_jump]: every (kind j, element e of its locus) with probability p_j / a (per-element) or
   (p_j / |locus|) / a (fixed rate). *)
Theorem C02_jump_law : forall W (tb : table W) (s : st W),
  ~ total_rate W tb s == 0 -> deq out_eqb (jump_dist W tb s) (ctmc_jump W tb s).
Proof. exact (@jump_law). Qed.

Theorem C02_jump_law_mass : forall W (tb : table W) (s : st W) j e,
  ~ total_rate W tb s == 0 -> (j < length (transitions tb))%nat ->
  NoDup (locus_of W tb s j) -> In e (locus_of W tb s j) ->
  let ev := snd (nth j (transitions tb) dflt) in
  mass out_eqb (jump_dist W tb s) (j, Some e)
  == (if ev_elem ev then ev_p ev else ev_p ev / qlen (locus_of W tb s j)) / total_rate W tb s.
Proof. exact (@jump_law_mass). Qed.

(* ---------------------------------------------------------------- C02_outcome_law *)
(* The absorbing jump chain: from s, if the process' own equilibrium test holds or a = 0 the
   observation is reported, otherwise a jump is made and the chain continues from the state the
   loop produces ([next]: clock set to the jump time, event function run and tapped).  For every
   table, observation, list of jump times and start state the law obtained from the model's
   iteration equals the one obtained from the CTMC's jump law.  (Time limit not modelled: the
   chain is followed to absorption or for |nts| jumps.) *)
Theorem C02_outcome_law : forall W (tb : table W) O (observe : st W -> O) (eqbO : option O -> option O -> bool) nts (s : st W),
  deq eqbO (outcome_dist W tb O observe nts s) (ctmc_outcome W tb O observe nts s).
Proof. exact (@outcome_law). Qed.

(* ---------------------------------------------------------------- C02_observers_passive *)
(* a process that registers no stochastic event adds no transition: same kinds (process index
   shifted), same rates, same total, same selection *)
Theorem C02_observers_passive : forall W (tb : table W) su (s : st W),
  transitions (with_observer W tb su) = map shift (transitions tb)
  /\ sum_rates s (transitions (with_observer W tb su)) = sum_rates s (transitions tb)
  /\ forall xc cur, select (rate s) xc 0 (shift cur) (transitions (with_observer W tb su))
                    = shift (select (rate s) xc 0 cur (transitions tb)).
Proof. exact (@observer_transitions). Qed.

(* and its posted events (programs in a set P closed under posting, none of which touches a locus:
   Monitor.observe is [AObserve]) leave loci and the three oracle streams as they were, so the total
   rate, the kind selected and the oracle values consumed by the stochastic part are unchanged *)
Theorem C02_observers_passive_pending : forall W (tb : table W) (P : nat -> Prop) fuel t n (s : st W) trs,
  closed W tb P -> qinv W P s ->
  let s' := snd (run_pending tb fuel t n s) in
  sum_rates s' trs = sum_rates s trs
  /\ (forall xc xs cur, select (rate s') xc xs cur trs = select (rate s) xc xs cur trs)
  /\ rands s' = rands s /\ lns s' = lns s /\ draws s' = draws s.
Proof. exact (@observers_passive). Qed.

(* ================================================================ non-vacuity and exact laws *)
(* rates 1/2, 0, 1/1000, 1/2 (equal, zero and 1:1000): thresholds at and next to every prefix sum *)
Example C02_ex_select :
  map (fun xc => fst (select (fun x : nat * Q => snd x) xc 0 (0%nat, 0) [(0%nat, 1 # 2); (1%nat, 0); (2%nat, 1 # 1000); (3%nat, 1 # 2)]))
      [0; 499 # 1000; 1 # 2; 5001 # 10000; 501 # 1000; 1 # 1; 1001 # 1000; 2 # 1]
  = [0; 0; 2; 2; 3; 3; 3; 3]%nat.
Proof. vm_compute. reflexivity. Qed.

(* SIR (pInfect 1/2, pRemove 1/4) on the complete graph on 3 nodes seeded at node 0: the jump law in
   the initial state computed through the model: SI edges (1,0), (2,0) and infected node 0, a = 5/4 *)
Example C02_ex_jump_sir_complete :
  jump_probs complete3 0 = [((0%nat, Some (EE 1 0)), 2 # 5); ((0%nat, Some (EE 2 0)), 2 # 5); ((1%nat, Some (EN 0)), 1 # 5)].
Proof. vm_compute. reflexivity. Qed.

(* exact final-size laws computed through the model's jump chain (handlers of Model/Compart.v run on
   the kernel state) = the CTMC law enumerated by hand: b = 1/2, g = 1/4.
   path 0-1-2 seeded at the end 0: q = b/(b+g) = 2/3;  P(1) = 1-q, P(2) = q(1-q), P(3) = q^2 *)
Example C02_ex_sir_path_end :
  map (pr (final_size_law path3 0 6)) [None; Some 0; Some 1; Some 2; Some 3]%nat = [0; 0; 1 # 3; 2 # 9; 4 # 9].
Proof. vm_compute. reflexivity. Qed.

(* path seeded in the middle: P(1) = g/(2b+g) = 1/5, then the other end is reached with prob. 2/3 *)
Example C02_ex_sir_path_middle :
  map (pr (final_size_law path3 1 6)) [None; Some 0; Some 1; Some 2; Some 3]%nat = [0; 0; 1 # 5; 4 # 15; 8 # 15].
Proof. vm_compute. reflexivity. Qed.

(* complete graph: P(1) = g/(2b+g) = 1/5;  P(2) = 4/5 * (2g/(2b+2g)) * (g/(b+g)) = 4/45;  P(3) = 32/45 *)
Example C02_ex_sir_complete :
  map (pr (final_size_law complete3 0 6)) [None; Some 0; Some 1; Some 2; Some 3]%nat = [0; 0; 1 # 5; 4 # 45; 32 # 45].
Proof. vm_compute. reflexivity. Qed.

(* a whole run of the loop on one oracle, bare and behind a Monitor observing every 1/2: same event
   functions on the same elements, same oracle values left over, 14 observations made *)
Example C02_ex_observer_run :
  entries (r_out (ex_run (Some (1 # 2)))) = entries (r_out (ex_run None))
  /\ length (entries (r_out (ex_run None))) = 5%nat
  /\ nobs (r_out (ex_run (Some (1 # 2)))) = 14%nat
  /\ rands (r_final (ex_run (Some (1 # 2)))) = rands (r_final (ex_run None))
  /\ draws (r_final (ex_run (Some (1 # 2)))) = draws (r_final (ex_run None))
  /\ r_stuck (ex_run (Some (1 # 2))) = false.
Proof. vm_compute. repeat split. Qed.

(* the hypotheses of C02_step hold in the initial state of that run: no posted event, running, two transitions *)
Example C02_ex_step_hypotheses :
  let tb := sir_table_until 6 complete3 0 None in
  let s := setup_state tb ex_rands ex_lns ex_draws in
  queue s = [] /\ running _ tb 0 s /\ length (transitions tb) = 2%nat /\ length (rands s) = 12%nat.
Proof. vm_compute. repeat split. Qed.

(* the hypotheses of C02_observers_passive_pending hold for the Monitor in front of SIR: its only posted
   program (number 2) is [AObserve], and the queue holds only that observation *)
Example C02_ex_monitor_passive :
  let tb := sir_table_until 6 complete3 0 (Some (1 # 2)) in
  closed _ tb (fun k => k = 2%nat) /\ qinv _ (fun k => k = 2%nat) (setup_state tb ex_rands ex_lns ex_draws)
  /\ length (queue (setup_state tb ex_rands ex_lns ex_draws)) = 1%nat.
Proof.
  split; [|split].
  - intros k -> t e l w. cbn. constructor; [exact I | constructor].
  - unfold qinv. vm_compute. constructor; [reflexivity | constructor].
  - vm_compute. reflexivity.
Qed.
