(* C09 - DrawSet is a correct ordered set with an exactly uniform O(log n) draw.
   Statements only; the proofs are in Proofs/BbtRot.v, BbtSet.v, BbtDraw.v, BbtHeight.v, BbtTie.v.

   Vocabulary (Model/Bbt.v): [tree] carries the STORED _height/_leftSize/_rightSize; [run ops] is the
   DrawSet state after the calls [ops] (A add, D discard, R remove, Dr draw, Mem, Iter) from the empty
   set; [step t o] is (new state, result, arguments of the rng.integers calls); [aset ops] is the
   mathematical set after the same calls, as a strictly ascending list; [draw_ct t] is the tree of
   rng.integers requests draw() makes and [prob_ct] its exact law for a uniform independent generator.
   [Good t] = in-order list strictly ascending /\ stored heights and sizes equal the real ones /\
   sub-tree heights differ by at most one, everywhere. *)
From Coq Require Import List ZArith QArith Bool Arith Sorted.
From EpyV Require Import Lib.Prelude Model.Bbt Proofs.BbtRot Proofs.BbtSet Proofs.BbtDraw Proofs.BbtHeight
  Tie.C09 Proofs.BbtTie.
Import ListNotations.
Close Scope Z_scope. Close Scope Q_scope. Open Scope nat_scope.

(* one rotation (with the nested repairs of bbt.py:197-200, 211, 225, 243-246) about a node whose
   Good-shaped children differ in height by exactly two *)
Theorem C09_rot_spec : forall fuel l d r, Inv l -> Inv r -> ht (mk l d r) <= fuel ->
  (ht l = S (S (ht r)) \/ ht r = S (S (ht l))) ->
  let t := rot fuel (mk l d r) in
  Inv t /\ inorder t = inorder l ++ d :: inorder r /\ size t = size l + 1 + size r /\
  (ht t = ht (mk l d r) \/ S (ht t) = ht (mk l d r)).
Proof. intros fuel l d r Hl Hr Hf Hd. destruct (rot_spec fuel l d r Hl Hr Hf Hd) as (H1 & H2 & H3 & H4 & _). auto. Qed.

Theorem C09_add_good : forall e t, Good t -> Good (fst (add e t)) /\ inorder (fst (add e t)) = ins e (inorder t).
Proof. intros e t H. split; [exact (add_good e t H)|exact (add_inorder e t H)]. Qed.

Theorem C09_discard_good : forall e t, Good t ->
  Good (fst (discard e t)) /\ inorder (fst (discard e t)) = del e (inorder t) /\
  (snd (discard e t) = true <-> In e (inorder t)).
Proof. intros e t H. split; [exact (discard_good e t H)|split; [exact (discard_inorder e t H)|exact (discard_present e t H)]]. Qed.

(* every reachable state is Good *)
Theorem C09_history : forall ops, Good (run ops).
Proof. exact history_good. Qed.

(* the abstract side is the mathematical set: add inserts, discard/remove delete, the rest leave it alone *)
Theorem C09_aset_is_set : forall ops o x,
  In x (aset (ops ++ [o])) <->
  match o with
  | A e => x = e \/ In x (aset ops)
  | D e | R e => In x (aset ops) /\ x <> e
  | _ => In x (aset ops)
  end.
Proof.
  intros ops o x. rewrite aset_snoc. pose proof (aset_sorted ops) as Hs.
  destruct o; cbn [aapply]; try tauto; [apply ins_In|apply del_In; exact Hs|apply del_In; exact Hs].
Qed.

(* iteration order, membership, length, emptiness all agree with the set *)
Theorem C09_set_semantics : forall ops, let t := run ops in
  inorder t = aset ops /\
  (forall e, find e t = true <-> In e (aset ops)) /\
  len t = length (aset ops) /\
  (is_empty t = true <-> aset ops = []).
Proof.
  intros ops t. pose proof (history_good ops) as Hg. pose proof (history_inorder ops) as Hi. fold t in Hg, Hi.
  split; [exact Hi|]. split; [|split].
  - intros e. rewrite <- Hi. apply find_In. apply Hg.
  - rewrite <- Hi. apply len_good. exact Hg.
  - rewrite <- Hi. apply is_empty_iff.
Qed.

Theorem C09_iter_sorted : forall ops,
  step (run ops) Iter = (run ops, RList (aset ops), []) /\ StronglySorted Z.lt (aset ops) /\ NoDup (aset ops).
Proof.
  intros ops. split; [cbn [step]; rewrite history_inorder; reflexivity|].
  split; [apply sorted_StronglySorted|apply sorted_NoDup]; apply aset_sorted.
Qed.

(* remove raises KeyError exactly when the element is absent, and then changes nothing *)
Theorem C09_remove_keyerror : forall ops e,
  (In e (aset ops) -> snd (fst (step (run ops) (R e))) = RUnit) /\
  (~ In e (aset ops) -> step (run ops) (R e) = (run ops, RKeyError, [])).
Proof.
  intros ops e. rewrite <- history_inorder. destruct (remove_spec e (run ops) (history_good ops)) as [H1 H2].
  split; [intros H; rewrite (H1 H); reflexivity|exact H2].
Qed.

(* draw: exactly uniform on the members *)
Theorem C09_draw_uniform : forall t e, Good t -> In e (inorder t) ->
  (prob_ct (draw_ct t) e == 1 # Pos.of_nat (size t))%Q.
Proof. exact draw_uniform. Qed.
Theorem C09_draw_uniform_history : forall ops e, In e (aset ops) ->
  (prob_ct (draw_ct (run ops)) e == 1 # Pos.of_nat (length (aset ops)))%Q.
Proof.
  intros ops e H. rewrite <- history_inorder in *. rewrite <- size_inorder.
  apply draw_uniform; [apply history_good|assumption].
Qed.
Theorem C09_draw_nonmember : forall t e, Good t -> ~ In e (inorder t) -> (prob_ct (draw_ct t) e == 0)%Q.
Proof. exact draw_nonmember. Qed.

(* every individual run of draw on a non-empty reachable set returns a member, never touches a
   missing child, and calls rng.integers at most height-many times, each time with 2 <= n <= len *)
Theorem C09_draw_member : forall t ints, Good t -> t <> Leaf ->
  match fst (run_ct (draw_ct t) ints) with Drew e => In e (inorder t) | Stuck => False | BadScript => True end /\
  length (snd (run_ct (draw_ct t) ints)) <= ht t /\
  Forall (fun n => 2 <= n <= size t) (snd (run_ct (draw_ct t) ints)).
Proof. intros t ints [_ [Ho _]] Hne. exact (run_draw t Ho Hne ints). Qed.

Theorem C09_draw_empty_raises : forall ops ints, aset ops = [] ->
  step (run ops) (Dr ints) = (run ops, RValueError, []).
Proof.
  intros ops ints H. rewrite <- history_inorder in H. apply is_empty_iff in H.
  destruct (run ops); [reflexivity|discriminate].
Qed.

(* height balance gives a logarithmic height; find (and add/discard, which recurse along the same
   search path) compare with at most height-many entries *)
Theorem C09_height_log : forall t, Good t ->
  2 ^ (ht t / 2) <= size t + 1 /\ ht t <= 2 * Nat.log2 (size t + 1) + 1.
Proof. intros t [_ [_ Hb]]. split; [exact (height_bound t Hb)|exact (height_log2 t Hb)]. Qed.
Theorem C09_descent : forall e t, find_visits e t <= ht t.
Proof. exact find_visits_le. Qed.

(* int pairs: the encoding used for edges preserves and reflects the lexicographic order *)
Theorem C09_pair_order : forall K a b c d, (0 <= b < K)%Z -> (0 <= d < K)%Z ->
  ((a * K + b < c * K + d)%Z <-> (a < c)%Z \/ (a = c /\ b < d)%Z) /\
  ((a * K + b = c * K + d)%Z <-> a = c /\ b = d).
Proof. intros K a b c d Hb Hd. split; [exact (pair_code_lt K a b c d Hb Hd)|exact (pair_code_eq K a b c d Hb Hd)]. Qed.

(* the boolean that tie level 2 evaluates on a dumped implementation tree implies Good *)
Theorem C09_good_b_sound : forall t, good_b t = true -> Good t.
Proof. exact good_b_sound. Qed.

(* non-vacuity: insert 3,1,5,0,2,4,6, delete 3: a Good 6-element tree with root 4 (the successor), on which
   draw returns 2 for the integers [1; 2] and every member has probability 1/6 *)
Example C09_example :
  let ops := [A 3; A 1; A 5; A 0; A 2; A 4; A 6; D 3]%Z in
  good_b (run ops) = true /\ aset ops = [0; 1; 2; 4; 5; 6]%Z /\
  dump (run ops) = [Some (4%Z, 2, 3, 2); Some (1%Z, 1, 1, 1); Some (0%Z, 0, 0, 0); None; None; Some (2%Z, 0, 0, 0); None; None;
                    Some (5%Z, 1, 0, 1); None; Some (6%Z, 0, 0, 0); None; None] /\
  step (run ops) (Dr [1; 2]) = (run ops, RDrew 2%Z, [6; 3]) /\
  map (fun e => Qred (prob_ct (draw_ct (run ops)) e)) (aset ops) = [1 # 6; 1 # 6; 1 # 6; 1 # 6; 1 # 6; 1 # 6]%Q.
Proof. vm_compute. repeat split; reflexivity. Qed.
