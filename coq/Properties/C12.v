(* C12 - Monitor time series and network statistics report the true state.
   Statistics clause: theorems about Model/NetStats.v.  Monitor clause: theorems about the
   observation action of Model/Kernel.v (a Monitor is the repeating posted program [AObserve]). *)
From Coq Require Import List ZArith QArith Bool Arith Lia Permutation.
From EpyV Require Import Lib.Prelude Model.NetStats Proofs.NetStats.
Import ListNotations.
Close Scope Q_scope.

(* the reported histogram: entry i is the number of nodes of degree i, for i = 0 .. maximum degree *)
Theorem C12_histogram : forall nodes es, nodes <> [] ->
  length (s_kdist (statistics nodes es)) = S (max_degree nodes es) /\
  forall i, i <= max_degree nodes es -> nth i (s_kdist (statistics nodes es)) 0 = count_deg nodes es i.
Proof. intros nodes es H. split; [exact (histogram_length nodes es H) | intros i Hi; exact (histogram_nth nodes es i H Hi)]. Qed.

(* the reported maximum degree is the largest degree, and some node has it *)
Theorem C12_kmax : forall nodes es, nodes <> [] ->
  s_kmax (statistics nodes es) = max_degree nodes es /\
  (forall n, In n nodes -> degree es n <= s_kmax (statistics nodes es)) /\
  (exists n, In n nodes /\ degree es n = s_kmax (statistics nodes es)).
Proof.
  intros nodes es H.
  assert (E : s_kmax (statistics nodes es) = max_degree nodes es).
  { unfold statistics; cbn [s_kmax]. rewrite (histogram_length nodes es H). lia. }
  rewrite E. split; [reflexivity|]. split; [intros n Hn; exact (degree_le_max nodes es n Hn) | exact (max_degree_attained nodes es H)].
Qed.

(* order, edge count, and mean degree = (sum over i of i * h_i) / N = 2M / N *)
Theorem C12_order_edges_kmean : forall nodes es, NoDup nodes -> closed nodes es -> nodes <> [] ->
  s_N (statistics nodes es) = length nodes /\ s_M (statistics nodes es) = length es /\
  list_sum (s_kdist (statistics nodes es)) = length nodes /\
  (s_kmean (statistics nodes es) == inject_Z (Z.of_nat (2 * length es)) / inject_Z (Z.of_nat (length nodes)))%Q.
Proof.
  intros nodes es ND Hc Hne. split; [reflexivity|]. split; [reflexivity|]. split; [exact (histogram_total nodes es)|].
  unfold statistics; cbn [s_kmean]. rewrite (histogram_weighted nodes es ND Hc Hne). reflexivity.
Qed.

(* the component summary is read off the size list sorted in decreasing order: the number of
   components, the largest and the second largest size (0 when absent) *)
Theorem C12_components : forall nodes es,
  let cs := component_sizes nodes es in
  s_components (statistics nodes es) = length cs /\
  (forall x, In x cs -> x <= s_lcc (statistics nodes es)) /\
  (cs <> [] -> In (s_lcc (statistics nodes es)) cs) /\
  s_slcc (statistics nodes es) <= s_lcc (statistics nodes es).
Proof.
  intros nodes es cs. unfold statistics; cbn [s_components s_lcc s_slcc]. fold cs.
  assert (P := sort_desc_perm cs). assert (D := sort_desc_desc cs).
  split; [exact (Permutation_length P)|].
  destruct (sort_desc cs) as [|x l] eqn:E.
  - apply Permutation_nil in P. rewrite P. cbn. split; [intros ? []|]. split; [congruence | lia].
  - cbn [nth]. split; [intros y Hy; apply (desc_head_max x l D), (Permutation_in _ (Permutation_sym P)), Hy|].
    split; [intros _; apply (Permutation_in _ P); left; reflexivity|].
    destruct l as [|y l']; cbn [nth]; [lia|]. apply (desc_head_max x (y :: l') D). right; left; reflexivity.
Qed.

(* non-vacuity: a star with four leaves plus an isolated node *)
Example C12_example :
  let nodes := [0;1;2;3;4;5]%Z in let es := [(0,1);(0,2);(0,3);(0,4)]%Z in
  NoDup nodes /\ closed nodes es /\
  s_kmax (statistics nodes es) = 4 /\ s_kdist (statistics nodes es) = [1;4;0;0;1] /\
  s_components (statistics nodes es) = 2 /\ s_lcc (statistics nodes es) = 5 /\ s_slcc (statistics nodes es) = 1.
Proof.
  cbv zeta. split; [repeat constructor; cbn; intuition discriminate|].
  split; [|vm_compute; repeat split; reflexivity].
  intros e He. cbn in He. repeat (destruct He as [<-|He]; [cbn; tauto|]). destruct He.
Qed.

(* ================================================================== Monitor clause (Model/Kernel.v)
   A Monitor is a process whose set-up is [APostRep 0 delta kobs] where program kobs performs
   [AObserve], which records OObserve t (map length loci).  Proofs in Proofs/KernelMonitor.v.

   Vocabulary:
     monitor_tb tb delta kobs   delta > 0; some process' set-up is exactly [APostRep 0 delta kobs] (the
                       other processes, their events and programs are arbitrary, except that no set-up and
                       no program posts program kobs through APost / APostOn, the only actions that hand
                       an id to user code); program kobs returns the action list [AObserve]
     lht o             (o newest first) the time of the most recent OHandler record in o, 0 if none:
                       [lht (rev pre)] is the time of the last handler call before position |pre| of r_out
     hrec y, trec y    the OHandler (member None) and OTap records that firing the queue entry y leaves
     stoch_fired / sync_fired   the queue entries fired during the run, in order
     nonneg_tb, Forall (Qle 0) ls, r_stuck = false   as in C03 / C04 *)
From Coq Require Import QArith Lqa Sorted.
From EpyV Require Import Model.Kernel Proofs.KernelBase Proofs.KernelLoops Proofs.KernelQueue Proofs.KernelFire
  Proofs.KernelTime Proofs.KernelResults Proofs.KernelMonitor Proofs.KernelExample.
Open Scope Q_scope.

(* ---- C12_obs_record: what an observation records.  The action itself: the handler time and the
   size of every kernel locus at that instant, in registration order *)
Theorem C12_obs_action : forall W (s : st W) p t e,
  do_action p t e AObserve s = emit (OObserve t (map (@length elem) (loci s))) s.
Proof. reflexivity. Qed.

(* ... and in a run, for EVERY table: each OObserve t sizes in r_out was made inside the handler call
   whose time is t (the last OHandler record before it carries t; 0 for set-up code) and has exactly
   one entry per locus of the simulation (no action changes the number of loci) *)
Theorem C12_obs_record_stoch : forall W (tb : table W) pf fuel rs ls ds pre t sizes post,
  r_out (stoch_run tb pf fuel rs ls ds) = pre ++ OObserve t sizes :: post ->
  t = lht (rev pre) /\ length sizes = length (t_loci tb).
Proof. intros W tb pf fuel rs ls ds. exact (obs_record_stoch tb pf fuel rs ls ds). Qed.

Theorem C12_obs_record_sync : forall W (tb : table W) pf fuel rs ds pre t sizes post,
  r_out (sync_run tb pf fuel rs ds) = pre ++ OObserve t sizes :: post ->
  t = lht (rev pre) /\ length sizes = length (t_loci tb).
Proof. intros W tb pf fuel rs ds. exact (obs_record_sync tb pf fuel rs ds). Qed.

(* ---- the monitor's event cannot be un-posted: APostRep hands no id to user code, so an entry that
   runs the observe program is never named in [ids], which is all AUnpost / AQuery can address;
   invariant under every action that does not post kobs through APost / APostOn, and such an entry
   survives every action *)
Theorem C12_monitor_never_unposted : forall W (s : st W) kobs p t e a,
  MI kobs s ->
  (nopush kobs a -> MI kobs (do_action p t e a s)) /\
  (forall y, e_prog y = kobs -> In y (queue s) ->
     e_live y = true /\ ~ In (e_id y) (ids s) /\ In y (queue (do_action p t e a s))).
Proof.
  intros W s kobs p t e a HM. split; [intros Ha; exact (MI_do_action kobs p t e a s Ha HM)|].
  intros y Hp Hy. destruct (proj2 (proj2 HM) y Hy Hp) as [A B].
  split; [exact A|split; [exact B|exact (keep_do_action kobs y p t e a s HM Hp Hy)]].
Qed.

Theorem C12_monitor_pending_at_end : forall W (tb : table W) delta kobs pf fuel rs ls ds x,
  monitor_tb tb delta kobs -> e_prog x = kobs ->
  (In x (queue (r_final (stoch_run tb pf fuel rs ls ds))) ->
     e_live x = true /\ ~ In (e_id x) (ids (r_final (stoch_run tb pf fuel rs ls ds)))) /\
  (In x (queue (r_final (sync_run tb pf fuel rs ds))) ->
     e_live x = true /\ ~ In (e_id x) (ids (r_final (sync_run tb pf fuel rs ds)))).
Proof.
  intros W tb delta kobs pf fuel rs ls ds x Hmt Hp. split; intros Hx.
  - exact (monitor_safe_stoch tb pf fuel delta kobs Hmt rs ls ds x Hx Hp).
  - exact (monitor_safe_sync tb pf fuel delta kobs Hmt rs ds x Hx Hp).
Qed.

(* ---- C12_obs_times: the monitor observes at 0, delta, 2 delta, ...: for every k with k * delta
   strictly before the end time (stochastic) / the last executed step TIME - 1 (synchronous) the k-th
   repetition y fired at e_time y == k * delta and left, consecutively in r_out, its handler record,
   ONE observation with one size per locus, and its tap.  (The repetitions are distinct entries, fired
   in increasing time by C04_order; an observation due exactly at the end time may or may not have run.) *)
Theorem C12_obs_times_stoch : forall W (tb : table W) delta kobs pf fuel rs ls ds,
  monitor_tb tb delta kobs -> nonneg_tb tb -> Forall (Qle 0) ls ->
  let r := stoch_run tb pf fuel rs ls ds in
  r_stuck r = false ->
  forall k : nat, inject_Z (Z.of_nat k) * delta < r_time r ->
  exists y sizes pre post, In y (stoch_fired tb pf fuel rs ls ds) /\
    e_time y == inject_Z (Z.of_nat k) * delta /\ e_prog y = kobs /\
    r_out r = pre ++ hrec y :: OObserve (e_time y) sizes :: trec y :: post /\
    length sizes = length (t_loci tb).
Proof. intros W tb delta kobs pf fuel rs ls ds Hmt. exact (obs_times_stoch tb pf fuel delta kobs Hmt rs ls ds). Qed.

Theorem C12_obs_times_sync : forall W (tb : table W) delta kobs pf fuel rs ds,
  monitor_tb tb delta kobs ->
  let r := sync_run tb pf fuel rs ds in
  r_stuck r = false ->
  forall k : nat, inject_Z (Z.of_nat k) * delta + 1 < r_time r ->
  exists y sizes pre post, In y (sync_fired tb pf fuel rs ds) /\
    e_time y == inject_Z (Z.of_nat k) * delta /\ e_prog y = kobs /\
    r_out r = pre ++ hrec y :: OObserve (e_time y) sizes :: trec y :: post /\
    length sizes = length (t_loci tb).
Proof. intros W tb delta kobs pf fuel rs ds Hmt. exact (obs_times_sync tb pf fuel delta kobs Hmt rs ds). Qed.

(* ---- C12_obs_value: an observation at tau made from a handler sits after every event handler
   with an earlier time and before every one with a later time: every handler call before it in
   r_out has time <= tau, every one after it has time >= tau.  Hence the recorded sizes are those
   of the state after every event strictly earlier than tau and before every event strictly later. *)
Theorem C12_obs_value_stoch : forall W (tb : table W) pf fuel rs ls ds pre tau sizes post,
  nonneg_tb tb -> Forall (Qle 0) ls -> r_stuck (stoch_run tb pf fuel rs ls ds) = false ->
  r_out (stoch_run tb pf fuel rs ls ds) = pre ++ OObserve tau sizes :: post -> filter is_handler pre <> [] ->
  (forall k t c e m, In (OHandler k t c e m) pre -> t <= tau) /\
  (forall k t c e m, In (OHandler k t c e m) post -> tau <= t).
Proof. intros W tb pf fuel rs ls ds pre tau sizes post. exact (obs_value_stoch tb pf fuel rs ls ds pre tau sizes post). Qed.

Theorem C12_obs_value_sync : forall W (tb : table W) pf fuel rs ds pre tau sizes post,
  r_stuck (sync_run tb pf fuel rs ds) = false ->
  r_out (sync_run tb pf fuel rs ds) = pre ++ OObserve tau sizes :: post -> filter is_handler pre <> [] ->
  (forall k t c e m, In (OHandler k t c e m) pre -> t <= tau) /\
  (forall k t c e m, In (OHandler k t c e m) post -> tau <= t).
Proof. intros W tb pf fuel rs ds pre tau sizes post. exact (obs_value_sync tb pf fuel rs ds pre tau sizes post). Qed.

(* ---- conversely, when nobody else posts the observe program at all (monitor_only: as monitor_tb,
   with APostRep of kobs excluded too), every observation made inside a posted call of program kobs
   (the last handler record before it is OHandler kobs _ _ _ None) is at a time k * delta: together
   with C12_obs_times the monitor's observation times are exactly 0, delta, 2 delta, ... *)
Theorem C12_obs_only_chain_times : forall W (tb : table W) delta kobs pf fuel rs ls ds pre t sizes post t' c e,
  monitor_only tb delta kobs ->
  (r_out (stoch_run tb pf fuel rs ls ds) = pre ++ OObserve t sizes :: post ->
   lhr (rev pre) = Some (OHandler kobs t' c e None) -> exists k : nat, t == inject_Z (Z.of_nat k) * delta) /\
  (r_out (sync_run tb pf fuel rs ds) = pre ++ OObserve t sizes :: post ->
   lhr (rev pre) = Some (OHandler kobs t' c e None) -> exists k : nat, t == inject_Z (Z.of_nat k) * delta).
Proof.
  intros W tb delta kobs pf fuel rs ls ds pre t sizes post t' c e Hmo. split.
  - exact (obs_chain_stoch tb delta kobs Hmo pf fuel rs ls ds pre t sizes post t' c e).
  - exact (obs_chain_sync tb delta kobs Hmo pf fuel rs ds pre t sizes post t' c e).
Qed.

(* non-vacuity (Proofs/KernelExample.v, ex_mon): a monitor with delta = 1/2 beside a process with a
   per-element event that empties the locus, which also posts and un-posts an event of its own.
   The premises hold; observations at 0, 1/2, 1, 3/2, 2 interleave with the events at 2/3, 7/6, 13/6
   and record sizes 3 3 2 1 1. *)
Example C12_example_monitor :
  monitor_tb ex_mon (1 # 2) 1 /\ monitor_only ex_mon (1 # 2) 1 /\ nonneg_tb ex_mon /\ Forall (Qle 0) ex_mon_lns /\
  let r := stoch_run ex_mon 50 50 ex_mon_rands ex_mon_lns ex_mon_draws in
  r_stuck r = false /\ r_time r = 13 # 6 /\
  r_out r =
    [OPostedRep 0; OPosted 1 (3 # 4); OUnpost 1 (Some (Some (3 # 4)));
     OHandler 1 0 0 (EN 0) None; OObserve 0 [3%nat]; OTap 0 0 (NPost 1) (EN 0);
     OHandler 1 (1 # 2) (1 # 2) (EN 0) None; OObserve (1 # 2) [3%nat]; OTap (1 # 2) 0 (NPost 1) (EN 0);
     OHandler 0 (2 # 3) (2 # 3) (EN 0) (Some true); OTap (2 # 3) 1 (NEv 1 0) (EN 0);
     OHandler 1 1 1 (EN 0) None; OObserve 1 [2%nat]; OTap 1 0 (NPost 1) (EN 0);
     OHandler 0 (7 # 6) (7 # 6) (EN 1) (Some true); OTap (7 # 6) 1 (NEv 1 0) (EN 1);
     OHandler 1 (3 # 2) (3 # 2) (EN 0) None; OObserve (3 # 2) [1%nat]; OTap (3 # 2) 0 (NPost 1) (EN 0);
     OHandler 1 2 2 (EN 0) None; OObserve 2 [1%nat]; OTap 2 0 (NPost 1) (EN 0);
     OHandler 0 (13 # 6) (13 # 6) (EN 2) (Some true); OTap (13 # 6) 1 (NEv 1 0) (EN 2)].
Proof.
  split; [|split; [|split; [|split]]].
  - split.
    + reflexivity.
    + exists [], {| p_events := []; p_setup := [APostRep 0 (1 # 2) 1] |},
        [{| p_events := [ {| ev_elem := true; ev_locus := 0; ev_p := 1; ev_prog := 0 |} ];
            p_setup := [APost (3 # 4) 2; AUnpost 0 false] |}].
      split; [reflexivity|split; [reflexivity|]]. repeat constructor. cbn. discriminate.
    + intros. reflexivity.
    + intros k t e l w. destruct k as [|[|[|[|k]]]]; vm_compute; repeat constructor.
  - split.
    + reflexivity.
    + exists [], {| p_events := []; p_setup := [APostRep 0 (1 # 2) 1] |},
        [{| p_events := [ {| ev_elem := true; ev_locus := 0; ev_p := 1; ev_prog := 0 |} ];
            p_setup := [APost (3 # 4) 2; AUnpost 0 false] |}].
      split; [reflexivity|split; [reflexivity|]]. repeat constructor. cbn. discriminate.
    + intros k t e l w. destruct k as [|[|[|[|k]]]]; vm_compute; repeat constructor.
  - repeat constructor. unfold Qle. cbn. lia.
  - repeat constructor; unfold Qle; cbn; lia.
  - vm_compute. repeat split.
Qed.

(* ================================================================================================
   The component computation of the model (label merging, Model/NetStats.v) IS the partition of the node set
   into connected components: same label iff connected, every label is the least node of its class, the size
   list is that of EVERY partition into components, and the reported component count, largest and second-largest
   sizes are read off it.  Proofs/NetStatsComp.v. *)
Close Scope Q_scope.
From EpyV Require Import Proofs.NetStatsComp.

Theorem C12_labels_same_iff_connected :
  forall (nodes : list Z) (es : list edge),
         closed nodes es ->
         forall x y : Z,
         In x nodes ->
         In y nodes -> label_of (labels nodes es) x = label_of (labels nodes es) y <-> connected es x y.
Proof. exact labels_same_iff_connected. Qed.

Theorem C12_label_is_min_of_class :
  forall (nodes : list Z) (es : list edge),
         closed nodes es ->
         forall x : Z,
         In x nodes ->
         let l := label_of (labels nodes es) x in
         In l nodes /\
         connected es x l /\
         label_of (labels nodes es) l = l /\ (forall y : Z, In y nodes -> connected es x y -> (l <= y)%Z).
Proof. exact label_is_min_of_class. Qed.

Theorem C12_components_partition :
  forall (nodes : list Z) (es : list edge),
         NoDup nodes -> closed nodes es -> is_partition nodes es (components nodes es).
Proof. exact components_partition. Qed.

Theorem C12_component_sizes_spec :
  forall (nodes : list Z) (es : list edge),
         NoDup nodes ->
         closed nodes es ->
         exists cs : list (list Z),
           is_partition nodes es cs /\ NoDup (concat cs) /\ component_sizes nodes es = map (length (A:=Z)) cs.
Proof. exact component_sizes_spec. Qed.

Theorem C12_component_sizes_any_partition :
  forall (nodes : list Z) (es : list edge),
         NoDup nodes ->
         closed nodes es ->
         forall cs : list (list Z),
         is_partition nodes es cs -> Permutation (component_sizes nodes es) (map (length (A:=Z)) cs).
Proof. exact component_sizes_any_partition. Qed.

Theorem C12_representatives_spec :
  forall (nodes : list Z) (es : list edge),
         NoDup nodes ->
         closed nodes es ->
         let reps := representatives nodes es in
         NoDup reps /\
         (forall r : Z, In r reps -> In r nodes) /\
         (forall n : Z, In n nodes -> exists r : Z, In r reps /\ connected es n r) /\
         (forall r r' : Z, In r reps -> In r' reps -> connected es r r' -> r = r') /\
         length (component_sizes nodes es) = length reps.
Proof. exact representatives_spec. Qed.

Theorem C12_component_sizes_sum :
  forall (nodes : list Z) (es : list edge),
         NoDup nodes -> closed nodes es -> list_sum (component_sizes nodes es) = length nodes.
Proof. exact component_sizes_sum. Qed.

Theorem C12_stats_components_spec :
  forall (nodes : list Z) (es : list edge),
         NoDup nodes ->
         closed nodes es ->
         forall cs : list (list Z),
         is_partition nodes es cs ->
         let st := statistics nodes es in
         s_components st = length cs /\
         (forall c : list Z, In c cs -> length c <= s_lcc st) /\
         (cs <> [] -> exists c : list Z, In c cs /\ length c = s_lcc st) /\
         (length cs <= 1 -> s_slcc st = 0) /\
         (2 <= length cs ->
          exists (c1 c2 : list Z) (rest : list (list Z)),
            Permutation cs (c1 :: c2 :: rest) /\
            length c1 = s_lcc st /\
            length c2 = s_slcc st /\
            s_slcc st <= s_lcc st /\ (forall c : list Z, In c rest -> length c <= s_slcc st)).
Proof. exact stats_components_spec. Qed.

Theorem C12_stats_components_computed :
  forall (nodes : list Z) (es : list edge),
         NoDup nodes ->
         closed nodes es ->
         let st := statistics nodes es in
         s_components st = length (components nodes es) /\
         s_components st = length (representatives nodes es) /\
         (nodes <> [] -> 1 <= s_components st /\ 1 <= s_lcc st) /\ s_lcc st <= length nodes.
Proof. exact stats_components_computed. Qed.

Example C12_components_example :
  let nodes := [4%Z; 1%Z; 7%Z; 5%Z; 3%Z; 9%Z] in
         let es := [(5%Z, 9%Z); (9%Z, 9%Z); (7%Z, 1%Z); (3%Z, 9%Z); (9%Z, 5%Z); (5%Z, 9%Z)] in
         NoDup nodes /\
         closed nodes es /\
         labels nodes es = [(4%Z, 4%Z); (1%Z, 1%Z); (7%Z, 1%Z); (5%Z, 3%Z); (3%Z, 3%Z); (9%Z, 3%Z)] /\
         components nodes es = [[4%Z]; [1%Z; 7%Z]; [5%Z; 3%Z; 9%Z]] /\
         representatives nodes es = [4%Z; 1%Z; 3%Z] /\
         component_sizes nodes es = [1; 2; 3] /\
         s_components (statistics nodes es) = 3 /\
         s_lcc (statistics nodes es) = 3 /\
         s_slcc (statistics nodes es) = 2 /\ connected es 5 3 /\ ~ connected es 7 3 /\ ~ connected es 4 1.
Proof. exact components_example. Qed.

