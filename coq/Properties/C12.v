(* C12 - Monitor time series and network statistics report the true state.
   Statistics clause: theorems about Model/NetStats.v.  Monitor clause: theorems about the
   observation action of Model/Kernel.v (a Monitor is the repeating posted program [AObserve]). *)
From Coq Require Import List ZArith QArith Bool Arith Lia Permutation.
From EpyV Require Import Lib.Prelude Model.NetStats Proofs.NetStats.
Import ListNotations.
Close Scope Q_scope.

(* the reported histogram: entry i is the number of nodes of degree i, for i = 0 .. maximum degree *)
Theorem C12_histogram : forall nodes es, nodes <> [] ->
  length (s_kdist (statistics nodes es)) = S (max_degree nodes es) /\
  forall i, i <= max_degree nodes es -> nth i (s_kdist (statistics nodes es)) 0 = count_deg nodes es i.
Proof. intros nodes es H. split; [exact (histogram_length nodes es H) | intros i Hi; exact (histogram_nth nodes es i H Hi)]. Qed.

(* the reported maximum degree is the largest degree, and some node has it *)
Theorem C12_kmax : forall nodes es, nodes <> [] ->
  s_kmax (statistics nodes es) = max_degree nodes es /\
  (forall n, In n nodes -> degree es n <= s_kmax (statistics nodes es)) /\
  (exists n, In n nodes /\ degree es n = s_kmax (statistics nodes es)).
Proof.
  intros nodes es H.
  assert (E : s_kmax (statistics nodes es) = max_degree nodes es).
  { unfold statistics; cbn [s_kmax]. rewrite (histogram_length nodes es H). lia. }
  rewrite E. split; [reflexivity|]. split; [intros n Hn; exact (degree_le_max nodes es n Hn) | exact (max_degree_attained nodes es H)].
Qed.

(* order, edge count, and mean degree = (sum over i of i * h_i) / N = 2M / N *)
Theorem C12_order_edges_kmean : forall nodes es, NoDup nodes -> closed nodes es -> nodes <> [] ->
  s_N (statistics nodes es) = length nodes /\ s_M (statistics nodes es) = length es /\
  list_sum (s_kdist (statistics nodes es)) = length nodes /\
  (s_kmean (statistics nodes es) == inject_Z (Z.of_nat (2 * length es)) / inject_Z (Z.of_nat (length nodes)))%Q.
Proof.
  intros nodes es ND Hc Hne. split; [reflexivity|]. split; [reflexivity|]. split; [exact (histogram_total nodes es)|].
  unfold statistics; cbn [s_kmean]. rewrite (histogram_weighted nodes es ND Hc Hne). reflexivity.
Qed.

(* the component summary is read off the size list sorted in decreasing order: the number of
   components, the largest and the second largest size (0 when absent) *)
Theorem C12_components : forall nodes es,
  let cs := component_sizes nodes es in
  s_components (statistics nodes es) = length cs /\
  (forall x, In x cs -> x <= s_lcc (statistics nodes es)) /\
  (cs <> [] -> In (s_lcc (statistics nodes es)) cs) /\
  s_slcc (statistics nodes es) <= s_lcc (statistics nodes es).
Proof.
  intros nodes es cs. unfold statistics; cbn [s_components s_lcc s_slcc]. fold cs.
  assert (P := sort_desc_perm cs). assert (D := sort_desc_desc cs).
  split; [exact (Permutation_length P)|].
  destruct (sort_desc cs) as [|x l] eqn:E.
  - apply Permutation_nil in P. rewrite P. cbn. split; [intros ? []|]. split; [congruence | lia].
  - cbn [nth]. split; [intros y Hy; apply (desc_head_max x l D), (Permutation_in _ (Permutation_sym P)), Hy|].
    split; [intros _; apply (Permutation_in _ P); left; reflexivity|].
    destruct l as [|y l']; cbn [nth]; [lia|]. apply (desc_head_max x (y :: l') D). right; left; reflexivity.
Qed.

(* non-vacuity: a star with four leaves plus an isolated node *)
Example C12_example :
  let nodes := [0;1;2;3;4;5]%Z in let es := [(0,1);(0,2);(0,3);(0,4)]%Z in
  NoDup nodes /\ closed nodes es /\
  s_kmax (statistics nodes es) = 4 /\ s_kdist (statistics nodes es) = [1;4;0;0;1] /\
  s_components (statistics nodes es) = 2 /\ s_lcc (statistics nodes es) = 5 /\ s_slcc (statistics nodes es) = 1.
Proof.
  cbv zeta. split; [repeat constructor; cbn; intuition discriminate|].
  split; [|vm_compute; repeat split; reflexivity].
  intros e He. cbn in He. repeat (destruct He as [<-|He]; [cbn; tauto|]). destruct He.
Qed.
