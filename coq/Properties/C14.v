(* C14 - Percolate keeps a floor(T*M)-subset of the edges, chosen by the shuffled order.
   Only statements here; every proof is [exact <lemma of Proofs/Percolate.v>]. *)
From Coq Require Import List ZArith QArith Qround Bool Arith Permutation.
From EpyV Require Import Lib.Prelude Model.Percolate Proofs.Percolate.
From EpyV Require Import Proofs.PermCount.
Import ListNotations.

(* occupied ++ unoccupied is a rearrangement of the edge list, and the two are disjoint *)
Theorem C14_partition : forall nodes es perm T, NoDupU es -> is_perm perm (length es) ->
  let m := percolate nodes es perm T in
  Permutation (occupied m ++ unoccupied m) es /\ (forall e, In e (occupied m) -> In e (unoccupied m) -> False).
Proof. intros nodes es perm T Hnd Hp. split; [exact (partition_perm nodes es perm T Hp) | exact (partition_disjoint nodes es perm T Hnd Hp)]. Qed.

(* the working network keeps exactly the occupied edges: a sub-multiset of the original, no edge twice *)
Theorem C14_edges_are_occupied : forall nodes es perm T, NoDupU es -> is_perm perm (length es) ->
  let m := percolate nodes es perm T in
  Permutation (edges_after m) (occupied m) /\ (forall e, In e (edges_after m) -> In e es) /\ NoDupU (edges_after m).
Proof. intros nodes es perm T Hnd Hp. split; [exact (edges_after_perm nodes es perm T Hnd Hp)|split; [exact (edges_after_subset nodes es perm T Hnd Hp) | exact (edges_after_NoDupU nodes es perm T Hnd Hp)]]. Qed.

(* exactly floor(T*M) edges remain, for every T in [0,1] *)
Theorem C14_count : forall nodes es perm T, NoDupU es -> is_perm perm (length es) -> (0 <= T)%Q -> (T <= 1)%Q ->
  let k := length (edges_after (percolate nodes es perm T)) in
  (inject_Z (Z.of_nat k) <= inject_Z (Z.of_nat (length es)) * T)%Q /\
  (inject_Z (Z.of_nat (length es)) * T < inject_Z (Z.of_nat k) + 1)%Q.
Proof.
  intros nodes es perm T Hnd Hp H0 H1. cbv zeta.
  rewrite (edges_after_count nodes es perm T Hnd Hp), (Nat.min_l _ _ (occ_of_le (length es) T H0 H1)).
  exact (occ_of_spec (length es) T H0).
Qed.

Theorem C14_none_for_0 : forall nodes es perm, NoDupU es -> is_perm perm (length es) ->
  edges_after (percolate nodes es perm 0%Q) = [].
Proof.
  intros nodes es perm Hnd Hp. apply length_zero_iff_nil.
  rewrite (edges_after_count nodes es perm 0%Q Hnd Hp), occ_of_0. reflexivity.
Qed.

Theorem C14_all_for_1 : forall nodes es perm, NoDupU es -> is_perm perm (length es) ->
  Permutation (edges_after (percolate nodes es perm 1%Q)) es.
Proof.
  intros nodes es perm Hnd Hp.
  eapply perm_trans; [exact (edges_after_perm nodes es perm 1%Q Hnd Hp)|].
  unfold percolate. rewrite occ_of_1. cbn.
  rewrite <- (apply_perm_length es perm Hp), firstn_all. exact (apply_perm_Permutation _ es perm Hp).
Qed.

Theorem C14_nodes_same : forall nodes es perm T, nodes_after (percolate nodes es perm T) = nodes.
Proof. reflexivity. Qed.

(* relabelling the edges by any map commutes with the choice: the retained set depends on the
   edges only through their positions in the shuffled order (the basis of uniformity) *)
Theorem C14_equivariant : forall (A B : Type) (s : A -> B) k (p : list A),
  firstn k (map s p) = map s (firstn k p) /\ skipn k (map s p) = map s (skipn k p).
Proof. intros. split; [exact (prefix_equivariant s k p) | exact (suffix_equivariant s k p)]. Qed.

(* UNIFORMITY, as a counting theorem.  [perms l] (Proofs/PermCount.v) lists all permutations of l by inserting the
   head at every position; [perms (seq 0 n)] is the range of the shuffle oracle: every index permutation, once
   each, n! of them (C14_shuffles).  Applying all of them to es lists every rearrangement of es exactly once. *)
Theorem C14_shuffles : forall n,
  NoDup (perms (seq 0 n)) /\ length (perms (seq 0 n)) = fact n /\
  (forall perm, In perm (perms (seq 0 n)) <-> is_perm perm n).
Proof. exact index_perms_spec. Qed.

Theorem C14_shuffles_rearrange : forall (es : list edge),
  map (apply_perm (0,0)%Z es) (perms (seq 0 (length es))) = perms es /\
  (forall p, In p (perms es) <-> Permutation p es).
Proof. intros es. split; [exact (apply_all_perms (0,0)%Z es) | intros p; exact (perms_spec es p)]. Qed.

(* Over all M! shuffles of an edge list without repeated undirected edges, the occupied list of
   Percolate.percolate has the same elements as a given k-subset S of es (k = min(floor(M*T), M), the number
   retained) for exactly k! * (M-k)! shuffles, whichever subset S is: with a uniform shuffle every k-subset is
   retained with probability k!(M-k)!/M! = 1/C(M,k).  [same_edges a b = true] iff a and b have the same elements. *)
Theorem C14_uniform : forall nodes es T S,
  NoDupU es -> NoDup S -> incl S es -> length S = Nat.min (occ_of (length es) T) (length es) ->
  length (filter (fun perm => same_edges (occupied (percolate nodes es perm T)) S) (perms (seq 0 (length es))))
  = (fact (length S) * fact (length es - length S))%nat.
Proof. exact occupied_count. Qed.

(* the same without the closed form: any two k-subsets are hit by equally many shuffles *)
Theorem C14_uniform_pair : forall nodes es T S S',
  NoDupU es -> NoDup S -> NoDup S' -> incl S es -> incl S' es ->
  length S = Nat.min (occ_of (length es) T) (length es) ->
  length S' = Nat.min (occ_of (length es) T) (length es) ->
  length (filter (fun perm => same_edges (occupied (percolate nodes es perm T)) S) (perms (seq 0 (length es))))
  = length (filter (fun perm => same_edges (occupied (percolate nodes es perm T)) S') (perms (seq 0 (length es)))).
Proof. exact occupied_uniform. Qed.

Theorem C14_same_edges_spec : forall a b, same_edges a b = true <-> (forall e, In e a <-> In e b).
Proof. exact same_edges_spec. Qed.

(* the underlying fact for any type with a boolean equality: of the n! permutations of a duplicate-free list,
   exactly k!(n-k)! have a given k-subset as the set of their first k elements *)
Theorem C14_prefix_count : forall (A : Type) (eqb : A -> A -> bool), (forall x y, eqb x y = true <-> x = y) ->
  forall es S : list A, NoDup es -> NoDup S -> incl S es ->
  length (perms es) = fact (length es) /\
  length (filter (fun p => same_elts eqb (firstn (length S) p) S) (perms es))
  = (fact (length S) * fact (length es - length S))%nat.
Proof. intros A eqb He es S H1 H2 H3. split; [exact (perms_length es) | exact (prefix_count eqb He es S H1 H2 H3)]. Qed.

(* non-vacuity of C14_uniform: 4 edges, T = 1/2, S a 2-subset (given in the other order):
   4 = 2!*2! of the 24 shuffles retain it *)
Example C14_uniform_example :
  let es := [(0,1); (1,2); (0,2); (2,3)]%Z in let S := [(0,2); (0,1)]%Z in
  NoDupU es /\ NoDup S /\ incl S es /\ length S = Nat.min (occ_of (length es) (1#2)) (length es) /\
  length (perms (seq 0 (length es))) = 24%nat /\
  length (filter (fun perm => same_edges (occupied (percolate [0;1;2;3]%Z es perm (1#2))) S)
                 (perms (seq 0 (length es)))) = 4%nat.
Proof.
  cbv zeta. split; [|split; [|split; [|split; [|split]]]]; try reflexivity.
  - unfold NoDupU. cbn. repeat constructor; cbn; intuition discriminate.
  - repeat constructor; cbn; intuition discriminate.
  - intros e He. cbn in *. intuition.
Qed.

(* non-vacuity: a triangle with a pendant edge, T = 1/2, a non-trivial shuffle *)
Example C14_example :
  let es := [(0,1); (1,2); (0,2); (2,3)]%Z in
  NoDupU es /\ is_perm [2;0;3;1]%nat (length es) /\
  edges_after (percolate [0;1;2;3]%Z es [2;0;3;1]%nat (1#2)) = [(0,1); (0,2)]%Z.
Proof.
  cbv zeta. split; [|split; [|reflexivity]].
  - unfold NoDupU. cbn. repeat constructor; cbn; intuition discriminate.
  - unfold is_perm. cbn. apply Permutation_sym.
    apply (perm_trans (l' := [0;2;1;3]%nat)); [repeat constructor|].
    apply (perm_trans (l' := [2;0;1;3]%nat)); [repeat constructor|].
    apply perm_skip, perm_skip, perm_swap.
Qed.
