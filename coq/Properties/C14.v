(* C14 - Percolate keeps a floor(T*M)-subset of the edges, chosen by the shuffled order.
   Only statements here; every proof is [exact <lemma of Proofs/Percolate.v>]. *)
From Coq Require Import List ZArith QArith Qround Bool Arith Permutation.
From EpyV Require Import Lib.Prelude Model.Percolate Proofs.Percolate.
Import ListNotations.

(* occupied ++ unoccupied is a rearrangement of the edge list, and the two are disjoint *)
Theorem C14_partition : forall nodes es perm T, NoDupU es -> is_perm perm (length es) ->
  let m := percolate nodes es perm T in
  Permutation (occupied m ++ unoccupied m) es /\ (forall e, In e (occupied m) -> In e (unoccupied m) -> False).
Proof. intros nodes es perm T Hnd Hp. split; [exact (partition_perm nodes es perm T Hp) | exact (partition_disjoint nodes es perm T Hnd Hp)]. Qed.

(* the working network keeps exactly the occupied edges: a sub-multiset of the original, no edge twice *)
Theorem C14_edges_are_occupied : forall nodes es perm T, NoDupU es -> is_perm perm (length es) ->
  let m := percolate nodes es perm T in
  Permutation (edges_after m) (occupied m) /\ (forall e, In e (edges_after m) -> In e es) /\ NoDupU (edges_after m).
Proof. intros nodes es perm T Hnd Hp. split; [exact (edges_after_perm nodes es perm T Hnd Hp)|split; [exact (edges_after_subset nodes es perm T Hnd Hp) | exact (edges_after_NoDupU nodes es perm T Hnd Hp)]]. Qed.

(* exactly floor(T*M) edges remain, for every T in [0,1] *)
Theorem C14_count : forall nodes es perm T, NoDupU es -> is_perm perm (length es) -> (0 <= T)%Q -> (T <= 1)%Q ->
  let k := length (edges_after (percolate nodes es perm T)) in
  (inject_Z (Z.of_nat k) <= inject_Z (Z.of_nat (length es)) * T)%Q /\
  (inject_Z (Z.of_nat (length es)) * T < inject_Z (Z.of_nat k) + 1)%Q.
Proof.
  intros nodes es perm T Hnd Hp H0 H1. cbv zeta.
  rewrite (edges_after_count nodes es perm T Hnd Hp), (Nat.min_l _ _ (occ_of_le (length es) T H0 H1)).
  exact (occ_of_spec (length es) T H0).
Qed.

Theorem C14_none_for_0 : forall nodes es perm, NoDupU es -> is_perm perm (length es) ->
  edges_after (percolate nodes es perm 0%Q) = [].
Proof.
  intros nodes es perm Hnd Hp. apply length_zero_iff_nil.
  rewrite (edges_after_count nodes es perm 0%Q Hnd Hp), occ_of_0. reflexivity.
Qed.

Theorem C14_all_for_1 : forall nodes es perm, NoDupU es -> is_perm perm (length es) ->
  Permutation (edges_after (percolate nodes es perm 1%Q)) es.
Proof.
  intros nodes es perm Hnd Hp.
  eapply perm_trans; [exact (edges_after_perm nodes es perm 1%Q Hnd Hp)|].
  unfold percolate. rewrite occ_of_1. cbn.
  rewrite <- (apply_perm_length es perm Hp), firstn_all. exact (apply_perm_Permutation _ es perm Hp).
Qed.

Theorem C14_nodes_same : forall nodes es perm T, nodes_after (percolate nodes es perm T) = nodes.
Proof. reflexivity. Qed.

(* relabelling the edges by any map commutes with the choice: the retained set depends on the
   edges only through their positions in the shuffled order (the basis of uniformity) *)
Theorem C14_equivariant : forall (A B : Type) (s : A -> B) k (p : list A),
  firstn k (map s p) = map s (firstn k p) /\ skipn k (map s p) = map s (skipn k p).
Proof. intros. split; [exact (prefix_equivariant s k p) | exact (suffix_equivariant s k p)]. Qed.

(* non-vacuity: a triangle with a pendant edge, T = 1/2, a non-trivial shuffle *)
Example C14_example :
  let es := [(0,1); (1,2); (0,2); (2,3)]%Z in
  NoDupU es /\ is_perm [2;0;3;1]%nat (length es) /\
  edges_after (percolate [0;1;2;3]%Z es [2;0;3;1]%nat (1#2)) = [(0,1); (0,2)]%Z.
Proof.
  cbv zeta. split; [|split; [|reflexivity]].
  - unfold NoDupU. cbn. repeat constructor; cbn; intuition discriminate.
  - unfold is_perm. cbn. apply Permutation_sym.
    apply (perm_trans (l' := [0;2;1;3]%nat)); [repeat constructor|].
    apply (perm_trans (l' := [2;0;1;3]%nat)); [repeat constructor|].
    apply perm_skip, perm_skip, perm_swap.
Qed.
